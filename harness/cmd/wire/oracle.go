package main

import (
	"bytes"
	"fmt"
	"runtime/metrics"
	"syscall"
	"time"

	"verif/harness/internal/hx"
)

// report collects what one decode experiment found.
type report struct {
	fails  [][2]string // key, message
	counts []string
	obs    string
}

func (r *report) fail(key, format string, a ...any) {
	if k, ok := keyAlias[key]; ok {
		key = k
	}
	r.fails = append(r.fails, [2]string{key, fmt.Sprintf(format, a...)})
}
func (r *report) count(n string) { r.counts = append(r.counts, n) }

var allocSample = []metrics.Sample{{Name: "/gc/heap/allocs:bytes"}}

func heapAllocs() uint64 {
	metrics.Read(allocSample)
	return allocSample[0].Value.Uint64()
}

func cpuTime() time.Duration {
	var ru syscall.Rusage
	if err := syscall.Getrusage(syscall.RUSAGE_SELF, &ru); err != nil {
		return 0
	}
	return time.Duration(ru.Utime.Nano() + ru.Stime.Nano())
}

// resource limits of one decode: the largest single buffer the protocol allows is
// payload.MaxSize = 32 MiB (plus the same again when it is compressed), so a decoder that allocates more
// than 3x that plus 64 bytes per input byte is reported; CPU time (not wall time: the machine is shared).
const (
	allocBase    = 96 << 20
	allocPerByte = 64
	cpuLimit     = time.Second
)

type decodeResult struct {
	v        any
	rest     int
	err      error
	panicked bool
	pval     any
	alloc    uint64
	cpu      time.Duration
}

func safeDecode(c *codec, b []byte) (res decodeResult) {
	a0, t0 := heapAllocs(), cpuTime()
	defer func() {
		if r := recover(); r != nil {
			res.panicked, res.pval = true, r
		}
		res.alloc = heapAllocs() - a0
		res.cpu = cpuTime() - t0
	}()
	res.v, res.rest, res.err = c.dec(b)
	return
}

func safeEnc(c *codec, v any) (b []byte, err error) {
	defer func() {
		if r := recover(); r != nil {
			err = errPanic(r)
		}
	}()
	return c.enc(v)
}

func safeStr(f func(any) string, v any) (s string, err error) {
	defer func() {
		if r := recover(); r != nil {
			err = errPanic(r)
		}
	}()
	return f(v), nil
}

func (c *codec) normFn() func(any) string {
	if c.norm != nil {
		return c.norm
	}
	return c.showFn()
}

// keyAlias maps generic failure keys onto the specific key of a known root cause.
var keyAlias = map[string]string{
	"aer-decode-alloc": "aer-uncapped-array", // AppExecResult.DecodeBinary: ReadArray(&Events/&Invocations) without a cap
	"aer-decode-slow":  "aer-uncapped-array",
}

func (c *codec) showFn() func(any) string {
	if c.show != nil {
		return c.show
	}
	return dumpAny
}

// checkBytes is the generic oracle of C17 on one decoder and one byte string:
// no panic / bounded time and allocation; an accepted value re-encodes, the re-encoding decodes to the
// same value with the same hash and size, the reported size is the length of the encoding, the JSON form
// round-trips.
func checkBytes(c *codec, b []byte, rep *report) {
	d := safeDecode(c, b)
	if d.panicked {
		rep.fail(c.name+"-decode-panic", "decoder panicked (%v) on %s", d.pval, trunc(hx.Hex(b), 200))
		rep.obs = "panic"
		return
	}
	if d.alloc > allocBase+allocPerByte*uint64(len(b)) {
		rep.fail(c.name+"-decode-alloc", "decoding %d bytes allocated %d MiB: %s", len(b), d.alloc>>20, trunc(hx.Hex(b), 200))
	}
	if d.cpu > cpuLimit {
		rep.fail(c.name+"-decode-slow", "decoding %d bytes took %v CPU: %s", len(b), d.cpu, trunc(hx.Hex(b), 200))
	}
	if d.err != nil {
		rep.obs = "err"
		return
	}
	v := d.v
	show := c.showFn()
	sv, err := safeStr(show, v)
	if err != nil {
		rep.fail(c.name+"-value-panic", "dumping the decoded value panicked on %s", trunc(hx.Hex(b), 200))
		rep.obs = "ok ?"
		return
	}
	norm := c.normFn()
	nv, _ := safeStr(norm, v)
	b2, err := safeEnc(c, v)
	if nv2, _ := safeStr(norm, v); nv2 != nv {
		rep.fail(c.name+"-encode-mutates", "encoding changes the value being encoded: %s -> %s (input %s)", trunc(nv, 200), trunc(nv2, 200), trunc(hx.Hex(b), 120))
	}
	if err != nil {
		key := c.name + "-reencode-fails"
		if c.reencKey != nil {
			key = c.reencKey(b, c.name)
		}
		if _, isPanic := err.(panicErr); isPanic {
			key = c.name + "-reencode-panic"
		}
		rep.fail(key, "decoded value cannot be encoded (%v): %s", err, trunc(hx.Hex(b), 200))
		rep.obs = fmt.Sprintf("ok rest=%d enc=? v=%s", d.rest, sv)
		return
	}
	h := "-"
	if c.hash != nil {
		if h, err = safeStr(c.hash, v); err != nil {
			rep.fail(c.name+"-hash-panic", "Hash() of the decoded value panicked: %s", trunc(hx.Hex(b), 200))
			h = "?"
		}
	}
	rep.obs = fmt.Sprintf("ok rest=%d enc=%s hash=%s v=%s", d.rest, hx.Hex(b2), h, sv)
	if c.size != nil {
		if sz, err := safeInt(c.size, v); err != nil {
			rep.fail(c.name+"-size-panic", "Size() panicked: %s", trunc(hx.Hex(b), 200))
		} else if sz >= 0 && sz != len(b2) {
			rep.fail(c.name+"-size", "reported size %d, encoding has %d bytes: %s", sz, len(b2), trunc(hx.Hex(b), 200))
		}
	}
	consumed := b[:len(b)-d.rest]
	if bytes.Equal(consumed, b2) {
		rep.count("bytes:canonical")
	} else {
		rep.count("bytes:accepted-noncanonical")
	}
	// the re-encoding decodes to the same value, hash and size
	d2 := safeDecode(c, b2)
	switch {
	case d2.panicked:
		rep.fail(c.name+"-decode-panic", "decoder panicked (%v) on re-encoding %s", d2.pval, trunc(hx.Hex(b2), 200))
		return
	case d2.err != nil:
		rep.fail(c.name+"-reencode-rejected", "re-encoding of an accepted value is rejected (%v): input %s re-encoding %s", d2.err, trunc(hx.Hex(b), 200), trunc(hx.Hex(b2), 200))
		return
	case d2.rest != 0:
		rep.fail(c.name+"-reencode-rest", "re-encoding not consumed entirely (%d left): %s", d2.rest, trunc(hx.Hex(b2), 200))
		return
	}
	sv2, err := safeStr(norm, d2.v)
	if err != nil || sv2 != nv {
		rep.fail(c.name+"-reencode-differs", "decode(encode(decode b)) != decode b: b=%s: %s vs %s", trunc(hx.Hex(b), 200), trunc(sv, 200), trunc(sv2, 200))
		return
	}
	if b3, err := safeEnc(c, d2.v); err != nil || !bytes.Equal(b3, b2) {
		rep.fail(c.name+"-reencode-unstable", "encode(decode(encode v)) != encode v for b=%s", trunc(hx.Hex(b), 200))
	}
	if c.hash != nil {
		if h2, err := safeStr(c.hash, d2.v); err != nil || h2 != h {
			rep.fail(c.name+"-hash-reencode", "hash changes across re-encoding: %s vs %s, b=%s", h, h2, trunc(hx.Hex(b), 200))
		}
	}
	if c.extra != nil {
		func() {
			defer func() {
				if r := recover(); r != nil {
					rep.fail(c.name+"-extra-panic", "additional check panicked: %v", r)
				}
			}()
			c.extra(v, rep)
		}()
	}
	// JSON form
	if c.jsonRT != nil && (c.jsonOK == nil || c.jsonOK(v)) {
		v3, err := safeJSON(c, v)
		if err == errNoJSON {
			rep.count("json:no-json-form")
			return
		}
		if err != nil {
			key := c.name + "-json-roundtrip"
			if _, isPanic := err.(panicErr); isPanic {
				key = c.name + "-json-panic"
			}
			rep.fail(key, "JSON round trip fails (%v) for b=%s", err, trunc(hx.Hex(b), 200))
			return
		}
		rep.count("json:roundtrip")
		sv3, err := safeStr(norm, v3)
		if err != nil || sv3 != nv {
			rep.fail(c.name+"-json-differs", "JSON round trip changes the value: b=%s: %s vs %s", trunc(hx.Hex(b), 200), trunc(sv, 200), trunc(sv3, 200))
			return
		}
		if b4, err := safeEnc(c, v3); !c.looseEnc && (err != nil || !bytes.Equal(b4, b2)) {
			rep.fail(c.name+"-json-encoding", "value read from JSON encodes differently: b=%s", trunc(hx.Hex(b), 200))
		}
		if c.hash != nil {
			if h3, err := safeStr(c.hash, v3); err != nil || h3 != h {
				rep.fail(c.name+"-json-hash", "hash changes across the JSON round trip: %s vs %s, b=%s", h, h3, trunc(hx.Hex(b), 200))
			}
		}
	}
}

func safeInt(f func(any) int, v any) (n int, err error) {
	defer func() {
		if r := recover(); r != nil {
			err = errPanic(r)
		}
	}()
	return f(v), nil
}

func safeJSON(c *codec, v any) (out any, err error) {
	defer func() {
		if r := recover(); r != nil {
			err = errPanic(r)
		}
	}()
	return c.jsonRT(v)
}
