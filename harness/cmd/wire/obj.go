package main

// A Transaction / Extensible OBJECT through a random sequence of methods (decode into it, Size(), Hash(), Copy(),
// in-place edits, Bytes()): the Lean driver keeps the same object with its cached size/hash (Model/Wire/Obj.lean),
// every observation is compared. Direct oracle at the end of a sequence that went through Copy(): the caches of an
// edited copy are those of its encoding.

import (
	"fmt"

	"github.com/nspcc-dev/neo-go/pkg/core/transaction"
	"github.com/nspcc-dev/neo-go/pkg/io"
	"github.com/nspcc-dev/neo-go/pkg/network/payload"

	"verif/harness/internal/hx"
	"verif/harness/internal/prng"
)

func (rn *runner) objCase(k int, r *prng.R) {
	o := rn.o
	defer func() {
		if p := recover(); p != nil {
			o.Fail("obj-panic", k, "a method sequence on one object panicked: %v", p)
		}
	}()
	g := newG(r)
	g.allowInvalid, g.big, g.light = false, false, true
	if r.Chance(1, 4) {
		rn.extObjCase(k, r, g)
		return
	}
	var t *transaction.Transaction
	txBytes := func() []byte {
		b := g.tx().Bytes()
		if r.Chance(1, 4) { // a content-preserving non-canonical form
			if _, cuts, err := encodeSeg(mustTx(b)); err == nil {
				for tries := 0; tries < 6; tries++ {
					nb, mut := mutate(r, b, cuts)
					if mut == mutNonMin || mut == mutBool || mut == mutKey {
						return nb
					}
				}
			}
		}
		return b
	}
	steps := 3 + r.Intn(8)
	// sizeUnset / hashUnset: the cache was reset (fresh object, Copy()) and not filled since: the next Size() / Hash()
	// must report the CURRENT content, whatever was edited in between
	sizeUnset, hashUnset := false, false
	seq := ""
	for i := 0; i < steps; i++ {
		op := r.Weighted([]int{12, 14, 12, 16, 16, 10, 8, 6, 6})
		if t == nil && op > 2 {
			op = r.Intn(3)
		}
		switch op {
		case 0:
			t = &transaction.Transaction{}
			o.Line("txo new", "ok")
			sizeUnset, hashUnset = true, true
			seq += "N"
		case 1:
			b := txBytes()
			nt, err := transaction.NewTransactionFromBytes(b)
			if err != nil {
				o.Line("txo frombytes "+hx.Hex(b), "err")
				t = nil
			} else {
				o.Line("txo frombytes "+hx.Hex(b), "ok")
				t = nt
			}
			sizeUnset, hashUnset = false, false
			seq += "F"
		case 2:
			if t == nil {
				t = &transaction.Transaction{}
				o.Line("txo new", "ok")
				sizeUnset, hashUnset = true, true
			}
			b := txBytes()
			br := io.NewBinReaderFromBuf(b)
			t.DecodeBinary(br)
			if br.Err != nil {
				o.Line("txo dec "+hx.Hex(b), "err")
				t = nil
			} else {
				o.Line("txo dec "+hx.Hex(b), "ok")
			}
			hashUnset = false // DecodeBinary recomputes the hash; the size only when it was unset (then it is right)
			sizeUnset = false
			seq += "D"
		case 3:
			o.Line("txo size", fmt.Sprintf("%d", t.Size()))
			if sizeUnset {
				if b := t.Bytes(); t.Size() != len(b) {
					o.Fail("tx-copy-size", k, "sequence %ss: Size() with an unset cache = %d, the encoding has %d bytes", seq, t.Size(), len(b))
				}
			}
			sizeUnset = false
			seq += "s"
		case 4:
			o.Line("txo hash", hx.Hex(t.Hash().BytesBE()))
			if hashUnset {
				if fresh, err := transaction.NewTransactionFromBytes(t.Bytes()); err == nil && fresh.Hash() != t.Hash() {
					o.Fail("tx-copy-hash", k, "sequence %sh: Hash() with an unset cache %s, a fresh decode of the encoding has %s", seq, t.Hash().StringBE(), fresh.Hash().StringBE())
				}
			}
			hashUnset = false
			seq += "h"
		case 5:
			t = t.Copy()
			o.Line("txo copy", "ok")
			sizeUnset, hashUnset = true, true
			seq += "C"
		case 6:
			s := r.Bytes(1 + r.Intn(40))
			t.Script = s
			o.Line("txo script "+hx.Hex(s), "ok")
			seq += "e"
		case 7:
			n := uint32(r.U64())
			t.Nonce = n
			o.Line(fmt.Sprintf("txo nonce %d", n), "ok")
			seq += "e"
		default:
			j := r.Intn(3)
			s := r.Bytes(r.Intn(70))
			if j < len(t.Scripts) {
				t.Scripts[j].InvocationScript = s
			}
			o.Line(fmt.Sprintf("txo inv %d %s", j, hx.Hex(s)), "ok")
			seq += "e"
		}
		if t != nil && r.Chance(1, 3) {
			o.Line("txo bytes", hx.Hex(t.Bytes()))
		}
	}
	o.Count("obj:tx")
	o.Seen(fmt.Sprintf("obj/tx/%s/%x", seq, hashShort([]byte(seq))+uint64(k)))
}

func mustTx(b []byte) *transaction.Transaction {
	t, err := transaction.NewTransactionFromBytes(b)
	if err != nil {
		return &transaction.Transaction{}
	}
	return t
}

func (rn *runner) extObjCase(k int, r *prng.R, g *G) {
	o := rn.o
	var e *payload.Extensible
	steps := 3 + r.Intn(6)
	for i := 0; i < steps; i++ {
		op := r.Intn(4)
		if e == nil {
			op = 0
		}
		switch op {
		case 0:
			e = payload.NewExtensible()
			o.Line("exto new", "ok")
		case 1:
			b, _ := encBytes(g.extensible())
			br := io.NewBinReaderFromBuf(b)
			e.DecodeBinary(br)
			if br.Err != nil {
				o.Line("exto dec "+hx.Hex(b), "err")
				e = nil
			} else {
				o.Line("exto dec "+hx.Hex(b), "ok")
			}
		case 2:
			o.Line("exto hash", hx.Hex(e.Hash().BytesBE()))
		default:
			b, _ := encBytes(e)
			o.Line("exto bytes", hx.Hex(b))
		}
	}
	o.Count("obj:extensible")
	o.Seen(fmt.Sprintf("obj/ext/%d", k))
}
