package main

// Every type that can be decoded through MORE THAN ONE entry point (a FromBytes-style constructor, DecodeBinary on a
// stream, decoding as a field of a container, as the payload of a P2P message): the same bytes go through all of
// them; they must give the same verdict and the same value, and what is accepted must re-encode to bytes that every
// entry point accepts again as the same value. (The identity/size of a TRANSACTION along its arrival paths has its own
// experiment with its exactly classified exceptions: paths.go.)
//
// Integrity fields: for types that carry one (the NEF checksum) non-canonical spellings of the content (non-minimal
// var-uints, bool byte 2, …) are generated in two variants — the integrity field left as computed over the CANONICAL
// bytes, and RECOMPUTED over the bytes as written. The code verifies the checksum of a NEF over the re-encoding of the
// decoded file, so the first variant is accepted (and canonicalised), the second rejected, at every entry point.

import (
	"bytes"
	"crypto/elliptic"
	"encoding/hex"
	"fmt"

	"github.com/nspcc-dev/neo-go/pkg/core/block"
	"github.com/nspcc-dev/neo-go/pkg/core/mpt"
	"github.com/nspcc-dev/neo-go/pkg/core/state"
	"github.com/nspcc-dev/neo-go/pkg/core/transaction"
	"github.com/nspcc-dev/neo-go/pkg/crypto/hash"
	"github.com/nspcc-dev/neo-go/pkg/crypto/keys"
	"github.com/nspcc-dev/neo-go/pkg/encoding/base58"
	"github.com/nspcc-dev/neo-go/pkg/io"
	"github.com/nspcc-dev/neo-go/pkg/network"
	"github.com/nspcc-dev/neo-go/pkg/network/payload"
	"github.com/nspcc-dev/neo-go/pkg/smartcontract/manifest"
	"github.com/nspcc-dev/neo-go/pkg/smartcontract/nef"
	"github.com/nspcc-dev/neo-go/pkg/util"
	"github.com/nspcc-dev/neo-go/pkg/vm/stackitem"

	"verif/harness/internal/hx"
	"verif/harness/internal/prng"
)

// entryRes: verdict of one entry point. rest = bytes left unread (-1: the entry point does not tell; strict entry
// points refuse any). dump = canonical text of the value (+ identity where the type has one); enc = its re-encoding.
type entryRes struct {
	ok   bool
	rest int
	dump string
	enc  []byte
	// norm (optional): the form compared ACROSS A RE-ENCODING when the encoder by design writes less than the decoder
	// accepts (trie nodes: a child accepted inline is written as its hash); empty: dump is compared
	norm string
}

type entryPoint struct {
	name   string
	strict bool // refuses bytes after the value
	super  bool // accepts a superset (protected item decoder): only "others accept => it accepts the same value" is required
	run    func(b []byte) entryRes
}

type multiType struct {
	name   string
	points []entryPoint
	gen    func(g *G) ([]byte, []int)
	reseal func(b []byte) []byte // integrity field recomputed over the bytes as written (nil: the type has none)
}

func safeEntry(p entryPoint, b []byte) (res entryRes, panicked bool) {
	defer func() {
		if r := recover(); r != nil {
			res, panicked = entryRes{}, true
		}
	}()
	return p.run(b), false
}

func nefDump(f *nef.File) string { var s sb; showNef(&s, f); return s.String() }

func sealNEF(b []byte) []byte {
	if len(b) < 4 {
		return b
	}
	nb := append([]byte{}, b...)
	copy(nb[len(nb)-4:], hash.Checksum(nb[:len(nb)-4]))
	return nb
}

// contractItemWithNEF: the stack item ContractManagement stores, with the given bytes as its NEF field.
func contractItemWithNEF(raw []byte) stackitem.Item {
	m, _ := manifest.NewManifest("c").ToStackItem()
	return stackitem.NewArray([]stackitem.Item{stackitem.Make(1), stackitem.Make(0), stackitem.NewByteArray(make([]byte, 20)),
		stackitem.NewByteArray(raw), m})
}

func p2pPayload(cmd network.CommandType, sr bool, b []byte, view func(payload.Payload) (string, []byte)) entryRes {
	w := io.NewBufBinWriter()
	w.WriteB(0)
	w.WriteB(byte(cmd))
	w.WriteVarBytes(b)
	m := &network.Message{StateRootInHeader: sr}
	r := io.NewBinReaderFromBuf(w.Bytes())
	if err := m.Decode(r); err != nil || m.Payload == nil {
		return entryRes{}
	}
	d, e := view(m.Payload)
	return entryRes{ok: true, rest: -1, dump: d, enc: e}
}

func multiTypes() []multiType {
	serEnc := func(v io.Serializable) []byte { b, _ := encBytes(v); return b }
	var out []multiType

	// ---- NEF file ----
	out = append(out, multiType{
		name: "nef",
		gen: func(g *G) ([]byte, []int) {
			big := g.big
			g.big = false
			b, cuts, _ := encodeSeg(g.nef())
			g.big = big
			return b, cuts
		},
		reseal: sealNEF,
		points: []entryPoint{
			{name: "FileFromBytes", run: func(b []byte) entryRes {
				f, err := nef.FileFromBytes(b)
				if err != nil {
					return entryRes{}
				}
				e, _ := f.Bytes()
				return entryRes{ok: true, rest: -1, dump: nefDump(&f), enc: e}
			}},
			{name: "DecodeBinary", run: func(b []byte) entryRes {
				if len(b) > stackitem.MaxSize { // (FileFromBytes bounds the input; nothing else differs)
					return entryRes{}
				}
				f := &nef.File{}
				r := io.NewBinReaderFromBuf(b)
				f.DecodeBinary(r)
				if r.Err != nil {
					return entryRes{}
				}
				return entryRes{ok: true, rest: r.Len(), dump: nefDump(f), enc: serEnc(f)}
			}},
			{name: "Contract.FromStackItem", run: func(b []byte) entryRes {
				c := new(state.Contract)
				if err := c.FromStackItem(contractItemWithNEF(b)); err != nil {
					return entryRes{}
				}
				e, _ := c.NEF.Bytes()
				return entryRes{ok: true, rest: -1, dump: nefDump(&c.NEF), enc: e}
			}},
			{name: "stored-contract", run: func(b []byte) entryRes {
				sw := &segWriter{}
				w := io.NewBinWriterFromIO(sw)
				if !writeItem(w, contractItemWithNEF(b), 0) {
					return entryRes{}
				}
				c := new(state.Contract)
				if err := stackitem.DeserializeConvertible(sw.buf, c); err != nil {
					return entryRes{}
				}
				e, _ := c.NEF.Bytes()
				return entryRes{ok: true, rest: -1, dump: nefDump(&c.NEF), enc: e}
			}},
		},
	})

	// ---- P2P notary request ----
	notaryDump := func(r *payload.P2PNotaryRequest) string {
		return txDump(r.MainTransaction) + " | " + txDump(r.FallbackTransaction) + " | " + hx.Hex(r.Witness.InvocationScript) + " " + hx.Hex(r.Witness.VerificationScript) + " #" + r.Hash().StringBE()
	}
	out = append(out, multiType{
		name: "notaryreq",
		gen:  func(g *G) ([]byte, []int) { b, cuts, _ := encodeSeg(g.notaryRequest()); return b, cuts },
		points: []entryPoint{
			{name: "NewP2PNotaryRequestFromBytes", strict: true, run: func(b []byte) entryRes {
				r, err := payload.NewP2PNotaryRequestFromBytes(b)
				if err != nil {
					return entryRes{}
				}
				return entryRes{ok: true, dump: notaryDump(r), enc: serEnc(r)}
			}},
			{name: "DecodeBinary", run: func(b []byte) entryRes {
				v := &payload.P2PNotaryRequest{}
				r := io.NewBinReaderFromBuf(b)
				v.DecodeBinary(r)
				if r.Err != nil {
					return entryRes{}
				}
				return entryRes{ok: true, rest: r.Len(), dump: notaryDump(v), enc: serEnc(v)}
			}},
			{name: "P2P", run: func(b []byte) entryRes {
				return p2pPayload(network.CMDP2PNotaryRequest, false, b, func(p payload.Payload) (string, []byte) {
					v := p.(*payload.P2PNotaryRequest)
					return notaryDump(v), serEnc(v)
				})
			}},
		},
	})

	// ---- header, block, extensible: stream vs message payload vs (header) element of a Headers payload ----
	for _, sr := range []bool{false, true} {
		sr := sr
		suf := map[bool]string{false: "0", true: "1"}[sr]
		hdrDump := func(h *block.Header) string { var s sb; showHeader(&s, h); return s.String() + " #" + h.Hash().StringBE() }
		blkDump := func(bl *block.Block) string { var s sb; showBlock(&s, bl); return s.String() + " #" + bl.Hash().StringBE() }
		out = append(out, multiType{
			name: "header" + suf,
			gen:  func(g *G) ([]byte, []int) { b, cuts, _ := encodeSeg(g.header(sr)); return b, cuts },
			points: []entryPoint{
				{name: "DecodeBinary", run: func(b []byte) entryRes {
					h := &block.Header{StateRootEnabled: sr}
					r := io.NewBinReaderFromBuf(b)
					h.DecodeBinary(r)
					if r.Err != nil {
						return entryRes{}
					}
					return entryRes{ok: true, rest: r.Len(), dump: hdrDump(h), enc: serEnc(h)}
				}},
				{name: "Headers[0]", run: func(b []byte) entryRes {
					hs := &payload.Headers{StateRootInHeader: sr}
					r := io.NewBinReaderFromBuf(append([]byte{1}, b...))
					hs.DecodeBinary(r)
					if r.Err != nil || len(hs.Hdrs) != 1 {
						return entryRes{}
					}
					return entryRes{ok: true, rest: r.Len(), dump: hdrDump(hs.Hdrs[0]), enc: serEnc(hs.Hdrs[0])}
				}},
				{name: "Block.Header", run: func(b []byte) entryRes {
					bl := block.New(sr)
					r := io.NewBinReaderFromBuf(append(append([]byte{}, b...), 0)) // no transactions
					bl.DecodeBinary(r)
					if r.Err != nil {
						// (bytes after the header would be read as the transaction count: only the plain case compares)
						return entryRes{ok: false, rest: -2}
					}
					return entryRes{ok: true, rest: -1, dump: hdrDump(&bl.Header), enc: serEnc(&bl.Header)}
				}},
			},
		})
		out = append(out, multiType{
			name: "block" + suf,
			gen: func(g *G) ([]byte, []int) {
				light := g.light
				g.light = true
				b, cuts, _ := encodeSeg(g.block(sr))
				g.light = light
				return b, cuts
			},
			points: []entryPoint{
				{name: "DecodeBinary", run: func(b []byte) entryRes {
					bl := block.New(sr)
					r := io.NewBinReaderFromBuf(b)
					bl.DecodeBinary(r)
					if r.Err != nil {
						return entryRes{}
					}
					return entryRes{ok: true, rest: r.Len(), dump: blkDump(bl), enc: serEnc(bl)}
				}},
				{name: "P2P", run: func(b []byte) entryRes {
					return p2pPayload(network.CMDBlock, sr, b, func(p payload.Payload) (string, []byte) {
						v := p.(*block.Block)
						return blkDump(v), serEnc(v)
					})
				}},
			},
		})
	}
	extDump := func(e *payload.Extensible) string { var s sb; showExtensible(&s, e); return s.String() + " #" + e.Hash().StringBE() }
	out = append(out, multiType{
		name: "extensible",
		gen:  func(g *G) ([]byte, []int) { b, cuts, _ := encodeSeg(g.extensible()); return b, cuts },
		points: []entryPoint{
			{name: "DecodeBinary", run: func(b []byte) entryRes {
				e := payload.NewExtensible()
				r := io.NewBinReaderFromBuf(b)
				e.DecodeBinary(r)
				if r.Err != nil {
					return entryRes{}
				}
				return entryRes{ok: true, rest: r.Len(), dump: extDump(e), enc: serEnc(e)}
			}},
			{name: "P2P", run: func(b []byte) entryRes {
				return p2pPayload(network.CMDExtensible, false, b, func(p payload.Payload) (string, []byte) {
					v := p.(*payload.Extensible)
					return extDump(v), serEnc(v)
				})
			}},
		},
	})

	// ---- stack item: four decoders ----
	itemDump := func(it stackitem.Item) (string, []byte) {
		var s sb
		showItem(&s, it, 0)
		e, err := stackitem.Serialize(it)
		if err != nil {
			e = nil
		}
		return s.String(), e
	}
	out = append(out, multiType{
		name: "item",
		gen: func(g *G) ([]byte, []int) {
			big := g.big
			g.big = false
			defer func() { g.big = big }()
			for tries := 0; tries < 5; tries++ {
				if b, cuts, err := itemSeg(&itemBox{it: g.stackItem()}); err == nil {
					return b, cuts
				}
			}
			return []byte{0x00}, nil
		},
		points: []entryPoint{
			{name: "Deserialize", run: func(b []byte) entryRes {
				it, err := stackitem.Deserialize(b)
				if err != nil {
					return entryRes{}
				}
				d, e := itemDump(it)
				return entryRes{ok: true, rest: -1, dump: d, enc: e}
			}},
			{name: "DeserializeLimited", run: func(b []byte) entryRes {
				it, err := stackitem.DeserializeLimited(b, stackitem.MaxDeserialized)
				if err != nil {
					return entryRes{}
				}
				d, e := itemDump(it)
				return entryRes{ok: true, rest: -1, dump: d, enc: e}
			}},
			{name: "DecodeBinary", run: func(b []byte) entryRes {
				r := io.NewBinReaderFromBuf(b)
				it := stackitem.DecodeBinary(r)
				if r.Err != nil {
					return entryRes{}
				}
				d, e := itemDump(it)
				return entryRes{ok: true, rest: r.Len(), dump: d, enc: e}
			}},
			{name: "DecodeBinaryProtected", super: true, run: func(b []byte) entryRes {
				r := io.NewBinReaderFromBuf(b)
				it := stackitem.DecodeBinaryProtected(r)
				if r.Err != nil {
					return entryRes{}
				}
				var s sb
				showItem(&s, it, 0)
				return entryRes{ok: true, rest: r.Len(), dump: s.String()}
			}},
		},
	})

	// ---- public key: four ways in ----
	keyRes := func(k *keys.PublicKey, rest int) entryRes {
		return entryRes{ok: true, rest: rest, dump: hx.Hex(k.Bytes()), enc: k.Bytes()}
	}
	out = append(out, multiType{
		name: "pubkey",
		gen: func(g *G) ([]byte, []int) {
			k := g.key()
			if g.r.Chance(1, 3) {
				return k.UncompressedBytes(), []int{0}
			}
			return k.Bytes(), []int{0}
		},
		points: []entryPoint{
			{name: "NewPublicKeyFromBytes", strict: true, run: func(b []byte) entryRes {
				k, err := keys.NewPublicKeyFromBytes(b, elliptic.P256())
				if err != nil {
					return entryRes{}
				}
				return keyRes(k, 0)
			}},
			{name: "DecodeBytes", strict: true, run: func(b []byte) entryRes {
				k := new(keys.PublicKey)
				if err := k.DecodeBytes(b); err != nil {
					return entryRes{}
				}
				return keyRes(k, 0)
			}},
			{name: "DecodeBinary", run: func(b []byte) entryRes {
				k := new(keys.PublicKey)
				r := io.NewBinReaderFromBuf(b)
				k.DecodeBinary(r)
				if r.Err != nil {
					return entryRes{}
				}
				return keyRes(k, r.Len())
			}},
			{name: "NewPublicKeyFromString", strict: true, run: func(b []byte) entryRes {
				k, err := keys.NewPublicKeyFromString(hex.EncodeToString(b))
				if err != nil {
					return entryRes{}
				}
				return keyRes(k, 0)
			}},
			{name: "ConditionGroup", run: func(b []byte) entryRes {
				r := io.NewBinReaderFromBuf(append([]byte{byte(transaction.WitnessGroup)}, b...))
				c := transaction.DecodeBinaryCondition(r)
				if r.Err != nil {
					return entryRes{}
				}
				k := (*keys.PublicKey)(c.(*transaction.ConditionGroup))
				return keyRes(k, r.Len())
			}},
		},
	})

	// ---- MPT node ----
	nodeRes := func(n mpt.Node, rest int) entryRes {
		var s sb
		showNode(&s, n)
		// across a re-encoding: same type, same own fields, same node hash, and every child equal up to replacing an
		// inline child by the hash node of the same hash (encodeBinaryAsChild writes the hash)
		return entryRes{ok: true, rest: rest, dump: s.String(), enc: serEnc(&mpt.NodeObject{Node: n}), norm: nodeCommit(n)}
	}
	out = append(out, multiType{
		name: "mptnode",
		gen:  func(g *G) ([]byte, []int) { b, cuts, _ := encodeSeg(&mpt.NodeObject{Node: g.mptNode()}); return b, cuts },
		points: []entryPoint{
			{name: "NodeObject.DecodeBinary", run: func(b []byte) entryRes {
				n := &mpt.NodeObject{}
				r := io.NewBinReaderFromBuf(b)
				n.DecodeBinary(r)
				if r.Err != nil || n.Node == nil {
					return entryRes{}
				}
				return nodeRes(n.Node, r.Len())
			}},
			{name: "DecodeNodeWithType", run: func(b []byte) entryRes {
				r := io.NewBinReaderFromBuf(b)
				n := mpt.DecodeNodeWithType(r, 0)
				if r.Err != nil || n == nil {
					return entryRes{}
				}
				return nodeRes(n, r.Len())
			}},
		},
	})

	// ---- witness condition: on its own, inside a rule ----
	condRes := func(c transaction.WitnessCondition, rest int) entryRes {
		var s sb
		showCond(&s, c)
		return entryRes{ok: true, rest: rest, dump: s.String(), enc: serEnc(&condBox{c})}
	}
	out = append(out, multiType{
		name: "cond",
		gen:  func(g *G) ([]byte, []int) { b, cuts, _ := encodeSeg(&condBox{g.cond(transaction.MaxConditionNesting)}); return b, cuts },
		points: []entryPoint{
			{name: "DecodeBinaryCondition", run: func(b []byte) entryRes {
				r := io.NewBinReaderFromBuf(b)
				c := transaction.DecodeBinaryCondition(r)
				if r.Err != nil || c == nil {
					return entryRes{}
				}
				return condRes(c, r.Len())
			}},
			{name: "WitnessRule", run: func(b []byte) entryRes {
				wr := &transaction.WitnessRule{}
				r := io.NewBinReaderFromBuf(append([]byte{1}, b...))
				wr.DecodeBinary(r)
				if r.Err != nil || wr.Condition == nil {
					return entryRes{}
				}
				return condRes(wr.Condition, r.Len())
			}},
		},
	})
	return out
}

// checkEntries drives every entry point of t with b and applies the rules; ctx names the input for messages.
func checkEntries(o interface {
	Fail(key string, k int, format string, a ...any)
	Count(string)
}, k int, t *multiType, b []byte, ctx string) (accepted bool) {
	res := make([]entryRes, len(t.points))
	for i, p := range t.points {
		r, panicked := safeEntry(p, b)
		if panicked {
			o.Fail(t.name+"-entry-panic", k, "entry point %s panicked on %s (%s)", p.name, trunc(hx.Hex(b), 200), ctx)
		}
		res[i] = r
	}
	// the reference: the first non-strict, non-superset entry point
	ref := -1
	for i, p := range t.points {
		if !p.strict && !p.super && res[i].rest != -2 {
			ref = i
			break
		}
	}
	if ref < 0 {
		return false
	}
	rr := res[ref]
	restKnown := -1
	for i, p := range t.points {
		if !p.strict && !p.super && res[i].ok && res[i].rest >= 0 {
			restKnown = res[i].rest
		}
	}
	for i, p := range t.points {
		r := res[i]
		if i == ref || r.rest == -2 {
			continue
		}
		switch {
		case p.super:
			if rr.ok && (!r.ok || r.dump != rr.dump) {
				o.Fail(t.name+"-entry-verdict", k, "%s accepts, %s (which accepts a superset) does not give the same value: %s (%s)", t.points[ref].name, p.name, trunc(hx.Hex(b), 200), ctx)
			}
		case p.strict:
			want := rr.ok && restKnown == 0
			if restKnown < 0 && rr.ok {
				continue
			}
			if r.ok != want {
				o.Fail(t.name+"-entry-verdict", k, "%s accepts=%v (rest %d), strict %s accepts=%v: %s (%s)", t.points[ref].name, rr.ok, restKnown, p.name, r.ok, trunc(hx.Hex(b), 200), ctx)
			} else if r.ok && r.dump != rr.dump {
				o.Fail(t.name+"-entry-value", k, "%s and %s decode different values from %s (%s)", t.points[ref].name, p.name, trunc(hx.Hex(b), 200), ctx)
			}
		default:
			if r.ok != rr.ok {
				o.Fail(t.name+"-entry-verdict", k, "%s accepts=%v, %s accepts=%v: %s (%s)", t.points[ref].name, rr.ok, p.name, r.ok, trunc(hx.Hex(b), 200), ctx)
			} else if r.ok && (r.dump != rr.dump || (r.rest >= 0 && rr.rest >= 0 && r.rest != rr.rest)) {
				o.Fail(t.name+"-entry-value", k, "%s and %s decode different values from %s (%s)", t.points[ref].name, p.name, trunc(hx.Hex(b), 200), ctx)
			}
		}
	}
	// accepted => the re-encoding is accepted again, as the same value, at EVERY entry point
	for i, p := range t.points {
		r := res[i]
		if !r.ok || r.enc == nil || p.super {
			continue
		}
		for j, q := range t.points {
			if q.super || res[j].rest == -2 {
				continue
			}
			r2, panicked := safeEntry(q, r.enc)
			if r2.rest == -2 {
				continue
			}
			same := r2.dump == r.dump
			if r.norm != "" && r2.norm != "" {
				same = r2.norm == r.norm
			}
			if panicked || !r2.ok || !same || (r2.rest > 0) {
				o.Fail(t.name+"-entry-reencode", k, "value accepted by %s re-encodes to bytes that %s does not decode to the same value: input %s, re-encoding %s (%s)",
					p.name, q.name, trunc(hx.Hex(b), 160), trunc(hx.Hex(r.enc), 160), ctx)
				return rr.ok
			}
		}
	}
	return rr.ok
}

var multiTypesCache []multiType

func (rn *runner) entryCase(k int, r *prng.R) {
	o := rn.o
	if multiTypesCache == nil {
		multiTypesCache = multiTypes()
	}
	// NEF (the type with an integrity field) half of the time
	ti := 0
	if !r.Bool() {
		ti = r.Intn(len(multiTypesCache))
	}
	t := &multiTypesCache[ti]
	g := newG(r)
	g.allowInvalid, g.light = false, true
	b, cuts := t.gen(g)
	if g.invalid || len(b) == 0 {
		return
	}
	if len(cuts) == 0 {
		cuts = []int{0}
	}
	canon := b
	mut := mutNone
	switch r.Weighted([]int{20, 50, 20, 10}) {
	case 1: // a content-preserving other spelling
		for tries := 0; tries < 10; tries++ {
			nb, m := mutate(r, canon, cuts)
			if m == mutNonMin || m == mutBool || m == mutKey {
				b, mut = nb, m
				break
			}
		}
	case 2:
		b, mut = mutate(r, canon, cuts)
	case 3:
		b = append(append([]byte{}, canon...), r.Bytes(1+r.Intn(3))...)
		mut = "tail"
	}
	variants := [][2]any{{b, "integrity field as computed over the canonical bytes"}}
	if t.reseal != nil && mut != mutNone && mut != "tail" {
		variants = append(variants, [2]any{t.reseal(b), "integrity field recomputed over the bytes as written"})
	}
	for vi, v := range variants {
		vb := v[0].([]byte)
		acc := checkEntries(o, k, t, vb, mut+", "+v[1].(string))
		o.Count(fmt.Sprintf("entry:%s:%s:v%d:accepted=%v", t.name, mut, vi, acc))
		if t.name == "nef" && len(vb) <= maxModelInput {
			rn.nefBytesLine(vb)
		}
	}
	o.Seen(fmt.Sprintf("entry/%s/%s/%x", t.name, mut, hashShort(b)))
}

// nefBytesLine: nef.FileFromBytes against the model (`nefFromBytes`).
func (rn *runner) nefBytesLine(b []byte) {
	obs := "err"
	if f, err := nef.FileFromBytes(b); err == nil {
		e, _ := f.BytesLong()
		obs = fmt.Sprintf("ok enc=%s v=%s", hx.Hex(e), nefDump(&f))
	}
	rn.o.Line("nefbytes "+hx.Hex(b), obs)
}

// entryCorpus: the non-canonical NEF files of seeded/C17-m5 (README): empty Source length written fd 00 00, a
// HasReturn byte 2, a non-minimal script length — each with the checksum over the canonical bytes and over the bytes
// as written.
func entryCorpus() []corpusCase {
	base := func() (*nef.File, []byte) {
		f := &nef.File{Header: nef.Header{Magic: nef.Magic, Compiler: "some compiler 0.1"},
			Tokens: []nef.MethodToken{{Hash: util.Uint160{1, 2, 3}, Method: "transfer", ParamCount: 4, HasReturn: true, CallFlag: 15}},
			Script: []byte{0x11, 0x12, 0x9e, 0x40}}
		f.Checksum = f.CalculateChecksum()
		b, _ := f.Bytes()
		return f, b
	}
	var out []corpusCase
	add := func(edit func(f *nef.File, b []byte) []byte) {
		out = append(out, func(rn *runner, k int) {
			if multiTypesCache == nil {
				multiTypesCache = multiTypes()
			}
			f, b := base()
			nb := edit(f, append([]byte{}, b...))
			for _, v := range [][]byte{nb, sealNEF(nb)} {
				checkEntries(rn.o, k, &multiTypesCache[0], v, "corpus")
				rn.nefBytesLine(v)
				rn.bytesCase(k, codecByName["nef"], v)
			}
			rn.o.Seen("corpus/entry/nef/" + hx.Hex(nb[60:min(len(nb), 90)]))
		})
	}
	add(func(f *nef.File, b []byte) []byte { return b })
	add(func(f *nef.File, b []byte) []byte { // Source length 00 -> fd 00 00 (offset: magic 4 + compiler 64)
		return bytes.Join([][]byte{b[:68], {0xfd, 0, 0}, b[69:]}, nil)
	})
	add(func(f *nef.File, b []byte) []byte { // HasReturn spelled 2
		off := len(b) - 4 - (1 + len(f.Script)) - 2 - 1 - 1
		b[off] = 2
		return b
	})
	add(func(f *nef.File, b []byte) []byte { // script length 04 -> fd 04 00
		off := len(b) - 4 - len(f.Script) - 1
		return bytes.Join([][]byte{b[:off], {0xfd, 4, 0}, b[off+1:]}, nil)
	})
	add(func(f *nef.File, b []byte) []byte { // token count 01 -> fe 01 00 00 00 (offset: 68 source len, 69 reserved, 70 count)
		return bytes.Join([][]byte{b[:70], {0xfe, 1, 0, 0, 0}, b[71:]}, nil)
	})
	// Base58Check: what CheckDecode accepts is what CheckEncode writes
	out = append(out, func(rn *runner, k int) {
		r := prng.New(99)
		for i := 0; i < 40; i++ {
			payloadB := r.Bytes(1 + r.Intn(40)) // (CheckDecode wants at least one byte before the checksum)
			if r.Chance(1, 4) {
				payloadB = append(make([]byte, 1+r.Intn(3)), payloadB...) // leading zero bytes = leading '1's
			}
			s := base58.CheckEncode(payloadB)
			back, err := base58.CheckDecode(s)
			if err != nil || !bytes.Equal(back, payloadB) {
				rn.o.Fail("base58check-roundtrip", k, "CheckDecode(CheckEncode(%x)) = %x, %v", payloadB, back, err)
			}
			// one character changed: refused, or (never, for a 32-bit checksum over this few tries) another payload whose encoding is the string
			cs := []byte(s)
			if len(cs) > 0 {
				j := r.Intn(len(cs))
				cs[j] = "123456789ABCDEFGHJKLMNPQRSTUVWXYZabcdefghijkmnopqrstuvwxyz"[r.Intn(58)]
				if b2, err := base58.CheckDecode(string(cs)); err == nil && base58.CheckEncode(b2) != string(cs) {
					rn.o.Fail("base58check-noncanonical", k, "CheckDecode accepts %q, which is not what CheckEncode writes for the result", string(cs))
				}
			}
		}
		rn.o.Seen("corpus/entry/base58check")
	})
	return out
}

// nodeCommit: a trie node with its children replaced by what the node commits to (their hashes).
func nodeCommit(n mpt.Node) string {
	var s sb
	child := func(c mpt.Node) {
		switch t := c.(type) {
		case nil:
			s.tok("nil")
		case mpt.EmptyNode:
			s.tok("empty")
		default:
			h := t.Hash()
			s.tok("child")
			s.hex(h[:])
		}
	}
	own := func(n mpt.Node) {
		if n == nil {
			return
		}
		if _, isEmpty := n.(mpt.EmptyNode); !isEmpty {
			h := n.Hash()
			s.tok("self")
			s.hex(h[:])
		}
	}
	switch t := n.(type) {
	case *mpt.BranchNode:
		s.tok("br")
		for _, c := range t.Children {
			child(c)
		}
		own(n)
	case *mpt.ExtensionNode:
		k, next := extParts(t)
		s.tok("ext")
		s.hex(k)
		child(next)
		own(n)
	default:
		showNode(&s, n) // leaf, hash, empty: nothing below
		own(n)
	}
	return s.String()
}
