package main

// The typed JSON form of stack items (stackitem.ToJSONWithTypes / FromJSONWithTypes — RPC invocation results,
// notifications) against Model/Wire/ItemJson.lean, and the untyped form (ToJSON / FromJSON — StdLib.jsonDeserialize)
// against the direct oracle only. Texts are built from a small JSON tree so that mutations are structural
// (member names in other case, duplicates, null / missing / wrongly typed values, integer and base64 spellings);
// only plain texts (printable ASCII, no escape sequences) are sent to the model.

import (
	"encoding/base64"
	"fmt"
	"math/big"
	"strings"

	"github.com/nspcc-dev/neo-go/pkg/vm/stackitem"

	"verif/harness/internal/hx"
	"verif/harness/internal/prng"
)

type jv struct {
	kind byte // n(ull) b(ool) #(number literal) s(tring) a(rray) o(bject)
	text string
	list []*jv
	keys []string
}

func jstr(s string) *jv    { return &jv{kind: 's', text: s} }
func jnum(s string) *jv    { return &jv{kind: '#', text: s} }
func jnull() *jv           { return &jv{kind: 'n'} }
func jbool(b bool) *jv     { return &jv{kind: 'b', text: map[bool]string{true: "true", false: "false"}[b]} }
func jarr(l ...*jv) *jv    { return &jv{kind: 'a', list: l} }
func jobj() *jv            { return &jv{kind: 'o'} }
func (o *jv) set(k string, v *jv) *jv {
	o.keys = append(o.keys, k)
	o.list = append(o.list, v)
	return o
}

func (v *jv) render(b *strings.Builder, ws func() string) {
	switch v.kind {
	case 'n':
		b.WriteString("null")
	case 'b', '#':
		b.WriteString(v.text)
	case 's':
		b.WriteString(`"` + v.text + `"`)
	case 'a':
		b.WriteString("[" + ws())
		for i, x := range v.list {
			if i > 0 {
				b.WriteString("," + ws())
			}
			x.render(b, ws)
		}
		b.WriteString(ws() + "]")
	case 'o':
		b.WriteString("{" + ws())
		for i, x := range v.list {
			if i > 0 {
				b.WriteString("," + ws())
			}
			b.WriteString(`"` + v.keys[i] + `"` + ws() + ":" + ws())
			x.render(b, ws)
		}
		b.WriteString(ws() + "}")
	}
}

// typedTree: what ToJSONWithTypes writes, as a tree.
func typedTree(it stackitem.Item) *jv {
	o := jobj()
	switch t := it.(type) {
	case stackitem.Null:
		return o.set("type", jstr("Any"))
	case *stackitem.Interop:
		return o.set("type", jstr("InteropInterface"))
	case stackitem.Bool:
		return o.set("type", jstr("Boolean")).set("value", jbool(bool(t)))
	case *stackitem.ByteArray:
		return o.set("type", jstr("ByteString")).set("value", jstr(base64.StdEncoding.EncodeToString(*t)))
	case *stackitem.Buffer:
		return o.set("type", jstr("Buffer")).set("value", jstr(base64.StdEncoding.EncodeToString(*t)))
	case *stackitem.BigInteger:
		return o.set("type", jstr("Integer")).set("value", jstr(t.Big().String()))
	case *stackitem.Pointer:
		return o.set("type", jstr("Pointer")).set("value", jnum(fmt.Sprint(t.Position())))
	case *stackitem.Array, *stackitem.Struct:
		name := "Array"
		if _, ok := it.(*stackitem.Struct); ok {
			name = "Struct"
		}
		var l []*jv
		for _, x := range t.Value().([]stackitem.Item) {
			l = append(l, typedTree(x))
		}
		return o.set("type", jstr(name)).set("value", jarr(l...))
	case *stackitem.Map:
		var l []*jv
		for _, e := range t.Value().([]stackitem.MapElement) {
			l = append(l, jobj().set("key", typedTree(e.Key)).set("value", typedTree(e.Value)))
		}
		return o.set("type", jstr("Map")).set("value", jarr(l...))
	}
	return o.set("type", jstr("INVALID"))
}

func allObjects(v *jv, out *[]*jv) {
	if v.kind == 'o' {
		*out = append(*out, v)
	}
	for _, x := range v.list {
		allObjects(x, out)
	}
}

var bigSpellings = []string{
	"57896044618658097711785492504343953926634992332820282019728792003956564819967",  // 2^255-1
	"57896044618658097711785492504343953926634992332820282019728792003956564819968",  // 2^255: NewBigInteger panics
	"-57896044618658097711785492504343953926634992332820282019728792003956564819968", // -2^255
	"-57896044618658097711785492504343953926634992332820282019728792003956564819969", // -2^255-1: panics
	"1" + strings.Repeat("0", 80), "-1" + strings.Repeat("0", 80),
	"+5", "-0", "007", "", " 5", "5 ", "1_0", "0x10", "1e3", "5.0", "--5", "+", "-",
	"115792089237316195423570985008687907853269984665640564039457584007913129639935", // 2^256-1
}

// mutateTyped changes one thing in the tree; returns a short name of the change.
func mutateTyped(r *prng.R, root *jv) (*jv, string) {
	var objs []*jv
	allObjects(root, &objs)
	if len(objs) == 0 {
		return root, "none"
	}
	o := objs[r.Intn(len(objs))]
	find := func(k string) int {
		for i, x := range o.keys {
			if strings.EqualFold(x, k) {
				return i
			}
		}
		return -1
	}
	ti, vi := find("type"), find("value")
	typ := ""
	if ti >= 0 && o.list[ti].kind == 's' {
		typ = o.list[ti].text
	}
	switch r.Intn(16) {
	case 0: // member names in another case
		for i := range o.keys {
			if r.Bool() {
				o.keys[i] = strings.ToUpper(o.keys[i])
			} else {
				o.keys[i] = strings.Title(o.keys[i]) //nolint:staticcheck
			}
		}
		return root, "key-case"
	case 1: // a duplicate member: the last one wins
		if ti >= 0 {
			alt := []string{"Any", "Boolean", "Integer", "ByteString", "Buffer", "Array", "Struct", "Map", "Pointer", "InteropInterface"}[r.Intn(10)]
			if r.Bool() {
				o.set("type", jstr(alt))
			} else {
				o.set("type", jnull()) // null does not overwrite
			}
			return root, "dup-type"
		}
	case 2:
		if vi >= 0 {
			o.set("value", []*jv{jnull(), jstr("AQ=="), jnum("3"), jbool(true), jarr(), jstr("12")}[r.Intn(6)])
			return root, "dup-value"
		}
	case 3:
		if vi >= 0 {
			o.list[vi] = jnull()
			return root, "value-null"
		}
	case 4:
		if vi >= 0 {
			o.keys = append(o.keys[:vi], o.keys[vi+1:]...)
			o.list = append(o.list[:vi], o.list[vi+1:]...)
			return root, "value-missing"
		}
	case 5:
		if vi >= 0 {
			o.list[vi] = []*jv{jnum("5"), jstr("5"), jbool(false), jarr(jnum("1")), jobj(), jnum("-1"), jnum("1.5"), jnum("1e2"),
				jnum("9223372036854775807"), jnum("9223372036854775808"), jnum("-9223372036854775808"), jnum("0")}[r.Intn(12)]
			return root, "value-retyped"
		}
	case 6:
		if ti >= 0 {
			o.list[ti] = []*jv{jstr("integer"), jstr("INVALID"), jstr(""), jstr("Any "), jnum("5"), jnull(), jbool(true), jarr(),
				jstr("Bool"), jstr("String")}[r.Intn(10)]
			return root, "type-changed"
		}
	case 7, 8:
		if typ == "Integer" && vi >= 0 {
			o.list[vi] = jstr(bigSpellings[r.Intn(len(bigSpellings))])
			return root, "int-spelling"
		}
	case 9, 10:
		if (typ == "ByteString" || typ == "Buffer") && vi >= 0 && o.list[vi].kind == 's' {
			s := o.list[vi].text
			switch r.Intn(7) {
			case 0:
				s = strings.TrimRight(s, "=")
			case 1:
				s += "="
			case 2:
				if len(s) >= 4 && strings.HasSuffix(s, "=") { // other unused low bits in the last character
					i := strings.IndexByte(s, '=') - 1
					c := "BCDEFGHIJ"[r.Intn(9)]
					s = s[:i] + string(c) + s[i+1:]
				}
			case 3:
				s = "AQI"
			case 4:
				s = "A=I="
			case 5:
				s = "AQ!="
			default:
				s = "=AQI"
			}
			o.list[vi] = jstr(s)
			return root, "base64-spelling"
		}
	case 11:
		if typ == "Map" && vi >= 0 && o.list[vi].kind == 'a' {
			l := o.list[vi]
			switch r.Intn(6) {
			case 0:
				l.list = append(l.list, jnum("5"))
			case 1:
				l.list = append(l.list, jnull())
			case 2:
				l.list = append(l.list, jobj().set("value", jobj().set("type", jstr("Any"))))
			case 3:
				l.list = append(l.list, jobj().set("key", jobj().set("type", jstr("Array")).set("value", jarr())).set("value", jobj().set("type", jstr("Any"))))
			case 4:
				l.list = append(l.list, jobj().set("key", jobj().set("type", jstr("ByteString")).set("value", jstr(base64.StdEncoding.EncodeToString(make([]byte, 65))))).set("value", jobj().set("type", jstr("Any"))))
			default:
				if len(l.list) > 0 {
					l.list = append(l.list, l.list[0]) // a repeated key replaces the value
				}
			}
			return root, "map-element"
		}
	case 12:
		o.set("extra", jnum("1"))
		return root, "extra-member"
	case 13:
		return jarr(root), "top-array"
	case 14:
		if (typ == "Array" || typ == "Struct") && vi >= 0 && o.list[vi].kind == 'a' {
			l := o.list[vi]
			l.list = append(l.list, []*jv{jnull(), jnum("1"), jstr("x"), jarr(), jobj()}[r.Intn(5)])
			return root, "array-element"
		}
	}
	return root, "none"
}

func plainText(s string) bool {
	for i := 0; i < len(s); i++ {
		c := s[i]
		if c == '\\' || c >= 0x7f || (c < 0x20 && c != '\t' && c != '\n' && c != '\r') {
			return false
		}
	}
	return true
}

func hasNegPointer(it stackitem.Item, depth int) bool {
	if depth > 100 {
		return true
	}
	switch t := it.(type) {
	case *stackitem.Pointer:
		return t.Position() < 0
	case *stackitem.Array, *stackitem.Struct:
		for _, x := range t.Value().([]stackitem.Item) {
			if hasNegPointer(x, depth+1) {
				return true
			}
		}
	case *stackitem.Map:
		for _, e := range t.Value().([]stackitem.MapElement) {
			if hasNegPointer(e.Key, depth+1) || hasNegPointer(e.Value, depth+1) {
				return true
			}
		}
	}
	return false
}

// decodeTyped runs the real decoder; the observation is `ok <tokens>`, `err` or `panic`.
func decodeTyped(text string) (obs string, it stackitem.Item) {
	defer func() {
		if p := recover(); p != nil {
			obs, it = "panic", nil
		}
	}()
	v, err := stackitem.FromJSONWithTypes([]byte(text))
	if err != nil {
		return "err", nil
	}
	var s sb
	showItem(&s, v, 0)
	return "ok " + s.String(), v
}

func (rn *runner) jsonTypedText(k int, text, kind string) {
	o := rn.o
	obs, it := decodeTyped(text)
	if obs == "panic" {
		o.Fail("itemjson-typed-panic", k, "FromJSONWithTypes panics on %s", trunc(text, 200))
	}
	if plainText(text) && len(text) < 200000 && !(it != nil && hasNegPointer(it, 0)) {
		o.Line("jsont dec "+hx.Hex([]byte(text)), obs)
	} else {
		o.Count("json:typed:not-modelled")
	}
	switch {
	case strings.HasPrefix(obs, "ok"):
		o.Count("json:typed:" + kind + ":ok")
		// what was read is written again and read back to the same item
		if t2, err := stackitem.ToJSONWithTypes(it); err == nil {
			if obs2, _ := decodeTyped(string(t2)); obs2 != obs {
				o.Fail("itemjson-typed-reencode", k, "FromJSONWithTypes(ToJSONWithTypes(x)) != x for x read from %s", trunc(text, 200))
			}
		}
	default:
		o.Count("json:typed:" + kind + ":" + obs)
	}
}

func (rn *runner) jsonCase(k int, r *prng.R) {
	o := rn.o
	g := newG(r)
	g.big = false
	budget := 1 + r.Intn(12)
	it := g.item(3, &budget)
	if r.Chance(1, 3) { // what the untyped form treats specially: characters it escapes, the integer bound
		specials := []stackitem.Item{
			stackitem.NewByteArray([]byte("a+b")), stackitem.NewByteArray([]byte("<&>")), stackitem.NewByteArray([]byte("q\"\\/")),
			stackitem.NewByteArray([]byte("\b\f\n\r\t\x00\x1f\x7f")), stackitem.NewByteArray([]byte("\u2028\u2029é日")),
			stackitem.NewBuffer([]byte("+")), stackitem.NewByteArray([]byte{0xff}),
			stackitem.NewBigInteger(big.NewInt(stackitem.MaxAllowedInteger)), stackitem.NewBigInteger(big.NewInt(-stackitem.MaxAllowedInteger)),
			stackitem.NewBigInteger(big.NewInt(stackitem.MaxAllowedInteger + 1)), stackitem.NewBigInteger(big.NewInt(-stackitem.MaxAllowedInteger - 1)),
			stackitem.NewBigInteger(big.NewInt(1 << 53)), stackitem.NewBigInteger(big.NewInt(1<<53 + 1)),
		}
		sp := specials[r.Intn(len(specials))]
		switch r.Intn(3) {
		case 0:
			it = sp
		case 1:
			it = stackitem.NewArray([]stackitem.Item{it, sp})
		default:
			m := stackitem.NewMap()
			if _, isInt := sp.(*stackitem.BigInteger); isInt || len(sp.Value().([]byte)) <= stackitem.MaxKeySize {
				if _, isBuf := sp.(*stackitem.Buffer); !isBuf {
					m.Add(sp, it)
				}
			}
			m.Add(stackitem.NewByteArray([]byte("k+")), sp)
			it = m
		}
	}
	if r.Chance(1, 6) {
		it = stackitem.NewArray([]stackitem.Item{it, []stackitem.Item{stackitem.NewInterop(nil), stackitem.NewPointer(r.Intn(500), nil)}[r.Intn(2)]})
	}
	var s sb
	showItem(&s, it, 0)
	// value -> text
	text, err := stackitem.ToJSONWithTypes(it)
	if err != nil {
		o.Line("jsont enc "+s.String(), "err")
		o.Count("json:typed:enc-err")
		return
	}
	o.Line("jsont enc "+s.String(), hx.Hex(text))
	if r.Chance(1, 4) {
		rn.jsonTypedText(k, string(text), "canonical")
		obs, _ := decodeTyped(string(text))
		if obs != "ok "+s.String() {
			o.Fail("itemjson-typed-roundtrip", k, "FromJSONWithTypes(ToJSONWithTypes(x)) != x: %s", trunc(s.String(), 200))
		}
	} else {
		tree := typedTree(it)
		kinds := ""
		for i := 1 + r.Intn(2); i > 0; i-- {
			kd := "none"
			for tries := 0; tries < 8 && kd == "none"; tries++ { // not every change applies to every object
				tree, kd = mutateTyped(r, tree)
			}
			kinds += "+" + kd
			o.Count("json:typed:mut:" + kd)
		}
		ws := func() string { return "" }
		if r.Chance(1, 4) {
			ws = func() string { return []string{"", " ", "\n", "\t ", "\r\n"}[r.Intn(5)] }
		}
		var b strings.Builder
		b.WriteString(ws())
		tree.render(&b, ws)
		b.WriteString(ws())
		if r.Chance(1, 25) {
			b.WriteString([]string{"x", "{}", ",", "1"}[r.Intn(4)])
		}
		rn.jsonTypedText(k, b.String(), "mutated")
	}
	// the untyped form (no model): no panic, and what ToJSON writes is read back
	if r.Chance(1, 2) {
		rn.jsonUntyped(k, r, it)
	}
	o.Seen(fmt.Sprintf("json/%x", hashShort(text)))
}

// plainUntyped: the texts Model/Wire/ItemJsonU.lean reads: plain ASCII without escapes, numbers that are integer
// literals of at most 2^53 in magnitude, object keys of at most MaxKeySize bytes.
func plainUntyped(text string) bool {
	if !plainText(text) || len(text) > 100000 {
		return false
	}
	inStr, start := false, 0
	_ = start
	for i := 0; i < len(text); i++ {
		c := text[i]
		if c == '"' {
			// (strings of any length: a property name over MaxKeySize is refused by the decoder since d98706e and by
			// the model, a long string VALUE is fine)
			inStr, start = !inStr, i
			continue
		}
		if inStr {
			continue
		}
		if c == '.' || c == 'e' || c == 'E' {
			if c == 'e' && i > 0 && (text[i-1] == 'u' || text[i-1] == 's') { // true / false
				continue
			}
			return false
		}
		if c >= '0' && c <= '9' {
			j := i
			for j < len(text) && text[j] >= '0' && text[j] <= '9' {
				j++
			}
			if j-i > 15 { // < 10^15 < 2^53
				return false
			}
			i = j - 1
		}
	}
	return true
}

// genPlainJSON: a JSON text of the plain kind with `n` values in all, nested up to `depth`.
func genPlainJSON(r *prng.R, depth int, budget *int) string {
	*budget--
	if depth <= 0 || *budget <= 0 || r.Chance(2, 5) {
		switch r.Intn(6) {
		case 0:
			return "null"
		case 1:
			return []string{"true", "false"}[r.Intn(2)]
		case 2:
			if r.Chance(1, 8) {
				return `"` + strings.Repeat("v", 60+r.Intn(10)) + `"` // a string VALUE around and over MaxKeySize
			}
			return `"` + string(printable(r, r.Intn(5))) + `"`
		default:
			return fmt.Sprint(int64(r.Intn(2000)) - 1000)
		}
	}
	n := r.Intn(4)
	var parts []string
	if r.Bool() {
		for i := 0; i < n; i++ {
			parts = append(parts, genPlainJSON(r, depth-1, budget))
		}
		return "[" + strings.Join(parts, ",") + "]"
	}
	for i := 0; i < n; i++ {
		k := string(rune('a' + i))
		if r.Chance(1, 12) && i > 0 {
			k = "a" // a repeated property
		}
		if r.Chance(1, 10) {
			k = strings.Repeat("k", stackitem.MaxKeySize-2+r.Intn(4)) + k // MaxKeySize-1 .. MaxKeySize+2 bytes
		}
		*budget--
		parts = append(parts, `"`+k+`":`+genPlainJSON(r, depth-1, budget))
	}
	return "{" + strings.Join(parts, ",") + "}"
}

// untypedTie: the real FromJSON with a small maxCount against the model's count / depth rules.
func (rn *runner) untypedTie(text string, maxCount int) {
	best := true
	v, err := func() (it stackitem.Item, err error) {
		defer func() {
			if p := recover(); p != nil {
				err = fmt.Errorf("panic")
			}
		}()
		return stackitem.FromJSON([]byte(text), maxCount, best)
	}()
	obs := "err"
	if err == nil {
		var s sb
		showItem(&s, v, 0)
		obs = "ok " + s.String()
	} else if err.Error() == "panic" {
		obs = "panic" // (the model never says so: a panic of the real decoder is a disagreement, besides the oracle key)
	}
	rn.o.Line(fmt.Sprintf("jsonu dec %d %s", maxCount, hx.Hex([]byte(text))), obs)
	rn.o.Count("json:untyped:tie:" + strings.Fields(obs)[0])
}

// lastUntypedPanic: what the last panicking FromJSON said (to name the failure precisely).
var lastUntypedPanic string

// untypedPanicKey: a property name over MaxKeySize bytes made Map.Has / Map.Add panic until d98706e (decodeMap now
// calls IsValidMapKey first); numbers beyond 256 bits panicked until ea79830. Both oracles stay live: a panic that
// mentions the map key is a regression of the former, any other one of the latter or something new.
func untypedPanicKey() string {
	if strings.Contains(lastUntypedPanic, "map key") {
		return "itemjson-untyped-key-panic"
	}
	return "itemjson-untyped-panic"
}

func decodeUntyped(text string, best bool) (obs string) {
	defer func() {
		if p := recover(); p != nil {
			obs = "panic"
			lastUntypedPanic = fmt.Sprint(p)
		}
	}()
	v, err := stackitem.FromJSON([]byte(text), stackitem.MaxDeserialized, best)
	if err != nil {
		return "err"
	}
	var s sb
	showItem(&s, v, 0)
	return "ok " + s.String()
}

func (rn *runner) jsonUntyped(k int, r *prng.R, it stackitem.Item) {
	o := rn.o
	nums := []string{"1e100", "1e77", "1e76", "5.0", "1.5", "2.8e+22", "9007199254740993", "1" + strings.Repeat("0", 80), "-1e100",
		"57896044618658097711785492504343953926634992332820282019728792003956564819968", "1e-2", "0", "-0", "12", "1E2"}
	text := nums[r.Intn(len(nums))]
	if r.Bool() {
		text = "[" + text + ",{\"a\":" + nums[r.Intn(len(nums))] + "}]"
	}
	best := r.Bool()
	if obs := decodeUntyped(text, best); obs == "panic" {
		o.Fail(untypedPanicKey(), k, "FromJSON(bestIntPrecision=%v) panics (%s) on %s", best, lastUntypedPanic, trunc(text, 120))
	} else {
		o.Count("json:untyped:" + strings.Fields(obs)[0])
	}
	// the count and nesting rules on plain generated texts: nesting around MaxJSONDepth, maxCount around the size
	{
		depth := []int{2, 4, 9, 10, 11, 12}[r.Intn(6)]
		budget := 2 + r.Intn(30)
		t := genPlainJSON(r, depth, &budget)
		if depth >= 9 && r.Bool() { // a chain that is exactly that deep
			t = strings.Repeat("[", depth) + t + strings.Repeat("]", depth)
		}
		if r.Chance(1, 10) {
			t += []string{" ", "x", ",1", "]"}[r.Intn(4)]
		}
		if plainUntyped(t) {
			rn.untypedTie(t, []int{1, 2, 3, 5, 8, 13, 30, 2048}[r.Intn(8)])
		}
	}
	// ToJSON of the item against the model (no nil inside: the code dereferences it)
	if !hasNilItem(it, 0) {
		var s sb
		showItem(&s, it, 0)
		if j, err := stackitem.ToJSON(it); err == nil {
			o.Line("jsonu enc "+s.String(), hx.Hex(j))
			if plainUntyped(string(j)) {
				rn.untypedTie(string(j), []int{1, 3, 8, 2048}[r.Intn(4)])
			}
		} else {
			o.Line("jsonu enc "+s.String(), "err")
		}
	}
	// ToJSON of an item made of integers within ±MaxAllowedInteger, UTF-8 strings, booleans, arrays, maps reads back
	if j, err := stackitem.ToJSON(it); err == nil {
		if obs := decodeUntyped(string(j), best); obs == "panic" {
			o.Fail(untypedPanicKey(), k, "FromJSON panics (%s) on the output of ToJSON: %s", lastUntypedPanic, trunc(string(j), 120))
		} else if obs == "err" && !keysCollide(it, 0) {
			// (the untyped form writes map keys as strings: two different keys with the same bytes — Integer 0 and
			// an empty ByteString — become one property name, which FromJSON refuses as a duplicate: by design)
			o.Fail("itemjson-untyped-roundtrip", k, "FromJSON rejects the output of ToJSON: %s", trunc(string(j), 160))
		}
	}
}

// jsonCorpus: every kind of typed JSON leniency / failure once, by hand.
func jsonCorpus() []corpusCase {
	texts := []string{
		`{"type":"Integer","value":"12"}`,
		`{"TYPE":"Integer","Value":"-7"}`,
		`{"type":"Integer","value":"12","type":"ByteString"}`,
		`{"type":"Integer","type":null,"value":"12"}`,
		`{"type":"Integer","value":12}`,
		`{"type":"Integer","value":null}`,
		`{"type":"Integer"}`,
		`{"type":"Integer","value":"+5"}`,
		`{"type":"Integer","value":"57896044618658097711785492504343953926634992332820282019728792003956564819967"}`,
		`{"type":"Integer","value":"57896044618658097711785492504343953926634992332820282019728792003956564819968"}`,
		`{"type":"Integer","value":"-57896044618658097711785492504343953926634992332820282019728792003956564819968"}`,
		`{"type":"Integer","value":"-57896044618658097711785492504343953926634992332820282019728792003956564819969"}`,
		`{"type":"ByteString","value":"AQI="}`, `{"type":"ByteString","value":"AQJ="}`, `{"type":"ByteString","value":"AQI"}`,
		`{"type":"ByteString","value":null}`, `{"type":"Buffer","value":""}`, `{"type":"ByteString","value":"AQ=="}`, `{"type":"ByteString","value":"AR=="}`,
		`{"type":"Boolean","value":null}`, `{"type":"Boolean","value":"true"}`, `{"type":"Boolean","value":true}`,
		`{"type":"Pointer","value":5}`, `{"type":"Pointer","value":null}`, `{"type":"Pointer","value":1.0}`, `{"type":"Pointer","value":"5"}`,
		`{"type":"Pointer","value":9223372036854775808}`,
		`{"type":"Any","value":[[[}`, `{"type":"Any","value":5}`, `{"type":"InteropInterface"}`,
		`{"type":"Array","value":null}`, `{"type":"Array","value":[null]}`, `{"type":"Struct","value":[{"type":"Any"},{"type":"Boolean","value":false}]}`,
		`{"type":"Map","value":[{"key":{"type":"Integer","value":"1"},"value":{"type":"Any"}},{"KEY":{"type":"Integer","value":"1"},"value":{"type":"Boolean","value":true}}]}`,
		`{"type":"Map","value":[5]}`, `{"type":"Map","value":[null]}`, `{"type":"Map","value":[{"value":{"type":"Any"}}]}`,
		`{"type":"Map","value":[{"key":{"type":"Integer","value":"1` + strings.Repeat("0", 80) + `"},"value":{"type":"Any"}},5]}`, // the type error of element 1 pre-empts the panic
		`{"type":"Map","value":[{"key":{"type":"Array","value":[]},"value":{"type":"Any"}}]}`,
		`null`, `[]`, `5`, ` {"type":"Any"} `, `{"type":"Any"}x`, `{"type":"Any",}`, `{"type":"Any"`, `{"type":01}`, `{"type":"Integer","value":"1e3"}`,
	}
	var out []corpusCase
	for _, t := range texts {
		t := t
		out = append(out, func(rn *runner, k int) {
			rn.jsonTypedText(k, t, "corpus")
			rn.o.Seen("corpus/json/" + t[:min(len(t), 40)])
		})
	}
	out = append(out, func(rn *runner, k int) {
		for _, t := range []string{"1e100", "[1e77]", `{"a":1` + strings.Repeat("0", 80) + `}`, `{"` + strings.Repeat("k", 65) + `":1}`} {
			for _, best := range []bool{false, true} {
				if decodeUntyped(t, best) == "panic" {
					rn.o.Fail(untypedPanicKey(), k, "FromJSON(bestIntPrecision=%v) panics (%s) on %s", best, lastUntypedPanic, trunc(t, 100))
				}
			}
		}
		// property names around MaxKeySize against the model (d98706e: IsValidMapKey before Has and before the value):
		// 64 accepted, 65 refused — first in the object, after another property, repeated, with no count left, nested
		k64, k65 := strings.Repeat("k", stackitem.MaxKeySize), strings.Repeat("k", stackitem.MaxKeySize+1)
		for _, t := range []string{`{"` + k64 + `":1}`, `{"` + k65 + `":1}`, `{"a":1,"` + k65 + `":2}`, `{"` + k65 + `":1,"` + k65 + `":2}`,
			`{"` + k64 + `":1,"` + k64 + `":2}`, `[{"` + k65 + `":[]}]`, `{"a":{"` + k65 + `":null}}`, `{"` + k65 + `":`, `{"` + k65 + `":x}`, `"` + k65 + `"`, `["` + k65 + k65 + `"]`} {
			for _, mc := range []int{1, 2, 3, 2048} {
				rn.untypedTie(t, mc)
			}
		}
		rn.o.Seen("corpus/json/untyped")
	})
	_ = big.NewInt
	return out
}

// keysCollide: some map in the item has two keys with the same bytes (they are different items: other types).
func keysCollide(it stackitem.Item, depth int) bool {
	if depth > 200 {
		return true
	}
	switch t := it.(type) {
	case *stackitem.Array, *stackitem.Struct:
		for _, x := range t.Value().([]stackitem.Item) {
			if keysCollide(x, depth+1) {
				return true
			}
		}
	case *stackitem.Map:
		seen := map[string]bool{}
		for _, e := range t.Value().([]stackitem.MapElement) {
			b, _ := e.Key.TryBytes()
			if seen[string(b)] {
				return true
			}
			seen[string(b)] = true
			if keysCollide(e.Value, depth+1) {
				return true
			}
		}
	}
	return false
}

func hasNilItem(it stackitem.Item, depth int) bool {
	if it == nil || depth > 200 {
		return true
	}
	switch t := it.(type) {
	case *stackitem.Array, *stackitem.Struct:
		for _, x := range t.Value().([]stackitem.Item) {
			if hasNilItem(x, depth+1) {
				return true
			}
		}
	case *stackitem.Map:
		for _, e := range t.Value().([]stackitem.MapElement) {
			if hasNilItem(e.Key, depth+1) || hasNilItem(e.Value, depth+1) {
				return true
			}
		}
	}
	return false
}
