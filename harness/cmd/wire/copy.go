package main

// Copy()/cache oracle (C17: "cached hash/size fields … must equal what encoding yields"): after Copy and an edit of
// the copy, Size() is the length of the encoding, Hash() is the hash a fresh decode of the encoding reports,
// FeePerByte follows, and the original is untouched (deep copy): same dump, bytes, hash and size as before.

import (
	"bytes"
	"encoding/json"
	"fmt"

	"github.com/nspcc-dev/neo-go/pkg/core/transaction"
	"github.com/nspcc-dev/neo-go/pkg/io"
	"github.com/nspcc-dev/neo-go/pkg/network/payload"
	"github.com/nspcc-dev/neo-go/pkg/util"

	"verif/harness/internal/hx"
	"verif/harness/internal/prng"
)

func txDump(t *transaction.Transaction) string {
	var s sb
	showTx(&s, t)
	return s.String()
}

// scribble changes, IN PLACE, every byte slice reachable from the transaction (so shared memory shows up in the
// original) without changing any length.
func scribbleCond(c transaction.WitnessCondition) {
	switch t := c.(type) {
	case *transaction.ConditionBoolean:
		*t = !*t
	case *transaction.ConditionNot:
		// the inner condition of a Not is checked on its own (key copy-shallow-condition-not)
		if scribbleInsideNot {
			scribbleCond(t.Condition)
		}
	case *transaction.ConditionAnd:
		for _, x := range *t {
			scribbleCond(x)
		}
	case *transaction.ConditionOr:
		for _, x := range *t {
			scribbleCond(x)
		}
	case *transaction.ConditionScriptHash:
		t[0] ^= 0x55
	case *transaction.ConditionCalledByContract:
		t[0] ^= 0x55
	}
}

func scribbleSigner(s *transaction.Signer) {
	for i := range s.AllowedContracts {
		s.AllowedContracts[i][1] ^= 0x55
	}
	for i := range s.Rules {
		s.Rules[i].Action ^= 1
		scribbleCond(s.Rules[i].Condition)
	}
	if len(s.AllowedGroups) > 1 {
		s.AllowedGroups[0], s.AllowedGroups[1] = s.AllowedGroups[1], s.AllowedGroups[0]
	}
}

func scribbleAttr(a *transaction.Attribute) {
	switch v := a.Value.(type) {
	case *transaction.OracleResponse:
		v.ID ^= 1
		for i := range v.Result {
			v.Result[i] ^= 0x55
		}
	case *transaction.NotValidBefore:
		v.Height ^= 1
	case *transaction.Conflicts:
		v.Hash[0] ^= 0x55
	case *transaction.NotaryAssisted:
		v.NKeys ^= 1
	case *transaction.Reserved:
		// checked on its own (key copy-shallow-reserved-attr)
		if scribbleReserved {
			for i := range v.Value {
				v.Value[i] ^= 0x55
			}
		}
	}
}

// the two places where Copy() is known to share memory are scribbled only by their dedicated checks
var scribbleInsideNot, scribbleReserved bool

func scribbleWitness(w *transaction.Witness) {
	for i := range w.InvocationScript {
		w.InvocationScript[i] ^= 0x55
	}
	for i := range w.VerificationScript {
		w.VerificationScript[i] ^= 0x55
	}
}

func scribbleTx(t *transaction.Transaction) {
	for i := range t.Script {
		t.Script[i] ^= 0x55
	}
	for i := range t.Signers {
		scribbleSigner(&t.Signers[i])
	}
	for i := range t.Attributes {
		scribbleAttr(&t.Attributes[i])
	}
	for i := range t.Scripts {
		scribbleWitness(&t.Scripts[i])
	}
}

// growTx makes size-changing edits that keep the transaction valid; returns what was done.
func growTx(r *prng.R, t *transaction.Transaction) string {
	what := ""
	if len(t.Scripts) > 0 && r.Chance(3, 4) { // what the Notary service / a signing client does
		i := r.Intn(len(t.Scripts))
		t.Scripts[i].InvocationScript = append([]byte{0x0c, 0x40}, r.Bytes(64)...)
		t.Scripts[i].VerificationScript = append([]byte{0x0c, 0x21}, r.Bytes(35)...)
		what += "witness "
	}
	if len(t.Signers)+len(t.Attributes) < transaction.MaxAttributes && r.Bool() {
		t.Attributes = append(t.Attributes, transaction.Attribute{Type: transaction.ConflictsT, Value: &transaction.Conflicts{Hash: util.Uint256{0xcc, byte(r.U64())}}})
		what += "attribute "
	}
	if len(t.Signers)+len(t.Attributes) < transaction.MaxAttributes && r.Bool() {
		var acc util.Uint160
		copy(acc[:], r.Bytes(20))
		t.Signers = append(t.Signers, transaction.Signer{Account: acc, Scopes: transaction.CalledByEntry})
		t.Scripts = append(t.Scripts, transaction.Witness{InvocationScript: []byte{1}, VerificationScript: []byte{2}})
		what += "signer "
	}
	if (what == "" || r.Chance(1, 3)) && len(t.Script)+2 <= transaction.MaxScriptLength {
		t.Script = append(t.Script, 0x21, 0x21)
		what += "script "
	}
	if what == "" {
		t.ValidUntilBlock ^= 1
		what = "validuntilblock "
	}
	return what
}

func checkTxCaches(o fail3, k int, key string, t *transaction.Transaction, ctx string) {
	b := t.Bytes()
	if t.Size() != len(b) {
		o(key+"-size", k, "%s: Size() = %d, the encoding has %d bytes", ctx, t.Size(), len(b))
	}
	fresh, err := transaction.NewTransactionFromBytes(b)
	if err != nil {
		o(key+"-undecodable", k, "%s: the edited copy does not decode: %v", ctx, err)
		return
	}
	if fresh.Hash() != t.Hash() {
		o(key+"-hash", k, "%s: Hash() = %s, a fresh decode of the encoding has %s", ctx, t.Hash().StringBE(), fresh.Hash().StringBE())
	}
	if len(b) > 0 && t.FeePerByte() != t.NetworkFee/int64(len(b)) {
		o(key+"-feeperbyte", k, "%s: FeePerByte() = %d, NetworkFee/len = %d", ctx, t.FeePerByte(), t.NetworkFee/int64(len(b)))
	}
}

type fail3 func(key string, k int, format string, a ...any)

// copyCase: one Copy()/cache experiment.
func (rn *runner) copyCase(k int, r *prng.R) {
	o := rn.o
	defer func() {
		if p := recover(); p != nil {
			o.Fail("copy-panic", k, "Copy()/cache experiment panicked: %v", p)
		}
	}()
	g := newG(r)
	g.allowInvalid = false
	g.light = !r.Chance(1, 8)
	g.big = false
	kind := r.Intn(10)
	switch {
	case kind < 6: // transaction
		t := g.tx()
		b0 := t.Bytes()
		how := ""
		switch r.Intn(5) { // how the caches of the original got filled
		case 0:
			t, _ = transaction.NewTransactionFromBytes(b0)
			how = "decoded from bytes"
		case 1:
			t = &transaction.Transaction{}
			br := io.NewBinReaderFromBuf(b0)
			t.DecodeBinary(br)
			how = "decoded from a stream"
		case 2:
			{
				j, _ := json.Marshal(t)
				t2 := &transaction.Transaction{}
				if json.Unmarshal(j, t2) == nil {
					t = t2
					how = "read from JSON"
					break
				}
			}
			fallthrough
		case 3:
			_ = t.Size()
			_ = t.Hash()
			how = "Size() and Hash() called"
		default:
			how = "fresh"
		}
		if t == nil {
			o.Fail("tx-roundtrip", k, "a valid generated transaction does not decode")
			return
		}
		d0, h0, s0 := txDump(t), t.Hash(), t.Size()
		cp0 := t.Copy()
		if d := txDump(cp0); d != d0 {
			o.Fail("tx-copy-differs", k, "Copy() of a transaction (%s) differs from it: %s vs %s", how, trunc(d0, 200), trunc(d, 200))
		}
		checkTxCaches(o.Fail, k, "tx-copy", cp0, "copy of a transaction ("+how+"), unedited")
		// a second copy is edited BEFORE its Size()/Hash() are asked for (they cache on first use, by design)
		cp := t.Copy()
		scribbleTx(cp)
		what := growTx(r, cp)
		ctx := fmt.Sprintf("copy of a transaction (%s) after editing %s", how, what)
		checkTxCaches(o.Fail, k, "tx-copy", cp, ctx)
		if txDump(t) != d0 || !bytes.Equal(t.Bytes(), b0) || t.Hash() != h0 || t.Size() != s0 {
			o.Fail("tx-copy-aliases", k, "editing a Copy() changed the original (%s): %s -> %s", how, trunc(d0, 160), trunc(txDump(t), 160))
		}
		o.Count("copy:tx:" + how)
		o.Seen(fmt.Sprintf("copy/tx/%s/%x", how, hashShort(b0)))
	case kind < 8: // notary request: Copy, then the Notary service fills the main transaction's witnesses
		req := g.notaryRequest()
		if g.invalid {
			return
		}
		b0, err := req.Bytes()
		if err != nil {
			return
		}
		req, err = payload.NewP2PNotaryRequestFromBytes(b0)
		if err != nil {
			o.Fail("notaryreq-roundtrip", k, "a valid generated notary request does not decode: %v", err)
			return
		}
		h0 := req.Hash()
		dm, df := txDump(req.MainTransaction), txDump(req.FallbackTransaction)
		cp := req.Copy()
		for i := range cp.MainTransaction.Scripts {
			cp.MainTransaction.Scripts[i].InvocationScript = append([]byte{0x0c, 0x40}, r.Bytes(64)...)
		}
		scribbleWitness(&cp.Witness)
		checkTxCaches(o.Fail, k, "notaryreq-copy-main", cp.MainTransaction, "main transaction of a copied notary request after filling witnesses")
		checkTxCaches(o.Fail, k, "notaryreq-copy-fallback", cp.FallbackTransaction, "fallback transaction of a copied notary request")
		if nb, err := cp.Bytes(); err == nil {
			if fresh, err := payload.NewP2PNotaryRequestFromBytes(nb); err != nil {
				o.Fail("notaryreq-copy-undecodable", k, "the edited copy does not decode: %v", err)
			} else if fresh.Hash() != cp.Hash() {
				o.Fail("notaryreq-copy-hash", k, "Hash() of the edited copy %s, fresh decode %s", cp.Hash().StringBE(), fresh.Hash().StringBE())
			}
		}
		b1, _ := req.Bytes()
		if txDump(req.MainTransaction) != dm || txDump(req.FallbackTransaction) != df || req.Hash() != h0 || !bytes.Equal(b1, b0) {
			o.Fail("notaryreq-copy-aliases", k, "editing a Copy() of a notary request changed the original")
		}
		o.Count("copy:notaryreq")
		o.Seen(fmt.Sprintf("copy/notaryreq/%x", hashShort(b0)))
	default: // parts: signer, attribute, witness, rule
		var s1, s2 sb
		name := ""
		switch r.Intn(6) {
		case 4: // a Not condition: Copy() must not share the inner condition
			inner := transaction.ConditionScriptHash(g.u160())
			v := &transaction.ConditionNot{Condition: &inner}
			showCond(&s1, v)
			c := v.Copy()
			scribbleInsideNot = true
			scribbleCond(c)
			scribbleInsideNot = false
			showCond(&s2, v)
			if s1.String() != s2.String() {
				o.Fail("copy-shallow-condition-not", k, "ConditionNot.Copy() shares the inner condition: editing the copy changed the original %s -> %s", s1.String(), s2.String())
			}
			o.Count("copy:cond-not")
			return
		case 5: // a Reserved attribute: Copy() must not share the value bytes
			v := transaction.Attribute{Type: 0xe0, Value: &transaction.Reserved{Value: g.r.Bytes(1 + g.r.Intn(8))}}
			showAttr(&s1, &v)
			c := v.Copy()
			scribbleReserved = true
			scribbleAttr(c)
			scribbleReserved = false
			showAttr(&s2, &v)
			if s1.String() != s2.String() {
				o.Fail("copy-shallow-reserved-attr", k, "Reserved.Copy() shares the value bytes: editing the copy changed the original %s -> %s", s1.String(), s2.String())
			}
			o.Count("copy:attr-reserved")
			return
		case 0:
			v := g.signer()
			showSigner(&s1, &v)
			c := v.Copy()
			scribbleSigner(c)
			c.AllowedContracts = append(c.AllowedContracts, util.Uint160{1})
			showSigner(&s2, &v)
			name = "signer"
		case 1:
			v := g.attr(nil)
			showAttr(&s1, &v)
			c := v.Copy()
			scribbleAttr(c)
			showAttr(&s2, &v)
			name = "attr"
		case 2:
			v := g.witness()
			showWitness(&s1, &v)
			c := v.Copy()
			scribbleWitness(&c)
			showWitness(&s2, &v)
			name = "witness"
		default:
			v := g.rule()
			showRule(&s1, &v)
			c := v.Copy()
			c.Action ^= 1
			scribbleCond(c.Condition)
			showRule(&s2, &v)
			name = "rule"
		}
		if s1.String() != s2.String() {
			o.Fail(name+"-copy-aliases", k, "editing a Copy() of a %s changed the original: %s -> %s", name, trunc(s1.String(), 160), trunc(s2.String(), 160))
		}
		o.Count("copy:" + name)
		o.Seen(fmt.Sprintf("copy/%s/%x", name, hashShort([]byte(s1.String()))))
	}
	_ = hx.Hex
}
