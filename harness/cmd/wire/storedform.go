package main

// Stack-item ("stored") form of a contract manifest and of a deployed contract:
//
//	mfitem    bytes = stackitem.SerializeConvertible(*manifest.Manifest)   (Manifest.ToStackItem / FromStackItem)
//	contract  bytes = stackitem.SerializeConvertible(*state.Contract)      (what native ContractManagement stores)
//
// The Lean model (Model/Wire/Manifest.lean) has both directions; encoding/json (the normalisation of Extra by
// extraToStackItem) is not modelled: the harness hands the normalised Extra of the decoded value to the driver.

import (
	"crypto/elliptic"
	"encoding/json"
	"fmt"
	"math/big"
	"strings"

	"github.com/nspcc-dev/neo-go/pkg/core/state"
	"github.com/nspcc-dev/neo-go/pkg/crypto/keys"
	"github.com/nspcc-dev/neo-go/pkg/encoding/bigint"
	"github.com/nspcc-dev/neo-go/pkg/io"
	"github.com/nspcc-dev/neo-go/pkg/smartcontract"
	"github.com/nspcc-dev/neo-go/pkg/smartcontract/manifest"
	"github.com/nspcc-dev/neo-go/pkg/vm/stackitem"

	"verif/harness/internal/hx"
	"verif/harness/internal/prng"
)

// normExtra is what extraToStackItem (unexported) makes of the Extra of m: element 7 of the stack item.
func normExtra(m *manifest.Manifest) []byte {
	it, err := m.ToStackItem()
	if err != nil {
		return nil
	}
	f, ok := it.Value().([]stackitem.Item)
	if !ok || len(f) != 8 {
		return nil
	}
	b, _ := f[7].TryBytes()
	return b
}

func (s *sb) int(n int64) { s.tok(fmt.Sprintf("%d", n)) }

func showMParams(s *sb, ps []manifest.Parameter) {
	s.num(uint64(len(ps)))
	for i := range ps {
		s.hex([]byte(ps[i].Name))
		s.int(int64(ps[i].Type))
	}
}

func showDesc(s *sb, d *manifest.PermissionDesc) {
	switch d.Type {
	case manifest.PermissionWildcard:
		s.tok("w")
	case manifest.PermissionHash:
		s.tok("h")
		s.hex(d.Hash().BytesBE())
	case manifest.PermissionGroup:
		s.tok("g")
		s.hex(d.Group().Bytes())
	default:
		s.tok(fmt.Sprintf("?desc:%d", d.Type))
	}
}

// showManifestToks: the token text of Model/Wire/TextManifest.lean. withRaw = print the raw Extra before the
// normalised one (the raw bytes change across a re-encoding, the normalised ones must not).
func showManifestToks(s *sb, m *manifest.Manifest, withRaw bool) {
	s.hex([]byte(m.Name))
	s.num(uint64(len(m.Groups)))
	for i := range m.Groups {
		s.hex(m.Groups[i].PublicKey.Bytes())
		s.hex(m.Groups[i].Signature)
	}
	s.num(uint64(len(m.SupportedStandards)))
	for _, x := range m.SupportedStandards {
		s.hex([]byte(x))
	}
	s.num(uint64(len(m.ABI.Methods)))
	for i := range m.ABI.Methods {
		mt := &m.ABI.Methods[i]
		s.hex([]byte(mt.Name))
		showMParams(s, mt.Parameters)
		s.int(int64(mt.ReturnType))
		s.int(int64(mt.Offset))
		if mt.Safe {
			s.tok("1")
		} else {
			s.tok("0")
		}
	}
	s.num(uint64(len(m.ABI.Events)))
	for i := range m.ABI.Events {
		s.hex([]byte(m.ABI.Events[i].Name))
		showMParams(s, m.ABI.Events[i].Parameters)
	}
	s.num(uint64(len(m.Permissions)))
	for i := range m.Permissions {
		p := &m.Permissions[i]
		showDesc(s, &p.Contract)
		if p.Methods.IsWildcard() {
			s.tok("*")
		} else {
			s.num(uint64(len(p.Methods.Value)))
			for _, x := range p.Methods.Value {
				s.hex([]byte(x))
			}
		}
	}
	if m.Trusts.IsWildcard() {
		s.tok("*")
	} else {
		s.num(uint64(len(m.Trusts.Value)))
		for i := range m.Trusts.Value {
			showDesc(s, &m.Trusts.Value[i])
		}
	}
	if withRaw {
		s.hex(m.Extra)
	}
	s.hex(normExtra(m))
}

func showContractToks(s *sb, c *state.Contract, withRaw bool) {
	s.int(int64(c.ID))
	s.num(uint64(c.UpdateCounter))
	s.hex(c.Hash.BytesBE())
	showNef(s, &c.NEF)
	showManifestToks(s, &c.Manifest, withRaw)
}

// itemRest: bytes left after the first serialised item (DeserializeConvertible ignores them).
func itemRest(b []byte) int {
	r := io.NewBinReaderFromBuf(b)
	stackitem.DecodeBinary(r)
	if r.Err != nil {
		return 0
	}
	return r.Len()
}

// lastTok: the normalised Extra of an accepted value is the last token of its dump.
func lastTok(obs string) string {
	if !strings.HasPrefix(obs, "ok") {
		return "-"
	}
	f := strings.Fields(obs)
	return strings.TrimPrefix(f[len(f)-1], "v=")
}

func initStoredForms() {
	c := reg(&codec{name: "mfitem", weight: 0})
	c.modelled, c.parse = true, true
	c.decArg = lastTok
	c.gen = func(g *G) any { return g.manifestWide() }
	c.dec = func(b []byte) (any, int, error) {
		m := new(manifest.Manifest)
		if err := stackitem.DeserializeConvertible(b, m); err != nil {
			return nil, 0, err
		}
		return m, itemRest(b), nil
	}
	c.enc = func(v any) ([]byte, error) { return stackitem.SerializeConvertible(v.(*manifest.Manifest)) }
	c.encSeg = func(v any) ([]byte, []int, error) {
		it, err := v.(*manifest.Manifest).ToStackItem()
		if err != nil {
			return nil, nil, err
		}
		return itemSeg(&itemBox{it: it})
	}
	c.reencKey = storedReencKey
	c.show = func(v any) string { var s sb; showManifestToks(&s, v.(*manifest.Manifest), true); return s.String() }
	c.norm = func(v any) string { var s sb; showManifestToks(&s, v.(*manifest.Manifest), false); return s.String() }

	c = reg(&codec{name: "contract", weight: 0})
	c.modelled, c.parse = true, true
	c.decArg = lastTok
	c.gen = func(g *G) any { return g.contract() }
	c.dec = func(b []byte) (any, int, error) {
		cs := new(state.Contract)
		if err := stackitem.DeserializeConvertible(b, cs); err != nil {
			return nil, 0, err
		}
		return cs, itemRest(b), nil
	}
	c.enc = func(v any) ([]byte, error) { return stackitem.SerializeConvertible(v.(*state.Contract)) }
	c.encSeg = func(v any) ([]byte, []int, error) {
		it, err := v.(*state.Contract).ToStackItem()
		if err != nil {
			return nil, nil, err
		}
		return itemSeg(&itemBox{it: it})
	}
	c.reencKey = storedReencKey
	c.show = func(v any) string { var s sb; showContractToks(&s, v.(*state.Contract), true); return s.String() }
	c.norm = func(v any) string { var s sb; showContractToks(&s, v.(*state.Contract), false); return s.String() }
}

// storedReencKey names the root cause when a loaded value cannot be stored again. The only failure Serialize can
// report for the canonical item is "too big". If the input item itself was over MaxSize, that is the known gap
// between Deserialize (bounds each byte string, not the total) and Serialize (bounds the total):
// item-reencode-fails. If the input fitted, the canonical form GREW: Extra is re-marshalled by extraToStackItem
// (HTML escaping: one byte '<' becomes six).
func storedReencKey(b []byte, name string) string {
	if len(b)-itemRest(b) > stackitem.MaxSize {
		return "item-reencode-fails"
	}
	return name + "-extra-reencode-grows"
}

// ---- generators ----

var allParamTypes = []smartcontract.ParamType{smartcontract.UnknownType, smartcontract.AnyType, smartcontract.BoolType,
	smartcontract.IntegerType, smartcontract.ByteArrayType, smartcontract.StringType, smartcontract.Hash160Type,
	smartcontract.Hash256Type, smartcontract.PublicKeyType, smartcontract.SignatureType, smartcontract.ArrayType,
	smartcontract.MapType, smartcontract.InteropInterfaceType, smartcontract.VoidType}

// mstr: a name; mostly ASCII, sometimes multi-byte UTF-8, empty, or (rarely) not UTF-8 at all.
func (g *G) mstr() string {
	w := []int{70, 12, 6, 0, 6}
	if g.allowInvalid {
		w[3] = 4
	}
	switch g.r.Weighted(w) {
	case 0:
		return g.ident()
	case 1:
		return []string{"é", "日本", "\U0001F600x", "a߿b", "￿", "ࠀ", "\U00010000", "\U0010FFFF", "퟿", ""}[g.r.Intn(10)] + g.ident()
	case 2:
		return ""
	case 3: // invalid UTF-8: FromStackItem rejects the item ToStackItem builds
		g.invalid = true
		return g.ident() + []string{"\xff", "\xc0\x80", "\xed\xa0\x80", "\xf4\x90\x80\x80", "\xe0\x80\x80", "\xc2", "\xf0\x80\x80\x80", "\x80", "\xe1\x80", "\xf8\x88\x80\x80\x80"}[g.r.Intn(10)]
	default:
		return string(printable(g.r, g.r.Intn(40)))
	}
}

func (g *G) mparams() []manifest.Parameter {
	n := g.r.Intn(4)
	ps := make([]manifest.Parameter, n)
	for i := range ps {
		ps[i] = manifest.Parameter{Name: g.mstr(), Type: allParamTypes[g.r.Intn(len(allParamTypes))]}
	}
	return ps
}

func (g *G) offset() int {
	switch g.r.Intn(6) {
	case 0:
		return []int{0, -1, 1 << 31, -(1 << 31), 1<<63 - 1, -1 << 63, 255, 256, 65535, 1 << 32}[g.r.Intn(10)]
	case 1:
		return int(int64(g.r.U64()))
	default:
		return g.r.Intn(70000)
	}
}

func (g *G) desc() manifest.PermissionDesc {
	switch g.r.Intn(3) {
	case 0:
		return manifest.PermissionDesc{Type: manifest.PermissionWildcard}
	case 1:
		return manifest.PermissionDesc{Type: manifest.PermissionHash, Value: g.u160()}
	default:
		return manifest.PermissionDesc{Type: manifest.PermissionGroup, Value: g.key()}
	}
}

// manifestWide: a manifest as FromStackItem can return it — not necessarily one IsValid accepts (duplicate names,
// Unknown/Void parameter types, negative offsets, empty names: none of this is checked by the stack-item form).
func (g *G) manifestWide() *manifest.Manifest {
	m := manifest.NewManifest(g.mstr())
	for i := g.r.Intn(3); i > 0; i-- {
		m.Groups = append(m.Groups, manifest.Group{PublicKey: g.key(), Signature: g.r.Bytes(keys.SignatureLen)})
	}
	for i := g.r.Intn(3); i > 0; i-- {
		m.SupportedStandards = append(m.SupportedStandards, g.mstr())
	}
	for i := g.r.Intn(4); i > 0; i-- {
		m.ABI.Methods = append(m.ABI.Methods, manifest.Method{Name: g.mstr(), Offset: g.offset(), Parameters: g.mparams(),
			ReturnType: allParamTypes[g.r.Intn(len(allParamTypes))], Safe: g.r.Bool()})
	}
	for i := g.r.Intn(3); i > 0; i-- {
		m.ABI.Events = append(m.ABI.Events, manifest.Event{Name: g.mstr(), Parameters: g.mparams()})
	}
	for i := g.r.Intn(3); i > 0; i-- {
		p := manifest.Permission{Contract: g.desc()}
		if g.r.Bool() {
			p.Methods.Restrict()
			for j := g.r.Intn(3); j > 0; j-- {
				p.Methods.Add(g.mstr())
			}
		}
		m.Permissions = append(m.Permissions, p)
	}
	switch g.r.Intn(5) {
	case 0:
		m.Trusts = manifest.WildPermissionDescs{Wildcard: true}
	case 1:
		m.Trusts.Restrict()
	case 2: // the zero value (IsValid calls it "null trusts"): not a wildcard, written as an empty array
		m.Trusts = manifest.WildPermissionDescs{}
	case 3: // a wildcard that still carries a list: written as Null
		m.Trusts = manifest.WildPermissionDescs{Wildcard: true, Value: []manifest.PermissionDesc{g.desc()}}
	default:
		m.Trusts.Restrict()
		for j := 1 + g.r.Intn(3); j > 0; j-- {
			m.Trusts.Add(g.desc())
		}
	}
	switch g.r.Intn(8) {
	case 0:
		m.Extra = json.RawMessage(`{"Author":"` + g.ident() + `","n":` + string(rune('0'+g.r.Intn(10))) + `}`)
	case 1:
		m.Extra = json.RawMessage(`"` + g.ident() + `"`)
	case 2:
		m.Extra = json.RawMessage(`[1,{"a":null},"x"]`)
	case 3:
		m.Extra = nil
	case 4: // not in the normal form of extraToStackItem: indentation, HTML characters
		m.Extra = json.RawMessage("{ \"a\" : [ 1 , 2 ],\n\t\"b\": \"<&>\" }")
	case 5:
		m.Extra = json.RawMessage(`{"z":1,"a":2,"z":3}`)
	}
	return m
}

func (g *G) contract() *state.Contract {
	c := &state.Contract{}
	switch g.r.Intn(4) {
	case 0:
		c.ID = []int32{0, -1, 1, 1<<31 - 1, -1 << 31, -14}[g.r.Intn(6)]
	default:
		c.ID = int32(g.r.Intn(100000))
	}
	switch g.r.Intn(4) {
	case 0:
		c.UpdateCounter = []uint16{0, 1, 65535, 255, 256, 32768}[g.r.Intn(6)]
	default:
		c.UpdateCounter = uint16(g.r.Intn(20))
	}
	c.Hash = g.u160()
	big := g.big
	g.big = false
	c.NEF = *g.nef()
	g.big = big
	c.Manifest = *g.manifestWide()
	return c
}

// ---- item-level mutation of the stack-item form ----

type itemSite struct {
	get func() stackitem.Item
	set func(stackitem.Item)
}

func collectSites(it stackitem.Item, set func(stackitem.Item), out *[]itemSite, depth int) {
	if depth > 12 {
		return
	}
	*out = append(*out, itemSite{get: func() stackitem.Item { return it }, set: set})
	switch t := it.(type) {
	case *stackitem.Array, *stackitem.Struct:
		v := t.Value().([]stackitem.Item)
		for i := range v {
			i := i
			collectSites(v[i], func(n stackitem.Item) { v[i] = n }, out, depth+1)
		}
	}
}

func bigFromItem(it stackitem.Item) *big.Int {
	if n, err := it.TryInteger(); err == nil {
		return new(big.Int).Set(n)
	}
	return big.NewInt(0)
}

// mutateItem replaces one node of the item by a differently typed / shaped one; returns the new root and the kind.
func mutateItem(r *prng.R, root stackitem.Item) (stackitem.Item, string) {
	var sites []itemSite
	newRoot := root
	collectSites(root, func(n stackitem.Item) { newRoot = n }, &sites, 0)
	// three out of four times a primitive (the lenient conversions), otherwise a compound (the shape checks)
	var prim, comp []itemSite
	for _, st := range sites {
		switch st.get().(type) {
		case *stackitem.Array, *stackitem.Struct, *stackitem.Map:
			comp = append(comp, st)
		default:
			prim = append(prim, st)
		}
	}
	s := sites[r.Intn(len(sites))]
	if len(prim) > 0 && r.Chance(3, 4) {
		s = prim[r.Intn(len(prim))]
	} else if len(comp) > 0 {
		s = comp[r.Intn(len(comp))]
	}
	x := s.get()
	kind := "keep"
	switch t := x.(type) {
	case *stackitem.ByteArray:
		b := append([]byte{}, (*t)...)
		switch r.Intn(12) {
		case 0:
			s.set(stackitem.NewBuffer(b))
			kind = "bytes->buffer"
		case 1:
			if len(b) <= 32 {
				s.set(stackitem.NewBigInteger(bigint.FromBytes(b)))
				kind = "bytes->int"
			}
		case 2:
			s.set(stackitem.NewBool(len(b) > 0 && b[0] != 0))
			kind = "bytes->bool"
		case 3:
			s.set(stackitem.NewByteArray(append(b, []byte{0xff, 0xc0, 0x80, 0xed, 0xa0}[r.Intn(5)])))
			kind = "bytes+badutf8"
		case 4:
			if len(b) > 0 {
				s.set(stackitem.NewByteArray(b[:len(b)-1]))
				kind = "bytes-1"
			}
		case 5:
			s.set(stackitem.NewByteArray(append(b, 0)))
			kind = "bytes+1"
		case 6:
			if u := uncompress(b); u != nil {
				s.set(stackitem.NewByteArray(u))
				kind = "key-uncompressed"
			}
		case 7:
			s.set(stackitem.Null{})
			kind = "bytes->null"
		case 8:
			if len(b) == 33 { // a compressed key of the other parity, or not on the curve
				b[0] ^= 1
				if r.Bool() {
					b[1+r.Intn(32)] ^= byte(1 << r.Intn(8))
				}
				s.set(stackitem.NewByteArray(b))
				kind = "key-bits"
			}
		case 9:
			s.set(stackitem.NewArray([]stackitem.Item{stackitem.NewByteArray(b)}))
			kind = "bytes->array"
		case 10:
			if len(b) > 4 { // NEF with a tail, or just a longer string
				s.set(stackitem.NewByteArray(append(b, r.Bytes(1+r.Intn(4))...)))
				kind = "bytes+tail"
			}
		default:
			s.set(stackitem.NewByteArray(r.Bytes([]int{0, 1, 20, 33, 64, 65}[r.Intn(6)])))
			kind = "bytes-random"
		}
	case *stackitem.BigInteger:
		n := t.Big()
		switch r.Intn(12) {
		case 0:
			s.set(stackitem.NewByteArray(bigint.ToBytes(n)))
			kind = "int->bytes"
		case 1: // non-canonical bytes of the same number (sign extension)
			b := bigint.ToBytes(n)
			ext := byte(0)
			if n.Sign() < 0 {
				ext = 0xff
			}
			for i := 1 + r.Intn(4); i > 0; i-- {
				b = append(b, ext)
			}
			s.set(stackitem.NewByteArray(b))
			kind = "int->padded-bytes"
		case 2:
			s.set(stackitem.NewBool(n.Sign() != 0))
			kind = "int->bool"
		case 3:
			s.set(stackitem.NewBuffer(bigint.ToBytes(n)))
			kind = "int->buffer"
		case 4: // same low 64 bits, does not fit int64: Int64() truncates
			v := new(big.Int).Lsh(big.NewInt(int64(1+r.Intn(3))), uint(64+r.Intn(100)))
			s.set(stackitem.NewBigInteger(v.Add(v, n)))
			kind = "int+2^k"
		case 5:
			v := new(big.Int).Lsh(big.NewInt(1), uint(64+r.Intn(100)))
			s.set(stackitem.NewBigInteger(v.Sub(n, v)))
			kind = "int-2^k"
		case 6:
			s.set(stackitem.NewBigInteger(new(big.Int).Neg(n)))
			kind = "int-neg"
		case 7:
			vals := []string{"9223372036854775807", "9223372036854775808", "-9223372036854775808", "-9223372036854775809",
				"18446744073709551615", "18446744073709551616", "-18446744073709551616", "2147483648", "-2147483649", "65536", "-1",
				"27670116110564327424", "-27670116110564327424", "9223372036854775809", "-9223372036854775807"}
			v, _ := new(big.Int).SetString(vals[r.Intn(len(vals))], 10)
			s.set(stackitem.NewBigInteger(v))
			kind = "int-boundary"
		case 8:
			s.set(stackitem.NewByteArray(append(bigint.ToBytes(n), make([]byte, 33)...)))
			kind = "int->33bytes"
		case 9:
			s.set(stackitem.Null{})
			kind = "int->null"
		case 10:
			s.set(stackitem.NewBigInteger(big.NewInt(int64(r.Intn(300)) - 20)))
			kind = "int-small"
		default:
			s.set(stackitem.NewBigInteger(new(big.Int).Add(n, big.NewInt(1))))
			kind = "int+1"
		}
	case stackitem.Bool:
		alts := []stackitem.Item{stackitem.NewBigInteger(big.NewInt(0)), stackitem.NewBigInteger(big.NewInt(7)),
			stackitem.NewByteArray(nil), stackitem.NewByteArray([]byte{0, 0, 1}), stackitem.NewByteArray(make([]byte, 32)),
			stackitem.NewByteArray(make([]byte, 33)), stackitem.NewBuffer(nil), stackitem.Null{},
			stackitem.NewArray(nil), stackitem.NewStruct(nil), stackitem.NewMap(), stackitem.NewBool(!bool(t)),
			stackitem.NewBigInteger(big.NewInt(-1))}
		i := r.Intn(len(alts))
		s.set(alts[i])
		kind = fmt.Sprintf("bool->%s", alts[i].Type())
	case *stackitem.Array, *stackitem.Struct:
		v := append([]stackitem.Item{}, t.Value().([]stackitem.Item)...)
		_, isArr := x.(*stackitem.Array)
		mk := func(v []stackitem.Item, arr bool) stackitem.Item {
			if arr {
				return stackitem.NewArray(v)
			}
			return stackitem.NewStruct(v)
		}
		switch r.Intn(8) {
		case 0, 1:
			s.set(mk(v, !isArr))
			kind = "array<->struct"
		case 2:
			if len(v) > 0 {
				s.set(mk(v[:len(v)-1], isArr))
				kind = "compound-1"
			}
		case 3:
			s.set(mk(append(v, stackitem.NewByteArray([]byte("x"))), isArr))
			kind = "compound+1"
		case 4:
			s.set(stackitem.Null{})
			kind = "compound->null"
		case 5:
			if len(v) > 1 {
				i, j := r.Intn(len(v)), r.Intn(len(v))
				v[i], v[j] = v[j], v[i]
				s.set(mk(v, isArr))
				kind = "compound-swap"
			}
		case 6:
			s.set(mk(nil, isArr))
			kind = "compound-empty"
		default:
			if len(v) > 0 {
				s.set(mk(append(v, v[r.Intn(len(v))]), isArr))
				kind = "compound-dup"
			}
		}
	case *stackitem.Map:
		switch r.Intn(3) {
		case 0:
			m := stackitem.NewMap()
			m.Add(stackitem.NewByteArray([]byte("k")), stackitem.NewBool(true))
			s.set(m)
			kind = "map+1"
		case 1:
			s.set(stackitem.NewArray(nil))
			kind = "map->array"
		default:
			s.set(stackitem.Null{})
			kind = "map->null"
		}
	case stackitem.Null:
		alts := []stackitem.Item{stackitem.NewArray(nil), stackitem.NewByteArray(nil), stackitem.NewBool(false),
			stackitem.NewStruct(nil), stackitem.NewByteArray(make([]byte, 20))}
		i := r.Intn(len(alts))
		s.set(alts[i])
		kind = fmt.Sprintf("null->%s", alts[i].Type())
	}
	return newRoot, kind
}

// storedCase: one experiment on the stored form of a manifest or a deployed contract.
func (rn *runner) storedCase(k int, r *prng.R) {
	o := rn.o
	c := codecByName["mfitem"]
	if r.Chance(2, 5) {
		c = codecByName["contract"]
	}
	g := newG(r)
	mode := r.Weighted([]int{30, 45, 15, 10})
	if mode != 0 {
		g.allowInvalid = false // mutations start from a value the loader accepts
	}
	v := c.gen(g)
	var it stackitem.Item
	var err error
	switch t := v.(type) {
	case *manifest.Manifest:
		it, err = t.ToStackItem()
	case *state.Contract:
		it, err = t.ToStackItem()
	}
	if err != nil {
		o.Fail(c.name+"-encode-fails", k, "ToStackItem of a generated value fails: %v", err)
		return
	}
	want := c.norm(v)
	full := c.show(v)
	switch mode {
	case 0: // value -> bytes -> value
		b, err := c.enc(v)
		if err != nil {
			o.Fail(c.name+"-encode-fails", k, "a generated value cannot be stored: %v", err)
			return
		}
		o.Line("enc "+c.name+" "+full, fmt.Sprintf("%s size=%d", hx.Hex(b), len(b)))
		if after := c.show(v); after != full {
			o.Fail(c.name+"-encode-mutates", k, "storing changes the value: %s -> %s", trunc(full, 200), trunc(after, 200))
		}
		rep := rn.bytesCase(k, c, b)
		switch {
		case g.invalid: // names that are not UTF-8: the loader must refuse what the writer wrote
			if rep.obs != "err" {
				o.Fail(c.name+"-accepts-invalid", k, "a value with a non-UTF-8 name is loaded: %s", trunc(rep.obs, 200))
			}
			o.Count("stored:" + c.name + ":invalid-utf8")
		case !strings.HasPrefix(rep.obs, "ok rest=0 enc="+hx.Hex(b)+" "):
			o.Fail(c.name+"-roundtrip", k, "load(store v) fails, leaves bytes or re-stores differently: %s", trunc(rep.obs, 300))
		default:
			// the loaded value is v with its Extra normalised: compare everything but the raw Extra
			got, _, derr := c.dec(b)
			if derr != nil || c.norm(got) != want {
				o.Fail(c.name+"-roundtrip", k, "load(store v) != v: want %s", trunc(want, 300))
			}
			o.Count("roundtrip:" + c.name)
		}
		o.Count("stored:valid")
	case 1: // item-level mutations: the lenient conversions of FromStackItem
		if cs, isC := v.(*state.Contract); isC && r.Chance(1, 4) {
			// the NEF field in another spelling, its checksum over the canonical bytes or recomputed over the bytes as
			// written (FileFromBytes must judge it like DecodeBinary: by the checksum of the re-encoding)
			if nb, cuts, err := encodeSeg(&cs.NEF); err == nil {
				for tries := 0; tries < 10; tries++ {
					mb, m := mutate(r, nb, cuts)
					if m == mutNonMin || m == mutBool {
						if r.Bool() {
							mb = sealNEF(mb)
							m += "+resealed"
						}
						f := it.Value().([]stackitem.Item)
						f[3] = stackitem.NewByteArray(mb)
						o.Count("stored:mut:nef-" + m)
						break
					}
				}
			}
		}
		kinds := ""
		for i := 1 + r.Intn(2); i > 0; i-- {
			var kd string
			it, kd = mutateItem(r, it)
			kinds += "+" + kd
			o.Count("stored:mut:" + kd)
		}
		b, err := stackitem.Serialize(it)
		if err != nil {
			o.Count("stored:unserializable")
			return
		}
		rep := rn.bytesCase(k, c, b)
		if strings.HasPrefix(rep.obs, "ok") {
			o.Count("stored:mutated:accepted")
			if !strings.Contains(rep.obs, " enc="+hx.Hex(b)+" ") {
				o.Count("stored:mutated:canonicalised")
			}
		} else {
			o.Count("stored:mutated:rejected")
		}
		o.Seen(fmt.Sprintf("%s/item%s/%x", c.name, kinds, hashShort(b)))
		return
	case 2: // field-level mutation of the bytes
		b, cuts, err := c.encSeg(v)
		if err != nil {
			return
		}
		if len(cuts) == 0 {
			cuts = []int{0}
		}
		var mut string
		b, mut = mutate(r, b, cuts)
		o.Count("stored:bytes:" + mut)
		rn.bytesCase(k, c, b)
	default: // any item at all
		var b []byte
		if r.Bool() {
			b, err = stackitem.Serialize(g.stackItem())
			if err != nil {
				b = r.Bytes(r.Intn(40))
			}
		} else {
			b = r.Bytes(r.Intn(60))
			if len(b) > 0 {
				b[0] = []byte{0x41, 0x40}[r.Intn(2)]
			}
		}
		o.Count("stored:random")
		rn.bytesCase(k, c, b)
	}
	o.Seen(fmt.Sprintf("%s/stored%d/%x", c.name, mode, hashShort([]byte(full))))
}

// storedCorpus: every leniency class of the FromStackItem family once, by hand.
func storedCorpus() []corpusCase {
	var out []corpusCase
	add := func(name string, build func() stackitem.Item) {
		out = append(out, func(rn *runner, k int) {
			b, err := stackitem.Serialize(build())
			if err != nil {
				rn.o.Fail("stored-corpus", k, "corpus item cannot be serialised: %v", err)
				return
			}
			rn.bytesCase(k, codecByName[name], b)
			rn.o.Seen("corpus/" + name + "/" + hx.Hex(b[:min(len(b), 24)]))
		})
	}
	key := func() *keys.PublicKey {
		initKeys()
		k, _ := keys.NewPublicKeyFromBytes(keyPool[0].Bytes(), elliptic.P256())
		return k
	}
	base := func() *manifest.Manifest {
		m := manifest.NewManifest("c")
		m.ABI.Methods = []manifest.Method{{Name: "m", Offset: 5, ReturnType: smartcontract.IntegerType, Safe: true,
			Parameters: []manifest.Parameter{{Name: "p", Type: smartcontract.BoolType}}}}
		m.Groups = []manifest.Group{{PublicKey: key(), Signature: make([]byte, 64)}}
		m.Permissions = []manifest.Permission{{Contract: manifest.PermissionDesc{Type: manifest.PermissionGroup, Value: key()}}}
		return m
	}
	fields := func(it stackitem.Item) []stackitem.Item { return it.Value().([]stackitem.Item) }
	item := func(edit func(f []stackitem.Item)) func() stackitem.Item {
		return func() stackitem.Item {
			it, _ := base().ToStackItem()
			edit(fields(it))
			return it
		}
	}
	method := func(f []stackitem.Item) []stackitem.Item { return fields(fields(fields(f[4])[0])[0]) }
	add("mfitem", item(func(f []stackitem.Item) {}))
	add("mfitem", item(func(f []stackitem.Item) { f[0] = stackitem.NewBuffer([]byte("c")) }))                   // Buffer name
	add("mfitem", item(func(f []stackitem.Item) { f[0] = stackitem.NewBigInteger(big.NewInt(0x63)) }))           // Integer name
	add("mfitem", item(func(f []stackitem.Item) { f[0] = stackitem.NewBool(true) }))                             // Bool name = "\x01"
	add("mfitem", item(func(f []stackitem.Item) { f[0] = stackitem.NewByteArray([]byte{0xc0, 0x80}) }))          // overlong NUL
	add("mfitem", item(func(f []stackitem.Item) { f[0] = stackitem.NewByteArray([]byte{0xed, 0xa0, 0x80}) }))    // surrogate
	add("mfitem", item(func(f []stackitem.Item) { f[0] = stackitem.NewByteArray([]byte{0xf4, 0x8f, 0xbf, 0xbf}) })) // U+10FFFF
	add("mfitem", item(func(f []stackitem.Item) { f[0] = stackitem.NewByteArray([]byte{0xf4, 0x90, 0x80, 0x80}) })) // > U+10FFFF
	add("mfitem", item(func(f []stackitem.Item) { f[1] = stackitem.NewStruct(fields(f[1])) }))                    // groups as Struct
	add("mfitem", item(func(f []stackitem.Item) { f[2] = stackitem.NewArray(nil) }))                             // features not a Map
	add("mfitem", item(func(f []stackitem.Item) { // uncompressed group key
		g := fields(fields(f[1])[0])
		g[0] = stackitem.NewByteArray(key().UncompressedBytes())
	}))
	add("mfitem", item(func(f []stackitem.Item) { // uncompressed key in a permission: 65 bytes, rejected by length
		p := fields(fields(f[5])[0])
		p[0] = stackitem.NewByteArray(key().UncompressedBytes())
	}))
	add("mfitem", item(func(f []stackitem.Item) { // Buffer as permission descriptor: rejected (type check)
		p := fields(fields(f[5])[0])
		p[0] = stackitem.NewBuffer(key().Bytes())
	}))
	add("mfitem", item(func(f []stackitem.Item) { fields(fields(f[1])[0])[1] = stackitem.NewByteArray(make([]byte, 63)) }))
	add("mfitem", item(func(f []stackitem.Item) { // return type 2^64+0x11: truncated to Integer (0x11)
		v, _ := new(big.Int).SetString("18446744073709551633", 10)
		method(f)[2] = stackitem.NewBigInteger(v)
	}))
	add("mfitem", item(func(f []stackitem.Item) { // -(2^64+1) -> -1 = UnknownType, accepted
		v, _ := new(big.Int).SetString("-18446744073709551617", 10)
		method(f)[2] = stackitem.NewBigInteger(v)
	}))
	add("mfitem", item(func(f []stackitem.Item) { method(f)[2] = stackitem.NewBigInteger(big.NewInt(0x18)) })) // unknown type
	add("mfitem", item(func(f []stackitem.Item) { method(f)[2] = stackitem.NewByteArray([]byte{0x11, 0, 0}) })) // bytes as number
	add("mfitem", item(func(f []stackitem.Item) { method(f)[2] = stackitem.NewBuffer([]byte{0x11}) }))          // Buffer is no number
	add("mfitem", item(func(f []stackitem.Item) { // offset 2^63: Int64() wraps to -2^63
		v, _ := new(big.Int).SetString("9223372036854775808", 10)
		method(f)[3] = stackitem.NewBigInteger(v)
	}))
	add("mfitem", item(func(f []stackitem.Item) { // offset -2^63 - 1 -> low 64 bits 2^63+1 -> int64 -(2^63-1) -> negated
		v, _ := new(big.Int).SetString("-9223372036854775809", 10)
		method(f)[3] = stackitem.NewBigInteger(v)
	}))
	add("mfitem", item(func(f []stackitem.Item) { method(f)[4] = stackitem.NewArray(nil) }))                   // safe: any item is true
	add("mfitem", item(func(f []stackitem.Item) { method(f)[4] = stackitem.Null{} }))                          // … Null is false
	add("mfitem", item(func(f []stackitem.Item) { method(f)[4] = stackitem.NewByteArray(make([]byte, 33)) }))  // … 33 bytes: error
	add("mfitem", item(func(f []stackitem.Item) { f[6] = stackitem.Null{} }))                                  // trusts wildcard
	add("mfitem", item(func(f []stackitem.Item) { f[7] = stackitem.NewBigInteger(big.NewInt(0x7b7d)) }))       // extra from a number
	add("mfitem", item(func(f []stackitem.Item) { f[7] = stackitem.NewByteArray([]byte("{ \"a\" : 1 }")) }))   // extra not normalised
	add("mfitem", item(func(f []stackitem.Item) { f[7] = stackitem.NewByteArray([]byte("not json")) }))        // … not JSON: re-stored as null
	// deployed contract
	cbase := func() *state.Contract {
		g := newG(prng.New(77))
		cs := &state.Contract{UpdateCounter: 3}
		cs.ID = 42
		cs.Hash = g.u160()
		cs.NEF = *g.nef()
		cs.Manifest = *base()
		return cs
	}
	citem := func(edit func(f []stackitem.Item)) func() stackitem.Item {
		return func() stackitem.Item {
			it, _ := cbase().ToStackItem()
			edit(fields(it))
			return it
		}
	}
	add("contract", citem(func(f []stackitem.Item) {}))
	add("contract", func() stackitem.Item { it, _ := cbase().ToStackItem(); return stackitem.NewStruct(fields(it)) }) // a Struct is fine
	add("contract", citem(func(f []stackitem.Item) { f[0] = stackitem.NewBigInteger(big.NewInt(1 << 31)) }))         // ID out of int32
	add("contract", citem(func(f []stackitem.Item) { f[0] = stackitem.NewBigInteger(big.NewInt(-1 << 31)) }))
	add("contract", citem(func(f []stackitem.Item) { f[1] = stackitem.NewBigInteger(big.NewInt(65536)) }))
	add("contract", citem(func(f []stackitem.Item) { f[1] = stackitem.NewBigInteger(big.NewInt(-1)) }))
	add("contract", citem(func(f []stackitem.Item) { f[1] = stackitem.NewBool(true) }))
	add("contract", citem(func(f []stackitem.Item) { f[2] = stackitem.NewBuffer(make([]byte, 20)) }))
	add("contract", citem(func(f []stackitem.Item) { f[2] = stackitem.NewByteArray(make([]byte, 21)) }))
	add("contract", citem(func(f []stackitem.Item) { // NEF followed by garbage: accepted, the garbage is dropped
		b, _ := f[3].TryBytes()
		f[3] = stackitem.NewByteArray(append(append([]byte{}, b...), 1, 2, 3))
	}))
	add("contract", citem(func(f []stackitem.Item) { // NEF with a wrong checksum
		b, _ := f[3].TryBytes()
		b = append([]byte{}, b...)
		b[len(b)-1] ^= 1
		f[3] = stackitem.NewByteArray(b)
	}))
	// a NEF file of exactly stackitem.MaxSize bytes: FileFromBytes accepts it (the bound is inclusive); the item
	// around it is over MaxSize, which Deserialize does not mind and Serialize refuses (item-reencode-fails)
	out = append(out, func(rn *runner, k int) {
		cs := cbase()
		cs.NEF.Tokens = nil
		cs.NEF.Source = ""
		cs.NEF.Script = make([]byte, 8)
		b0, _ := cs.NEF.BytesLong()
		cs.NEF.Script = make([]byte, 8+stackitem.MaxSize-len(b0)-4) // the script length prefix grows from 1 to 5 bytes
		cs.NEF.Checksum = cs.NEF.CalculateChecksum()
		raw, _ := cs.NEF.BytesLong()
		for _, n := range []int{len(raw), len(raw) - 1} {
			c2 := *cs
			c2.NEF.Script = cs.NEF.Script[:len(cs.NEF.Script)-(len(raw)-n)]
			c2.NEF.Checksum = c2.NEF.CalculateChecksum()
			rawN, _ := c2.NEF.BytesLong()
			mi, _ := c2.Manifest.ToStackItem()
			it := stackitem.NewArray([]stackitem.Item{stackitem.Make(c2.ID), stackitem.Make(c2.UpdateCounter),
				stackitem.NewByteArray(c2.Hash.BytesBE()), stackitem.NewByteArray(rawN), mi})
			sw := &segWriter{}
			w := io.NewBinWriterFromIO(sw)
			if !writeItem(w, it, 0) {
				rn.o.Fail("stored-corpus", k, "cannot write the corpus item")
				return
			}
			rn.o.Count(fmt.Sprintf("stored:nef-size:%d", len(rawN)))
			rn.bytesCase(k, codecByName["contract"], sw.buf)
		}
		rn.o.Seen("corpus/contract/nef-maxsize")
	})
	// Extra whose normal form is six times longer: loads, cannot be stored again (known: *-extra-reencode-grows)
	add("mfitem", item(func(f []stackitem.Item) {
		f[7] = stackitem.NewByteArray([]byte(`"` + strings.Repeat("<", 30000) + `"`))
	}))
	return out
}
