package main

import (
	"bytes"
	"encoding/hex"
	"strings"

	"github.com/nspcc-dev/neo-go/pkg/core/block"
	"github.com/nspcc-dev/neo-go/pkg/core/transaction"
	"github.com/nspcc-dev/neo-go/pkg/io"
	"github.com/nspcc-dev/neo-go/pkg/network"
	"github.com/nspcc-dev/neo-go/pkg/network/payload"
	"github.com/nspcc-dev/neo-go/pkg/util"

	"verif/harness/internal/hx"
	"verif/harness/internal/prng"
)

func mustHex(s string) []byte {
	b, err := hex.DecodeString(strings.ReplaceAll(s, " ", ""))
	if err != nil {
		panic(err)
	}
	return b
}

type corpusCase func(rn *runner, k int)

func rawCase(name string, b []byte) corpusCase {
	return func(rn *runner, k int) {
		c := codecByName[name]
		rn.bytesCase(k, c, b)
		rn.o.Seen("corpus/" + name + "/" + hx.Hex(b[:min(len(b), 24)]))
	}
}

func txCase(b []byte) corpusCase {
	return func(rn *runner, k int) {
		rep := rn.ask(k, "tx", "T "+hx.Hex(b))
		if txPathsModelled {
			rn.o.Line("txpaths "+hx.Hex(b), tiePaths(rep.obs))
		}
		rn.o.Seen("corpus/txpaths/" + hx.Hex(b[:min(len(b), 24)]))
	}
}

// simpleTx is the smallest valid transaction: one signer, script 0x51 (PUSH1), empty witness.
func simpleTx() *transaction.Transaction {
	return &transaction.Transaction{
		Nonce: 7, SystemFee: 1, NetworkFee: 2, ValidUntilBlock: 9,
		Signers:    []transaction.Signer{{Account: util.Uint160{1, 2, 3}, Scopes: transaction.CalledByEntry}},
		Attributes: []transaction.Attribute{},
		Script:     []byte{0x51},
		Scripts:    []transaction.Witness{{InvocationScript: []byte{}, VerificationScript: []byte{}}},
	}
}

func headerBytes(sr bool) []byte {
	h := &block.Header{StateRootEnabled: sr}
	b, _ := encBytes(h)
	return b
}

func cat(parts ...[]byte) []byte {
	var b []byte
	for _, p := range parts {
		b = append(b, p...)
	}
	return b
}

func repeat(b []byte, n int) []byte {
	var r []byte
	for i := 0; i < n; i++ {
		r = append(r, b...)
	}
	return r
}

// buildCorpus returns the hand-written cases that run first (cases 0..n-1).
func buildCorpus(thorough bool) []corpusCase {
	initKeys()
	var cs []corpusCase
	add := func(c corpusCase) { cs = append(cs, c) }

	// --- DESIGN §6 item 12: the number of signers written as fd 01 00 ---
	tb := simpleTx().Bytes()
	// layout: ver(1) nonce(4) sysfee(8) netfee(8) vub(4) nsigners(1) …
	nonmin := cat(tb[:25], []byte{0xfd, 0x01, 0x00}, tb[26:])
	add(txCase(tb))
	add(txCase(nonmin))
	// --- same root cause: a Boolean condition byte 0x02, an uncompressed group key ---
	{
		t := simpleTx()
		tr := transaction.ConditionBoolean(true)
		t.Signers[0].Scopes = transaction.Rules
		t.Signers[0].Rules = []transaction.WitnessRule{{Action: transaction.WitnessAllow, Condition: &tr}}
		b := t.Bytes()
		// signer: account(20) scope(1) nrules(1) action(1) type(1) bool(1)
		i := 26 + 20 + 1 + 1 + 1 + 1
		if b[i] == 1 {
			nb := append([]byte{}, b...)
			nb[i] = 2
			add(txCase(nb))
		}
		t = simpleTx()
		t.Signers[0].Scopes = transaction.CustomGroups
		t.Signers[0].AllowedGroups = append(t.Signers[0].AllowedGroups, keyPool[0])
		b = t.Bytes()
		i = 26 + 20 + 1 + 1
		add(txCase(cat(b[:i], keyPool[0].UncompressedBytes(), b[i+33:])))
	}
	// --- fixed defects kept as regression inputs ---
	add(rawCase("item", mustHex("40ffffffffffffffffff")))               // array count >= 2^63 (fix 24c2bbf)
	add(rawCase("item", mustHex("41ffffffffffffffffff")))               // struct
	add(rawCase("item", mustHex("48ffffffffffffffffff")))               // map
	add(rawCase("item", mustHex("4801400000")))                         // map with an array key
	add(rawCase("item", cat(mustHex("480128fd0001"), make([]byte, 256), []byte{0}))) // map key over 64 bytes
	add(rawCase("itemprot", mustHex("4801ff00")))                       // protected: invalid item as a key
	add(rawCase("p2p.merkleblock", cat(headerBytes(false), mustHex("ffffffffffffffffffffffffffffffffffff")))) // fix 6ed1937
	add(rawCase("p2p.merkleblock", cat(headerBytes(false), mustHex("fffffffffffffffffffe00000004"))))
	add(rawCase("p2p.merkleblock", cat(headerBytes(false), mustHex("ffffffffffffffffff00ffffffffffffffffff"))))
	add(rawCase("consensus0", mustHex("00 05000000 00 00 0000000000000000 03 fe00000001"))) // fix 74ce462
	add(rawCase("consensus0", mustHex("00 05000000 00 00 0000000000000000 04 fe00000001")))
	add(rawCase("consensus0", mustHex("41 05000000 00 00 fe00000001")))
	add(rawCase("consensus0", mustHex("41 05000000 00 00 00 00 00 fe00000001")))
	add(rawCase("consensus0", mustHex("41 05000000 00 00 00 00 00 00 fe00000001")))
	// --- uncapped arrays that are still in the tree (known finding aer-uncapped-array) ---
	add(rawCase("aer", cat(make([]byte, 32), mustHex("01 01 0000000000000000 00 fe00000001"))))
	add(rawCase("aer", cat(make([]byte, 32), mustHex("01 81 0000000000000000 00 00 00 fe00000001"))))
	// --- counts at / over every cap, with and without the data ---
	for _, n := range []uint64{0x1000000, 0x1000001, 1 << 31, 1<<32 - 1, 1 << 32, 1 << 62, 1 << 63, 1<<64 - 1} {
		vu := minimalVarUint(n)
		add(rawCase("attr", cat([]byte{0xe0}, vu)))                                  // Reserved: ReadVarBytes() default cap
		add(rawCase("p2p.mptdata", cat([]byte{1}, vu)))                              // node bytes
		add(rawCase("p2p.mptdata", vu))                                              // node count
		add(rawCase("nef", cat(mustHex("4e454633"), make([]byte, 64), []byte{0, 0}, vu))) // tokens: ReadArray default cap
		add(rawCase("notification", cat(make([]byte, 20), vu)))                      // name: ReadString() default cap
		add(rawCase("item", cat([]byte{0x28}, vu)))
		add(rawCase("item", cat([]byte{0x21}, vu)))
		add(rawCase("item", cat([]byte{0x40}, vu)))
		add(rawCase("item", cat([]byte{0x48}, vu)))
		add(rawCase("mptnode", cat([]byte{1}, vu)))
		add(rawCase("mptnode", cat([]byte{2}, vu)))
		add(rawCase("block0", cat(headerBytes(false), vu)))
		add(rawCase("p2p.headers0", vu))
		add(rawCase("p2p.inv", cat([]byte{0x2b}, vu)))
		add(rawCase("p2p.addr", vu))
		add(rawCase("p2p.version", cat(make([]byte, 16), vu)))
		add(rawCase("p2p.version", cat(make([]byte, 16), []byte{0}, vu)))
		add(rawCase("extensible", vu))
		add(rawCase("extensible", cat([]byte{0}, make([]byte, 28), vu)))
		add(rawCase("stateroot", cat(make([]byte, 37), vu)))
		add(rawCase("witness", vu))
		add(rawCase("signer", cat(make([]byte, 20), []byte{0x10}, vu)))
		add(rawCase("signer", cat(make([]byte, 20), []byte{0x20}, vu)))
		add(rawCase("signer", cat(make([]byte, 20), []byte{0x40}, vu)))
		add(rawCase("cond", cat([]byte{2}, vu)))
		add(rawCase("tx", cat(make([]byte, 25), vu)))
		add(rawCase("message0", cat([]byte{0, byte(network.CMDTX)}, vu)))
		add(rawCase("message0", cat([]byte{1, byte(network.CMDBlock), 8}, []byte{0xff, 0xff, 0xff, 0x01}, []byte{0, 0, 0, 0}))) // compressed, claimed length 32 MiB - 1
		add(rawCase("message0", cat([]byte{1, byte(network.CMDBlock), 8}, []byte{0x01, 0x00, 0x00, 0x02}, []byte{0, 0, 0, 0}))) // claimed length over MaxSize
		add(rawCase("aer", cat(make([]byte, 42), vu)))
	}
	add(rawCase("attr", mustHex("e0 03 010203"))) // Reserved attribute: no JSON form that can be read back
	// --- nesting ---
	add(rawCase("cond", mustHex("01 01 01 0001")))       // four levels: rejected
	add(rawCase("cond", mustHex("01 01 0001")))          // three levels: accepted
	add(rawCase("cond", mustHex("02 01 03 01 01 0001"))) // and(or(not(b))): four levels
	add(rawCase("cond", cat([]byte{2, 16}, repeat([]byte{0x20}, 16))))
	add(rawCase("cond", cat([]byte{2, 17}, repeat([]byte{0x20}, 17))))
	add(rawCase("cond", mustHex("0200")))
	add(rawCase("item", cat(repeat(mustHex("4001"), 2047), []byte{0x00})))  // 2048 items deep: accepted
	add(rawCase("item", cat(repeat(mustHex("4001"), 2048), []byte{0x00})))  // 2049: rejected
	add(rawCase("item", cat(mustHex("40fdff07"), repeat([]byte{0x00}, 2047)))) // array of 2047 nulls = 2048 items
	add(rawCase("item", cat(mustHex("40fd0008"), repeat([]byte{0x00}, 2048))))
	add(rawCase("item", cat(mustHex("48fdff03"), repeat(mustHex("21010100"), 1023)))) // map of 1023 pairs
	add(rawCase("item", cat(mustHex("48fd0004"), repeat(mustHex("21010100"), 1024))))
	add(rawCase("item", cat(mustHex("4802"), mustHex("21010100"), mustHex("21010120")))) // duplicate key
	add(rawCase("item", cat(mustHex("2120"), make([]byte, 32))))
	add(rawCase("item", cat(mustHex("2121"), make([]byte, 33))))
	add(rawCase("item", cat(mustHex("4002"), mustHex("28fea0860100"), make([]byte, 100000), mustHex("28fea0860100"), make([]byte, 100000)))) // decodes, but is over MaxSize in total: cannot be re-encoded
	add(rawCase("item", mustHex("21020100"))) // padded integer
	add(rawCase("item", mustHex("2002")))     // bool byte 2
	add(rawCase("mptnode", cat(repeat(mustHex("010100"), 136), []byte{4}))) // extension chain, depth 136
	add(rawCase("mptnode", cat(repeat(mustHex("010100"), 137), []byte{4})))
	add(rawCase("mptnode", cat(repeat(mustHex("010100"), 138), []byte{4})))
	add(rawCase("mptnode", mustHex("01010a04"))) // extension with an empty next
	add(rawCase("mptnode", cat([]byte{0}, repeat([]byte{4}, 17))))
	add(rawCase("mptnode", cat([]byte{0}, repeat(cat([]byte{0}, repeat([]byte{4}, 17)), 17)))) // inline branches
	// --- header witness count in non-minimal form, block with 65535 / 65536 contents claimed ---
	hb := headerBytes(false)
	add(rawCase("header0", cat(hb[:len(hb)-3], mustHex("fd0100"), hb[len(hb)-2:])))
	add(rawCase("header0", cat(hb[:len(hb)-3], mustHex("02"), hb[len(hb)-2:])))
	add(rawCase("block0", cat(hb, mustHex("fdffff"))))
	add(rawCase("block0", cat(hb, mustHex("fe00000100"))))
	add(rawCase("block0", cat(hb, mustHex("02"), tb, nonmin))) // same tx twice, once non-minimal
	// --- a P2P message carrying the non-minimal transaction, compressed and not ---
	{
		w := io.NewBufBinWriter()
		w.WriteB(0)
		w.WriteB(byte(network.CMDTX))
		w.WriteVarBytes(nonmin)
		add(rawCase("message0", w.Bytes()))
	}
	// --- LZ4: a payload starting with > 2 KiB of incompressible bytes followed by a repetition ---
	add(func(rn *runner, k int) {
		c := codecByName["message0"]
		r := prng.New(77)
		for pad := 0; pad < 4; pad++ {
			// an MPT data reply (state sync): hash-like bytes first, something compressible at the end
			d := &payload.MPTData{Nodes: [][]byte{r.Bytes(2100 + 16*pad), bytes.Repeat([]byte{0xab}, 64)}}
			ab, err := c.altEnc(network.NewMessage(network.CMDMPTData, d))
			if err != nil {
				rn.o.Fail("message-encode-fails", k, "%v", err)
				return
			}
			plain, _, _ := c.encSeg(network.NewMessage(network.CMDMPTData, d))
			if prep := rn.bytesCase(k, c, plain); !strings.HasPrefix(prep.obs, "ok rest=0 ") {
				rn.o.Fail("message0-roundtrip", k, "the uncompressed framing of a valid MPTData payload is rejected: %s", prep.obs)
				continue
			}
			rep := rn.bytesCase(k, c, ab)
			if !strings.HasPrefix(rep.obs, "ok rest=0 ") {
				rn.o.Fail("message-lz4-roundtrip", k, "the node's own compressed framing of a valid MPTData payload (nodes: %d random bytes, 64 x ab) is rejected by Message.Decode: %s", 2100+16*pad, rep.obs)
				rn.o.Count("corpus:lz4-rejected")
			} else {
				rn.o.Count("corpus:lz4-accepted")
			}
		}
	})
	cs = append(cs, boundaryCorpus()...)
	if thorough {
		// a block body with MaxTransactionsPerBlock and one more (really present) minimal transactions
		one := simpleTx().Bytes()
		for _, n := range []int{block.MaxTransactionsPerBlock, block.MaxTransactionsPerBlock + 1} {
			add(rawCase("block0", cat(headerBytes(false), minimalVarUint(uint64(n)), repeat(one, n))))
		}
		// maximum payload: 32 MiB of zeroes claimed and present
		add(rawCase("message0", cat([]byte{0, byte(network.CMDExtensible)}, mustHex("fe00000002"), make([]byte, 0x2000000))))
		add(rawCase("extensible", cat([]byte{0}, make([]byte, 28), mustHex("fe00000002"), make([]byte, 0x2000000), []byte{1, 0, 0})))
	}
	// Reserved attributes 0xe0..0xff, empty and non-empty value: binary and JSON round trip (generic oracle + the
	// key json-reserved-attribute), alone and inside a transaction pushed through every arrival path (incl. JSON)
	add(func(rn *runner, k int) {
		for t := 0xe0; t <= 0xff; t++ {
			for _, val := range [][]byte{{}, {1, 2, 3}, bytes.Repeat([]byte{0xab}, 300)} {
				a := &transaction.Attribute{Type: transaction.AttrType(t), Value: &transaction.Reserved{Value: val}}
				b, err := encBytes(a)
				if err != nil {
					rn.o.Fail("attr-encode-fails", k, "Reserved attribute %#x: %v", t, err)
					continue
				}
				rn.bytesCase(k, codecByName["attr"], b)
				if len(val) == 3 {
					tx := simpleTx()
					tx.Attributes = []transaction.Attribute{*a}
					tb := tx.Bytes()
					rep := rn.ask(k, "tx", "T "+hx.Hex(tb))
					if txPathsModelled {
						rn.o.Line("txpaths "+hx.Hex(tb), tiePaths(rep.obs))
					}
					rn.bytesCase(k, codecByName["tx"], tb)
				}
			}
		}
		rn.o.Seen("corpus/attr/reserved-all")
	})
	cs = append(cs, storedCorpus()...) // stored form of manifests / deployed contracts (storedform.go)
	cs = append(cs, dagCorpus()...)    // shared compounds at the item-count limit (dag.go)
	cs = append(cs, jsonCorpus()...)   // typed JSON of stack items (itemjson.go)
	cs = append(cs, entryCorpus()...)  // several decoding entry points, integrity fields (entries.go)
	cs = append(cs, scopesCorpus()...) // JSON text of witness scopes (scopes.go)
	cs = append(cs, msgObjCorpus()...) // one Message object serialised several times (msgobj.go)
	cs = append(cs, tokensCorpus()...) // token transfer log records: amount boundaries (tokens.go)
	return cs
}
