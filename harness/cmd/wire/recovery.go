package main

// What dBFT does next with an accepted RecoveryMessage (dbft.onRecoveryMessage): it asks the message for the
// ChangeView / PrepareResponse / Commit payloads it carries, handing it the validator list. The compact payloads
// carry their validator index as a plain wire byte; the outer payload's index is checked by validatePayload, the
// inner ones are not. Oracle: no accepted consensus payload makes these getters panic (7 validators).

import (
	"fmt"

	"github.com/nspcc-dev/dbft"
	"github.com/nspcc-dev/neo-go/pkg/consensus"
	"github.com/nspcc-dev/neo-go/pkg/crypto/keys"

	"verif/harness/internal/hx"
)

var recoveryValidators = func() []dbft.PublicKey {
	out := make([]dbft.PublicKey, 7)
	for i := range out {
		b := make([]byte, 32)
		b[31] = byte(i + 1)
		k, err := keys.NewPrivateKeyFromBytes(b)
		if err != nil {
			panic(err)
		}
		out[i] = k.PublicKey()
	}
	return out
}()

func recoveryGetters(v any, rep *report) {
	p := v.(*consensus.Payload)
	if p.Type() != dbft.RecoveryMessageType {
		return
	}
	rm := p.GetRecoveryMessage()
	try := func(name string, f func() int) {
		defer func() {
			if r := recover(); r != nil {
				rep.fail("consensus-recovery-index-panic", "%s(payload, %d validators) of an accepted RecoveryMessage panics: %v (message %s)",
					name, len(recoveryValidators), r, trunc(hx.Hex(p.Data), 200))
			}
		}()
		rep.count(fmt.Sprintf("recovery:%s:%d", name, min(f(), 3)))
	}
	try("GetChangeViews", func() int { return len(rm.GetChangeViews(p, recoveryValidators)) })
	try("GetPrepareResponses", func() int { return len(rm.GetPrepareResponses(p, recoveryValidators)) })
	try("GetCommits", func() int { return len(rm.GetCommits(p, recoveryValidators)) })
	try("GetPrepareRequest", func() int {
		if rm.GetPrepareRequest(p, recoveryValidators, 0) == nil {
			return 0
		}
		return 1
	})
}
