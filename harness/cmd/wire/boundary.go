package main

// Systematic boundary cases (run as part of the corpus, before the random stream): for every cap a decoder
// enforces, one value exactly at the cap and one just over it, built from the repo's own types and encoded by
// the real encoder (which does not enforce caps), then decoded by the real decoder and by the model.

import (
	"bytes"
	"math/big"
	"strings"

	"github.com/nspcc-dev/neo-go/pkg/core/block"
	"github.com/nspcc-dev/neo-go/pkg/core/mpt"
	"github.com/nspcc-dev/neo-go/pkg/core/state"
	"github.com/nspcc-dev/neo-go/pkg/core/transaction"
	"github.com/nspcc-dev/neo-go/pkg/crypto/keys"
	"github.com/nspcc-dev/neo-go/pkg/io"
	"github.com/nspcc-dev/neo-go/pkg/network"
	"github.com/nspcc-dev/neo-go/pkg/network/capability"
	"github.com/nspcc-dev/neo-go/pkg/network/payload"
	"github.com/nspcc-dev/neo-go/pkg/smartcontract/nef"
	"github.com/nspcc-dev/neo-go/pkg/util"
	"github.com/nspcc-dev/neo-go/pkg/vm/stackitem"

	"verif/harness/internal/hx"
	"verif/harness/internal/prng"
)

// valCase encodes v with the real encoder of codec `name` and feeds the bytes to decoder and model.
func valCase(name string, v any) corpusCase {
	return func(rn *runner, k int) {
		c := codecByName[name]
		b, _, err := c.encSeg(v)
		if err != nil {
			rn.o.Count("boundary:unencodable:" + name)
			return
		}
		rn.bytesCase(k, c, b)
		rn.o.Count("boundary:" + name)
		rn.o.Seen("boundary/" + name + "/" + hx.Hex(b[:min(len(b), 16)]) + "/" + string(rune(len(b)%251)))
	}
}

func nUint160(r *prng.R, n int) []util.Uint160 {
	res := make([]util.Uint160, n)
	for i := range res {
		copy(res[i][:], r.Bytes(20))
	}
	return res
}

func nUint256(r *prng.R, n int) []util.Uint256 {
	res := make([]util.Uint256, n)
	for i := range res {
		copy(res[i][:], r.Bytes(32))
	}
	return res
}

func boundaryCorpus() []corpusCase {
	initKeys()
	r := prng.New(0xb0bd)
	var cs []corpusCase
	add := func(c corpusCase) { cs = append(cs, c) }
	acct := func(i int) util.Uint160 { return util.Uint160{byte(i + 1), 0xaa} }
	plainSigner := func(i int) transaction.Signer {
		return transaction.Signer{Account: acct(i), Scopes: transaction.CalledByEntry}
	}
	conflicts := func(i int) transaction.Attribute {
		return transaction.Attribute{Type: transaction.ConflictsT, Value: &transaction.Conflicts{Hash: util.Uint256{byte(i)}}}
	}
	mkTx := func(ns, na, nw int) *transaction.Transaction {
		t := &transaction.Transaction{Nonce: 1, ValidUntilBlock: 2, Script: []byte{0x51}}
		for i := 0; i < ns; i++ {
			t.Signers = append(t.Signers, plainSigner(i))
		}
		for i := 0; i < na; i++ {
			t.Attributes = append(t.Attributes, conflicts(i))
		}
		for i := 0; i < nw; i++ {
			t.Scripts = append(t.Scripts, transaction.Witness{InvocationScript: []byte{}, VerificationScript: []byte{}})
		}
		return t
	}
	// --- transaction: signers + attributes <= 16, one witness per signer ---
	for _, p := range [][3]int{{1, 15, 1}, {1, 16, 1}, {16, 0, 16}, {16, 1, 16}, {17, 0, 17}, {0, 0, 0}, {0, 1, 0}, {8, 8, 8}, {8, 9, 8}, {15, 1, 15}, {15, 2, 15},
		{2, 0, 1}, {2, 0, 3}, {1, 0, 0}, {16, 0, 17}, {1, 0, 17}} {
		add(valCase("tx", mkTx(p[0], p[1], p[2])))
	}
	// isValid: version, fees, duplicate signer, duplicate attribute, empty script, script length
	{
		t := mkTx(1, 0, 1)
		t.Version = 1
		add(valCase("tx", t))
		t = mkTx(1, 0, 1)
		t.SystemFee = -1
		add(valCase("tx", t))
		t = mkTx(1, 0, 1)
		t.NetworkFee = -1
		add(valCase("tx", t))
		t = mkTx(1, 0, 1)
		t.SystemFee, t.NetworkFee = 1<<62, 1<<62 // sum overflows int64
		add(valCase("tx", t))
		t = mkTx(1, 0, 1)
		t.SystemFee, t.NetworkFee = 1<<62, 1<<62-1 // largest sum that fits
		add(valCase("tx", t))
		t = mkTx(2, 0, 2)
		t.Signers[1].Account = t.Signers[0].Account
		add(valCase("tx", t))
		t = mkTx(1, 0, 1)
		t.Attributes = []transaction.Attribute{{Type: transaction.HighPriority}, {Type: transaction.HighPriority}}
		add(valCase("tx", t))
		t = mkTx(1, 2, 1) // two Conflicts: allowed
		add(valCase("tx", t))
		t = mkTx(1, 0, 1)
		t.Attributes = []transaction.Attribute{{Type: transaction.NotValidBeforeT, Value: &transaction.NotValidBefore{Height: 1}}, {Type: transaction.NotValidBeforeT, Value: &transaction.NotValidBefore{Height: 2}}}
		add(valCase("tx", t))
		t = mkTx(1, 0, 1)
		t.Script = []byte{}
		add(valCase("tx", t))
		for _, n := range []int{transaction.MaxScriptLength, transaction.MaxScriptLength + 1} {
			t = mkTx(1, 0, 1)
			t.Script = bytes.Repeat([]byte{0x21}, n)
			add(valCase("tx", t))
		}
	}
	// --- signer: every scope byte; arrays at and over maxSubitems ---
	for s := 0; s < 256; s++ {
		sg := transaction.Signer{Account: acct(s), Scopes: transaction.WitnessScope(s)}
		if sg.Scopes&transaction.CustomContracts != 0 {
			sg.AllowedContracts = nUint160(r, 1)
		}
		if sg.Scopes&transaction.CustomGroups != 0 {
			sg.AllowedGroups = []*keys.PublicKey{keyPool[s%len(keyPool)]}
		}
		if sg.Scopes&transaction.Rules != 0 {
			b := transaction.ConditionBoolean(true)
			sg.Rules = []transaction.WitnessRule{{Action: transaction.WitnessAllow, Condition: &b}}
		}
		sg2 := sg
		add(valCase("signer", &sg2))
	}
	for _, n := range []int{0, 16, 17} {
		sg := transaction.Signer{Account: acct(1), Scopes: transaction.CustomContracts, AllowedContracts: nUint160(r, n)}
		add(valCase("signer", &sg))
		gs := make([]*keys.PublicKey, n)
		for i := range gs {
			gs[i] = keyPool[i%len(keyPool)]
		}
		sg2 := transaction.Signer{Account: acct(2), Scopes: transaction.CustomGroups, AllowedGroups: gs}
		add(valCase("signer", &sg2))
		rs := make([]transaction.WitnessRule, n)
		for i := range rs {
			rs[i] = transaction.WitnessRule{Action: transaction.WitnessAction(i % 2), Condition: transaction.ConditionCalledByEntry{}}
		}
		sg3 := transaction.Signer{Account: acct(3), Scopes: transaction.Rules, Rules: rs}
		add(valCase("signer", &sg3))
	}
	// --- rule actions, condition list sizes, nesting ---
	for a := 0; a < 4; a++ {
		add(valCase("rule", &transaction.WitnessRule{Action: transaction.WitnessAction(a), Condition: transaction.ConditionCalledByEntry{}}))
	}
	add(valCase("rule", &transaction.WitnessRule{Action: 0xff, Condition: transaction.ConditionCalledByEntry{}}))
	for _, n := range []int{0, 1, 16, 17} {
		l := make(transaction.ConditionAnd, n)
		o := make(transaction.ConditionOr, n)
		for i := range l {
			l[i] = transaction.ConditionCalledByEntry{}
			o[i] = transaction.ConditionCalledByEntry{}
		}
		add(valCase("cond", &condBox{&l}))
		add(valCase("cond", &condBox{&o}))
	}
	{
		leaf := transaction.ConditionBoolean(false)
		var c transaction.WitnessCondition = &leaf
		for d := 1; d <= 5; d++ { // 1..5 levels: 3 is the last accepted
			add(valCase("cond", &condBox{c}))
			switch d % 3 {
			case 0:
				c = &transaction.ConditionNot{Condition: c}
			case 1:
				c = &transaction.ConditionAnd{c}
			default:
				c = &transaction.ConditionOr{c}
			}
		}
	}
	for t := 0; t < 256; t++ { // every condition type byte followed by a plausible body
		add(rawCase("cond", cat([]byte{byte(t)}, keyPool[0].Bytes())))
	}
	// --- witness script lengths ---
	for _, p := range [][2]int{{1024, 0}, {1025, 0}, {0, 1024}, {0, 1025}, {1024, 1024}} {
		add(valCase("witness", &transaction.Witness{InvocationScript: make([]byte, p[0]), VerificationScript: make([]byte, p[1])}))
	}
	// --- attributes: every type byte; oracle codes and result sizes; reserved sizes ---
	for t := 0; t < 256; t++ {
		add(rawCase("attr", cat([]byte{byte(t)}, make([]byte, 40))))
	}
	for code := 0; code < 256; code++ {
		for _, rl := range []int{0, 1} {
			a := &transaction.Attribute{Type: transaction.OracleResponseT, Value: &transaction.OracleResponse{ID: uint64(code), Code: transaction.OracleResponseCode(code), Result: make([]byte, rl)}}
			add(valCase("attr", a))
		}
	}
	for _, n := range []int{transaction.MaxOracleResultSize, transaction.MaxOracleResultSize + 1} {
		add(valCase("attr", &transaction.Attribute{Type: transaction.OracleResponseT, Value: &transaction.OracleResponse{Code: transaction.Success, Result: make([]byte, n)}}))
	}
	// --- header witness count, state root witnesses, extensible category / padding ---
	for _, cnt := range []string{"00", "01", "02", "fd0100", "fe01000000"} {
		hb := headerBytes(false)
		add(rawCase("header0", cat(hb[:len(hb)-3], mustHex(cnt), hb[len(hb)-2:])))
		hb1 := headerBytes(true)
		add(rawCase("header1", cat(hb1[:len(hb1)-3], mustHex(cnt), hb1[len(hb1)-2:])))
	}
	for n := 0; n <= 2; n++ {
		add(valCase("stateroot", &state.MPTRoot{Version: 0, Index: 5, Root: util.Uint256{1}, Witness: make([]transaction.Witness, n)}))
	}
	for _, n := range []int{0, 32, 33} {
		e := payload.NewExtensible()
		e.Category = string(bytes.Repeat([]byte{'c'}, n))
		e.Data = []byte{1, 2, 3}
		add(valCase("extensible", e))
	}
	{
		e := payload.NewExtensible()
		e.Category = "dBFT"
		b, _ := encBytes(e)
		for _, pad := range []byte{0, 1, 2, 0xff} {
			nb := append([]byte{}, b...)
			nb[len(nb)-3] = pad
			add(rawCase("extensible", nb))
		}
	}
	// --- blocks: a few transactions, the same transaction twice ---
	{
		bl := block.New(false)
		bl.Transactions = []*transaction.Transaction{mkTx(1, 0, 1), mkTx(2, 1, 2)}
		add(valCase("block0", bl))
		bl1 := block.New(true)
		bl1.PrevStateRoot = util.Uint256{9}
		bl1.Transactions = []*transaction.Transaction{mkTx(1, 0, 1)}
		add(valCase("block1", bl1))
	}
	// --- MPT nodes: key / value lengths at the caps ---
	for _, n := range []int{1, 135, 136, 137} {
		add(valCase("mptnode", &mpt.NodeObject{Node: mpt.NewExtensionNode(bytes.Repeat([]byte{7}, n), mpt.NewHashNode(util.Uint256{1}))}))
	}
	for _, n := range []int{0, mpt.MaxValueLength, mpt.MaxValueLength + 1} {
		add(valCase("mptnode", &mpt.NodeObject{Node: mpt.NewLeafNode(make([]byte, n))}))
	}
	for t := 0; t < 8; t++ {
		add(rawCase("mptnode", cat([]byte{byte(t)}, make([]byte, 40))))
	}
	// --- stack items: count and size limits of decoder and serialiser ---
	nulls := func(n int) []stackitem.Item {
		l := make([]stackitem.Item, n)
		for i := range l {
			l[i] = stackitem.Null{}
		}
		return l
	}
	for _, n := range []int{2046, 2047, 2048, 2049} { // 1 + n items
		add(valCase("item", &itemBox{it: stackitem.NewArray(nulls(n))}))
		add(valCase("item", &itemBox{it: stackitem.NewStruct(nulls(n))}))
		add(valCase("itemprot", &itemBox{it: stackitem.NewArray(nulls(n)), protected: true}))
	}
	for _, n := range []int{1022, 1023, 1024, 1025} { // 1 + 2n items
		m := stackitem.NewMap()
		for i := 0; i < n; i++ {
			m.Add(stackitem.NewBigInteger(big.NewInt(int64(i))), stackitem.Null{})
		}
		add(valCase("item", &itemBox{it: m}))
	}
	for _, n := range []int{stackitem.MaxSize - 5, stackitem.MaxSize - 4, stackitem.MaxSize, stackitem.MaxSize + 1} { // total size around MaxSize
		add(valCase("item", &itemBox{it: stackitem.NewByteArray(make([]byte, n))}))
		add(valCase("item", &itemBox{it: stackitem.NewBuffer(make([]byte, n))}))
	}
	for _, n := range []int{stackitem.MaxKeySize, stackitem.MaxKeySize + 1} {
		add(rawCase("item", cat(mustHex("4801"), []byte{0x28, byte(n)}, make([]byte, n), []byte{0})))
	}
	for t := 0; t < 256; t++ { // every item type byte
		add(rawCase("item", cat([]byte{byte(t), 1, 1})))
		add(rawCase("itemprot", cat([]byte{byte(t), 1, 1})))
	}
	// --- P2P payload caps ---
	for _, n := range []int{payload.MaxHashesCount, payload.MaxHashesCount + 1} {
		add(valCase("p2p.inv", payload.NewInventory(payload.TXType, nUint256(r, n))))
	}
	for _, n := range []int{payload.MaxMPTHashesCount, payload.MaxMPTHashesCount + 1} {
		add(valCase("p2p.mptinv", payload.NewMPTInventory(nUint256(r, n))))
	}
	for _, n := range []int{0, payload.MaxAddrsCount, payload.MaxAddrsCount + 1} {
		l := payload.NewAddressList(n)
		for i := range l.Addrs {
			l.Addrs[i] = &payload.AddressAndTime{Capabilities: capability.Capabilities{}}
		}
		add(valCase("p2p.addr", l))
	}
	for _, n := range []int{payload.MaxUserAgentLength, payload.MaxUserAgentLength + 1} {
		add(valCase("p2p.version", &payload.Version{UserAgent: make([]byte, n), Capabilities: capability.Capabilities{}}))
	}
	for _, n := range []int{capability.MaxCapabilities, capability.MaxCapabilities + 1} {
		cs := make(capability.Capabilities, n)
		for i := range cs {
			u := capability.Unknown{}
			cs[i] = capability.Capability{Type: 0xf0, Data: &u}
		}
		add(valCase("p2p.version", &payload.Version{UserAgent: []byte{}, Capabilities: cs}))
	}
	for _, cnt := range []int16{-2, -1, 0, 1, payload.MaxHeadersAllowed, payload.MaxHeadersAllowed + 1} {
		add(valCase("p2p.getblockbyindex", payload.NewGetBlockByIndex(1, cnt)))
		add(valCase("p2p.getblocks", payload.NewGetBlocks(util.Uint256{}, cnt)))
	}
	for _, n := range []int{payload.MaxHeadersAllowed, payload.MaxHeadersAllowed + 1} {
		h := &payload.Headers{Hdrs: make([]*block.Header, n)}
		for i := range h.Hdrs {
			h.Hdrs[i] = &block.Header{Index: uint32(i)}
		}
		add(valCase("p2p.headers0", h))
	}
	// --- NEF caps ---
	mkNef := func(f func(*nef.File)) *nef.File {
		n := &nef.File{Header: nef.Header{Magic: nef.Magic, Compiler: "c"}, Tokens: []nef.MethodToken{}, Script: []byte{1}}
		f(n)
		defer func() { _ = recover() }()
		n.Checksum = n.CalculateChecksum()
		return n
	}
	for _, n := range []int{nef.MaxSourceURLLength, nef.MaxSourceURLLength + 1} {
		add(valCase("nef", mkNef(func(f *nef.File) { f.Source = string(bytes.Repeat([]byte{'s'}, n)) })))
	}
	for _, n := range []int{128, 129} {
		add(valCase("nef", mkNef(func(f *nef.File) {
			f.Tokens = make([]nef.MethodToken, n)
			for i := range f.Tokens {
				f.Tokens[i] = nef.MethodToken{Method: "m", CallFlag: 1}
			}
		})))
	}
	for _, n := range []int{32, 33} {
		add(valCase("nef", mkNef(func(f *nef.File) {
			f.Tokens = []nef.MethodToken{{Method: string(bytes.Repeat([]byte{'m'}, n)), CallFlag: 1}}
		})))
	}
	for _, fl := range []byte{0x0f, 0x10, 0xff} {
		add(valCase("nef", mkNef(func(f *nef.File) { f.Tokens = []nef.MethodToken{{Method: "m", CallFlag: 0}} })))
		_ = fl
	}
	for _, n := range []int{stackitem.MaxSize, stackitem.MaxSize + 1} {
		add(valCase("nef", mkNef(func(f *nef.File) { f.Script = make([]byte, n) })))
	}
	add(valCase("nef", mkNef(func(f *nef.File) { f.Tokens = []nef.MethodToken{{Method: "_a", CallFlag: 1}} })))
	add(valCase("nef", mkNef(func(f *nef.File) { f.Tokens = []nef.MethodToken{{Method: "a_", CallFlag: 1}} })))
	{
		// reserved bytes must be zero: byte after the source, two bytes after the tokens
		f := mkNef(func(f *nef.File) {})
		b, _ := encBytes(f)
		for _, off := range []int{4 + 64 + 1, 4 + 64 + 1 + 1 + 1, 4 + 64 + 1 + 1 + 2} {
			for _, v := range []byte{1, 0x80} {
				nb := append([]byte{}, b...)
				nb[off] = v
				add(rawCase("nef", nb))
			}
		}
		nb := append([]byte{}, b...)
		nb[len(nb)-1] ^= 1 // wrong checksum
		add(rawCase("nef", nb))
		nb = append([]byte{}, b...)
		nb[0] ^= 1 // wrong magic
		add(rawCase("nef", nb))
	}
	// --- byte strings of a stack item at MaxSize and one over, as raw bytes (the serialiser refuses the latter) ---
	for _, n := range []int{stackitem.MaxSize, stackitem.MaxSize + 1} {
		for _, tag := range []byte{byte(stackitem.ByteArrayT), byte(stackitem.BufferT)} {
			add(rawCase("item", cat([]byte{tag}, minimalVarUint(uint64(n)), make([]byte, n))))
		}
	}
	// --- message framing: payload length at and over payload.MaxSize (32 MiB of zeroes, really present) ---
	for _, n := range []int{payload.MaxSize, payload.MaxSize + 1} {
		w := io.NewBufBinWriter()
		w.WriteB(0)
		w.WriteB(byte(network.CMDMPTData))
		w.WriteVarUint(uint64(n))
		body := make([]byte, n)
		body[0] = 1 // one node …
		copy(body[1:], []byte{0xfe, 0xfa, 0xff, 0xff, 0x00}) // … of 0x00fffffa bytes
		w.WriteBytes(body)
		add(rawCase("message0", w.Bytes()))
	}
	// --- a valid message whose payload is exactly payload.MaxSize bytes must be accepted ---
	add(func(rn *runner, k int) {
		e := payload.NewExtensible()
		e.Category = "x"
		e.Data = []byte{}
		base, _ := encBytes(e)
		e.Data = make([]byte, payload.MaxSize-len(base)-4) // the length prefix of Data grows from 1 to 5 bytes
		c := codecByName["message0"]
		b, _, err := c.encSeg(network.NewMessage(network.CMDExtensible, e))
		if err != nil {
			rn.o.Fail("message-encode-fails", k, "%v", err)
			return
		}
		rep := rn.bytesCase(k, c, b)
		if len(b) != 2+5+payload.MaxSize || !strings.HasPrefix(rep.obs, "ok rest=0 ") {
			rn.o.Fail("message0-roundtrip", k, "a message with a payload of exactly payload.MaxSize bytes (%d in all) is not accepted: %s", len(b), trunc(rep.obs, 60))
		}
	})
	// --- consensus: every message type, with and without StateRootInHeader; recovery messages with / without the
	// embedded PrepareRequest and with / without the preparation hash: valid bytes must decode and re-encode ---
	for _, sr := range []bool{false, true} {
		name := map[bool]string{false: "consensus0", true: "consensus1"}[sr]
		for _, typ := range consensusTypes {
			for _, opt := range []recOpts{{true, false}, {false, true}, {false, false}} {
				if typ != 0x41 && opt != (recOpts{true, false}) {
					continue
				}
				typ, opt, name, sr := typ, opt, name, sr
				add(func(rn *runner, k int) {
					g := newG(prng.New(uint64(typ)*7 + 1))
					g.allowInvalid = false
					sw := &segWriter{}
					genConsensusMessage(g, io.NewBinWriterFromIO(sw), typ, sr, &opt)
					rn.validRaw(k, codecByName[name], sw.buf)
				})
			}
		}
	}
	// --- consensus: each compact array of a recovery message at and over the 255 cap; PrepareRequest hashes ---
	for which := 1; which <= 2; which++ {
		for _, n := range []int{255, 256} {
			sw := io.NewBufBinWriter()
			sw.WriteB(0x41)
			sw.WriteU32LE(1)
			sw.WriteB(0)
			sw.WriteB(0)
			sw.WriteVarUint(0) // change views
			sw.WriteB(0)
			sw.WriteVarUint(0) // no preparation hash
			if which == 1 {
				sw.WriteVarUint(uint64(n))
				for i := 0; i < n; i++ {
					sw.WriteB(byte(i))
					sw.WriteVarBytes(nil)
				}
				sw.WriteVarUint(0)
			} else {
				sw.WriteVarUint(0)
				sw.WriteVarUint(uint64(n))
				for i := 0; i < n; i++ {
					sw.WriteB(0)
					sw.WriteB(byte(i))
					sw.WriteBytes(make([]byte, 64))
					sw.WriteVarBytes(nil)
				}
			}
			add(rawCase("consensus0", sw.Bytes()))
		}
	}
	for _, n := range []int{block.MaxTransactionsPerBlock, block.MaxTransactionsPerBlock + 1} {
		sw := io.NewBufBinWriter()
		sw.WriteB(0x20)
		sw.WriteU32LE(1)
		sw.WriteB(0)
		sw.WriteB(0)
		sw.WriteU32LE(0)
		sw.WriteBytes(make([]byte, 32))
		sw.WriteU64LE(1)
		sw.WriteU64LE(2)
		sw.WriteVarUint(uint64(n))
		sw.WriteBytes(make([]byte, 32*n))
		add(rawCase("consensus0", sw.Bytes()))
	}
	// --- AppExecResult: 2048 / 2049 stack items; notification whose state is a Struct; MerkleBlock flag bytes ---
	for _, n := range []int{stackitem.MaxDeserialized, stackitem.MaxDeserialized + 1} {
		add(rawCase("aer", cat(make([]byte, 32), []byte{1, 1}, make([]byte, 8), minimalVarUint(uint64(n)), make([]byte, n), []byte{0, 0})))
	}
	add(rawCase("notification", cat(make([]byte, 20), []byte{1, 'e'}, mustHex("4102200121020100"))))
	add(rawCase("notification", cat(make([]byte, 20), []byte{1, 'e'}, mustHex("4002200121020100"))))
	add(rawCase("notification", cat(make([]byte, 20), []byte{1, 'e'}, mustHex("2101"))))
	for _, p := range [][2]int{{0, 0}, {0, 1}, {8, 1}, {8, 2}, {9, 2}, {9, 3}, {1, 1}, {1, 2}} {
		w := io.NewBufBinWriter()
		w.WriteBytes(headerBytes(false))
		w.WriteVarUint(uint64(p[0]))
		w.WriteVarUint(uint64(p[0]))
		w.WriteBytes(make([]byte, 32*p[0]))
		w.WriteVarBytes(make([]byte, p[1]))
		add(rawCase("p2p.merkleblock", w.Bytes()))
	}
	// --- consensus: recovery message arrays at and over the 255 cap ---
	for _, n := range []int{255, 256} {
		sw := io.NewBufBinWriter()
		sw.WriteB(0x41)
		sw.WriteU32LE(1)
		sw.WriteB(0)
		sw.WriteB(0)
		sw.WriteVarUint(uint64(n))
		for i := 0; i < n; i++ {
			sw.WriteB(byte(i))
			sw.WriteB(0)
			sw.WriteU64LE(0)
			sw.WriteVarBytes(nil)
		}
		sw.WriteB(0)
		sw.WriteVarUint(0)
		sw.WriteVarUint(0)
		sw.WriteVarUint(0)
		add(rawCase("consensus0", sw.Bytes()))
	}
	return cs
}
