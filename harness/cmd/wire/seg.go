package main

import (
	"encoding/binary"

	"github.com/nspcc-dev/neo-go/pkg/io"

	"verif/harness/internal/prng"
)

// segWriter records the boundaries of the primitive writes of an EncodeBinary call:
// BinWriter issues exactly one Write per primitive (WriteB, WriteU32LE, WriteVarUint, WriteBytes …),
// so the encoding comes back segmented into fields. The mutators below work on fields.
type segWriter struct {
	buf  []byte
	cuts []int
}

func (s *segWriter) Write(p []byte) (int, error) {
	s.cuts = append(s.cuts, len(s.buf))
	s.buf = append(s.buf, p...)
	return len(p), nil
}

// encodeSeg encodes v and returns the bytes with the field boundaries (start offsets).
func encodeSeg(v io.Serializable) (b []byte, cuts []int, err error) {
	defer func() {
		if r := recover(); r != nil {
			err = errPanic(r)
		}
	}()
	sw := &segWriter{}
	w := io.NewBinWriterFromIO(sw)
	v.EncodeBinary(w)
	if w.Err != nil {
		return nil, nil, w.Err
	}
	return sw.buf, sw.cuts, nil
}

type panicErr struct{ v any }

func (p panicErr) Error() string { return "panic" }
func errPanic(v any) error      { return panicErr{v} }

func varuintBytes(v uint64, width int) []byte {
	switch width {
	case 1:
		return []byte{byte(v)}
	case 3:
		b := make([]byte, 3)
		b[0] = 0xfd
		binary.LittleEndian.PutUint16(b[1:], uint16(v))
		return b
	case 5:
		b := make([]byte, 5)
		b[0] = 0xfe
		binary.LittleEndian.PutUint32(b[1:], uint32(v))
		return b
	default:
		b := make([]byte, 9)
		b[0] = 0xff
		binary.LittleEndian.PutUint64(b[1:], v)
		return b
	}
}

func minimalVarUint(v uint64) []byte {
	var b [9]byte
	n := io.PutVarUint(b[:], v)
	return append([]byte{}, b[:n]...)
}

// asVarUint interprets a field as a var-uint if it has the shape of one.
func asVarUint(seg []byte) (uint64, bool) {
	switch {
	case len(seg) == 1 && seg[0] < 0xfd:
		return uint64(seg[0]), true
	case len(seg) == 3 && seg[0] == 0xfd:
		return uint64(binary.LittleEndian.Uint16(seg[1:])), true
	case len(seg) == 5 && seg[0] == 0xfe:
		return uint64(binary.LittleEndian.Uint32(seg[1:])), true
	case len(seg) == 9 && seg[0] == 0xff:
		return binary.LittleEndian.Uint64(seg[1:]), true
	}
	return 0, false
}

var interestingCounts = []uint64{0, 1, 2, 15, 16, 17, 31, 32, 33, 64, 65, 0xfc, 0xfd, 0xfe, 0xff, 0x100, 200, 201, 500, 501, 1023, 1024, 1025, 2000, 2001, 2047, 2048, 2049,
	0xfffe, 0xffff, 0x10000, 131070, 131071, 0xffffff, 0x1000000, 0x1000001, 0x2000000, 0x2000001, 0x7fffffff, 0x80000000, 0xffffffff, 0x100000000,
	1<<63 - 1, 1 << 63, 1<<64 - 1}

// mutation kinds (names are used as counters)
const (
	mutNone     = "none"
	mutNonMin   = "nonminimal-varuint"
	mutCount    = "count-tweak"
	mutTrunc    = "truncate"
	mutFlip     = "byte-flip"
	mutDelSeg   = "delete-field"
	mutDupSeg   = "duplicate-field"
	mutAppend   = "append-junk"
	mutBool     = "bool-byte"
	mutKey      = "uncompressed-key"
	mutSplice   = "splice"
	mutRandom   = "random-bytes"
	mutTypeByte = "type-byte"
)

func segs(b []byte, cuts []int) [][]byte {
	res := make([][]byte, 0, len(cuts))
	for i := range cuts {
		end := len(b)
		if i+1 < len(cuts) {
			end = cuts[i+1]
		}
		res = append(res, b[cuts[i]:end])
	}
	return res
}

func join(ss [][]byte) []byte {
	var b []byte
	for _, s := range ss {
		b = append(b, s...)
	}
	return b
}

// mutate applies one (sometimes two) field-level mutations to a segmented valid encoding.
func mutate(r *prng.R, b []byte, cuts []int) ([]byte, string) {
	ss := segs(b, cuts)
	if len(ss) == 0 {
		return r.Bytes(r.Intn(8)), mutRandom
	}
	cp := make([][]byte, len(ss))
	for i := range ss {
		cp[i] = append([]byte{}, ss[i]...)
	}
	ss = cp
	// indices of var-uint shaped fields
	var vus []int
	for i, s := range ss {
		if _, ok := asVarUint(s); ok {
			vus = append(vus, i)
		}
	}
	kind := r.Weighted([]int{22, 22, 12, 10, 5, 5, 5, 6, 6, 4, 3})
	switch kind {
	case 0: // non-minimal form of the same number
		if len(vus) == 0 {
			break
		}
		i := vus[r.Intn(len(vus))]
		v, _ := asVarUint(ss[i])
		var widths []int
		for _, w := range []int{3, 5, 9} {
			if w > len(ss[i]) {
				widths = append(widths, w)
			}
		}
		if len(widths) == 0 {
			break
		}
		ss[i] = varuintBytes(v, widths[r.Intn(len(widths))])
		return join(ss), mutNonMin
	case 1: // replace a count
		if len(vus) == 0 {
			break
		}
		i := vus[r.Intn(len(vus))]
		v, _ := asVarUint(ss[i])
		var nv uint64
		switch r.Intn(4) {
		case 0:
			nv = v + 1
		case 1:
			nv = v - 1
		default:
			nv = interestingCounts[r.Intn(len(interestingCounts))]
		}
		if r.Chance(1, 4) {
			ss[i] = varuintBytes(nv, []int{3, 5, 9}[r.Intn(3)])
		} else {
			ss[i] = minimalVarUint(nv)
		}
		return join(ss), mutCount
	case 2:
		all := join(ss)
		if r.Bool() && len(cuts) > 1 {
			return all[:cuts[r.Intn(len(cuts))]], mutTrunc
		}
		return all[:r.Intn(len(all)+1)], mutTrunc
	case 3:
		all := join(ss)
		if len(all) == 0 {
			break
		}
		i := r.Intn(len(all))
		switch r.Intn(3) {
		case 0:
			all[i] ^= 1 << uint(r.Intn(8))
		case 1:
			all[i] = byte(r.U64())
		default:
			all[i] = []byte{0, 1, 2, 0x7f, 0x80, 0xfd, 0xfe, 0xff}[r.Intn(8)]
		}
		return all, mutFlip
	case 4:
		i := r.Intn(len(ss))
		ss = append(ss[:i], ss[i+1:]...)
		return join(ss), mutDelSeg
	case 5:
		i := r.Intn(len(ss))
		ss = append(ss[:i+1], ss[i:]...)
		return join(ss), mutDupSeg
	case 6:
		return append(join(ss), r.Bytes(1+r.Intn(4))...), mutAppend
	case 7: // a 0/1 byte becomes another non-zero value
		var cs []int
		for i, s := range ss {
			if len(s) == 1 && s[0] == 1 {
				cs = append(cs, i)
			}
		}
		if len(cs) == 0 {
			break
		}
		i := cs[r.Intn(len(cs))]
		ss[i] = []byte{[]byte{2, 3, 0x80, 0xff}[r.Intn(4)]}
		return join(ss), mutBool
	case 8: // compressed key -> uncompressed form of the same point
		var cs []int
		for i, s := range ss {
			if len(s) == 33 && (s[0] == 2 || s[0] == 3) {
				cs = append(cs, i)
			}
		}
		if len(cs) == 0 {
			break
		}
		i := cs[r.Intn(len(cs))]
		if u := uncompress(ss[i]); u != nil {
			ss[i] = u
			return join(ss), mutKey
		}
	case 9: // replace a one-byte field (often a type tag) by a random/neighbour tag
		var cs []int
		for i, s := range ss {
			if len(s) == 1 {
				cs = append(cs, i)
			}
		}
		if len(cs) == 0 {
			break
		}
		i := cs[r.Intn(len(cs))]
		if r.Bool() {
			ss[i][0] += byte(r.Intn(3)) - 1
		} else {
			ss[i][0] = byte(r.U64())
		}
		return join(ss), mutTypeByte
	case 10: // overwrite a field with random bytes of a different length
		i := r.Intn(len(ss))
		ss[i] = r.Bytes(r.Intn(len(ss[i]) + 3))
		return join(ss), mutSplice
	}
	// fallback: byte flip
	all := join(ss)
	if len(all) == 0 {
		return []byte{byte(r.U64())}, mutRandom
	}
	all[r.Intn(len(all))] ^= 1 << uint(r.Intn(8))
	return all, mutFlip
}
