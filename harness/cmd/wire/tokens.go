package main

// Token transfer log records (pkg/core/state/tokens.go): what the node stores per account for getnep17transfers /
// getnep11transfers and reads back on every later query. NEP17Transfer, NEP11Transfer, a whole TokenTransferLog
// (count byte + records, read by ForEachNEP17 / ForEachNEP11) and TokenTransferInfo go through the generic stream:
// no panic on any bytes, decode(encode v) = v with the same bytes, re-encoding stable; plus a corpus of the amount
// boundaries (the sender's record holds the NEGATED amount, so -(-2^255) = 2^255 is stored: 33 bytes).

import (
	"bytes"
	"errors"
	"fmt"
	"math/big"
	"sort"
	"strings"

	"github.com/nspcc-dev/neo-go/pkg/core/state"
	"github.com/nspcc-dev/neo-go/pkg/encoding/bigint"
	"github.com/nspcc-dev/neo-go/pkg/io"
	"github.com/nspcc-dev/neo-go/pkg/smartcontract/trigger"
	"github.com/nspcc-dev/neo-go/pkg/util"
	"github.com/nspcc-dev/neo-go/pkg/vm/stackitem"
	"github.com/nspcc-dev/neo-go/pkg/vm/vmstate"

	"verif/harness/internal/hx"
)

func showNEP17(s *sb, t *state.NEP17Transfer) {
	s.tok(fmt.Sprintf("%d", t.Asset))
	s.hex(t.Tx[:])
	s.hex(t.Counterparty[:])
	s.num(uint64(t.Block))
	s.num(t.Timestamp)
	if t.Amount == nil {
		s.tok("nil")
	} else {
		s.tok(t.Amount.String())
	}
}

// transferList is a whole log as a value: the transfers in the order they were appended.
type transferList struct {
	nep11 bool
	t17   []state.NEP17Transfer
	t11   []state.NEP11Transfer
}

func (l *transferList) raw() ([]byte, error) {
	lg := new(state.TokenTransferLog)
	if l.nep11 {
		for i := range l.t11 {
			if err := lg.Append(&l.t11[i]); err != nil {
				return nil, err
			}
		}
	} else {
		for i := range l.t17 {
			if err := lg.Append(&l.t17[i]); err != nil {
				return nil, err
			}
		}
	}
	if lg.Raw == nil {
		return []byte{}, nil
	}
	return lg.Raw, nil
}

func decodeTransferList(nep11 bool, b []byte) (*transferList, error) {
	lg := &state.TokenTransferLog{Raw: b}
	l := &transferList{nep11: nep11}
	var err error
	if nep11 {
		_, err = lg.ForEachNEP11(func(t *state.NEP11Transfer) (bool, error) {
			l.t11 = append([]state.NEP11Transfer{*t}, l.t11...) // ForEach goes from the newest
			return true, nil
		})
	} else {
		_, err = lg.ForEachNEP17(func(t *state.NEP17Transfer) (bool, error) {
			l.t17 = append([]state.NEP17Transfer{*t}, l.t17...)
			return true, nil
		})
	}
	if err != nil {
		return nil, err
	}
	if n := len(l.t11) + len(l.t17); n != lg.Size() {
		return nil, fmt.Errorf("Size() %d, %d transfers visited", lg.Size(), n)
	}
	return l, nil
}

// amount: mostly what a transfer can hold; `over`: more than the 33 bytes a record may carry.
func (g *G) transferAmount() (v *big.Int, over bool) {
	p255 := new(big.Int).Lsh(big.NewInt(1), 255)
	one := big.NewInt(1)
	switch g.r.Intn(12) {
	case 0:
		return new(big.Int).Sub(p255, one), false // 2^255-1: 32 bytes
	case 1:
		return new(big.Int).Neg(p255), false // -2^255: 32 bytes
	case 2:
		return p255, false // 2^255: 33 bytes (the negated minimum)
	case 3:
		return new(big.Int).Sub(new(big.Int).Neg(p255), one), false // -2^255-1: 33 bytes
	case 4:
		v := new(big.Int).Lsh(big.NewInt(1), 263)
		return v.Sub(v, one), false // the largest 33-byte amount
	case 5:
		if g.allowInvalid {
			g.invalid = true
			v := new(big.Int).Lsh(big.NewInt(1), uint(263+g.r.Intn(20))) // 34 bytes and more
			if g.r.Bool() {
				v.Neg(v)
				v.Sub(v, one)
			}
			return v, true
		}
		return big.NewInt(0), false
	default:
		return g.bigint(), false
	}
}

func (g *G) nep17() *state.NEP17Transfer {
	a, _ := g.transferAmount()
	return &state.NEP17Transfer{Asset: int32(g.u32()), Counterparty: g.u160(), Amount: a, Block: g.u32(), Timestamp: g.u64(), Tx: g.u256()}
}

func (g *G) nep11() *state.NEP11Transfer {
	return &state.NEP11Transfer{NEP17Transfer: *g.nep17(), ID: g.r.Bytes(g.r.Intn(65))}
}

// sortInfoPairs: TokenTransferInfo.EncodeBinary writes LastUpdated in map order (different on every call): the
// (key, value) pairs of an encoding are put into one order so that two encodings of one value are the same bytes.
func sortInfoPairs(b []byte) []byte {
	const fixed = 4 + 4 + 8 + 8 + 1 + 1
	if len(b) < fixed+1 {
		return b
	}
	r := io.NewBinReaderFromBuf(b[fixed:])
	n := r.ReadVarUint()
	if r.Err != nil || uint64(r.Len()) != 8*n {
		return b
	}
	start := len(b) - r.Len()
	pairs := make([][]byte, n)
	for i := range pairs {
		pairs[i] = b[start+8*i : start+8*i+8]
	}
	sort.Slice(pairs, func(i, j int) bool { return bytes.Compare(pairs[i], pairs[j]) < 0 })
	out := append([]byte{}, b[:start]...)
	for _, p := range pairs {
		out = append(out, p...)
	}
	return out
}

// maxInfoCount: TokenTransferInfo.DecodeBinary takes the number of LastUpdated entries from the bytes without a
// bound (make(map, n) and n iterations on a reader that may already be in the error state). The bytes come from the
// node's own database only, so the generic stream does not report that: counts over this bound are not given to the
// real decoder at all.
const maxInfoCount = 1 << 12

func initTokenCodecs() {
	c := reg(serCodec("nep17transfer", func() io.Serializable { return &state.NEP17Transfer{} }, func(g *G) any { return g.nep17() }))
	c.weight = 5
	c.show = func(v any) string { var s sb; showNEP17(&s, v.(*state.NEP17Transfer)); return s.String() }

	c = reg(serCodec("nep11transfer", func() io.Serializable { return &state.NEP11Transfer{} }, func(g *G) any { return g.nep11() }))
	c.weight = 4
	c.show = func(v any) string {
		var s sb
		t := v.(*state.NEP11Transfer)
		showNEP17(&s, &t.NEP17Transfer)
		s.hex(t.ID)
		return s.String()
	}

	for _, nep11 := range []bool{false, true} {
		nep11 := nep11
		name := map[bool]string{false: "transferlog17", true: "transferlog11"}[nep11]
		c = reg(&codec{name: name, weight: 4})
		c.gen = func(g *G) any {
			l := &transferList{nep11: nep11}
			n := g.r.Intn(5)
			if g.r.Chance(1, 20) {
				n = state.TokenTransferBatchSize
			}
			for i := 0; i < n; i++ {
				if nep11 {
					l.t11 = append(l.t11, *g.nep11())
				} else {
					l.t17 = append(l.t17, *g.nep17())
				}
			}
			return l
		}
		c.enc = func(v any) ([]byte, error) { return v.(*transferList).raw() }
		c.encSeg = func(v any) ([]byte, []int, error) {
			l := v.(*transferList)
			b, err := l.raw()
			if err != nil {
				return nil, nil, err
			}
			// field boundaries: the count byte, then those of every record
			cuts := []int{0}
			off := 1
			add := func(t io.Serializable) {
				_, cs, err := encodeSeg(t)
				if err != nil {
					return
				}
				for _, x := range cs {
					if x > 0 {
						cuts = append(cuts, off+x)
					}
				}
				tb, _ := encBytes(t)
				cuts = append(cuts, off)
				off += len(tb)
			}
			for i := range l.t17 {
				add(&l.t17[i])
			}
			for i := range l.t11 {
				add(&l.t11[i])
			}
			sort.Ints(cuts)
			return b, cuts, nil
		}
		c.dec = func(b []byte) (any, int, error) {
			l, err := decodeTransferList(nep11, b)
			return l, 0, err
		}
		c.show = func(v any) string {
			var s sb
			l := v.(*transferList)
			s.num(uint64(len(l.t17) + len(l.t11)))
			for i := range l.t17 {
				showNEP17(&s, &l.t17[i])
			}
			for i := range l.t11 {
				showNEP17(&s, &l.t11[i].NEP17Transfer)
				s.hex(l.t11[i].ID)
			}
			return s.String()
		}
	}

	c = reg(&codec{name: "transferinfo", weight: 4})
	c.gen = func(g *G) any {
		i := state.NewTokenTransferInfo()
		i.NextNEP11Batch, i.NextNEP17Batch = g.u32(), g.u32()
		i.NextNEP11NewestTimestamp, i.NextNEP17NewestTimestamp = g.u64(), g.u64()
		i.NewNEP11Batch, i.NewNEP17Batch = g.r.Bool(), g.r.Bool()
		for n := g.r.Intn(6); n > 0; n-- {
			i.LastUpdated[int32(g.u32())] = g.u32()
		}
		if g.r.Chance(1, 30) {
			for n := 0; n < 300; n++ { // the count takes three bytes
				i.LastUpdated[int32(n-150)] = g.u32()
			}
		}
		return i
	}
	c.enc = func(v any) ([]byte, error) {
		b, err := encBytes(v.(*state.TokenTransferInfo))
		return sortInfoPairs(b), err
	}
	c.encSeg = func(v any) ([]byte, []int, error) {
		b, cuts, err := encodeSeg(v.(*state.TokenTransferInfo))
		return sortInfoPairs(b), cuts, err
	}
	c.dec = func(b []byte) (any, int, error) {
		const fixed = 4 + 4 + 8 + 8 + 1 + 1
		if len(b) > fixed {
			r := io.NewBinReaderFromBuf(b[fixed:])
			if n := r.ReadVarUint(); r.Err == nil && n > maxInfoCount {
				return nil, 0, errors.New("count over the bound of the harness")
			}
		}
		i := new(state.TokenTransferInfo)
		r := io.NewBinReaderFromBuf(b)
		i.DecodeBinary(r)
		return i, r.Len(), r.Err
	}
	c.show = func(v any) string {
		var s sb
		i := v.(*state.TokenTransferInfo)
		s.num(uint64(i.NextNEP11Batch))
		s.num(uint64(i.NextNEP17Batch))
		s.num(i.NextNEP11NewestTimestamp)
		s.num(i.NextNEP17NewestTimestamp)
		s.tok(fmt.Sprint(i.NewNEP11Batch))
		s.tok(fmt.Sprint(i.NewNEP17Batch))
		ks := make([]int, 0, len(i.LastUpdated))
		for k := range i.LastUpdated {
			ks = append(ks, int(k))
		}
		sort.Ints(ks)
		s.num(uint64(len(ks)))
		for _, k := range ks {
			s.tok(fmt.Sprintf("%d:%d", k, i.LastUpdated[int32(k)]))
		}
		return s.String()
	}
}

// tokensCorpus: the amount boundaries in single records and inside a log, oversized and truncated amounts.
func tokensCorpus() []corpusCase {
	var cs []corpusCase
	p255 := new(big.Int).Lsh(big.NewInt(1), 255)
	one := big.NewInt(1)
	amounts := []*big.Int{
		big.NewInt(0), big.NewInt(-1), big.NewInt(127), big.NewInt(128),
		new(big.Int).Sub(p255, one), new(big.Int).Neg(p255), // 32 bytes
		new(big.Int).Set(p255), new(big.Int).Sub(new(big.Int).Neg(p255), one), // 33 bytes
	}
	base := func(a *big.Int) state.NEP17Transfer {
		return state.NEP17Transfer{Asset: -5, Amount: a, Block: 7, Timestamp: 1 << 40}
	}
	for _, a := range amounts {
		a := a
		cs = append(cs, func(rn *runner, k int) {
			t := base(a)
			for _, name := range []string{"nep17transfer", "nep11transfer", "transferlog17", "transferlog11"} {
				c := codecByName[name]
				var v any
				switch name {
				case "nep17transfer":
					v = &t
				case "nep11transfer":
					v = &state.NEP11Transfer{NEP17Transfer: t, ID: []byte{1, 2}}
				case "transferlog17":
					v = &transferList{t17: []state.NEP17Transfer{base(big.NewInt(1)), t, base(big.NewInt(2))}}
				default:
					v = &transferList{nep11: true, t11: []state.NEP11Transfer{{NEP17Transfer: t, ID: []byte{9}}, {NEP17Transfer: base(big.NewInt(3))}}}
				}
				b, err := c.enc(v)
				if err != nil {
					rn.o.Fail(name+"-encode-fails", k, "amount %s: %v", a, err)
					continue
				}
				rep := rn.bytesCase(k, c, b)
				if want := c.show(v); rep.obs != fmt.Sprintf("ok rest=0 enc=%s hash=- v=%s", hx.Hex(b), want) {
					rn.o.Fail(name+"-roundtrip", k, "a record with the amount %s (%d bytes) written by the node does not read back: %s", a, len(bigint.ToBytes(a)), trunc(rep.obs, 200))
				}
				// every truncation of it: refused (or, for a log, fewer bytes than the count says), never a panic
				for n := 0; n < len(b); n++ {
					rn.bytesCase(k, c, b[:n])
				}
				rn.o.Count("corpus:transfer-amount")
			}
		})
	}
	// amounts the writer cannot produce: 34 bytes, 33 bytes non-minimal, 0xfd/0xfe/0xff length prefixes
	cs = append(cs, func(rn *runner, k int) {
		t := base(big.NewInt(1))
		b, _ := encBytes(&t)
		head := b[:len(b)-2] // without the amount (01 01)
		for _, tail := range [][]byte{
			append([]byte{34}, make([]byte, 34)...),
			append([]byte{33}, make([]byte, 33)...),
			append([]byte{33}, bytes.Repeat([]byte{0xff}, 33)...),
			append([]byte{32}, bytes.Repeat([]byte{0xff}, 32)...),
			{0xfd, 0x21, 0x00}, {0xfd, 0x00, 0x01}, {0xfe, 0, 0, 1, 0}, {0xff, 0xff, 0xff, 0xff, 0xff, 0xff, 0xff, 0xff, 0xff},
			{0}, {},
		} {
			rec := cat(head, tail)
			rn.bytesCase(k, codecByName["nep17transfer"], rec)
			rn.bytesCase(k, codecByName["nep11transfer"], cat(rec, []byte{0}))
			rn.bytesCase(k, codecByName["transferlog17"], cat([]byte{1}, rec))
			rn.bytesCase(k, codecByName["transferlog17"], cat([]byte{2}, rec, rec))
			rn.bytesCase(k, codecByName["transferlog11"], cat([]byte{1}, rec, []byte{0}))
			rn.o.Count("corpus:transfer-odd-amount")
		}
	})
	// execution results whose stack / notification holds a long ByteString (a deployed contract's state item with a
	// 64..128 KB script): what the node stores it must read back (the item limit is stackitem.MaxSize on both sides)
	for _, n := range []int{65535, 65536, 70340, 98000, 131000, stackitem.MaxSize - 16} {
		n := n
		cs = append(cs, func(rn *runner, k int) {
			c := codecByName["aer"]
			long := stackitem.NewArray([]stackitem.Item{stackitem.NewByteArray(bytes.Repeat([]byte{0x5c}, n)), stackitem.Make(1)})
			for _, inEvent := range []bool{false, true} {
				a := &state.AppExecResult{Container: util.Uint256{1}, Execution: state.Execution{Trigger: trigger.Application, VMState: vmstate.Halt, GasConsumed: 5,
					Stack: []stackitem.Item{stackitem.Make(7)}, Events: []state.NotificationEvent{{Name: "Deploy", Item: stackitem.NewArray([]stackitem.Item{stackitem.Make(1)})}}}}
				if inEvent {
					a.Events[0].Item = long
				} else {
					a.Stack[0] = long
				}
				b, err := c.enc(a)
				if err != nil {
					rn.o.Fail("aer-encode-fails", k, "ByteString of %d bytes: %v", n, err)
					continue
				}
				if n > 98000 {
					// (the typed JSON of such an item is over MaxSize: Execution.MarshalJSON writes "error: too big"
					// in its place, by design lossy; a notification cannot be that long at all: binary form only)
					if inEvent {
						continue
					}
					v, rest, err := c.dec(b)
					if err != nil || rest != 0 || c.showFn()(v) != c.showFn()(a) {
						rn.o.Fail("aer-roundtrip", k, "an execution result holding a ByteString of %d bytes (%d bytes encoded) does not read back: %v", n, len(b), err)
					}
					rn.o.Count("corpus:aer-long-bytestring")
					continue
				}
				rep := rn.bytesCase(k, c, b)
				if !strings.HasPrefix(rep.obs, "ok rest=0 enc="+hx.Hex(b)+" ") {
					rn.o.Fail("aer-roundtrip", k, "an execution result holding a ByteString of %d bytes (event: %v, %d bytes encoded) does not read back: %s", n, inEvent, len(b), trunc(rep.obs, 160))
				}
				rn.o.Count("corpus:aer-long-bytestring")
			}
		})
	}
	return cs
}
