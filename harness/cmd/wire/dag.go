package main

// Stack items WITH SHARING against the serialiser model that keeps the `seen` cache (Model/Wire/ItemDag.lean):
// the item is dumped as a graph (every compound object once, by identity; children are primitives or references),
// the driver runs the serialiser with its cache on it. The tree model is related to it by a theorem
// (serializeG_eq_tree); here the real code is compared with the graph model, and independently with the tree count /
// tree size oracle of main.go.

import (
	"fmt"
	"math/big"

	"github.com/nspcc-dev/neo-go/pkg/io"
	"github.com/nspcc-dev/neo-go/pkg/vm/stackitem"

	"verif/harness/internal/hx"
	"verif/harness/internal/prng"
)

type dagDumper struct {
	ids   map[stackitem.Item]int // finished compounds
	open  map[stackitem.Item]bool
	nodes []string
	cyc   bool
	refs  int // references to an already dumped compound
}

func isCompound(it stackitem.Item) bool {
	switch it.(type) {
	case *stackitem.Array, *stackitem.Struct, *stackitem.Map:
		return true
	}
	return false
}

// child returns the token text of a child (a primitive, or `ref <id>` after dumping the compound).
func (d *dagDumper) child(it stackitem.Item, depth int) string {
	if d.cyc || depth > 4000 {
		d.cyc = true
		return "?"
	}
	if !isCompound(it) {
		var s sb
		showItem(&s, it, 0)
		return s.String()
	}
	if id, ok := d.ids[it]; ok {
		d.refs++
		return fmt.Sprintf("ref %d", id)
	}
	if d.open[it] {
		d.cyc = true
		return "?"
	}
	d.open[it] = true
	var s sb
	switch t := it.(type) {
	case *stackitem.Array, *stackitem.Struct:
		if _, ok := it.(*stackitem.Array); ok {
			s.tok("arr")
		} else {
			s.tok("struct")
		}
		v := t.Value().([]stackitem.Item)
		s.num(uint64(len(v)))
		for _, x := range v {
			s.tok(d.child(x, depth+1))
		}
	case *stackitem.Map:
		s.tok("map")
		v := t.Value().([]stackitem.MapElement)
		s.num(uint64(len(v)))
		for _, e := range v {
			s.tok(d.child(e.Key, depth+1))
			s.tok(d.child(e.Value, depth+1))
		}
	}
	delete(d.open, it)
	id := len(d.nodes)
	d.nodes = append(d.nodes, s.String())
	d.ids[it] = id
	return fmt.Sprintf("ref %d", id)
}

// dagDump: `<n> node… root`; ok=false for a cyclic item (not expressible: a node mentions earlier nodes only).
func dagDump(it stackitem.Item) (text string, shared int, ok bool) {
	d := &dagDumper{ids: map[stackitem.Item]int{}, open: map[stackitem.Item]bool{}}
	root := d.child(it, 0)
	if d.cyc {
		return "", 0, false
	}
	var s sb
	s.num(uint64(len(d.nodes)))
	for _, n := range d.nodes {
		s.tok(n)
	}
	s.tok(root)
	return s.String(), d.refs, true
}

// dagItem: compounds built bottom-up, every child a primitive or ANY earlier compound (diamonds, a compound shared
// between a map value and an array, shared at several depths); the tree unfolding can be exponentially larger.
func (g *G) dagItem() stackitem.Item {
	n := 1 + g.r.Intn(7)
	pool := make([]stackitem.Item, 0, n)
	pick := func() stackitem.Item {
		if len(pool) > 0 && g.r.Chance(3, 5) {
			if g.r.Bool() {
				return pool[len(pool)-1]
			}
			return pool[g.r.Intn(len(pool))]
		}
		switch g.r.Intn(6) {
		case 0:
			return stackitem.Null{}
		case 1:
			return stackitem.NewBuffer(g.r.Bytes(g.r.Intn(6)))
		}
		return g.primitive()
	}
	for i := 0; i < n; i++ {
		k := g.r.Intn(5)
		if g.r.Chance(1, 6) {
			k = 8 + g.r.Intn(40)
		}
		switch g.r.Intn(3) {
		case 0:
			m := stackitem.NewMap()
			for j := 0; j < k; j++ {
				m.Add(stackitem.NewBigInteger(big.NewInt(int64(j))), pick())
			}
			pool = append(pool, m)
		case 1:
			v := make([]stackitem.Item, k)
			for j := range v {
				v[j] = pick()
			}
			pool = append(pool, stackitem.NewStruct(v))
		default:
			v := make([]stackitem.Item, k)
			for j := range v {
				v[j] = pick()
			}
			pool = append(pool, stackitem.NewArray(v))
		}
	}
	return pool[len(pool)-1]
}

// boundaryShared: ONE compound of c items referenced so that the tree count is exactly `total`.
func boundaryShared(r *prng.R, total int) stackitem.Item {
	c := 1 + r.Intn(4) // items of the shared compound (itself + c-1 primitives)
	kids := make([]stackitem.Item, c-1)
	for i := range kids {
		kids[i] = stackitem.NewBigInteger(big.NewInt(int64(i)))
	}
	var inner stackitem.Item
	switch r.Intn(3) {
	case 0:
		inner = stackitem.NewArray(kids)
	case 1:
		inner = stackitem.NewStruct(kids)
	default:
		m := stackitem.NewMap()
		for i := 0; i+1 < c; i += 2 { // a map entry is two items
			m.Add(stackitem.NewBigInteger(big.NewInt(int64(i))), stackitem.Null{})
		}
		inner = m
		c = 1 + 2*((c-1)/2)
	}
	n := (total - 1) / c
	refs := make([]stackitem.Item, 0, n+c)
	for i := 0; i < n; i++ {
		refs = append(refs, inner)
	}
	for t := 1 + n*c; t < total; t++ {
		refs = append(refs, stackitem.Null{})
	}
	// the padding anywhere among the references
	for i := len(refs) - 1; i > 0; i-- {
		j := r.Intn(i + 1)
		refs[i], refs[j] = refs[j], refs[i]
	}
	return stackitem.NewArray(refs)
}

// sizeBoundaryShared: a shared compound copied n times plus padding so that the serialisation is MaxSize+d bytes
// long, the LAST bytes being appended through the `seen` path (its size check is a different line of code).
func sizeBoundaryShared(r *prng.R, d int) stackitem.Item {
	L := 200 + r.Intn(1800)
	inner := stackitem.NewArray([]stackitem.Item{stackitem.NewByteArray(make([]byte, L))})
	s := 2 + 1 + 3 + L // Array tag, count, ByteString tag, 3-byte length, bytes
	n := (stackitem.MaxSize - 600) / s
	if n > 250 {
		n = 250 // keep the count prefix one byte (n+1 < 0xfd)
	}
	rest := stackitem.MaxSize + d - 2 - n*s // for the padding ByteString: 1 + 3 + p
	p := rest - 4
	refs := make([]stackitem.Item, 0, n+1)
	refs = append(refs, stackitem.NewByteArray(make([]byte, p)))
	for i := 0; i < n; i++ {
		refs = append(refs, inner)
	}
	return stackitem.NewArray(refs)
}

func (rn *runner) dagCase(k int, r *prng.R) {
	o := rn.o
	g := newG(r)
	g.big = false
	var it stackitem.Item
	kind := ""
	switch r.Weighted([]int{28, 33, 23, 10, 6}) {
	case 4:
		it, kind = sizeBoundaryShared(r, r.Intn(5)-2), "size-boundary"
	case 0:
		it, kind = g.sharedItem(), "one-shared"
	case 1:
		it, kind = g.dagItem(), "dag"
	case 2:
		total := stackitem.MaxSerialized - 2 + r.Intn(5) // 2046 … 2050
		it, kind = boundaryShared(r, total), "boundary"
	default:
		budget := 1 + r.Intn(40)
		it, kind = g.item(4, &budget), "tree"
	}
	prot := r.Chance(1, 3)
	hasInv := false
	if (prot && r.Chance(1, 2)) || r.Chance(1, 12) { // a protected-only primitive somewhere inside
		hasInv = true
		it = stackitem.NewArray([]stackitem.Item{it, []stackitem.Item{stackitem.NewInterop(nil), nil, stackitem.NewPointer(r.Intn(300), nil)}[r.Intn(3)], it})
		kind += "+invalid"
	}
	text, shared, ok := dagDump(it)
	if !ok {
		o.Count("dag:cyclic")
		return
	}
	cnt, sz := itemCount(it, 0), itemSize(it, 0)
	// observation: what the real serialiser does
	var obs string
	if prot {
		w := io.NewBufBinWriter()
		stackitem.EncodeBinaryProtected(it, w.BinWriter)
		pb := w.Bytes()
		obs = fmt.Sprintf("%s size=%d", hx.Hex(pb), len(pb))
	} else {
		b, err := stackitem.Serialize(it)
		if err != nil {
			obs = "err"
		} else {
			obs = fmt.Sprintf("%s size=%d", hx.Hex(b), len(b))
		}
		// the direct oracle: the limits are those of the TREE the item stands for
		fits := cnt <= stackitem.MaxSerialized && sz <= stackitem.MaxSize && !hasInv
		switch {
		case err == nil && !fits:
			o.Fail("item-serialize-over-limit", k, "Serialize accepts an item of %d items / %d bytes (limits %d / %d), %d shared references", cnt, sz, stackitem.MaxSerialized, stackitem.MaxSize, shared)
		case err != nil && fits:
			o.Fail("item-serialize-rejects", k, "Serialize rejects (%v) an item of %d items / %d bytes (limits %d / %d), %d shared references", err, cnt, sz, stackitem.MaxSerialized, stackitem.MaxSize, shared)
		case err == nil:
			// what was written reads back as the tree
			back, derr := stackitem.Deserialize(b)
			var s1, s2 sb
			showItem(&s1, it, 0)
			if derr == nil {
				showItem(&s2, back, 0)
			}
			if derr != nil || s1.String() != s2.String() {
				o.Fail("item-roundtrip", k, "Deserialize(Serialize(item with %d shared references)) differs (%v)", shared, derr)
			}
		}
	}
	if len(text) < 600<<10 {
		p := "0"
		if prot {
			p = "1"
		}
		o.Line("encdag "+p+" "+text, obs)
	}
	o.Count("dag:" + kind)
	if shared > 0 {
		o.Count("dag:with-sharing")
	}
	switch {
	case cnt == stackitem.MaxSerialized:
		o.Count("dag:tree-count=limit")
	case cnt == stackitem.MaxSerialized+1:
		o.Count("dag:tree-count=limit+1")
	case cnt == stackitem.MaxSerialized-1:
		o.Count("dag:tree-count=limit-1")
	case cnt > stackitem.MaxSerialized:
		o.Count("dag:tree-count>limit")
	default:
		o.Count("dag:tree-count<limit")
	}
	o.Seen(fmt.Sprintf("dag/%s/%d/%x", kind, cnt, hashShort([]byte(text))))
}

// dagCorpus: the boundary with one shared compound, by hand (seed C17-m2: a Map referenced 683..1023 times).
func dagCorpus() []corpusCase {
	var out []corpusCase
	mk := func(inner stackitem.Item, n, pad int) corpusCase {
		return func(rn *runner, k int) {
			refs := make([]stackitem.Item, 0, n+pad)
			for i := 0; i < n; i++ {
				refs = append(refs, inner)
			}
			for i := 0; i < pad; i++ {
				refs = append(refs, stackitem.Null{})
			}
			it := stackitem.NewArray(refs)
			text, _, _ := dagDump(it)
			b, err := stackitem.Serialize(it)
			obs := "err"
			if err == nil {
				obs = fmt.Sprintf("%s size=%d", hx.Hex(b), len(b))
			}
			cnt := itemCount(it, 0)
			if (err == nil) != (cnt <= stackitem.MaxSerialized) {
				rn.o.Fail("item-serialize-over-limit", k, "Serialize of %d tree items with %d references to one compound: err=%v", cnt, n, err)
			}
			rn.o.Line("encdag 0 "+text, obs)
			rn.o.Seen(fmt.Sprintf("corpus/dag/%d/%d", n, pad))
		}
	}
	emptyMap := func() stackitem.Item { return stackitem.NewMap() }
	map1 := func() stackitem.Item {
		m := stackitem.NewMap()
		m.Add(stackitem.NewBigInteger(big.NewInt(1)), stackitem.Null{})
		return m
	}
	// 1 + n*c (+pad) = 2047, 2048, 2049
	out = append(out, mk(emptyMap(), 2046, 0), mk(emptyMap(), 2047, 0), mk(emptyMap(), 2048, 0))
	out = append(out, mk(map1(), 682, 0), mk(map1(), 682, 1), mk(map1(), 682, 2), mk(map1(), 683, 0))
	out = append(out, mk(stackitem.NewArray([]stackitem.Item{stackitem.Null{}}), 1023, 0), mk(stackitem.NewArray([]stackitem.Item{stackitem.Null{}}), 1023, 1), mk(stackitem.NewArray([]stackitem.Item{stackitem.Null{}}), 1023, 2))
	// two levels of sharing: mid = [inner x 3] (1 + 3*3 = 10 items), outer = [mid x n]
	two := func(n, pad int) corpusCase {
		inner := stackitem.NewStruct([]stackitem.Item{stackitem.NewBool(true), stackitem.Null{}})
		mid := stackitem.NewArray([]stackitem.Item{inner, inner, inner})
		return mk(mid, n, pad)
	}
	out = append(out, two(204, 6), two(204, 7), two(204, 8), two(205, 0))
	// the size limit reached by a copy from the cache: MaxSize-1, MaxSize, MaxSize+1 bytes
	for _, d := range []int{-1, 0, 1} {
		d := d
		out = append(out, func(rn *runner, k int) {
			it := sizeBoundaryShared(prng.New(5), d)
			text, _, _ := dagDump(it)
			b, err := stackitem.Serialize(it)
			obs := "err"
			if err == nil {
				obs = fmt.Sprintf("%s size=%d", hx.Hex(b), len(b))
			}
			if sz := itemSize(it, 0); (err == nil) != (sz <= stackitem.MaxSize) {
				rn.o.Fail("item-serialize-over-limit", k, "Serialize of %d bytes (tree size) with sharing: err=%v", sz, err)
			}
			rn.o.Line("encdag 0 "+text, obs)
			rn.o.Seen(fmt.Sprintf("corpus/dag/size/%d", d))
		})
	}
	return out
}
