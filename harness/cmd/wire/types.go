package main

import (
	"encoding/hex"
	"encoding/json"
	"errors"
	"fmt"
	"os"
	"reflect"
	"strings"
	"unicode/utf8"

	"github.com/nspcc-dev/neo-go/pkg/consensus"
	"github.com/nspcc-dev/neo-go/pkg/core/block"
	"github.com/nspcc-dev/neo-go/pkg/core/mpt"
	"github.com/nspcc-dev/neo-go/pkg/core/state"
	"github.com/nspcc-dev/neo-go/pkg/core/transaction"
	"github.com/nspcc-dev/neo-go/pkg/io"
	"github.com/nspcc-dev/neo-go/pkg/network"
	"github.com/nspcc-dev/neo-go/pkg/network/payload"
	"github.com/nspcc-dev/neo-go/pkg/smartcontract/manifest"
	"github.com/nspcc-dev/neo-go/pkg/smartcontract/nef"
	"github.com/nspcc-dev/neo-go/pkg/smartcontract/trigger"
	"github.com/nspcc-dev/neo-go/pkg/vm/stackitem"
	"github.com/nspcc-dev/neo-go/pkg/vm/vmstate"
)

// codec describes one wire type of the real code for the generic oracle.
type codec struct {
	name     string
	modelled bool // the Lean driver knows `dec <name>` (tie lines are emitted)
	parse    bool // the Lean driver knows `enc <name> <tokens>` (value -> bytes direction)
	weight   int

	gen    func(g *G) any                         // random value (mostly valid)
	encSeg func(v any) ([]byte, []int, error)     // encoding with field boundaries
	dec    func(b []byte) (any, int, error)       // real decoder: value, unread bytes, error
	enc    func(v any) ([]byte, error)            // real encoder
	size   func(v any) int                        // reported size (nil: the type reports none)
	hash   func(v any) string                     // identity (nil: none)
	show   func(v any) string                     // canonical dump (nil: reflect.DeepEqual is used)
	jsonRT func(v any) (any, error)               // JSON marshal + unmarshal (nil: no JSON form)
	jsonOK func(v any) bool                       // values for which the JSON form is defined
	rawGen func(g *G) ([]byte, []int)             // types without constructors: generate bytes directly
	norm   func(v any) string                     // form compared across re-encoding / JSON (nil: show)
	altEnc func(v any) ([]byte, error)            // another valid encoding of v (compressed message)
	extra  func(v any, rep *report)               // type-specific additional checks on an accepted value
	looseEnc bool                                 // the encoding is text (JSON): null vs [] differences are not compared
	decArg func(obs string) string                // extra argument of the `dec` op line, taken from the real observation
	reencKey func(b []byte, name string) string   // failure key when an accepted value cannot be re-encoded (nil: <name>-reencode-fails)
}

func encBytes(v io.Serializable) ([]byte, error) {
	w := io.NewBufBinWriter()
	v.EncodeBinary(w.BinWriter)
	if w.Err != nil {
		return nil, w.Err
	}
	return w.Bytes(), nil
}

// serCodec builds the descriptor of an io.Serializable type.
func serCodec(name string, newv func() io.Serializable, gen func(g *G) any) *codec {
	return &codec{
		name:   name,
		weight: 10,
		gen:    gen,
		encSeg: func(v any) ([]byte, []int, error) { return encodeSeg(v.(io.Serializable)) },
		dec: func(b []byte) (any, int, error) {
			v := newv()
			r := io.NewBinReaderFromBuf(b)
			v.DecodeBinary(r)
			return v, r.Len(), r.Err
		},
		enc: func(v any) ([]byte, error) { return encBytes(v.(io.Serializable)) },
	}
}

// errNoJSON: the value has no JSON form (not a failure).
var errNoJSON = errors.New("no JSON form")

func jsonVia[T any](v any) (any, error) {
	j, err := json.Marshal(v)
	if err != nil {
		return nil, fmt.Errorf("marshal: %w", err)
	}
	out := new(T)
	if err := json.Unmarshal(j, out); err != nil {
		return nil, fmt.Errorf("unmarshal: %w (%s)", err, trunc(string(j), 300))
	}
	return out, nil
}

var noTrunc = os.Getenv("WIRE_DUMP") != ""

func trunc(s string, n int) string {
	if len(s) > n && !noTrunc {
		return s[:n] + "…"
	}
	return s
}

// condBox wraps the WitnessCondition interface into a Serializable.
type condBox struct{ c transaction.WitnessCondition }

func (c *condBox) EncodeBinary(w *io.BinWriter) { c.c.EncodeBinary(w) }
func (c *condBox) DecodeBinary(r *io.BinReader) { c.c = transaction.DecodeBinaryCondition(r) }

// itemBox wraps stack item (de)serialisation.
type itemBox struct {
	it        stackitem.Item
	protected bool
}

func (i *itemBox) EncodeBinary(w *io.BinWriter) {
	if i.protected {
		stackitem.EncodeBinaryProtected(i.it, w)
	} else {
		stackitem.EncodeBinary(i.it, w)
	}
}
func (i *itemBox) DecodeBinary(r *io.BinReader) {
	if i.protected {
		i.it = stackitem.DecodeBinaryProtected(r)
	} else {
		i.it = stackitem.DecodeBinary(r)
	}
}

// nodeBox: MPT node with its type byte.
func showOf[T any](f func(*sb, T)) func(any) string {
	return func(v any) string {
		var s sb
		f(&s, v.(T))
		return s.String()
	}
}

var codecs []*codec
var codecByName = map[string]*codec{}

// modelledCodecs: the wire types the Lean driver models (`dec <name>` / `enc <name>` ops).
var modelledCodecs = map[string]bool{}

func init() {
	for _, n := range strings.Fields("witness cond rule signer attr tx header0 header1 block0 block1 stateroot extensible item itemprot mptnode nef notification aer consensus0 consensus1 message0 message1 notaryreq p2p.version p2p.addr p2p.inv p2p.getblocks p2p.getblockbyindex p2p.headers0 p2p.headers1 p2p.merkleblock p2p.mptdata p2p.mptinv p2p.ping " + os.Getenv("WIRE_MODELLED")) {
		modelledCodecs[n] = true
	}
}

func reg(c *codec) *codec {
	if modelledCodecs[c.name] {
		c.modelled = true
		c.parse = !strings.HasPrefix(c.name, "p2p.") && !strings.HasPrefix(c.name, "message") && c.name != "notaryreq"
	}
	codecs = append(codecs, c)
	codecByName[c.name] = c
	return c
}

func initCodecs() {
	if codecs != nil {
		return
	}
	// ---- transaction parts ----
	c := reg(serCodec("witness", func() io.Serializable { return &transaction.Witness{} }, func(g *G) any { w := g.witness(); return &w }))
	c.show = showOf(showWitness)
	c.jsonRT = jsonVia[transaction.Witness]

	c = reg(serCodec("cond", func() io.Serializable { return &condBox{} }, func(g *G) any { return &condBox{g.cond(transaction.MaxConditionNesting)} }))
	c.show = func(v any) string { var s sb; showCond(&s, v.(*condBox).c); return s.String() }
	c.jsonRT = func(v any) (any, error) {
		j, err := v.(*condBox).c.MarshalJSON()
		if err != nil {
			return nil, err
		}
		cc, err := transaction.UnmarshalConditionJSON(j)
		if err != nil {
			return nil, fmt.Errorf("unmarshal: %w (%s)", err, trunc(string(j), 300))
		}
		return &condBox{cc}, nil
	}

	c = reg(serCodec("rule", func() io.Serializable { return &transaction.WitnessRule{} }, func(g *G) any { r := g.rule(); return &r }))
	c.show = showOf(showRule)
	c.jsonRT = jsonVia[transaction.WitnessRule]

	c = reg(serCodec("signer", func() io.Serializable { return &transaction.Signer{} }, func(g *G) any { s := g.signer(); return &s }))
	c.show = showOf(showSigner)
	c.jsonRT = jsonVia[transaction.Signer]
	c.weight = 14

	c = reg(serCodec("attr", func() io.Serializable { return &transaction.Attribute{} }, func(g *G) any { a := g.attr(nil); return &a }))
	c.show = showOf(showAttr)
	c.jsonRT = jsonVia[transaction.Attribute]
	// (Reserved attributes go through the generic JSON round trip since fix 45c21df; the check below keeps their own key)
	c.extra = func(v any, rep *report) {
		a := v.(*transaction.Attribute)
		if a.Type < transaction.ReservedLowerBound {
			return
		}
		// a Reserved attribute (accepted by the binary decoder, valid on networks with ReservedAttributes)
		// marshals to JSON but Attribute.UnmarshalJSON knows no such type name
		j, err := json.Marshal(a)
		if err != nil {
			rep.fail("json-reserved-attribute", "Reserved attribute 0x%02x does not marshal: %v", byte(a.Type), err)
			return
		}
		out := new(transaction.Attribute)
		if err := json.Unmarshal(j, out); err != nil {
			rep.fail("json-reserved-attribute", "Reserved attribute 0x%02x marshals to %s, which UnmarshalJSON rejects: %v", byte(a.Type), trunc(string(j), 120), err)
			return
		}
		var s1, s2 sb
		showAttr(&s1, a)
		showAttr(&s2, out)
		if s1.String() != s2.String() {
			rep.fail("json-reserved-attribute", "Reserved attribute 0x%02x changes across JSON: %s vs %s", byte(a.Type), trunc(s1.String(), 100), trunc(s2.String(), 100))
		}
	}

	c = reg(serCodec("tx", func() io.Serializable { return &transaction.Transaction{} }, func(g *G) any { return g.tx() }))
	c.show = showOf(showTx)
	c.size = func(v any) int { return v.(*transaction.Transaction).Size() }
	c.hash = func(v any) string { return v.(*transaction.Transaction).Hash().StringBE() }
	c.jsonRT = jsonVia[transaction.Transaction]
	c.weight = 30

	// ---- headers and blocks ----
	for _, sr := range []bool{false, true} {
		sr := sr
		suf := map[bool]string{false: "0", true: "1"}[sr]
		c = reg(serCodec("header"+suf, func() io.Serializable { return &block.Header{StateRootEnabled: sr} }, func(g *G) any { return g.header(sr) }))
		c.show = showOf(showHeader)
		c.hash = func(v any) string { return v.(*block.Header).Hash().StringBE() }
		c.jsonRT = func(v any) (any, error) {
			j, err := json.Marshal(v)
			if err != nil {
				return nil, err
			}
			out := &block.Header{StateRootEnabled: sr}
			if err := json.Unmarshal(j, out); err != nil {
				return nil, fmt.Errorf("unmarshal: %w (%s)", err, trunc(string(j), 300))
			}
			return out, nil
		}
		c = reg(serCodec("block"+suf, func() io.Serializable { return block.New(sr) }, func(g *G) any { return g.block(sr) }))
		c.show = showOf(showBlock)
		c.hash = func(v any) string { return v.(*block.Block).Hash().StringBE() }
		c.size = func(v any) int { return v.(*block.Block).GetExpectedBlockSize() }
		c.jsonRT = func(v any) (any, error) {
			j, err := json.Marshal(v)
			if err != nil {
				return nil, err
			}
			out := block.New(sr)
			if err := json.Unmarshal(j, out); err != nil {
				return nil, fmt.Errorf("unmarshal: %w (%s)", err, trunc(string(j), 300))
			}
			return out, nil
		}
		c.weight = 12
	}

	c = reg(serCodec("stateroot", func() io.Serializable { return &state.MPTRoot{} }, func(g *G) any { return g.stateRoot() }))
	c.show = showOf(showStateRoot)
	c.hash = func(v any) string { return v.(*state.MPTRoot).Hash().StringBE() }
	c.jsonRT = jsonVia[state.MPTRoot]

	// ---- MPT node ----
	c = reg(serCodec("mptnode", func() io.Serializable { return &mpt.NodeObject{} }, func(g *G) any { return &mpt.NodeObject{Node: g.mptNode()} }))
	c.show = func(v any) string { var s sb; showNode(&s, v.(*mpt.NodeObject).Node); return s.String() }
	c.hash = func(v any) string {
		n := v.(*mpt.NodeObject).Node
		if n == nil || n.Type() == mpt.EmptyT {
			return "-"
		}
		return n.Hash().StringBE()
	}
	c.size = func(v any) int {
		n := v.(*mpt.NodeObject).Node
		if !trieShaped(n) {
			return -1
		}
		return 1 + n.Size()
	}
	c.jsonRT = jsonVia[mpt.NodeObject]
	// children decoded inline are re-encoded as hash references (by design): compare what the node commits to
	c.norm = func(v any) string {
		n := v.(*mpt.NodeObject).Node
		if n == nil {
			return "nil"
		}
		if n.Type() == mpt.EmptyT {
			return "empty"
		}
		if n.Type() == mpt.HashT {
			return "hash " + n.Hash().StringBE()
		}
		return hex.EncodeToString(n.Bytes())
	}
	c.weight = 14

	// ---- extensible, consensus, notary request ----
	c = reg(serCodec("extensible", func() io.Serializable { return payload.NewExtensible() }, func(g *G) any { return g.extensible() }))
	c.show = showOf(showExtensible)
	c.hash = func(v any) string { return v.(*payload.Extensible).Hash().StringBE() }

	// consensus payloads in both StateRootInHeader settings (a PrepareRequest then carries a state root, also
	// the one embedded in a RecoveryMessage)
	for _, sr := range []bool{false, true} {
		sr := sr
		suf := map[bool]string{false: "0", true: "1"}[sr]
		c = reg(serCodec("consensus"+suf, func() io.Serializable { return consensus.NewPayload(0, sr) }, nil))
		c.rawGen = func(g *G) ([]byte, []int) { return genConsensusBytes(g, sr) }
		// the wire bytes of this codec are the dBFT message (the Data of an Extensible envelope)
		c.dec = func(b []byte) (any, int, error) {
			p := consensus.NewPayload(0, sr)
			r := io.NewBinReaderFromBuf(wrapConsensus(b))
			p.DecodeBinary(r)
			return p, 0, r.Err
		}
		c.enc = func(v any) ([]byte, error) {
			// re-encode from the decoded message fields (Data is dropped so that encodeData rebuilds it)
			p := *v.(*consensus.Payload)
			p.Extensible.Data = nil
			outer, err := encBytes(&p)
			if err != nil {
				return nil, err
			}
			e := payload.NewExtensible()
			r := io.NewBinReaderFromBuf(outer)
			e.DecodeBinary(r)
			if r.Err != nil {
				return nil, r.Err
			}
			return e.Data, nil
		}
		// identity of the payload rebuilt from the decoded fields (what a node relaying / recovering it signs)
		c.hash = func(v any) string {
			p := *v.(*consensus.Payload)
			p.Extensible = payload.Extensible{Category: p.Category, Sender: p.Sender, Witness: p.Witness}
			return p.Hash().StringBE()
		}
		c.show = func(v any) string { return showConsensus(v.(*consensus.Payload), sr) }
		c.extra = recoveryGetters // what dBFT calls next on an accepted RecoveryMessage (recovery.go)
		c.weight = 9
	}

	c = reg(serCodec("notaryreq", func() io.Serializable { return &payload.P2PNotaryRequest{} }, func(g *G) any { return g.notaryRequest() }))
	c.hash = func(v any) string { return v.(*payload.P2PNotaryRequest).Hash().StringBE() }
	c.show = showOfPayload
	c.jsonRT = nil

	// ---- NEF ----
	c = reg(serCodec("nef", func() io.Serializable { return &nef.File{} }, func(g *G) any { return g.nef() }))
	c.jsonRT = jsonVia[nef.File]
	c.show = showOf(showNef)

	// ---- stack items, notifications, execution results ----
	for _, prot := range []bool{false, true} {
		prot := prot
		name := map[bool]string{false: "item", true: "itemprot"}[prot]
		c = reg(serCodec(name, func() io.Serializable { return &itemBox{protected: prot} }, func(g *G) any { return &itemBox{it: g.stackItem(), protected: prot} }))
		c.encSeg = func(v any) ([]byte, []int, error) { return itemSeg(v.(*itemBox)) }
		c.show = func(v any) string { var s sb; showItem(&s, v.(*itemBox).it, 0); return s.String() }
		if !prot {
			c.jsonRT = func(v any) (any, error) {
				j, err := stackitem.ToJSONWithTypes(v.(*itemBox).it)
				if errors.Is(err, stackitem.ErrTooBig) {
					return nil, errNoJSON // the JSON text has its own size limit (MaxSize)
				}
				if err != nil {
					return nil, fmt.Errorf("marshal: %w", err)
				}
				it, err := stackitem.FromJSONWithTypes(j)
				if err != nil {
					return nil, fmt.Errorf("unmarshal: %w (%s)", err, trunc(string(j), 200))
				}
				return &itemBox{it: it}, nil
			}
			c.weight = 24
		}
	}
	c = reg(serCodec("notification", func() io.Serializable { return &state.NotificationEvent{} }, func(g *G) any { return g.notification() }))
	c.show = func(v any) string {
		n := v.(*state.NotificationEvent)
		var s sb
		s.hex(n.ScriptHash[:])
		s.hex([]byte(n.Name))
		showItem(&s, n.Item, 0)
		return s.String()
	}
	c.jsonRT = jsonVia[state.NotificationEvent]
	c.jsonOK = func(v any) bool { return utf8.ValidString(v.(*state.NotificationEvent).Name) } // JSON strings are UTF-8
	c = reg(serCodec("aer", func() io.Serializable { return &state.AppExecResult{} }, func(g *G) any { return g.aer() }))
	c.show = func(v any) string {
		a := v.(*state.AppExecResult)
		var s sb
		s.hex(a.Container[:])
		s.num(uint64(a.Trigger))
		s.num(uint64(a.VMState))
		s.num(uint64(a.GasConsumed))
		s.num(uint64(len(a.Stack)))
		for _, it := range a.Stack {
			showItem(&s, it, 0)
		}
		s.num(uint64(len(a.Events)))
		for i := range a.Events {
			s.hex(a.Events[i].ScriptHash[:])
			s.hex([]byte(a.Events[i].Name))
			showItem(&s, a.Events[i].Item, 0)
		}
		s.hex([]byte(a.FaultException))
		s.num(uint64(len(a.Invocations)))
		for i := range a.Invocations {
			b, _ := encBytes(&a.Invocations[i])
			s.hex(b)
		}
		return s.String()
	}
	c.jsonRT = jsonVia[state.AppExecResult]
	c.jsonOK = func(v any) bool {
		a := v.(*state.AppExecResult)
		// JSON names triggers and VM states; strings must be UTF-8; items that only the protected
		// serialisation can carry (interop, pointer, invalid) have no JSON form
		if t, err := trigger.FromString(a.Trigger.String()); err != nil || t != a.Trigger {
			return false
		}
		if st, err := vmstate.FromString(a.VMState.String()); err != nil || st != a.VMState {
			return false
		}
		if !utf8.ValidString(a.FaultException) || len(a.Invocations) != 0 {
			return false
		}
		for i := range a.Events {
			if !utf8.ValidString(a.Events[i].Name) {
				return false
			}
		}
		var s sb
		for _, it := range a.Stack {
			showItem(&s, it, 0)
		}
		d := " " + s.String() + " "
		return !strings.Contains(d, " invalid ") && !strings.Contains(d, " interop ") && !strings.Contains(d, " ptr ")
	}

	// ---- P2P payloads and message framing ----
	reg(serCodec("p2p.version", func() io.Serializable { return &payload.Version{} }, func(g *G) any {
		return &payload.Version{Magic: 0x334f454e, Version: g.u32(), Timestamp: g.u32(), Nonce: g.u32(), UserAgent: g.bytes(payload.MaxUserAgentLength), Capabilities: g.capabilities()}
	}))
	reg(serCodec("p2p.addr", func() io.Serializable { return &payload.AddressList{} }, func(g *G) any {
		n := g.cnt1(payload.MaxAddrsCount)
		l := payload.NewAddressList(n)
		for i := range l.Addrs {
			a := &payload.AddressAndTime{Timestamp: g.u32(), Capabilities: g.capabilities()}
			copy(a.IP[:], g.r.Bytes(16))
			l.Addrs[i] = a
		}
		return l
	}))
	reg(serCodec("p2p.inv", func() io.Serializable { return &payload.Inventory{} }, func(g *G) any {
		return payload.NewInventory([]payload.InventoryType{payload.TXType, payload.BlockType, payload.ExtensibleType, payload.P2PNotaryRequestType, 0}[g.r.Intn(5)], g.hashes(payload.MaxHashesCount))
	}))
	reg(serCodec("p2p.getblocks", func() io.Serializable { return &payload.GetBlocks{} }, func(g *G) any {
		return payload.NewGetBlocks(g.u256(), []int16{-1, 1, 2, 500, 32767, 0, -2}[g.countIdx(5, 7)])
	}))
	reg(serCodec("p2p.getblockbyindex", func() io.Serializable { return &payload.GetBlockByIndex{} }, func(g *G) any {
		return payload.NewGetBlockByIndex(g.u32(), []int16{-1, 1, 2, 1999, 2000, 2001, 0, -2}[g.countIdx(5, 8)])
	}))
	for _, sr := range []bool{false, true} {
		sr := sr
		suf := map[bool]string{false: "0", true: "1"}[sr]
		reg(serCodec("p2p.headers"+suf, func() io.Serializable { return &payload.Headers{StateRootInHeader: sr} }, func(g *G) any {
			n := 1 + g.r.Intn(3)
			if g.big && g.r.Chance(1, 4) {
				n = payload.MaxHeadersAllowed - 1 + g.r.Intn(3)
				if n > payload.MaxHeadersAllowed {
					g.invalid = true
				}
			}
			h := &payload.Headers{StateRootInHeader: sr, Hdrs: make([]*block.Header, n)}
			for i := range h.Hdrs {
				h.Hdrs[i] = g.header(sr)
			}
			return h
		})).weight = 5
	}
	reg(serCodec("p2p.merkleblock", func() io.Serializable { return &payload.MerkleBlock{} }, func(g *G) any {
		hs := g.hashes(40)
		m := &payload.MerkleBlock{Header: g.header(false), TxCount: len(hs), Hashes: hs}
		m.Flags = g.r.Bytes(g.r.Intn((len(hs)+7)/8 + 1))
		return m
	}))
	reg(serCodec("p2p.mptdata", func() io.Serializable { return &payload.MPTData{} }, func(g *G) any {
		n := 1 + g.r.Intn(4)
		d := &payload.MPTData{Nodes: make([][]byte, n)}
		for i := range d.Nodes {
			d.Nodes[i] = g.r.Bytes(g.r.Intn(60))
		}
		return d
	}))
	reg(serCodec("p2p.mptinv", func() io.Serializable { return &payload.MPTInventory{} }, func(g *G) any { return payload.NewMPTInventory(g.hashes(payload.MaxMPTHashesCount)) }))
	reg(serCodec("p2p.ping", func() io.Serializable { return &payload.Ping{} }, func(g *G) any {
		return &payload.Ping{LastBlockIndex: g.u32(), Timestamp: g.u32(), Nonce: g.u32()}
	}))
	for _, sr := range []bool{false, true} {
		sr := sr
		suf := map[bool]string{false: "0", true: "1"}[sr]
		c = reg(&codec{name: "message" + suf, weight: 16})
		c.gen = func(g *G) any { return g.message(sr) }
		c.encSeg = func(v any) ([]byte, []int, error) {
			m := v.(*network.Message)
			sw := &segWriter{}
			w := io.NewBinWriterFromIO(sw)
			if err := m.EncodeCompressed(w, false); err != nil {
				return nil, nil, err
			}
			return sw.buf, sw.cuts, nil
		}
		c.dec = func(b []byte) (any, int, error) {
			m := &network.Message{StateRootInHeader: sr}
			r := io.NewBinReaderFromBuf(b)
			err := m.Decode(r)
			return m, r.Len(), err
		}
		c.enc = func(v any) ([]byte, error) {
			m := v.(*network.Message)
			// a fresh message with the decoded command and payload, as the node builds the ones it sends
			return network.NewMessage(m.Command, m.Payload).BytesCompressed(false)
		}
		c.altEnc = func(v any) ([]byte, error) { // LZ4-compressed when the payload is over 1 KiB (output not deterministic)
			m := v.(*network.Message)
			return network.NewMessage(m.Command, m.Payload).Bytes()
		}
		c.show = func(v any) string { return showMessage(v.(*network.Message)) }
	}

	for _, n := range []string{"p2p.version", "p2p.addr", "p2p.inv", "p2p.getblocks", "p2p.getblockbyindex", "p2p.headers0", "p2p.headers1",
		"p2p.merkleblock", "p2p.mptdata", "p2p.mptinv", "p2p.ping"} {
		codecByName[n].show = showOfPayload
	}

	// ---- manifest (JSON is its wire form) ----
	c = reg(&codec{name: "manifest", weight: 8, looseEnc: true})
	c.gen = func(g *G) any { return g.manifest() }
	c.encSeg = func(v any) ([]byte, []int, error) {
		j, err := json.Marshal(v)
		return j, nil, err
	}
	c.dec = func(b []byte) (any, int, error) {
		m := new(manifest.Manifest)
		err := json.Unmarshal(b, m)
		return m, 0, err
	}
	c.enc = func(v any) ([]byte, error) { return json.Marshal(v) }
	// absent / null / empty lists are the same manifest
	c.norm = func(v any) string {
		j, err := json.Marshal(v)
		if err != nil {
			return "marshal error: " + err.Error()
		}
		// compare the JSON values, not the text (escapes like \u0060 vs ` differ between the two encoders in use)
		var generic any
		if err := json.Unmarshal(j, &generic); err == nil {
			if j2, err := json.Marshal(generic); err == nil {
				j = j2
			}
		}
		return strings.ReplaceAll(string(j), "null", "[]")
	}
	c.jsonRT = func(v any) (any, error) { // the stack item form is the second encoding of a manifest
		m := v.(*manifest.Manifest)
		it, err := m.ToStackItem()
		if err != nil {
			return nil, fmt.Errorf("tostackitem: %w", err)
		}
		out := new(manifest.Manifest)
		if err := out.FromStackItem(it); err != nil {
			return nil, fmt.Errorf("fromstackitem: %w", err)
		}
		return out, nil
	}
	c.jsonOK = func(v any) bool { return v.(*manifest.Manifest).IsValid(util160zero, true) == nil }

	initStoredForms()
	initTokenCodecs() // token transfer log records (tokens.go)
}

// countIdx picks an index < valid (valid entries) or, rarely, an invalid one in [valid, total).
func (g *G) countIdx(valid, total int) int {
	if g.allowInvalid && g.r.Chance(1, 5) {
		g.invalid = true
		return valid + g.r.Intn(total-valid)
	}
	return g.r.Intn(valid)
}

// trieShaped tells whether a decoded MPT node is one the trie can store (Size() is defined for those).
func trieShaped(n mpt.Node) bool {
	switch t := n.(type) {
	case *mpt.ExtensionNode:
		_, next := extParts(t)
		return next != nil && next.Type() != mpt.EmptyT
	}
	return n != nil
}

var cacheFields = map[string]bool{"hash": true, "hashed": true, "size": true, "bytes": true, "bytesValid": true, "hashValid": true, "compressedPayload": true}

// dumpAny prints a value structurally (pointers followed, unexported fields included, no addresses).
func dumpAny(v any) string {
	var b strings.Builder
	dumpVal(&b, reflect.ValueOf(v), 0)
	return b.String()
}

func dumpVal(b *strings.Builder, v reflect.Value, depth int) {
	if depth > 12 {
		b.WriteString("…")
		return
	}
	if !v.IsValid() {
		b.WriteString("nil")
		return
	}
	switch v.Kind() {
	case reflect.Pointer, reflect.Interface:
		if v.IsNil() {
			b.WriteString("nil")
			return
		}
		dumpVal(b, v.Elem(), depth+1)
	case reflect.Struct:
		b.WriteString("{")
		for i := 0; i < v.NumField(); i++ {
			if cacheFields[v.Type().Field(i).Name] {
				continue // caches set at decode time; their agreement is checked through Hash()/Size()
			}
			b.WriteString(" " + v.Type().Field(i).Name + ":")
			dumpVal(b, v.Field(i), depth+1)
		}
		b.WriteString("}")
	case reflect.Slice, reflect.Array:
		if v.Type().Elem().Kind() == reflect.Uint8 {
			bs := make([]byte, v.Len())
			for i := range bs {
				bs[i] = byte(v.Index(i).Uint())
			}
			b.WriteString(hex.EncodeToString(bs))
			return
		}
		b.WriteString("[")
		for i := 0; i < v.Len(); i++ {
			if i > 0 {
				b.WriteString(" ")
			}
			dumpVal(b, v.Index(i), depth+1)
		}
		b.WriteString("]")
	case reflect.String:
		fmt.Fprintf(b, "%q", v.String())
	case reflect.Bool:
		fmt.Fprint(b, v.Bool())
	case reflect.Int, reflect.Int8, reflect.Int16, reflect.Int32, reflect.Int64:
		fmt.Fprint(b, v.Int())
	case reflect.Uint, reflect.Uint8, reflect.Uint16, reflect.Uint32, reflect.Uint64:
		fmt.Fprint(b, v.Uint())
	default:
		b.WriteString(v.Kind().String())
	}
}
