package main

import (
	"encoding/json"

	"github.com/nspcc-dev/neo-go/pkg/core/transaction"
	"github.com/nspcc-dev/neo-go/pkg/encoding/bigint"
	"github.com/nspcc-dev/neo-go/pkg/io"
	"github.com/nspcc-dev/neo-go/pkg/network"
	"github.com/nspcc-dev/neo-go/pkg/network/payload"
	"github.com/nspcc-dev/neo-go/pkg/smartcontract"
	"github.com/nspcc-dev/neo-go/pkg/smartcontract/manifest"
	"github.com/nspcc-dev/neo-go/pkg/util"
	"github.com/nspcc-dev/neo-go/pkg/vm/stackitem"
)

var util160zero util.Uint160

// notaryRequest builds a request that passes P2PNotaryRequest.isValid.
func (g *G) notaryRequest() *payload.P2PNotaryRequest {
	plain := func() *transaction.Transaction {
		saved := g.allowInvalid
		g.allowInvalid = false
		t := g.tx()
		g.allowInvalid = saved
		// drop attributes the request fixes itself
		var as []transaction.Attribute
		for _, a := range t.Attributes {
			if a.Type != transaction.NotaryAssistedT && a.Type != transaction.NotValidBeforeT && a.Type != transaction.ConflictsT {
				as = append(as, a)
			}
		}
		t.Attributes = as
		return t
	}
	main := plain()
	for len(main.Signers)+len(main.Attributes) >= transaction.MaxAttributes {
		if len(main.Attributes) > 0 {
			main.Attributes = main.Attributes[:len(main.Attributes)-1]
		} else {
			main.Signers = main.Signers[:len(main.Signers)-1]
			main.Scripts = main.Scripts[:len(main.Scripts)-1]
		}
	}
	nk := uint8(1 + g.r.Intn(255))
	if g.allowInvalid && g.r.Chance(1, 8) {
		nk = 0
		g.invalid = true
	}
	main.Attributes = append(main.Attributes, transaction.Attribute{Type: transaction.NotaryAssistedT, Value: &transaction.NotaryAssisted{NKeys: nk}})
	fb := plain()
	fb.ValidUntilBlock = main.ValidUntilBlock
	fb.Signers = []transaction.Signer{{Account: g.u160(), Scopes: transaction.None}, {Account: g.u160(), Scopes: transaction.None}}
	inv := append([]byte{0x0c, 64}, g.r.Bytes(64)...)
	fb.Scripts = []transaction.Witness{{InvocationScript: inv, VerificationScript: []byte{}}, g.witness()}
	fb.Attributes = []transaction.Attribute{
		{Type: transaction.NotValidBeforeT, Value: &transaction.NotValidBefore{Height: g.u32()}},
		{Type: transaction.ConflictsT, Value: &transaction.Conflicts{Hash: main.Hash()}},
		{Type: transaction.NotaryAssistedT, Value: &transaction.NotaryAssisted{NKeys: 0}},
	}
	if g.allowInvalid && g.r.Chance(1, 8) {
		fb.ValidUntilBlock++
		g.invalid = true
	}
	return &payload.P2PNotaryRequest{MainTransaction: main, FallbackTransaction: fb, Witness: g.witness()}
}

// message builds a P2P message around a generated payload.
func (g *G) message(sr bool) *network.Message {
	inner := newG(g.r)
	inner.allowInvalid = false
	// a payload generator may still step over a cap on purpose (2001 headers): the message is then not valid either
	defer func() { g.invalid = g.invalid || inner.invalid }()
	switch g.r.Intn(16) {
	case 0:
		return network.NewMessage(network.CMDVerack, payload.NewNullPayload())
	case 1:
		return network.NewMessage([]network.CommandType{network.CMDGetAddr, network.CMDMempool, network.CMDFilterClear}[g.r.Intn(3)], payload.NewNullPayload())
	case 2:
		return network.NewMessage(network.CMDVersion, codecByName["p2p.version"].gen(inner).(payload.Payload))
	case 3:
		return network.NewMessage(network.CMDAddr, codecByName["p2p.addr"].gen(inner).(payload.Payload))
	case 4:
		return network.NewMessage([]network.CommandType{network.CMDInv, network.CMDGetData, network.CMDNotFound}[g.r.Intn(3)], codecByName["p2p.inv"].gen(inner).(payload.Payload))
	case 5:
		return network.NewMessage(network.CMDGetBlocks, codecByName["p2p.getblocks"].gen(inner).(payload.Payload))
	case 6:
		return network.NewMessage([]network.CommandType{network.CMDGetBlockByIndex, network.CMDGetHeaders}[g.r.Intn(2)], codecByName["p2p.getblockbyindex"].gen(inner).(payload.Payload))
	case 7:
		suf := map[bool]string{false: "0", true: "1"}[sr]
		return network.NewMessage(network.CMDHeaders, codecByName["p2p.headers"+suf].gen(inner).(payload.Payload))
	case 8:
		return network.NewMessage([]network.CommandType{network.CMDPing, network.CMDPong}[g.r.Intn(2)], codecByName["p2p.ping"].gen(inner).(payload.Payload))
	case 9:
		return network.NewMessage(network.CMDMerkleBlock, codecByName["p2p.merkleblock"].gen(inner).(payload.Payload))
	case 10:
		return network.NewMessage(network.CMDGetMPTData, codecByName["p2p.mptinv"].gen(inner).(payload.Payload))
	case 11:
		return network.NewMessage(network.CMDMPTData, codecByName["p2p.mptdata"].gen(inner).(payload.Payload))
	case 12:
		return network.NewMessage(network.CMDBlock, inner.block(sr))
	case 13:
		return network.NewMessage(network.CMDExtensible, inner.extensible())
	case 14:
		return network.NewMessage(network.CMDP2PNotaryRequest, inner.notaryRequest())
	default:
		return network.NewMessage(network.CMDTX, inner.tx())
	}
}

var paramTypes = []smartcontract.ParamType{smartcontract.AnyType, smartcontract.BoolType, smartcontract.IntegerType, smartcontract.ByteArrayType, smartcontract.StringType,
	smartcontract.Hash160Type, smartcontract.Hash256Type, smartcontract.PublicKeyType, smartcontract.SignatureType, smartcontract.ArrayType, smartcontract.MapType,
	smartcontract.InteropInterfaceType, smartcontract.VoidType}

func (g *G) ident() string { return string(printable(g.r, 1+g.r.Intn(8))) }

func (g *G) params() []manifest.Parameter {
	n := g.r.Intn(4)
	ps := make([]manifest.Parameter, n)
	for i := range ps {
		ps[i] = manifest.Parameter{Name: g.ident() + string(rune('0'+i)), Type: paramTypes[g.r.Intn(len(paramTypes)-1)]}
	}
	return ps
}

func (g *G) manifest() *manifest.Manifest {
	m := manifest.NewManifest(g.ident())
	nm := 1 + g.r.Intn(4)
	for i := 0; i < nm; i++ {
		m.ABI.Methods = append(m.ABI.Methods, manifest.Method{Name: g.ident() + string(rune('a'+i)), Offset: g.r.Intn(1000), Parameters: g.params(), ReturnType: paramTypes[g.r.Intn(len(paramTypes))], Safe: g.r.Bool()})
	}
	ne := g.r.Intn(3)
	for i := 0; i < ne; i++ {
		m.ABI.Events = append(m.ABI.Events, manifest.Event{Name: g.ident() + string(rune('A'+i)), Parameters: g.params()})
	}
	np := g.r.Intn(3)
	for i := 0; i < np; i++ {
		var p *manifest.Permission
		switch g.r.Intn(3) {
		case 0:
			p = manifest.NewPermission(manifest.PermissionWildcard)
		case 1:
			p = manifest.NewPermission(manifest.PermissionHash, g.u160())
		default:
			p = manifest.NewPermission(manifest.PermissionGroup, g.key())
		}
		if g.r.Bool() {
			p.Methods.Restrict()
			for j := g.r.Intn(3); j > 0; j-- {
				p.Methods.Add(g.ident() + string(rune('0'+j)))
			}
		}
		m.Permissions = append(m.Permissions, *p)
	}
	if g.r.Chance(1, 3) {
		m.SupportedStandards = append(m.SupportedStandards, manifest.NEP17StandardName)
	}
	switch g.r.Intn(3) {
	case 0:
		m.Trusts.Restrict()
	case 1:
		m.Trusts.Restrict()
		m.Trusts.Add(manifest.PermissionDesc{Type: manifest.PermissionHash, Value: g.u160()})
		if g.r.Bool() {
			m.Trusts.Add(manifest.PermissionDesc{Type: manifest.PermissionGroup, Value: g.key()})
		}
	default:
		m.Trusts = manifest.WildPermissionDescs{Wildcard: true}
	}
	switch g.r.Intn(4) {
	case 0:
		m.Extra = json.RawMessage(`{"Author":"` + g.ident() + `","n":` + string(rune('0'+g.r.Intn(10))) + `}`)
	case 1:
		m.Extra = json.RawMessage(`"` + g.ident() + `"`)
	case 2:
		m.Extra = json.RawMessage(`[1,{"a":null},"x"]`)
	}
	return m
}

// ---- consensus messages: the types are not constructible from outside the package; build bytes ----

// recOpts forces the shape of a RecoveryMessage (nil: random).
type recOpts struct{ hasReq, hashPresent bool }

func genConsensusMessage(g *G, w *io.BinWriter, typ byte, sr bool, force *recOpts) {
	w.WriteB(typ)
	w.WriteU32LE(g.u32())
	w.WriteB(byte(g.r.Intn(8)))
	w.WriteB(byte(g.r.Intn(4)))
	switch typ {
	case 0x00: // ChangeView
		w.WriteU64LE(g.u64())
		reason := []byte{0, 1, 3, 4, 5, 0xff}[g.r.Intn(6)]
		w.WriteB(reason)
		if reason == 3 || reason == 4 {
			hs := g.hashes(20)
			w.WriteVarUint(uint64(len(hs)))
			for i := range hs {
				w.WriteBytes(hs[i][:])
			}
		}
	case 0x20: // PrepareRequest
		w.WriteU32LE(g.u32())
		w.WriteBytes(g.r.Bytes(32))
		w.WriteU64LE(g.u64())
		w.WriteU64LE(g.u64())
		hs := g.hashes(20)
		w.WriteVarUint(uint64(len(hs)))
		for i := range hs {
			w.WriteBytes(hs[i][:])
		}
		if sr { // StateRootInHeader: the request carries the state root
			w.WriteBytes(g.r.Bytes(32))
		}
	case 0x21: // PrepareResponse
		w.WriteBytes(g.r.Bytes(32))
	case 0x30: // Commit
		w.WriteBytes(g.r.Bytes(64))
	case 0x40: // RecoveryRequest
		w.WriteU64LE(g.u64())
	case 0x41: // RecoveryMessage
		n := g.cnt(7)
		w.WriteVarUint(uint64(n))
		for i := 0; i < n; i++ {
			w.WriteB(byte(i))
			w.WriteB(byte(g.r.Intn(3)))
			w.WriteU64LE(g.u64())
			w.WriteVarBytes(g.bytes(1024))
		}
		hasReq, hashPresent := g.r.Bool(), g.r.Bool()
		if force != nil {
			hasReq, hashPresent = force.hasReq, force.hashPresent
		}
		if hasReq {
			w.WriteB(1)
			genConsensusMessage(g, w, 0x20, sr, nil)
		} else {
			w.WriteB(0)
			if hashPresent {
				w.WriteVarUint(32)
				w.WriteBytes(g.r.Bytes(32))
			} else {
				w.WriteVarUint(0)
			}
		}
		n = g.cnt(7)
		w.WriteVarUint(uint64(n))
		for i := 0; i < n; i++ {
			w.WriteB(byte(i))
			w.WriteVarBytes(g.bytes(1024))
		}
		n = g.cnt(7)
		w.WriteVarUint(uint64(n))
		for i := 0; i < n; i++ {
			w.WriteB(byte(g.r.Intn(3)))
			w.WriteB(byte(i))
			w.WriteBytes(g.r.Bytes(64))
			w.WriteVarBytes(g.bytes(1024))
		}
	}
}

var consensusTypes = []byte{0x00, 0x20, 0x21, 0x30, 0x40, 0x41}

// genConsensusBytes returns a segmented dBFT message (the Data of an Extensible payload).
func genConsensusBytes(g *G, sr bool) ([]byte, []int) {
	sw := &segWriter{}
	w := io.NewBinWriterFromIO(sw)
	typ := consensusTypes[g.r.Intn(len(consensusTypes))]
	if g.r.Chance(1, 3) {
		typ = 0x41
	}
	genConsensusMessage(g, w, typ, sr, nil)
	return sw.buf, sw.cuts
}

// wrapConsensus puts a dBFT message into an Extensible payload envelope.
func wrapConsensus(data []byte) []byte {
	w := io.NewBufBinWriter()
	w.WriteString(payload.ConsensusCategory)
	w.WriteU32LE(0)
	w.WriteU32LE(0)
	w.WriteBytes(make([]byte, 20))
	w.WriteVarBytes(data)
	w.WriteB(1)
	w.WriteVarBytes([]byte{0x0c, 0x40})
	w.WriteVarBytes([]byte{0x0c, 0x21})
	return w.Bytes()
}

// ---- stack items: Serialize does not go through BinWriter, so the field boundaries are computed here ----

func itemSeg(b *itemBox) ([]byte, []int, error) {
	real, err := encBytes(b)
	if err != nil {
		return nil, nil, err
	}
	sw := &segWriter{}
	w := io.NewBinWriterFromIO(sw)
	if !writeItem(w, b.it, 0) || len(sw.buf) != len(real) {
		return real, nil, nil
	}
	for i := range real {
		if real[i] != sw.buf[i] {
			return real, nil, nil
		}
	}
	return real, sw.cuts, nil
}

func writeItem(w *io.BinWriter, it stackitem.Item, depth int) bool {
	if depth > 3000 {
		return false
	}
	switch t := it.(type) {
	case *stackitem.ByteArray:
		w.WriteB(byte(stackitem.ByteArrayT))
		w.WriteVarUint(uint64(len(*t)))
		w.WriteBytes(*t)
	case *stackitem.Buffer:
		w.WriteB(byte(stackitem.BufferT))
		w.WriteVarUint(uint64(len(*t)))
		w.WriteBytes(*t)
	case stackitem.Bool:
		w.WriteB(byte(stackitem.BooleanT))
		w.WriteBool(bool(t))
	case *stackitem.BigInteger:
		w.WriteB(byte(stackitem.IntegerT))
		d := bigint.ToBytes(t.Big())
		w.WriteVarUint(uint64(len(d)))
		w.WriteBytes(d)
	case *stackitem.Array, *stackitem.Struct:
		if _, ok := it.(*stackitem.Array); ok {
			w.WriteB(byte(stackitem.ArrayT))
		} else {
			w.WriteB(byte(stackitem.StructT))
		}
		v := it.Value().([]stackitem.Item)
		w.WriteVarUint(uint64(len(v)))
		for _, x := range v {
			if !writeItem(w, x, depth+1) {
				return false
			}
		}
	case *stackitem.Map:
		w.WriteB(byte(stackitem.MapT))
		v := t.Value().([]stackitem.MapElement)
		w.WriteVarUint(uint64(len(v)))
		for _, e := range v {
			if !writeItem(w, e.Key, depth+1) || !writeItem(w, e.Value, depth+1) {
				return false
			}
		}
	case stackitem.Null:
		w.WriteB(byte(stackitem.AnyT))
	default:
		return false
	}
	return true
}
