// Command wire: correspondence + oracle stream for the wire formats (C17).
//
// Every case k draws its randomness from prng.ForCase(seed, k). A case is one of
//   - a var-uint primitive experiment (pkg/io reader/writer against the model),
//   - a value of one wire type (repo constructors, boundary-biased counts), encoded by the real
//     encoder, possibly mutated at field granularity, and decoded by the real decoder,
//   - a transaction whose bytes are pushed through every arrival path,
//   - raw random bytes fed to a decoder.
//
// The real decoders run in a child process (worker.go); the oracle is in oracle.go / paths.go.
package main

import (
	"bufio"
	"errors"
	"flag"
	"fmt"
	"os"
	"path/filepath"
	"runtime/pprof"
	"strings"
	"time"

	"github.com/nspcc-dev/neo-go/pkg/io"
	"github.com/nspcc-dev/neo-go/pkg/vm/stackitem"

	"verif/harness/internal/hx"
	"verif/harness/internal/prng"
)

var askTotal time.Duration
var askByCodec = map[string]time.Duration{}

type runner struct {
	o   *hx.Out
	w   *worker
	req *bufio.Writer // every request sent to the decoding process (full input of each case, for replays)
}

// ask runs one request in the worker and transfers failures/counters; k is the case index.
func (rn *runner) ask(k int, name, req string) *report {
	if rn.req != nil {
		fmt.Fprintf(rn.req, "%d %s\n", k, req)
	}
	t0 := time.Now()
	rep, died := rn.w.ask(req)
	askTotal += time.Since(t0)
	askByCodec[name] += time.Since(t0)
	if d := time.Since(t0); d > 300*time.Millisecond && os.Getenv("WIRE_DUMP") != "" {
		fmt.Fprintf(os.Stderr, "slow case %d %v %s\n", k, d, trunc(req, 120))
	}
	if died != "" {
		rn.o.Fail(name+"-decode-"+died, k, "the decoding process did not survive (%s): request %s", died, trunc(req, 300))
		rn.w.stop()
		rn.w = startWorker()
		rep.obs = died
	}
	for _, f := range rep.fails {
		rn.o.Fail(f[0], k, "%s", f[1])
	}
	for _, c := range rep.counts {
		rn.o.Count(c)
	}
	return rep
}

func (rn *runner) bytesCase(k int, c *codec, b []byte) *report {
	rep := rn.ask(k, c.name, "B "+c.name+" "+hx.Hex(b))
	if c.modelled && len(b) <= maxModelInput && !(strings.HasPrefix(c.name, "message") && len(b) > 0 && b[0]&1 != 0) {
		// (compressed frames go to the real decoder only: LZ4 is not modelled)
		op := "dec " + c.name + " " + hx.Hex(b)
		if c.decArg != nil {
			op += " " + c.decArg(rep.obs)
		}
		rn.o.Line(op, rep.obs)
	}
	switch {
	case strings.HasPrefix(rep.obs, "ok"):
		rn.o.Count("decode:ok:" + c.name)
	case rep.obs == "err":
		rn.o.Count("decode:err:" + c.name)
	default:
		rn.o.Count("decode:" + rep.obs + ":" + c.name)
	}
	return rep
}

// inputs over this size go to the real decoders only (the driver works on linked lists of bytes)
const maxModelInput = 4 << 20

// validRaw: bytes produced by a canonical generator for a type that has no public constructor must be accepted,
// consumed entirely, and re-encoded from the decoded fields to the same bytes.
func (rn *runner) validRaw(k int, c *codec, b []byte) {
	rep := rn.bytesCase(k, c, b)
	exp := fmt.Sprintf("ok rest=0 enc=%s ", hx.Hex(b))
	switch {
	case !strings.HasPrefix(rep.obs, "ok"):
		rn.o.Fail(c.name+"-roundtrip", k, "a valid encoding is rejected (%s): %s", rep.obs, trunc(hx.Hex(b), 300))
	case !strings.HasPrefix(rep.obs, exp):
		rn.o.Fail(c.name+"-roundtrip", k, "a valid encoding is re-encoded differently from its decoded fields: %s -> %s", trunc(hx.Hex(b), 200), trunc(rep.obs, 300))
	}
	rn.o.Count("roundtrip:" + c.name)
}

func pickCodec(r *prng.R) *codec {
	w := make([]int, len(codecs))
	for i, c := range codecs {
		w[i] = c.weight
	}
	return codecs[r.Weighted(w)]
}

func (rn *runner) varuintCase(k int, r *prng.R) {
	o := rn.o
	v := genUint(r)
	w := io.NewBufBinWriter()
	w.WriteVarUint(v)
	enc := w.Bytes()
	o.Line(fmt.Sprintf("putvaruint %d", v), hx.Hex(enc))
	// GetVarSize is defined for collection lengths (int); beyond 32 bits it is not used.
	if v <= 0xffffffff && io.GetVarSize(v) != len(enc) {
		o.Fail("varuint-size", k, "GetVarSize(%d)=%d, encoding has %d bytes", v, io.GetVarSize(v), len(enc))
	}
	var b []byte
	switch r.Intn(4) {
	case 0:
		b = append(append([]byte{}, enc...), r.Bytes(r.Intn(3))...)
		o.Count("varuint:valid+tail")
	case 1: // non-minimal form of a small value
		forms := [][]byte{{0xfd, byte(v), 0}, {0xfe, byte(v), 0, 0, 0}, {0xff, byte(v), 0, 0, 0, 0, 0, 0, 0}}
		b = forms[r.Intn(3)]
		o.Count("varuint:non-minimal")
	case 2: // truncated
		b = append([]byte{}, enc...)
		b = b[:r.Intn(len(b)+1)]
		o.Count("varuint:truncated")
	default:
		b = r.Bytes(r.Intn(11))
		o.Count("varuint:random")
	}
	br := io.NewBinReaderFromBuf(b)
	got := br.ReadVarUint()
	obs := "err"
	if br.Err == nil {
		rest := b[len(b)-br.Len():]
		obs = fmt.Sprintf("ok %d %s", got, hx.Hex(rest))
		w2 := io.NewBufBinWriter()
		w2.WriteVarUint(got)
		r2 := io.NewBinReaderFromBuf(w2.Bytes())
		if again := r2.ReadVarUint(); r2.Err != nil || again != got {
			o.Fail("varuint-reencode", k, "decode(encode(%d)) = %d err=%v", got, again, r2.Err)
		}
	}
	o.Line("readvaruint "+hx.Hex(b), obs)
	rr := io.NewBinReaderFromBuf(enc)
	if back := rr.ReadVarUint(); rr.Err != nil || back != v || rr.Len() != 0 {
		o.Fail("varuint-roundtrip", k, "v=%d enc=%x back=%d", v, enc, back)
	}
	// var-bytes with a cap
	max := []int{0, 1, 16, 1024, 65535}[r.Intn(5)]
	n := []int{0, 1, max - 1, max, max + 1, r.Intn(300)}[r.Intn(6)]
	if n < 0 {
		n = 0
	}
	data := r.Bytes(n)
	w3 := io.NewBufBinWriter()
	w3.WriteVarBytes(data)
	vb := append(w3.Bytes(), r.Bytes(r.Intn(3))...)
	if r.Chance(1, 5) && len(vb) > 0 {
		vb = vb[:r.Intn(len(vb))]
	}
	br3 := io.NewBinReaderFromBuf(vb)
	gotb := br3.ReadVarBytes(max)
	obs = "err"
	if br3.Err == nil {
		obs = fmt.Sprintf("ok %s %s", hx.Hex(gotb), hx.Hex(vb[len(vb)-br3.Len():]))
		if io.GetVarSize(gotb) != len(vb)-br3.Len() && len(minimalVarUint(uint64(len(gotb)))) == len(vb)-br3.Len()-len(gotb) {
			o.Fail("varbytes-size", k, "GetVarSize of %d bytes = %d, consumed %d", len(gotb), io.GetVarSize(gotb), len(vb)-br3.Len())
		}
	}
	o.Line(fmt.Sprintf("readvarbytes %d %s", max, hx.Hex(vb)), obs)
	o.Seen(fmt.Sprintf("vu/%d/%x", v, b))
}

func (rn *runner) codecCase(k int, r *prng.R) {
	o := rn.o
	c := pickCodec(r)
	g := newG(r)
	var b []byte
	var cuts []int
	var v any
	var want0 string
	if c.rawGen != nil {
		b, cuts = c.rawGen(g)
	} else {
		v = c.gen(g)
		if ib, ok := v.(*itemBox); ok {
			// the limits of the serialiser, counted independently on the tree unfolding of the item
			cnt, sz := itemCount(ib.it, 0), itemSize(ib.it, 0)
			fits := cnt <= stackitem.MaxSerialized && sz <= stackitem.MaxSize
			_, serr := stackitem.Serialize(ib.it)
			switch {
			case ib.protected: // the protected form writes an "invalid" marker instead of failing
			case serr == nil && !fits:
				o.Fail("item-serialize-over-limit", k, "Serialize accepts an item of %d items / %d bytes (limits %d / %d)", cnt, sz, stackitem.MaxSerialized, stackitem.MaxSize)
			case serr != nil && fits:
				o.Fail("item-serialize-rejects", k, "Serialize rejects (%v) an item of %d items / %d bytes (limits %d / %d)", serr, cnt, sz, stackitem.MaxSerialized, stackitem.MaxSize)
			}
			if c.parse && cnt < 20000 {
				// the serialiser against the model on every generated item, over the limits too
				var s sb
				showItem(&s, ib.it, 0)
				if s.Len() > 512<<10 {
					// (the dump unfolds shared references: keep the line size reasonable)
				} else if eb, err := encBytes(ib); err == nil {
					o.Line("enc "+c.name+" "+s.String(), fmt.Sprintf("%s size=%d", hx.Hex(eb), len(eb)))
				} else {
					o.Line("enc "+c.name+" "+s.String(), "err")
				}
			}
			if !fits {
				g.invalid = true
				o.Count("item:over-limit")
			} else if cnt > stackitem.MaxSerialized-64 {
				o.Count("item:near-count-limit")
			}
		}
		if cnt := 0; cnt == 0 {
			want0 = c.showFn()(v) // before encoding (an encoder must not change the value)
		}
		var err error
		b, cuts, err = c.encSeg(v)
		if err != nil {
			// out-of-range values some encoders refuse (reported through w.Err): nothing to decode
			o.Count("gen:unencodable:" + c.name)
			if !g.invalid && !(strings.HasPrefix(c.name, "item") && errors.Is(err, stackitem.ErrTooBig)) {
				o.Fail(c.name+"-encode-fails", k, "a valid generated value cannot be encoded: %v", err)
			}
			return
		}
	}
	if len(cuts) == 0 {
		cuts = []int{0}
	}
	if g.invalid {
		o.Count("gen:out-of-range:" + c.name)
	} else {
		o.Count("gen:valid:" + c.name)
	}
	if os.Getenv("WIRE_DUMP") != "" {
		fmt.Fprintf(os.Stderr, "case %d %s canonical %s\n", k, c.name, hx.Hex(b))
	}
	mut := mutNone
	if c.altEnc != nil && !g.invalid && r.Chance(1, 3) {
		if ab, err := c.altEnc(v); err == nil {
			rep := rn.bytesCase(k, c, ab)
			if want := c.showFn()(v); !strings.HasPrefix(rep.obs, "ok rest=0 ") || !strings.HasSuffix(rep.obs, " v="+want) {
				key := c.name + "-alt-roundtrip"
				if strings.HasPrefix(c.name, "message") && len(ab) > 0 && ab[0]&1 != 0 {
					// the compressed framing of a payload whose uncompressed framing (b) is accepted: the only
					// difference is network.compress / decompress, i.e. the known LZ4 decoder defect; anything
					// else keeps the generic key
					if plain := rn.ask(k, c.name, "B "+c.name+" "+hx.Hex(b)); strings.HasPrefix(plain.obs, "ok rest=0 ") && strings.HasSuffix(plain.obs, " v="+want) {
						key = "message-lz4-roundtrip"
					}
				}
				o.Fail(key, k, "alternative encoding of a valid value is not decoded to it (%s): %d bytes %s", trunc(rep.obs, 100), len(ab), trunc(hx.Hex(ab), 120))
			}
			o.Count("mut:alt-encoding")
			o.Seen(fmt.Sprintf("%s/alt/%x", c.name, hashShort(ab)))
			return
		}
	}
	if r.Chance(3, 5) {
		b, mut = mutate(r, b, cuts)
		if r.Chance(1, 6) {
			var m2 string
			b, m2 = mutate(r, b, []int{0})
			mut += "+" + m2
		}
	}
	o.Count("mut:" + strings.SplitN(mut, "+", 2)[0])
	if mut == mutNone && !g.invalid && c.rawGen != nil {
		rn.validRaw(k, c, b)
		o.Seen(fmt.Sprintf("%s/%s/%x", c.name, mut, hashShort(b)))
		return
	}
	rep := rn.bytesCase(k, c, b)
	if mut == mutNone && !g.invalid && c.rawGen == nil {
		// round trip of a valid value through the real encoder and decoder
		want := want0
		if after := c.showFn()(v); after != want0 {
			o.Fail(c.name+"-encode-mutates", k, "encoding changes the value being encoded: %s -> %s", trunc(want0, 200), trunc(after, 200))
		}
		exp := fmt.Sprintf("ok rest=0 enc=%s ", hx.Hex(b))
		switch {
		case !strings.HasPrefix(rep.obs, "ok"):
			o.Fail(c.name+"-roundtrip", k, "encoding of a valid value is rejected (%s): %s", rep.obs, trunc(hx.Hex(b), 300))
		case !strings.HasPrefix(rep.obs, exp):
			o.Fail(c.name+"-roundtrip", k, "decode(encode v) re-encodes differently or leaves bytes: %s", trunc(rep.obs, 300))
		case !strings.HasSuffix(rep.obs, " v="+want):
			o.Fail(c.name+"-roundtrip", k, "decode(encode v) != v: want %s got %s", trunc(want, 300), trunc(rep.obs, 300))
		}
		if c.size != nil {
			if sz, err := safeInt(c.size, v); err != nil || (sz >= 0 && sz != len(b)) {
				o.Fail(c.name+"-size", k, "reported size %d, encoding has %d bytes", sz, len(b))
			}
		}
		o.Count("roundtrip:" + c.name)
		if _, isItem := v.(*itemBox); c.parse && !isItem {
			// value -> bytes direction of the tie: the model encodes the value described by the dump
			sz := len(b)
			if c.size != nil {
				if n, err := safeInt(c.size, v); err == nil && n >= 0 {
					sz = n
				}
			}
			o.Line("enc "+c.name+" "+want0, fmt.Sprintf("%s size=%d", hx.Hex(b), sz))
		}
	}
	o.Seen(fmt.Sprintf("%s/%s/%x", c.name, mut, hashShort(b)))
	if k%97 == 0 {
		o.Sample(fmt.Sprintf("%s %s %s -> %s", c.name, mut, trunc(hx.Hex(b), 80), trunc(rep.obs, 120)))
	}
}

func hashShort(b []byte) uint64 {
	h := uint64(1469598103934665603)
	for _, x := range b {
		h = (h ^ uint64(x)) * 1099511628211
	}
	return h
}

func (rn *runner) txPathCase(k int, r *prng.R) {
	o := rn.o
	g := newG(r)
	g.allowInvalid = false
	g.light = !r.Chance(1, 10)
	g.big = g.big && !g.light
	t := g.tx()
	b, cuts, err := encodeSeg(t)
	if err != nil {
		o.Fail("tx-encode-fails", k, "%v", err)
		return
	}
	mut := mutNone
	if r.Chance(4, 5) {
		// favour the content-preserving mutations: non-minimal counts, bool bytes, key forms
		for tries := 0; tries < 8; tries++ {
			var nb []byte
			nb, mut = mutate(r, b, cuts)
			if mut == mutNonMin || mut == mutBool || mut == mutKey || tries >= 5 {
				b = nb
				break
			}
		}
	}
	o.Count("txpaths:mut:" + mut)
	rep := rn.ask(k, "tx", "T "+hx.Hex(b))
	if txPathsModelled {
		rn.o.Line("txpaths "+hx.Hex(b), tiePaths(rep.obs))
	}
	o.Seen(fmt.Sprintf("txpaths/%s/%x", mut, hashShort(b)))
}

// tiePaths keeps the two paths the model has (frombytes, stream) of a full paths observation.
func tiePaths(obs string) string {
	f := strings.Fields(obs)
	if len(f) >= 3 && f[0] == "paths" {
		return f[0] + " " + f[1] + " " + f[2]
	}
	return obs
}

var txPathsModelled = true

func (rn *runner) randomCase(k int, r *prng.R) {
	c := pickCodec(r)
	n := r.Intn(48)
	if r.Chance(1, 10) {
		n = r.Intn(400)
	}
	b := r.Bytes(n)
	if n > 0 && r.Bool() {
		b[0] = byte(r.Intn(0x50)) // most type tags are small
	}
	rn.o.Count("mut:" + mutRandom)
	rn.bytesCase(k, c, b)
	rn.o.Seen(fmt.Sprintf("%s/random/%x", c.name, hashShort(b)))
}

func main() {
	isWorker := flag.Bool("worker", false, "internal: run as the decoding child process")
	f := hx.ParseFlags()
	if *isWorker {
		runWorker()
		return
	}
	if pf := os.Getenv("WIRE_PROF"); pf != "" {
		fh, _ := os.Create(pf)
		pprof.StartCPUProfile(fh)
		defer pprof.StopCPUProfile()
	}
	o := hx.NewOut(f.Out)
	defer o.Close()
	initCodecs()
	rn := &runner{o: o, w: startWorker()}
	defer func() { rn.w.stop() }()
	if rf, err := os.Create(filepath.Join(f.Out, "requests.txt")); err == nil {
		rn.req = bufio.NewWriterSize(rf, 1<<16)
		defer func() { rn.req.Flush(); rf.Close() }()
	}

	corpus := buildCorpus(f.Tier == "thorough")
	n := f.N(6000, 200000)
	defer func() {
		if os.Getenv("WIRE_DUMP") != "" {
			fmt.Fprintf(os.Stderr, "ask total %v %v\n", askTotal, askByCodec)
		}
	}()
	for k := 0; k < len(corpus)+n; k++ {
		if !f.Want(k) {
			continue
		}
		o.Case(k)
		if k < len(corpus) {
			corpus[k](rn, k)
			o.Count("case:corpus")
			continue
		}
		r := prng.ForCase(f.Seed, k)
		switch r.Weighted([]int{8, 36, 10, 10, 10, 8, 4, 6, 5, 3, 5}) {
		case 0:
			rn.varuintCase(k, r)
			o.Count("case:varuint")
		case 1:
			rn.codecCase(k, r)
			o.Count("case:codec")
		case 2:
			rn.txPathCase(k, r)
			o.Count("case:txpaths")
		case 3:
			rn.randomCase(k, r)
			o.Count("case:random-bytes")
		case 4:
			switch r.Intn(8) {
			case 6, 7:
				rn.objCase(k, r)
				o.Count("case:object-methods")
			case 0, 1:
				rn.reuseCase(k, r)
				o.Count("case:reuse")
			case 2:
				rn.arraySizeCase(k, r)
				o.Count("case:array-size")
			default:
				rn.copyCase(k, r)
				o.Count("case:copy")
			}
		case 5:
			rn.storedCase(k, r)
			o.Count("case:stored-form")
		case 6:
			rn.dagCase(k, r)
			o.Count("case:item-dag")
		case 7:
			rn.jsonCase(k, r)
			o.Count("case:item-json")
		case 8:
			rn.entryCase(k, r)
			o.Count("case:entry-points")
		case 9:
			rn.scopesCase(k, r)
			o.Count("case:json-values")
		default:
			rn.msgObjCase(k, r)
			o.Count("case:message-object")
		}
	}
}
