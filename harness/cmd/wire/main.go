// Command wire: correspondence + oracle stream for the binary codecs (C17).
package main

import (
	"bytes"
	"fmt"

	"github.com/nspcc-dev/neo-go/pkg/io"

	"verif/harness/internal/hx"
	"verif/harness/internal/prng"
)

var boundaries = []uint64{0, 1, 0xfc, 0xfd, 0xfe, 0xff, 0x100, 0xfffe, 0xffff, 0x10000, 0xfffffffe, 0xffffffff, 0x100000000, 1<<63 - 1, 1 << 63, 1<<64 - 1}

func genUint(r *prng.R) uint64 {
	switch r.Intn(4) {
	case 0:
		return boundaries[r.Intn(len(boundaries))]
	case 1:
		return boundaries[r.Intn(len(boundaries))] + uint64(r.Intn(3)) - 1
	case 2:
		return r.U64() >> uint(r.Intn(64))
	default:
		return uint64(r.Intn(70000))
	}
}

func main() {
	f := hx.ParseFlags()
	o := hx.NewOut(f.Out)
	defer o.Close()
	n := f.N(2000, 200000)
	for k := 0; k < n; k++ {
		if !f.Want(k) {
			continue
		}
		r := prng.ForCase(f.Seed, k)
		o.Case(k)
		// value -> bytes
		v := genUint(r)
		w := io.NewBufBinWriter()
		w.WriteVarUint(v)
		enc := w.Bytes()
		o.Line(fmt.Sprintf("putvaruint %d", v), hx.Hex(enc))
		// GetVarSize is defined for collection lengths (int); beyond 32 bits it is not used.
		if v <= 0xffffffff && io.GetVarSize(v) != len(enc) {
			o.Fail("varuint-size", k, "GetVarSize(%d)=%d, encoding has %d bytes", v, io.GetVarSize(v), len(enc))
		}
		// bytes -> value (valid encoding with a tail, mutated, or random)
		var b []byte
		switch r.Intn(4) {
		case 0:
			b = append(append([]byte{}, enc...), r.Bytes(r.Intn(3))...)
			o.Count("read:valid+tail")
		case 1: // non-minimal form of a small value
			forms := [][]byte{{0xfd, byte(v), 0}, {0xfe, byte(v), 0, 0, 0}, {0xff, byte(v), 0, 0, 0, 0, 0, 0, 0}}
			b = forms[r.Intn(3)]
			o.Count("read:non-minimal")
		case 2: // truncated
			b = append([]byte{}, enc...)
			b = b[:r.Intn(len(b)+1)]
			o.Count("read:truncated")
		default:
			b = r.Bytes(r.Intn(11))
			o.Count("read:random")
		}
		br := io.NewBinReaderFromBuf(b)
		got := br.ReadVarUint()
		obs := "err"
		if br.Err == nil {
			rest := b[len(b)-br.Len():]
			obs = fmt.Sprintf("ok %d %s", got, hx.Hex(rest))
			// oracle: re-encoding decodes to the same value
			w2 := io.NewBufBinWriter()
			w2.WriteVarUint(got)
			r2 := io.NewBinReaderFromBuf(w2.Bytes())
			if again := r2.ReadVarUint(); r2.Err != nil || again != got {
				o.Fail("varuint-reencode", k, "decode(encode(%d)) = %d err=%v", got, again, r2.Err)
			}
		}
		o.Line("readvaruint "+hx.Hex(b), obs)
		// oracle: round trip of the generated value
		rr := io.NewBinReaderFromBuf(enc)
		if back := rr.ReadVarUint(); rr.Err != nil || back != v || rr.Len() != 0 {
			o.Fail("varuint-roundtrip", k, "v=%d enc=%x back=%d", v, enc, back)
		}
		o.Seen(fmt.Sprintf("%d/%x", v, b))
		if k < 3 {
			o.Sample(fmt.Sprintf("putvaruint %d -> %x ; readvaruint %x -> %s", v, enc, b, obs))
		}
		_ = bytes.Equal
	}
}
