package main

// One network.Message OBJECT through several serialisations (Message.BytesCompressed with compression allowed or
// not, in any order) — fresh, or decoded from a plain / compressed frame. The flags byte is a field of the object:
// it is set by Decode and by every serialisation, so a later serialisation sees what an earlier one left
// (server.go iteratePeersWithSendMsg serialises one message twice: compressed, then plain for a peer without the
// capability). Oracles on the real code:
//   message-flag-form   bit 0 of the flags byte written <=> the payload bytes written are the LZ4 form
//                       (and: compressed <=> allowed, compressible type, over CompressionMinSize)
//   message-reencode    every frame written decodes to the command and payload of the object
// and every serialisation is one tie line against the Lean object (Model/Wire/MsgObj.lean: `msgo ...`).
// The LZ4 block decoder refusing the node's own compressed output (known finding message-lz4-roundtrip) is told
// apart by the same payload in a FRESH message: if that compressed frame is refused too, it is the known class.

import (
	"bytes"
	"fmt"
	"strings"

	"github.com/nspcc-dev/neo-go/pkg/core/transaction"
	"github.com/nspcc-dev/neo-go/pkg/io"
	"github.com/nspcc-dev/neo-go/pkg/network"
	"github.com/nspcc-dev/neo-go/pkg/network/payload"
	"github.com/nspcc-dev/neo-go/pkg/util"

	"verif/harness/internal/hx"
	"verif/harness/internal/prng"
)

func payloadBody(p payload.Payload) ([]byte, error) {
	w := io.NewBufBinWriter()
	p.EncodeBinary(w.BinWriter)
	if w.Err != nil {
		return nil, w.Err
	}
	return w.Bytes(), nil
}

// frameParts splits a frame the encoder wrote into flags, command and the payload bytes as sent.
func frameParts(f []byte) (flags, cmd byte, raw []byte, ok bool) {
	if len(f) < 3 {
		return 0, 0, nil, false
	}
	r := io.NewBinReaderFromBuf(f[2:])
	n := r.ReadVarUint()
	if r.Err != nil || n != uint64(r.Len()) {
		return 0, 0, nil, false
	}
	raw = make([]byte, n)
	r.ReadBytes(raw)
	return f[0], f[1], raw, r.Err == nil
}

func hashesN(g *G, n int) []util.Uint256 {
	hs := make([]util.Uint256, n)
	for i := range hs {
		hs[i] = g.u256()
	}
	return hs
}

func compressibleType(p payload.Payload) bool {
	switch p.(type) {
	case *payload.Headers, *payload.MerkleBlock, payload.NullPayload, *payload.Inventory, *payload.MPTInventory:
		return false
	}
	return true
}

func decodeMessage(sr bool, f []byte) (*network.Message, error) {
	m := &network.Message{StateRootInHeader: sr}
	r := io.NewBinReaderFromBuf(f)
	if err := m.Decode(r); err != nil {
		return nil, err
	}
	if r.Len() != 0 {
		return nil, fmt.Errorf("%d bytes left", r.Len())
	}
	return m, nil
}

// bigMessage: a valid message whose payload is surely over CompressionMinSize (both compressible and not).
func bigMessage(g *G, sr bool) *network.Message {
	r := g.r
	fill := func(n int) []byte {
		switch r.Intn(3) {
		case 0:
			return bytes.Repeat([]byte{byte(r.Intn(256))}, n)
		case 1:
			pat := r.Bytes(1 + r.Intn(24))
			return bytes.Repeat(pat, n/len(pat)+1)[:n]
		default:
			return r.Bytes(n)
		}
	}
	switch r.Intn(6) {
	case 0:
		return network.NewMessage(network.CMDMPTData, &payload.MPTData{Nodes: [][]byte{fill(1025 + r.Intn(3000)), fill(r.Intn(80))}})
	case 1:
		e := g.extensible()
		e.Data = fill(1025 + r.Intn(4000))
		return network.NewMessage(network.CMDExtensible, e)
	case 2:
		t := g.tx()
		t.Script = fill(1025 + r.Intn(3000))
		tb, err := encBytes(t)
		if err != nil {
			return network.NewMessage(network.CMDTX, g.tx())
		}
		t2, err := transaction.NewTransactionFromBytes(tb)
		if err != nil {
			return network.NewMessage(network.CMDTX, g.tx())
		}
		return network.NewMessage(network.CMDTX, t2)
	case 3: // not compressible, over the size
		inv := payload.NewInventory(payload.TXType, hashesN(g, 33+r.Intn(60)))
		return network.NewMessage([]network.CommandType{network.CMDInv, network.CMDGetData, network.CMDNotFound}[r.Intn(3)], inv)
	case 4: // not compressible, over the size
		return network.NewMessage(network.CMDGetMPTData, payload.NewMPTInventory(hashesN(g, payload.MaxMPTHashesCount)))
	default:
		// exactly at the boundary: CompressionMinSize and one more byte of payload
		n := network.CompressionMinSize - 4 + r.Intn(2) // MPTData{1 node}: 1 (count) + 3 (length prefix fd xx xx) + n
		return network.NewMessage(network.CMDMPTData, &payload.MPTData{Nodes: [][]byte{fill(n)}})
	}
}

// hardBlob: n bytes LZ4 gains little or nothing on: 0 high entropy, 1 high entropy with one short run (gain of a
// few bytes), 2 high entropy with a run sized so that the gain is around the 64 bytes other nodes use as the
// threshold of keeping the compressed form, 3 high entropy then a long run (the LZ4 decoder defect class).
func hardBlob(r *prng.R, n, class int) []byte {
	b := r.Bytes(n)
	run := 0
	switch class {
	case 1:
		run = 8 + r.Intn(24)
	case 2:
		run = 56 + r.Intn(40)
	case 3:
		run = 200 + r.Intn(200)
	}
	if run > 0 && run < n {
		at := r.Intn(n - run + 1)
		x := byte(r.Intn(256))
		for i := 0; i < run; i++ {
			b[at+i] = x
		}
	}
	return b
}

// hardMessage: every payload type that may be compressed, over CompressionMinSize, filled with hardBlob bytes
// (accounts, hashes and keys of the generator are random too).
func hardMessage(g *G, sr bool) (*network.Message, string) {
	r := g.r
	class := r.Intn(4)
	n := network.CompressionMinSize + 1 + r.Intn(3000)
	if r.Chance(1, 4) {
		n = network.CompressionMinSize + 1 + r.Intn(80) // just over the size
	}
	reTx := func(t *transaction.Transaction) *transaction.Transaction {
		b, err := encBytes(t)
		if err != nil {
			return nil
		}
		t2, err := transaction.NewTransactionFromBytes(b)
		if err != nil {
			return nil
		}
		return t2
	}
	kind := r.Intn(6)
	name := fmt.Sprintf("%s/%d", []string{"mptdata", "extensible", "tx", "block", "notary", "addr"}[kind], class)
	switch kind {
	case 0:
		nodes := [][]byte{hardBlob(r, n, class)}
		for i := r.Intn(3); i > 0; i-- {
			nodes = append(nodes, hardBlob(r, 40+r.Intn(600), class))
		}
		return network.NewMessage(network.CMDMPTData, &payload.MPTData{Nodes: nodes}), name
	case 1:
		e := g.extensible()
		e.Data = hardBlob(r, n, class)
		return network.NewMessage(network.CMDExtensible, e), name
	case 2:
		t := g.tx()
		t.Script = hardBlob(r, n, class)
		if t2 := reTx(t); t2 != nil {
			return network.NewMessage(network.CMDTX, t2), name
		}
	case 3:
		b := g.block(sr)
		t := g.tx()
		t.Script = hardBlob(r, n, class)
		if t2 := reTx(t); t2 != nil {
			b.Transactions = append(b.Transactions, t2)
			b.RebuildMerkleRoot()
			return network.NewMessage(network.CMDBlock, b), name
		}
	case 4:
		nr := g.notaryRequest()
		nr.MainTransaction.Script = hardBlob(r, n, class)
		if b, err := encBytes(nr); err == nil {
			nr2 := &payload.P2PNotaryRequest{}
			rd := io.NewBinReaderFromBuf(b)
			nr2.DecodeBinary(rd)
			if rd.Err == nil {
				return network.NewMessage(network.CMDP2PNotaryRequest, nr2), name
			}
		}
	default:
		cnt := 50 + r.Intn(payload.MaxAddrsCount-49)
		l := payload.NewAddressList(cnt)
		for i := range l.Addrs {
			a := &payload.AddressAndTime{Timestamp: g.u32(), Capabilities: g.capabilities()}
			copy(a.IP[:], r.Bytes(16))
			l.Addrs[i] = a
		}
		return network.NewMessage(network.CMDAddr, l), name
	}
	return network.NewMessage(network.CMDMPTData, &payload.MPTData{Nodes: [][]byte{hardBlob(r, n, class)}}), "mptdata/" + fmt.Sprint(class)
}

func (rn *runner) msgObjCase(k int, r *prng.R) {
	o := rn.o
	defer func() {
		if p := recover(); p != nil {
			o.Fail("msgobj-panic", k, "serialising one Message object several times panicked: %v", p)
		}
	}()
	g := newG(r)
	g.allowInvalid, g.big = false, false
	sr := r.Bool()
	var fresh *network.Message
	switch r.Intn(5) {
	case 0, 1:
		var name string
		fresh, name = hardMessage(g, sr)
		o.Count("msgobj:hard:" + name)
	case 2:
		fresh = bigMessage(g, sr)
	default:
		fresh = g.message(sr)
	}
	if g.invalid {
		o.Count("msgobj:skipped-invalid")
		return
	}
	fresh.StateRootInHeader = sr
	rn.msgObjRun(k, r, sr, fresh, 2+r.Intn(4), func() bool { return r.Bool() }, r.Intn(4), byte(r.Intn(128))<<1)
}

// msgObjRun: start 0 fresh, 1 decoded from the plain frame, 2 decoded from the compressed frame (when there is one),
// 3 decoded from a frame with other flag bits set (upper: bits 1..7).
func (rn *runner) msgObjRun(k int, r *prng.R, sr bool, fresh *network.Message, steps int, allowAt func() bool, start int, upper byte) {
	o := rn.o
	srTok := map[bool]string{false: "0", true: "1"}[sr]
	body, err := payloadBody(fresh.Payload)
	if err != nil {
		o.Count("msgobj:unencodable")
		return
	}
	want := showMessage(fresh)
	canCompress := compressibleType(fresh.Payload) && len(body) > network.CompressionMinSize
	// is the LZ4 pair sound on this payload (known finding if not)?
	lz4ok := true
	var freshZ []byte
	if canCompress {
		freshZ, err = network.NewMessage(fresh.Command, fresh.Payload).Bytes()
		if err != nil {
			o.Fail("message-encode-fails", k, "%v", err)
			return
		}
		if d, err := decodeMessage(sr, freshZ); err != nil || showMessage(d) != want {
			lz4ok = false
			o.Count("msgobj:lz4-refused")
			if err == nil || !strings.Contains(err.Error(), "lz4:") {
				o.Fail("message-reencode", k, "the compressed frame of a fresh valid message (command %#x, payload %d bytes, sent %d bytes) does not decode to it: %v", byte(fresh.Command), len(body), len(freshZ), err)
			}
		}
		// how much LZ4 gains on this payload (sent bytes vs payload bytes)
		if _, _, rawZ, ok := frameParts(freshZ); ok {
			switch gain := len(body) - len(rawZ); {
			case gain <= 0:
				o.Count("msgobj:gain:none(incompressible)")
			case gain < 64:
				o.Count("msgobj:gain:under-64")
			case gain < 128:
				o.Count("msgobj:gain:64-127")
			default:
				o.Count("msgobj:gain:128+")
			}
		}
	}
	m := fresh
	desc := "fresh"
	switch {
	case start == 1 || (start == 2 && !(canCompress && lz4ok)):
		f, err := network.NewMessage(fresh.Command, fresh.Payload).BytesCompressed(false)
		if err != nil {
			o.Fail("message-encode-fails", k, "%v", err)
			return
		}
		d, err := decodeMessage(sr, f)
		if err != nil {
			o.Fail("message-reencode", k, "the plain frame of a valid message is refused: %v (%d bytes %s)", err, len(f), trunc(hx.Hex(f), 120))
			return
		}
		m, desc = d, "decoded(plain)"
		o.Line("msgo dec "+srTok+" "+hx.Hex(f), fmt.Sprintf("ok flags=%d", byte(m.Flags)))
	case start == 2:
		d, err := decodeMessage(sr, freshZ)
		if err != nil {
			return
		}
		m, desc = d, "decoded(compressed)"
		o.Line(fmt.Sprintf("msgo set %s %d %d %s", srTok, byte(m.Flags), byte(m.Command), hx.Hex(body)), "ok")
	case start == 3:
		var f []byte
		if canCompress && lz4ok && r.Bool() {
			f = append([]byte{}, freshZ...)
			f[0] = upper | 1
		} else {
			f, _ = network.NewMessage(fresh.Command, fresh.Payload).BytesCompressed(false)
			f[0] = upper
		}
		d, err := decodeMessage(sr, f)
		if err != nil {
			o.Fail("message-reencode", k, "a frame with flags %#x is refused: %v", f[0], err)
			return
		}
		m, desc = d, fmt.Sprintf("decoded(flags %#x)", f[0])
		o.Line(fmt.Sprintf("msgo set %s %d %d %s", srTok, byte(m.Flags), byte(m.Command), hx.Hex(body)), "ok")
	default:
		o.Line(fmt.Sprintf("msgo set %s 0 %d %s", srTok, byte(m.Command), hx.Hex(body)), "ok")
	}
	o.Count("msgobj:start:" + map[bool]string{true: "decoded", false: "fresh"}[m != fresh])
	hist := desc
	for i := 0; i < steps; i++ {
		allow := allowAt()
		hist += map[bool]string{true: " Z", false: " P"}[allow]
		before := byte(m.Flags)
		f, err := m.BytesCompressed(allow)
		if err != nil {
			o.Fail("message-encode-fails", k, "%s: %v", hist, err)
			return
		}
		flags, cmd, raw, ok := frameParts(f)
		if !ok || cmd != byte(m.Command) {
			o.Fail("message-flag-form", k, "%s: the frame written is not flags, command, var-bytes: %s", hist, trunc(hx.Hex(f), 120))
			return
		}
		plain := bytes.Equal(raw, body)
		form := "plain"
		if !plain {
			form = "lz4"
		}
		if plain {
			o.Line("msgo enc "+map[bool]string{true: "1", false: "0"}[allow], fmt.Sprintf("flags=%d form=plain frame=%s", flags, hx.Hex(f)))
		} else {
			o.Line("msgo enc "+map[bool]string{true: "1", false: "0"}[allow], fmt.Sprintf("flags=%d form=lz4 body=%s", flags, hx.Hex(body)))
		}
		o.Count("msgobj:enc:" + form)
		if (flags&1 != 0) == plain {
			o.Fail("message-flag-form", k, "%s: flags byte %#x (object flags before: %#x) over a payload in the %s form (command %#x, payload %d bytes, sent %d bytes)",
				hist, flags, before, form, cmd, len(body), len(raw))
		}
		if (allow && canCompress) == plain {
			o.Fail("message-flag-form", k, "%s: allowCompression=%v, compressible payload over %d bytes: %v, but the payload is sent in the %s form (object flags before: %#x)",
				hist, allow, network.CompressionMinSize, canCompress, form, before)
		}
		if flags&0xfe != before&0xfe || byte(m.Flags) != flags {
			o.Fail("message-flag-form", k, "%s: flags before %#x, written %#x, in the object afterwards %#x", hist, before, flags, byte(m.Flags))
		}
		d, err := decodeMessage(sr, f)
		if err != nil || showMessage(d) != want {
			// a frame in the compressed form under the Compressed flag whose payload is accepted in the plain form: the
			// only thing between the two is network.compress / decompress (their output differs from call to call), i.e.
			// the known LZ4 decoder defect
			lz4class := false
			// (only the LZ4 library's own refusal counts: any other decoding error of a compressed frame — a size that
			// does not match the header, a truncated block — is the node's framing)
			if !plain && flags&1 != 0 && err != nil && strings.Contains(err.Error(), "lz4:") {
				if pf, e2 := network.NewMessage(fresh.Command, fresh.Payload).BytesCompressed(false); e2 == nil {
					if pd, e3 := decodeMessage(sr, pf); e3 == nil && showMessage(pd) == want {
						lz4class = true
					}
				}
			}
			if lz4class {
				o.Count("msgobj:lz4-known")
				o.Fail("message-lz4-roundtrip", k, "%s: the compressed frame of a valid payload (%d bytes, accepted in the plain form) is refused by Message.Decode: %v", hist, len(body), err)
			} else {
				o.Fail("message-reencode", k, "%s: the frame written (flags %#x, %s form, command %#x, payload %d bytes) does not decode to the message: %v", hist, flags, form, cmd, len(body), err)
			}
			return
		}
	}
	o.Seen(fmt.Sprintf("msgobj/%d/%v/%d", start, canCompress, steps))
}

// msgObjCorpus: the two sequences of 817a9b3 on fixed payloads, every start state, both orders.
func msgObjCorpus() []corpusCase {
	var cs []corpusCase
	cs = append(cs, func(rn *runner, k int) {
		r := prng.New(817)
		g := newG(r)
		g.allowInvalid, g.big = false, false
		ext := g.extensible()
		ext.Data = bytes.Repeat([]byte{0x5a}, 3000)
		msgs := []*network.Message{
			network.NewMessage(network.CMDExtensible, ext),
			network.NewMessage(network.CMDMPTData, &payload.MPTData{Nodes: [][]byte{bytes.Repeat([]byte{1, 2, 3, 4}, 400)}}),
			network.NewMessage(network.CMDMPTData, &payload.MPTData{Nodes: [][]byte{bytes.Repeat([]byte{7}, network.CompressionMinSize-4)}}), // exactly CompressionMinSize
			network.NewMessage(network.CMDMPTData, &payload.MPTData{Nodes: [][]byte{bytes.Repeat([]byte{7}, network.CompressionMinSize-3)}}), // one more
			network.NewMessage(network.CMDInv, payload.NewInventory(payload.BlockType, hashesN(g, 64))),
			network.NewMessage(network.CMDPing, &payload.Ping{LastBlockIndex: 1, Timestamp: 2, Nonce: 3}),
			network.NewMessage(network.CMDVerack, payload.NewNullPayload()),
		}
		orders := [][]bool{{true, false}, {false, true}, {true, true, false, true}, {false, false}}
		for _, m0 := range msgs {
			for start := 0; start < 4; start++ {
				for _, ord := range orders {
					i := 0
					ord := ord
					m := network.NewMessage(m0.Command, m0.Payload)
					rn.msgObjRun(k, r, false, m, len(ord), func() bool { i++; return ord[i-1] }, start, 0x80)
				}
			}
		}
	})
	// every payload type that may be compressed x every blob class (incompressible .. gain around 64 bytes), as a
	// fresh object and as one decoded from its own compressed frame
	cs = append(cs, func(rn *runner, k int) {
		r := prng.New(818)
		for i := 0; i < 72; i++ {
			g := newG(r)
			g.allowInvalid, g.big = false, false
			m, name := hardMessage(g, false)
			if g.invalid {
				continue
			}
			rn.o.Count("msgobj:hard:" + name)
			ord := [][]bool{{true, false}, {false, true, true}}[i%2]
			j := 0
			rn.msgObjRun(k, r, false, m, len(ord), func() bool { j++; return ord[j-1] }, []int{0, 2}[(i/2)%2], 0)
		}
	})
	return cs
}
