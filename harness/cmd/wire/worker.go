package main

import (
	"bufio"
	"encoding/hex"
	"fmt"
	"io"
	"os"
	"os/exec"
	"runtime/debug"
	"strings"
	"syscall"
	"time"
)

// The real decoders run in a child process: a decoder that hangs, exhausts memory (a fatal runtime error,
// not a panic) or overflows the stack takes the child down, not the harness; the parent records the
// failure and starts a new child.
//
//	parent -> child:  B <codec> <hex>      generic oracle on one decoder
//	                  T <hex>              transaction arrival paths
//	child -> parent:  F <key> <message>    oracle failure (0..n)
//	                  C <counter>          distribution counter (0..n)
//	                  O <observation>      last line of the answer

const (
	workerAddrSpace = 10 << 30 // RLIMIT_AS of the child
	workerTimeout   = 300 * time.Second // wall clock, generous: the machine is shared (CPU time is what the oracle limits)
)

func runWorker() {
	_ = syscall.Setrlimit(syscall.RLIMIT_AS, &syscall.Rlimit{Cur: workerAddrSpace, Max: workerAddrSpace})
	debug.SetMemoryLimit(3 << 30)
	debug.SetMaxStack(256 << 20)
	initCodecs()
	in := bufio.NewReaderSize(os.Stdin, 1<<20)
	out := bufio.NewWriterSize(os.Stdout, 1<<20)
	for {
		line, err := in.ReadString('\n')
		if line == "" && err != nil {
			return
		}
		f := strings.Fields(line)
		rep := &report{}
		switch {
		case len(f) == 3 && f[0] == "B":
			c := codecByName[f[1]]
			b, ok := unhex(f[2])
			if c == nil || !ok {
				rep.obs = "bad-request"
				break
			}
			checkBytes(c, b, rep)
		case len(f) == 2 && f[0] == "T":
			b, ok := unhex(f[1])
			if !ok {
				rep.obs = "bad-request"
				break
			}
			checkTxPaths(b, rep)
		default:
			rep.obs = "bad-request"
		}
		for _, fl := range rep.fails {
			fmt.Fprintf(out, "F %s %s\n", fl[0], oneLine(fl[1]))
		}
		for _, c := range rep.counts {
			fmt.Fprintf(out, "C %s\n", c)
		}
		fmt.Fprintf(out, "O %s\n", oneLine(rep.obs))
		out.Flush()
		if err != nil {
			return
		}
	}
}

func oneLine(s string) string {
	return strings.ReplaceAll(strings.ReplaceAll(s, "\n", "\\n"), "\r", "\\r")
}

func unhex(s string) ([]byte, bool) {
	if s == "-" {
		return []byte{}, true
	}
	b, err := hex.DecodeString(s)
	return b, err == nil
}

type worker struct {
	cmd *exec.Cmd
	in  io.WriteCloser
	out *bufio.Reader
}

func startWorker() *worker {
	exe, err := os.Executable()
	if err != nil {
		panic(err)
	}
	cmd := exec.Command(exe, "-worker", "-out", os.DevNull)
	cmd.Stderr = io.Discard
	in, err := cmd.StdinPipe()
	if err != nil {
		panic(err)
	}
	outp, err := cmd.StdoutPipe()
	if err != nil {
		panic(err)
	}
	if err := cmd.Start(); err != nil {
		panic(err)
	}
	return &worker{cmd: cmd, in: in, out: bufio.NewReaderSize(outp, 1<<20)}
}

func (w *worker) stop() {
	w.in.Close()
	done := make(chan struct{})
	go func() { w.cmd.Wait(); close(done) }()
	select {
	case <-done:
	case <-time.After(2 * time.Second):
		w.cmd.Process.Kill()
		<-done
	}
}

// ask sends one request; died is "crash" or "hang" when the child did not answer.
func (w *worker) ask(req string) (rep *report, died string) {
	rep = &report{}
	if _, err := io.WriteString(w.in, req+"\n"); err != nil {
		return rep, "crash"
	}
	type res struct {
		line string
		err  error
	}
	ch := make(chan res, 1)
	timer := time.NewTimer(workerTimeout)
	defer timer.Stop()
	for {
		go func() {
			l, err := w.out.ReadString('\n')
			ch <- res{l, err}
		}()
		select {
		case r := <-ch:
			if r.err != nil {
				return rep, "crash"
			}
			l := strings.TrimRight(r.line, "\n")
			switch {
			case strings.HasPrefix(l, "F "):
				p := strings.SplitN(l[2:], " ", 2)
				msg := ""
				if len(p) > 1 {
					msg = p[1]
				}
				rep.fails = append(rep.fails, [2]string{p[0], msg})
			case strings.HasPrefix(l, "C "):
				rep.counts = append(rep.counts, l[2:])
			case strings.HasPrefix(l, "O "):
				rep.obs = l[2:]
				return rep, ""
			case l == "O":
				return rep, ""
			}
		case <-timer.C:
			w.cmd.Process.Kill()
			return rep, "hang"
		}
	}
}
