package main

// Cache coherence and size laws on the real code (C17: "cached hash/size fields — set at decode time, must equal what
// encoding yields"; "its reported size equals the length of its encoding"):
//
//   - reuse: an object that already answered Hash()/Size() is decoded INTO again (DecodeBinary on a used object):
//     afterwards it must be indistinguishable from a fresh decode of the same bytes — same Hash(), Size(), bytes,
//     content — for every type that caches its hash or size (transaction, header, block, extensible payload,
//     consensus payload, P2P notary request) and, for uniformity, the ones that do not (state root);
//   - io.GetVarSize of a collection = the number of bytes WriteArray writes for it, for every element type the code
//     serialises with WriteArray.

import (
	"bytes"
	"fmt"

	"github.com/nspcc-dev/neo-go/pkg/consensus"
	"github.com/nspcc-dev/neo-go/pkg/core/block"
	"github.com/nspcc-dev/neo-go/pkg/core/state"
	"github.com/nspcc-dev/neo-go/pkg/core/transaction"
	"github.com/nspcc-dev/neo-go/pkg/io"
	"github.com/nspcc-dev/neo-go/pkg/network/payload"
	"github.com/nspcc-dev/neo-go/pkg/smartcontract/nef"
	"github.com/nspcc-dev/neo-go/pkg/util"

	"verif/harness/internal/hx"
	"verif/harness/internal/prng"
)

type hasher interface{ Hash() util.Uint256 }

// reusable: the types with a hash (and how to make a fresh object and valid bytes of it).
type reusable struct {
	name  string
	fresh func() io.Serializable
	bytes func(g *G) []byte
	size  func(v io.Serializable) int // -1: the type reports none
}

func reusables() []reusable {
	enc := func(v io.Serializable) []byte { b, _ := encBytes(v); return b }
	none := func(io.Serializable) int { return -1 }
	rs := []reusable{
		{"tx", func() io.Serializable { return &transaction.Transaction{} }, func(g *G) []byte { return enc(g.tx()) },
			func(v io.Serializable) int { return v.(*transaction.Transaction).Size() }},
		{"extensible", func() io.Serializable { return payload.NewExtensible() }, func(g *G) []byte { return enc(g.extensible()) }, none},
		{"stateroot", func() io.Serializable { return &state.MPTRoot{} }, func(g *G) []byte { return enc(g.stateRoot()) }, none},
		{"notaryreq", func() io.Serializable { return &payload.P2PNotaryRequest{} }, func(g *G) []byte { return enc(g.notaryRequest()) }, none},
	}
	for _, sr := range []bool{false, true} {
		sr := sr
		suf := map[bool]string{false: "0", true: "1"}[sr]
		rs = append(rs,
			reusable{"header" + suf, func() io.Serializable { return &block.Header{StateRootEnabled: sr} }, func(g *G) []byte { return enc(g.header(sr)) }, none},
			reusable{"block" + suf, func() io.Serializable { return block.New(sr) }, func(g *G) []byte { return enc(g.block(sr)) },
				func(v io.Serializable) int { return v.(*block.Block).GetExpectedBlockSize() }},
			reusable{"consensus" + suf, func() io.Serializable { return consensus.NewPayload(0, sr) }, func(g *G) []byte {
				b, _ := genConsensusBytes(g, sr)
				return wrapConsensus(b)
			}, none})
	}
	return rs
}

func decodeInto(v io.Serializable, b []byte) error {
	r := io.NewBinReaderFromBuf(b)
	v.DecodeBinary(r)
	return r.Err
}

func (rn *runner) reuseCase(k int, r *prng.R) {
	o := rn.o
	defer func() {
		if p := recover(); p != nil {
			o.Fail("reuse-panic", k, "decoding into a used object panicked: %v", p)
		}
	}()
	rs := reusables()
	t := rs[r.Intn(len(rs))]
	g := newG(r)
	g.allowInvalid, g.big = false, false
	g.light = true
	b1 := t.bytes(g)
	b2 := t.bytes(g)
	if g.invalid || len(b1) == 0 || len(b2) == 0 {
		return
	}
	ref := t.fresh()
	if err := decodeInto(ref, b2); err != nil {
		o.Count("reuse:undecodable")
		return
	}
	x := t.fresh()
	if err := decodeInto(x, b1); err != nil {
		o.Count("reuse:undecodable")
		return
	}
	// fill the caches of the used object in one of the ways the node does
	how := []string{"decoded", "hash", "hash+size+bytes"}[r.Intn(3)]
	if how != "decoded" {
		_ = x.(hasher).Hash()
	}
	if how == "hash+size+bytes" {
		_ = t.size(x)
		_, _ = encBytes(x)
	}
	if err := decodeInto(x, b2); err != nil {
		o.Fail(t.name+"-reuse-rejects", k, "bytes a fresh object decodes are rejected by a used one (%s): %v", how, err)
		return
	}
	hx1, hr := x.(hasher).Hash(), ref.(hasher).Hash()
	if hx1 != hr {
		o.Fail(t.name+"-reuse-stale-hash", k, "object (%s) decoded into again: Hash() = %s, a fresh decode of the same bytes has %s",
			how, hx1.StringBE(), hr.StringBE())
	}
	if sx, sr := t.size(x), t.size(ref); sx != sr {
		o.Fail(t.name+"-reuse-stale-size", k, "object (%s) decoded into again: size %d, a fresh decode of the same bytes has %d", how, sx, sr)
	}
	ex, _ := encBytes(x)
	er, _ := encBytes(ref)
	if !bytes.Equal(ex, er) {
		o.Fail(t.name+"-reuse-content", k, "object (%s) decoded into again encodes differently from a fresh decode: %s vs %s",
			how, trunc(hx.Hex(ex), 120), trunc(hx.Hex(er), 120))
	}
	o.Count("reuse:" + t.name + ":" + how)
	o.Seen(fmt.Sprintf("reuse/%s/%s/%x", t.name, how, hashShort(b2)))
}

// arraySizeCase: io.GetVarSize(collection) against the bytes WriteArray writes.
func (rn *runner) arraySizeCase(k int, r *prng.R) {
	o := rn.o
	defer func() {
		if p := recover(); p != nil {
			o.Fail("getvarsize-panic", k, "GetVarSize/WriteArray panicked: %v", p)
		}
	}()
	g := newG(r)
	g.allowInvalid, g.big, g.light = false, false, true
	n := r.Intn(4)
	if r.Chance(1, 6) {
		n = []int{252, 253, 254, 300}[r.Intn(4)] // the var-int length prefix changes width
	}
	var coll any
	name := ""
	switch r.Intn(9) {
	case 0:
		v := make([]transaction.Attribute, 0, n)
		used := map[transaction.AttrType]bool{}
		for i := 0; i < n && i < 12; i++ {
			v = append(v, g.attr(used))
		}
		coll, name = v, "[]Attribute"
	case 1:
		v := make([]transaction.Signer, n)
		for i := range v {
			v[i] = g.signer()
		}
		coll, name = v, "[]Signer"
	case 2:
		v := make([]transaction.Witness, n)
		for i := range v {
			v[i] = g.witness()
		}
		coll, name = v, "[]Witness"
	case 3:
		v := make([]transaction.WitnessRule, n)
		for i := range v {
			v[i] = g.rule()
		}
		coll, name = v, "[]WitnessRule"
	case 4:
		v := make([]util.Uint256, n)
		for i := range v {
			v[i] = g.u256()
		}
		coll, name = v, "[]Uint256"
	case 5:
		v := make([]util.Uint160, n)
		for i := range v {
			v[i] = g.u160()
		}
		coll, name = v, "[]Uint160"
	case 6:
		v := make([]nef.MethodToken, n)
		for i := range v {
			v[i] = nef.MethodToken{Hash: g.u160(), Method: "m" + g.ident(), ParamCount: uint16(r.Intn(9)), HasReturn: r.Bool()}
		}
		coll, name = v, "[]MethodToken"
	case 7:
		if n > 6 {
			n = 6
		}
		v := make([]*transaction.Transaction, n)
		for i := range v {
			v[i] = g.tx()
		}
		coll, name = v, "[]*Transaction"
	default:
		v := make([]*transaction.Attribute, 0, n)
		used := map[transaction.AttrType]bool{}
		for i := 0; i < n && i < 12; i++ {
			a := g.attr(used)
			v = append(v, &a)
		}
		coll, name = v, "[]*Attribute"
	}
	w := io.NewBufBinWriter()
	w.WriteArray(coll)
	if w.Err != nil {
		o.Count("arraysize:unencodable")
		return
	}
	wrote := len(w.Bytes())
	// the model of GetVarSize's type switch: VALUE elements of types with pointer-receiver methods are "other"
	kindTok := "ptr1" // a slice of structures: addressable elements, Serializable by pointer
	if name[2] == '*' {
		kindTok = "ser"
	}
	op := "getvarsize " + kindTok
	for _, sz := range elemSizes(coll) {
		op += fmt.Sprintf(" %d", sz)
	}
	o.Line(op, fmt.Sprintf("%d", io.GetVarSize(coll)))
	if got := io.GetVarSize(coll); got != wrote {
		key := "getvarsize-slice"
		if name[2] != '*' && got == io.GetVarSize(wrote-wrote+lenOf(coll)) {
			// elements that implement io.Serializable through pointer receivers only: the reflect-based
			// GetVarSize does not recognise the VALUE elements and counts them as 0 bytes (known finding)
			key = "getvarsize-value-slice"
		}
		o.Fail(key, k, "io.GetVarSize(%s of %d elements) = %d, WriteArray writes %d bytes", name, lenOf(coll), got, wrote)
	}
	if r.Chance(1, 5) {
		// an ARRAY passed by value: its elements are not addressable, GetVarSize counts them as 0 bytes (WriteArray
		// cannot encode such a value at all: nothing to compare with, only the model)
		arr := [2]transaction.Witness{g.witness(), g.witness()}
		o.Line(fmt.Sprintf("getvarsize ptr0 %d %d", len(serBytes(&arr[0])), len(serBytes(&arr[1]))), fmt.Sprintf("%d", io.GetVarSize(arr)))
		o.Count("arraysize:[2]Witness-by-value")
	}
	o.Count("arraysize:" + name)
	o.Seen(fmt.Sprintf("arraysize/%s/%d/%d", name, lenOf(coll), wrote))
}

func lenOf(coll any) int {
	switch v := coll.(type) {
	case []transaction.Attribute:
		return len(v)
	case []transaction.Signer:
		return len(v)
	case []transaction.Witness:
		return len(v)
	case []transaction.WitnessRule:
		return len(v)
	case []util.Uint256:
		return len(v)
	case []util.Uint160:
		return len(v)
	case []nef.MethodToken:
		return len(v)
	case []*transaction.Transaction:
		return len(v)
	case []*transaction.Attribute:
		return len(v)
	}
	return 0
}

// elemSizes: the encoded size of every element.
func elemSizes(coll any) []int {
	one := func(v io.Serializable) int { b, _ := encBytes(v); return len(b) }
	var out []int
	switch v := coll.(type) {
	case []transaction.Attribute:
		for i := range v {
			out = append(out, one(&v[i]))
		}
	case []transaction.Signer:
		for i := range v {
			out = append(out, one(&v[i]))
		}
	case []transaction.Witness:
		for i := range v {
			out = append(out, one(&v[i]))
		}
	case []transaction.WitnessRule:
		for i := range v {
			out = append(out, one(&v[i]))
		}
	case []util.Uint256:
		for range v {
			out = append(out, 32)
		}
	case []util.Uint160:
		for range v {
			out = append(out, 20)
		}
	case []nef.MethodToken:
		for i := range v {
			out = append(out, one(&v[i]))
		}
	case []*transaction.Transaction:
		for i := range v {
			out = append(out, one(v[i]))
		}
	case []*transaction.Attribute:
		for i := range v {
			out = append(out, one(v[i]))
		}
	}
	return out
}

func serBytes(v io.Serializable) []byte { b, _ := encBytes(v); return b }
