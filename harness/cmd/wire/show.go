package main

// Canonical token dumps of decoded values. The Lean driver prints the same text from the model
// value (NeoModel/Model/Wire/Text.lean); the format is prefix notation, space separated, lists as
// `<n> item…`, byte strings in hex (`-` = empty), numbers in decimal.

import (
	"fmt"
	"reflect"
	"strings"
	"unsafe"

	"github.com/nspcc-dev/neo-go/pkg/core/block"
	"github.com/nspcc-dev/neo-go/pkg/core/mpt"
	"github.com/nspcc-dev/neo-go/pkg/core/state"
	"github.com/nspcc-dev/neo-go/pkg/core/transaction"
	"github.com/nspcc-dev/neo-go/pkg/crypto/keys"
	"github.com/nspcc-dev/neo-go/pkg/network/payload"
	"github.com/nspcc-dev/neo-go/pkg/smartcontract/nef"
	"github.com/nspcc-dev/neo-go/pkg/vm/stackitem"

	"verif/harness/internal/hx"
)

type sb struct{ strings.Builder }

func (s *sb) tok(t string) {
	if s.Len() > 0 {
		s.WriteByte(' ')
	}
	s.WriteString(t)
}
func (s *sb) num(n uint64)   { s.tok(fmt.Sprintf("%d", n)) }
func (s *sb) hex(b []byte)   { s.tok(hx.Hex(b)) }
func (s *sb) key(k *keys.PublicKey) { s.hex(k.Bytes()) }

func showWitness(s *sb, w *transaction.Witness) {
	s.hex(w.InvocationScript)
	s.hex(w.VerificationScript)
}

func showCond(s *sb, c transaction.WitnessCondition) {
	switch t := c.(type) {
	case *transaction.ConditionBoolean:
		if *t {
			s.tok("b1")
		} else {
			s.tok("b0")
		}
	case *transaction.ConditionNot:
		s.tok("not")
		showCond(s, t.Condition)
	case *transaction.ConditionAnd:
		s.tok("and")
		s.num(uint64(len(*t)))
		for _, x := range *t {
			showCond(s, x)
		}
	case *transaction.ConditionOr:
		s.tok("or")
		s.num(uint64(len(*t)))
		for _, x := range *t {
			showCond(s, x)
		}
	case *transaction.ConditionScriptHash:
		s.tok("sh")
		s.hex(t[:])
	case *transaction.ConditionGroup:
		s.tok("grp")
		s.key((*keys.PublicKey)(t))
	case transaction.ConditionCalledByEntry:
		s.tok("cbe")
	case *transaction.ConditionCalledByContract:
		s.tok("cbc")
		s.hex(t[:])
	case *transaction.ConditionCalledByGroup:
		s.tok("cbg")
		s.key((*keys.PublicKey)(t))
	default:
		s.tok(fmt.Sprintf("?cond:%T", c))
	}
}

func showRule(s *sb, r *transaction.WitnessRule) {
	s.num(uint64(r.Action))
	showCond(s, r.Condition)
}

func showSigner(s *sb, c *transaction.Signer) {
	s.hex(c.Account[:])
	s.num(uint64(c.Scopes))
	s.num(uint64(len(c.AllowedContracts)))
	for i := range c.AllowedContracts {
		s.hex(c.AllowedContracts[i][:])
	}
	s.num(uint64(len(c.AllowedGroups)))
	for _, k := range c.AllowedGroups {
		s.key(k)
	}
	s.num(uint64(len(c.Rules)))
	for i := range c.Rules {
		showRule(s, &c.Rules[i])
	}
}

func showAttr(s *sb, a *transaction.Attribute) {
	s.num(uint64(a.Type))
	switch v := a.Value.(type) {
	case nil:
	case *transaction.OracleResponse:
		s.num(v.ID)
		s.num(uint64(v.Code))
		s.hex(v.Result)
	case *transaction.NotValidBefore:
		s.num(uint64(v.Height))
	case *transaction.Conflicts:
		s.hex(v.Hash[:])
	case *transaction.NotaryAssisted:
		s.num(uint64(v.NKeys))
	case *transaction.Reserved:
		s.hex(v.Value)
	default:
		s.tok(fmt.Sprintf("?attr:%T", v))
	}
}

func showTx(s *sb, t *transaction.Transaction) {
	s.num(uint64(t.Version))
	s.num(uint64(t.Nonce))
	s.num(uint64(t.SystemFee))
	s.num(uint64(t.NetworkFee))
	s.num(uint64(t.ValidUntilBlock))
	s.num(uint64(len(t.Signers)))
	for i := range t.Signers {
		showSigner(s, &t.Signers[i])
	}
	s.num(uint64(len(t.Attributes)))
	for i := range t.Attributes {
		showAttr(s, &t.Attributes[i])
	}
	s.hex(t.Script)
	s.num(uint64(len(t.Scripts)))
	for i := range t.Scripts {
		showWitness(s, &t.Scripts[i])
	}
}

func showHeader(s *sb, h *block.Header) {
	s.num(uint64(h.Version))
	s.hex(h.PrevHash[:])
	s.hex(h.MerkleRoot[:])
	s.num(h.Timestamp)
	s.num(h.Nonce)
	s.num(uint64(h.Index))
	s.num(uint64(h.PrimaryIndex))
	s.hex(h.NextConsensus[:])
	if h.StateRootEnabled {
		s.hex(h.PrevStateRoot[:])
	}
	showWitness(s, &h.Script)
}

func showBlock(s *sb, b *block.Block) {
	showHeader(s, &b.Header)
	s.num(uint64(len(b.Transactions)))
	for _, t := range b.Transactions {
		showTx(s, t)
	}
}

func showStateRoot(s *sb, r *state.MPTRoot) {
	s.num(uint64(r.Version))
	s.num(uint64(r.Index))
	s.hex(r.Root[:])
	s.num(uint64(len(r.Witness)))
	for i := range r.Witness {
		showWitness(s, &r.Witness[i])
	}
}

func showExtensible(s *sb, e *payload.Extensible) {
	s.hex([]byte(e.Category))
	s.num(uint64(e.ValidBlockStart))
	s.num(uint64(e.ValidBlockEnd))
	s.hex(e.Sender[:])
	s.hex(e.Data)
	showWitness(s, &e.Witness)
}

// showNode dumps an MPT node as decoded (inline children are kept as the decoder leaves them).
func showNode(s *sb, n mpt.Node) {
	switch t := n.(type) {
	case *mpt.BranchNode:
		s.tok("br")
		for _, c := range t.Children {
			showNode(s, c)
		}
	case *mpt.ExtensionNode:
		k, next := extParts(t)
		s.tok("ext")
		s.hex(k)
		showNode(s, next)
	case *mpt.LeafNode:
		s.tok("leaf")
		s.hex(leafValue(t))
	case *mpt.HashNode:
		s.tok("hash")
		h := t.Hash()
		s.hex(h[:])
	case mpt.EmptyNode:
		s.tok("empty")
	case *mpt.NodeObject:
		showNode(s, t.Node)
	case nil:
		s.tok("nil")
	default:
		s.tok(fmt.Sprintf("?node:%T", n))
	}
}

func showNef(s *sb, n *nef.File) {
	s.hex([]byte(n.Compiler))
	s.hex([]byte(n.Source))
	s.num(uint64(len(n.Tokens)))
	for i := range n.Tokens {
		t := &n.Tokens[i]
		s.hex(t.Hash[:])
		s.hex([]byte(t.Method))
		s.num(uint64(t.ParamCount))
		if t.HasReturn {
			s.tok("1")
		} else {
			s.tok("0")
		}
		s.num(uint64(t.CallFlag))
	}
	s.hex(n.Script)
	s.num(uint64(n.Checksum))
}

// showItem dumps a stack item (maps in insertion order, as stackitem.Map keeps them).
func showItem(s *sb, it stackitem.Item, depth int) {
	if depth > 5000 {
		s.tok("?deep")
		return
	}
	switch t := it.(type) {
	case *stackitem.ByteArray:
		s.tok("ba")
		s.hex([]byte(*t))
	case *stackitem.Buffer:
		s.tok("buf")
		s.hex([]byte(*t))
	case stackitem.Bool:
		if t {
			s.tok("bool1")
		} else {
			s.tok("bool0")
		}
	case *stackitem.BigInteger:
		s.tok("int")
		s.tok(t.Big().String())
	case *stackitem.Array:
		v := t.Value().([]stackitem.Item)
		s.tok("arr")
		s.num(uint64(len(v)))
		for _, x := range v {
			showItem(s, x, depth+1)
		}
	case *stackitem.Struct:
		v := t.Value().([]stackitem.Item)
		s.tok("struct")
		s.num(uint64(len(v)))
		for _, x := range v {
			showItem(s, x, depth+1)
		}
	case *stackitem.Map:
		v := t.Value().([]stackitem.MapElement)
		s.tok("map")
		s.num(uint64(len(v)))
		for _, e := range v {
			showItem(s, e.Key, depth+1)
			showItem(s, e.Value, depth+1)
		}
	case stackitem.Null:
		s.tok("null")
	case *stackitem.Interop:
		s.tok("interop")
	case *stackitem.Pointer:
		s.tok("ptr")
		s.num(uint64(t.Position()))
	case nil:
		s.tok("invalid")
	default:
		s.tok(fmt.Sprintf("?item:%T", it))
	}
}

// extParts / leafValue read the unexported fields of MPT nodes (there are no accessors).
func extParts(e *mpt.ExtensionNode) ([]byte, mpt.Node) {
	v := reflect.ValueOf(e).Elem()
	k := v.FieldByName("key").Bytes()
	f := v.FieldByName("next")
	n, _ := reflect.NewAt(f.Type(), unsafe.Pointer(f.UnsafeAddr())).Elem().Interface().(mpt.Node)
	return k, n
}

func leafValue(l *mpt.LeafNode) []byte {
	return reflect.ValueOf(l).Elem().FieldByName("value").Bytes()
}
