package main

// The JSON (text) direction: what the JSON decoders ACCEPT must be a value of the type — one the binary form can carry
// (binary encode, then decode, gives it back) and one that survives its own JSON form. Witness scopes are modelled
// (Model/Wire/Scopes.lean: ScopesFromString / scopesToString) and compared on every text; signers, witness rules,
// conditions and transactions are driven with structurally changed JSON through the direct oracle.

import (
	"encoding/json"
	"fmt"
	"strings"

	"github.com/nspcc-dev/neo-go/pkg/core/transaction"
	"github.com/nspcc-dev/neo-go/pkg/io"

	"verif/harness/internal/hx"
	"verif/harness/internal/prng"
)

var scopeNames = []string{"None", "CalledByEntry", "CustomContracts", "CustomGroups", "WitnessRules", "Global"}

func genScopeText(r *prng.R) string {
	n := 1 + r.Intn(4)
	parts := make([]string, n)
	for i := range parts {
		p := scopeNames[r.Intn(len(scopeNames))]
		switch r.Intn(12) {
		case 0:
			p = strings.ToLower(p)
		case 1:
			p = ""
		case 2:
			p = []string{"WitnessScope(129)", "Custom", "Global ", "global", "Rule", "FeeOnly", "0x01", "1"}[r.Intn(8)]
		}
		if r.Chance(1, 3) {
			p = []string{" ", "\t", "  ", "\n", "\r\n", "\v\f"}[r.Intn(6)] + p
		}
		if r.Chance(1, 4) {
			p += []string{" ", "\t", "  "}[r.Intn(3)]
		}
		parts[i] = p
	}
	return strings.Join(parts, ",")
}

// scopeTextLine: one text through ScopesFromString, compared with the model; accepted => a signer with these scopes is
// a signer (binary round trip) and the text scopesToString writes for it is read back.
func (rn *runner) scopeTextLine(k int, text string) {
	o := rn.o
	sc, err := transaction.ScopesFromString(text)
	obs := "err"
	if err == nil {
		obs = fmt.Sprintf("ok %d", byte(sc))
	}
	o.Line("scopes dec "+hx.Hex([]byte(text)), obs)
	if err != nil {
		o.Count("scopes:rejected")
		return
	}
	o.Count("scopes:accepted")
	j, _ := json.Marshal(sc)
	var back transaction.WitnessScope
	sg := transaction.Signer{Scopes: sc}
	b, _ := encBytes(&sg)
	var sg2 transaction.Signer
	r := io.NewBinReaderFromBuf(b)
	sg2.DecodeBinary(r)
	if r.Err != nil || json.Unmarshal(j, &back) != nil || back != sc {
		o.Fail("signer-json-scope-invalid", k, "ScopesFromString(%q) = %#x: not a scope the binary form carries (Signer.DecodeBinary: %v) / not readable from its own text %s", text, byte(sc), r.Err, j)
	}
}

func (rn *runner) scopesCase(k int, r *prng.R) {
	o := rn.o
	// value -> text for every byte, text -> value
	v := byte(r.Intn(256))
	if r.Bool() {
		v = []byte{0, 1, 0x10, 0x20, 0x40, 0x80, 0x11, 0x31, 0x71, 0x81, 0x90, 0xff, 0x02, 0x51}[r.Intn(14)]
	}
	j, _ := json.Marshal(transaction.WitnessScope(v))
	text := strings.Trim(string(j), `"`)
	o.Line(fmt.Sprintf("scopes enc %d", v), hx.Hex([]byte(text)))
	rn.scopeTextLine(k, text)
	rn.scopeTextLine(k, genScopeText(r))
	// a signer / rule / transaction read from JSON is a value of its type
	rn.jsonValueCase(k, r)
	o.Seen(fmt.Sprintf("scopes/%d/%x", v, hashShort([]byte(text))))
}

// jsonValueCase: JSON of a signer or a transaction with one member changed; accepted => the binary form carries it.
func (rn *runner) jsonValueCase(k int, r *prng.R) {
	o := rn.o
	g := newG(r)
	g.allowInvalid, g.big, g.light = false, false, true
	sg := g.signer()
	j, err := json.Marshal(&sg)
	if err != nil {
		return
	}
	var m map[string]json.RawMessage
	if json.Unmarshal(j, &m) != nil {
		return
	}
	kind := "none"
	switch r.Intn(6) {
	case 0:
		m["scopes"] = json.RawMessage(`"` + genScopeText(r) + `"`)
		kind = "scopes"
	case 1:
		m["allowedcontracts"] = json.RawMessage(`["0x0102030405060708090a0b0c0d0e0f1011121314"]`)
		kind = "contracts-without-scope"
	case 2:
		m["rules"] = json.RawMessage(`[{"action":"Allow","condition":{"type":"Boolean","expression":true}}]`)
		kind = "rules-without-scope"
	case 3:
		delete(m, "allowedcontracts")
		delete(m, "allowedgroups")
		delete(m, "rules")
		kind = "lists-dropped"
	case 4:
		m["scopes"] = json.RawMessage(`"CalledByEntry, Global"`)
		kind = "scopes-then-global"
	}
	j2, _ := json.Marshal(m)
	var got transaction.Signer
	if err := json.Unmarshal(j2, &got); err != nil {
		o.Count("jsonvalue:signer:" + kind + ":rejected")
		return
	}
	o.Count("jsonvalue:signer:" + kind + ":accepted")
	b, err := encBytes(&got)
	var back transaction.Signer
	br := io.NewBinReaderFromBuf(b)
	if err == nil {
		back.DecodeBinary(br)
	}
	// (the binary form writes a list only when its scope bit is set; a list the JSON carried without the bit is not
	// part of the value the node hashes: compare modulo that)
	norm := got
	if norm.Scopes&transaction.CustomContracts == 0 {
		norm.AllowedContracts = nil
	}
	if norm.Scopes&transaction.CustomGroups == 0 {
		norm.AllowedGroups = nil
	}
	if norm.Scopes&transaction.Rules == 0 {
		norm.Rules = nil
	}
	var s1, s2 sb
	showSigner(&s1, &norm)
	if err == nil && br.Err == nil {
		showSigner(&s2, &back)
	}
	if err != nil || br.Err != nil || s1.String() != s2.String() {
		key := "signer-json-value"
		if got.Scopes&transaction.Global != 0 && got.Scopes != transaction.Global {
			key = "signer-json-scope-invalid" // Global combined with other scopes: the known order defect of ScopesFromString
		}
		o.Fail(key, k, "Signer read from JSON %s is not a value the binary form carries (encode: %v, decode: %v, %s vs %s)", trunc(string(j2), 200), err, br.Err, trunc(s1.String(), 80), trunc(s2.String(), 80))
	}
}

func scopesCorpus() []corpusCase {
	texts := []string{"CalledByEntry, Global", "Global, CalledByEntry", "None, Global", "Global,Global", "Global, None", "CalledByEntry,CalledByEntry",
		"", " Global ", "CalledByEntry, CustomContracts, CustomGroups, WitnessRules", "WitnessRules,CalledByEntry", "Rules", "None", "None, None", "CustomGroups,\tGlobal",
		"WitnessScope(129)", "calledbyentry", "CalledByEntry,", ",", "CalledByEntry ,WitnessRules"}
	var out []corpusCase
	for _, t := range texts {
		t := t
		out = append(out, func(rn *runner, k int) {
			rn.scopeTextLine(k, t)
			rn.o.Seen("corpus/scopes/" + t)
		})
	}
	out = append(out, func(rn *runner, k int) {
		for v := 0; v < 256; v++ {
			j, _ := json.Marshal(transaction.WitnessScope(v))
			rn.o.Line(fmt.Sprintf("scopes enc %d", v), hx.Hex([]byte(strings.Trim(string(j), `"`))))
		}
		rn.o.Seen("corpus/scopes/all-bytes")
	})
	return out
}
