package main

import (
	"crypto/elliptic"
	"math/big"

	"github.com/nspcc-dev/neo-go/pkg/core/block"
	"github.com/nspcc-dev/neo-go/pkg/core/mpt"
	"github.com/nspcc-dev/neo-go/pkg/core/state"
	"github.com/nspcc-dev/neo-go/pkg/core/transaction"
	"github.com/nspcc-dev/neo-go/pkg/crypto/keys"
	"github.com/nspcc-dev/neo-go/pkg/encoding/bigint"
	"github.com/nspcc-dev/neo-go/pkg/network/capability"
	"github.com/nspcc-dev/neo-go/pkg/network/payload"
	"github.com/nspcc-dev/neo-go/pkg/smartcontract/callflag"
	"github.com/nspcc-dev/neo-go/pkg/smartcontract/nef"
	"github.com/nspcc-dev/neo-go/pkg/smartcontract/trigger"
	"github.com/nspcc-dev/neo-go/pkg/util"
	"github.com/nspcc-dev/neo-go/pkg/vm/stackitem"
	"github.com/nspcc-dev/neo-go/pkg/vm/vmstate"

	"verif/harness/internal/prng"
)

// G is the value generator of one case. `invalid` is set as soon as a value is deliberately
// pushed out of the range the decoder accepts (count = cap+1, nesting = depth+1, bad enum …):
// the round-trip oracle then only requires agreement with the model, not success.
type G struct {
	r            *prng.R
	invalid      bool
	allowInvalid bool
	big          bool // allow expensive sizes (64 KiB scripts, thousands of items)
	light        bool // keep values small (arrival-path cases decode each value many times)
}

func newG(r *prng.R) *G {
	return &G{r: r, allowInvalid: r.Chance(1, 4), big: r.Chance(1, 12)}
}

// cnt returns a boundary-biased count for a field whose cap is max.
func (g *G) cnt(max int) int {
	small := 3
	if max < small {
		small = max
	}
	w := []int{52, 14, 12, 8, 0}
	if g.allowInvalid {
		w[4] = 10
	}
	if max > 4096 && !g.big {
		w[2], w[3], w[4] = 0, 0, 0
	}
	if g.light {
		w = []int{90, 4, 3, 3, 0}
	}
	switch g.r.Weighted(w) {
	case 0:
		return g.r.Intn(small + 1)
	case 1:
		lim := max
		if lim > 40 && !g.big {
			lim = 40
		}
		return g.r.Intn(lim + 1)
	case 2:
		return max
	case 3:
		if max == 0 {
			return 0
		}
		return max - 1
	default:
		g.invalid = true
		return max + 1
	}
}

// cnt1 is cnt for fields that must not be empty.
func (g *G) cnt1(max int) int {
	n := g.cnt(max)
	if n == 0 {
		if g.allowInvalid && g.r.Chance(1, 4) {
			g.invalid = true
			return 0
		}
		return 1
	}
	return n
}

func (g *G) bytes(max int) []byte { return g.r.Bytes(g.cnt(max)) }

func (g *G) u160() (u util.Uint160) { copy(u[:], g.r.Bytes(20)); return }
func (g *G) u256() (u util.Uint256) { copy(u[:], g.r.Bytes(32)); return }

var boundaries = []uint64{0, 1, 0xfc, 0xfd, 0xfe, 0xff, 0x100, 0xfffe, 0xffff, 0x10000, 0xfffffffe, 0xffffffff, 0x100000000, 1<<63 - 1, 1 << 63, 1<<64 - 1}

func genUint(r *prng.R) uint64 {
	switch r.Intn(4) {
	case 0:
		return boundaries[r.Intn(len(boundaries))]
	case 1:
		return boundaries[r.Intn(len(boundaries))] + uint64(r.Intn(3)) - 1
	case 2:
		return r.U64() >> uint(r.Intn(64))
	default:
		return uint64(r.Intn(70000))
	}
}

func (g *G) u32() uint32 { return uint32(genUint(g.r)) }
func (g *G) u64() uint64 { return genUint(g.r) }

// ---- public keys: a fixed pool of valid P-256 points (deterministic) ----

var keyPool []*keys.PublicKey

func initKeys() {
	if keyPool != nil {
		return
	}
	r := prng.New(0x6b657973)
	for len(keyPool) < 24 {
		b := r.Bytes(32)
		b[0] &= 0x7f
		pk, err := keys.NewPrivateKeyFromBytes(b)
		if err != nil {
			continue
		}
		keyPool = append(keyPool, pk.PublicKey())
	}
}

func (g *G) key() *keys.PublicKey {
	initKeys()
	k := keyPool[g.r.Intn(len(keyPool))]
	// fresh copy: decoders/encoders never mutate, but DeepEqual must not depend on sharing
	c, err := keys.NewPublicKeyFromBytes(k.Bytes(), elliptic.P256())
	if err != nil {
		panic(err)
	}
	return c
}

func uncompress(c []byte) []byte {
	k, err := keys.NewPublicKeyFromBytes(c, elliptic.P256())
	if err != nil {
		return nil
	}
	return k.UncompressedBytes()
}

// ---- transaction parts ----

func (g *G) witness() transaction.Witness {
	return transaction.Witness{InvocationScript: g.bytes(transaction.MaxInvocationScript), VerificationScript: g.bytes(transaction.MaxVerificationScript)}
}

// cond generates a condition using at most `depth` nesting levels (3 = MaxConditionNesting).
func (g *G) cond(depth int) transaction.WitnessCondition {
	compound := depth > 1 && g.r.Chance(2, 5)
	if depth <= 1 && g.allowInvalid && g.r.Chance(1, 12) {
		compound = true // one level too deep
		g.invalid = true
	}
	if compound {
		switch g.r.Intn(3) {
		case 0:
			return &transaction.ConditionNot{Condition: g.cond(depth - 1)}
		case 1:
			n := g.condCount()
			l := make(transaction.ConditionAnd, n)
			for i := range l {
				l[i] = g.cond(depth - 1)
			}
			return &l
		default:
			n := g.condCount()
			l := make(transaction.ConditionOr, n)
			for i := range l {
				l[i] = g.cond(depth - 1)
			}
			return &l
		}
	}
	switch g.r.Intn(6) {
	case 0:
		b := transaction.ConditionBoolean(g.r.Bool())
		return &b
	case 1:
		h := transaction.ConditionScriptHash(g.u160())
		return &h
	case 2:
		k := transaction.ConditionGroup(*g.key())
		return &k
	case 3:
		return transaction.ConditionCalledByEntry{}
	case 4:
		h := transaction.ConditionCalledByContract(g.u160())
		return &h
	default:
		k := transaction.ConditionCalledByGroup(*g.key())
		return &k
	}
}

func (g *G) condCount() int {
	// 16 sub-conditions at three levels would be 4096 leaves: keep the big ones rare
	if g.r.Chance(1, 6) {
		return g.cnt1(16)
	}
	return 1 + g.r.Intn(3)
}

func (g *G) rule() transaction.WitnessRule {
	a := transaction.WitnessAction(g.r.Intn(2))
	if g.allowInvalid && g.r.Chance(1, 20) {
		a = transaction.WitnessAction(2 + g.r.Intn(254))
		g.invalid = true
	}
	return transaction.WitnessRule{Action: a, Condition: g.cond(transaction.MaxConditionNesting)}
}

var validScopes = []transaction.WitnessScope{0, 1, 0x10, 0x11, 0x20, 0x21, 0x30, 0x31, 0x40, 0x41, 0x50, 0x51, 0x60, 0x61, 0x70, 0x71, 0x80}

func (g *G) signer() transaction.Signer {
	s := transaction.Signer{Account: g.u160(), Scopes: validScopes[g.r.Intn(len(validScopes))]}
	if g.allowInvalid && g.r.Chance(1, 15) {
		s.Scopes = transaction.WitnessScope(g.r.U64())
		ok := false
		for _, v := range validScopes {
			ok = ok || v == s.Scopes
		}
		if !ok {
			g.invalid = true
		}
	}
	if s.Scopes&transaction.CustomContracts != 0 {
		n := g.cnt(16)
		s.AllowedContracts = make([]util.Uint160, n)
		for i := range s.AllowedContracts {
			s.AllowedContracts[i] = g.u160()
		}
	}
	if s.Scopes&transaction.CustomGroups != 0 {
		n := g.cnt(16)
		s.AllowedGroups = make([]*keys.PublicKey, n)
		for i := range s.AllowedGroups {
			s.AllowedGroups[i] = g.key()
		}
	}
	if s.Scopes&transaction.Rules != 0 {
		n := g.cnt(16)
		s.Rules = make([]transaction.WitnessRule, n)
		for i := range s.Rules {
			s.Rules[i] = g.rule()
		}
	}
	return s
}

var oracleCodes = []transaction.OracleResponseCode{0x00, 0x10, 0x12, 0x14, 0x16, 0x18, 0x1a, 0x1c, 0x1f, 0xff}

// attr generates an attribute; `used` tracks the types that may appear only once.
func (g *G) attr(used map[transaction.AttrType]bool) transaction.Attribute {
	for {
		var a transaction.Attribute
		switch g.r.Intn(7) {
		case 0:
			a = transaction.Attribute{Type: transaction.HighPriority}
		case 1:
			o := &transaction.OracleResponse{ID: g.u64(), Code: oracleCodes[g.r.Intn(len(oracleCodes))]}
			if o.Code == transaction.Success {
				o.Result = g.bytes(transaction.MaxOracleResultSize)
			} else if g.allowInvalid && g.r.Chance(1, 8) {
				o.Result = []byte{1}
				g.invalid = true
			} else {
				o.Result = []byte{}
			}
			if g.allowInvalid && g.r.Chance(1, 12) {
				o.Code = transaction.OracleResponseCode(g.r.U64())
				if !o.Code.IsValid() || (o.Code != transaction.Success && len(o.Result) > 0) {
					g.invalid = true
				}
			}
			a = transaction.Attribute{Type: transaction.OracleResponseT, Value: o}
		case 2:
			a = transaction.Attribute{Type: transaction.NotValidBeforeT, Value: &transaction.NotValidBefore{Height: g.u32()}}
		case 3, 4:
			a = transaction.Attribute{Type: transaction.ConflictsT, Value: &transaction.Conflicts{Hash: g.u256()}}
		case 5:
			a = transaction.Attribute{Type: transaction.NotaryAssistedT, Value: &transaction.NotaryAssisted{NKeys: uint8(g.r.U64())}}
		default:
			a = transaction.Attribute{Type: transaction.AttrType(0xe0 + g.r.Intn(0x20)), Value: &transaction.Reserved{Value: g.bytes(1 << 16)}}
		}
		if a.Type != transaction.ConflictsT && used != nil {
			if used[a.Type] {
				if g.allowInvalid && g.r.Chance(1, 10) {
					g.invalid = true
					return a
				}
				continue
			}
			used[a.Type] = true
		}
		return a
	}
}

func (g *G) tx() *transaction.Transaction {
	t := &transaction.Transaction{
		Nonce:           g.u32(),
		SystemFee:       int64(g.u64() >> 1),
		NetworkFee:      int64(g.u64() >> 1),
		ValidUntilBlock: g.u32(),
	}
	if t.SystemFee+t.NetworkFee < t.SystemFee {
		if g.allowInvalid {
			g.invalid = true
		} else {
			t.NetworkFee = 0
		}
	}
	if g.allowInvalid && g.r.Chance(1, 25) {
		switch g.r.Intn(3) {
		case 0:
			t.Version = uint8(1 + g.r.Intn(255))
		case 1:
			t.SystemFee = -1 - int64(g.r.Intn(5))
		default:
			t.NetworkFee = -1 - int64(g.r.Intn(5))
		}
		g.invalid = true
	}
	ns := g.cnt1(transaction.MaxAttributes)
	t.Signers = make([]transaction.Signer, ns)
	for i := range t.Signers {
		t.Signers[i] = g.signer()
		if i > 0 && g.allowInvalid && g.r.Chance(1, 30) {
			t.Signers[i].Account = t.Signers[g.r.Intn(i)].Account
			g.invalid = true
		}
	}
	room := transaction.MaxAttributes - ns
	if room < 0 {
		room = 0
	}
	na := g.cnt(room)
	used := map[transaction.AttrType]bool{}
	t.Attributes = make([]transaction.Attribute, na)
	for i := range t.Attributes {
		t.Attributes[i] = g.attr(used)
	}
	t.Script = g.r.Bytes(g.cnt1(transaction.MaxScriptLength))
	nw := ns
	if g.allowInvalid && g.r.Chance(1, 20) {
		nw = g.r.Intn(18)
		if nw != ns {
			g.invalid = true
		}
	}
	t.Scripts = make([]transaction.Witness, nw)
	for i := range t.Scripts {
		t.Scripts[i] = g.witness()
	}
	return t
}

// ---- blocks ----

func (g *G) header(sr bool) *block.Header {
	h := &block.Header{
		Version:          g.u32(),
		PrevHash:         g.u256(),
		MerkleRoot:       g.u256(),
		Timestamp:        g.u64(),
		Nonce:            g.u64(),
		Index:            g.u32(),
		NextConsensus:    g.u160(),
		Script:           g.witness(),
		StateRootEnabled: sr,
		PrimaryIndex:     byte(g.r.U64()),
	}
	if sr {
		h.PrevStateRoot = g.u256()
	}
	return h
}

func (g *G) block(sr bool) *block.Block {
	b := &block.Block{Header: *g.header(sr)}
	n := g.r.Intn(4)
	if g.big && g.r.Chance(1, 3) {
		n = 20 + g.r.Intn(60)
	}
	b.Transactions = make([]*transaction.Transaction, n)
	for i := range b.Transactions {
		b.Transactions[i] = g.tx()
	}
	if g.r.Bool() {
		b.RebuildMerkleRoot()
	}
	return b
}

func (g *G) stateRoot() *state.MPTRoot {
	s := &state.MPTRoot{Version: byte(g.r.Intn(3)), Index: g.u32(), Root: g.u256()}
	n := g.cnt(1)
	s.Witness = make([]transaction.Witness, n)
	for i := range s.Witness {
		s.Witness[i] = g.witness()
	}
	return s
}

// ---- MPT nodes (as the trie stores them: children are hash or empty references) ----

func (g *G) mptChild() mpt.Node {
	if g.r.Chance(1, 3) {
		return mpt.EmptyNode{}
	}
	return mpt.NewHashNode(g.u256())
}

func (g *G) nibbles(max int) []byte {
	n := g.cnt1(max)
	b := make([]byte, n)
	for i := range b {
		b[i] = byte(g.r.Intn(16))
	}
	return b
}

func (g *G) mptNode() mpt.Node {
	switch g.r.Intn(5) {
	case 0:
		b := mpt.NewBranchNode()
		for i := range b.Children {
			b.Children[i] = g.mptChild()
		}
		return b
	case 1:
		return mpt.NewExtensionNode(g.nibbles(2*mpt.MaxKeyLength), mpt.NewHashNode(g.u256()))
	case 2:
		return mpt.NewLeafNode(g.bytes(mpt.MaxValueLength))
	case 3:
		return mpt.NewHashNode(g.u256())
	default:
		return mpt.EmptyNode{}
	}
}

// ---- extensible ----

func (g *G) extensible() *payload.Extensible {
	cats := []string{"dBFT", "StateService", "", "x"}
	e := payload.NewExtensible()
	e.Category = cats[g.r.Intn(len(cats))]
	if g.r.Chance(1, 4) {
		e.Category = string(g.bytes(32))
	}
	e.ValidBlockStart = g.u32()
	e.ValidBlockEnd = g.u32()
	e.Sender = g.u160()
	e.Data = g.r.Bytes(g.r.Intn(200))
	if g.big {
		e.Data = g.r.Bytes(g.r.Intn(70000))
	}
	e.Witness = g.witness()
	return e
}

// ---- stack items ----

func (g *G) bigint() *big.Int {
	switch g.r.Intn(5) {
	case 0:
		return big.NewInt(int64(g.r.Intn(5)) - 2)
	case 1:
		return new(big.Int).SetUint64(g.u64())
	case 2:
		return new(big.Int).Neg(new(big.Int).SetUint64(g.u64()))
	case 3: // 256-bit boundaries
		v := new(big.Int).Lsh(big.NewInt(1), 255)
		switch g.r.Intn(3) {
		case 0:
			return v.Sub(v, big.NewInt(1)) // max
		case 1:
			return v.Neg(v) // min
		default:
			v.Sub(v, big.NewInt(1))
			return v.Neg(v)
		}
	default:
		b := g.r.Bytes(1 + g.r.Intn(31))
		v := new(big.Int).SetBytes(b)
		if g.r.Bool() {
			v.Neg(v)
		}
		return v
	}
}

func (g *G) primitive() stackitem.Item {
	switch g.r.Intn(5) {
	case 0:
		return stackitem.NewByteArray(g.r.Bytes(g.r.Intn(8)))
	case 1:
		return stackitem.NewBool(g.r.Bool())
	case 2, 3:
		return stackitem.NewBigInteger(g.bigint())
	default:
		if g.big {
			return stackitem.NewByteArray(g.bytes(stackitem.MaxSize))
		}
		return stackitem.NewByteArray(g.r.Bytes(g.r.Intn(70)))
	}
}

// item generates a stack item with at most *budget items in total.
func (g *G) item(depth int, budget *int) stackitem.Item {
	*budget--
	if depth <= 0 || *budget <= 0 || g.r.Chance(1, 2) {
		switch g.r.Intn(8) {
		case 0:
			return stackitem.Null{}
		case 1:
			return stackitem.NewBuffer(g.r.Bytes(g.r.Intn(10)))
		default:
			return g.primitive()
		}
	}
	n := g.r.Intn(5)
	if g.r.Chance(1, 10) {
		n = g.r.Intn(*budget + 1)
	}
	switch g.r.Intn(3) {
	case 0, 1:
		arr := make([]stackitem.Item, 0, n)
		for i := 0; i < n && *budget > 0; i++ {
			arr = append(arr, g.item(depth-1, budget))
		}
		if g.r.Bool() {
			return stackitem.NewArray(arr)
		}
		return stackitem.NewStruct(arr)
	default:
		m := stackitem.NewMap()
		for i := 0; i < n && *budget > 1; i++ {
			*budget--
			k := g.primitive()
			if bs, err := k.TryBytes(); err != nil || len(bs) > stackitem.MaxKeySize {
				k = stackitem.NewBigInteger(big.NewInt(int64(i)))
			}
			m.Add(k, g.item(depth-1, budget))
		}
		return m
	}
}

// sharedItem builds an item in which ONE compound object is referenced many times, with the total number of
// (tree) items around the serialisation limit: the serialiser caches the bytes and the item count of a compound
// it has already written (serialization.go `seen`), which must charge every reference in full.
func (g *G) sharedItem() stackitem.Item {
	defer func(big bool) { g.big = big }(g.big)
	g.big = false // the shared object is copied up to 2048 times in the serialisation
	var inner stackitem.Item
	k := g.r.Intn(4) // size of the shared object
	switch g.r.Intn(3) {
	case 0:
		m := stackitem.NewMap()
		for i := 0; i < k; i++ {
			m.Add(stackitem.NewBigInteger(big.NewInt(int64(i))), g.primitive())
		}
		inner = m
	case 1:
		arr := make([]stackitem.Item, k)
		for i := range arr {
			arr[i] = g.primitive()
		}
		inner = stackitem.NewArray(arr)
	default:
		arr := make([]stackitem.Item, k)
		for i := range arr {
			arr[i] = g.primitive()
		}
		inner = stackitem.NewStruct(arr)
	}
	c := itemCount(inner, 0)
	mid := inner
	cm := c
	if g.r.Chance(1, 3) { // one more level of sharing
		n := 1 + g.r.Intn(6)
		refs := make([]stackitem.Item, n)
		for i := range refs {
			refs[i] = inner
		}
		mid = stackitem.NewArray(refs)
		cm = 1 + n*c
	}
	// outer: N references, 1 + N*cm items in total, around MaxSerialized
	n := (stackitem.MaxSerialized - 1) / cm
	switch g.r.Intn(6) {
	case 0:
		n--
	case 1:
		n++
	case 2:
		n += 1 + g.r.Intn(n/2+2)
	case 3:
		n = 1 + g.r.Intn(n+1)
	}
	if n < 0 {
		n = 0
	}
	refs := make([]stackitem.Item, n)
	for i := range refs {
		refs[i] = mid
	}
	// pad with primitives to land exactly on / next to the limit
	if total := 1 + n*cm; total < stackitem.MaxSerialized+2 && g.r.Chance(2, 3) {
		want := stackitem.MaxSerialized - 1 + g.r.Intn(4) // 2047 … 2050 items
		for ; total < want; total++ {
			refs = append(refs, stackitem.Null{})
		}
	}
	if g.r.Chance(1, 4) {
		m := stackitem.NewMap()
		for i := range refs {
			m.Add(stackitem.NewBigInteger(big.NewInt(int64(i))), refs[i])
		}
		return m
	}
	return stackitem.NewArray(refs)
}

// itemCount is the number of items of the tree unfolding of it (every reference counted), capped.
func itemCount(it stackitem.Item, depth int) int {
	if depth > 3000 {
		return 1 << 30
	}
	n := 1
	switch t := it.(type) {
	case *stackitem.Array, *stackitem.Struct:
		for _, x := range t.Value().([]stackitem.Item) {
			n += itemCount(x, depth+1)
			if n > 1<<24 {
				return n
			}
		}
	case *stackitem.Map:
		for _, e := range t.Value().([]stackitem.MapElement) {
			n += itemCount(e.Key, depth+1) + itemCount(e.Value, depth+1)
			if n > 1<<24 {
				return n
			}
		}
	}
	return n
}

// itemSize is the length of the tree serialisation of it, capped.
func itemSize(it stackitem.Item, depth int) int {
	if depth > 3000 {
		return 1 << 30
	}
	switch t := it.(type) {
	case *stackitem.ByteArray:
		return 1 + len(minimalVarUint(uint64(len(*t)))) + len(*t)
	case *stackitem.Buffer:
		return 1 + len(minimalVarUint(uint64(len(*t)))) + len(*t)
	case stackitem.Bool:
		return 2
	case *stackitem.BigInteger:
		return 2 + len(bigint.ToBytes(t.Big()))
	case *stackitem.Array, *stackitem.Struct:
		v := t.Value().([]stackitem.Item)
		n := 1 + len(minimalVarUint(uint64(len(v))))
		for _, x := range v {
			n += itemSize(x, depth+1)
			if n > 1<<28 {
				return n
			}
		}
		return n
	case *stackitem.Map:
		v := t.Value().([]stackitem.MapElement)
		n := 1 + len(minimalVarUint(uint64(len(v))))
		for _, e := range v {
			n += itemSize(e.Key, depth+1) + itemSize(e.Value, depth+1)
			if n > 1<<28 {
				return n
			}
		}
		return n
	}
	return 1
}

func (g *G) stackItem() stackitem.Item {
	if g.r.Chance(1, 5) {
		return g.sharedItem()
	}
	budget := 1 + g.r.Intn(30)
	if g.r.Chance(1, 10) {
		budget = stackitem.MaxDeserialized - 3 + g.r.Intn(6) // around the count limit
	}
	depth := g.r.Intn(6)
	if g.r.Chance(1, 20) {
		depth = 40
	}
	return g.item(depth, &budget)
}

func (g *G) notification() *state.NotificationEvent {
	defer func(big bool) { g.big = big }(g.big)
	g.big = false // keep the state within the serialisation size limit
	b := 1 + g.r.Intn(12)
	n := g.r.Intn(4)
	arr := make([]stackitem.Item, 0, n)
	for i := 0; i < n; i++ {
		arr = append(arr, g.item(3, &b))
	}
	return &state.NotificationEvent{ScriptHash: g.u160(), Name: string(g.r.Bytes(g.r.Intn(33))), Item: stackitem.NewArray(arr)}
}

func (g *G) aer() *state.AppExecResult {
	defer func(big bool) { g.big = big }(g.big)
	g.big = false // keep the items within the serialisation size limit
	a := &state.AppExecResult{Container: g.u256()}
	a.Trigger = []trigger.Type{trigger.OnPersist, trigger.PostPersist, trigger.Application, trigger.Verification}[g.r.Intn(4)]
	a.VMState = []vmstate.State{vmstate.Halt, vmstate.Fault}[g.r.Intn(2)]
	a.GasConsumed = int64(g.u64() >> 1)
	n := g.r.Intn(4)
	a.Stack = make([]stackitem.Item, n)
	for i := range a.Stack {
		b := 1 + g.r.Intn(10)
		a.Stack[i] = g.item(3, &b)
		if noTrunc {
			if _, err := stackitem.Serialize(a.Stack[i]); err != nil {
				var s sb
				showItem(&s, a.Stack[i], 0)
				println("aer stack item unserializable:", err.Error(), s.String())
			}
		}
	}
	ne := g.r.Intn(3)
	a.Events = make([]state.NotificationEvent, ne)
	for i := range a.Events {
		a.Events[i] = *g.notification()
	}
	if a.VMState == vmstate.Fault {
		a.FaultException = "fault " + string(rune('a'+g.r.Intn(26)))
	}
	if g.r.Chance(1, 4) { // ledger configured with SaveInvocations
		for n := 1 + g.r.Intn(2); n > 0; n-- {
			args, _ := stackitem.Serialize(stackitem.NewArray([]stackitem.Item{stackitem.NewBool(true), stackitem.NewByteArray(g.r.Bytes(3))}))
			a.Invocations = append(a.Invocations, *state.NewContractInvocation(g.u160(), "m"+string(printable(g.r, g.r.Intn(6))), args, 2))
		}
	}
	return a
}

// ---- NEF ----

func (g *G) nef() *nef.File {
	f := &nef.File{Header: nef.Header{Magic: nef.Magic, Compiler: "neo-go-verif"}}
	if g.r.Chance(1, 5) {
		f.Compiler = string(printable(g.r, g.cnt(64)))
	}
	f.Source = string(printable(g.r, g.cnt(nef.MaxSourceURLLength)))
	n := g.r.Intn(4)
	f.Tokens = make([]nef.MethodToken, n)
	for i := range f.Tokens {
		f.Tokens[i] = nef.MethodToken{Hash: g.u160(), Method: "m" + string(printable(g.r, g.r.Intn(31))), ParamCount: uint16(g.r.U64()), HasReturn: g.r.Bool(), CallFlag: callflag.CallFlag(g.r.Intn(16))}
	}
	f.Script = g.r.Bytes(g.cnt1(300))
	if g.big {
		f.Script = g.r.Bytes(g.cnt1(stackitem.MaxSize))
	}
	if g.invalid { // over-long fields make EncodeBinary fail; keep NEF values valid
		g.invalid = false
		f.Compiler = "c"
		f.Source = ""
		if len(f.Script) == 0 {
			f.Script = []byte{1}
		}
		if len(f.Script) > stackitem.MaxSize {
			f.Script = f.Script[:stackitem.MaxSize]
		}
	}
	f.Checksum = f.CalculateChecksum()
	return f
}

func printable(r *prng.R, n int) []byte {
	b := make([]byte, n)
	for i := range b {
		b[i] = byte('a' + r.Intn(26))
	}
	return b
}

// ---- P2P payloads ----

func (g *G) capabilities() capability.Capabilities {
	var cs capability.Capabilities
	seen := map[capability.Type]bool{}
	n := g.r.Intn(5)
	for i := 0; i < n; i++ {
		var c capability.Capability
		switch g.r.Intn(6) {
		case 0:
			c = capability.Capability{Type: capability.TCPServer, Data: &capability.Server{Port: uint16(g.r.U64())}}
		case 1:
			c = capability.Capability{Type: capability.WSServer, Data: &capability.Server{Port: uint16(g.r.U64())}}
		case 2:
			c = capability.Capability{Type: capability.FullNode, Data: &capability.Node{StartHeight: g.u32()}}
		case 3:
			c = capability.Capability{Type: capability.ArchivalNode, Data: &capability.Archival{}}
		case 4:
			c = capability.Capability{Type: capability.DisableCompressionNode, Data: &capability.DisableCompression{}}
		default:
			u := capability.Unknown(g.r.Bytes(g.r.Intn(20)))
			c = capability.Capability{Type: capability.Type(0xf0 + g.r.Intn(16)), Data: &u}
		}
		if c.Type < 0xf0 && seen[c.Type] {
			continue
		}
		seen[c.Type] = true
		cs = append(cs, c)
	}
	if cs == nil {
		cs = capability.Capabilities{}
	}
	return cs
}

func (g *G) hashes(max int) []util.Uint256 {
	n := g.cnt(max)
	hs := make([]util.Uint256, n)
	for i := range hs {
		hs[i] = g.u256()
	}
	return hs
}
