package main

import (
	"bytes"
	"encoding/json"
	"fmt"

	"github.com/nspcc-dev/neo-go/pkg/core/block"
	"github.com/nspcc-dev/neo-go/pkg/core/transaction"
	"github.com/nspcc-dev/neo-go/pkg/io"
	"github.com/nspcc-dev/neo-go/pkg/network"
	"github.com/nspcc-dev/neo-go/pkg/network/payload"

	"verif/harness/internal/hx"
)

type txView struct {
	ok   bool
	hash string
	size int
	dump string
}

func (v txView) String() string {
	if !v.ok {
		return "err"
	}
	return fmt.Sprintf("%s/%d", v.hash, v.size)
}

func viewTx(t *transaction.Transaction) txView {
	var s sb
	showTx(&s, t)
	return txView{ok: true, hash: t.Hash().StringBE(), size: t.Size(), dump: s.String()}
}

func guard(f func() txView) (v txView, panicked bool) {
	defer func() {
		if r := recover(); r != nil {
			v, panicked = txView{}, true
		}
	}()
	return f(), false
}

// noncanonKind names the first place where accepted bytes differ from the canonical re-encoding.
func noncanonKind(b, canon []byte) string {
	n := len(b)
	if len(canon) < n {
		n = len(canon)
	}
	for i := 0; i < n; i++ {
		if b[i] == canon[i] {
			continue
		}
		switch {
		case b[i] == 0xfd || b[i] == 0xfe || b[i] == 0xff:
			return "nonminimal-varuint"
		case b[i] == 0x04 && (canon[i] == 0x02 || canon[i] == 0x03):
			return "uncompressed-pubkey"
		case canon[i] == 0x01 && b[i] > 1:
			return "nonzero-bool"
		}
		return "other"
	}
	return "other"
}

// checkTxPaths: the identity (hash) and size of one transaction must not depend on how its bytes arrived.
// Paths: NewTransactionFromBytes, DecodeBinary from a stream, inside a block body, as the payload of a P2P
// message, database form (the node stores the canonical encoding and reads it with NewTransactionFromBytes),
// JSON (RPC).
func checkTxPaths(b []byte, rep *report) {
	type path struct {
		name string
		f    func() txView
	}
	var canon []byte
	paths := []path{
		{"frombytes", func() txView {
			t, err := transaction.NewTransactionFromBytes(b)
			if err != nil {
				return txView{}
			}
			return viewTx(t)
		}},
		{"stream", func() txView {
			t := &transaction.Transaction{}
			r := io.NewBinReaderFromBuf(b)
			t.DecodeBinary(r)
			if r.Err != nil || r.Len() != 0 {
				return txView{}
			}
			canon = t.Bytes()
			return viewTx(t)
		}},
		{"block", func() txView {
			w := io.NewBufBinWriter()
			h := &block.Header{}
			h.EncodeBinary(w.BinWriter)
			w.WriteVarUint(1)
			w.WriteBytes(b)
			bl := block.New(false)
			r := io.NewBinReaderFromBuf(w.Bytes())
			bl.DecodeBinary(r)
			if r.Err != nil || r.Len() != 0 || len(bl.Transactions) != 1 {
				return txView{}
			}
			return viewTx(bl.Transactions[0])
		}},
		{"p2p", func() txView {
			w := io.NewBufBinWriter()
			w.WriteB(0)
			w.WriteB(byte(network.CMDTX))
			w.WriteVarBytes(b)
			m := &network.Message{}
			r := io.NewBinReaderFromBuf(w.Bytes())
			if err := m.Decode(r); err != nil || r.Len() != 0 {
				return txView{}
			}
			t, ok := m.Payload.(*transaction.Transaction)
			if !ok {
				return txView{}
			}
			return viewTx(t)
		}},
		{"p2p-block", func() txView {
			// the same transaction as the only content of a block sent in a CMDBlock message
			pw := io.NewBufBinWriter()
			h := &block.Header{}
			h.EncodeBinary(pw.BinWriter)
			pw.WriteVarUint(1)
			pw.WriteBytes(b)
			body := pw.Bytes()
			if len(body) > payload.MaxSize {
				return txView{}
			}
			w := io.NewBufBinWriter()
			w.WriteB(0)
			w.WriteB(byte(network.CMDBlock))
			w.WriteVarBytes(body)
			m := &network.Message{}
			r := io.NewBinReaderFromBuf(w.Bytes())
			if err := m.Decode(r); err != nil {
				return txView{}
			}
			bl, ok := m.Payload.(*block.Block)
			if !ok || len(bl.Transactions) != 1 {
				return txView{}
			}
			// trailing bytes inside the payload are not checked by Message.decodePayload: compare only
			// when the block consumed everything
			if !bytes.Equal(bl.Transactions[0].Bytes(), canon) {
				return txView{}
			}
			return viewTx(bl.Transactions[0])
		}},
	}
	views := make([]txView, len(paths))
	for i, p := range paths {
		v, panicked := guard(p.f)
		if panicked {
			rep.fail("tx-path-panic", "path %s panicked on %s", p.name, trunc(hx.Hex(b), 200))
		}
		views[i] = v
	}
	obs := ""
	for i, p := range paths {
		obs += fmt.Sprintf("%s=%s ", p.name, views[i])
	}
	ref := views[1] // stream
	if !ref.ok {
		// rejected by the stream decoder: every other path must reject too
		for i, p := range paths {
			if views[i].ok {
				rep.fail("tx-path-accept", "path %s accepts bytes the stream decoder rejects: %s", p.name, trunc(hx.Hex(b), 200))
			}
		}
		rep.obs = "paths " + obs
		return
	}
	// two more paths need the decoded value: database form and JSON
	extra := []path{
		{"db", func() txView {
			t, err := transaction.NewTransactionFromBytes(canon)
			if err != nil {
				return txView{}
			}
			return viewTx(t)
		}},
		{"json", func() txView {
			t, err := transaction.NewTransactionFromBytes(b)
			if err != nil {
				return txView{}
			}
			j, err := json.Marshal(t)
			if err != nil {
				return txView{}
			}
			t2 := &transaction.Transaction{}
			if err := json.Unmarshal(j, t2); err != nil {
				return txView{dump: "unmarshal: " + err.Error()}
			}
			return viewTx(t2)
		}},
	}
	for _, p := range extra {
		v, panicked := guard(p.f)
		if panicked {
			rep.fail("tx-path-panic", "path %s panicked on %s", p.name, trunc(hx.Hex(b), 200))
		}
		paths = append(paths, p)
		views = append(views, v)
		obs += fmt.Sprintf("%s=%s ", p.name, v)
	}
	kind := noncanonKind(b, canon)
	// The exception is exactly: the paths that hash the RECEIVED bytes (NewTransactionFromBytes: frombytes, P2P
	// CMDTX, and the JSON made from it) may differ from the paths that hash the re-encoding (DecodeBinary: stream,
	// block body, CMDBlock, database form), and only when the bytes are not canonical (theorem
	// tx_identity_path_independent_iff_canonical). Everything else is a violation whatever the bytes look like:
	// inside one class the paths must agree on every input.
	same := func(a, b txView) bool { return a.ok && b.ok && a.hash == b.hash && a.size == b.size && a.dump == b.dump }
	for _, cl := range [][2]int{{2, 1}, {4, 1}, {5, 1}, {3, 0}} { // block~stream, p2p-block~stream, db~stream, p2p~frombytes
		a, bb := views[cl[0]], views[cl[1]]
		if a.ok && bb.ok && !same(a, bb) {
			rep.fail("tx-path-class", "paths %s and %s decode the same bytes the same way but report %s vs %s: %s",
				paths[cl[0]].name, paths[cl[1]].name, a, bb, trunc(hx.Hex(b), 160))
		}
	}
	for i, p := range paths {
		v := views[i]
		switch {
		case !v.ok && p.name == "json":
			// the JSON of a non-canonically received transaction carries the hash/size of the received
			// bytes, which UnmarshalJSON rejects: same root cause, same key
			if bytes.Equal(b, canon) {
				rep.fail("tx-json-roundtrip", "JSON round trip of a canonical transaction fails (%s): %s", v.dump, trunc(hx.Hex(b), 200))
			} else {
				rep.fail("tx-hash-"+kind, "JSON of the transaction received as %s is rejected by UnmarshalJSON (%s)", trunc(hx.Hex(b), 120), v.dump)
			}
		case !v.ok:
			rep.fail("tx-path-reject", "path %s rejects bytes the stream decoder accepts: %s", p.name, trunc(hx.Hex(b), 200))
		case v.dump != ref.dump:
			rep.fail("tx-path-content", "path %s decodes different content: %s", p.name, trunc(hx.Hex(b), 200))
		case v.hash != ref.hash || v.size != ref.size:
			if bytes.Equal(b, canon) {
				rep.fail("tx-hash-path-canonical", "canonical bytes, path %s gives %s, stream gives %s: %s", p.name, v, ref, trunc(hx.Hex(b), 200))
			} else {
				rep.fail("tx-hash-"+kind, "same content, path %s gives hash/size %s, DecodeBinary gives %s (received bytes are not the canonical encoding: %s): %s",
					p.name, v, ref, kind, trunc(hx.Hex(b), 160))
			}
		}
	}
	if bytes.Equal(b, canon) {
		rep.count("txpaths:canonical")
	} else {
		rep.count("txpaths:noncanonical-" + kind)
	}
	rep.obs = "paths " + obs
}
