package main

// Token dump of a decoded consensus payload. The message types of pkg/consensus are unexported: their fields are
// read through reflection (reading is allowed, only Interface()/Set are not).

import (
	"fmt"
	"reflect"

	"github.com/nspcc-dev/neo-go/pkg/consensus"
)

func rvBytes(v reflect.Value) []byte {
	if v.Kind() == reflect.Pointer || v.Kind() == reflect.Interface {
		if v.IsNil() {
			return nil
		}
		v = v.Elem()
	}
	b := make([]byte, v.Len())
	for i := range b {
		b[i] = byte(v.Index(i).Uint())
	}
	return b
}

func showHashesRV(s *sb, v reflect.Value) {
	s.num(uint64(v.Len()))
	for i := 0; i < v.Len(); i++ {
		s.hex(rvBytes(v.Index(i)))
	}
}

func showPrepReqRV(s *sb, v reflect.Value, sr bool) {
	s.num(v.FieldByName("version").Uint())
	s.hex(rvBytes(v.FieldByName("prevHash")))
	s.num(v.FieldByName("timestamp").Uint())
	s.num(v.FieldByName("nonce").Uint())
	showHashesRV(s, v.FieldByName("transactionHashes"))
	if sr {
		s.hex(rvBytes(v.FieldByName("stateRoot")))
	}
}

// deref follows pointers and interfaces down to the struct.
func deref(v reflect.Value) reflect.Value {
	for v.Kind() == reflect.Pointer || v.Kind() == reflect.Interface {
		if v.IsNil() {
			return reflect.Value{}
		}
		v = v.Elem()
	}
	return v
}

func showConsBody(s *sb, typ uint64, body reflect.Value, sr bool) {
	switch typ {
	case 0x00:
		s.num(body.FieldByName("timestamp").Uint())
		s.num(body.FieldByName("reason").Uint())
		showHashesRV(s, body.FieldByName("rejectedHashes"))
	case 0x20:
		showPrepReqRV(s, body, sr)
	case 0x21:
		s.hex(rvBytes(body.FieldByName("preparationHash")))
	case 0x30:
		s.hex(rvBytes(body.FieldByName("signature")))
	case 0x40:
		s.num(body.FieldByName("timestamp").Uint())
	case 0x41:
		cvs := body.FieldByName("changeViewPayloads")
		s.num(uint64(cvs.Len()))
		for i := 0; i < cvs.Len(); i++ {
			c := deref(cvs.Index(i))
			s.num(c.FieldByName("ValidatorIndex").Uint())
			s.num(c.FieldByName("OriginalViewNumber").Uint())
			s.num(c.FieldByName("Timestamp").Uint())
			s.hex(c.FieldByName("InvocationScript").Bytes())
		}
		req := body.FieldByName("prepareRequest")
		ph := body.FieldByName("preparationHash")
		switch {
		case !req.IsNil():
			m := req.Elem()
			s.tok("req")
			s.num(m.FieldByName("Type").Uint())
			s.num(m.FieldByName("BlockIndex").Uint())
			s.num(m.FieldByName("ValidatorIndex").Uint())
			s.num(m.FieldByName("ViewNumber").Uint())
			showPrepReqRV(s, deref(m.FieldByName("payload")), sr)
		case !ph.IsNil():
			s.tok("hash")
			s.hex(rvBytes(ph))
		default:
			s.tok("none")
		}
		ps := body.FieldByName("preparationPayloads")
		s.num(uint64(ps.Len()))
		for i := 0; i < ps.Len(); i++ {
			c := deref(ps.Index(i))
			s.num(c.FieldByName("ValidatorIndex").Uint())
			s.hex(c.FieldByName("InvocationScript").Bytes())
		}
		cm := body.FieldByName("commitPayloads")
		s.num(uint64(cm.Len()))
		for i := 0; i < cm.Len(); i++ {
			c := deref(cm.Index(i))
			s.num(c.FieldByName("ViewNumber").Uint())
			s.num(c.FieldByName("ValidatorIndex").Uint())
			s.hex(rvBytes(c.FieldByName("Signature")))
			s.hex(c.FieldByName("InvocationScript").Bytes())
		}
	default:
		s.tok(fmt.Sprintf("?type%d", typ))
	}
}

func showConsensus(p *consensus.Payload, sr bool) string {
	var s sb
	typ := uint64(p.Type())
	s.num(typ)
	s.num(uint64(p.Height()))
	s.num(uint64(p.ValidatorIndex()))
	s.num(uint64(p.ViewNumber()))
	showConsBody(&s, typ, deref(reflect.ValueOf(p.Payload())), sr)
	return s.String()
}
