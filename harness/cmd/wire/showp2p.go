package main

// Token dumps of the P2P payloads (the Lean driver prints the same text, Model/Wire/Text.lean).

import (
	"fmt"

	"github.com/nspcc-dev/neo-go/pkg/core/block"
	"github.com/nspcc-dev/neo-go/pkg/core/transaction"
	"github.com/nspcc-dev/neo-go/pkg/network"
	"github.com/nspcc-dev/neo-go/pkg/network/capability"
	"github.com/nspcc-dev/neo-go/pkg/network/payload"
	"github.com/nspcc-dev/neo-go/pkg/util"
)

func showCaps(s *sb, cs capability.Capabilities) {
	s.num(uint64(len(cs)))
	for _, c := range cs {
		s.num(uint64(c.Type))
		switch d := c.Data.(type) {
		case *capability.Server:
			s.num(uint64(d.Port))
		case *capability.Node:
			s.num(uint64(d.StartHeight))
		case *capability.Archival, *capability.DisableCompression:
		case *capability.Unknown:
			s.hex([]byte(*d))
		default:
			s.tok(fmt.Sprintf("?cap:%T", d))
		}
	}
}

func showHashList(s *sb, hs []util.Uint256) {
	s.num(uint64(len(hs)))
	for i := range hs {
		s.hex(hs[i][:])
	}
}

func showVersion(s *sb, v *payload.Version) {
	s.num(uint64(v.Magic))
	s.num(uint64(v.Version))
	s.num(uint64(v.Timestamp))
	s.num(uint64(v.Nonce))
	s.hex(v.UserAgent)
	showCaps(s, v.Capabilities)
}

func showAddrs(s *sb, l *payload.AddressList) {
	s.num(uint64(len(l.Addrs)))
	for _, a := range l.Addrs {
		s.num(uint64(a.Timestamp))
		s.hex(a.IP[:])
		showCaps(s, a.Capabilities)
	}
}

func showInventory(s *sb, i *payload.Inventory) {
	s.num(uint64(i.Type))
	showHashList(s, i.Hashes)
}

func showHeaders(s *sb, h *payload.Headers) {
	s.num(uint64(len(h.Hdrs)))
	for _, x := range h.Hdrs {
		showHeader(s, x)
	}
}

func showMerkleBlock(s *sb, m *payload.MerkleBlock) {
	showHeader(s, m.Header)
	s.num(uint64(m.TxCount))
	showHashList(s, m.Hashes)
	s.hex(m.Flags)
}

func showNotary(s *sb, r *payload.P2PNotaryRequest) {
	showTx(s, r.MainTransaction)
	showTx(s, r.FallbackTransaction)
	showWitness(s, &r.Witness)
}

// showPayload dumps whatever a P2P message carries.
func showPayload(s *sb, p payload.Payload) {
	switch t := p.(type) {
	case nil, payload.NullPayload, *payload.NullPayload:
	case *payload.Version:
		showVersion(s, t)
	case *payload.AddressList:
		showAddrs(s, t)
	case *payload.Ping:
		s.num(uint64(t.LastBlockIndex))
		s.num(uint64(t.Timestamp))
		s.num(uint64(t.Nonce))
	case *payload.GetBlockByIndex:
		s.num(uint64(t.IndexStart))
		s.num(uint64(uint16(t.Count)))
	case *payload.Headers:
		showHeaders(s, t)
	case *payload.GetBlocks:
		s.hex(t.HashStart[:])
		s.num(uint64(uint16(t.Count)))
	case *payload.Inventory:
		showInventory(s, t)
	case *transaction.Transaction:
		showTx(s, t)
	case *block.Block:
		showBlock(s, t)
	case *payload.Extensible:
		showExtensible(s, t)
	case *payload.P2PNotaryRequest:
		showNotary(s, t)
	case *payload.MPTInventory:
		showHashList(s, t.Hashes)
	case *payload.MPTData:
		s.num(uint64(len(t.Nodes)))
		for _, n := range t.Nodes {
			s.hex(n)
		}
	case *payload.MerkleBlock:
		showMerkleBlock(s, t)
	default:
		s.tok(fmt.Sprintf("?payload:%T", p))
	}
}

func showMessage(m *network.Message) string {
	var s sb
	s.num(uint64(m.Command))
	showPayload(&s, m.Payload)
	return s.String()
}

func showOfPayload(v any) string {
	var s sb
	showPayload(&s, v.(payload.Payload))
	return s.String()
}
