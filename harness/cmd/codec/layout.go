package main

import (
	"bytes"
	"crypto/aes"
	"crypto/ecdsa"
	"crypto/elliptic"
	"crypto/sha256"
	"fmt"
	"math/big"

	"github.com/nspcc-dev/neo-go/pkg/crypto/hash"
	"github.com/nspcc-dev/neo-go/pkg/crypto/keys"
	"github.com/nspcc-dev/neo-go/pkg/encoding/base58"
	"github.com/nspcc-dev/rfc6979"
	"golang.org/x/crypto/scrypt"
	"golang.org/x/text/unicode/norm"

	"verif/harness/internal/hx"
)

// famLayout: the byte layouts around the cryptography, tied to the model line by line: public-key
// encodings on both curves (valid, damaged and random bytes), the r|s signature layout, and the NEP-2
// layout with the results of scrypt / AES / "address of a key" computed here and handed to the model
// as the values of its parameters.
func famLayout(c *ctx) {
	switch c.r.Intn(12) {
	case 10, 11:
		layoutPrefixPairs(c)
	case 0, 1, 2, 3, 4:
		layoutPubkey(c)
	case 5, 6, 7:
		layoutSig(c)
	default:
		layoutNEP2(c)
	}
}

func pubdecObs(raw []byte, curve elliptic.Curve) (obs string, pk *keys.PublicKey) {
	obs = hx.Safe(func() string {
		p, err := keys.NewPublicKeyFromBytes(raw, curve)
		if err != nil {
			return "err"
		}
		pk = p
		return keyField(p)
	})
	return
}

func layoutPubkey(c *ctx) {
	r, o := c.r, c.o
	curve, cname, priv := elliptic.Curve(elliptic.P256()), "r1", c.pool.priv[r.Intn(len(c.pool.priv))]
	if r.Chance(2, 5) {
		pool := k1Pool(c.seed)
		curve, cname, priv = k1Curve, "k1", pool[r.Intn(len(pool))]
	}
	pub := priv.PublicKey()
	P := curve.Params().P
	// encodings (both forms, and the infinity key)
	for _, k := range []*keys.PublicKey{pub, {}} {
		k := k
		c.pureLine("pubenc "+keyField(k)+" c", hx.Hex(k.Bytes()), func() string { return hx.Hex(k.Bytes()) })
		c.pureLine("pubenc "+keyField(k)+" u", hx.Hex(k.UncompressedBytes()), func() string { return hx.Hex(k.UncompressedBytes()) })
	}
	// private-key bytes: NewPrivateKeyFromBytes on 31/32/33 bytes and on small / large scalars
	{
		pb := r.Bytes(32)
		switch r.Intn(6) {
		case 0:
			pb = pb[:31]
		case 1:
			pb = append(pb, 1)
		case 2:
			pb = make([]byte, 32)
			pb[31] = byte(r.Intn(3))
		case 3:
			pb = priv.Bytes()
		}
		c.line("privdec "+hx.Hex(pb), c.safe(func() string {
			k, err := keys.NewPrivateKeyFromBytes(pb)
			if err != nil {
				return "err"
			}
			if h, err := keys.NewPrivateKeyFromHex(k.String()); err != nil || !bytes.Equal(h.Bytes(), k.Bytes()) {
				c.fail("privkey-roundtrip", "NewPrivateKeyFromHex(String()) of %x", pb)
			}
			return hx.Hex(k.Bytes())
		}))
	}
	var raw []byte
	kind := r.Intn(14)
	switch kind {
	case 0, 1:
		raw = pub.Bytes()
	case 2:
		raw = pub.UncompressedBytes()
	case 3: // the other parity: the other point with this X
		raw = pub.Bytes()
		raw[0] ^= 1
	case 4: // random X: about half are not on the curve
		raw = append([]byte{byte(2 + r.Intn(2))}, r.Bytes(32)...)
	case 5: // X at / just above / just below the field prime
		x := new(big.Int).Add(P, big.NewInt(int64(r.Range(-3, 3))))
		raw = append([]byte{byte(2 + r.Intn(2))}, x.FillBytes(make([]byte, 32))...)
	case 6: // small X
		raw = append([]byte{byte(2 + r.Intn(2))}, big.NewInt(int64(r.Intn(40))).FillBytes(make([]byte, 32))...)
	case 7: // uncompressed with one bit changed
		raw = pub.UncompressedBytes()
		raw[1+r.Intn(64)] ^= 1 << uint(r.Intn(8))
	case 8: // uncompressed with Y replaced by P - Y (on the curve) or Y + P (same point, non-canonical)
		raw = pub.UncompressedBytes()
		y := new(big.Int).Sub(P, pub.Y)
		if r.Bool() {
			y = new(big.Int).Add(P, pub.Y)
			if y.BitLen() > 256 {
				y = new(big.Int).Sub(P, pub.Y)
			}
		}
		y.FillBytes(raw[33:])
	case 9: // wrong prefix
		raw = pub.Bytes()
		raw[0] = []byte{0, 1, 4, 5, 6, 7, 0x82}[r.Intn(7)]
	case 10: // wrong length
		raw = pub.Bytes()
		if r.Bool() {
			raw = pub.UncompressedBytes()
		}
		switch r.Intn(3) {
		case 0:
			raw = raw[:len(raw)-1]
		case 1:
			raw = append(raw, byte(r.Intn(256)))
		default:
			raw = raw[:r.Intn(len(raw))]
		}
	case 11: // infinity
		raw = []byte{0}
		if r.Bool() {
			raw = append(raw, r.Bytes(32)...)
		}
	case 12: // 04 with compressed length / 02 with uncompressed length
		raw = append([]byte{4}, pub.Bytes()[1:]...)
		if r.Bool() {
			raw = append([]byte{2}, pub.UncompressedBytes()[1:]...)
		}
	default:
		raw = r.Bytes(r.Intn(70))
	}
	obs, pk := pubdecObs(raw, curve)
	rawCopy := append([]byte{}, raw...)
	c.pureLine("pubdec "+cname+" "+hx.Hex(raw), obs, func() string { o, _ := pubdecObs(rawCopy, curve); return o })
	if obs == "panic" {
		c.fail("pubkey-decode-panic", "NewPublicKeyFromBytes(%x, %s) panicked", raw, cname)
	}
	if pk != nil {
		o.Count(fmt.Sprintf("layout:pubdec-%s-ok", cname))
		if !curve.IsOnCurve(pk.X, pk.Y) || pk.X.Cmp(P) >= 0 || pk.Y.Cmp(P) >= 0 { // nolint:staticcheck
			c.fail("pubkey-decode-offcurve", "NewPublicKeyFromBytes(%x, %s) returned a point that is not a canonical curve point", raw, cname)
		}
		re := pk.Bytes()
		if len(raw) == 65 {
			re = pk.UncompressedBytes()
		}
		if !bytes.Equal(re, raw) {
			c.fail("pubkey-decode-reencode", "%s: %x re-encodes to %x", cname, raw, re)
		}
	} else {
		o.Count(fmt.Sprintf("layout:pubdec-%s-err", cname))
		if kind <= 2 {
			c.fail("pubkey-roundtrip", "%s: NewPublicKeyFromBytes(%x) failed for an encoded key", cname, raw)
		}
	}
	o.Count(fmt.Sprintf("layout:pubkind%02d", kind))
	o.Seen(fmt.Sprintf("pubdec/%s/%x", cname, raw))
}

// layoutPrefixPairs: two DIFFERENT inputs that share their first 32 / 33 / 34 / 65 bytes, decoded in both
// orders, with a cold cache (a key never seen by this process) and a warm one (the same calls again). The
// decoder keeps a cache indexed by the input bytes: what an input decodes to must not depend on which other
// input was decoded before. Every decode is a model line, is re-evaluated at the end of the case, and has
// its own oracle: what decodes re-encodes to the input, and an encoding followed by junk is refused.
func layoutPrefixPairs(c *ctx) {
	r, o := c.r, c.o
	curve, cname := elliptic.Curve(elliptic.P256()), "r1"
	fresh := func() *keys.PublicKey {
		for {
			d := r.Bytes(32)
			d[0] &= 0x7f
			if k, err := keys.NewPrivateKeyFromBytes(d); err == nil && k.X.Sign() != 0 {
				return k.PublicKey()
			}
		}
	}
	dec := func(tag string, raw []byte, wantOK bool) {
		rawCopy := append([]byte{}, raw...)
		obs, pk := pubdecObs(raw, curve)
		c.pureLine("pubdec "+cname+" "+hx.Hex(raw), obs, func() string { o, _ := pubdecObs(rawCopy, curve); return o })
		if wantOK != (pk != nil) {
			c.fail("pubkey-prefix-pair", "%s: NewPublicKeyFromBytes(%x) ok=%v, expected ok=%v (another input with the same prefix was decoded before)", tag, raw, pk != nil, wantOK)
			return
		}
		if pk != nil {
			re := pk.Bytes()
			if len(raw) == 65 {
				re = pk.UncompressedBytes()
			}
			if !bytes.Equal(re, raw) {
				c.fail("pubkey-prefix-pair", "%s: %x decodes to the key %x", tag, raw, re)
			}
		}
	}
	type pair struct {
		name   string
		a, b   []byte
		aOK, bOK bool
	}
	mk := func() []pair {
		k := fresh()
		comp, unc := k.Bytes(), k.UncompressedBytes()
		neg := negKey(k).UncompressedBytes() // 04 || X || P-Y: same first 33 bytes as unc
		return []pair{
			{"33+junk1", comp, append(append([]byte{}, comp...), byte(r.Intn(256))), true, false},
			{"33+junk32", comp, append(append([]byte{}, comp...), r.Bytes(32)...), true, false},
			{"33-vs-32", comp, comp[:32], true, false},
			{"33-vs-32+00", append(append([]byte{}, comp[:32]...), 0), comp[:32], false, false},
			{"65-vs-negY", unc, neg, true, true},
			{"65-vs-33of65", unc, unc[:33], true, false},
			{"65+junk", unc, append(append([]byte{}, unc...), byte(r.Intn(256))), true, false},
			{"comp-vs-otherparity", comp, append([]byte{comp[0] ^ 1}, comp[1:]...), true, true},
		}
	}
	// a-then-b on one fresh key, b-then-a on another one; then everything again (warm)
	for order := 0; order < 2; order++ {
		ps := mk()
		p := ps[r.Intn(len(ps))]
		first, second, fOK, sOK := p.a, p.b, p.aOK, p.bOK
		if order == 1 {
			first, second, fOK, sOK = p.b, p.a, p.bOK, p.aOK
		}
		if p.name == "33-vs-32+00" && parseKey(p.a) != nil { // X||00 happens to be a key: no expectation
			continue
		}
		for pass, temp := range []string{"cold", "warm"} {
			_ = pass
			dec(p.name+"/"+temp+"/first", first, fOK)
			dec(p.name+"/"+temp+"/second", second, sOK)
			o.Count(fmt.Sprintf("layout:prefixpair-%s-order%d-%s", p.name, order, temp))
		}
	}
	o.Seen(fmt.Sprintf("prefixpair/%d", c.k))
}

func layoutSig(c *ctx) {
	r, o := c.r, c.o
	priv := c.pool.priv[r.Intn(len(c.pool.priv))]
	if r.Chance(1, 3) {
		pool := k1Pool(c.seed)
		priv = pool[r.Intn(len(pool))]
	}
	pub := priv.PublicKey()
	msg := r.Bytes(r.Intn(60))
	digest := sha256.Sum256(msg)
	rr, ss := rfc6979.SignECDSA(&priv.PrivateKey, digest[:], sha256.New)
	if r.Chance(1, 6) { // look for an r or s with a leading zero byte (FillBytes must pad)
		for i := 0; i < 800 && rr.BitLen() > 248 && ss.BitLen() > 248; i++ {
			msg = append(msg[:0:0], byte(i), byte(i>>8))
			msg = append(msg, digest[:4]...)
			d2 := sha256.Sum256(msg)
			r2, s2 := rfc6979.SignECDSA(&priv.PrivateKey, d2[:], sha256.New)
			if r2.BitLen() <= 248 || s2.BitLen() <= 248 {
				rr, ss, digest = r2, s2, d2
			}
		}
	}
	if rr.BitLen() <= 248 || ss.BitLen() <= 248 {
		o.Count("layout:sig-short-r-or-s")
	}
	sig := priv.SignHash(digest)
	c.pureLine(fmt.Sprintf("sigjoin %s %s", rr, ss), hx.Hex(sig), func() string { return hx.Hex(priv.SignHash(digest)) })
	// the split: lengths around 64, valid and damaged signatures
	s2 := append([]byte{}, sig...)
	switch r.Intn(7) {
	case 0:
		s2 = s2[:63]
	case 1:
		s2 = append(s2, byte(r.Intn(256)))
	case 2:
		s2 = r.Bytes(r.Intn(130))
	case 3:
		s2[r.Intn(64)] ^= 1 << uint(r.Intn(8))
	case 4: // s|r
		s2 = append(append([]byte{}, sig[32:]...), sig[:32]...)
	case 5: // sig || anything
		s2 = append(s2, r.Bytes(1+r.Intn(40))...)
	}
	obs := "err"
	var sr, sv *big.Int
	if len(s2) == 64 {
		sr, sv = new(big.Int).SetBytes(s2[:32]), new(big.Int).SetBytes(s2[32:])
		obs = fmt.Sprintf("%s %s", sr, sv)
	}
	c.pureLine("sigsplit "+hx.Hex(s2), obs, func() string {
		// again: the real Verify must still be ecdsa.Verify on this split
		if pub.Verify(s2, digest[:]) != (len(s2) == 64 && ecdsa.Verify((*ecdsa.PublicKey)(pub), digest[:], sr, sv)) {
			return obs + " !"
		}
		return obs
	})
	// the real Verify must be ecdsa.Verify on exactly this split, and false for any other length
	got := pub.Verify(s2, digest[:])
	want := len(s2) == 64 && ecdsa.Verify((*ecdsa.PublicKey)(pub), digest[:], sr, sv)
	// the model's Verify, with ecdsa.Verify's answer on the first 64 bytes as the value of its parameter
	{
		e := "0"
		if len(s2) >= 64 && ecdsa.Verify((*ecdsa.PublicKey)(pub), digest[:], new(big.Int).SetBytes(s2[:32]), new(big.Int).SetBytes(s2[32:64])) {
			e = "1"
		}
		kf := keyField(pub)
		if r.Chance(1, 10) {
			kf = "inf"
			got2 := (&keys.PublicKey{}).Verify(s2, digest[:])
			c.pureLine("sigverify inf "+hx.Hex(s2)+" "+e, map[bool]string{true: "1", false: "0"}[got2], func() string {
				return map[bool]string{true: "1", false: "0"}[(&keys.PublicKey{}).Verify(s2, digest[:])]
			})
		} else {
			c.pureLine("sigverify "+kf+" "+hx.Hex(s2)+" "+e, map[bool]string{true: "1", false: "0"}[got], func() string {
				return map[bool]string{true: "1", false: "0"}[pub.Verify(s2, digest[:])]
			})
		}
	}
	if got != want {
		c.fail("sig-layout", "Verify(%x) = %v, ecdsa.Verify on the r|s split says %v", s2, got, want)
	}
	if bytes.Equal(s2, sig) && !got {
		c.fail("sign-verify", "Verify(Sign(m)) failed: key %x", pub.Bytes())
	}
	if !bytes.Equal(s2, sig) && got {
		c.fail("verify-altered-signature", "altered signature %x verifies: key %x", s2, pub.Bytes())
	}
	o.Count(fmt.Sprintf("layout:sig-len%s", map[bool]string{true: "64", false: "other"}[len(s2) == 64]))
	o.Seen(fmt.Sprintf("sig/%x", sig[:8]))
}

func ecb(key, src []byte, enc bool) []byte {
	blk, err := aes.NewCipher(key)
	if err != nil {
		panic(err)
	}
	out := make([]byte, len(src))
	for i := 0; i+16 <= len(src); i += 16 {
		if enc {
			blk.Encrypt(out[i:i+16], src[i:i+16])
		} else {
			blk.Decrypt(out[i:i+16], src[i:i+16])
		}
	}
	return out
}

func xorBytes(a, b []byte) []byte {
	out := make([]byte, len(a))
	for i := range a {
		out[i] = a[i] ^ b[i]
	}
	return out
}

func layoutNEP2(c *ctx) {
	r, o := c.r, c.o
	priv := c.pool.priv[r.Intn(len(c.pool.priv))]
	if r.Bool() {
		if k, err := keys.NewPrivateKeyFromBytes(r.Bytes(32)); err == nil {
			priv = k
		}
	}
	params := keys.ScryptParams{N: 1 << uint(r.Range(1, 5)), R: r.Range(1, 3), P: r.Range(1, 2)}
	passes := []string{"", "a", "password", "пароль", "páss", "with space ", "\x00\x01", "长密码"}
	pass := passes[r.Intn(len(passes))]
	if r.Bool() {
		pass = string(r.Bytes(r.Intn(10)))
	}
	kdf := func(pw string, salt []byte) []byte {
		dk, err := scrypt.Key(norm.NFC.Bytes([]byte(pw)), salt, params.N, params.R, params.P, 64)
		if err != nil {
			panic(err)
		}
		return dk
	}
	// encrypt: the values of the model's parameters at the points where it evaluates them
	addr := priv.Address()
	ah := hash.Checksum([]byte(addr))
	dk := kdf(pass, ah)
	en := ecb(dk[32:], xorBytes(priv.Bytes(), dk[:32]), true)
	encStr, err := keys.NEP2Encrypt(priv, pass, params)
	if err != nil {
		c.fail("nep2-encrypt", "NEP2Encrypt failed: %v", err)
		return
	}
	c.pureLine(fmt.Sprintf("nep2enc %s %s %s %s %s", hx.Hex(priv.Bytes()), hs(pass), hs(addr), hx.Hex(dk), hx.Hex(en)), hs(encStr), func() string {
		e2, err := keys.NEP2Encrypt(priv, pass, params)
		if err != nil {
			return "err"
		}
		return hs(e2)
	})
	// decrypt: the right string or a damaged one, the right or another passphrase
	s := encStr
	pw := pass
	kind := r.Intn(10)
	payload, _ := base58.CheckDecode(encStr)
	switch kind {
	case 0: // another passphrase
		pw = pass + "x"
	case 1: // header / flag byte
		payload[r.Intn(3)] ^= byte(1 << uint(r.Intn(8)))
		s = base58.CheckEncode(payload)
	case 2: // address hash
		payload[3+r.Intn(4)] ^= byte(1 << uint(r.Intn(8)))
		s = base58.CheckEncode(payload)
	case 3: // encrypted part
		payload[7+r.Intn(32)] ^= byte(1 << uint(r.Intn(8)))
		s = base58.CheckEncode(payload)
	case 4: // length 38 / 40 with a valid checksum
		if r.Bool() {
			s = base58.CheckEncode(payload[:38])
		} else {
			s = base58.CheckEncode(append(payload, 0))
		}
	case 5:
		s = mutateStr(r, encStr)
	}
	dkH, deH, adH := "-", "-", "-"
	if b, err := base58.CheckDecode(s); err == nil && len(b) == 39 {
		dk2 := kdf(pw, b[3:7])
		de := ecb(dk2[32:], b[7:], false)
		pb := xorBytes(de, dk2[:32])
		dkH, deH = hx.Hex(dk2), hx.Hex(de)
		if k, err := keys.NewPrivateKeyFromBytes(pb); err == nil {
			adH = hs(k.Address())
		}
	}
	obs := c.safe(func() string {
		k, err := keys.NEP2Decrypt(s, pw, params)
		if err != nil {
			return "err"
		}
		return hx.Hex(k.Bytes())
	})
	c.line(fmt.Sprintf("nep2dec %s %s %s %s %s", hs(s), hs(pw), dkH, deH, adH), obs)
	if obs == "panic" {
		c.fail("nep2-decrypt-panic", "NEP2Decrypt(%q) panicked", s)
	}
	if kind >= 6 && obs != hx.Hex(priv.Bytes()) {
		c.fail("nep2-roundtrip", "NEP2Decrypt(NEP2Encrypt(k, %q), same) = %s", pass, obs)
	}
	if kind == 0 && obs != "err" {
		c.fail("nep2-wrong-passphrase", "NEP2Decrypt with passphrase %q instead of %q succeeded", pw, pass)
	}
	if obs == "err" {
		o.Count("layout:nep2-dec-err")
	} else {
		o.Count("layout:nep2-dec-ok")
	}
	o.Count(fmt.Sprintf("layout:nep2kind%d", kind))
	o.Seen("nep2l/" + s)
}
