package main

import (
	"bytes"
	"crypto/elliptic"
	"fmt"

	"github.com/nspcc-dev/neo-go/pkg/crypto/hash"
	"github.com/nspcc-dev/neo-go/pkg/crypto/keys"
	"github.com/nspcc-dev/neo-go/pkg/encoding/address"
)

// famKeys: the laws of signing / verification / key encodings on real keys. No model line is
// produced (these are computational facts about real cryptography); the negative cases ("fails for
// any other key, message or altered signature") are sampled here only.
func famKeys(c *ctx) {
	r := c.r
	o := c.o
	priv := c.pool.priv[r.Intn(len(c.pool.priv))]
	if r.Chance(1, 3) {
		k, err := keys.NewPrivateKeyFromBytes(r.Bytes(32))
		if err == nil {
			priv = k
		}
	}
	pub := priv.PublicKey()
	msg := r.Bytes(r.Intn(100))
	sig := priv.Sign(msg)
	h := hash.Sha256(msg)
	if len(sig) != keys.SignatureLen {
		c.fail("sig-length", "signature has %d bytes", len(sig))
	}
	if !pub.Verify(sig, h.BytesBE()) {
		c.fail("sign-verify", "Verify(Sign(m)) failed: key %x msg %x", pub.Bytes(), msg)
	}
	if sig2 := priv.Sign(msg); !bytes.Equal(sig, sig2) {
		c.fail("sign-deterministic", "two signatures of the same message differ: key %x msg %x", pub.Bytes(), msg)
	}
	if sig3 := priv.SignHash(h); !bytes.Equal(sig, sig3) {
		c.fail("sign-deterministic", "Sign(m) != SignHash(sha256(m)): key %x", pub.Bytes())
	}
	// another key
	other := c.pool.priv[r.Intn(len(c.pool.priv))]
	if !other.PublicKey().Equal(pub) {
		o.Count("keys:other-key")
		if other.PublicKey().Verify(sig, h.BytesBE()) {
			c.fail("verify-other-key", "signature of key %x verifies under key %x", pub.Bytes(), other.PublicKey().Bytes())
		}
	}
	// altered message
	m2 := append(append([]byte{}, msg...), 0)
	if r.Bool() && len(msg) > 0 {
		m2 = append([]byte{}, msg...)
		m2[r.Intn(len(m2))] ^= 1 << uint(r.Intn(8))
	}
	if pub.Verify(sig, hash.Sha256(m2).BytesBE()) {
		c.fail("verify-altered-message", "signature verifies for an altered message: key %x", pub.Bytes())
	}
	// altered signature
	s2 := append([]byte{}, sig...)
	switch r.Intn(4) {
	case 0:
		s2[r.Intn(len(s2))] ^= 1 << uint(r.Intn(8))
		o.Count("keys:sig-bitflip")
	case 1:
		s2 = s2[:len(s2)-1]
		o.Count("keys:sig-short")
	case 2:
		s2 = append(s2, 0)
		o.Count("keys:sig-long")
	default: // r and s swapped
		s2 = append(append([]byte{}, sig[32:]...), sig[:32]...)
		o.Count("keys:sig-swapped")
	}
	if !bytes.Equal(s2, sig) && pub.Verify(s2, h.BytesBE()) {
		c.fail("verify-altered-signature", "altered signature %x verifies: key %x msg %x", s2, pub.Bytes(), msg)
	}
	// public key encodings
	for _, enc := range [][]byte{pub.Bytes(), pub.UncompressedBytes()} {
		p2, err := keys.NewPublicKeyFromBytes(enc, elliptic.P256())
		if err != nil || !p2.Equal(pub) {
			c.fail("pubkey-roundtrip", "NewPublicKeyFromBytes(%x) err=%v", enc, err)
		}
	}
	if p3, err := keys.NewPublicKeyFromString(pub.StringCompressed()); err != nil || !p3.Equal(pub) {
		c.fail("pubkey-roundtrip", "NewPublicKeyFromString(%s) err=%v", pub.StringCompressed(), err)
	}
	// arbitrary bytes as a public key: no panic, and whatever decodes re-encodes to the same bytes
	{
		var raw []byte
		switch r.Intn(5) {
		case 0:
			raw = append([]byte{byte(2 + r.Intn(2))}, r.Bytes(32)...)
		case 1: // x at or above the field prime
			raw = append([]byte{byte(2 + r.Intn(2))}, bytes.Repeat([]byte{0xff}, 32)...)
			raw[32] -= byte(r.Intn(4))
		case 2:
			raw = append([]byte{4}, r.Bytes(64)...)
		case 3: // a valid encoding with one byte changed
			raw = append([]byte{}, pub.UncompressedBytes()...)
			raw[r.Intn(len(raw))] ^= 1 << uint(r.Intn(8))
		default:
			raw = r.Bytes(r.Intn(70))
		}
		func() {
			defer func() {
				if e := recover(); e != nil {
					c.fail("pubkey-decode-panic", "NewPublicKeyFromBytes(%x) panicked: %v", raw, e)
				}
			}()
			pk, err := keys.NewPublicKeyFromBytes(raw, elliptic.P256())
			if err != nil {
				o.Count("keys:pubkey-decode-err")
				return
			}
			o.Count("keys:pubkey-decode-ok")
			re := pk.Bytes()
			if len(raw) == 65 {
				re = pk.UncompressedBytes()
			}
			if !bytes.Equal(re, raw) {
				c.fail("pubkey-decode-reencode", "NewPublicKeyFromBytes(%x) re-encodes to %x", raw, re)
			}
		}()
	}
	// private key encodings
	if p4, err := keys.NewPrivateKeyFromHex(priv.String()); err != nil || !bytes.Equal(p4.Bytes(), priv.Bytes()) {
		c.fail("privkey-roundtrip", "NewPrivateKeyFromHex(String()) err=%v", err)
	}
	if p5, err := keys.NewPrivateKeyFromWIF(priv.WIF()); err != nil || !bytes.Equal(p5.Bytes(), priv.Bytes()) || !p5.PublicKey().Equal(pub) {
		c.fail("privkey-roundtrip", "NewPrivateKeyFromWIF(WIF()) err=%v", err)
	}
	// address <-> script hash
	if u, err := address.StringToUint160(pub.Address()); err != nil || u != pub.GetScriptHash() {
		c.fail("address-roundtrip", "StringToUint160(pub.Address()) = %s err=%v, script hash %s", u.StringBE(), err, pub.GetScriptHash().StringBE())
	}
	if pub.GetScriptHash() != hash.Hash160(pub.GetVerificationScript()) {
		c.fail("script-hash", "GetScriptHash != Hash160(GetVerificationScript)")
	}
	o.Seen(fmt.Sprintf("keys/%x/%x", pub.Bytes()[:6], h[:6]))
}

// famNEP2: NEP-2 encryption round trip; the standard scrypt parameters are slow, so most cases use
// small (still valid) parameters and only a few use the standard ones.
func famNEP2(c *ctx) {
	r := c.r
	priv := c.pool.priv[r.Intn(len(c.pool.priv))]
	params := keys.ScryptParams{N: 1 << uint(r.Range(1, 6)), R: r.Range(1, 4), P: r.Range(1, 2)}
	std := r.Chance(1, 12) // the standard (slow) parameters: a few cases per run
	if std {
		params = keys.NEP2ScryptParams()
		c.o.Count("nep2:standard-params")
	}
	passes := []string{"", "a", "password", "пароль", "páss", "with space ", "\x00\x01", "长密码长密码长密码"}
	pass := passes[r.Intn(len(passes))]
	if r.Bool() {
		pass = string(r.Bytes(r.Intn(12)))
	}
	enc, err := keys.NEP2Encrypt(priv, pass, params)
	if err != nil {
		c.fail("nep2-encrypt", "NEP2Encrypt failed: %v", err)
		return
	}
	dec, err := keys.NEP2Decrypt(enc, pass, params)
	if err != nil || !bytes.Equal(dec.Bytes(), priv.Bytes()) {
		c.fail("nep2-roundtrip", "NEP2Decrypt(NEP2Encrypt(k, %q), same) err=%v", pass, err)
	}
	// A wrong passphrase must differ as an HMAC key: PBKDF2/HMAC zero-pads short keys, so
	// "p" and "p\x00" are the same passphrase for scrypt (inherent to NEP-2, not a defect);
	// adding a non-NUL character always gives a different one (also after NFC normalisation).
	wrong := pass + "x"
	if r.Bool() {
		wrong = "x" + pass
	}
	if d2, err := keys.NEP2Decrypt(enc, wrong, params); err == nil {
		c.fail("nep2-wrong-passphrase", "NEP2Decrypt with passphrase %q instead of %q succeeded (key equal: %v)", wrong, pass, bytes.Equal(d2.Bytes(), priv.Bytes()))
	}
	// a damaged string
	if _, err := keys.NEP2Decrypt(mutateStr(r, enc), pass, params); err == nil {
		c.o.Count("nep2:mutated-accepted") // only possible by a 2^-32 checksum collision or a no-op mutation
	}
	c.o.Seen("nep2/" + enc)
}
