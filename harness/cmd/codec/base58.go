package main

import (
	"bytes"
	"fmt"
	"math/big"

	"github.com/nspcc-dev/neo-go/pkg/crypto/hash"
	"github.com/nspcc-dev/neo-go/pkg/crypto/keys"
	"github.com/nspcc-dev/neo-go/pkg/encoding/address"
	"github.com/nspcc-dev/neo-go/pkg/encoding/base58"
	"github.com/nspcc-dev/neo-go/pkg/util"

	"verif/harness/internal/hx"
	"verif/harness/internal/prng"
)

const b58alphabet = "123456789ABCDEFGHJKLMNPQRSTUVWXYZabcdefghijkmnopqrstuvwxyz"

// rawB58 is a plain base58 encoder (big.Int based) used to craft strings whose decoded bytes the
// harness controls completely (wrong checksum bytes, too short payloads).
func rawB58(b []byte) string {
	z := 0
	for z < len(b) && b[z] == 0 {
		z++
	}
	n := new(big.Int).SetBytes(b)
	var out []byte
	m := new(big.Int)
	base := big.NewInt(58)
	for n.Sign() > 0 {
		n.DivMod(n, base, m)
		out = append(out, b58alphabet[m.Int64()])
	}
	for i := 0; i < z; i++ {
		out = append(out, '1')
	}
	for i, j := 0, len(out)-1; i < j; i, j = i+1, j-1 {
		out[i], out[j] = out[j], out[i]
	}
	return string(out)
}

// badChecksum returns the Base58 text of payload‖checksum with one checksum byte altered.
func badChecksum(r *prng.R, payload []byte) string {
	full := append(append([]byte{}, payload...), hash.Checksum(payload)...)
	full[len(full)-1-r.Intn(4)] ^= byte(1 << uint(r.Intn(8)))
	return rawB58(full)
}

func genPayload(r *prng.R, maxLen int) []byte {
	l := r.Intn(maxLen + 1)
	b := r.Bytes(l)
	switch r.Intn(5) {
	case 0: // leading zeros
		for i := 0; i < l && i < r.Intn(6); i++ {
			b[i] = 0
		}
	case 1: // all zero
		for i := range b {
			b[i] = 0
		}
	case 2: // all 0xff
		for i := range b {
			b[i] = 0xff
		}
	}
	return b
}

func chkEnc(c *ctx, b []byte) string {
	var s string
	obs := c.safe(func() string {
		s = base58.CheckEncode(append([]byte{}, b...))
		return hs(s)
	})
	c.line("chkenc "+hx.Hex(b), obs)
	if obs == "panic" {
		c.fail("base58-panic", "CheckEncode(%x) panicked", b)
	}
	return s
}

// chkDec returns the decoded payload (nil, false on error).
func chkDec(c *ctx, s string) ([]byte, bool) {
	var out []byte
	okk := false
	obs := c.safe(func() string {
		b, err := base58.CheckDecode(s)
		if err != nil {
			return "err"
		}
		out, okk = b, true
		return hx.Hex(b)
	})
	c.line("chkdec "+hs(s), obs)
	if obs == "panic" {
		c.fail("base58-panic", "CheckDecode(%q) panicked", s)
	}
	if okk {
		// partial inverse: a string that decodes re-encodes to itself
		if re := base58.CheckEncode(append([]byte{}, out...)); re != s {
			c.fail("base58-decode-reencode", "CheckDecode(%q) = %x re-encodes to %q", s, out, re)
		}
		c.o.Count("base58:decode-ok")
	} else {
		c.o.Count("base58:decode-err")
	}
	return out, okk
}

// mutateStr damages a base58 string in one of several ways.
func mutateStr(r *prng.R, s string) string {
	b := []byte(s)
	switch r.Intn(8) {
	case 0: // another alphabet char at a random place (checksum should fail)
		if len(b) > 0 {
			b[r.Intn(len(b))] = b58alphabet[r.Intn(58)]
		}
	case 1: // a char outside the alphabet
		if len(b) > 0 {
			b[r.Intn(len(b))] = "0OIl +/-_"[r.Intn(9)]
		}
	case 2: // high-bit byte
		if len(b) > 0 {
			b[r.Intn(len(b))] = byte(0x80 + r.Intn(128))
		}
	case 3: // extra leading '1'
		b = append([]byte{'1'}, b...)
	case 4: // drop a leading char
		if len(b) > 0 {
			b = b[1:]
		}
	case 5: // truncate
		b = b[:r.Intn(len(b)+1)]
	case 6: // append
		b = append(b, b58alphabet[r.Intn(58)])
	default: // swap two chars
		if len(b) > 1 {
			i, j := r.Intn(len(b)), r.Intn(len(b))
			b[i], b[j] = b[j], b[i]
		}
	}
	return string(b)
}

func randB58(r *prng.R) string {
	l := r.Intn(12)
	b := make([]byte, l)
	for i := range b {
		b[i] = b58alphabet[r.Intn(58)]
		if r.Chance(1, 4) {
			b[i] = '1'
		}
	}
	return string(b)
}

func famBase58(c *ctx) {
	r := c.r
	b := genPayload(r, 50)
	s := chkEnc(c, b)
	back, ok := chkDec(c, s)
	if len(b) == 0 {
		// Base58Check carries at least a version byte: CheckDecode demands len >= 5, so the empty
		// payload is outside the codec's domain (reported as an observation, not a failure).
		c.o.Count("base58:empty-payload")
	} else if !ok || !bytes.Equal(back, b) {
		c.fail("base58-roundtrip", "CheckDecode(CheckEncode(%x)) = %x ok=%v", b, back, ok)
	}
	lz := 0
	for lz < len(b) && b[lz] == 0 {
		lz++
	}
	c.o.Count(fmt.Sprintf("base58:leading-zeros=%d", min(lz, 4)))
	switch r.Intn(5) {
	case 0:
		chkDec(c, mutateStr(r, s))
	case 1:
		chkDec(c, randB58(r))
	case 2: // one wrong checksum byte (each of the four positions)
		chkDec(c, badChecksum(r, b))
		c.o.Count("base58:bad-checksum-byte")
	case 3: // fewer than 5 bytes in all
		chkDec(c, rawB58(r.Bytes(r.Intn(5))))
		c.o.Count("base58:short-raw")
	default:
		// a short payload: valid base58, fewer than 5 bytes or bad checksum
		chkDec(c, mutateStr(r, mutateStr(r, s)))
	}
	c.o.Seen("b58/" + s)
}

func addrEnc(c *ctx, u util.Uint160) string {
	var s string
	obs := c.safe(func() string {
		s = address.Uint160ToString(u)
		return hs(s)
	})
	c.line("addr_enc "+hx.Hex(u.BytesBE()), obs)
	return s
}

func addrDec(c *ctx, s string) (util.Uint160, bool) {
	var u util.Uint160
	okk := false
	obs := c.safe(func() string {
		v, err := address.StringToUint160(s)
		if err != nil {
			return "err"
		}
		u, okk = v, true
		return hx.Hex(v.BytesBE())
	})
	c.line("addr_dec "+hs(s), obs)
	if obs == "panic" {
		c.fail("address-decode-panic", "StringToUint160(%q) panicked", s)
	}
	if okk {
		if re := address.Uint160ToString(u); re != s {
			c.fail("address-decode-reencode", "StringToUint160(%q) = %s, which encodes to %q", s, u.StringBE(), re)
		}
		c.o.Count("address:decode-ok")
	} else {
		c.o.Count("address:decode-err")
	}
	return u, okk
}

func famAddress(c *ctx) {
	r := c.r
	var u util.Uint160
	copy(u[:], genPayload(r, 20))
	if r.Bool() {
		copy(u[:], r.Bytes(20))
	}
	s := addrEnc(c, u)
	back, ok := addrDec(c, s)
	if !ok || back != u {
		c.fail("address-roundtrip", "StringToUint160(Uint160ToString(%s)) = %s ok=%v", u.StringBE(), back.StringBE(), ok)
	}
	switch r.Intn(4) {
	case 0: // payload of another length behind a valid checksum
		l := r.Intn(30)
		p := append([]byte{address.Prefix}, r.Bytes(l)...)
		c.o.Count(fmt.Sprintf("address:payload-len-%s", map[bool]string{true: "20", false: "other"}[l == 20]))
		addrDec(c, base58.CheckEncode(p))
	case 1: // wrong prefix
		p := append([]byte{byte(r.Intn(256))}, u.BytesBE()...)
		addrDec(c, base58.CheckEncode(p))
	case 2:
		if r.Bool() {
			addrDec(c, mutateStr(r, s))
		} else {
			addrDec(c, badChecksum(r, append([]byte{address.Prefix}, u.BytesBE()...)))
		}
	default:
		addrDec(c, randB58(r))
	}
	c.o.Seen("addr/" + s)
}

func wifEnc(c *ctx, key []byte, ver byte, comp bool) (string, bool) {
	var s string
	okk := false
	obs := c.safe(func() string {
		v, err := keys.WIFEncode(append([]byte{}, key...), ver, comp)
		if err != nil {
			return "err"
		}
		s, okk = v, true
		return hs(v)
	})
	c.line(fmt.Sprintf("wif_enc %s %d %d", hx.Hex(key), ver, map[bool]int{true: 1, false: 0}[comp]), obs)
	return s, okk
}

func wifDec(c *ctx, s string, ver byte) (key []byte, comp bool, okk bool) {
	obs := c.safe(func() string {
		w, err := keys.WIFDecode(s, ver)
		if err != nil {
			return "err"
		}
		key, comp, okk = w.PrivateKey.Bytes(), w.Compressed, true
		return fmt.Sprintf("%s %d", hx.Hex(key), map[bool]int{true: 1, false: 0}[comp])
	})
	c.line(fmt.Sprintf("wif_dec %s %d", hs(s), ver), obs)
	if obs == "panic" {
		c.fail("wif-decode-panic", "WIFDecode(%q) panicked", s)
	}
	if okk {
		// partial inverse: a string that decodes re-encodes to itself
		if re, err := keys.WIFEncode(key, ver, comp); err != nil || re != s {
			c.fail("wif-decode-reencode", "WIFDecode(%q, %d) = %x compressed=%v re-encodes to %q err=%v", s, ver, key, comp, re, err)
		}
		c.o.Count("wif:decode-ok")
	} else {
		c.o.Count("wif:decode-err")
	}
	return
}

func famWIF(c *ctx) {
	r := c.r
	key := r.Bytes(32)
	switch r.Intn(6) {
	case 0:
		key = c.pool.priv[r.Intn(len(c.pool.priv))].Bytes()
	case 1: // leading zero bytes in the key
		for i := 0; i < r.Range(1, 4); i++ {
			key[i] = 0
		}
	case 2:
		key = r.Bytes(r.Range(30, 34)) // mostly a wrong length
	}
	ver := byte(0)
	if r.Chance(1, 3) {
		ver = byte(r.Intn(256))
	}
	comp := r.Bool()
	s, ok := wifEnc(c, key, ver, comp)
	if ok != (len(key) == 32) {
		c.fail("wif-encode-length", "WIFEncode of a %d-byte key: ok=%v", len(key), ok)
	}
	if ok {
		k2, c2, ok2 := wifDec(c, s, ver)
		if !ok2 || !bytes.Equal(k2, key) || c2 != comp {
			c.fail("wif-roundtrip", "WIFDecode(WIFEncode(%x, %d, %v)) = %x %v ok=%v", key, ver, comp, k2, c2, ok2)
		}
		switch r.Intn(4) {
		case 0: // another version expected
			wifDec(c, s, ver+1+byte(r.Intn(254)))
		case 1:
			wifDec(c, mutateStr(r, s), ver)
		case 2: // payloads of other shapes behind a valid checksum
			v := ver
			if v == 0 {
				v = keys.WIFVersion
			}
			l := 33
			if r.Chance(1, 3) {
				l = r.Range(30, 35)
			}
			p := append([]byte{v}, r.Bytes(l)...)
			if len(p) >= 34 { // the compression flag byte: right, or one of the near misses
				p[33] = []byte{1, 1, 0, 2, 0xff, 0x81}[r.Intn(6)]
			}
			wifDec(c, base58.CheckEncode(p), ver)
		}
	}
	c.o.Seen("wif/" + s)
}
