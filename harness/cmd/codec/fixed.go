package main

import (
	"fmt"
	"math"
	"math/big"
	"strings"

	"github.com/nspcc-dev/neo-go/pkg/encoding/fixedn"

	"verif/harness/internal/prng"
)

func genInt64(r *prng.R) int64 {
	bounds := []int64{0, 1, -1, 9, 10, 99999999, 100000000, 100000001, -99999999, -100000000, -100000001,
		50000000, -50000000, 10000000, -10, math.MaxInt64, math.MinInt64, math.MaxInt64 - 1, math.MinInt64 + 1,
		9223372036800000000, -9223372036800000000, 1 << 32, -(1 << 32)}
	switch r.Intn(7) {
	case 0:
		return bounds[r.Intn(len(bounds))]
	case 1: // strictly between -1 and 1
		return int64(r.Intn(200000000)) - 100000000 + 0
	case 2: // trailing zeros in the fraction
		p := int64(1)
		for i := r.Intn(9); i > 0; i-- {
			p *= 10
		}
		return (int64(r.Intn(2000)) - 1000) * p
	case 3:
		return int64(r.U64())
	case 4:
		return int64(r.U64()) >> uint(r.Intn(64))
	case 5:
		return bounds[r.Intn(len(bounds))] + int64(r.Intn(3)) - 1
	default:
		return int64(r.Intn(1000000)) - 500000
	}
}

func f8Str(c *ctx, v int64) string {
	var s string
	obs := c.safe(func() string {
		s = fixedn.Fixed8(v).String()
		return hs(s)
	})
	c.line(fmt.Sprintf("f8str %d", v), obs)
	return s
}

func f8Parse(c *ctx, s string) (int64, bool) {
	var v int64
	okk := false
	obs := c.safe(func() string {
		f, err := fixedn.Fixed8FromString(s)
		if err != nil {
			return "err"
		}
		v, okk = int64(f), true
		return fmt.Sprint(v)
	})
	c.line("f8parse "+hs(s), obs)
	if obs == "panic" {
		c.fail("fixed8-parse-panic", "Fixed8FromString(%q) panicked", s)
	}
	if okk {
		c.o.Count("fixed8:parse-ok")
	} else {
		c.o.Count("fixed8:parse-err")
	}
	return v, okk
}

var nastyDecimals = []string{"", "-", "+", ".", "1.", ".5", "-.5", "1.-5", "1.+5", "+1.5", "-0.5", "-0", "-0.0", "00.5", "007",
	"1.123456789", "1.12345678", "1e5", " 1", "1 ", "0x1", "1_0", "\xef\xbc\x91", "1..2", "1.2.3", "--1", "+-1", "1.0000000000",
	"92233720368.54775807", "92233720368.54775808", "-92233720368.54775808", "-92233720368.54775809", "92233720369",
	"18446744073709551616", "-0.00000001", "0.00000001", "0.000000001", "1.\x00", "1,5", "٣"}

func mutateDecimal(r *prng.R, s string) string {
	b := []byte(s)
	switch r.Intn(8) {
	case 0:
		if len(b) > 0 {
			b[r.Intn(len(b))] = "0123456789.-+ e_x"[r.Intn(17)]
		}
	case 1:
		b = append([]byte{"-+0. "[r.Intn(5)]}, b...)
	case 2:
		b = append(b, "0.5-"[r.Intn(4)])
	case 3:
		if len(b) > 0 {
			i := r.Intn(len(b))
			b = append(b[:i], b[i+1:]...)
		}
	case 4:
		b = append(b, []byte(strings.Repeat("0", r.Intn(10)))...)
	case 5:
		if i := strings.IndexByte(s, '.'); i >= 0 {
			b = append([]byte(s[:i+1]), append([]byte{"-+"[r.Intn(2)]}, s[i+1:]...)...)
		}
	case 6:
		b = append(b, r.Bytes(1)...)
	default:
		b = append(b, []byte(fmt.Sprint(r.Intn(1000000000)))...)
	}
	return string(b)
}

func famFixed8(c *ctx) {
	r := c.r
	v := genInt64(r)
	s := f8Str(c, v)
	back, ok := f8Parse(c, s)
	if !ok || back != v {
		c.fail("fixed8-roundtrip", "Fixed8FromString(Fixed8(%d).String() = %q) = %d ok=%v", v, s, back, ok)
	}
	switch {
	case v > -100000000 && v < 0:
		c.o.Count("fixed8:(-1,0)")
	case v == math.MinInt64 || v == math.MaxInt64:
		c.o.Count("fixed8:int64-edge")
	case v%100000000 == 0:
		c.o.Count("fixed8:integral")
	}
	switch r.Intn(3) {
	case 0:
		f8Parse(c, nastyDecimals[r.Intn(len(nastyDecimals))])
	case 1:
		f8Parse(c, mutateDecimal(r, s))
	default:
		f8Parse(c, mutateDecimal(r, mutateDecimal(r, s)))
	}
	c.o.Seen(fmt.Sprintf("f8/%d", v))
}

func decTo(c *ctx, bi *big.Int, p int) string {
	var s string
	arg := new(big.Int).Set(bi)
	obs := c.safe(func() string {
		s = fixedn.ToString(arg, p)
		return hs(s)
	})
	c.line(fmt.Sprintf("dec_to %s %d", bi.String(), p), obs)
	if arg.Cmp(bi) != 0 {
		c.fail("decimal-tostring-mutates", "ToString changed its argument %s -> %s", bi, arg)
	}
	return s
}

func decFrom(c *ctx, s string, p int) (*big.Int, bool) {
	var v *big.Int
	okk := false
	obs := c.safe(func() string {
		x, err := fixedn.FromString(s, p)
		if err != nil {
			return "err"
		}
		v, okk = x, true
		return x.String()
	})
	c.line(fmt.Sprintf("dec_from %s %d", hs(s), p), obs)
	if obs == "panic" {
		c.fail("decimal-parse-panic", "FromString(%q, %d) panicked", s, p)
	}
	return v, okk
}

func famDecimal(c *ctx) {
	r := c.r
	p := r.Intn(20)
	switch r.Intn(4) {
	case 0: // around the pow10 table size (16) and the uint64 limit (19/20)
		p = []int{0, 1, 8, 16, 17, 18, 19, 20, 21}[r.Intn(9)]
	case 1:
		p = r.Intn(41)
	}
	pw := new(big.Int).Exp(big.NewInt(10), big.NewInt(int64(p)), nil)
	bi := new(big.Int)
	switch r.Intn(6) {
	case 0: // |bi| < 10^p: integer part zero
		bi.SetBytes(r.Bytes(r.Range(1, 17)))
		bi.Mod(bi, pw)
	case 1: // multiples of 10^p ± small
		bi.Mul(pw, big.NewInt(int64(r.Intn(2000))-1000))
		bi.Add(bi, big.NewInt(int64(r.Intn(5))-2))
	case 2: // trailing zeros
		bi.SetInt64(int64(r.Intn(100000)))
		bi.Mul(bi, new(big.Int).Exp(big.NewInt(10), big.NewInt(int64(r.Intn(p+3))), nil))
	case 3:
		bi = genBig(r, 120)
	case 4:
		bi.SetInt64(genInt64(r))
	default:
		bi.SetInt64(int64(r.Intn(2000)) - 1000)
	}
	if r.Bool() {
		bi.Neg(bi)
	}
	s := decTo(c, bi, p)
	back, ok := decFrom(c, s, p)
	if !ok || back.Cmp(bi) != 0 {
		c.fail("decimal-roundtrip", "FromString(ToString(%s, %d) = %q, %d) = %v ok=%v", bi, p, s, p, back, ok)
	}
	if bi.Sign() < 0 && bi.CmpAbs(pw) < 0 {
		c.o.Count("decimal:(-1,0)")
	}
	switch {
	case p == 0:
		c.o.Count("decimal:precision=0")
	case p <= 16:
		c.o.Count("decimal:precision1-16")
	case p <= 19:
		c.o.Count("decimal:precision17-19")
	default:
		c.o.Count("decimal:precision>=20")
	}
	switch r.Intn(3) {
	case 0:
		decFrom(c, nastyDecimals[r.Intn(len(nastyDecimals))], p)
	case 1:
		decFrom(c, mutateDecimal(r, s), p)
	default:
		decFrom(c, s, r.Intn(41)) // another precision: too many fraction digits is an error
	}
	// the power-of-ten table after the conversions of this case: 10^k through the parser for k around
	// the table size, a second high-precision conversion, and the same number printed again
	for _, k := range []int{16, r.Intn(19), 17 + r.Intn(24)} {
		one, ok := decFrom(c, "1", k)
		if ok {
			k := k
			c.pureLine(fmt.Sprintf("pow10 %d", k), one.String(), func() string {
				x, err := fixedn.FromString("1", k)
				if err != nil {
					return "err"
				}
				return x.String()
			})
		}
		if !ok || one.Cmp(new(big.Int).Exp(big.NewInt(10), big.NewInt(int64(k)), nil)) != 0 {
			c.fail("decimal-pow10", "FromString(\"1\", %d) = %v after the conversions of this case", k, one)
		}
	}
	if s2 := decTo(c, bi, p); s2 != s {
		c.fail("not-a-function-of-arguments", "ToString(%s, %d) = %q, and %q when asked again", bi, p, s, s2)
	}
	c.o.Seen(fmt.Sprintf("dec/%s/%d", bi, p))
}
