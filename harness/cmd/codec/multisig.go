package main

import (
	"crypto/elliptic"
	"crypto/sha256"
	"encoding/binary"
	"fmt"
	"runtime"
	"sort"
	"strings"
	"sync/atomic"

	"github.com/nspcc-dev/neo-go/pkg/crypto/keys"
	"github.com/nspcc-dev/neo-go/pkg/vm"

	"verif/harness/internal/prng"
)

// keyPool: real P-256 keys derived deterministically from the run seed.
type keyPool struct {
	priv []*keys.PrivateKey
}

func newKeyPool(seed uint64) *keyPool {
	p := &keyPool{}
	for i := 0; len(p.priv) < 24; i++ {
		var b [16]byte
		binary.LittleEndian.PutUint64(b[:], seed)
		binary.LittleEndian.PutUint64(b[8:], uint64(i))
		d := sha256.Sum256(b[:])
		k, err := keys.NewPrivateKeyFromBytes(d[:])
		if err != nil {
			continue
		}
		p.priv = append(p.priv, k)
	}
	return p
}

func parseKey(b []byte) *keys.PublicKey {
	pk, err := keys.NewPublicKeyFromBytes(b, elliptic.P256())
	if err != nil {
		return nil
	}
	return pk
}

// malformedKey returns bytes that keys.NewPublicKeyFromBytes rejects.
func malformedKey(r *prng.R, good []byte) []byte {
	if len(good) != 33 { // already damaged: start from some well-formed shape
		good = append([]byte{2}, r.Bytes(32)...)
	}
	for {
		var b []byte
		switch r.Intn(7) {
		case 0: // compressed, x not on curve
			b = append([]byte{byte(2 + r.Intn(2))}, r.Bytes(32)...)
		case 1: // truncated
			b = append([]byte{}, good[:32]...)
		case 2: // extra byte
			b = append(append([]byte{}, good...), 0)
		case 3:
			b = []byte{}
		case 4: // infinity
			b = []byte{0}
		case 5: // bad prefix
			b = append([]byte{5}, good[1:]...)
		default: // uncompressed, not on curve
			b = append([]byte{4}, r.Bytes(64)...)
		}
		if parseKey(b) == nil {
			return b
		}
	}
}

// greedy is the reference: signatures matched to keys in order.
func greedy(ok [][]bool, m, n int) bool {
	j := 0
	for i := 0; i < m; i++ {
		for j < n && !ok[i][j] {
			j++
		}
		if j == n {
			return false
		}
		j++
	}
	return true
}

var procsCycle = []int{1, 2, 4, 3, 8, 16, 2, 1, 5, 4}

// runPar calls the real CheckMultisigPar `runs` times under different GOMAXPROCS settings and with
// competing busy goroutines, and returns the set of outcomes seen.
func runPar(h []byte, pk, sg [][]byte, runs int, salt int) map[string]int {
	res := map[string]int{}
	old := runtime.GOMAXPROCS(0)
	defer runtime.GOMAXPROCS(old)
	for i := 0; i < runs; i++ {
		runtime.GOMAXPROCS(procsCycle[(i+salt)%len(procsCycle)])
		var stop atomic.Bool
		if (i+salt)%3 == 2 { // noise: two spinning goroutines compete for the Ps
			for g := 0; g < 2; g++ {
				go func() {
					x := 0
					for !stop.Load() {
						x++
						if x%1024 == 0 {
							runtime.Gosched()
						}
					}
				}()
			}
		}
		func() {
			defer func() {
				if r := recover(); r != nil {
					res["panic"]++
				}
			}()
			if vm.CheckMultisigPar(elliptic.P256(), h, pk, sg) {
				res["accept"]++
			} else {
				res["reject"]++
			}
		}()
		stop.Store(true)
	}
	return res
}

func setString(m map[string]int) string {
	var ks []string
	for k := range m {
		ks = append(ks, k)
	}
	sort.Strings(ks)
	return strings.Join(ks, ",")
}

func bits(bs []bool) string {
	var sb strings.Builder
	for _, b := range bs {
		if b {
			sb.WriteByte('1')
		} else {
			sb.WriteByte('0')
		}
	}
	if sb.Len() == 0 {
		return "-"
	}
	return sb.String()
}

// msigCase runs one m-of-n configuration given as raw key and signature bytes.
func msigCase(c *ctx, h []byte, pk, sg [][]byte, runs int) {
	m, n := len(sg), len(pk)
	pubs := make([]*keys.PublicKey, n)
	bad := make([]bool, n)
	anyBad := false
	for j := range pk {
		pubs[j] = parseKey(pk[j])
		bad[j] = pubs[j] == nil
		anyBad = anyBad || bad[j]
	}
	ok := make([][]bool, m)
	flat := make([]bool, 0, m*n)
	for i := range sg {
		ok[i] = make([]bool, n)
		for j := range pk {
			ok[i][j] = pubs[j] != nil && pubs[j].Verify(sg[i], h)
			flat = append(flat, ok[i][j])
		}
	}
	outs := runPar(h, pk, sg, runs, c.k)
	obs := setString(outs)
	c.line(fmt.Sprintf("msig %d %d %s %s", m, n, bits(flat), bits(bad)), obs)
	want := greedy(ok, m, n)
	if len(outs) > 1 {
		key := "multisig-schedule-dependent"
		if anyBad {
			key = "multisig-badkey-schedule"
		}
		c.fail(key, "CheckMultisigPar gave different results for the same input over %d runs: %v (m=%d n=%d ok=%s bad=%s)", runs, outs, m, n, bits(flat), bits(bad))
	} else if !anyBad {
		got := obs == "accept"
		if obs == "panic" {
			c.fail("multisig-panic", "CheckMultisigPar panicked on well-formed keys (m=%d n=%d ok=%s)", m, n, bits(flat))
		} else if got != want {
			c.fail("multisig-accept-mismatch", "CheckMultisigPar = %v, signatures can be matched to keys in order: %v (m=%d n=%d ok=%s)", got, want, m, n, bits(flat))
		}
	}
	c.o.Count("multisig:outcome:" + obs)
	if anyBad {
		c.o.Count("multisig:with-malformed-key")
	}
	if m == 1 {
		c.o.Count("multisig:m=1")
	} else if m == n {
		c.o.Count("multisig:m=n")
	}
	if n > 12 {
		c.o.Count("multisig:n>12")
	}
	c.o.Seen(fmt.Sprintf("msig/%d/%d/%s/%s", m, n, bits(flat), bits(bad)))
}

func famMultisig(c *ctx) {
	r := c.r
	n := r.Range(1, 9)
	if r.Chance(1, 5) {
		n = r.Range(10, 21)
	}
	var m int
	switch r.Intn(6) {
	case 0:
		m = 1
	case 1:
		m = n
	case 2:
		m = n - (n-1)/3
	default:
		m = r.Range(1, n)
	}
	poolN := r.Range(1, min(n+2, len(c.pool.priv)))
	owner := make([]int, n) // which pool key sits at position j
	pk := make([][]byte, n)
	for j := range pk {
		owner[j] = r.Intn(poolN)
		pk[j] = c.pool.priv[owner[j]].PublicKey().Bytes()
	}
	if r.Chance(1, 3) { // the order CreateMultiSigRedeemScript would produce
		idx := make([]int, n)
		for i := range idx {
			idx[i] = i
		}
		sort.Slice(idx, func(a, b int) bool {
			return c.pool.priv[owner[idx[a]]].PublicKey().Cmp(c.pool.priv[owner[idx[b]]].PublicKey()) < 0
		})
		o2, p2 := make([]int, n), make([][]byte, n)
		for i, x := range idx {
			o2[i], p2[i] = owner[x], pk[x]
		}
		owner, pk = o2, p2
	}
	msg := r.Bytes(32)
	// a valid in-order assignment first
	pos := make([]int, 0, m)
	perm := make([]int, n)
	for i := range perm {
		perm[i] = i
	}
	for i := n - 1; i > 0; i-- {
		j := r.Intn(i + 1)
		perm[i], perm[j] = perm[j], perm[i]
	}
	pos = append(pos, perm[:m]...)
	sort.Ints(pos)
	sg := make([][]byte, m)
	for i := range sg {
		sg[i] = c.pool.priv[owner[pos[i]]].SignHash([32]byte(msg))
	}
	// perturbations
	for t := r.Weighted([]int{45, 30, 15, 10}); t > 0; t-- {
		i := r.Intn(m)
		switch r.Intn(9) {
		case 0:
			sg[i] = r.Bytes(64)
			c.o.Count("multisig:mut:random-sig")
		case 1: // signature of another message
			sg[i] = c.pool.priv[owner[pos[i]]].Sign(r.Bytes(8))
			c.o.Count("multisig:mut:other-msg")
		case 2: // a key outside the list
			sg[i] = c.pool.priv[len(c.pool.priv)-1-r.Intn(3)].SignHash([32]byte(msg))
			c.o.Count("multisig:mut:foreign-key")
		case 3: // wrong length
			sg[i] = append([]byte{}, sg[i][:r.Intn(len(sg[i])+1)]...)
			c.o.Count("multisig:mut:short-sig")
		case 4:
			sg[i] = append(append([]byte{}, sg[i]...), 0)
			c.o.Count("multisig:mut:long-sig")
		case 5: // one bit flipped
			b := append([]byte{}, sg[i]...)
			if len(b) > 0 {
				b[r.Intn(len(b))] ^= 1 << uint(r.Intn(8))
			}
			sg[i] = b
			c.o.Count("multisig:mut:bitflip")
		case 6: // swap two signatures (order matters)
			j := r.Intn(m)
			sg[i], sg[j] = sg[j], sg[i]
			c.o.Count("multisig:mut:swap")
		case 7: // the same signature twice
			sg[i] = sg[r.Intn(m)]
			c.o.Count("multisig:mut:dup-sig")
		default: // signed by another key of the list
			sg[i] = c.pool.priv[owner[r.Intn(n)]].SignHash([32]byte(msg))
			c.o.Count("multisig:mut:other-listed-key")
		}
	}
	if r.Chance(1, 6) && m >= 3 {
		// exactly one bad signature somewhere inside an otherwise complete in-order assignment: the
		// two ends meet with every remaining check succeeding but one signature left over
		for i := range sg {
			sg[i] = c.pool.priv[owner[pos[i]]].SignHash([32]byte(msg))
		}
		sg[r.Range(1, m-2)] = r.Bytes(64)
		c.o.Count("multisig:one-bad-inside")
	}
	if r.Chance(1, 8) {
		for t := r.Range(1, 2); t > 0; t-- {
			j := r.Intn(n)
			pk[j] = malformedKey(r, pk[j])
		}
	}
	runs := 8
	if c.tier == "thorough" {
		runs = 16
	}
	msigCase(c, msg, pk, sg, runs)
}
