package main

import (
	"bytes"
	"fmt"
	"math/big"

	"github.com/nspcc-dev/neo-go/pkg/encoding/bigint"

	"verif/harness/internal/hx"
	"verif/harness/internal/prng"
)

// genBig produces integers biased to the sign-bit / carry / byte-length boundaries.
func genBig(r *prng.R, maxBits int) *big.Int {
	one := big.NewInt(1)
	n := new(big.Int)
	switch r.Intn(8) {
	case 0: // tiny
		n.SetInt64(int64(r.Intn(40)) - 20)
	case 1, 2: // ±2^k + d, k on/near a byte boundary
		k := 8*r.Intn(maxBits/8+1) + r.Intn(3) - 1
		if k < 0 {
			k = 0
		}
		n.Lsh(one, uint(k))
		n.Add(n, big.NewInt(int64(r.Intn(5))-2))
	case 3: // ±2^k + d, any k
		n.Lsh(one, uint(r.Intn(maxBits+1)))
		n.Add(n, big.NewInt(int64(r.Intn(5))-2))
	case 4: // all-ones patterns 2^k-1, 0x7f.., 0x80..
		n.Lsh(one, uint(r.Intn(maxBits+1)))
		n.Sub(n, one)
	case 5: // random of random bit length
		bl := r.Intn(maxBits + 1)
		n.SetBytes(r.Bytes(bl/8 + 1))
		n.Rsh(n, uint(8-bl%8))
	case 6: // bytes full of ff/00/80/7f
		pat := []byte{0xff, 0x00, 0x80, 0x7f}
		b := make([]byte, r.Intn(maxBits/8+1)+1)
		for i := range b {
			b[i] = pat[r.Intn(4)]
		}
		n.SetBytes(b)
	default:
		n.SetUint64(r.U64() >> uint(r.Intn(64)))
	}
	if r.Bool() {
		n.Neg(n)
	}
	return n
}

func minimalLE(b []byte) bool {
	l := len(b)
	switch {
	case l == 0:
		return true
	case l == 1:
		return b[0] != 0
	}
	t, u := b[l-1], b[l-2]
	return !((t == 0 && u < 0x80) || (t == 0xff && u >= 0x80))
}

var (
	vmMin = new(big.Int).Neg(new(big.Int).Lsh(big.NewInt(1), 255))
	vmMax = new(big.Int).Lsh(big.NewInt(1), 255) // exclusive
)

func biTo(c *ctx, n *big.Int) []byte {
	orig := new(big.Int).Set(n)
	var enc []byte
	obs := c.safe(func() string {
		enc = bigint.ToBytes(n)
		return hx.Hex(enc)
	})
	c.line("bi_to "+orig.String(), obs)
	if obs == "panic" {
		c.fail("bigint-to-panic", "ToBytes(%s) panicked", orig)
		return nil
	}
	if n.Cmp(orig) != 0 {
		c.fail("bigint-to-mutates", "ToBytes changed its argument %s -> %s", orig, n)
	}
	// laws on the real functions
	back := bigint.FromBytes(append([]byte{}, enc...))
	if back.Cmp(orig) != 0 {
		c.fail("bigint-from-to", "FromBytes(ToBytes(%s)) = %s (enc %x)", orig, back, enc)
	}
	if !minimalLE(enc) {
		c.fail("bigint-not-minimal", "ToBytes(%s) = %x is not minimal", orig, enc)
	}
	in := orig.Cmp(vmMin) >= 0 && orig.Cmp(vmMax) < 0
	if (len(enc) <= bigint.MaxBytesLen) != in {
		c.fail("bigint-len32", "len(ToBytes(%s)) = %d, in 256-bit range: %v", orig, len(enc), in)
	}
	c.o.Count(fmt.Sprintf("bigint:len%02d", min(len(enc), 40)/4*4))
	if orig.Sign() < 0 {
		c.o.Count("bigint:neg")
	}
	return enc
}

func biFrom(c *ctx, b []byte) {
	if b == nil {
		b = []byte{}
	}
	var v *big.Int
	obs := c.safe(func() string {
		v = bigint.FromBytes(append([]byte{}, b...))
		return v.String()
	})
	c.line("bi_from "+hx.Hex(b), obs)
	if obs == "panic" {
		c.fail("bigint-from-panic", "FromBytes(%x) panicked", b)
		return
	}
	re := bigint.ToBytes(v)
	if minimalLE(b) {
		c.o.Count("bigint:from-minimal")
		if !bytes.Equal(re, b) {
			c.fail("bigint-to-from-minimal", "ToBytes(FromBytes(%x)) = %x", b, re)
		}
	} else {
		c.o.Count("bigint:from-nonminimal")
		if len(re) >= len(b) {
			c.fail("bigint-reencode-longer", "non-minimal %x re-encodes to %x", b, re)
		}
	}
	if bigint.FromBytes(re).Cmp(v) != 0 {
		c.fail("bigint-from-to", "FromBytes(ToBytes(%s)) differs", v)
	}
}

func famBigint(c *ctx) {
	r := c.r
	n := genBig(r, 300)
	enc := biTo(c, n)
	switch r.Intn(5) {
	case 0: // the encoding itself
		biFrom(c, enc)
	case 1: // redundant sign bytes appended
		b := append([]byte{}, enc...)
		pad := byte(0)
		if n.Sign() < 0 {
			pad = 0xff
		}
		for i := r.Range(1, 4); i > 0; i-- {
			b = append(b, pad)
		}
		biFrom(c, b)
	case 2: // random bytes
		biFrom(c, r.Bytes(r.Intn(41)))
	case 3: // bytes over a small alphabet (sign-byte runs)
		pat := []byte{0xff, 0x00, 0x80, 0x7f, 0x01, 0xfe}
		b := make([]byte, r.Intn(36))
		for i := range b {
			b[i] = pat[r.Intn(len(pat))]
		}
		biFrom(c, b)
	default: // word-size boundaries of the decoder (8-byte words)
		l := 8*r.Range(0, 5) + r.Range(-1, 1)
		if l < 0 {
			l = 0
		}
		b := r.Bytes(l)
		if l > 0 && r.Bool() {
			b[l-1] |= 0x80
		}
		biFrom(c, b)
	}
	c.o.Seen("bi/" + n.String())
}
