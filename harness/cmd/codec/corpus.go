package main

import (
	"bytes"
	"math"
	"math/big"

	"github.com/nspcc-dev/neo-go/pkg/crypto/keys"
	"github.com/nspcc-dev/neo-go/pkg/encoding/address"
	"github.com/nspcc-dev/neo-go/pkg/encoding/base58"
	"github.com/nspcc-dev/neo-go/pkg/smartcontract"
	"github.com/nspcc-dev/neo-go/pkg/util"

	"verif/harness/internal/hx"
)

func pow2(k uint) *big.Int { return new(big.Int).Lsh(big.NewInt(1), k) }

// corpusCases: hand-written nasty cases, run first (cases 0..n-1). They include the inputs of the
// defects found earlier (now fixed in /repo), so a regression is found at once.
func corpusCases() []func(c *ctx) {
	return []func(c *ctx){
		// 0: integer codec at every byte-length boundary up to 33 bytes
		func(c *ctx) {
			for _, k := range []uint{0, 1, 6, 7, 8, 9, 14, 15, 16, 17, 31, 32, 62, 63, 64, 65, 127, 128, 247, 248, 254, 255, 256, 257} {
				for _, d := range []int64{-2, -1, 0, 1} {
					for _, sg := range []int64{1, -1} {
						n := new(big.Int).Add(pow2(k), big.NewInt(d))
						n.Mul(n, big.NewInt(sg))
						enc := biTo(c, n)
						biFrom(c, enc)
					}
				}
			}
			for _, b := range [][]byte{{}, {0}, {0xff}, {0, 0}, {0xff, 0xff}, {0x80}, {0x80, 0}, {0x80, 0xff}, {0x7f, 0xff}, {0xff, 0},
				{0, 0x80}, {0xff, 0x7f}, {0, 0, 0, 0, 0, 0, 0, 0x80}, {0xff, 0xff, 0xff, 0xff, 0xff, 0xff, 0xff, 0xff, 0xff},
				{1, 0, 0, 0, 0, 0, 0, 0, 0xff}, {0, 0, 0, 0, 0, 0, 0, 0, 0xff}, {0, 0, 0, 0, 0, 0, 0, 0, 0x80}} {
				biFrom(c, b)
			}
		},
		// 1: Merkle lists 0..9 elements, equal hashes
		func(c *ctx) {
			for n := 0; n <= 9; n++ {
				hs := make([]util.Uint256, n)
				for i := range hs {
					copy(hs[i][:], c.r.Bytes(32))
				}
				merkleCase(c, hs)
			}
			same := make([]util.Uint256, 5)
			merkleCase(c, same)
		},
		// 2: fixed-point numbers in (-1,0), at the int64 edges (defects fixed by 97740fb, 2d7270c)
		func(c *ctx) {
			for _, v := range []int64{-50000000, -1, -99999999, -100000000, -100000001, math.MinInt64, math.MaxInt64, math.MinInt64 + 1, 0, 1, 10, 100000000} {
				s := f8Str(c, v)
				back, ok := f8Parse(c, s)
				if !ok || back != v {
					c.fail("fixed8-roundtrip", "Fixed8FromString(Fixed8(%d).String() = %q) = %d ok=%v", v, s, back, ok)
				}
			}
			for _, s := range nastyDecimals {
				f8Parse(c, s)
			}
		},
		// 3: decimals in (-1,0) (defect fixed by 97740fb) and the malformed strings at several precisions
		func(c *ctx) {
			for _, t := range []struct {
				v int64
				p int
			}{{-5, 1}, {-15, 1}, {5, 1}, {-1, 8}, {-99999999, 8}, {-100000000, 8}, {0, 0}, {-7, 0}, {-10, 2}, {1000, 3}, {-1, 19}, {1, 19}} {
				bi := big.NewInt(t.v)
				s := decTo(c, bi, t.p)
				back, ok := decFrom(c, s, t.p)
				if !ok || back.Cmp(bi) != 0 {
					c.fail("decimal-roundtrip", "FromString(ToString(%s, %d) = %q) = %v ok=%v", bi, t.p, s, back, ok)
				}
			}
			// fractions that do not fit uint64 (defect fixed by 50dfe0d: ToString(2^64, 20) did not return)
			p64 := pow2(64)
			for _, t := range []struct {
				v *big.Int
				p int
			}{{p64, 20}, {new(big.Int).Add(p64, new(big.Int).Exp(big.NewInt(10), big.NewInt(19), nil)), 20},
				{new(big.Int).Neg(p64), 20}, {new(big.Int).Mul(p64, big.NewInt(10)), 21}, {pow2(128), 40}, {p64, 30}} {
				s := decTo(c, t.v, t.p)
				back, ok := decFrom(c, s, t.p)
				if !ok || back.Cmp(t.v) != 0 {
					c.fail("decimal-roundtrip", "FromString(ToString(%s, %d) = %q) = %v ok=%v", t.v, t.p, s, back, ok)
				}
			}
			if s := decTo(c, p64, 20); s != "0.18446744073709551616" {
				c.fail("decimal-roundtrip", "ToString(2^64, 20) = %q", s)
			}
			for _, p := range []int{0, 1, 8, 18, 25} {
				for _, s := range nastyDecimals {
					decFrom(c, s, p)
				}
			}
		},
		// 4: Base58Check payloads of every length 0..29 behind the address prefix (defect fixed by b0c2769)
		func(c *ctx) {
			for l := 0; l < 30; l++ {
				p := []byte{address.Prefix}
				for i := 1; i <= l; i++ {
					p = append(p, byte(i))
				}
				addrDec(c, base58.CheckEncode(p))
			}
			for _, s := range []string{"", "1", "11111", "0", "NNNNNNNNNNNNNNNNNNNNNNNNNNNNNNNNNN", "Nb2CHYY5wTh2ac58mTue5S3wpG6bQv5hSY"} {
				addrDec(c, s)
				chkDec(c, s)
			}
			for _, b := range [][]byte{{}, {0}, {0, 0, 0}, {0, 0, 0, 1}, {0xff}, {0, 0xff}} {
				s := chkEnc(c, b)
				chkDec(c, s)
			}
		},
		// 5: multi-signature with a malformed key in the middle (defect fixed by f7fcf49) and small shapes
		func(c *ctx) {
			msg := c.r.Bytes(32)
			k := c.pool.priv
			sig := func(i int) []byte { return k[i].SignHash([32]byte(msg)) }
			pb := func(i int) []byte { return k[i].PublicKey().Bytes() }
			bad := append([]byte{2}, make([]byte, 32)...)
			bad[32] = 5
			if parseKey(bad) != nil {
				bad[32] = 1
			}
			msigCase(c, msg, [][]byte{pb(0), bad, pb(1), pb(2)}, [][]byte{sig(0), sig(1), sig(2)}, 60)
			msigCase(c, msg, [][]byte{pb(0), pb(1), bad, pb(2)}, [][]byte{sig(0), sig(1), sig(2)}, 60)
			msigCase(c, msg, [][]byte{pb(0), bad}, [][]byte{sig(0)}, 8)
			msigCase(c, msg, [][]byte{bad, pb(0)}, [][]byte{sig(0)}, 8)
			msigCase(c, msg, [][]byte{pb(0)}, [][]byte{sig(0)}, 8)
			msigCase(c, msg, [][]byte{pb(0)}, [][]byte{sig(1)}, 8)
			msigCase(c, msg, [][]byte{pb(0), pb(1)}, [][]byte{sig(0), sig(1)}, 20)
			msigCase(c, msg, [][]byte{pb(0), pb(1)}, [][]byte{sig(1), sig(0)}, 20)
			msigCase(c, msg, [][]byte{pb(0), pb(0)}, [][]byte{sig(0), sig(0)}, 20)
			msigCase(c, msg, [][]byte{pb(0), pb(1), pb(2)}, [][]byte{sig(0), sig(2)}, 20)
			msigCase(c, msg, [][]byte{pb(0), pb(1), pb(2)}, [][]byte{sig(2), sig(0)}, 20)
			msigCase(c, msg, [][]byte{pb(0), pb(1), pb(1), pb(2), pb(3)}, [][]byte{sig(1), sig(1), sig(3)}, 20)
			msigCase(c, msg, [][]byte{pb(0), pb(1), pb(2), pb(3), pb(4), pb(5), pb(6)}, [][]byte{sig(0), sig(2), sig(3), sig(5), sig(6)}, 20)
			msigCase(c, msg, [][]byte{pb(0), pb(1), pb(2), pb(3), pb(4), pb(5), pb(6)}, [][]byte{sig(0), sig(3), sig(2), sig(5), sig(6)}, 20)
		},
		// 6: integer pushes at the opcode boundaries
		func(c *ctx) {
			for _, v := range []int64{-2, -1, 0, 1, 15, 16, 17, 127, 128, -128, -129, 255, 256, 32767, 32768, -32768, -32769,
				math.MaxInt32, math.MaxInt32 + 1, math.MinInt32, math.MinInt32 - 1, math.MaxInt64, math.MinInt64} {
				emitCase(c, big.NewInt(v), true)
				emitCase(c, big.NewInt(v), false)
			}
			for _, k := range []uint{63, 64, 127, 128, 254, 255, 256} {
				for _, d := range []int64{-1, 0, 1} {
					n := new(big.Int).Add(pow2(k), big.NewInt(d))
					emitCase(c, n, false)
					emitCase(c, new(big.Int).Neg(n), false)
				}
			}
		},
		// 7: multisig scripts with 1, 16, 17 and 1024/1025 keys
		func(c *ctx) {
			for _, t := range [][2]int{{1, 1}, {16, 16}, {17, 17}, {1, 17}, {1024, 1024}, {1025, 1025}, {1024, 1025}} {
				m, n := t[0], t[1]
				pubs := make(keys.PublicKeys, n)
				for i := range pubs {
					pubs[i] = c.pool.priv[i%len(c.pool.priv)].PublicKey()
				}
				var script []byte
				obs := c.safe(func() string {
					s, err := smartcontract.CreateMultiSigRedeemScript(m, pubs)
					if err != nil {
						return "err"
					}
					script = s
					return hx.Hex(s)
				})
				flat := []byte{}
				for _, p := range pubs {
					flat = append(flat, p.Bytes()...)
				}
				c.line("msbuild "+big.NewInt(int64(m)).String()+" "+hx.Hex(flat), obs)
				if script != nil {
					pm, pks, ok := msParse(c, script)
					// more than 1024 keys: the builder only bounds m; the parser rejects (observation)
					if n <= 1024 && (!ok || pm != m || len(pks) != n) {
						c.fail("script-parse-build", "ParseMultiSigContract(CreateMultiSigRedeemScript(%d of %d)) = %d, %d keys, ok=%v", m, n, pm, len(pks), ok)
					}
				}
			}
		},
		// 8: the builder's sort: equal X / different Y in both orders, duplicates, the infinity key,
		// 15/16/17 keys (PUSH15 | PUSHINT8 16 | PUSHINT8 17), m = n, m > n, m = 0
		func(c *ctx) {
			k := func(i int) *keys.PublicKey { return c.pool.priv[i].PublicKey() }
			inf := &keys.PublicKey{}
			lists := []keys.PublicKeys{
				{k(0), negKey(k(0))}, {negKey(k(0)), k(0)}, {k(1), k(1)}, {k(2), k(1), k(2), negKey(k(1))},
				{inf, k(0)}, {k(0), inf}, {inf, inf, k(3)}, {k(5), k(4), k(3), k(2), k(1), k(0)},
			}
			for _, l := range lists {
				buildSorted(c, 1, l)
				buildSorted(c, len(l), l)
				cmpLines(c, l, 4)
			}
			for _, n := range []int{15, 16, 17} {
				l := make(keys.PublicKeys, n)
				for i := range l {
					l[i] = k((i * 7) % len(c.pool.priv))
				}
				for _, m := range []int{0, 1, n - 1, n, n + 1} {
					buildSorted(c, m, l)
				}
			}
		},
		// 9: every encoding of the counts of a 1-of-1 and a 16-of-17 script (accepted and rejected
		// kinds), key pushes of 32/33/34/255 bytes
		func(c *ctx) {
			key := append([]byte{2}, bytes.Repeat([]byte{7}, 32)...)
			tail := []byte{0x41, 0x9e, 0xd0, 0xdc, 0x3a}
			for _, mn := range [][2]int{{1, 1}, {16, 17}} {
				for ka := 0; ka <= 13; ka++ {
					for _, kc := range []int{0, ka} {
						var s []byte
						s = append(s, countPush(c.r, mn[0], ka)...)
						for i := 0; i < mn[1]; i++ {
							s = append(append(s, 0x0c, 33), key...)
						}
						s = append(s, countPush(c.r, mn[1], kc)...)
						msParse(c, append(s, tail...))
					}
				}
			}
			for _, l := range []int{32, 33, 34, 255} {
				s := []byte{0x11, 0x0c, byte(l)}
				s = append(s, bytes.Repeat([]byte{3}, l)...)
				s = append(s, 0x11)
				msParse(c, append(s, tail...))
			}
		},
	}
}
