package main

import (
	"bytes"
	"encoding/hex"
	"encoding/json"
	"fmt"
	"strings"

	"github.com/nspcc-dev/neo-go/pkg/util"

	"verif/harness/internal/hx"
)

type uintOps struct {
	size     int
	decBE    func([]byte) ([]byte, error)
	decLE    func([]byte) ([]byte, error)
	decStrBE func(string) ([]byte, error)
	decStrLE func(string) ([]byte, error)
	strBE    func([]byte) string
	strLE    func([]byte) string
	bytesLE  func([]byte) []byte
	json     func([]byte) ([]byte, error) // marshal + unmarshal
}

var u160 = uintOps{
	size: 20,
	decBE: func(b []byte) ([]byte, error) {
		u, err := util.Uint160DecodeBytesBE(b)
		return u.BytesBE(), err
	},
	decLE: func(b []byte) ([]byte, error) {
		u, err := util.Uint160DecodeBytesLE(b)
		return u.BytesBE(), err
	},
	decStrBE: func(s string) ([]byte, error) {
		u, err := util.Uint160DecodeStringBE(s)
		return u.BytesBE(), err
	},
	decStrLE: func(s string) ([]byte, error) {
		u, err := util.Uint160DecodeStringLE(s)
		return u.BytesBE(), err
	},
	strBE:   func(b []byte) string { return util.Uint160(b).StringBE() },
	strLE:   func(b []byte) string { return util.Uint160(b).StringLE() },
	bytesLE: func(b []byte) []byte { return util.Uint160(b).BytesLE() },
	json: func(b []byte) ([]byte, error) {
		j, err := json.Marshal(util.Uint160(b))
		if err != nil {
			return nil, err
		}
		var u util.Uint160
		err = json.Unmarshal(j, &u)
		return u.BytesBE(), err
	},
}

var u256 = uintOps{
	size: 32,
	decBE: func(b []byte) ([]byte, error) {
		u, err := util.Uint256DecodeBytesBE(b)
		return u.BytesBE(), err
	},
	decLE: func(b []byte) ([]byte, error) {
		u, err := util.Uint256DecodeBytesLE(b)
		return u.BytesBE(), err
	},
	decStrBE: func(s string) ([]byte, error) {
		u, err := util.Uint256DecodeStringBE(s)
		return u.BytesBE(), err
	},
	decStrLE: func(s string) ([]byte, error) {
		u, err := util.Uint256DecodeStringLE(s)
		return u.BytesBE(), err
	},
	strBE:   func(b []byte) string { return util.Uint256(b).StringBE() },
	strLE:   func(b []byte) string { return util.Uint256(b).StringLE() },
	bytesLE: func(b []byte) []byte { return util.Uint256(b).BytesLE() },
	json: func(b []byte) ([]byte, error) {
		j, err := json.Marshal(util.Uint256(b))
		if err != nil {
			return nil, err
		}
		var u util.Uint256
		err = json.Unmarshal(j, &u)
		return u.BytesBE(), err
	},
}

func obsBytes(c *ctx, f func() ([]byte, error)) string {
	return c.safe(func() string {
		b, err := f()
		if err != nil {
			return "err"
		}
		return hx.Hex(b)
	})
}

func famUint(c *ctx) {
	r := c.r
	ops := u160
	if r.Bool() {
		ops = u256
	}
	u := r.Bytes(ops.size)
	if r.Chance(1, 4) {
		copy(u, genPayload(r, ops.size))
	}
	// value -> strings / bytes -> value
	sBE, sLE := ops.strBE(u), ops.strLE(u)
	c.line("u_strbe "+hx.Hex(u), hs(sBE))
	c.line("u_strle "+hx.Hex(u), hs(sLE))
	for _, t := range []struct {
		name string
		got  func() ([]byte, error)
	}{
		{"StringBE", func() ([]byte, error) { return ops.decStrBE(sBE) }},
		{"StringLE", func() ([]byte, error) { return ops.decStrLE(sLE) }},
		{"BytesBE", func() ([]byte, error) { return ops.decBE(append([]byte{}, u...)) }},
		{"BytesLE", func() ([]byte, error) { return ops.decLE(ops.bytesLE(u)) }},
		{"JSON", func() ([]byte, error) { return ops.json(u) }},
	} {
		b, err := t.got()
		if err != nil || !bytes.Equal(b, u) {
			c.fail("uint-roundtrip", "Uint%d %s round trip of %x gave %x err=%v", ops.size*8, t.name, u, b, err)
		}
	}
	// decoders on inputs of right and wrong shape
	b := u
	switch r.Intn(4) {
	case 0:
		b = r.Bytes(r.Intn(ops.size + 4))
	case 1:
		b = r.Bytes(ops.size + r.Range(-1, 1))
	}
	c.line(fmt.Sprintf("u_decbe %d %s", ops.size, hx.Hex(b)), obsBytes(c, func() ([]byte, error) { return ops.decBE(append([]byte{}, b...)) }))
	c.line(fmt.Sprintf("u_decle %d %s", ops.size, hx.Hex(b)), obsBytes(c, func() ([]byte, error) { return ops.decLE(append([]byte{}, b...)) }))
	s := sBE
	switch r.Intn(6) {
	case 0:
		s = strings.ToUpper(s)
	case 1:
		s = "0x" + s
	case 2:
		s = s[:r.Intn(len(s)+1)]
	case 3:
		x := []byte(s)
		x[r.Intn(len(x))] = "gG xz-"[r.Intn(6)]
		s = string(x)
	case 4:
		s = hex.EncodeToString(r.Bytes(ops.size + r.Range(-1, 1)))
	}
	c.line(fmt.Sprintf("u_decstrbe %d %s", ops.size, hs(s)), obsBytes(c, func() ([]byte, error) { return ops.decStrBE(s) }))
	c.line(fmt.Sprintf("u_decstrle %d %s", ops.size, hs(s)), obsBytes(c, func() ([]byte, error) { return ops.decStrLE(s) }))
	c.o.Count(fmt.Sprintf("uint:%d", ops.size*8))
	c.o.Seen("u/" + sBE)
}
