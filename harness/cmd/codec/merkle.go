package main

import (
	"fmt"

	"github.com/nspcc-dev/neo-go/pkg/crypto/hash"
	"github.com/nspcc-dev/neo-go/pkg/util"

	"verif/harness/internal/hx"
)

// specRoot is the recursively defined pairwise double-SHA256 root (the property's reference).
func specRoot(hs []util.Uint256) util.Uint256 {
	switch len(hs) {
	case 0:
		return util.Uint256{}
	case 1:
		return hs[0]
	}
	var next []util.Uint256
	for i := 0; i < len(hs); i += 2 {
		l, r := hs[i], hs[i]
		if i+1 < len(hs) {
			r = hs[i+1]
		}
		next = append(next, hash.DoubleSha256(append(l.BytesBE(), r.BytesBE()...)))
	}
	return specRoot(next)
}

func merkleCase(c *ctx, hs []util.Uint256) {
	flat := make([]byte, 0, 32*len(hs))
	for _, h := range hs {
		flat = append(flat, h.BytesBE()...)
	}
	var tree, calc string
	obs := c.safe(func() string {
		tree = "err"
		t, err := hash.NewMerkleTree(append([]util.Uint256{}, hs...))
		if err == nil {
			tree = hx.Hex(t.Root().BytesBE())
		}
		calc = hx.Hex(hash.CalcMerkleRoot(append([]util.Uint256{}, hs...)).BytesBE())
		return tree + " " + calc
	})
	c.line("merkle "+hx.Hex(flat), obs)
	want := hx.Hex(specRoot(hs).BytesBE())
	if obs == "panic" {
		c.fail("merkle-panic", "panic on %d hashes", len(hs))
		return
	}
	if calc != want {
		c.fail("merkle-calc-root", "CalcMerkleRoot of %d hashes = %s, recursive definition gives %s", len(hs), calc, want)
	}
	if len(hs) > 0 && tree != want {
		c.fail("merkle-tree-root", "NewMerkleTree(%d hashes).Root() = %s, recursive definition gives %s", len(hs), tree, want)
	}
	if len(hs) == 0 && tree != "err" {
		c.fail("merkle-tree-empty", "NewMerkleTree of no hashes did not fail")
	}
	b := "n>64"
	switch {
	case len(hs) <= 2:
		b = fmt.Sprintf("n=%d", len(hs))
	case len(hs) <= 8:
		b = "n3-8"
	case len(hs) <= 64:
		b = "n9-64"
	}
	c.o.Count("merkle:" + b)
	if len(hs)%2 == 1 {
		c.o.Count("merkle:odd")
	}
	c.o.Seen(fmt.Sprintf("merkle/%d/%s", len(hs), want))
}

func famMerkle(c *ctx) {
	r := c.r
	var n int
	switch r.Intn(6) {
	case 0:
		n = r.Intn(4)
	case 1: // powers of two ± 1
		n = (1 << uint(r.Intn(7))) + r.Range(-1, 1)
	case 2, 3:
		n = r.Intn(20)
	case 4:
		n = r.Intn(70)
	default:
		if c.tier == "thorough" || r.Chance(1, 3) {
			n = r.Range(64, 300)
		} else {
			n = r.Range(20, 64)
		}
	}
	hs := make([]util.Uint256, n)
	dup := r.Chance(1, 5) // repeated hashes (equal siblings)
	for i := range hs {
		if dup && i > 0 && r.Bool() {
			hs[i] = hs[r.Intn(i)]
			continue
		}
		copy(hs[i][:], r.Bytes(32))
	}
	merkleCase(c, hs)
}
