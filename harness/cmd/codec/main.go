// Command codec: correspondence + oracle stream for C18 (keys, signatures, addresses, number
// encodings, multi-signature matching, Merkle root, script builders/parsers).
//
// Every case belongs to one family; it calls the real packages in-process, prints one op line per
// call for the Lean driver (drv_codec) together with what the real code returned, and checks the
// property's algebraic laws directly on the real functions (the oracle).
package main

import (
	"fmt"

	"verif/harness/internal/hx"
	"verif/harness/internal/prng"
)

type ctx struct {
	seed uint64
	o    *hx.Out
	r    *prng.R
	k    int
	tier string
	pool *keyPool
}

type family struct {
	name   string
	weight int
	run    func(c *ctx)
}

func main() {
	f := hx.ParseFlags()
	o := hx.NewOut(f.Out)
	defer o.Close()
	pool := newKeyPool(f.Seed)
	fams := []family{
		{"bigint", 22, famBigint},
		{"merkle", 8, famMerkle},
		{"multisig", 14, famMultisig},
		{"base58", 14, famBase58},
		{"address", 8, famAddress},
		{"wif", 6, famWIF},
		{"fixed8", 12, famFixed8},
		{"decimal", 10, famDecimal},
		{"uint", 8, famUint},
		{"emit", 12, famEmit},
		{"script", 8, famScript},
		{"keys", 6, famKeys},
		{"curves", 6, famCurves},
		{"nep2", 1, famNEP2},
		{"layout", 12, famLayout},
	}
	weights := make([]int, len(fams))
	for i, fm := range fams {
		weights[i] = fm.weight
	}
	corpus := corpusCases()
	n := f.N(6000, 150000)
	for k := 0; k < n; k++ {
		if !f.Want(k) {
			continue
		}
		c := &ctx{seed: f.Seed, o: o, r: prng.ForCase(f.Seed, k), k: k, tier: f.Tier, pool: pool}
		o.Case(k)
		if k < len(corpus) {
			o.Count("family:corpus")
			runSafe(c, "corpus", corpus[k])
			continue
		}
		fm := fams[c.r.Weighted(weights)]
		o.Count("family:" + fm.name)
		runSafe(c, fm.name, fm.run)
	}
}

// runSafe: a panic that escapes a family function is a harness defect or an unexpected panic of the
// real code outside a guarded call; either way it must not be silent.
func runSafe(c *ctx, name string, fn func(c *ctx)) {
	defer func() {
		if r := recover(); r != nil {
			c.o.Fail("unexpected-panic:"+name, c.k, "%v", r)
		}
	}()
	fn(c)
}

func (c *ctx) line(op, obs string) {
	c.o.Line(op, obs)
	if c.k >= 8 && c.k < 20 && len(op) < 200 {
		c.o.Sample(op + " -> " + obs)
	}
}

func (c *ctx) fail(key, format string, a ...any) { c.o.Fail(key, c.k, format, a...) }

func hs(s string) string { return hx.Hex([]byte(s)) }

var _ = fmt.Sprintf
