// Command codec: correspondence + oracle stream for C18 (keys, signatures, addresses, number
// encodings, multi-signature matching, Merkle root, script builders/parsers).
//
// Every case belongs to one family; it calls the real packages in-process, prints one op line per
// call for the Lean driver (drv_codec) together with what the real code returned, and checks the
// property's algebraic laws directly on the real functions (the oracle).
package main

import (
	"crypto/elliptic"
	"fmt"

	"verif/harness/internal/hx"
	"verif/harness/internal/prng"
)

// pureCall: a call of the real code that must be a function of its arguments only (the packages keep
// precomputed tables and caches: fixedn's power-of-ten table, the public-key cache, the curve parameters,
// big-integer constants). Every such call of a case is evaluated again at the end of the case, in the
// reverse order, after all the other calls of the case: the answer must be the same.
type pureCall struct {
	op, obs string
	f       func() string
}

type ctx struct {
	pures   []pureCall
	lastF   func() string
	lastObs string
	seed uint64
	o    *hx.Out
	r    *prng.R
	k    int
	tier string
	pool *keyPool
}

type family struct {
	name   string
	weight int
	run    func(c *ctx)
}

func main() {
	f := hx.ParseFlags()
	o := hx.NewOut(f.Out)
	defer o.Close()
	pool := newKeyPool(f.Seed)
	fams := []family{
		{"bigint", 22, famBigint},
		{"merkle", 8, famMerkle},
		{"multisig", 14, famMultisig},
		{"base58", 14, famBase58},
		{"address", 8, famAddress},
		{"wif", 6, famWIF},
		{"fixed8", 12, famFixed8},
		{"decimal", 10, famDecimal},
		{"uint", 8, famUint},
		{"emit", 12, famEmit},
		{"script", 8, famScript},
		{"keys", 6, famKeys},
		{"curves", 6, famCurves},
		{"nep2", 1, famNEP2},
		{"layout", 12, famLayout},
	}
	weights := make([]int, len(fams))
	for i, fm := range fams {
		weights[i] = fm.weight
	}
	corpus := corpusCases()
	curves0 := curveSnapshot()
	n := f.N(6000, 150000)
	for k := 0; k < n; k++ {
		if !f.Want(k) {
			continue
		}
		c := &ctx{seed: f.Seed, o: o, r: prng.ForCase(f.Seed, k), k: k, tier: f.Tier, pool: pool}
		o.Case(k)
		if k < len(corpus) {
			o.Count("family:corpus")
			runSafe(c, "corpus", corpus[k])
			runSafe(c, "corpus-recheck", func(c *ctx) { c.recheck() })
			continue
		}
		fm := fams[c.r.Weighted(weights)]
		o.Count("family:" + fm.name)
		runSafe(c, fm.name, fm.run)
		runSafe(c, fm.name+"-recheck", func(c *ctx) { c.recheck() })
		if now := curveSnapshot(); now != curves0 {
			c.fail("curve-params-changed", "the shared curve parameters changed during this case: %s -> %s", curves0, now)
			curves0 = now
		}
	}
}

// runSafe: a panic that escapes a family function is a harness defect or an unexpected panic of the
// real code outside a guarded call; either way it must not be silent.
func runSafe(c *ctx, name string, fn func(c *ctx)) {
	defer func() {
		if r := recover(); r != nil {
			c.o.Fail("unexpected-panic:"+name, c.k, "%v", r)
		}
	}()
	fn(c)
}

// safe is hx.Safe that remembers the closure: the next c.line with this observation registers it as a pure call.
func (c *ctx) safe(f func() string) string {
	obs := hx.Safe(f)
	c.lastF, c.lastObs = f, obs
	return obs
}

func (c *ctx) pureLine(op, obs string, f func() string) {
	c.lastF, c.lastObs = f, obs
	c.line(op, obs)
}

// recheck: every pure call of the case again, last first.
func (c *ctx) recheck() {
	for i := len(c.pures) - 1; i >= 0; i-- {
		p := c.pures[i]
		if again := hx.Safe(p.f); again != p.obs {
			c.fail("not-a-function-of-arguments", "%s answered %s, and %s when asked again after the other %d calls of the case", clip(p.op), clip(p.obs), clip(again), len(c.pures)-1)
			return
		}
	}
	c.o.Add("pure:rechecked", len(c.pures))
}

// curveSnapshot: the shared parameter objects of the two curves (math/big values handed out by
// reference); no call of the packages may change them.
func curveSnapshot() string {
	s := ""
	for _, p := range []*elliptic.CurveParams{elliptic.P256().Params(), k1Curve.Params()} {
		s += fmt.Sprintf("%s %s %s %s %s %d|", p.P, p.N, p.B, p.Gx, p.Gy, p.BitSize)
	}
	return s
}

func clip(s string) string {
	if len(s) > 160 {
		return s[:160] + "..."
	}
	return s
}

func (c *ctx) line(op, obs string) {
	if c.lastF != nil && c.lastObs == obs && len(c.pures) < 200 {
		c.pures = append(c.pures, pureCall{op, obs, c.lastF})
	}
	c.lastF = nil
	c.o.Line(op, obs)
	if c.k >= 8 && c.k < 20 && len(op) < 200 {
		c.o.Sample(op + " -> " + obs)
	}
}

func (c *ctx) fail(key, format string, a ...any) { c.o.Fail(key, c.k, format, a...) }

func hs(s string) string { return hx.Hex([]byte(s)) }

var _ = fmt.Sprintf
