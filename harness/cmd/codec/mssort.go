package main

import (
	"bytes"
	"crypto/elliptic"
	"encoding/binary"
	"fmt"
	"math/big"
	"strings"

	"github.com/nspcc-dev/neo-go/pkg/crypto/hash"
	"github.com/nspcc-dev/neo-go/pkg/crypto/keys"
	"github.com/nspcc-dev/neo-go/pkg/io"
	"github.com/nspcc-dev/neo-go/pkg/smartcontract"
	"github.com/nspcc-dev/neo-go/pkg/vm/emit"

	"verif/harness/internal/hx"
	"verif/harness/internal/prng"
)

// keyField: a public key as the model sees it: `inf` or X|Y (2*32 bytes, big-endian).
func keyField(p *keys.PublicKey) string {
	if p.IsInfinity() {
		return "inf"
	}
	b := make([]byte, 64)
	p.X.FillBytes(b[:32])
	p.Y.FillBytes(b[32:])
	return hx.Hex(b)
}

func keyFields(ps keys.PublicKeys) string {
	if len(ps) == 0 {
		return "-"
	}
	f := make([]string, len(ps))
	for i, p := range ps {
		f[i] = keyField(p)
	}
	return strings.Join(f, ",")
}

// refLess: the order the property demands, written independently of PublicKey.Cmp:
// infinity first, then X, then Y as integers. Returns -1/0/1.
func refCmp(a, b *keys.PublicKey) int {
	ai, bi := a.X == nil && a.Y == nil, b.X == nil && b.Y == nil
	switch {
	case ai && bi:
		return 0
	case ai:
		return -1
	case bi:
		return 1
	}
	if c := a.X.Cmp(b.X); c != 0 {
		return c
	}
	return a.Y.Cmp(b.Y)
}

// negKey: the other point with the same X (Y' = P - Y); it is on the curve as well.
func negKey(p *keys.PublicKey) *keys.PublicKey {
	return &keys.PublicKey{Curve: p.Curve, X: new(big.Int).Set(p.X), Y: new(big.Int).Sub(p.Curve.Params().P, p.Y)}
}

// genKeyList: n keys with repeated keys, equal-X pairs, fresh keys and (rarely) the infinity key.
func genKeyList(c *ctx, n int, allowInf bool) keys.PublicKeys {
	r := c.r
	pubs := make(keys.PublicKeys, 0, n)
	for len(pubs) < n {
		var k *keys.PublicKey
		switch x := r.Intn(20); {
		case x < 8:
			k = c.pool.priv[r.Intn(len(c.pool.priv))].PublicKey()
		case x < 12 && len(pubs) > 0: // a repeated key (another pointer or the same one)
			k = pubs[r.Intn(len(pubs))]
			if r.Bool() {
				cp := *k
				k = &cp
			}
			c.o.Count("script:key-dup")
		case x < 16 && len(pubs) > 0: // same X, other Y
			q := pubs[r.Intn(len(pubs))]
			if q.IsInfinity() {
				continue
			}
			k = negKey(q)
			c.o.Count("script:key-sameX")
		case x == 19 && allowInf && r.Chance(1, 6):
			k = &keys.PublicKey{}
			c.o.Count("script:key-inf")
		default:
			p, err := keys.NewPrivateKeyFromBytes(r.Bytes(32))
			if err != nil {
				continue
			}
			k = p.PublicKey()
		}
		pubs = append(pubs, k)
	}
	return pubs
}

func hasInf(ps keys.PublicKeys) bool {
	for _, p := range ps {
		if p.IsInfinity() {
			return true
		}
	}
	return false
}

func shuffled(r *prng.R, ps keys.PublicKeys) keys.PublicKeys {
	q := ps.Copy()
	for i := len(q) - 1; i > 0; i-- {
		j := r.Intn(i + 1)
		q[i], q[j] = q[j], q[i]
	}
	return q
}

// buildSorted: CreateMultiSigRedeemScript on the keys in the given (input) order; the model gets
// the same order and sorts itself. Checks on the real code: error iff 1 <= m <= n is violated; the
// argument is left sorted and is a permutation of the input; the script parses back to (m, the
// sorted compressed keys); every permutation of the input gives the same script (and script hash).
func buildSorted(c *ctx, m int, input keys.PublicKeys) []byte {
	r := c.r
	n := len(input)
	pubs := input.Copy()
	var script []byte
	obs := c.safe(func() string {
		s, err := smartcontract.CreateMultiSigRedeemScript(m, pubs)
		if err != nil {
			return "err"
		}
		script = s
		return hx.Hex(s)
	})
	c.line(fmt.Sprintf("msbuildk %d %s", m, keyFields(input)), obs)
	if obs == "panic" {
		c.fail("script-build-panic", "CreateMultiSigRedeemScript(%d of %d) panicked", m, n)
		return nil
	}
	valid := m >= 1 && m <= n && m <= 1024 // the builder bounds m (not n) by 1024
	if (obs != "err") != valid {
		c.fail("script-build-range", "CreateMultiSigRedeemScript(%d of %d) err=%v", m, n, obs == "err")
	}
	if script == nil {
		c.o.Count("script:build-err")
		return nil
	}
	c.o.Count("script:build-ok")
	// the argument after the call: sorted, and the same keys
	for i := 1; i < n; i++ {
		if refCmp(pubs[i-1], pubs[i]) > 0 {
			c.fail("script-sort-order", "after CreateMultiSigRedeemScript keys %d,%d are out of order (X then Y): %s > %s", i-1, i, keyField(pubs[i-1]), keyField(pubs[i]))
			break
		}
	}
	cnt := map[string]int{}
	for _, p := range input {
		cnt[keyField(p)]++
	}
	for _, p := range pubs {
		cnt[keyField(p)]--
	}
	for k, v := range cnt {
		if v != 0 {
			c.fail("script-sort-perm", "sorting changed the multiset of keys (%s: %+d)", k, -v)
			break
		}
	}
	inf := hasInf(input)
	sorted := make([][]byte, n)
	for i, p := range pubs {
		sorted[i] = p.Bytes()
	}
	pm, pks, ok := msParse(c, script)
	if inf {
		c.o.Count("script:with-inf")
	} else if n <= 1024 {
		if !ok || pm != m || len(pks) != n {
			c.fail("script-parse-build", "ParseMultiSigContract(CreateMultiSigRedeemScript(%d of %d)) = %d, %d keys, ok=%v", m, n, pm, len(pks), ok)
		} else {
			for i := range pks {
				if !bytes.Equal(pks[i], sorted[i]) {
					c.fail("script-parse-build", "key %d differs after build+parse", i)
					break
				}
			}
		}
	}
	// any other order of the same keys
	for t := 0; t < 2; t++ {
		q := shuffled(r, input)
		if t == 1 { // reversed sorted order: the worst case of a sort
			q = pubs.Copy()
			for i, j := 0, len(q)-1; i < j; i, j = i+1, j-1 {
				q[i], q[j] = q[j], q[i]
			}
		}
		if n <= 40 && t == 0 {
			c.line(fmt.Sprintf("msbuildk %d %s", m, keyFields(q)), hx.Hex(script))
		}
		s2, err := smartcontract.CreateMultiSigRedeemScript(m, q)
		if err != nil || !bytes.Equal(s2, script) {
			c.fail("script-perm-invariant", "CreateMultiSigRedeemScript(%d, permuted keys) differs: err=%v\n%x\n%x", m, err, script, s2)
		} else if hash.Hash160(s2) != hash.Hash160(script) {
			c.fail("script-perm-invariant", "script hash differs")
		}
	}
	return script
}

// cmpLines: (*PublicKey).Cmp on pairs of the list against the model and the reference order.
func cmpLines(c *ctx, ps keys.PublicKeys, pairs int) {
	r := c.r
	for t := 0; t < pairs && len(ps) > 0; t++ {
		a, b := ps[r.Intn(len(ps))], ps[r.Intn(len(ps))]
		got := a.Cmp(b)
		c.pureLine("pkcmp "+keyField(a)+" "+keyField(b), fmt.Sprint(got), func() string { return fmt.Sprint(a.Cmp(b)) })
		if got != refCmp(a, b) {
			c.fail("pubkey-cmp", "Cmp(%s, %s) = %d, X-then-Y order says %d", keyField(a), keyField(b), got, refCmp(a, b))
		}
		if b.Cmp(a) != -got {
			c.fail("pubkey-cmp", "Cmp is not antisymmetric on %s, %s", keyField(a), keyField(b))
		}
		if (got == 0) != bytes.Equal(a.UncompressedBytes(), b.UncompressedBytes()) {
			c.fail("pubkey-cmp", "Cmp == 0 but the keys differ (or the reverse): %s, %s", keyField(a), keyField(b))
		}
		c.o.Count(fmt.Sprintf("script:cmp%+d", got))
	}
}

// countPush: one of the instructions a count v can be written with. kind 0 = emit.Int (what the
// builder writes); 1 = PUSH0+v; 2..7 = PUSHINT8..PUSHINT256 zero-extended; 8.. = rejected forms.
func countPush(r *prng.R, v int, kind int) []byte {
	le := func(size int, x int64) []byte {
		b := make([]byte, size)
		var t [8]byte
		binary.LittleEndian.PutUint64(t[:], uint64(x))
		copy(b, t[:])
		if x < 0 {
			for i := 8; i < size; i++ {
				b[i] = 0xff
			}
		}
		return b
	}
	switch kind {
	case 0:
		w := io.NewBufBinWriter()
		emit.Int(w.BinWriter, int64(v))
		return w.Bytes()
	case 1:
		return []byte{byte(0x10 + v)} // PUSH0+v; not a PUSHn opcode when v > 16
	case 2, 3, 4, 5, 6, 7:
		p := kind - 2
		return append([]byte{byte(p)}, le(1<<uint(p), int64(v))...)
	case 8: // PUSHINT128/256 with a non-zero byte above the low 8
		p := 4 + r.Intn(2)
		b := le(1<<uint(p), int64(v))
		b[8+r.Intn(len(b)-8)] = byte(1 + r.Intn(255))
		return append([]byte{byte(p)}, b...)
	case 9: // PUSHINT128/256 whose low 8 bytes have the sign bit
		p := 4 + r.Intn(2)
		b := le(1<<uint(p), int64(v))
		b[7] |= 0x80
		return append([]byte{byte(p)}, b...)
	case 10: // negative of v, sign-extended
		p := r.Intn(6)
		return append([]byte{byte(p)}, le(1<<uint(p), int64(-v))...)
	case 11: // PUSHM1 / PUSH0
		return []byte{byte(0x0f + r.Intn(2))}
	case 12: // truncated parameter
		p := 1 + r.Intn(5)
		b := le(1<<uint(p), int64(v))
		return append([]byte{byte(p)}, b[:len(b)-1]...)
	default: // PUSHINT8 of v with the high bit (v >= 128 does not fit PUSHINT8)
		return []byte{0x00, byte(v)}
	}
}

// craftScript assembles a multisig-shaped script by hand: count pushes in any encoding, key pushes of
// any length, the syscall and what follows. Only the correspondence (and the no-panic clause) is
// checked here; which of these the parser accepts is a theorem about the model
// (multisig_parse_accepts_iff).
func craftScript(c *ctx) {
	r := c.r
	n := r.Range(1, 5)
	switch r.Intn(12) {
	case 0:
		n = r.Range(15, 18)
	case 1:
		n = r.Range(126, 129)
	}
	m := r.Range(1, n)
	if r.Chance(1, 8) {
		m = n + r.Range(0, 1)
	}
	pick := func() int {
		if r.Chance(3, 4) {
			return r.Intn(8)
		}
		return 8 + r.Intn(6)
	}
	ka, kc := pick(), pick()
	nclaimed := n
	if r.Chance(1, 10) {
		nclaimed = n + r.Range(-1, 1)
		if nclaimed < 1 {
			nclaimed = 1
		}
	}
	var s []byte
	s = append(s, countPush(r, m, ka)...)
	odd := false
	for i := 0; i < n; i++ {
		l := 33
		if r.Chance(1, 12) {
			l = []int{0, 1, 32, 34, 64, 65, 255}[r.Intn(7)]
			odd = true
		}
		kb := r.Bytes(l)
		if l == 33 {
			kb[0] = byte(2 + r.Intn(2))
		}
		if r.Chance(1, 40) { // PUSHDATA2 form of the same push
			s = append(s, 0x0d, byte(l), 0)
			odd = true
		} else {
			s = append(s, 0x0c, byte(l))
		}
		s = append(s, kb...)
	}
	s = append(s, countPush(r, nclaimed, kc)...)
	tail := r.Intn(12)
	switch tail {
	case 0:
		s = append(s, 0x41, 0x56, 0xe7, 0xb3, 0x27) // CheckSig instead of CheckMultisig
	case 1:
		s = append(s, 0x41, 0x9e, 0xd0, 0xdc, 0x3a, 0x40) // explicit RET
	case 2:
		s = append(s, 0x41, 0x9e, 0xd0, 0xdc) // truncated
	case 3:
		s = append(s, 0x41, 0x9e, 0xd0, 0xdc, 0x3a, byte(r.Intn(256)))
	default:
		s = append(s, 0x41, 0x9e, 0xd0, 0xdc, 0x3a)
	}
	_, _, ok := msParse(c, s)
	noncanon := ka != 0 || kc != 0
	switch {
	case ok && noncanon && ka < 8 && kc < 8:
		c.o.Count("script:craft-noncanonical-accepted")
	case ok && odd:
		c.o.Count("script:craft-oddkey-accepted")
	case ok:
		c.o.Count("script:craft-accepted")
	default:
		c.o.Count("script:craft-rejected")
	}
	if ok && (ka >= 8 && ka != 13 || kc >= 8 && kc != 13) {
		c.fail("script-parse-bad-count", "ParseMultiSigContract accepted a count push of kind %d/%d: %x", ka, kc, s)
	}
}

var _ = elliptic.P256
