package main

import (
	"github.com/nspcc-dev/neo-go/pkg/crypto/keys"
	"bytes"
	"fmt"
	"math/big"
	"strings"

	"github.com/nspcc-dev/neo-go/pkg/io"
	"github.com/nspcc-dev/neo-go/pkg/smartcontract"
	"github.com/nspcc-dev/neo-go/pkg/smartcontract/scparser"
	"github.com/nspcc-dev/neo-go/pkg/vm"
	"github.com/nspcc-dev/neo-go/pkg/vm/emit"

	"verif/harness/internal/hx"
)

// pushedObs: decode a script that should consist of one integer push (Next + GetBigIntFromInstr).
func pushedObs(script []byte) string {
	return hx.Safe(func() string {
		if len(script) == 0 {
			return "err"
		}
		ctx := scparser.NewContext(script, 0)
		op, param, err := ctx.Next()
		if err != nil || ctx.NextIP() != len(script) {
			return "err"
		}
		v, err := scparser.GetBigIntFromInstr(scparser.Instruction{Op: op, Param: param})
		if err != nil {
			return "err"
		}
		return v.String()
	})
}

// int64Obs: decode a script that should consist of one integer push with GetInt64FromInstr.
func int64Obs(script []byte) string {
	return hx.Safe(func() string {
		if len(script) == 0 {
			return "err"
		}
		ctx := scparser.NewContext(script, 0)
		op, param, err := ctx.Next()
		if err != nil || ctx.NextIP() != len(script) {
			return "err"
		}
		v, err := scparser.GetInt64FromInstr(scparser.Instruction{Op: op, Param: param})
		if err != nil {
			return "err"
		}
		return fmt.Sprint(v)
	})
}

// vmPush runs the script in the real VM and returns what is on the stack.
func vmPush(script []byte) (res *big.Int, err error) {
	defer func() {
		if r := recover(); r != nil {
			err = fmt.Errorf("panic: %v", r)
		}
	}()
	v := vm.New()
	v.LoadScript(script)
	if err := v.Run(); err != nil {
		return nil, err
	}
	if v.Estack().Len() != 1 {
		return nil, fmt.Errorf("stack has %d items", v.Estack().Len())
	}
	return v.Estack().Pop().BigInt(), nil
}

func emitCase(c *ctx, n *big.Int, viaInt bool) {
	var script []byte
	name := "emit_big"
	obs := c.safe(func() string {
		w := io.NewBufBinWriter()
		if viaInt {
			emit.Int(w.BinWriter, n.Int64())
		} else {
			emit.BigInt(w.BinWriter, new(big.Int).Set(n))
		}
		if w.Err != nil {
			return "err"
		}
		script = w.Bytes()
		return hx.Hex(script)
	})
	if viaInt {
		name = "emit_int"
	}
	c.line(name+" "+n.String(), obs)
	in := n.Cmp(vmMin) >= 0 && n.Cmp(vmMax) < 0
	if obs == "panic" {
		c.fail("emit-panic", "%s(%s) panicked", name, n)
		return
	}
	if (obs != "err") != in {
		c.fail("emit-range", "%s(%s): emitted=%v, fits 256 bits=%v", name, n, obs != "err", in)
	}
	if obs == "err" {
		c.o.Count("emit:too-big")
		return
	}
	p := pushedObs(script)
	c.line("pushed "+hx.Hex(script), p)
	if p != n.String() {
		c.fail("emit-parse", "%s(%s) = %x parses as %s", name, n, script, p)
	}
	got, err := vmPush(script)
	if err != nil || got.Cmp(n) != 0 {
		c.fail("emit-pushes", "%s(%s) = %x; running it leaves %v err=%v", name, n, script, got, err)
	}
	c.o.Count(fmt.Sprintf("emit:len%02d", len(script)))
}

func famEmit(c *ctx) {
	r := c.r
	if r.Bool() {
		v := genInt64(r)
		if r.Chance(1, 3) {
			v = int64(r.Intn(40)) - 20
		}
		emitCase(c, big.NewInt(v), true)
	} else {
		emitCase(c, genBig(r, 262), false)
	}
	// the integer decoder on arbitrary short scripts
	var s []byte
	switch r.Intn(3) {
	case 0:
		s = r.Bytes(r.Intn(6))
	case 1: // PUSHINT* with a right or wrong amount of data
		k := r.Intn(6)
		s = append([]byte{byte(k)}, r.Bytes((1<<uint(k))+r.Range(-1, 1))...)
	default:
		s = []byte{byte(0x0c + r.Intn(0x18))}
	}
	c.pureLine("pushed "+hx.Hex(s), pushedObs(s), func() string { return pushedObs(s) })
	c.pureLine("int64of "+hx.Hex(s), int64Obs(s), func() string { return int64Obs(s) })
	// emit.Bytes at the PUSHDATA1/2/4 boundaries
	if r.Chance(1, 4) {
		ls := []int{0, 1, 33, 75, 76, 254, 255, 256, 257, 300}
		l := ls[r.Intn(len(ls))]
		if r.Chance(1, 12) {
			l = 65534 + r.Intn(4)
		}
		data := r.Bytes(l)
		w := io.NewBufBinWriter()
		emit.Bytes(w.BinWriter, data)
		out := w.Bytes()
		c.line("emitbytes "+hx.Hex(data), hx.Hex(out))
		func() {
			defer func() {
				if e := recover(); e != nil {
					c.fail("emit-bytes-pushes", "running emit.Bytes(%d bytes) panicked: %v", l, e)
				}
			}()
			v := vm.New()
			v.LoadScript(out)
			if err := v.Run(); err != nil || v.Estack().Len() != 1 {
				c.fail("emit-bytes-pushes", "emit.Bytes(%d bytes): running it fails: %v", l, err)
				return
			}
			if got := v.Estack().Pop().Bytes(); !bytes.Equal(got, data) {
				c.fail("emit-bytes-pushes", "emit.Bytes(%d bytes) pushes %d other bytes", l, len(got))
			}
		}()
		c.o.Count(fmt.Sprintf("emit:bytes-len-%d", l))
	}
	// GetInt64FromInstr on wide pushes: a 64-bit value (any sign bit) under zero / non-zero / sign-extended upper bytes
	{
		k := 3 + r.Intn(3)
		p := make([]byte, 1<<uint(k))
		copy(p, r.Bytes(8))
		switch r.Intn(4) {
		case 0:
			p[7] |= 0x80
		case 1:
			p[7] &= 0x7f
		}
		if r.Chance(1, 3) {
			for i := 1; i < 8; i++ {
				if r.Bool() {
					p[i] = 0
				}
			}
		}
		if len(p) > 8 {
			switch r.Intn(4) {
			case 0: // sign-extended
				for i := 8; i < len(p); i++ {
					p[i] = 0xff
				}
			case 1:
				p[8+r.Intn(len(p)-8)] = byte(1 + r.Intn(255))
			}
		}
		w := append([]byte{byte(k)}, p...)
		obs := int64Obs(w)
		c.pureLine("int64of "+hx.Hex(w), obs, func() string { return int64Obs(w) })
		if obs != "err" {
			// what it returns must be what the VM pushes
			if got, err := vmPush(w); err != nil || got.String() != obs {
				c.fail("int64-of-instr", "GetInt64FromInstr(%x) = %s, the VM pushes %v (err %v)", w, obs, got, err)
			}
			c.o.Count("emit:int64of-ok")
		} else {
			c.o.Count("emit:int64of-err")
		}
	}
}

func bucket(n int) string {
	switch {
	case n <= 8:
		return "01-08"
	case n <= 14:
		return "09-14"
	case n <= 18:
		return fmt.Sprintf("%02d", n)
	case n <= 125:
		return "19-125"
	case n <= 130:
		return "126-130"
	default:
		return "1022-1026"
	}
}

func joinKeys(ks [][]byte) string {
	if len(ks) == 0 {
		return "-"
	}
	p := make([]string, len(ks))
	for i := range ks {
		p[i] = hx.Hex(ks[i])
	}
	return strings.Join(p, ",")
}

func msParse(c *ctx, script []byte) (int, [][]byte, bool) {
	var m int
	var ks [][]byte
	okk := false
	obs := c.safe(func() string {
		a, b, ok := scparser.ParseMultiSigContract(script)
		if !ok {
			return "no"
		}
		m, ks, okk = a, b, true
		return fmt.Sprintf("%d %s", a, joinKeys(b))
	})
	c.line("msparse "+hx.Hex(script), obs)
	if obs == "panic" {
		c.fail("script-parse-panic", "ParseMultiSigContract(%x) panicked", script)
	}
	if okk {
		c.o.Count("script:parse-ok")
	} else {
		c.o.Count("script:parse-no")
	}
	return m, ks, okk
}

func famScript(c *ctx) {
	r := c.r
	n := r.Range(1, 8)
	switch r.Intn(14) {
	case 0, 1:
		n = r.Range(15, 18) // PUSH15 / PUSHINT8 boundary of the count (and PUSH16, which emit.Int never writes)
	case 2:
		n = r.Range(126, 130) // PUSHINT8 / PUSHINT16 boundary
	case 3:
		n = r.Range(9, 40)
	case 4:
		if r.Chance(1, 12) {
			n = r.Range(1022, 1026)
		}
	}
	m := r.Range(1, n)
	switch r.Intn(8) {
	case 0:
		m = 0
	case 1:
		m = n + 1
	case 2:
		m = n
	case 3:
		m = -1
	}
	c.o.Count(fmt.Sprintf("script:n=%s", bucket(n)))
	input := genKeyList(c, n, true)
	script := buildSorted(c, m, input)
	cmpLines(c, input, 3)
	if n <= 130 {
		// the BFT / majority builders: m = n-(n-1)/3 and n-(n-1)/2
		for _, b := range []struct {
			op string
			f  func(keys.PublicKeys) ([]byte, error)
			m  int
		}{{"msdefault", smartcontract.CreateDefaultMultiSigRedeemScript, n - (n-1)/3}, {"msmajority", smartcontract.CreateMajorityMultiSigRedeemScript, n - (n-1)/2}} {
			var sc []byte
			obs := c.safe(func() string {
				s, err := b.f(input.Copy())
				if err != nil {
					return "err"
				}
				sc = s
				return hx.Hex(s)
			})
			c.line(b.op+" "+keyFields(input), obs)
			if sc == nil {
				c.fail("script-default-build", "%s on %d keys failed", b.op, n)
				continue
			}
			if !hasInf(input) {
				if pm, pks, ok := scparser.ParseMultiSigContract(sc); !ok || pm != b.m || len(pks) != n {
					c.fail("script-default-build", "%s on %d keys parses as m=%d, %d keys, ok=%v (want m=%d)", b.op, n, pm, len(pks), ok, b.m)
				}
			}
		}
	}
	if script != nil && !hasInf(input) && r.Chance(1, 3) {
		// the old form of the op: the keys in the emitted order
		pubs := input.Copy()
		_, _ = smartcontract.CreateMultiSigRedeemScript(m, pubs)
		flat := []byte{}
		for _, p := range pubs {
			flat = append(flat, p.Bytes()...)
		}
		c.line(fmt.Sprintf("msbuild %d %s", m, hx.Hex(flat)), hx.Hex(script))
	}
	if script != nil {
		// damaged scripts
		mut := append([]byte{}, script...)
		switch r.Intn(7) {
		case 0:
			mut[r.Intn(len(mut))] ^= byte(1 << uint(r.Intn(8)))
		case 1:
			mut = mut[:r.Intn(len(mut))]
		case 2:
			mut = append(mut, byte(r.Intn(256)))
		case 3:
			mut[0] = byte(r.Intn(0x22)) // another count opcode
		case 4: // explicit RET at the end
			mut = append(mut, 0x40)
		case 5: // a key of another length
			if len(mut) > 3 {
				mut[2] = byte(r.Range(31, 35))
			}
		default:
			mut[len(mut)-1-r.Intn(5)] ^= 0xff
		}
		msParse(c, mut)
	}
	craftScript(c)
	craftScript(c)
	var flat8 []byte
	if len(input) > 0 {
		flat8 = input[0].Bytes()
	}
	// single-signature contract
	pk := c.pool.priv[r.Intn(len(c.pool.priv))].PublicKey()
	vs := pk.GetVerificationScript()
	if r.Chance(1, 3) {
		vs = append([]byte{}, vs...)
		vs[r.Intn(len(vs))] ^= byte(1 << uint(r.Intn(8)))
	}
	c.line("sigparse "+hx.Hex(vs), c.safe(func() string {
		k, ok := scparser.ParseSignatureContract(vs)
		if !ok {
			return "no"
		}
		return hx.Hex(k)
	}))
	if k, ok := scparser.ParseSignatureContract(pk.GetVerificationScript()); !ok || !bytes.Equal(k, pk.Bytes()) {
		c.fail("script-sig-parse-build", "ParseSignatureContract(GetVerificationScript(%x)) = %x ok=%v", pk.Bytes(), k, ok)
	}
	c.o.Seen(fmt.Sprintf("ms/%d/%d/%x", m, n, flat8))
}
