package main

import (
	"bytes"
	"crypto/ecdsa"
	"crypto/elliptic"
	"crypto/sha256"
	"encoding/binary"
	"fmt"
	"math/big"

	"github.com/nspcc-dev/neo-go/pkg/crypto/hash"
	"github.com/nspcc-dev/neo-go/pkg/crypto/keys"
)

// The second curve of pkg/crypto/keys (secp256k1, used by CryptoLib.verifyWithECDsa). The curve
// object is taken from a throw-away key made by the package itself (so that the harness does not
// need its own import of the curve implementation); the keys used in cases are derived
// deterministically from the run seed.
var k1Curve elliptic.Curve

func init() {
	k, err := keys.NewSecp256k1PrivateKey()
	if err != nil {
		panic(err)
	}
	k1Curve = k.Curve
}

func privOnCurve(c elliptic.Curve, d []byte) *keys.PrivateKey {
	x, y := c.ScalarBaseMult(d) // nolint:staticcheck
	return &keys.PrivateKey{PrivateKey: ecdsa.PrivateKey{
		PublicKey: ecdsa.PublicKey{Curve: c, X: x, Y: y},
		D:         new(big.Int).SetBytes(d),
	}}
}

var k1PoolCache = map[uint64][]*keys.PrivateKey{}

func k1Pool(seed uint64) []*keys.PrivateKey {
	if p, ok := k1PoolCache[seed]; ok {
		return p
	}
	var p []*keys.PrivateKey
	for i := 0; len(p) < 24; i++ {
		var b [24]byte
		binary.LittleEndian.PutUint64(b[:], seed)
		binary.LittleEndian.PutUint64(b[8:], uint64(i))
		copy(b[16:], "secp256k")
		d := sha256.Sum256(b[:])
		if new(big.Int).SetBytes(d[:]).Cmp(k1Curve.Params().N) >= 0 {
			continue
		}
		p = append(p, privOnCurve(k1Curve, d[:]))
	}
	k1PoolCache[seed] = p
	return p
}

// decodeOn decodes b on curve c and checks everything the property says about the result when the
// bytes are the encoding of `want` on that curve: same point, the requested curve, same encoding.
func decodeOn(c *ctx, what string, b []byte, curve elliptic.Curve, want *keys.PublicKey) *keys.PublicKey {
	var pk *keys.PublicKey
	var err error
	func() {
		defer func() {
			if e := recover(); e != nil {
				err = fmt.Errorf("panic: %v", e)
			}
		}()
		pk, err = keys.NewPublicKeyFromBytes(b, curve)
	}()
	if want == nil { // decoding on the other curve: any answer but a panic is fine, it only warms the cache
		if err != nil {
			c.o.Count("curves:cross-decode-err")
		} else {
			c.o.Count("curves:cross-decode-ok")
			if pk.Curve != curve {
				c.fail("pubkey-curve-mixup", "%s: decoding %x returned a key on another curve than requested", what, b)
			}
		}
		return nil
	}
	if err != nil {
		c.fail("pubkey-roundtrip", "%s: NewPublicKeyFromBytes(%x) failed: %v", what, b, err)
		return nil
	}
	if pk.Curve != curve {
		c.fail("pubkey-curve-mixup", "%s: decoding %x returned a key on another curve than requested", what, b)
	}
	if pk.X.Cmp(want.X) != 0 || pk.Y.Cmp(want.Y) != 0 {
		c.fail("pubkey-roundtrip", "%s: NewPublicKeyFromBytes(%x) is not the key that was encoded (Y %x, want %x)", what, b, pk.Y.Bytes(), want.Y.Bytes())
	}
	re := pk.Bytes()
	if len(b) == 65 {
		re = pk.UncompressedBytes()
	}
	if !bytes.Equal(re, b) {
		c.fail("pubkey-decode-reencode", "%s: %x re-encodes to %x", what, b, re)
	}
	return pk
}

// famCurves: keys of both curves whose encodings are decoded on both curves in both orders, so that
// a key decoded (and cached) for one curve is asked for on the other one while still cached.
func famCurves(c *ctx) {
	r := c.r
	p256 := elliptic.P256()
	type ent struct {
		priv  *keys.PrivateKey
		curve elliptic.Curve
		other elliptic.Curve
		name  string
	}
	pool := k1Pool(c.seed)
	var es []ent
	for i := r.Range(1, 3); i > 0; i-- {
		es = append(es, ent{pool[r.Intn(len(pool))], k1Curve, p256, "secp256k1"})
	}
	for i := r.Range(0, 2); i > 0; i-- {
		es = append(es, ent{c.pool.priv[r.Intn(len(c.pool.priv))], p256, k1Curve, "secp256r1"})
	}
	if r.Chance(1, 4) { // a fresh key: its bytes were never decoded before
		d := r.Bytes(32)
		d[0] &= 0x7f
		es = append(es, ent{privOnCurve(k1Curve, d), k1Curve, p256, "secp256k1"})
	}
	msg := r.Bytes(r.Range(0, 40))
	h := hash.Sha256(msg)
	for _, e := range es {
		pub := e.priv.PublicKey()
		sig := e.priv.SignHash(h)
		if sig2 := e.priv.SignHash(h); !bytes.Equal(sig, sig2) {
			c.fail("sign-deterministic", "%s: two signatures of the same digest differ", e.name)
		}
		if !pub.Verify(sig, h.BytesBE()) {
			c.fail("sign-verify", "%s: Verify(Sign(m)) failed for key %x", e.name, pub.Bytes())
		}
		for _, enc := range [][]byte{pub.Bytes(), pub.UncompressedBytes()} {
			var order []bool // true = own curve
			switch r.Intn(4) {
			case 0:
				order = []bool{false, true}
			case 1:
				order = []bool{true, false, true}
			case 2:
				order = []bool{false, false, true, true}
			default:
				order = []bool{true, true, false, true, false}
			}
			for _, own := range order {
				if !own {
					decodeOn(c, e.name+" bytes on the other curve", enc, e.other, nil)
					continue
				}
				pk := decodeOn(c, e.name, enc, e.curve, pub)
				if pk != nil && !pk.Verify(sig, h.BytesBE()) {
					c.fail("sign-verify", "%s: a valid signature does not verify under the key decoded from %x", e.name, enc)
				}
			}
		}
		// negative samples on this curve
		m2 := hash.Sha256(append(append([]byte{}, msg...), 1))
		if pub.Verify(sig, m2.BytesBE()) {
			c.fail("verify-altered-message", "%s: signature verifies for another message", e.name)
		}
		c.o.Count("curves:" + e.name)
	}
	c.o.Seen(fmt.Sprintf("curves/%x/%d", es[0].priv.PublicKey().Bytes()[:8], len(es)))
}
