package main

// Shapes of decoder input beyond what the encoders produce: stack items of every item type at every position of
// a rule (WitnessRule.FromStackItem) and JSON values with missing / repeated / null / wrongly-typed /
// differently-cased / unknown members (UnmarshalConditionJSON, WitnessRule.UnmarshalJSON). The value is
// built from a generated condition tree, pristine or mutated node by node; the real decoder gets the real
// stack item / the JSON text, the model (`rsi`, `cjs`, `rjs` lines) the same value as tokens and must agree on
// accept / reject and on the decoded tree. Oracle: an accepted tree is within the nesting and width limits,
// and a pristine value is decoded to exactly its tree iff that tree is within the limits.

import (
	"encoding/hex"
	"encoding/json"
	"fmt"
	"math/big"
	"strings"

	"github.com/nspcc-dev/neo-go/pkg/core/transaction"
	"github.com/nspcc-dev/neo-go/pkg/util"
	"github.com/nspcc-dev/neo-go/pkg/vm/stackitem"

	"verif/harness/internal/hx"
	"verif/harness/internal/prng"
)

// ---- stack items ---------------------------------------------------------

type gitem struct {
	kind byte // N T F I S U A R M X
	n    *big.Int
	bs   []byte
	xs   []*gitem
}

func gi(kind byte) *gitem                  { return &gitem{kind: kind} }
func giInt(n int64) *gitem                 { return &gitem{kind: 'I', n: big.NewInt(n)} }
func giBytes(b []byte) *gitem              { return &gitem{kind: 'S', bs: b} }
func giArr(kind byte, xs ...*gitem) *gitem { return &gitem{kind: kind, xs: xs} }
func giBool(b bool) *gitem {
	if b {
		return gi('T')
	}
	return gi('F')
}

func (g *gitem) tok(sb *strings.Builder) {
	switch g.kind {
	case 'I':
		sb.WriteString("I " + g.n.String())
	case 'S', 'U':
		sb.WriteString(string(g.kind) + " " + hx.Hex(g.bs))
	case 'A', 'R':
		fmt.Fprintf(sb, "%c %d", g.kind, len(g.xs))
		for _, x := range g.xs {
			sb.WriteByte(' ')
			x.tok(sb)
		}
	default:
		sb.WriteByte(g.kind)
	}
}

func (g *gitem) real() stackitem.Item {
	switch g.kind {
	case 'N':
		return stackitem.Null{}
	case 'T':
		return stackitem.NewBool(true)
	case 'F':
		return stackitem.NewBool(false)
	case 'I':
		return stackitem.NewBigInteger(g.n)
	case 'S':
		return stackitem.NewByteArray(g.bs)
	case 'U':
		return stackitem.NewBuffer(g.bs)
	case 'A', 'R':
		xs := make([]stackitem.Item, len(g.xs))
		for i := range g.xs {
			xs[i] = g.xs[i].real()
		}
		if g.kind == 'A' {
			return stackitem.NewArray(xs)
		}
		return stackitem.NewStruct(xs)
	case 'M':
		return stackitem.NewMap()
	}
	return stackitem.NewInterop(nil)
}

var condTypeByte = map[int]byte{kBool: 0x00, kNot: 0x01, kAnd: 0x02, kOr: 0x03, kHash: 0x18, kGroup: 0x19, kEntry: 0x20,
	kCalledBy: 0x28, kCalledByGroup: 0x29}

// junkItem: an item of a random type.
func junkItem(r *prng.R) *gitem {
	switch r.Intn(10) {
	case 0:
		return gi('N')
	case 1:
		return giBool(r.Bool())
	case 2:
		return giInt(int64(r.Intn(300)) - 20)
	case 3:
		return giBytes(r.Bytes([]int{0, 1, 2, 20, 32, 33, 34}[r.Intn(7)]))
	case 4:
		return &gitem{kind: 'U', bs: r.Bytes([]int{0, 1, 20, 33}[r.Intn(4)])}
	case 5:
		return giArr('A')
	case 6:
		return giArr('R', giInt(0x20))
	case 7:
		return gi('M')
	case 8:
		return gi('X')
	}
	return giArr('A', giInt(0), giBool(true))
}

// typeItem: the first element of a condition / the action of a rule, possibly in another representation.
func typeItem(r *prng.R, t byte, p int) (*gitem, bool) {
	if !r.Chance(p, 100) {
		return giInt(int64(t)), false
	}
	switch r.Intn(8) {
	case 0:
		if t == 0 {
			return giBytes([]byte{}), true // the empty byte string is the integer 0
		}
		return giBytes([]byte{t}), true
	case 1:
		return giBytes([]byte{t, 0}), true // non-minimal little endian
	case 2:
		return giBool(t == 1), true // a Boolean converts to 0 / 1: Boolean / Not, Deny / Allow
	case 3:
		return &gitem{kind: 'U', bs: []byte{t}}, true // a Buffer does not convert
	case 4:
		return giInt(int64(t) + 256), true
	case 5:
		return giInt(-1 - int64(t)), true
	case 6:
		return giBytes(append([]byte{t}, make([]byte, 32)...)), true // 33 bytes: too big for an integer
	}
	return junkItem(r), true
}

// itemFromCond: ToStackItem by hand, every node mutated with probability p percent.
func itemFromCond(r *prng.R, c *cond, p int) (*gitem, bool) {
	mutated := false
	m := func() bool {
		if r.Chance(p, 100) {
			mutated = true
			return true
		}
		return false
	}
	t, mt := typeItem(r, condTypeByte[c.kind], p)
	mutated = mutated || mt
	var payload *gitem
	sub := func(x *cond) *gitem {
		it, mm := itemFromCond(r, x, p)
		mutated = mutated || mm
		return it
	}
	switch c.kind {
	case kBool:
		payload = giBool(c.b)
		if m() {
			payload = []*gitem{giInt(0), giInt(5), giInt(-1), giBytes(nil), giBytes([]byte{0, 0}), giBytes([]byte{0, 1}), gi('N'), giArr('A'),
				{kind: 'U', bs: []byte{0}}, gi('M'), giBytes(make([]byte, 33))}[r.Intn(11)]
		}
	case kNot:
		payload = sub(c.sub[0])
	case kAnd, kOr:
		var xs []*gitem
		for _, s := range c.sub {
			xs = append(xs, sub(s))
		}
		payload = giArr('A', xs...)
		if m() {
			switch r.Intn(5) {
			case 0:
				payload.kind = 'R' // a Struct is as good as an Array
			case 1:
				payload = gi('N')
			case 2:
				payload = gi('M')
			case 3:
				payload.xs = append(payload.xs, junkItem(r))
			default:
				payload = giBytes([]byte{1})
			}
		}
	case kHash, kCalledBy:
		payload = giBytes(c.h.BytesBE())
		if m() {
			b := c.h.BytesBE()
			switch r.Intn(7) {
			case 0:
				payload = giBytes(b[:19])
			case 1:
				payload = giBytes(append(b, 0))
			case 2:
				payload = &gitem{kind: 'U', bs: b} // a Buffer gives its bytes
			case 3:
				// an Integer gives its little-endian bytes: 20 of them when the top byte is 0x01..0x7f
				x := append([]byte{}, b...)
				x[19] = x[19]&0x7f | 0x01
				rev := make([]byte, 20)
				for i := range x {
					rev[19-i] = x[i]
				}
				payload = &gitem{kind: 'I', n: new(big.Int).SetBytes(rev)}
			case 4:
				payload = giBool(true)
			case 5:
				payload = gi('N')
			default:
				payload = giArr('A', giBytes(b))
			}
		}
	case kGroup, kCalledByGroup:
		payload = giBytes(c.k.Bytes())
		if m() {
			switch r.Intn(6) {
			case 0:
				payload = giBytes(c.k.UncompressedBytes()) // decoded all the same
			case 1:
				payload = &gitem{kind: 'U', bs: c.k.Bytes()}
			case 2:
				payload = giBytes(c.k.Bytes()[:32])
			case 3:
				b := c.k.Bytes()
				b[0] = 0x05
				payload = giBytes(b)
			case 4:
				payload = giBytes(append(c.k.Bytes(), 0)) // extra data
			default:
				payload = junkItem(r)
			}
		}
	}
	var xs []*gitem
	if c.kind == kEntry {
		xs = []*gitem{t}
	} else {
		xs = []*gitem{t, payload}
	}
	it := giArr('A', xs...)
	if m() {
		switch r.Intn(6) {
		case 0:
			it.kind = 'R'
		case 1:
			it.xs = it.xs[:len(it.xs)-1] // one element short
		case 2:
			it.xs = append(it.xs, junkItem(r)) // one too many
		case 3:
			it = gi('M')
		case 4:
			it = giArr('A')
		default:
			it = junkItem(r)
		}
	}
	return it, mutated
}

func itemTok(g *gitem) string {
	var sb strings.Builder
	g.tok(&sb)
	return sb.String()
}

// ---- JSON values ---------------------------------------------------------

type gjson struct {
	kind byte // n t f i s a o
	n    int64
	s    string
	xs   []*gjson
	ks   []string // keys of an object, parallel to xs
}

func gjStr(s string) *gjson { return &gjson{kind: 's', s: s} }
func gjBool(b bool) *gjson {
	if b {
		return &gjson{kind: 't'}
	}
	return &gjson{kind: 'f'}
}

func (g *gjson) tok(sb *strings.Builder) {
	switch g.kind {
	case 'i':
		fmt.Fprintf(sb, "i %d", g.n)
	case 's':
		sb.WriteString("s " + hx.Hex([]byte(g.s)))
	case 'a':
		fmt.Fprintf(sb, "a %d", len(g.xs))
		for _, x := range g.xs {
			sb.WriteByte(' ')
			x.tok(sb)
		}
	case 'o':
		fmt.Fprintf(sb, "o %d", len(g.xs))
		for i, x := range g.xs {
			sb.WriteString(" " + hx.Hex([]byte(g.ks[i])) + " ")
			x.tok(sb)
		}
	default:
		sb.WriteByte(g.kind)
	}
}

// text: the JSON text (strings are plain ASCII without quotes or backslashes by construction).
func (g *gjson) text(sb *strings.Builder) {
	switch g.kind {
	case 'n':
		sb.WriteString("null")
	case 't':
		sb.WriteString("true")
	case 'f':
		sb.WriteString("false")
	case 'i':
		fmt.Fprintf(sb, "%d", g.n)
	case 's':
		sb.WriteString(`"` + g.s + `"`)
	case 'a':
		sb.WriteByte('[')
		for i, x := range g.xs {
			if i > 0 {
				sb.WriteString(", ")
			}
			x.text(sb)
		}
		sb.WriteByte(']')
	case 'o':
		sb.WriteByte('{')
		for i, x := range g.xs {
			if i > 0 {
				sb.WriteByte(',')
			}
			sb.WriteString(` "` + g.ks[i] + `": `)
			x.text(sb)
		}
		sb.WriteByte('}')
	}
}

func junkJSON(r *prng.R) *gjson {
	switch r.Intn(8) {
	case 0:
		return &gjson{kind: 'n'}
	case 1:
		return gjBool(r.Bool())
	case 2:
		return &gjson{kind: 'i', n: int64(r.Intn(50)) - 5}
	case 3:
		return gjStr([]string{"", "x", "Boolean", "boolean", "00", "0x", "zz"}[r.Intn(7)])
	case 4:
		return &gjson{kind: 'a'}
	case 5:
		return &gjson{kind: 'o'}
	case 6:
		return &gjson{kind: 'a', xs: []*gjson{gjBool(true)}}
	}
	return &gjson{kind: 'o', ks: []string{"type"}, xs: []*gjson{gjStr("CalledByEntry")}}
}

func caseVariant(r *prng.R, k string) string {
	switch r.Intn(4) {
	case 0:
		return strings.ToUpper(k)
	case 1:
		return strings.ToUpper(k[:1]) + k[1:]
	case 2:
		b := []byte(k)
		for i := range b {
			if r.Bool() {
				b[i] = strings.ToUpper(string(b[i]))[0]
			}
		}
		return string(b)
	}
	return k + "x" // another, unknown key
}

var condTypeName = map[int]string{kBool: "Boolean", kNot: "Not", kAnd: "And", kOr: "Or", kHash: "ScriptHash", kGroup: "Group",
	kEntry: "CalledByEntry", kCalledBy: "CalledByContract", kCalledByGroup: "CalledByGroup"}

// jsonFromCond: MarshalJSON by hand (as a value), every node mutated with probability p percent.
func jsonFromCond(r *prng.R, c *cond, p int) (*gjson, bool) {
	mutated := false
	m := func() bool {
		if r.Chance(p, 100) {
			mutated = true
			return true
		}
		return false
	}
	sub := func(x *cond) *gjson {
		v, mm := jsonFromCond(r, x, p)
		mutated = mutated || mm
		return v
	}
	o := &gjson{kind: 'o'}
	add := func(k string, v *gjson) {
		o.ks = append(o.ks, k)
		o.xs = append(o.xs, v)
	}
	var payloadKey string
	var payload *gjson
	switch c.kind {
	case kBool:
		payloadKey, payload = "expression", gjBool(c.b)
		if m() {
			payload = []*gjson{{kind: 'n'}, {kind: 'i', n: 1}, gjStr("true"), {kind: 'a'}, {kind: 'o'}}[r.Intn(5)]
		}
	case kNot:
		payloadKey, payload = "expression", sub(c.sub[0])
	case kAnd, kOr:
		payloadKey, payload = "expressions", &gjson{kind: 'a'}
		for _, s := range c.sub {
			payload.xs = append(payload.xs, sub(s))
		}
		if m() {
			switch r.Intn(5) {
			case 0:
				payload = &gjson{kind: 'n'}
			case 1:
				payload = &gjson{kind: 'o'}
			case 2:
				payload = gjStr("x")
			case 3:
				payload.xs = append(payload.xs, junkJSON(r))
			default:
				payloadKey = "expression" // the operands under the wrong member
			}
		}
	case kHash, kCalledBy:
		payloadKey, payload = "hash", gjStr("0x"+c.h.StringLE())
		if m() {
			le := c.h.StringLE()
			switch r.Intn(8) {
			case 0:
				payload = gjStr(le) // the prefix is optional
			case 1:
				payload = gjStr("0x" + strings.ToUpper(le))
			case 2:
				payload = gjStr("0x" + le[:38])
			case 3:
				payload = gjStr("0x" + le + "00")
			case 4:
				payload = gjStr("0x" + le[:38] + "zz")
			case 5:
				payload = &gjson{kind: 'n'}
			case 6:
				payload = &gjson{kind: 'i', n: 5}
			default:
				payload = gjStr("0x0x" + le)
			}
		}
	case kGroup, kCalledByGroup:
		payloadKey, payload = "group", gjStr(hex.EncodeToString(c.k.Bytes()))
		if m() {
			ks := hex.EncodeToString(c.k.Bytes())
			switch r.Intn(8) {
			case 0:
				payload = gjStr(hex.EncodeToString(c.k.UncompressedBytes()))
			case 1:
				payload = gjStr(strings.ToUpper(ks))
			case 2:
				payload = gjStr(ks[:65])
			case 3:
				payload = gjStr("05" + ks[2:])
			case 4:
				payload = gjStr(ks + "00")
			case 5:
				payload = &gjson{kind: 'n'}
			case 6:
				payload = &gjson{kind: 'i', n: 2}
			default:
				payload = gjStr("")
			}
		}
	}
	typ := gjStr(condTypeName[c.kind])
	if m() {
		typ = []*gjson{gjStr(strings.ToLower(condTypeName[c.kind])), gjStr("Nope"), {kind: 'n'}, {kind: 'i', n: 0}, gjStr(""), gjStr("CalledByEntry"),
			gjStr("Boolean"), {kind: 'a'}}[r.Intn(8)]
	}
	typeKey := "type"
	if m() {
		typeKey = caseVariant(r, typeKey)
	}
	if payload != nil && m() {
		payloadKey = caseVariant(r, payloadKey)
	}
	dropPayload := payload != nil && m()
	// member order, duplicates, unknown members
	if r.Bool() {
		add(typeKey, typ)
		if payload != nil && !dropPayload {
			add(payloadKey, payload)
		}
	} else {
		if payload != nil && !dropPayload {
			add(payloadKey, payload)
		}
		add(typeKey, typ)
	}
	if m() {
		switch r.Intn(5) {
		case 0:
			add("type", &gjson{kind: 'n'}) // a null after the value leaves the value
		case 1:
			add("type", gjStr("CalledByEntry")) // the later duplicate wins
		case 2:
			add("hash", &gjson{kind: 'n'}) // a null resets the pointer
		case 3:
			add("comment", junkJSON(r))
		default:
			add("expressions", &gjson{kind: 'n'})
		}
	}
	if m() {
		return junkJSON(r), true
	}
	return o, mutated
}

func jsonTok(g *gjson) string {
	var sb strings.Builder
	g.tok(&sb)
	return sb.String()
}

func jsonText(g *gjson) string {
	var sb strings.Builder
	g.text(&sb)
	return sb.String()
}

// ---- the cases ------------------------------------------------------------

func checkDecoded(o *hx.Out, k int, name string, t *cond, pristine bool, got transaction.WitnessCondition, err error, input string) {
	within := t.depth() <= transaction.MaxConditionNesting && t.widthsOK()
	if err != nil {
		o.Count("shapes:" + name + "=err")
		if pristine && within {
			o.Fail("cond-decoder-rejects-valid", k, "%s tree=%s err=%v input=%s", name, t.tok(), err, input)
		}
		return
	}
	o.Count("shapes:" + name + "=ok")
	if !pristine {
		o.Count("shapes:" + name + "-accepts-a-mutated-value")
	}
	d, wok := realDepthWidth(got)
	if d > transaction.MaxConditionNesting || !wok {
		o.Fail("cond-decoder-bound", k, "%s accepted depth=%d widthOk=%v input=%s", name, d, wok, input)
	}
	if pristine && realTok(got) != realTok(t.real()) {
		o.Fail("cond-decoder-wrong-tree", k, "%s tree=%s decoded=%s", name, realTok(t.real()), realTok(got))
	}
}

// runSignerItemCase: Signer.FromStackItem on the stack item of a generated signer, pristine or mutated.
func runSignerItemCase(o *hx.Out, k int, r *prng.R, u *universe) {
	accounts := append([]util.Uint160{smallHash(0xa1)}, u.hashes...)
	sg := genSigner(r, u, accounts)
	if r.Chance(1, 6) {
		for n := []int{15, 16, 17}[r.Intn(3)]; len(sg.contracts) < n; {
			sg.contracts = append(sg.contracts, u.hashes[r.Intn(len(u.hashes))])
		}
	}
	p := []int{0, 0, 8, 20}[r.Intn(4)]
	mutated := false
	m := func() bool {
		if r.Chance(p, 100) {
			mutated = true
			return true
		}
		return false
	}
	acc := giBytes(sg.account.BytesBE())
	if m() {
		acc = []*gitem{giBytes(sg.account.BytesBE()[:19]), {kind: 'U', bs: sg.account.BytesBE()}, gi('N'), giInt(5)}[r.Intn(4)]
	}
	sc, ms := typeItem(r, sg.scopes, p)
	mutated = mutated || ms
	cs := giArr('A')
	for _, h := range sg.contracts {
		cs.xs = append(cs.xs, giBytes(h.BytesBE()))
	}
	gs := giArr('A')
	for _, g := range sg.groups {
		gs.xs = append(gs.xs, giBytes(g.Bytes()))
	}
	rs := giArr('A')
	rulesOK := true
	for _, ru := range sg.rules {
		ci, mc := itemFromCond(r, ru.c, p)
		mutated = mutated || mc
		rs.xs = append(rs.xs, giArr('A', giInt(int64(ru.action)), ci))
		if ru.action > 1 || ru.c.depth() > transaction.MaxConditionNesting || !ru.c.widthsOK() {
			rulesOK = false
		}
	}
	for _, l := range []*gitem{cs, gs, rs} {
		if m() {
			switch r.Intn(4) {
			case 0:
				l.kind = 'R'
			case 1:
				l.kind, l.xs = 'N', nil
			case 2:
				l.xs = append(l.xs, junkItem(r))
			default:
				l.kind, l.xs = 'M', nil
			}
		}
	}
	it := giArr('A', acc, sc, cs, gs, rs)
	if m() {
		switch r.Intn(3) {
		case 0:
			it.kind = 'R'
		case 1:
			it.xs = it.xs[:4]
		default:
			it.xs = append(it.xs, gi('N'))
		}
	}
	line := "ssi " + itemTok(it)
	var s2 transaction.Signer
	var err error
	obs := hx.Safe(func() string {
		err = s2.FromStackItem(it.real())
		if err != nil {
			return "err"
		}
		return "ok " + realSignerTok(&s2)
	})
	o.Line(line, obs)
	switch {
	case obs == "panic":
		o.Fail("signer-item-decoder-panic", k, "input=%s", line)
	case err != nil:
		o.Count("shapes:signer-item=err")
		if !mutated && rulesOK && len(sg.contracts) <= 16 {
			o.Fail("signer-item-decoder-rejects-valid", k, "input=%s err=%v", line, err)
		}
	default:
		o.Count("shapes:signer-item=ok")
		bad := len(s2.AllowedContracts) > 16 || len(s2.AllowedGroups) > 16 || len(s2.Rules) > 16
		for _, ru := range s2.Rules {
			d, wok := realDepthWidth(ru.Condition)
			if (ru.Action != transaction.WitnessAllow && ru.Action != transaction.WitnessDeny) || d > transaction.MaxConditionNesting || !wok {
				bad = true
			}
		}
		if bad {
			o.Fail("signer-item-decoder-admits-invalid", k, "input=%s decoded=%s", line, realSignerTok(&s2))
		}
		if !mutated && realSignerTok(&s2) != realSignerTok(ptrSigner(sg.real())) {
			o.Fail("signer-item-decoder-wrong-value", k, "input=%s decoded=%s", line, realSignerTok(&s2))
		}
	}
	o.Seen(line)
}

// runScopeStringCase: ScopesFromString on generated scope strings (names in any order, blanks, repetitions,
// unknown / empty / wrongly-cased names, Global with others), and a whole Signer in JSON with such a scope and
// lists of any length.
func runScopeStringCase(o *hx.Out, k int, r *prng.R, u *universe) {
	names := []string{"None", "CalledByEntry", "CustomContracts", "CustomGroups", "WitnessRules", "Global"}
	var parts []string
	n := []int{0, 1, 1, 2, 2, 3, 4}[r.Intn(7)]
	for i := 0; i < n; i++ {
		nm := names[r.Intn(len(names))]
		if r.Chance(1, 8) {
			nm = []string{"", "Rules", "calledbyentry", "CalledByEntry CustomGroups", "Fancy", "global", "0x01"}[r.Intn(7)]
		}
		if r.Chance(1, 2) {
			nm = strings.Repeat(" ", r.Intn(3)) + nm + strings.Repeat(" ", r.Intn(3))
		}
		parts = append(parts, nm)
	}
	str := strings.Join(parts, ",")
	sc, err := transaction.ScopesFromString(str)
	obs := "err"
	if err == nil {
		obs = fmt.Sprintf("ok %d", byte(sc))
		if _, e2 := transaction.ScopesFromByte(byte(sc)); e2 != nil {
			o.Fail("json-scope-admits-what-binary-refuses", k, "scopes=%q -> %#x", str, byte(sc))
		}
	}
	o.Count("shapes:scope-string=" + strings.Fields(obs)[0])
	o.Line("sfs "+hx.Hex([]byte(str)), obs)
	o.Seen("sfs/" + str)

	// a whole signer in JSON (not modelled beyond its scope: judged by the oracle only)
	nc := []int{0, 1, 2, 16, 17, 20}[r.Intn(6)]
	var cs []string
	for i := 0; i < nc; i++ {
		cs = append(cs, `"0x`+u.hashes[r.Intn(len(u.hashes))].StringLE()+`"`)
	}
	text := fmt.Sprintf(`{"account":"0x%s","scopes":"%s","allowedcontracts":[%s]}`, u.hashes[0].StringLE(), str, strings.Join(cs, ","))
	var sg transaction.Signer
	jerr := json.Unmarshal([]byte(text), &sg)
	switch {
	case jerr != nil:
		o.Count("shapes:signer-json=err")
		if err == nil {
			o.Fail("signer-json-rejects-valid", k, "text=%s err=%v", text, jerr)
		}
	default:
		o.Count("shapes:signer-json=ok")
		if err != nil || sg.Scopes != sc {
			o.Fail("signer-json-scope-differs", k, "text=%s scopes=%#x", text, byte(sg.Scopes))
		}
		if len(sg.AllowedContracts) > 16 {
			o.Count("shapes:signer-json-accepts-more-than-16-contracts") // unlike DecodeBinary / FromStackItem: measured, see the report
		}
		if sg.Scopes&transaction.CustomContracts == 0 && len(sg.AllowedContracts) > 0 {
			o.Count("shapes:signer-json-accepts-contracts-without-the-scope-bit")
		}
	}
}

func ptrSigner(s transaction.Signer) *transaction.Signer { return &s }

func runShapesCase(o *hx.Out, k int, r *prng.R, u *universe) {
	runSignerItemCase(o, k, r, u)
	runScopeStringCase(o, k, r, u)
	var t *cond
	switch r.Intn(5) {
	case 0:
		t = chainTree(r, u, 1+r.Intn(5))
	case 1:
		n := []int{1, 2, 15, 16, 17}[r.Intn(5)]
		t = &cond{kind: []int{kAnd, kOr}[r.Intn(2)]}
		for i := 0; i < n; i++ {
			t.sub = append(t.sub, u.leaf(r))
		}
	default:
		t = u.tree(r, 1+r.Intn(4), 4, r.Chance(1, 8))
	}
	p := []int{0, 0, 8, 15, 30}[r.Intn(5)]

	// stack item of a rule
	{
		ci, mutated := itemFromCond(r, t, p)
		act := byte(r.Intn(2))
		ai, ma := typeItem(r, act, p)
		rule := giArr('A', ai, ci)
		if r.Chance(p, 100) {
			ma = true
			switch r.Intn(4) {
			case 0:
				rule.kind = 'R'
			case 1:
				rule.xs = append(rule.xs, junkItem(r))
			case 2:
				rule.xs = rule.xs[:1]
			default:
				rule.xs[0] = giInt(int64(2 + r.Intn(3))) // no such action
			}
		}
		pristine := !mutated && !ma
		line := "rsi " + itemTok(rule)
		var r2 transaction.WitnessRule
		var err error
		obs := hx.Safe(func() string {
			err = r2.FromStackItem(rule.real())
			if err != nil {
				return "err"
			}
			return fmt.Sprintf("ok %d %s", byte(r2.Action), realTok(r2.Condition))
		})
		o.Line(line, obs)
		if obs == "panic" {
			o.Fail("cond-decoder-panic", k, "stackitem input=%s", line)
		} else {
			checkDecoded(o, k, "stackitem", t, pristine, r2.Condition, err, line)
			if err == nil && pristine && byte(r2.Action) != act {
				o.Fail("cond-decoder-wrong-tree", k, "stackitem action %d decoded as %d", act, r2.Action)
			}
			if err == nil && r2.Action != transaction.WitnessDeny && r2.Action != transaction.WitnessAllow {
				o.Fail("rule-decoder-admits-invalid-action", k, "stackitem action=%d input=%s", r2.Action, line)
			}
		}
		o.Count(fmt.Sprintf("shapes:stackitem-pristine=%v", pristine))
		o.Seen(line)
	}
	// JSON of a condition
	{
		v, mutated := jsonFromCond(r, t, p)
		line := "cjs " + jsonTok(v)
		text := jsonText(v)
		var got transaction.WitnessCondition
		var err error
		obs := hx.Safe(func() string {
			got, err = transaction.UnmarshalConditionJSON([]byte(text))
			if err != nil {
				return "err"
			}
			return "ok " + realTok(got)
		})
		o.Line(line, obs)
		if obs == "panic" {
			o.Fail("cond-decoder-panic", k, "json input=%s", text)
		} else {
			checkDecoded(o, k, "json", t, !mutated, got, err, text)
		}
		o.Count(fmt.Sprintf("shapes:json-pristine=%v", !mutated))
		o.Seen(line)
	}
	// JSON of a rule
	{
		v, mutated := jsonFromCond(r, t, p)
		act := r.Intn(2)
		av := gjStr([]string{"Deny", "Allow"}[act])
		if r.Chance(p, 100) {
			mutated = true
			av = []*gjson{gjStr("allow"), gjStr("DENY"), gjStr(""), {kind: 'n'}, {kind: 'i', n: 1}, gjBool(true)}[r.Intn(6)]
		}
		rule := &gjson{kind: 'o', ks: []string{"action", "condition"}, xs: []*gjson{av, v}}
		if r.Chance(p, 100) {
			mutated = true
			switch r.Intn(5) {
			case 0:
				rule.ks[0] = caseVariant(r, "action")
			case 1:
				rule.ks[1] = caseVariant(r, "condition")
			case 2:
				rule.ks, rule.xs = rule.ks[:1], rule.xs[:1]
			case 3:
				rule.ks, rule.xs = append(rule.ks, "action"), append(rule.xs, gjStr("Deny"))
				act = 0
			default:
				rule = junkJSON(r)
			}
		}
		line := "rjs " + jsonTok(rule)
		text := jsonText(rule)
		var r2 transaction.WitnessRule
		var err error
		obs := hx.Safe(func() string {
			err = json.Unmarshal([]byte(text), &r2)
			if err != nil {
				return "err"
			}
			return fmt.Sprintf("ok %d %s", byte(r2.Action), realTok(r2.Condition))
		})
		o.Line(line, obs)
		if obs == "panic" {
			o.Fail("cond-decoder-panic", k, "json-rule input=%s", text)
		} else {
			checkDecoded(o, k, "json-rule", t, !mutated, r2.Condition, err, text)
			if err == nil && !mutated && int(r2.Action) != act {
				o.Fail("cond-decoder-wrong-tree", k, "json-rule action %d decoded as %d", act, r2.Action)
			}
			if err == nil && rule.kind == 'o' {
				// the last "action" member (any case) must be the string Deny or Allow
				last := (*gjson)(nil)
				for i, key := range rule.ks {
					if strings.EqualFold(key, "action") && rule.xs[i].kind != 'n' {
						last = rule.xs[i]
					}
				}
				if last == nil || last.kind != 's' || (last.s != "Deny" && last.s != "Allow") {
					o.Fail("rule-decoder-admits-invalid-action", k, "json-rule input=%s", text)
				}
			}
		}
		o.Seen(line)
	}
}
