package main

// Layer (iii): witness VERIFICATION on the neotest chain — the real (*core.Blockchain).VerifyWitness, i.e.
// InitVerificationContext + execution with trigger Verification, for
//
//   - a script witness: the verification script is generated like an entry script of layer (ii) (CheckWitness
//     itself, or through contract calls / CALLT / dynamic scripts / side trips / inner CALLs), reduced to the
//     boolean; the account is its Hash160;
//   - a script witness whose INVOCATION script runs CheckWitness (it is a script loaded by the verification
//     script) and leaves the boolean to a verification script that does nothing;
//   - a script witness that takes the argument from the invocation script;
//   - a contract witness: the `verify` method of a deployed proxy (with and without `_initialize`), the
//     argument pushed by the invocation script;
//
// with a transaction (generated signers), a block header or an extensible payload as the container (the
// last two have no signers at all). The model gets the steps `VS|VC ... IS ... RT ... CW` and must
// reproduce the verdict; the oracle judges it against the declarative specification with the verification
// script as the entry script.

import (
	"errors"
	"fmt"
	"strings"

	"github.com/nspcc-dev/neo-go/pkg/core"
	"github.com/nspcc-dev/neo-go/pkg/core/block"
	"github.com/nspcc-dev/neo-go/pkg/core/transaction"
	"github.com/nspcc-dev/neo-go/pkg/crypto/hash"
	"github.com/nspcc-dev/neo-go/pkg/io"
	"github.com/nspcc-dev/neo-go/pkg/network/payload"
	"github.com/nspcc-dev/neo-go/pkg/smartcontract/callflag"
	"github.com/nspcc-dev/neo-go/pkg/util"
	"github.com/nspcc-dev/neo-go/pkg/vm/emit"
	"github.com/nspcc-dev/neo-go/pkg/vm/opcode"

	"verif/harness/internal/hx"
	"verif/harness/internal/prng"
)

const (
	verifQuick    = 3000
	verifThorough = 60000
)

const (
	vScript     = iota // the verification script does the work
	vInvCheck          // CheckWitness inside the invocation script
	vArgFromInv        // the verification script takes the argument from the invocation script
	vContract          // contract witness: proxy.verify(arg)
)

func pushScript(arg []byte) []byte {
	w := io.NewBufBinWriter()
	emit.Bytes(w.BinWriter, arg)
	return w.Bytes()
}

func runVerifCase(o *hx.Out, k int, r *prng.R, cs *chainState) {
	o.Case(k)
	kind := []int{vScript, vScript, vScript, vInvCheck, vArgFromInv, vContract, vContract}[r.Intn(7)]
	container := []string{"tx", "tx", "tx", "tx", "header", "extensible"}[r.Intn(6)]

	// the chain below the verification script: only for vScript, and without native hops (GAS.transfer writes)
	var c *chainCell
	for {
		c = cs.genCell(r)
		ok := true
		for _, hp := range c.hops {
			if hp.kind == hopNative || hp.kind == hopDeploy {
				ok = false
			}
		}
		if ok {
			break
		}
	}
	c.realTx, c.verif = false, true
	probe := kind == vScript && r.Chance(1, 4)
	if probe {
		// the verdict of this cell is GetCallFlags() == probe in the last frame; the probe is fixed before the
		// script exists (its hash depends on it): one of the likely values, or anything
		c.probe = []int{5, 5, 5, 1, 4, 0, 15, r.Intn(16)}[r.Intn(8)]
	}
	if kind != vScript {
		c.hops, c.trips, c.inner, c.leaf = nil, [][]trip{nil}, []bool{false}, mCW
	}
	proxy := r.Intn(nProxies)

	// scripts and account
	var verif, inv []byte
	var acct util.Uint160
	switch kind {
	case vScript:
		// the argument is chosen before the script exists, so the account itself can only be asked for through the signers
		verif = cs.bodyScript(c, 0)
		if r.Chance(1, 4) {
			inv = pushScript([]byte{1, 2, 3})
			inv = append(inv, byte(opcode.DROP))
		}
	case vInvCheck:
		verif = []byte{byte(opcode.NOP)}
	case vArgFromInv:
		w := io.NewBufBinWriter()
		emitLeaf(w.BinWriter)
		emit.Opcodes(w.BinWriter, opcode.PUSH4, opcode.PICKITEM, opcode.RET)
		verif = w.Bytes()
	case vContract:
		acct = cs.proxies[proxy].hash
	}
	if kind != vContract {
		acct = hash.Hash160(verif)
	}
	// signers: those of the cell, one of them moved to the verified account half of the time
	signers := c.signers
	if container != "tx" {
		signers = nil
		c.noSigners = true
	} else if r.Chance(1, 2) {
		signers[r.Intn(len(signers))].account = acct
	}
	if kind != vScript {
		// the argument can be the account itself
		switch {
		case r.Chance(1, 2):
			c.h = acct
		case len(signers) > 0:
			c.h = signers[r.Intn(len(signers))].account
		}
		c.arg, c.argKind = c.h.BytesBE(), "hash"
		switch kind {
		case vInvCheck:
			w := io.NewBufBinWriter()
			emit.Bytes(w.BinWriter, c.arg)
			emit.Syscall(w.BinWriter, sysCheckWitness)
			inv = w.Bytes()
		default:
			inv = pushScript(c.arg)
		}
	}

	// the steps for the model
	switch kind {
	case vContract:
		c.entryOps = []string{fmt.Sprintf("VC %s %d", hTok(acct), b01(cs.proxies[proxy].init)), "IS " + hTok(hash.Hash160(inv)), "RT"}
		if cs.proxies[proxy].init {
			c.entryOps = append(c.entryOps, "RT")
		}
	case vInvCheck:
		c.entryOps = []string{"VS " + hTok(acct), "IS " + hTok(hash.Hash160(inv))}
	default:
		c.entryOps = []string{"VS " + hTok(acct)}
		if len(inv) > 0 {
			c.entryOps = append(c.entryOps, "IS "+hTok(hash.Hash160(inv)), "RT")
		}
	}

	// the real verification
	var cont hash.Hashable
	txTok := "-"
	switch container {
	case "tx":
		tx := transaction.New([]byte{byte(opcode.RET)}, 0)
		tx.Signers = realSigners(signers)
		cont = tx
		txTok = "T " + signersTok(signers)
	case "header":
		cont = &block.Header{Index: 1}
	default:
		cont = payload.NewExtensible()
	}
	obs := hx.Safe(func() string {
		_, err := cs.bc.VerifyWitness(acct, cont, &transaction.Witness{InvocationScript: inv, VerificationScript: verif}, 2_0000_0000)
		switch {
		case err == nil:
			return "true"
		case errors.Is(err, core.ErrInvalidSignature):
			return "false"
		case errors.Is(err, core.ErrVerificationFailed):
			return classifyFault(err.Error())
		}
		return "verif-error:" + strings.ReplaceAll(err.Error(), " ", "_")
	})

	e, wantFault := cs.env(c, verif)
	// the entry frame is the verification script / the verify method: hash = the account, no caller, ReadOnly
	e.frames[len(e.frames)-1] = frame{hash: acct, rs: true}
	if len(e.frames) > 1 {
		e.frames[len(e.frames)-2].caller = acct
	}
	if kind == vInvCheck {
		e.frames = append([]frame{{hash: hash.Hash160(inv), caller: acct, rs: false}}, e.frames...)
	}
	line := fmt.Sprintf("x %s - %s %s", contractsTok(e.contracts), txTok, strings.Join(cs.ops(c, verif), " "))
	o.Line(line, obs)
	layer := "verif"
	desc := func() string { return fmt.Sprintf("kind=%d container=%s %s %s", kind, container, c.shape(), line) }
	switch {
	case wantFault != "" || strings.HasPrefix(obs, "fault:"):
		// (err:nosigners can be the expected outcome here: a side trip checks a witness before the main path does)
		want := wantFault
		if want == "" && c.argKind == "junk" && len(c.arg) != 20 {
			want = "fault:badarg"
		}
		if obs != want {
			o.Fail("witness-unexpected-vm-fault", k, "%s: real=%s expected=%s %s", layer, obs, want, desc())
		}
		o.Count(layer + ":obs=" + obs)
	case probe:
		// the witness check still runs first and may fault; otherwise the verdict is the flags comparison
		h := c.h
		if c.argKind == "junk" {
			h, _ = util.Uint160DecodeBytesBE(c.arg)
		}
		o.Count(layer + ":flags-probe=" + obs)
		switch obs {
		case "true", "false":
			if (obs == "true") != (int(c.endFlags) == c.probe) {
				o.Fail("witness-call-flags-disagree", k, "%s: flags == %d is %s but the chain gives %d: %s", layer, c.probe, obs, c.endFlags, desc())
			}
		default:
			if !e.mayFault(signers, h) {
				o.Fail("witness-unjustified-fault", k, "%s: real=%s %s", layer, obs, desc())
			}
		}
	default:
		h := c.h
		if c.argKind == "junk" {
			h, _ = util.Uint160DecodeBytesBE(c.arg)
		}
		judge(o, k, layer, cs.u, e, signers, h, obs, desc)
	}
	o.Count(fmt.Sprintf("%s:kind=%s", layer, []string{"script", "check-in-invocation-script", "arg-from-invocation", "contract-verify"}[kind]))
	o.Count(layer + ":container=" + container)
	if kind == vScript {
		o.Count(layer + ":shape=" + c.shape())
	}
	if h := c.h; h == acct {
		o.Count(layer + ":asks-for-the-verified-account")
	}
	o.Seen(line)
	if k%1000 == 0 {
		o.Sample(desc() + " -> " + obs)
	}
	_ = callflag.All
}
