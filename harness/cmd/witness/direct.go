package main

// Layer (ib): the real runtime.CheckHashedWitness on a real vm.VM whose invocation stack is built with the
// VM's own loaders (so IsCalledByEntry / GetCallingScriptHash / GetCurrentScriptHash / call flags are real)
// and a real interop.Context whose only stub is the contract lookup.

import (
	"errors"
	"fmt"
	"strings"

	"github.com/nspcc-dev/neo-go/pkg/config"
	"github.com/nspcc-dev/neo-go/pkg/core/block"
	"github.com/nspcc-dev/neo-go/pkg/core/dao"
	"github.com/nspcc-dev/neo-go/pkg/core/interop"
	"github.com/nspcc-dev/neo-go/pkg/core/interop/runtime"
	"github.com/nspcc-dev/neo-go/pkg/core/state"
	"github.com/nspcc-dev/neo-go/pkg/core/storage"
	"github.com/nspcc-dev/neo-go/pkg/core/transaction"
	"github.com/nspcc-dev/neo-go/pkg/crypto/hash"
	"github.com/nspcc-dev/neo-go/pkg/crypto/keys"
	"github.com/nspcc-dev/neo-go/pkg/smartcontract/callflag"
	"github.com/nspcc-dev/neo-go/pkg/smartcontract/manifest"
	"github.com/nspcc-dev/neo-go/pkg/smartcontract/nef"
	"github.com/nspcc-dev/neo-go/pkg/smartcontract/trigger"
	"github.com/nspcc-dev/neo-go/pkg/util"
	"github.com/nspcc-dev/neo-go/pkg/vm/opcode"

	"verif/harness/internal/hx"
	"verif/harness/internal/prng"
)

type stubLedger struct{}

func (stubLedger) BlockHeight() uint32                         { return 0 }
func (stubLedger) CurrentBlockHash() util.Uint256              { return util.Uint256{} }
func (stubLedger) GetBlock(util.Uint256) (*block.Block, error) { return nil, errors.New("no block") }
func (stubLedger) GetConfig() config.Blockchain                { return config.Blockchain{} }
func (stubLedger) GetHeaderHash(uint32) util.Uint256           { return util.Uint256{} }
func (stubLedger) NativeManagementID() int32                   { return -1 }

// how a frame is pushed on the real VM
const (
	loadPlain   = iota // LoadScriptWithFlags: hash = Hash160(script), caller = current script hash
	loadHash           // LoadScriptWithHash: given hash, caller = current script hash
	loadNEF            // LoadNEFMethod: given hash and given caller (as native callers do)
	loadDynamic        // LoadDynamicScript: hash = Hash160(script), caller = current script hash
)

type loadStep struct {
	how        int
	script     []byte
	hash       util.Uint160 // loadHash, loadNEF
	caller     util.Uint160 // loadNEF
	flags      callflag.CallFlag
	innerCalls int // CALLs inside the script after loading (same script context)
}

type directCell struct {
	steps     []loadStep // entry first
	contracts []contractInfo
	signers   []signer
	noTx      bool // ic.Tx == nil
	useSigner bool // signers given through ic.UseSigners instead of the transaction
	h         util.Uint160
}

func directUniverse() *universe {
	return &universe{
		hashes: []util.Uint160{smallHash(1), smallHash(2), smallHash(3), smallHash(4)},
		keys:   []*keys.PublicKey{mustKey(1), mustKey(2), mustKey(3)},
	}
}

func distinctScript(i int) []byte {
	return []byte{byte(opcode.PUSHINT8), byte(i), byte(opcode.DROP), byte(opcode.RET), byte(opcode.RET)}
}

var flagChoices = []callflag.CallFlag{callflag.All, callflag.ReadOnly, callflag.ReadStates, callflag.States,
	callflag.AllowCall, callflag.NoneFlag, callflag.WriteStates | callflag.AllowNotify, callflag.AllowCall | callflag.AllowNotify}

func genScopes(r *prng.R) byte {
	switch r.Intn(10) {
	case 0:
		return 0x80
	case 1:
		return 0
	case 2: // invalid combinations a decoder would reject, but the check code can still see
		return []byte{0x81, 0x90, 0xc0, 0xff, 0x02, 0x04, 0x08, 0x82}[r.Intn(8)]
	default:
		var s byte
		for _, b := range []byte{0x01, 0x10, 0x20, 0x40} {
			if r.Bool() {
				s |= b
			}
		}
		return s
	}
}

func genSigner(r *prng.R, u *universe, accounts []util.Uint160) signer {
	s := signer{account: accounts[r.Intn(len(accounts))], scopes: genScopes(r)}
	// lists are generated whatever the scope says (the code must ignore them without the bit)
	if s.scopes&0x10 != 0 || r.Chance(1, 3) {
		for n := r.Intn(4); n > 0; n-- {
			s.contracts = append(s.contracts, u.hashes[r.Intn(len(u.hashes))])
		}
	}
	if s.scopes&0x20 != 0 || r.Chance(1, 3) {
		for n := r.Intn(3); n > 0; n-- {
			s.groups = append(s.groups, u.keys[r.Intn(len(u.keys))])
		}
	}
	if s.scopes&0x40 != 0 || r.Chance(1, 3) {
		for n := r.Intn(4); n > 0; n-- {
			a := byte(r.Intn(2))
			if r.Chance(1, 20) {
				a = byte(2 + r.Intn(3)) // not a valid action byte
			}
			s.rules = append(s.rules, rule{action: a, c: u.tree(r, 3, 3, false)})
		}
	}
	return s
}

func genDirectCell(r *prng.R, u *universe) *directCell {
	c := &directCell{}
	depth := []int{1, 2, 2, 3, 3, 4}[r.Intn(6)]
	for i := 0; i < depth; i++ {
		st := loadStep{script: distinctScript(r.Intn(6)), flags: flagChoices[r.Intn(len(flagChoices))]}
		if r.Chance(2, 3) {
			st.flags = []callflag.CallFlag{callflag.All, callflag.ReadOnly, callflag.AllowCall}[r.Intn(3)]
		}
		switch {
		case i == 0:
			st.how = []int{loadPlain, loadPlain, loadHash, loadNEF}[r.Intn(4)]
		default:
			st.how = []int{loadHash, loadHash, loadHash, loadNEF, loadDynamic, loadPlain}[r.Intn(6)]
		}
		st.hash = u.hashes[r.Intn(len(u.hashes))]
		if st.how == loadNEF {
			switch r.Intn(4) {
			case 0:
				st.caller = util.Uint160{}
			default:
				st.caller = u.hashes[r.Intn(len(u.hashes))]
			}
		}
		if r.Chance(1, 5) {
			st.innerCalls = 1 + r.Intn(2)
		}
		c.steps = append(c.steps, st)
	}
	for _, h := range u.hashes {
		if r.Chance(2, 3) {
			ci := contractInfo{hash: h}
			for _, k := range u.keys {
				if r.Chance(1, 3) {
					ci.groups = append(ci.groups, k)
				}
			}
			c.contracts = append(c.contracts, ci)
		}
	}
	// the dynamic / plain scripts may be "deployed" too (their hash is the script's)
	accounts := []util.Uint160{smallHash(0xa1), smallHash(0xa2), smallHash(0xa3)}
	accounts = append(accounts, u.hashes...)
	accounts = append(accounts, util.Uint160{})
	ns := []int{0, 1, 1, 2, 2, 3}[r.Intn(6)]
	for i := 0; i < ns; i++ {
		c.signers = append(c.signers, genSigner(r, u, accounts))
	}
	switch {
	case len(c.signers) > 0 && r.Chance(3, 4):
		c.h = c.signers[r.Intn(len(c.signers))].account
	default:
		c.h = accounts[r.Intn(len(accounts))]
	}
	if ns == 0 {
		c.noTx = r.Bool()
	} else if r.Chance(1, 10) {
		c.useSigner = true
	}
	return c
}

// env derives what the chain of loaders must have produced, independently of the VM.
func (c *directCell) env() *env {
	e := &env{contracts: c.contracts}
	var fr []frame
	for i, st := range c.steps {
		f := frame{rs: st.flags&callflag.ReadStates != 0}
		switch st.how {
		case loadPlain, loadDynamic:
			f.hash = hash.Hash160(st.script)
		default:
			f.hash = st.hash
		}
		switch {
		case st.how == loadNEF:
			f.caller = st.caller
		case i > 0:
			f.caller = fr[i-1].hash
		}
		fr = append(fr, f)
	}
	for i := len(fr) - 1; i >= 0; i-- {
		e.frames = append(e.frames, fr[i])
	}
	return e
}

func classifyErr(err error) string {
	s := err.Error()
	switch {
	case strings.Contains(s, "missing ReadStates call flag"):
		return "err:noreadstates"
	case strings.Contains(s, "no valid signers"):
		return "err:nosigners"
	}
	return "err:other"
}

func (c *directCell) run() (obs string) {
	defer func() {
		if r := recover(); r != nil {
			obs = "panic"
		}
	}()
	var tx *transaction.Transaction
	if !c.noTx {
		tx = &transaction.Transaction{}
		if !c.useSigner {
			tx.Signers = realSigners(c.signers)
		} else {
			tx.Signers = []transaction.Signer{{Account: smallHash(0x77), Scopes: transaction.Global}}
		}
	}
	getContract := func(_ *dao.Simple, h util.Uint160) (*state.Contract, error) {
		for _, ci := range c.contracts {
			if ci.hash == h {
				cs := &state.Contract{ContractBase: state.ContractBase{Hash: h}}
				for _, g := range ci.groups {
					cs.Manifest.Groups = append(cs.Manifest.Groups, manifest.Group{PublicKey: g})
				}
				return cs, nil
			}
		}
		return nil, errors.New("unknown contract")
	}
	ic := interop.NewContext(trigger.Application, stubLedger{}, dao.NewSimple(storage.NewMemoryStore(), false), 30, 100000,
		getContract, nil, nil, nil, tx, nil)
	if c.useSigner {
		ic.UseSigners(realSigners(c.signers))
	}
	v := ic.SpawnVM()
	for _, st := range c.steps {
		switch st.how {
		case loadPlain:
			v.LoadScriptWithFlags(st.script, st.flags)
		case loadHash:
			v.LoadScriptWithHash(st.script, st.hash, st.flags)
		case loadNEF:
			v.LoadNEFMethod(&nef.File{Script: st.script}, &manifest.Manifest{}, st.caller, st.hash, st.flags, true, 0, -1, nil, nil, false)
		case loadDynamic:
			v.LoadDynamicScript(st.script, st.flags)
		}
		for i := 0; i < st.innerCalls; i++ {
			v.Call(3)
		}
	}
	res, err := runtime.CheckHashedWitness(ic, c.h)
	if err != nil {
		return classifyErr(err)
	}
	return fmt.Sprint(res)
}

// judge compares an observation of the real code with the declarative spec.
func judge(o *hx.Out, k int, layer string, u *universe, e *env, ss []signer, h util.Uint160, obs string, desc func() string) {
	want, why := e.specWitness(ss, h)
	if !e.frames[0].rs && obs == fmt.Sprint(want) {
		// group lookups need ReadStates: without the flag a (correct) boolean outcome cannot depend on any manifest
		for _, v := range e.groupVariants(u.keys) {
			if w, _ := v.specWitness(ss, h); fmt.Sprint(w) != obs {
				o.Fail("witness-reads-groups-without-readstates", k, "%s: real=%s but with other manifests the spec is %v: %s", layer, obs, w, desc())
				break
			}
		}
	}
	o.Count(layer + ":obs=" + obs)
	o.Count(layer + ":spec=" + why)
	switch obs {
	case "true":
		if !want {
			o.Fail("witness-passes-outside-scope", k, "%s: real=true spec=false(%s) %s", layer, why, desc())
		}
	case "false":
		if want {
			o.Fail("witness-denied-inside-scope", k, "%s: real=false spec=true(%s) %s", layer, why, desc())
		}
	case "err:noreadstates", "err:nosigners":
		if !e.mayFault(ss, h) || why == "calling-contract" || (obs == "err:nosigners") != (len(ss) == 0) {
			o.Fail("witness-unjustified-fault", k, "%s: real=%s spec=%v(%s) %s", layer, obs, want, why, desc())
		}
	default:
		o.Fail("witness-unexpected-outcome", k, "%s: real=%s spec=%v(%s) %s", layer, obs, want, why, desc())
	}
}

func runDirectCase(o *hx.Out, k int, r *prng.R, u *universe) {
	o.Case(k)
	c := genDirectCell(r, u)
	e := c.env()
	obs := c.run()
	line := fmt.Sprintf("cw %s %s %s", hTok(c.h), e.tok(), signersTok(c.signers))
	o.Line(line, obs)
	judge(o, k, "direct", u, e, c.signers, c.h, obs, func() string { return line })
	o.Count(fmt.Sprintf("direct:depth=%d", len(c.steps)))
	o.Count(fmt.Sprintf("direct:signers=%d", len(c.signers)))
	o.Seen(line)
	if k%5000 == 0 {
		o.Sample(line + " -> " + obs)
	}
}
