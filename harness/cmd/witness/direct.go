package main

// Layer (ib): the real runtime.CheckHashedWitness on a real vm.VM whose invocation stack is built with the
// VM's own loaders (so IsCalledByEntry / GetCallingScriptHash / GetCurrentScriptHash / call flags are real)
// and a real interop.Context whose only stub is the contract lookup. The cell itself is in directx.go:
// a sequence of loader calls, CALLs and returns, every intermediate state observed.

import (
	"errors"
	"fmt"
	"strings"

	"github.com/nspcc-dev/neo-go/pkg/config"
	"github.com/nspcc-dev/neo-go/pkg/core/block"
	"github.com/nspcc-dev/neo-go/pkg/crypto/keys"
	"github.com/nspcc-dev/neo-go/pkg/smartcontract/callflag"
	"github.com/nspcc-dev/neo-go/pkg/util"

	"verif/harness/internal/hx"
	"verif/harness/internal/prng"
)

type stubLedger struct{}

func (stubLedger) BlockHeight() uint32                         { return 0 }
func (stubLedger) CurrentBlockHash() util.Uint256              { return util.Uint256{} }
func (stubLedger) GetBlock(util.Uint256) (*block.Block, error) { return nil, errors.New("no block") }
func (stubLedger) GetConfig() config.Blockchain                { return config.Blockchain{} }
func (stubLedger) GetHeaderHash(uint32) util.Uint256           { return util.Uint256{} }
func (stubLedger) NativeManagementID() int32                   { return -1 }

func directUniverse() *universe {
	return &universe{
		hashes: []util.Uint160{smallHash(1), smallHash(2), smallHash(3), smallHash(4)},
		keys:   []*keys.PublicKey{mustKey(1), mustKey(2), mustKey(3)},
	}
}

var flagChoices = []callflag.CallFlag{callflag.All, callflag.ReadOnly, callflag.ReadStates, callflag.States,
	callflag.AllowCall, callflag.NoneFlag, callflag.WriteStates | callflag.AllowNotify, callflag.AllowCall | callflag.AllowNotify}

func genScopes(r *prng.R) byte {
	switch r.Intn(10) {
	case 0:
		return 0x80
	case 1:
		return 0
	case 2: // invalid combinations a decoder would reject, but the check code can still see
		return []byte{0x81, 0x90, 0xc0, 0xff, 0x02, 0x04, 0x08, 0x82}[r.Intn(8)]
	default:
		var s byte
		for _, b := range []byte{0x01, 0x10, 0x20, 0x40} {
			if r.Bool() {
				s |= b
			}
		}
		return s
	}
}

func genSigner(r *prng.R, u *universe, accounts []util.Uint160) signer {
	s := signer{account: accounts[r.Intn(len(accounts))], scopes: genScopes(r)}
	// lists are generated whatever the scope says (the code must ignore them without the bit)
	if s.scopes&0x10 != 0 || r.Chance(1, 3) {
		for n := r.Intn(4); n > 0; n-- {
			s.contracts = append(s.contracts, u.hashes[r.Intn(len(u.hashes))])
		}
	}
	if s.scopes&0x20 != 0 || r.Chance(1, 3) {
		for n := r.Intn(3); n > 0; n-- {
			s.groups = append(s.groups, u.keys[r.Intn(len(u.keys))])
		}
	}
	if s.scopes&0x40 != 0 || r.Chance(1, 3) {
		for n := r.Intn(4); n > 0; n-- {
			a := byte(r.Intn(2))
			if r.Chance(1, 20) {
				a = byte(2 + r.Intn(3)) // not a valid action byte
			}
			s.rules = append(s.rules, rule{action: a, c: u.tree(r, 3, 3, false)})
		}
	}
	return s
}

func classifyErr(err error) string {
	s := err.Error()
	switch {
	case strings.Contains(s, "missing ReadStates call flag"):
		return "err:noreadstates"
	case strings.Contains(s, "no valid signers"):
		return "err:nosigners"
	}
	return "err:other"
}

// judge compares an observation of the real code with the declarative spec.
func judge(o *hx.Out, k int, layer string, u *universe, e *env, ss []signer, h util.Uint160, obs string, desc func() string) {
	want, why := e.specWitness(ss, h)
	if !e.frames[0].rs && obs == fmt.Sprint(want) {
		// group lookups need ReadStates: without the flag a (correct) boolean outcome cannot depend on any manifest
		for _, v := range e.groupVariants(u.keys) {
			if w, _ := v.specWitness(ss, h); fmt.Sprint(w) != obs {
				o.Fail("witness-reads-groups-without-readstates", k, "%s: real=%s but with other manifests the spec is %v: %s", layer, obs, w, desc())
				break
			}
		}
	}
	o.Count(layer + ":obs=" + obs)
	o.Count(layer + ":spec=" + why)
	switch obs {
	case "true":
		if !want {
			o.Fail("witness-passes-outside-scope", k, "%s: real=true spec=false(%s) %s", layer, why, desc())
		}
	case "false":
		if want {
			o.Fail("witness-denied-inside-scope", k, "%s: real=false spec=true(%s) %s", layer, why, desc())
		}
	case "err:noreadstates", "err:nosigners":
		if !e.mayFault(ss, h) || why == "calling-contract" || (obs == "err:nosigners") != (len(ss) == 0) {
			o.Fail("witness-unjustified-fault", k, "%s: real=%s spec=%v(%s) %s", layer, obs, want, why, desc())
		}
	default:
		o.Fail("witness-unexpected-outcome", k, "%s: real=%s spec=%v(%s) %s", layer, obs, want, why, desc())
	}
}
