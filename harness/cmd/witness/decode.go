package main

// Decoder stream: the real transaction.DecodeBinaryCondition on well-formed and structurally malformed
// encodings, compared with the model's `decodeCond` and with the nesting / width bound (oracle).

import (
	"bytes"
	"fmt"

	"github.com/nspcc-dev/neo-go/pkg/core/transaction"
	"github.com/nspcc-dev/neo-go/pkg/io"

	"verif/harness/internal/hx"
	"verif/harness/internal/prng"
)

// knobs of the hand-written encoder
type encOpts struct {
	r          *prng.R
	nonMinimal bool // write counts in a wider var-uint form
	badType    bool // replace one type byte by an unknown one
	boolByte   bool // booleans as arbitrary non-zero bytes
}

func (c *cond) encode(w *bytes.Buffer, o *encOpts) {
	t := []byte{0x00, 0x01, 0x02, 0x03, 0x18, 0x19, 0x20, 0x28, 0x29}[c.kind]
	if o.badType && o.r.Chance(1, 6) {
		t = []byte{0x04, 0x05, 0x17, 0x1a, 0x21, 0x27, 0x2a, 0xff, 0x10}[o.r.Intn(9)]
	}
	w.WriteByte(t)
	switch c.kind {
	case kBool:
		b := byte(0)
		if c.b {
			b = 1
			if o.boolByte {
				b = byte(1 + o.r.Intn(255))
			}
		}
		w.WriteByte(b)
	case kNot:
		c.sub[0].encode(w, o)
	case kAnd, kOr:
		n := len(c.sub)
		if o.nonMinimal && o.r.Chance(1, 2) {
			switch o.r.Intn(3) {
			case 0:
				w.Write([]byte{0xfd, byte(n), 0})
			case 1:
				w.Write([]byte{0xfe, byte(n), 0, 0, 0})
			default:
				w.Write([]byte{0xff, byte(n), 0, 0, 0, 0, 0, 0, 0})
			}
		} else {
			w.WriteByte(byte(n)) // n < 0xfd here
		}
		for _, s := range c.sub {
			s.encode(w, o)
		}
	case kHash, kCalledBy:
		w.Write(c.h.BytesBE())
	case kGroup, kCalledByGroup:
		w.Write(c.k.Bytes())
	}
}

// chainTree: a tree of exactly depth d made of Not/And/Or spine.
func chainTree(r *prng.R, u *universe, d int) *cond {
	if d <= 1 {
		return u.leaf(r)
	}
	switch r.Intn(3) {
	case 0:
		return &cond{kind: kNot, sub: []*cond{chainTree(r, u, d-1)}}
	case 1:
		return &cond{kind: kAnd, sub: []*cond{u.leaf(r), chainTree(r, u, d-1)}}
	default:
		return &cond{kind: kOr, sub: []*cond{chainTree(r, u, d-1), u.leaf(r)}}
	}
}

func runDecodeCase(o *hx.Out, k int, r *prng.R, u *universe) {
	o.Case(k)
	var t *cond
	eo := &encOpts{r: r}
	kind := ""
	switch r.Intn(10) {
	case 0, 1: // exact depth around the limit
		d := 1 + r.Intn(5)
		t = chainTree(r, u, d)
		kind = fmt.Sprintf("spine-depth=%d", d)
	case 2: // width around the limit
		n := []int{0, 1, 15, 16, 17, 18, 40}[r.Intn(7)]
		t = &cond{kind: []int{kAnd, kOr}[r.Intn(2)]}
		for i := 0; i < n; i++ {
			t.sub = append(t.sub, u.leaf(r))
		}
		if r.Bool() {
			t = &cond{kind: kNot, sub: []*cond{t}}
		}
		kind = fmt.Sprintf("width=%d", n)
	case 3:
		t = u.tree(r, 4, 4, true)
		eo.nonMinimal = true
		kind = "non-minimal-count"
	case 4:
		t = u.tree(r, 3, 4, false)
		eo.badType = true
		kind = "bad-type"
	case 5:
		t = u.tree(r, 3, 4, false)
		eo.boolByte = true
		kind = "bool-byte"
	default:
		d := 1 + r.Intn(4)
		t = u.tree(r, d, 5, r.Chance(1, 5))
		kind = "random"
	}
	var buf bytes.Buffer
	t.encode(&buf, eo)
	b := buf.Bytes()
	wellFormed := !eo.badType && !eo.nonMinimal
	switch r.Intn(6) {
	case 0:
		if len(b) > 0 {
			b = b[:r.Intn(len(b))]
			kind += "+truncated"
			wellFormed = false
		}
	case 1:
		b = append(b, byte(r.Intn(4)), 0x20)
		kind += "+tail"
	}
	o.Count("dec:" + kind)
	br := io.NewBinReaderFromBuf(b)
	var c transaction.WitnessCondition
	obs := hx.Safe(func() string {
		c = transaction.DecodeBinaryCondition(br)
		if br.Err != nil {
			return "err"
		}
		return fmt.Sprintf("ok %s %s", realTok(c), hx.Hex(b[len(b)-br.Len():]))
	})
	if obs == "err" {
		o.Count("dec:rejected")
	} else {
		o.Count("dec:accepted")
		o.Count(depthName("dec:accepted-depth", t.depth()))
	}
	o.Line("dec 3 "+hx.Hex(b), obs)
	// oracle: whatever the decoder accepts is within the permitted nesting and width
	if obs != "err" && obs != "panic" {
		d, wok := realDepthWidth(c)
		if d > transaction.MaxConditionNesting || !wok {
			o.Fail("cond-decoder-bound", k, "accepted depth=%d widthOk=%v bytes=%x", d, wok, b)
		}
		// and encodes back to a condition that decodes to the same thing
		w := io.NewBufBinWriter()
		c.EncodeBinary(w.BinWriter)
		r2 := io.NewBinReaderFromBuf(w.Bytes())
		c2 := transaction.DecodeBinaryCondition(r2)
		if r2.Err != nil || realTok(c2) != realTok(c) || r2.Len() != 0 {
			o.Fail("cond-reencode", k, "bytes=%x reencoded=%x err=%v", b, w.Bytes(), r2.Err)
		}
	}
	if obs == "panic" {
		o.Fail("cond-decoder-panic", k, "bytes=%x", b)
	}
	// the encoder: model vs real on the generated tree (any depth, counts below 0xfd)
	if k%2 == 0 {
		ew := io.NewBufBinWriter()
		t.real().EncodeBinary(ew.BinWriter)
		o.Line("enc "+t.tok(), hx.Hex(ew.Bytes()))
	}
	// a well-formed encoding of a tree within the limits must be accepted and give that tree back
	if wellFormed && t.depth() <= transaction.MaxConditionNesting && t.widthsOK() {
		o.Count("dec:valid-within-limits")
		if obs == "err" {
			o.Fail("cond-decoder-rejects-valid", k, "tree=%s bytes=%x", t.tok(), b)
		} else if realTok(c) != realTok(t.real()) {
			o.Fail("cond-decoder-wrong-tree", k, "tree=%s decoded=%s", realTok(t.real()), realTok(c))
		}
	}
	o.Seen("dec/" + hx.Hex(b))
}

func (c *cond) widthsOK() bool {
	if (c.kind == kAnd || c.kind == kOr) && (len(c.sub) < 1 || len(c.sub) > 16) {
		return false
	}
	for _, s := range c.sub {
		if !s.widthsOK() {
			return false
		}
	}
	return true
}
