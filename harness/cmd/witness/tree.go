package main

// Harness-side description of conditions, signers and execution environments, their
// conversion to the real types of /repo, their token form for the Lean driver and the
// declarative specification (the oracle) evaluated on them.

import (
	"encoding/hex"
	"fmt"
	"strings"

	"github.com/nspcc-dev/neo-go/pkg/core/transaction"
	"github.com/nspcc-dev/neo-go/pkg/crypto/keys"
	"github.com/nspcc-dev/neo-go/pkg/util"

	"verif/harness/internal/prng"
)

const (
	kBool = iota
	kNot
	kAnd
	kOr
	kHash
	kGroup
	kEntry
	kCalledBy
	kCalledByGroup
)

type cond struct {
	kind int
	b    bool
	sub  []*cond
	h    util.Uint160
	k    *keys.PublicKey
}

func hTok(u util.Uint160) string {
	s := strings.TrimLeft(hex.EncodeToString(u.BytesBE()), "0")
	if s == "" {
		return "0"
	}
	return s
}

func kTok(k *keys.PublicKey) string { return hex.EncodeToString(k.Bytes()) }

// tok is the prefix token form read by Driver/Witness.lean.
func (c *cond) tok() string {
	var sb strings.Builder
	c.writeTok(&sb)
	return sb.String()
}

func (c *cond) writeTok(sb *strings.Builder) {
	switch c.kind {
	case kBool:
		if c.b {
			sb.WriteString("B1")
		} else {
			sb.WriteString("B0")
		}
	case kNot:
		sb.WriteString("N ")
		c.sub[0].writeTok(sb)
	case kAnd, kOr:
		if c.kind == kAnd {
			sb.WriteString("A ")
		} else {
			sb.WriteString("O ")
		}
		fmt.Fprintf(sb, "%d", len(c.sub))
		for _, s := range c.sub {
			sb.WriteByte(' ')
			s.writeTok(sb)
		}
	case kHash:
		sb.WriteString("H " + hTok(c.h))
	case kGroup:
		sb.WriteString("G " + kTok(c.k))
	case kEntry:
		sb.WriteString("E")
	case kCalledBy:
		sb.WriteString("C " + hTok(c.h))
	case kCalledByGroup:
		sb.WriteString("K " + kTok(c.k))
	}
}

// real builds the condition out of /repo's own types.
func (c *cond) real() transaction.WitnessCondition {
	switch c.kind {
	case kBool:
		v := transaction.ConditionBoolean(c.b)
		return &v
	case kNot:
		return &transaction.ConditionNot{Condition: c.sub[0].real()}
	case kAnd:
		v := make(transaction.ConditionAnd, len(c.sub))
		for i := range c.sub {
			v[i] = c.sub[i].real()
		}
		return &v
	case kOr:
		v := make(transaction.ConditionOr, len(c.sub))
		for i := range c.sub {
			v[i] = c.sub[i].real()
		}
		return &v
	case kHash:
		v := transaction.ConditionScriptHash(c.h)
		return &v
	case kGroup:
		v := transaction.ConditionGroup(*c.k)
		return &v
	case kEntry:
		return transaction.ConditionCalledByEntry{}
	case kCalledBy:
		v := transaction.ConditionCalledByContract(c.h)
		return &v
	default:
		v := transaction.ConditionCalledByGroup(*c.k)
		return &v
	}
}

// realTok prints a condition built by the real code (e.g. by its decoder) in the token form,
// with full-width hashes and keys as the driver prints them.
func realTok(c transaction.WitnessCondition) string {
	switch v := c.(type) {
	case *transaction.ConditionBoolean:
		if bool(*v) {
			return "B1"
		}
		return "B0"
	case *transaction.ConditionNot:
		return "N " + realTok(v.Condition)
	case *transaction.ConditionAnd:
		s := fmt.Sprintf("A %d", len(*v))
		for _, x := range *v {
			s += " " + realTok(x)
		}
		return s
	case *transaction.ConditionOr:
		s := fmt.Sprintf("O %d", len(*v))
		for _, x := range *v {
			s += " " + realTok(x)
		}
		return s
	case *transaction.ConditionScriptHash:
		return "H " + hex.EncodeToString(util.Uint160(*v).BytesBE())
	case *transaction.ConditionGroup:
		return "G " + hex.EncodeToString((*keys.PublicKey)(v).Bytes())
	case transaction.ConditionCalledByEntry:
		return "E"
	case *transaction.ConditionCalledByContract:
		return "C " + hex.EncodeToString(util.Uint160(*v).BytesBE())
	case *transaction.ConditionCalledByGroup:
		return "K " + hex.EncodeToString((*keys.PublicKey)(v).Bytes())
	}
	return "?"
}

// realDepthWidth returns the nesting depth of a real condition (leaf = 1) and whether every
// And/Or has between 1 and 16 operands.
func realDepthWidth(c transaction.WitnessCondition) (int, bool) {
	list := func(l []transaction.WitnessCondition) (int, bool) {
		d, ok := 0, len(l) >= 1 && len(l) <= 16
		for _, x := range l {
			dx, okx := realDepthWidth(x)
			d = max(d, dx)
			ok = ok && okx
		}
		return d + 1, ok
	}
	switch v := c.(type) {
	case *transaction.ConditionNot:
		d, ok := realDepthWidth(v.Condition)
		return d + 1, ok
	case *transaction.ConditionAnd:
		return list(*v)
	case *transaction.ConditionOr:
		return list(*v)
	}
	return 1, true
}

func (c *cond) depth() int {
	d := 0
	for _, s := range c.sub {
		d = max(d, s.depth())
	}
	return d + 1
}

func (c *cond) hasGroupCond() bool {
	if c.kind == kGroup || c.kind == kCalledByGroup {
		return true
	}
	for _, s := range c.sub {
		if s.hasGroupCond() {
			return true
		}
	}
	return false
}

// ---- environments --------------------------------------------------------

type frame struct {
	hash, caller util.Uint160
	rs           bool
}

type contractInfo struct {
	hash   util.Uint160
	groups []*keys.PublicKey
}

// env: frames[0] is the executing context, frames[len-1] the entry script.
type env struct {
	frames    []frame
	contracts []contractInfo
}

func (e *env) tok() string {
	var sb strings.Builder
	fmt.Fprintf(&sb, "%d", len(e.frames))
	for _, f := range e.frames {
		rs := 0
		if f.rs {
			rs = 1
		}
		fmt.Fprintf(&sb, " %s %s %d", hTok(f.hash), hTok(f.caller), rs)
	}
	fmt.Fprintf(&sb, " %d", len(e.contracts))
	for _, c := range e.contracts {
		fmt.Fprintf(&sb, " %s %d", hTok(c.hash), len(c.groups))
		for _, g := range c.groups {
			sb.WriteString(" " + kTok(g))
		}
	}
	return sb.String()
}

func (e *env) current() util.Uint160 { return e.frames[0].hash }
func (e *env) calling() util.Uint160 { return e.frames[0].caller }

// hasGroup: contract h is deployed and its manifest lists group key k.
func (e *env) hasGroup(h util.Uint160, k *keys.PublicKey) bool {
	for _, c := range e.contracts {
		if c.hash == h {
			for _, g := range c.groups {
				if g.Equal(k) {
					return true
				}
			}
			return false // first entry wins, as a map would
		}
	}
	return false
}

// ---- the declarative specification (oracle) -------------------------------
//
// Written from the property statement, not from the code: no evaluation order, no errors.

// holds: the meaning of a condition in an environment.
func (e *env) holds(c *cond) bool {
	switch c.kind {
	case kBool:
		return c.b
	case kNot:
		return !e.holds(c.sub[0])
	case kAnd:
		all := true
		for _, s := range c.sub {
			all = all && e.holds(s)
		}
		return all
	case kOr:
		any := false
		for _, s := range c.sub {
			any = any || e.holds(s)
		}
		return any
	case kHash:
		return c.h == e.current()
	case kGroup:
		return e.hasGroup(e.current(), c.k)
	case kEntry:
		return e.directlyFromEntry()
	case kCalledBy:
		return c.h == e.calling()
	default:
		return e.hasGroup(e.calling(), c.k)
	}
}

// directlyFromEntry: the executing script is the entry script or was called by it.
func (e *env) directlyFromEntry() bool { return len(e.frames) <= 2 }

type rule struct {
	action byte
	c      *cond
}

type signer struct {
	account   util.Uint160
	scopes    byte
	contracts []util.Uint160
	groups    []*keys.PublicKey
	rules     []rule
}

func (s *signer) tok() string {
	var sb strings.Builder
	fmt.Fprintf(&sb, "%s %d %d", hTok(s.account), s.scopes, len(s.contracts))
	for _, c := range s.contracts {
		sb.WriteString(" " + hTok(c))
	}
	fmt.Fprintf(&sb, " %d", len(s.groups))
	for _, g := range s.groups {
		sb.WriteString(" " + kTok(g))
	}
	fmt.Fprintf(&sb, " %d", len(s.rules))
	for _, r := range s.rules {
		fmt.Fprintf(&sb, " %d %s", r.action, r.c.tok())
	}
	return sb.String()
}

func signersTok(ss []signer) string {
	var sb strings.Builder
	fmt.Fprintf(&sb, "%d", len(ss))
	for i := range ss {
		sb.WriteString(" " + ss[i].tok())
	}
	return sb.String()
}

func (s *signer) real() transaction.Signer {
	r := transaction.Signer{Account: s.account, Scopes: transaction.WitnessScope(s.scopes)}
	r.AllowedContracts = append(r.AllowedContracts, s.contracts...)
	r.AllowedGroups = append(r.AllowedGroups, s.groups...)
	for _, x := range s.rules {
		r.Rules = append(r.Rules, transaction.WitnessRule{Action: transaction.WitnessAction(x.action), Condition: x.c.real()})
	}
	return r
}

func realSigners(ss []signer) []transaction.Signer {
	res := make([]transaction.Signer, len(ss))
	for i := range ss {
		res[i] = ss[i].real()
	}
	return res
}

// allowed: does the scope of signer s cover the environment e ? Returns the clause that grants it.
func (e *env) allowed(s *signer) (bool, string) {
	if s.scopes == 0x80 {
		return true, "global"
	}
	if s.scopes&0x01 != 0 && e.directlyFromEntry() {
		return true, "calledByEntry"
	}
	if s.scopes&0x10 != 0 {
		for _, c := range s.contracts {
			if c == e.current() {
				return true, "customContracts"
			}
		}
	}
	if s.scopes&0x20 != 0 {
		for _, g := range s.groups {
			if e.hasGroup(e.current(), g) {
				return true, "customGroups"
			}
		}
	}
	if s.scopes&0x40 != 0 {
		for _, r := range s.rules {
			if e.holds(r.c) {
				if r.action == 1 {
					return true, "rule-allow"
				}
				return false, "rule-deny"
			}
		}
	}
	return false, "none"
}

// specWitness: the property's right-hand side for CheckWitness(h).
func (e *env) specWitness(ss []signer, h util.Uint160) (bool, string) {
	if !e.calling().Equals(util.Uint160{}) && h == e.calling() {
		return true, "calling-contract"
	}
	for i := range ss {
		if ss[i].account == h {
			return e.allowed(&ss[i])
		}
	}
	return false, "non-signer"
}

// mayFault tells whether a fault of the real code can be justified: no signers at all, or a group
// lookup (CustomGroups scope of the deciding signer, or a group condition in its rules) without ReadStates.
func (e *env) mayFault(ss []signer, h util.Uint160) bool {
	if len(ss) == 0 {
		return true
	}
	if e.frames[0].rs {
		return false
	}
	for i := range ss {
		if ss[i].account == h {
			if ss[i].scopes&0x20 != 0 {
				return true
			}
			if ss[i].scopes&0x40 != 0 {
				for _, r := range ss[i].rules {
					if r.c.hasGroupCond() {
						return true
					}
				}
			}
			return false
		}
	}
	return false
}

// groupVariants returns copies of e whose contract table gives the current and the calling contract other
// group sets (none, all of ks, and single-key toggles). Used for the oracle "without ReadStates the outcome
// cannot depend on any manifest".
func (e *env) groupVariants(ks []*keys.PublicKey) []*env {
	mk := func(f func(h util.Uint160, old []*keys.PublicKey) []*keys.PublicKey) *env {
		v := &env{frames: e.frames}
		seen := map[util.Uint160]bool{}
		for _, c := range e.contracts {
			if seen[c.hash] {
				continue
			}
			seen[c.hash] = true
			if c.hash == e.current() || c.hash == e.calling() {
				v.contracts = append(v.contracts, contractInfo{hash: c.hash, groups: f(c.hash, c.groups)})
			} else {
				v.contracts = append(v.contracts, c)
			}
		}
		for _, h := range []util.Uint160{e.current(), e.calling()} {
			if !seen[h] {
				seen[h] = true
				v.contracts = append(v.contracts, contractInfo{hash: h, groups: f(h, nil)})
			}
		}
		return v
	}
	res := []*env{
		mk(func(util.Uint160, []*keys.PublicKey) []*keys.PublicKey { return nil }),
		mk(func(util.Uint160, []*keys.PublicKey) []*keys.PublicKey { return ks }),
	}
	for _, k := range ks {
		for _, target := range []util.Uint160{e.current(), e.calling()} {
			res = append(res, mk(func(h util.Uint160, old []*keys.PublicKey) []*keys.PublicKey {
				if h != target {
					return old
				}
				var out []*keys.PublicKey
				had := false
				for _, g := range old {
					if g.Equal(k) {
						had = true
					} else {
						out = append(out, g)
					}
				}
				if !had {
					out = append(out, k)
				}
				return out
			}))
		}
	}
	return res
}

// ---- generators ------------------------------------------------------------

type universe struct {
	hashes []util.Uint160
	keys   []*keys.PublicKey
}

func (u *universe) leaf(r *prng.R) *cond {
	switch r.Intn(9) {
	case 0:
		return &cond{kind: kBool, b: r.Bool()}
	case 1, 2:
		return &cond{kind: kHash, h: u.hashes[r.Intn(len(u.hashes))]}
	case 3, 4:
		return &cond{kind: kGroup, k: u.keys[r.Intn(len(u.keys))]}
	case 5:
		return &cond{kind: kEntry}
	case 6:
		return &cond{kind: kCalledBy, h: u.hashes[r.Intn(len(u.hashes))]}
	default:
		return &cond{kind: kCalledByGroup, k: u.keys[r.Intn(len(u.keys))]}
	}
}

// tree generates a random condition of depth <= d, And/Or of at most w operands (at least 1 unless allowEmpty).
func (u *universe) tree(r *prng.R, d, w int, allowEmpty bool) *cond {
	if d <= 1 || r.Chance(1, 4) {
		return u.leaf(r)
	}
	switch r.Intn(3) {
	case 0:
		return &cond{kind: kNot, sub: []*cond{u.tree(r, d-1, w, allowEmpty)}}
	case 1, 2:
		n := 1 + r.Intn(w)
		if r.Chance(2, 3) && n > 3 {
			n = 1 + r.Intn(3)
		}
		if allowEmpty && r.Chance(1, 12) {
			n = 0
		}
		k := kAnd
		if r.Bool() {
			k = kOr
		}
		c := &cond{kind: k}
		for i := 0; i < n; i++ {
			c.sub = append(c.sub, u.tree(r, d-1, w, allowEmpty))
		}
		return c
	}
	return nil
}

// allLeaves lists every leaf over the universe.
func (u *universe) allLeaves() []*cond {
	l := []*cond{{kind: kBool, b: false}, {kind: kBool, b: true}}
	for _, h := range u.hashes {
		l = append(l, &cond{kind: kHash, h: h})
	}
	for _, k := range u.keys {
		l = append(l, &cond{kind: kGroup, k: k})
	}
	l = append(l, &cond{kind: kEntry})
	for _, h := range u.hashes {
		l = append(l, &cond{kind: kCalledBy, h: h})
	}
	for _, k := range u.keys {
		l = append(l, &cond{kind: kCalledByGroup, k: k})
	}
	return l
}

// allDepth2 lists every tree of depth <= 2 with And/Or of 1..maxW operands.
func (u *universe) allDepth2(maxW int) []*cond {
	lv := u.allLeaves()
	res := append([]*cond{}, lv...)
	for _, l := range lv {
		res = append(res, &cond{kind: kNot, sub: []*cond{l}})
	}
	for _, kind := range []int{kAnd, kOr} {
		var rec func(pre []*cond, n int)
		rec = func(pre []*cond, n int) {
			if n == 0 {
				res = append(res, &cond{kind: kind, sub: append([]*cond{}, pre...)})
				return
			}
			for _, l := range lv {
				rec(append(pre, l), n-1)
			}
		}
		for w := 1; w <= maxW; w++ {
			rec(nil, w)
		}
	}
	return res
}

// allDepth3Reduced lists every tree of depth exactly 3 whose operands are trees of depth <= 2 (And/Or of at
// most 2 operands) over one representative leaf of each kind.
func (u *universe) allDepth3Reduced() []*cond {
	ru := &universe{hashes: u.hashes[:1], keys: u.keys[:1]}
	var lv []*cond
	for _, l := range ru.allLeaves() {
		if l.kind == kBool && !l.b {
			continue
		}
		lv = append(lv, l)
	}
	t2 := append([]*cond{}, lv...)
	for _, l := range lv {
		t2 = append(t2, &cond{kind: kNot, sub: []*cond{l}})
	}
	for _, kind := range []int{kAnd, kOr} {
		for _, a := range lv {
			t2 = append(t2, &cond{kind: kind, sub: []*cond{a}})
			for _, b := range lv {
				t2 = append(t2, &cond{kind: kind, sub: []*cond{a, b}})
			}
		}
	}
	var res []*cond
	add := func(c *cond) {
		if c.depth() == 3 {
			res = append(res, c)
		}
	}
	for _, a := range t2 {
		add(&cond{kind: kNot, sub: []*cond{a}})
		for _, kind := range []int{kAnd, kOr} {
			add(&cond{kind: kind, sub: []*cond{a}})
			for _, b := range t2 {
				add(&cond{kind: kind, sub: []*cond{a, b}})
			}
		}
	}
	return res
}

func mustKey(i int) *keys.PublicKey {
	b := make([]byte, 32)
	b[31] = byte(i)
	b[0] = 0x11
	p, err := keys.NewPrivateKeyFromBytes(b)
	if err != nil {
		panic(err)
	}
	return p.PublicKey()
}

func smallHash(n byte) util.Uint160 {
	var u util.Uint160
	u[19] = n
	return u
}
