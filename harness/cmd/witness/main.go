// Command witness: correspondence + oracle stream for C15 (witness scopes and witness rules).
//
// Case blocks (offsets depend only on the tier, so `-seed S -only K` regenerates case K):
//
//	A  enumerated condition trees of depth <= 2 (And/Or of 1..3 operands) over a 3-hash / 2-group universe,
//	   in the thorough tier also every depth-3 tree over one representative leaf per kind, each evaluated by
//	   the real WitnessCondition.Match on every stub context (624)              [layer i, exhaustive]
//	B  sampled trees of depth 3..5 on the same contexts                         [layer i, sampled]
//	C  runtime.CheckHashedWitness on a real VM invocation stack / interop.Context with generated signers   [layer ib]
//	D  DecodeBinaryCondition on well-formed and malformed encodings             [decoder]
//	E  System.Runtime.CheckWitness inside contracts deployed on a neotest chain [layer ii]
//	F  JSON and stack-item decoders of conditions on generated trees            [tree decoders]
//	G  Signer.DecodeBinary on hand-assembled encodings                          [signer decoder]
//	H  ScopesFromByte on all 256 bytes (one case)                               [scope byte validity]
//	V  (*Blockchain).VerifyWitness: verification scripts / contracts / invocation scripts that check witnesses [layer iii]
package main

import (
	"fmt"
	"os"

	"github.com/nspcc-dev/neo-go/pkg/core/transaction"

	"verif/harness/internal/hx"
	"verif/harness/internal/prng"
)

func main() {
	f := hx.ParseFlags()
	o := hx.NewOut(f.Out)
	defer o.Close()
	thorough := f.Tier == "thorough"
	pick := func(q, t int) int {
		if thorough {
			return t
		}
		return q
	}

	mu := matchUniverse()
	trees2 := mu.allDepth2(3)
	if thorough {
		trees2 = append(trees2, mu.allDepth3Reduced()...)
	}
	nA := (len(trees2) + treesPerCase - 1) / treesPerCase
	nB := pick(30, 600)
	nC := pick(20000, 200000)
	nD := pick(4000, 100000)
	nE := pick(chainQuick, chainThorough)
	nF := pick(3000, 60000)
	nG := pick(4000, 100000)
	nV := pick(verifQuick, verifThorough)
	total := nA + nB + nC + nD + nE + nF + nG + 1 + nV
	if f.Cases > 0 && f.Cases < total {
		total = f.Cases
	}

	var ctxs []*stubCtx
	var envs []*env
	matchSetup := func() {
		if ctxs == nil {
			ctxs = allStubCtx(mu)
			for _, c := range ctxs {
				envs = append(envs, c.env())
			}
			o.Add("match:contexts", len(ctxs))
		}
	}
	du := directUniverse()
	var ch *chainState

	for k := 0; k < total; k++ {
		if !f.Want(k) {
			continue
		}
		r := prng.ForCase(f.Seed, k)
		switch {
		case k < nA:
			matchSetup()
			lo := k * treesPerCase
			hi := min(lo+treesPerCase, len(trees2))
			runMatchCase(o, k, ctxs, envs, trees2[lo:hi])
			o.Count("cases:A-match-enumerated")
		case k < nA+nB:
			matchSetup()
			runMatchCase(o, k, ctxs, envs, sampledTrees(r, mu, treesPerCase))
			o.Count("cases:B-match-sampled")
		case k < nA+nB+nC:
			fixed := k - (nA + nB) // the first seven cells of the block are fixed: the invocation stack limit, the entry hash deeper in the chain, the depth sweep
			if fixed > 6 {
				fixed = -1
			}
			runDirectCase(o, k, r, du, fixed)
			o.Count("cases:C-direct")
		case k < nA+nB+nC+nD:
			runDecodeCase(o, k, r, du)
			o.Count("cases:D-decode")
		case k >= nA+nB+nC+nD+nE+nF+nG+1:
			if ch == nil {
				var err error
				ch, err = newChainState()
				if err != nil {
					fmt.Fprintln(os.Stderr, "chain setup failed:", err)
					o.Close()
					os.Exit(3)
				}
			}
			runVerifCase(o, k, r, ch)
			o.Count("cases:V-verification")
		case k >= nA+nB+nC+nD+nE+nF+nG:
			o.Case(k)
			for b := 0; b < 256; b++ {
				obs := "ok"
				sc, err := transaction.ScopesFromByte(byte(b))
				if err != nil {
					obs = "err"
				} else if byte(sc) != byte(b) || byte(b)&0x0e != 0 || (b&0x80 != 0 && b != 0x80) {
					o.Fail("scope-byte-admits-invalid", k, "byte=%#x", b)
				}
				o.Line(fmt.Sprintf("vs %d", b), obs)
			}
			o.Count("cases:H-scope-bytes")
		case k >= nA+nB+nC+nD+nE+nF:
			runSignerDecCase(o, k, r, du)
			o.Count("cases:G-signer-decoder")
		case k >= nA+nB+nC+nD+nE:
			runTreeDecCase(o, k, r, du)
			o.Count("cases:F-tree-decoders")
		default:
			if ch == nil {
				var err error
				ch, err = newChainState()
				if err != nil {
					fmt.Fprintln(os.Stderr, "chain setup failed:", err)
					o.Close()
					os.Exit(3)
				}
			}
			runChainCase(o, k, r, ch, k-(nA+nB+nC+nD))
			o.Count("cases:E-chain")
		}
	}
}
