package main

// Layer (i): the real WitnessCondition.Match against a stub MatchContext, compared with the model's
// `matchC` (Lean driver) and with the declarative `holds` (oracle).

import (
	"errors"
	"strings"

	"github.com/nspcc-dev/neo-go/pkg/crypto/keys"
	"github.com/nspcc-dev/neo-go/pkg/util"

	"verif/harness/internal/hx"
	"verif/harness/internal/prng"
)

// stubCtx implements transaction.MatchContext the way runtime.scopeContext does
// (group questions need ReadStates, an unknown contract has no groups).
type stubCtx struct {
	cur, calling util.Uint160
	curG, callG  []*keys.PublicKey
	cbe, rs      bool
	nGroupQ      int
}

func (s *stubCtx) GetCallingScriptHash() util.Uint160 { return s.calling }
func (s *stubCtx) GetCurrentScriptHash() util.Uint160 { return s.cur }
func (s *stubCtx) IsCalledByEntry() bool              { return s.cbe }
func (s *stubCtx) has(l []*keys.PublicKey, k *keys.PublicKey) (bool, error) {
	s.nGroupQ++
	if !s.rs {
		return false, errors.New("missing ReadStates call flag")
	}
	return keys.PublicKeys(l).Contains(k), nil
}
func (s *stubCtx) CallingScriptHasGroup(k *keys.PublicKey) (bool, error) { return s.has(s.callG, k) }
func (s *stubCtx) CurrentScriptHasGroup(k *keys.PublicKey) (bool, error) { return s.has(s.curG, k) }

// env of a stub context, as the model derives the same six observations.
func (s *stubCtx) env() *env {
	e := &env{}
	e.frames = append(e.frames, frame{hash: s.cur, caller: s.calling, rs: s.rs})
	other := smallHash(0xee)
	if s.cbe {
		if !s.calling.Equals(util.Uint160{}) {
			e.frames = append(e.frames, frame{hash: s.calling, rs: true})
		}
	} else {
		e.frames = append(e.frames, frame{hash: s.calling, caller: other, rs: true}, frame{hash: other, rs: true})
	}
	e.contracts = append(e.contracts, contractInfo{hash: s.cur, groups: s.curG})
	if s.calling != s.cur {
		e.contracts = append(e.contracts, contractInfo{hash: s.calling, groups: s.callG})
	}
	return e
}

func subsets(ks []*keys.PublicKey) [][]*keys.PublicKey {
	var res [][]*keys.PublicKey
	for m := 0; m < 1<<len(ks); m++ {
		var s []*keys.PublicKey
		for i := range ks {
			if m&(1<<i) != 0 {
				s = append(s, ks[i])
			}
		}
		res = append(res, s)
	}
	return res
}

// allStubCtx enumerates every stub context over the universe (current in hashes, calling in 0+hashes,
// every group subset for both, called-by-entry, ReadStates), skipping the combinations that no
// contract table can produce (the same contract with two different group sets).
func allStubCtx(u *universe) []*stubCtx {
	var res []*stubCtx
	subs := subsets(u.keys)
	callers := append([]util.Uint160{{}}, u.hashes...)
	for _, cur := range u.hashes {
		for _, calling := range callers {
			for i, cg := range subs {
				for j, kg := range subs {
					if cur == calling && i != j {
						continue
					}
					for _, cbe := range []bool{true, false} {
						for _, rs := range []bool{true, false} {
							res = append(res, &stubCtx{cur: cur, calling: calling, curG: cg, callG: kg, cbe: cbe, rs: rs})
						}
					}
				}
			}
		}
	}
	return res
}

func matchUniverse() *universe {
	return &universe{
		hashes: []util.Uint160{smallHash(1), smallHash(2), smallHash(3)},
		keys:   []*keys.PublicKey{mustKey(1), mustKey(2)},
	}
}

const treesPerCase = 100

// runMatchCase: one case = the whole context table + a batch of trees.
func runMatchCase(o *hx.Out, k int, ctxs []*stubCtx, envs []*env, trees []*cond) {
	o.Case(k)
	for _, e := range envs {
		o.Line("ctx "+e.tok(), "ok")
	}
	for _, t := range trees {
		rc := t.real()
		var sb strings.Builder
		for i, c := range ctxs {
			c.nGroupQ = 0
			res, err := rc.Match(c)
			want := envs[i].holds(t)
			switch {
			case err != nil:
				sb.WriteByte('e')
				o.Count("match:err")
				if c.rs || !t.hasGroupCond() || res {
					o.Fail("match-unjustified-error", k, "cond=%s ctx=%s res=%v err=%v", t.tok(), envs[i].tok(), res, err)
				}
			case res:
				sb.WriteByte('1')
				o.Count("match:true")
			default:
				sb.WriteByte('0')
				o.Count("match:false")
			}
			if err == nil && res != want {
				o.Fail("match-differs-from-spec", k, "cond=%s ctx=%s real=%v spec=%v", t.tok(), envs[i].tok(), res, want)
			}
		}
		o.Line("mt "+t.tok(), sb.String())
		o.Seen("mt/" + t.tok())
		o.Count(depthName("match:tree-depth", t.depth()))
	}
}

func depthName(p string, d int) string {
	return p + "=" + string(rune('0'+min(d, 9)))
}

// sampledTrees: random trees of depth <= 3 (sometimes 4 or 5: Match itself has no depth limit).
func sampledTrees(r *prng.R, u *universe, n int) []*cond {
	res := make([]*cond, 0, n)
	for len(res) < n {
		d := 3
		if r.Chance(1, 8) {
			d = 4 + r.Intn(2)
		}
		w := 3
		if r.Chance(1, 10) {
			w = 16
		}
		t := u.tree(r, d, w, true)
		if t.depth() < 2 {
			continue
		}
		res = append(res, t)
	}
	return res
}
