package main

// Signer decoder stream: the real transaction.Signer.DecodeBinary on hand-assembled encodings (valid and
// invalid scope bytes, list lengths around the limit, rule actions, conditions around the nesting limit,
// truncations), compared with the model's `decodeSigner` and with what the wire format may admit (oracle).

import (
	"bytes"
	"encoding/hex"
	"fmt"
	"strings"

	"github.com/nspcc-dev/neo-go/pkg/core/transaction"
	"github.com/nspcc-dev/neo-go/pkg/io"

	"verif/harness/internal/hx"
	"verif/harness/internal/prng"
)

func realSignerTok(s *transaction.Signer) string {
	var sb strings.Builder
	fmt.Fprintf(&sb, "%s %d %d", hex.EncodeToString(s.Account.BytesBE()), byte(s.Scopes), len(s.AllowedContracts))
	for _, c := range s.AllowedContracts {
		sb.WriteString(" " + hex.EncodeToString(c.BytesBE()))
	}
	fmt.Fprintf(&sb, " %d", len(s.AllowedGroups))
	for _, g := range s.AllowedGroups {
		sb.WriteString(" " + hex.EncodeToString(g.Bytes()))
	}
	fmt.Fprintf(&sb, " %d", len(s.Rules))
	for _, r := range s.Rules {
		fmt.Fprintf(&sb, " %d %s", byte(r.Action), realTok(r.Condition))
	}
	return sb.String()
}

func writeCount(w *bytes.Buffer, r *prng.R, n int, nonMinimal bool) {
	if nonMinimal {
		switch r.Intn(3) {
		case 0:
			w.Write([]byte{0xfd, byte(n), 0})
		case 1:
			w.Write([]byte{0xfe, byte(n), 0, 0, 0})
		default:
			w.Write([]byte{0xff, byte(n), 0, 0, 0, 0, 0, 0, 0})
		}
		return
	}
	w.WriteByte(byte(n))
}

func listLen(r *prng.R) int {
	return []int{0, 1, 1, 2, 2, 3, 15, 16, 17, 20}[r.Intn(10)]
}

func runSignerDecCase(o *hx.Out, k int, r *prng.R, u *universe) {
	o.Case(k)
	var w bytes.Buffer
	acc := r.Bytes(20)
	if r.Chance(1, 4) {
		acc = make([]byte, 20)
	}
	w.Write(acc)
	sc := genScopes(r)
	if r.Chance(1, 10) {
		sc = byte(r.Intn(256))
	}
	w.WriteByte(sc)
	valid := sc&0x0e == 0 && (sc&0x80 == 0 || sc == 0x80)
	nonMin := r.Chance(1, 8)
	if sc&0x10 != 0 {
		n := listLen(r)
		valid = valid && n <= 16
		writeCount(&w, r, n, nonMin)
		for i := 0; i < n; i++ {
			w.Write(u.hashes[r.Intn(len(u.hashes))].BytesBE())
		}
	}
	if sc&0x20 != 0 {
		n := listLen(r)
		valid = valid && n <= 16
		writeCount(&w, r, n, nonMin)
		for i := 0; i < n; i++ {
			w.Write(u.keys[r.Intn(len(u.keys))].Bytes())
		}
	}
	if sc&0x40 != 0 {
		n := listLen(r)
		valid = valid && n <= 16
		writeCount(&w, r, n, nonMin)
		for i := 0; i < n; i++ {
			a := byte(r.Intn(2))
			if r.Chance(1, 25) {
				a = []byte{2, 2, 3, 0x80, 0xff}[r.Intn(5)]
				valid = false
			}
			w.WriteByte(a)
			t := u.tree(r, 1+r.Intn(3), 3, false)
			if r.Chance(1, 15) {
				t = chainTree(r, u, 4)
			}
			valid = valid && t.depth() <= transaction.MaxConditionNesting && t.widthsOK()
			t.encode(&w, &encOpts{r: r})
		}
	}
	b := w.Bytes()
	switch r.Intn(8) {
	case 0:
		b = b[:r.Intn(len(b))]
		valid = false
		o.Count("sdec:truncated")
	case 1:
		b = append(b, 0x01, 0x02)
		o.Count("sdec:tail")
	}
	o.Count(fmt.Sprintf("sdec:scope-valid=%v", sc&0x0e == 0 && (sc&0x80 == 0 || sc == 0x80)))
	br := io.NewBinReaderFromBuf(b)
	var s transaction.Signer
	obs := hx.Safe(func() string {
		s.DecodeBinary(br)
		if br.Err != nil {
			return "err"
		}
		return fmt.Sprintf("ok %s %s", realSignerTok(&s), hx.Hex(b[len(b)-br.Len():]))
	})
	o.Line("decs "+hx.Hex(b), obs)
	switch {
	case obs == "panic":
		o.Fail("signer-decoder-panic", k, "bytes=%x", b)
	case obs == "err":
		o.Count("sdec:rejected")
		if valid {
			o.Fail("signer-decoder-rejects-valid", k, "bytes=%x err=%v", b, br.Err)
		}
	default:
		o.Count("sdec:accepted")
		sb := byte(s.Scopes)
		bad := sb&0x0e != 0 || (sb&0x80 != 0 && sb != 0x80) ||
			len(s.AllowedContracts) > 16 || len(s.AllowedGroups) > 16 || len(s.Rules) > 16
		for _, ru := range s.Rules {
			d, wok := realDepthWidth(ru.Condition)
			if ru.Action != transaction.WitnessAllow && ru.Action != transaction.WitnessDeny || d > transaction.MaxConditionNesting || !wok {
				bad = true
			}
		}
		if bad {
			o.Fail("signer-decoder-admits-invalid", k, "bytes=%x decoded=%s", b, realSignerTok(&s))
		}
	}
	o.Seen("decs/" + hx.Hex(b))
}
