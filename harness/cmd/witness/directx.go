package main

// Layer (ib) cells: a generated sequence of the VM's own entry points — LoadWithFlags, LoadScriptWithFlags,
// LoadDynamicScript, LoadScriptWithHash, LoadNEFMethod (explicit caller, optional _initialize), Call, and
// returns (one RET executed by the real VM) — on a real vm.VM. After every step the real getters are read
// (invocation stack height, current / calling / entry script hash, call flags, IsCalledByEntry) and at random
// points runtime.CheckHashedWitness is called. The model gets the same step sequence (`x` line) and must
// reproduce every observation with its frame machine; the oracle judges every CheckHashedWitness result
// against the declarative specification on the frames the harness derives itself (shadow stack).

import (
	"errors"
	"fmt"
	"strings"

	"github.com/nspcc-dev/neo-go/pkg/core/dao"
	"github.com/nspcc-dev/neo-go/pkg/core/interop"
	"github.com/nspcc-dev/neo-go/pkg/core/interop/runtime"
	"github.com/nspcc-dev/neo-go/pkg/core/state"
	"github.com/nspcc-dev/neo-go/pkg/core/storage"
	"github.com/nspcc-dev/neo-go/pkg/core/transaction"
	"github.com/nspcc-dev/neo-go/pkg/crypto/hash"
	"github.com/nspcc-dev/neo-go/pkg/smartcontract/callflag"
	"github.com/nspcc-dev/neo-go/pkg/smartcontract/manifest"
	"github.com/nspcc-dev/neo-go/pkg/smartcontract/nef"
	"github.com/nspcc-dev/neo-go/pkg/smartcontract/trigger"
	"github.com/nspcc-dev/neo-go/pkg/util"
	"github.com/nspcc-dev/neo-go/pkg/vm"
	"github.com/nspcc-dev/neo-go/pkg/vm/opcode"
	"github.com/nspcc-dev/neo-go/pkg/vm/stackitem"

	"verif/harness/internal/hx"
	"verif/harness/internal/prng"
)

// retScript: RET at offsets 0 and 1 (offset 1 is the target of Call), then a tag byte that makes the hash distinct.
func retScript(tag int) []byte {
	return []byte{byte(opcode.RET), byte(opcode.RET), byte(tag)}
}

// shadow: the harness's own account of the script contexts (for the oracle only).
type shSC struct {
	f      frame
	parent *shSC
}

func (s *shSC) env(contracts []contractInfo) *env {
	e := &env{contracts: contracts}
	for x := s; x != nil; x = x.parent {
		e.frames = append(e.frames, x.f)
	}
	return e
}

func contractsTok(cs []contractInfo) string {
	var sb strings.Builder
	fmt.Fprintf(&sb, "%d", len(cs))
	for _, c := range cs {
		fmt.Fprintf(&sb, " %s %d", hTok(c.hash), len(c.groups))
		for _, g := range c.groups {
			sb.WriteString(" " + kTok(g))
		}
	}
	return sb.String()
}

func b01(b bool) int {
	if b {
		return 1
	}
	return 0
}

// obsVM reads the real getters.
func obsVM(v *vm.VM) string {
	n := len(v.Istack())
	if n == 0 {
		// GetCallingScriptHash / GetEntryScriptHash / Context() cannot be called without a context
		return "o:0," + hTok(v.GetCurrentScriptHash()) + ",-,0,-,-"
	}
	ctx := v.Context()
	return fmt.Sprintf("o:%d,%s,%s,%s,%d,%d", n, hTok(v.GetCurrentScriptHash()), hTok(v.GetCallingScriptHash()),
		hTok(v.GetEntryScriptHash()), byte(ctx.GetCallFlags()), b01(ctx.IsCalledByEntry()))
}

// popContext makes the executing context return: its evaluation stack is given exactly the number of items the
// context promised, then the real VM executes the RET the instruction pointer is at.
func popContext(v *vm.VM) error {
	ctx := v.Context()
	es := v.Estack()
	es.Clear()
	for i := 0; i < ctx.NumOfReturnVals(); i++ {
		es.PushItem(stackitem.Null{})
	}
	return v.Step()
}

func guard(f func()) (fault string) {
	defer func() {
		if r := recover(); r != nil {
			s := fmt.Sprint(r)
			switch {
			case strings.Contains(s, "invocation stack is too big"):
				fault = "fault:stack"
			default:
				fault = "panic:" + strings.ReplaceAll(s, " ", "_")
			}
		}
	}()
	f()
	return ""
}

func runDirectCase(o *hx.Out, k int, r *prng.R, u *universe, fixed int) {
	o.Case(k)
	var contracts []contractInfo
	for _, h := range u.hashes {
		if r.Chance(2, 3) {
			ci := contractInfo{hash: h}
			for _, key := range u.keys {
				if r.Chance(1, 3) {
					ci.groups = append(ci.groups, key)
				}
			}
			contracts = append(contracts, ci)
		}
	}
	accounts := []util.Uint160{smallHash(0xa1), smallHash(0xa2), smallHash(0xa3)}
	accounts = append(accounts, u.hashes...)
	accounts = append(accounts, util.Uint160{})
	var signers []signer
	ns := []int{0, 1, 1, 2, 2, 3}[r.Intn(6)]
	for i := 0; i < ns; i++ {
		signers = append(signers, genSigner(r, u, accounts))
	}
	noTx, useSigner := false, false
	if ns == 0 {
		noTx = r.Bool()
	} else if r.Chance(1, 10) {
		useSigner = true
	}
	if fixed >= 4 {
		// the entry script's hash comes back deeper in the chain / the depth sweep (see below): a CalledByEntry scope,
		// an Allow rule and a Deny rule on ConditionCalledByEntry
		signers = []signer{{account: smallHash(0xa1), scopes: 0x01},
			{account: smallHash(0xa2), scopes: 0x40, rules: []rule{{action: 1, c: &cond{kind: kEntry}}}},
			{account: smallHash(0xa3), scopes: 0x40, rules: []rule{{action: 0, c: &cond{kind: kEntry}}, {action: 1, c: &cond{kind: kBool, b: true}}}}}
		noTx, useSigner = false, false
	}
	// the interop context
	var tx *transaction.Transaction
	usTok, txTok := "-", "-"
	if !noTx {
		tx = &transaction.Transaction{}
		if !useSigner {
			tx.Signers = realSigners(signers)
			txTok = "T " + signersTok(signers)
		} else {
			tx.Signers = []transaction.Signer{{Account: smallHash(0x77), Scopes: transaction.Global}}
			txTok = "T 1 77 128 0 0 0"
		}
	}
	getContract := func(_ *dao.Simple, h util.Uint160) (*state.Contract, error) {
		for _, ci := range contracts {
			if ci.hash == h {
				cs := &state.Contract{ContractBase: state.ContractBase{Hash: h}}
				for _, g := range ci.groups {
					cs.Manifest.Groups = append(cs.Manifest.Groups, manifest.Group{PublicKey: g})
				}
				return cs, nil
			}
		}
		return nil, errors.New("unknown contract")
	}
	ic := interop.NewContext(trigger.Application, stubLedger{}, dao.NewSimple(storage.NewMemoryStore(), false), 30, 100000,
		getContract, nil, nil, nil, tx, nil)
	if useSigner {
		ic.UseSigners(realSigners(signers))
		usTok = "U " + signersTok(signers)
	}
	v := ic.SpawnVM()

	var toks, obs []string
	var shadow []*shSC // one per context of the invocation stack, top last
	add := func(t string) { toks = append(toks, t) }
	observe := func() {
		add("OB")
		obs = append(obs, obsVM(v))
	}
	pickHash := func() util.Uint160 {
		if len(signers) > 0 && r.Chance(3, 4) {
			return signers[r.Intn(len(signers))].account
		}
		return accounts[r.Intn(len(accounts))]
	}
	stopped := false
	check := func() {
		if len(shadow) == 0 || stopped {
			return
		}
		h := pickHash()
		add("CH " + hTok(h))
		res, err := runtime.CheckHashedWitness(ic, h)
		ob := fmt.Sprint(res)
		if err != nil {
			ob = classifyErr(err)
			stopped = true // the syscall would fault the VM here; the model line ends with the fault
		}
		obs = append(obs, ob)
		e := shadow[len(shadow)-1].env(contracts)
		line := strings.Join(toks, " ")
		judge(o, k, "direct", u, e, signers, h, ob, func() string { return line })
	}
	push := func(f frame) {
		s := &shSC{f: f}
		if len(shadow) > 0 {
			s.parent = shadow[len(shadow)-1]
		}
		shadow = append(shadow, s)
	}
	cur := func() util.Uint160 {
		if len(shadow) == 0 {
			return util.Uint160{}
		}
		return shadow[len(shadow)-1].f.hash
	}
	fault := func(f string) bool {
		if f != "" {
			obs = append(obs, f)
			stopped = true
			if strings.HasPrefix(f, "panic:") {
				o.Fail("witness-loader-panic", k, "%s: %s", f, strings.Join(toks, " "))
			}
			return true
		}
		return false
	}

	if fixed >= 6 {
		// THE DEPTH SWEEP: one script context per step (every load kind in turn, so the level of nesting really grows —
		// CALL would not), up to the invocation stack limit and one beyond; after EVERY load the getters are read and
		// the three entry-relation signers are checked: whatever the code keeps the entry relation in (a pointer chain,
		// a counter of any width), every depth 1..1024 is compared with the model and judged by the oracle
		for d := 1; d <= vm.MaxInvocationStackSize+1 && !stopped; d++ {
			sc := retScript(d % 251)
			h160 := hash.Hash160(sc)
			given := u.hashes[d%len(u.hashes)]
			c := cur()
			var f string
			switch {
			case d == 1:
				add("LW " + hTok(h160) + " 15")
				f = guard(func() { v.LoadWithFlags(sc, callflag.All) })
				push(frame{hash: h160, rs: true})
			case d%4 == 0:
				add("LS " + hTok(h160) + " 15")
				f = guard(func() { v.LoadScriptWithFlags(sc, callflag.All) })
				push(frame{hash: h160, caller: c, rs: true})
			case d%4 == 1:
				add("LD " + hTok(h160) + " 15")
				f = guard(func() { v.LoadDynamicScript(sc, callflag.All) })
				push(frame{hash: h160, caller: c, rs: true})
			case d%4 == 2:
				add(fmt.Sprintf("LH %s %s 15", hTok(h160), hTok(given)))
				f = guard(func() { v.LoadScriptWithHash(sc, given, callflag.All) })
				push(frame{hash: given, caller: c, rs: true})
			default:
				add(fmt.Sprintf("LN %s %s %s 15 0", hTok(h160), hTok(c), hTok(given)))
				f = guard(func() {
					v.LoadNEFMethod(&nef.File{Script: sc}, &manifest.Manifest{}, c, given, callflag.All, true, 0, -1, nil, nil, false)
				})
				push(frame{hash: given, caller: c, rs: true})
			}
			if fault(f) {
				break
			}
			observe()
			e := shadow[len(shadow)-1].env(contracts)
			for _, h := range []util.Uint160{smallHash(0xa1), smallHash(0xa2), smallHash(0xa3)} {
				add("CH " + hTok(h))
				res, err := runtime.CheckHashedWitness(ic, h)
				ob := fmt.Sprint(res)
				if err != nil {
					ob = classifyErr(err)
					stopped = true
				}
				obs = append(obs, ob)
				dd := d
				judge(o, k, "direct", u, e, signers, h, ob, func() string {
					return fmt.Sprintf("depth sweep: %d script contexts, CheckHashedWitness(%s)", dd, hTok(h))
				})
				if stopped {
					break
				}
			}
		}
		o.Count("direct:fixed-depth-sweep-1..1025")
	} else if fixed >= 4 {
		// entry script S -> contract -> a dynamic script that is a byte-for-byte copy of S (or a contract loaded with
		// S's hash as explicit caller) -> contract: the innermost context's calling hash EQUALS the entry hash,
		// but it is four loads deep — IsCalledByEntry is about script contexts, not script hashes
		sc := retScript(7)
		hS := hash.Hash160(sc)
		v.LoadWithFlags(sc, callflag.All)
		add("LW " + hTok(hS) + " 15")
		push(frame{hash: hS, rs: true})
		observe()
		v.LoadScriptWithHash(retScript(1), u.hashes[0], callflag.All)
		add(fmt.Sprintf("LH %s %s 15", hTok(hash.Hash160(retScript(1))), hTok(u.hashes[0])))
		push(frame{hash: u.hashes[0], caller: hS, rs: true})
		observe()
		if fixed == 4 {
			v.LoadDynamicScript(sc, callflag.ReadOnly)
			add("LD " + hTok(hS) + " 5")
			push(frame{hash: hS, caller: u.hashes[0], rs: true})
			observe()
			v.LoadScriptWithHash(retScript(2), u.hashes[1], callflag.ReadOnly)
			add(fmt.Sprintf("LH %s %s 5", hTok(hash.Hash160(retScript(2))), hTok(u.hashes[1])))
			push(frame{hash: u.hashes[1], caller: hS, rs: true})
		} else {
			v.LoadNEFMethod(&nef.File{Script: retScript(2)}, &manifest.Manifest{}, hS, u.hashes[1], callflag.All, true, 0, -1, nil, nil, false)
			add(fmt.Sprintf("LN %s %s %s 15 0", hTok(hash.Hash160(retScript(2))), hTok(hS), hTok(u.hashes[1])))
			push(frame{hash: u.hashes[1], caller: hS, rs: true})
		}
		observe()
		for _, h := range []util.Uint160{smallHash(0xa1), smallHash(0xa2)} {
			if stopped {
				break
			}
			add("CH " + hTok(h))
			res, err := runtime.CheckHashedWitness(ic, h)
			ob := fmt.Sprint(res)
			if err != nil {
				ob = classifyErr(err)
				stopped = true
			}
			obs = append(obs, ob)
			line := strings.Join(toks, " ")
			judge(o, k, "direct", u, shadow[len(shadow)-1].env(contracts), signers, h, ob, func() string { return line })
		}
		o.Count(fmt.Sprintf("direct:fixed-entry-hash-returns-%d", fixed))
	} else if fixed >= 0 {
		// the invocation stack limit: 1024 contexts are fine, one more faults (CALL or load)
		sc := retScript(1)
		v.LoadWithFlags(sc, callflag.All)
		add("LW " + hTok(hash.Hash160(sc)) + " 15")
		push(frame{hash: hash.Hash160(sc), rs: true})
		for i := 0; i < vm.MaxInvocationStackSize-1-(fixed&1); i++ {
			v.Call(1)
			add("CL")
			shadow = append(shadow, shadow[len(shadow)-1])
		}
		observe()
		check()
		last := func() {
			v.Call(1)
		}
		lt := "CL"
		if fixed&2 != 0 {
			s2 := retScript(2)
			last = func() { v.LoadScriptWithFlags(s2, callflag.ReadOnly) }
			lt = "LS " + hTok(hash.Hash160(s2)) + " 5"
		}
		if !stopped {
			add(lt)
			if !fault(guard(last)) {
				observe()
				add(lt)
				if !fault(guard(last)) {
					observe()
				}
			}
		}
		o.Count(fmt.Sprintf("direct:fixed-stack-limit-%d", fixed))
	} else {
		steps := 1 + r.Intn(10)
		for i := 0; i < steps && !stopped; i++ {
			n := len(shadow)
			kind := r.Intn(12)
			if n == 0 {
				kind = []int{0, 0, 1, 4, 6}[r.Intn(5)] // a dynamic script is never the entry script
			}
			fl := flagChoices[r.Intn(len(flagChoices))]
			if r.Chance(2, 3) {
				fl = []callflag.CallFlag{callflag.All, callflag.ReadOnly, callflag.AllowCall}[r.Intn(3)]
			}
			sc := retScript(r.Intn(6))
			h160 := hash.Hash160(sc)
			given := u.hashes[r.Intn(len(u.hashes))]
			if r.Chance(1, 12) {
				given = util.Uint160{} // a zero hash given to the loader means Hash160 of the script
			}
			rs := fl&callflag.ReadStates != 0
			resolved := given
			if given.Equals(util.Uint160{}) {
				resolved = h160
			}
			var f string
			switch kind {
			case 0: // LoadWithFlags: resets the VM
				add(fmt.Sprintf("LW %s %d", hTok(h160), byte(fl)))
				f = guard(func() { v.LoadWithFlags(sc, fl) })
				shadow = nil
				push(frame{hash: h160, rs: rs})
				o.Count("direct:op=LoadWithFlags")
			case 1, 2:
				add(fmt.Sprintf("LS %s %d", hTok(h160), byte(fl)))
				c := cur()
				f = guard(func() { v.LoadScriptWithFlags(sc, fl) })
				push(frame{hash: h160, caller: c, rs: rs})
				o.Count("direct:op=LoadScriptWithFlags")
			case 3:
				add(fmt.Sprintf("LD %s %d", hTok(h160), byte(fl)))
				c := cur()
				f = guard(func() { v.LoadDynamicScript(sc, fl) })
				push(frame{hash: h160, caller: c, rs: rs})
				o.Count("direct:op=LoadDynamicScript")
			case 4, 5:
				add(fmt.Sprintf("LH %s %s %d", hTok(h160), hTok(given), byte(fl)))
				c := cur()
				f = guard(func() { v.LoadScriptWithHash(sc, given, fl) })
				push(frame{hash: resolved, caller: c, rs: rs})
				o.Count("direct:op=LoadScriptWithHash")
			case 6, 7:
				caller := cur()
				switch r.Intn(4) {
				case 0:
					caller = util.Uint160{}
				case 1:
					caller = u.hashes[r.Intn(len(u.hashes))]
				}
				init := r.Chance(1, 3)
				initOff := -1
				if init {
					initOff = 1
				}
				hasRet := r.Bool()
				if caller != cur() {
					o.Count("direct:LoadNEFMethod-foreign-caller")
				}
				add(fmt.Sprintf("LN %s %s %s %d %d", hTok(h160), hTok(caller), hTok(given), byte(fl), b01(init)))
				f = guard(func() {
					v.LoadNEFMethod(&nef.File{Script: sc}, &manifest.Manifest{}, caller, given, fl, hasRet, 0, initOff, nil, nil, false)
				})
				push(frame{hash: resolved, caller: caller, rs: rs})
				if init {
					shadow = append(shadow, shadow[len(shadow)-1])
				}
				o.Count("direct:op=LoadNEFMethod")
			case 8:
				add("CL")
				f = guard(func() { v.Call(1) })
				shadow = append(shadow, shadow[len(shadow)-1])
				o.Count("direct:op=Call")
			default:
				add("RT")
				var err error
				f = guard(func() { err = popContext(v) })
				if f == "" && err != nil {
					f = "panic:step:" + strings.ReplaceAll(err.Error(), " ", "_")
				}
				shadow = shadow[:len(shadow)-1]
				o.Count("direct:op=RET")
			}
			if fault(f) {
				break
			}
			observe()
			if r.Chance(1, 3) {
				check()
			}
		}
		check()
		o.Count(fmt.Sprintf("direct:final-height=%d", min(len(shadow), 6)))
	}
	line := fmt.Sprintf("x %s %s %s %s", contractsTok(contracts), usTok, txTok, strings.Join(toks, " "))
	ob := strings.Join(obs, " ")
	if ob == "" {
		ob = "-"
	}
	o.Line(line, ob)
	o.Count(fmt.Sprintf("direct:signers=%d", len(signers)))
	o.Seen(line)
	if k%5000 == 0 {
		o.Sample(line + " -> " + ob)
	}
}
