package main

// Tree-input decoders: a generated condition tree is handed to the real code as JSON
// (UnmarshalConditionJSON / WitnessRule.UnmarshalJSON) and as a stack item (WitnessRule.FromStackItem);
// accept/reject is compared with the model's `admits` and with the nesting / width bound (oracle).

import (
	"encoding/json"
	"fmt"

	"github.com/nspcc-dev/neo-go/pkg/core/transaction"

	"verif/harness/internal/hx"
	"verif/harness/internal/prng"
)

func runTreeDecCase(o *hx.Out, k int, r *prng.R, u *universe) {
	o.Case(k)
	var t *cond
	switch r.Intn(4) {
	case 0:
		t = chainTree(r, u, 1+r.Intn(5))
	case 1:
		n := []int{0, 1, 2, 15, 16, 17, 18, 33}[r.Intn(8)]
		t = &cond{kind: []int{kAnd, kOr}[r.Intn(2)]}
		for i := 0; i < n; i++ {
			t.sub = append(t.sub, u.leaf(r))
		}
		if r.Bool() {
			t = &cond{kind: kNot, sub: []*cond{t}}
		}
		if r.Chance(1, 3) {
			t = &cond{kind: kOr, sub: []*cond{u.leaf(r), t}}
		}
	default:
		t = u.tree(r, 1+r.Intn(5), 5, r.Chance(1, 4))
	}
	within := t.depth() <= transaction.MaxConditionNesting && t.widthsOK()
	o.Count(fmt.Sprintf("treedec:depth=%d,widthsOK=%v", min(t.depth(), 6), t.widthsOK()))
	want := realTok(t.real())
	check := func(name string, got transaction.WitnessCondition, err error) string {
		obs := "ok"
		if err != nil {
			obs = "err"
		}
		o.Count("treedec:" + name + "=" + obs)
		if err == nil {
			d, wok := realDepthWidth(got)
			if d > transaction.MaxConditionNesting || !wok {
				o.Fail("cond-decoder-bound", k, "%s accepted depth=%d widthOk=%v tree=%s", name, d, wok, t.tok())
			}
			if realTok(got) != want {
				o.Fail("cond-decoder-wrong-tree", k, "%s tree=%s decoded=%s", name, want, realTok(got))
			}
		} else if within {
			o.Fail("cond-decoder-rejects-valid", k, "%s tree=%s err=%v", name, t.tok(), err)
		}
		return obs
	}
	// JSON
	obs := hx.Safe(func() string {
		data, err := json.Marshal(t.real())
		if err != nil {
			return "marshal-failed"
		}
		c, err := transaction.UnmarshalConditionJSON(data)
		return check("json", c, err)
	})
	o.Line("adm 3 "+t.tok(), obs)
	// JSON through a rule
	obs = hx.Safe(func() string {
		rule := transaction.WitnessRule{Action: transaction.WitnessAllow, Condition: t.real()}
		data, err := json.Marshal(&rule)
		if err != nil {
			return "marshal-failed"
		}
		var r2 transaction.WitnessRule
		err = json.Unmarshal(data, &r2)
		return check("json-rule", r2.Condition, err)
	})
	o.Line("adm 3 "+t.tok(), obs)
	// stack item
	obs = hx.Safe(func() string {
		rule := transaction.WitnessRule{Action: transaction.WitnessDeny, Condition: t.real()}
		item := rule.ToStackItem()
		var r2 transaction.WitnessRule
		err := r2.FromStackItem(item)
		return check("stackitem", r2.Condition, err)
	})
	o.Line("adm 3 "+t.tok(), obs)
	o.Seen("adm/" + t.tok())
	// the decoders on values of every shape (shapes.go)
	runShapesCase(o, k, r, u)
}
