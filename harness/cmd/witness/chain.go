package main

// Layer (ii): System.Runtime.CheckWitness executed inside contracts deployed on a pkg/neotest chain.
//
// Five copies of one hand-assembled proxy contract are deployed (P0 without groups, P1 group g1, P2 groups
// g1+g2, P3 group g2, T = P4 without groups but with three method tokens; P2 and P3 have `_initialize`). Methods:
//
//	cw(h)   -> [GetCallFlags, GetEntryScriptHash, GetCallingScriptHash, GetExecutingScriptHash, CheckWitness(h)]
//	cws(h)  -> the same code, declared Safe          cwc(h) -> the same code reached through a CALL
//	call(target, method, flags, args)  -> System.Contract.Call
//	call2(t1, m1, f1, a1, t2, m2, f2, a2) -> System.Contract.Call, DROP, System.Contract.Call
//	dyn(script, flags, args)           -> System.Runtime.LoadScript
//	thr(x)                             -> THROW
//	tcw0/1/2(h)                        -> CALLT 0/1/2   (only T has the tokens)
//	verify(h)                          -> CheckWitness(h)   (contract witnesses, see verif.go)
//	onNEP17Payment(from, amount, data): if data != null { Notify("w", [cw-array(data)]) }
//
// A cell is a call chain  entry script -> hop1 -> ... -> hopN (N <= 3), every hop a contract call
// (System.Contract.Call or, out of T, CALLT), a dynamic script (System.Runtime.LoadScript), or (last hop only)
// native GAS calling onNEP17Payment of a proxy; every frame may first make side trips (a call or a dynamic
// script that returns, or that throws and is caught by the frame's TRY) and script frames may run their body
// inside a CALLed subroutine; the call flags of every hop (also insufficient or out of range ones), a signer
// list and the checked argument (a hash, a public key in either encoding, junk). The cell is executed either
// in a test VM of the chain (any signer list) or as a real signed transaction in a new block. The model gets
// the STEP SEQUENCE (`x` line: LW / CC / CT / RL / NC / CL / RT / TR / TH / ET / EF ... CW OI) and must reproduce the result
// of CheckWitness and what the four getters return, with its frame machine; the oracle judges the result
// against the declarative specification on the frames the harness derives itself.

import (
	"encoding/binary"
	"encoding/json"
	"errors"
	"fmt"
	"strings"
	"testing"

	"github.com/nspcc-dev/neo-go/pkg/core"
	"github.com/nspcc-dev/neo-go/pkg/core/native/nativenames"
	"github.com/nspcc-dev/neo-go/pkg/core/state"
	"github.com/nspcc-dev/neo-go/pkg/core/transaction"
	"github.com/nspcc-dev/neo-go/pkg/crypto/hash"
	"github.com/nspcc-dev/neo-go/pkg/crypto/keys"
	"github.com/nspcc-dev/neo-go/pkg/io"
	"github.com/nspcc-dev/neo-go/pkg/neotest"
	"github.com/nspcc-dev/neo-go/pkg/neotest/chain"
	"github.com/nspcc-dev/neo-go/pkg/smartcontract"
	"github.com/nspcc-dev/neo-go/pkg/smartcontract/callflag"
	"github.com/nspcc-dev/neo-go/pkg/smartcontract/manifest"
	"github.com/nspcc-dev/neo-go/pkg/smartcontract/nef"
	"github.com/nspcc-dev/neo-go/pkg/smartcontract/trigger"
	"github.com/nspcc-dev/neo-go/pkg/util"
	"github.com/nspcc-dev/neo-go/pkg/vm"
	"github.com/nspcc-dev/neo-go/pkg/vm/emit"
	"github.com/nspcc-dev/neo-go/pkg/vm/opcode"
	"github.com/nspcc-dev/neo-go/pkg/vm/stackitem"
	"github.com/nspcc-dev/neo-go/pkg/vm/vmstate"
	"github.com/nspcc-dev/neo-go/pkg/wallet"
	"go.uber.org/zap"

	"verif/harness/internal/hx"
	"verif/harness/internal/prng"
)

const (
	chainQuick    = 3000
	chainThorough = 60000
)

// ---- testing.TB shim --------------------------------------------------------

type tbFail struct{ msg string }

type tb struct {
	testing.TB
	cleanups []func()
	lastErr  string
}

func (t *tb) Helper()                   {}
func (t *tb) Name() string              { return "witness-harness" }
func (t *tb) Logf(string, ...any)       {}
func (t *tb) Log(...any)                {}
func (t *tb) Errorf(f string, a ...any) { t.lastErr = fmt.Sprintf(f, a...) }
func (t *tb) Error(a ...any)            { t.lastErr = fmt.Sprint(a...) }
func (t *tb) Fatalf(f string, a ...any) { panic(tbFail{fmt.Sprintf(f, a...)}) }
func (t *tb) Fatal(a ...any)            { panic(tbFail{fmt.Sprint(a...)}) }
func (t *tb) FailNow()                  { panic(tbFail{t.lastErr}) }
func (t *tb) Fail()                     {}
func (t *tb) Failed() bool              { return t.lastErr != "" }
func (t *tb) Cleanup(f func())          { t.cleanups = append(t.cleanups, f) }
func (t *tb) Setenv(string, string)     {}
func (t *tb) Skip(...any)               {}
func (t *tb) Skipf(string, ...any)      {}
func (t *tb) SkipNow()                  {}
func (t *tb) Skipped() bool             { return false }
func (t *tb) TempDir() string           { return "/tmp/witness-harness" }

// ---- chain state -----------------------------------------------------------------

type proxy struct {
	hash   util.Uint160
	groups []*keys.PublicKey
	init   bool // has _initialize
}

type chainState struct {
	t        *tb
	bc       *core.Blockchain
	e        *neotest.Executor
	proxies  []proxy
	gas      util.Uint160
	mgmt     util.Uint160
	accs     []neotest.Signer // funded single-signature accounts
	u        *universe
	accounts []util.Uint160 // accounts signers are drawn from in test-VM mode
}

func groupPriv(i int) *keys.PrivateKey {
	b := make([]byte, 32)
	b[31] = byte(i)
	b[0] = 0x11
	p, err := keys.NewPrivateKeyFromBytes(b)
	if err != nil {
		panic(err)
	}
	return p
}

func accountPriv(i int) *keys.PrivateKey {
	b := make([]byte, 32)
	b[31] = byte(i)
	b[0] = 0x22
	p, err := keys.NewPrivateKeyFromBytes(b)
	if err != nil {
		panic(err)
	}
	return p
}

const (
	nProxies   = 5
	tokenProxy = 4
)

const (
	sysCheckWitness = "System.Runtime.CheckWitness"
	sysExecuting    = "System.Runtime.GetExecutingScriptHash"
	sysCalling      = "System.Runtime.GetCallingScriptHash"
	sysEntry        = "System.Runtime.GetEntryScriptHash"
	sysCallFlags    = "System.Contract.GetCallFlags"
	sysCall         = "System.Contract.Call"
	sysLoadScript   = "System.Runtime.LoadScript"
	sysNotify       = "System.Runtime.Notify"
)

// emitLeaf: argument on top of the stack -> [callflags, entry, calling, executing, CheckWitness(arg)].
func emitLeaf(w *io.BinWriter) {
	emit.Syscall(w, sysCheckWitness)
	emit.Syscall(w, sysExecuting)
	emit.Syscall(w, sysCalling)
	emit.Syscall(w, sysEntry)
	emit.Syscall(w, sysCallFlags)
	emit.Opcodes(w, opcode.PUSH5, opcode.PACK)
}

func le32(v int) []byte {
	b := make([]byte, 4)
	binary.LittleEndian.PutUint32(b, uint32(int32(v)))
	return b
}

// proxyContract assembles the NEF and manifest of one proxy.
func proxyContract(sender util.Uint160, name string, groupIdx []int, withInit bool, tokens []nef.MethodToken) *neotest.Contract {
	w := io.NewBufBinWriter()
	offCW := w.Len()
	emitLeaf(w.BinWriter)
	emit.Opcodes(w.BinWriter, opcode.RET)
	offCWC := w.Len()
	emit.Instruction(w.BinWriter, opcode.CALLL, le32(offCW-offCWC))
	emit.Opcodes(w.BinWriter, opcode.RET)
	offCall := w.Len()
	emit.Syscall(w.BinWriter, sysCall)
	emit.Opcodes(w.BinWriter, opcode.RET)
	offCall2 := w.Len()
	emit.Syscall(w.BinWriter, sysCall)
	emit.Opcodes(w.BinWriter, opcode.DROP)
	emit.Syscall(w.BinWriter, sysCall)
	emit.Opcodes(w.BinWriter, opcode.RET)
	offDyn := w.Len()
	emit.Syscall(w.BinWriter, sysLoadScript)
	emit.Opcodes(w.BinWriter, opcode.RET)
	offThr := w.Len()
	emit.Opcodes(w.BinWriter, opcode.THROW)
	// deep(n, h): n == 0 -> the leaf on h; else System.Contract.Call(self, "deep", All, [n-1, h])
	offDeep := w.Len()
	{
		base := io.NewBufBinWriter()
		emit.Opcodes(base.BinWriter, opcode.DROP)
		emitLeaf(base.BinWriter)
		emit.Opcodes(base.BinWriter, opcode.RET)
		emit.Opcodes(w.BinWriter, opcode.DUP, opcode.PUSH0, opcode.NUMEQUAL)
		emit.Instruction(w.BinWriter, opcode.JMPIFNOT, []byte{byte(2 + base.Len())})
		w.WriteBytes(base.Bytes())
		emit.Opcodes(w.BinWriter, opcode.DEC, opcode.PUSH2, opcode.PACK)
		emit.Int(w.BinWriter, int64(callflag.All))
		emit.String(w.BinWriter, "deep")
		emit.Syscall(w.BinWriter, sysExecuting)
		emit.Syscall(w.BinWriter, sysCall)
		emit.Opcodes(w.BinWriter, opcode.RET)
	}
	offVerify := w.Len()
	emit.Syscall(w.BinWriter, sysCheckWitness)
	emit.Opcodes(w.BinWriter, opcode.RET)
	offPay := w.Len()
	emit.Opcodes(w.BinWriter, opcode.DROP, opcode.DROP, opcode.DUP, opcode.ISNULL)
	emit.Instruction(w.BinWriter, opcode.JMPIFNOT, []byte{4})
	emit.Opcodes(w.BinWriter, opcode.DROP, opcode.RET)
	emitLeaf(w.BinWriter)
	emit.Opcodes(w.BinWriter, opcode.PUSH1, opcode.PACK)
	emit.String(w.BinWriter, "w")
	emit.Syscall(w.BinWriter, sysNotify)
	emit.Opcodes(w.BinWriter, opcode.RET)
	offInit := w.Len()
	emit.Opcodes(w.BinWriter, opcode.RET)
	var offTok []int
	for i := range tokens {
		offTok = append(offTok, w.Len())
		emit.Instruction(w.BinWriter, opcode.CALLT, []byte{byte(i), 0})
		emit.Opcodes(w.BinWriter, opcode.RET)
	}
	ne, err := nef.NewFile(w.Bytes())
	if err != nil {
		panic(err)
	}
	if len(tokens) > 0 {
		ne.Tokens = tokens
		ne.Checksum = ne.CalculateChecksum()
	}
	m := manifest.NewManifest(name)
	par := func(n string, t smartcontract.ParamType) manifest.Parameter { return manifest.NewParameter(n, t) }
	callPars := func(sfx string) []manifest.Parameter {
		return []manifest.Parameter{par("target"+sfx, smartcontract.Hash160Type), par("method"+sfx, smartcontract.StringType),
			par("flags"+sfx, smartcontract.IntegerType), par("args"+sfx, smartcontract.ArrayType)}
	}
	hpar := []manifest.Parameter{par("h", smartcontract.ByteArrayType)}
	m.ABI.Methods = []manifest.Method{
		{Name: "cw", Offset: offCW, Parameters: hpar, ReturnType: smartcontract.ArrayType},
		{Name: "cws", Offset: offCW, Parameters: hpar, ReturnType: smartcontract.ArrayType, Safe: true},
		{Name: "cwc", Offset: offCWC, Parameters: hpar, ReturnType: smartcontract.ArrayType},
		{Name: "call", Offset: offCall, Parameters: callPars(""), ReturnType: smartcontract.AnyType},
		{Name: "call2", Offset: offCall2, Parameters: append(callPars("1"), callPars("2")...), ReturnType: smartcontract.AnyType},
		{Name: "dyn", Offset: offDyn, Parameters: []manifest.Parameter{par("script", smartcontract.ByteArrayType), par("flags", smartcontract.IntegerType),
			par("args", smartcontract.ArrayType)}, ReturnType: smartcontract.AnyType},
		{Name: "thr", Offset: offThr, Parameters: hpar, ReturnType: smartcontract.AnyType},
		{Name: "deep", Offset: offDeep, Parameters: []manifest.Parameter{par("n", smartcontract.IntegerType), par("h", smartcontract.ByteArrayType)}, ReturnType: smartcontract.ArrayType},
		{Name: manifest.MethodVerify, Offset: offVerify, Parameters: hpar, ReturnType: smartcontract.BoolType},
		{Name: manifest.MethodOnNEP17Payment, Offset: offPay, Parameters: []manifest.Parameter{par("from", smartcontract.AnyType),
			par("amount", smartcontract.IntegerType), par("data", smartcontract.AnyType)}, ReturnType: smartcontract.VoidType},
	}
	if withInit {
		m.ABI.Methods = append(m.ABI.Methods, manifest.Method{Name: manifest.MethodInit, Offset: offInit, ReturnType: smartcontract.VoidType})
	}
	for i := range tokens {
		m.ABI.Methods = append(m.ABI.Methods, manifest.Method{Name: fmt.Sprintf("tcw%d", i), Offset: offTok[i], Parameters: hpar, ReturnType: smartcontract.ArrayType})
	}
	m.ABI.Events = []manifest.Event{{Name: "w", Parameters: []manifest.Parameter{par("r", smartcontract.AnyType)}}}
	m.Permissions = []manifest.Permission{*manifest.NewPermission(manifest.PermissionWildcard)}
	h := state.CreateContractHash(sender, ne.Checksum, name)
	for _, gi := range groupIdx {
		p := groupPriv(gi)
		m.Groups = append(m.Groups, manifest.Group{PublicKey: p.PublicKey(), Signature: p.Sign(h.BytesBE())})
	}
	return &neotest.Contract{Hash: h, NEF: ne, Manifest: m}
}

// deployContract: a contract whose only method is _deploy(data, update): if data != null { Notify("w", [cw-array(data)]) }.
func deployContract(sender util.Uint160, name string, groupIdx []int) (*neotest.Contract, []*keys.PublicKey) {
	w := io.NewBufBinWriter()
	emit.Opcodes(w.BinWriter, opcode.NIP, opcode.DUP, opcode.ISNULL)
	emit.Instruction(w.BinWriter, opcode.JMPIFNOT, []byte{4})
	emit.Opcodes(w.BinWriter, opcode.DROP, opcode.RET)
	emitLeaf(w.BinWriter)
	emit.Opcodes(w.BinWriter, opcode.PUSH1, opcode.PACK)
	emit.String(w.BinWriter, "w")
	emit.Syscall(w.BinWriter, sysNotify)
	emit.Opcodes(w.BinWriter, opcode.RET)
	ne, err := nef.NewFile(w.Bytes())
	if err != nil {
		panic(err)
	}
	m := manifest.NewManifest(name)
	m.ABI.Methods = []manifest.Method{{Name: manifest.MethodDeploy, Offset: 0, Parameters: []manifest.Parameter{
		manifest.NewParameter("data", smartcontract.AnyType), manifest.NewParameter("update", smartcontract.BoolType)}, ReturnType: smartcontract.VoidType}}
	m.ABI.Events = []manifest.Event{{Name: "w", Parameters: []manifest.Parameter{manifest.NewParameter("r", smartcontract.AnyType)}}}
	m.Permissions = []manifest.Permission{*manifest.NewPermission(manifest.PermissionWildcard)}
	h := state.CreateContractHash(sender, ne.Checksum, name)
	var gs []*keys.PublicKey
	for _, gi := range groupIdx {
		p := groupPriv(gi)
		m.Groups = append(m.Groups, manifest.Group{PublicKey: p.PublicKey(), Signature: p.Sign(h.BytesBE())})
		gs = append(gs, p.PublicKey())
	}
	return &neotest.Contract{Hash: h, NEF: ne, Manifest: m}, gs
}

// deployArgs: nef, manifest, data of ContractManagement.deploy.
func (c *chainCell) deployArgs() []any {
	nb, err := c.dep.NEF.Bytes()
	if err != nil {
		panic(err)
	}
	mb, err := json.Marshal(c.dep.Manifest)
	if err != nil {
		panic(err)
	}
	return []any{nb, mb, c.arg}
}

// the method tokens of T: (target proxy, method, flags)
var tokenSpec = []struct {
	proxy  int
	method string
	flags  callflag.CallFlag
}{
	{1, "cw", callflag.All},
	{2, "cw", callflag.ReadOnly},
	{3, "cws", callflag.All},
}

func newChainState() (cs *chainState, err error) {
	t := &tb{}
	defer func() {
		if r := recover(); r != nil {
			err = fmt.Errorf("setup: %v", r)
		}
	}()
	bc, validator := chain.NewSingleWithOptions(t, &chain.Options{Logger: zap.NewNop()})
	e := neotest.NewExecutor(t, bc, validator, validator)
	cs = &chainState{t: t, bc: bc, e: e, gas: e.NativeHash(t, nativenames.Gas), mgmt: e.NativeHash(t, nativenames.Management)}
	for i, gi := range [][]int{nil, {1}, {1, 2}, {2}, nil} {
		var toks []nef.MethodToken
		if i == tokenProxy {
			for _, ts := range tokenSpec {
				toks = append(toks, nef.MethodToken{Hash: cs.proxies[ts.proxy].hash, Method: ts.method, ParamCount: 1, HasReturn: true, CallFlag: ts.flags})
			}
		}
		withInit := i == 2 || i == 3
		c := proxyContract(validator.ScriptHash(), fmt.Sprintf("proxy%d", i), gi, withInit, toks)
		e.DeployContract(t, c, nil)
		p := proxy{hash: c.Hash, init: withInit}
		for _, g := range gi {
			p.groups = append(p.groups, groupPriv(g).PublicKey())
		}
		cs.proxies = append(cs.proxies, p)
	}
	// funded accounts with deterministic keys
	for i := 1; i <= 3; i++ {
		acc := wallet.NewAccountFromPrivateKey(accountPriv(i))
		s := neotest.NewSingleSigner(acc)
		tx := e.NewTx(t, []neotest.Signer{validator}, cs.gas, "transfer", validator.ScriptHash(), s.ScriptHash(), int64(1000_0000_0000), nil)
		e.AddNewBlock(t, tx)
		e.CheckHalt(t, tx.Hash())
		cs.accs = append(cs.accs, s)
	}
	cs.u = &universe{keys: []*keys.PublicKey{groupPriv(1).PublicKey(), groupPriv(2).PublicKey(), groupPriv(3).PublicKey()}}
	for _, p := range cs.proxies {
		cs.u.hashes = append(cs.u.hashes, p.hash)
	}
	cs.u.hashes = append(cs.u.hashes, cs.gas)
	for _, a := range cs.accs {
		cs.accounts = append(cs.accounts, a.ScriptHash())
	}
	cs.accounts = append(cs.accounts, cs.u.hashes...)
	return cs, nil
}

// ---- cells --------------------------------------------------------------------

const (
	hopContract = iota
	hopDynamic
	hopNative // GAS.transfer(prev, proxy, 0, arg) -> proxy.onNEP17Payment ; last hop only
	hopToken  // CALLT out of T ; last hop only
	hopDeploy // ContractManagement.deploy(nef, manifest, arg) -> newContract._deploy(arg, false) ; last hop only
)

const (
	mCW  = iota // cw
	mCWS        // cws: the Safe twin
)

type hop struct {
	kind  int
	proxy int               // hopContract, hopNative, hopToken (the token's target)
	flags callflag.CallFlag // requested flags of the call that creates this hop (hopToken: the token's flags)
	tok   int
	wide  int64 // added to the flags integer handed to the syscall: a CallFlag is a byte, the conversion truncates (256, 512, 1<<32)
}

// a side trip: a load that is over (returned, or threw and was caught) before the frame goes on
type trip struct {
	dyn    bool // System.Runtime.LoadScript instead of System.Contract.Call
	proxy  int
	mid    int // >= 0: the trip goes through P[mid].call(...)
	flags  callflag.CallFlag
	throws bool
	wrap   int  // script frames: 0 no TRY around the trip, 1 TRY-catch, 2 TRY-catch-finally (a throwing trip has one)
	inFin  bool // throwing dynamic-script trip: the script calls P.thr inside its own TRY-finally (no catch)
}

type chainCell struct {
	hops      []hop
	trips     [][]trip // trips[j]: made by frame j before it goes on (frame 0 = entry script, hop i creates frame i+1)
	inner     []bool   // inner[j]: frame j does its work inside a CALLed subroutine (script frames; a contract leaf uses cwc)
	leaf      int      // mCW / mCWS when the last frame is a contract entered by System.Contract.Call
	signers   []signer
	h         util.Uint160 // the account CheckWitness is (meant to be) asked about
	arg       []byte       // the bytes handed to System.Runtime.CheckWitness
	argKind   string
	deep      int // > 0: the last contract frame calls itself this many times more (method deep) before it checks
	realTx    bool
	nAccs     int               // realTx: number of funded accounts that sign after the validator
	dep       *neotest.Contract // hopDeploy: the contract that is deployed (its hash depends on the sender)
	depGroups []*keys.PublicKey
	// witness verification (verif.go): frame 0 is the verification script, loaded ReadOnly by InitVerificationContext,
	// and must leave one boolean
	verif     bool
	noSigners bool              // the container is not a transaction
	entryOps  []string          // the steps that replace `LW entry All`
	probe     int               // >= 0: the verdict is GetCallFlags() == probe in the last frame instead of the witness check
	endFlags  callflag.CallFlag // set by env: the flags of the last frame as the harness derives them
}

var zero20 = make([]byte, 20)

func (c *chainCell) isScriptFrame(j int) bool { return j == 0 || c.hops[j-1].kind == hopDynamic }

// tripCall: target, method, flags, args of the System.Contract.Call that starts a call trip.
func (cs *chainState) tripCall(t trip) []any {
	m := "cw"
	if t.throws {
		m = "thr"
	}
	if t.mid >= 0 {
		return []any{cs.proxies[t.mid].hash, "call", int64(callflag.All), []any{cs.proxies[t.proxy].hash, m, int64(t.flags), []any{zero20}}}
	}
	return []any{cs.proxies[t.proxy].hash, m, int64(t.flags), []any{zero20}}
}

func throwScript() []byte { return []byte{byte(opcode.PUSH1), byte(opcode.THROW)} }

func (cs *chainState) tripDynScript(t trip) []byte {
	if t.throws && t.inFin {
		// TRY_L -,fin ; P.thr(0) ; DROP ; ENDTRY_L end ; fin: ENDFINALLY ; end: RET
		in := io.NewBufBinWriter()
		emit.AppCall(in.BinWriter, cs.proxies[t.proxy].hash, "thr", callflag.All, zero20)
		emit.Opcodes(in.BinWriter, opcode.DROP)
		code := in.Bytes()
		w := io.NewBufBinWriter()
		emit.Instruction(w.BinWriter, opcode.TRYL, append(le32(0), le32(9+len(code)+5)...))
		w.WriteBytes(code)
		emit.Instruction(w.BinWriter, opcode.ENDTRYL, le32(6))
		emit.Opcodes(w.BinWriter, opcode.ENDFINALLY, opcode.RET)
		return w.Bytes()
	}
	if t.throws {
		return throwScript()
	}
	w := io.NewBufBinWriter()
	emit.Bytes(w.BinWriter, zero20)
	emitLeaf(w.BinWriter)
	emit.Opcodes(w.BinWriter, opcode.RET)
	return append(w.Bytes(), byte(opcode.PUSHINT8), byte(t.proxy)) // a trailing instruction makes the hash depend on the trip
}

// emitTrip: the code of a side trip inside a script frame.
func (cs *chainState) emitTrip(w *io.BinWriter, t trip) {
	in := io.NewBufBinWriter()
	if t.dyn {
		emit.Array(in.BinWriter)
		emit.Int(in.BinWriter, int64(t.flags))
		emit.Bytes(in.BinWriter, cs.tripDynScript(t))
		emit.Syscall(in.BinWriter, sysLoadScript)
	} else {
		a := cs.tripCall(t)
		emit.AppCall(in.BinWriter, a[0].(util.Uint160), a[1].(string), callflag.CallFlag(a[2].(int64)), a[3].([]any)...)
	}
	emit.Opcodes(in.BinWriter, opcode.DROP)
	code := in.Bytes()
	switch t.wrap {
	case 0:
		w.WriteBytes(code)
	case 1:
		// TRY_L catch,- ; code ; ENDTRY_L end ; catch: DROP ; ENDTRY_L end ; end:
		emit.Instruction(w, opcode.TRYL, append(le32(9+len(code)+5), le32(0)...))
		w.WriteBytes(code)
		emit.Instruction(w, opcode.ENDTRYL, le32(5+1+5))
		emit.Opcodes(w, opcode.DROP)
		emit.Instruction(w, opcode.ENDTRYL, le32(5))
	default:
		// TRY_L catch,fin ; code ; ENDTRY_L end ; catch: DROP ; ENDTRY_L end ; fin: ENDFINALLY ; end:
		emit.Instruction(w, opcode.TRYL, append(le32(9+len(code)+5), le32(9+len(code)+5+1+5)...))
		w.WriteBytes(code)
		emit.Instruction(w, opcode.ENDTRYL, le32(5+1+5+1))
		emit.Opcodes(w, opcode.DROP)
		emit.Instruction(w, opcode.ENDTRYL, le32(5+1))
		emit.Opcodes(w, opcode.ENDFINALLY)
	}
}

// bodyScript: what the script frame j (entry or dynamic script) executes.
func (cs *chainState) bodyScript(c *chainCell, j int) []byte {
	w := io.NewBufBinWriter()
	for _, t := range c.trips[j] {
		cs.emitTrip(w.BinWriter, t)
	}
	if j == len(c.hops) {
		emit.Bytes(w.BinWriter, c.arg)
		emitLeaf(w.BinWriter)
	} else {
		nx := c.hops[j]
		switch nx.kind {
		case hopContract:
			m, args := cs.bodyCall(c, j+1)
			emit.Array(w.BinWriter, args...)
			emit.Int(w.BinWriter, int64(nx.flags)+nx.wide)
			emit.String(w.BinWriter, m)
			emit.Bytes(w.BinWriter, cs.proxies[nx.proxy].hash.BytesBE())
			emit.Syscall(w.BinWriter, sysCall)
		case hopDynamic:
			emit.Array(w.BinWriter)
			emit.Int(w.BinWriter, int64(nx.flags)+nx.wide)
			emit.Bytes(w.BinWriter, cs.bodyScript(c, j+1))
			emit.Syscall(w.BinWriter, sysLoadScript)
		case hopNative:
			// GAS.transfer(this script, proxy, 0, arg)
			emit.Bytes(w.BinWriter, c.arg)
			emit.Int(w.BinWriter, 0)
			emit.Bytes(w.BinWriter, cs.proxies[nx.proxy].hash.BytesBE())
			emit.Syscall(w.BinWriter, sysExecuting)
			emit.Int(w.BinWriter, 4)
			emit.Opcodes(w.BinWriter, opcode.PACK)
			emit.AppCallNoArgs(w.BinWriter, cs.gas, "transfer", nx.flags)
		case hopDeploy:
			emit.AppCall(w.BinWriter, cs.mgmt, "deploy", nx.flags, c.deployArgs()...)
		}
	}
	if j == 0 && c.verif {
		if c.probe >= 0 {
			emit.Opcodes(w.BinWriter, opcode.PUSH0, opcode.PICKITEM) // the call flags of the info array
			emit.Int(w.BinWriter, int64(c.probe))
			emit.Opcodes(w.BinWriter, opcode.NUMEQUAL)
		} else {
			emit.Opcodes(w.BinWriter, opcode.PUSH4, opcode.PICKITEM) // the boolean of the info array
		}
	}
	emit.Opcodes(w.BinWriter, opcode.RET)
	body := w.Bytes()
	if !c.inner[j] {
		return body
	}
	// CALL_L sub ; RET ; sub: body
	o := io.NewBufBinWriter()
	emit.Instruction(o.BinWriter, opcode.CALLL, le32(6))
	emit.Opcodes(o.BinWriter, opcode.RET)
	o.WriteBytes(body)
	return o.Bytes()
}

// bodyCall: the method and arguments with which the contract frame j is entered.
func (cs *chainState) bodyCall(c *chainCell, j int) (string, []any) {
	if j == len(c.hops) {
		switch {
		case c.deep > 0:
			return "deep", []any{int64(c.deep), c.arg}
		case c.inner[j]:
			return "cwc", []any{c.arg}
		case c.leaf == mCWS:
			return "cws", []any{c.arg}
		}
		return "cw", []any{c.arg}
	}
	me := cs.proxies[c.hops[j-1].proxy].hash
	nx := c.hops[j]
	var main []any
	switch nx.kind {
	case hopContract:
		m, args := cs.bodyCall(c, j+1)
		main = []any{cs.proxies[nx.proxy].hash, m, int64(nx.flags) + nx.wide, args}
	case hopDynamic:
		return "dyn", []any{cs.bodyScript(c, j+1), int64(nx.flags) + nx.wide, []any{}}
	case hopToken:
		return fmt.Sprintf("tcw%d", nx.tok), []any{c.arg}
	case hopDeploy:
		main = []any{cs.mgmt, "deploy", int64(nx.flags), c.deployArgs()}
	default:
		main = []any{cs.gas, "transfer", int64(nx.flags), []any{me, cs.proxies[nx.proxy].hash, int64(0), c.arg}}
	}
	if len(c.trips[j]) > 0 {
		return "call2", append(cs.tripCall(c.trips[j][0]), main...)
	}
	return "call", main
}

func (cs *chainState) tripOps(t trip) []string {
	var ops []string
	if t.wrap > 0 {
		ops = append(ops, fmt.Sprintf("TR 1 %d", b01(t.wrap == 2)))
	}
	call := func(p int, f callflag.CallFlag) {
		ops = append(ops, fmt.Sprintf("CC %s %d 0 %d", hTok(cs.proxies[p].hash), int64(f), b01(cs.proxies[p].init)))
		if cs.proxies[p].init {
			ops = append(ops, "RT")
		}
	}
	depth := 0
	switch {
	case t.dyn:
		ops = append(ops, fmt.Sprintf("RL %s %d", hTok(hash.Hash160(cs.tripDynScript(t))), int64(t.flags)))
		depth = 1
		if t.throws && t.inFin {
			ops = append(ops, "TR 0 1")
			call(t.proxy, callflag.All)
		}
	default:
		if t.mid >= 0 {
			call(t.mid, callflag.All)
			depth++
		}
		call(t.proxy, t.flags)
		depth++
	}
	if t.throws {
		// THROW: the model finds the handler and the number of contexts to pop from its try stacks
		ops = append(ops, "TH")
		if t.dyn && t.inFin {
			ops = append(ops, "EF") // the dynamic script's finally block ends: the pending exception goes on
		}
	} else {
		ops = append(ops, "CQ "+hx.Hex(zero20)) // the trip's own CheckWitness: its result is dropped, a fault is not
		for ; depth > 0; depth-- {
			ops = append(ops, "RT")
		}
	}
	switch t.wrap {
	case 1:
		ops = append(ops, "ET")
	case 2:
		ops = append(ops, "ET", "EF")
	}
	return ops
}

// ops: the step sequence of the cell for the model.
func (cs *chainState) ops(c *chainCell, entry []byte) []string {
	ops := []string{fmt.Sprintf("LW %s %d", hTok(hash.Hash160(entry)), byte(callflag.All))}
	if c.verif {
		ops = append([]string{}, c.entryOps...)
	}
	for j := 0; j <= len(c.hops); j++ {
		if c.inner[j] {
			ops = append(ops, "CL")
		}
		for _, t := range c.trips[j] {
			ops = append(ops, cs.tripOps(t)...)
		}
		if j == len(c.hops) {
			break
		}
		hp := c.hops[j]
		ini := func(p int) {
			if cs.proxies[p].init {
				ops = append(ops, "RT")
			}
		}
		switch hp.kind {
		case hopContract:
			safe := j+1 == len(c.hops) && c.leaf == mCWS && !c.inner[j+1]
			ops = append(ops, fmt.Sprintf("CC %s %d %d %d", hTok(cs.proxies[hp.proxy].hash), int64(hp.flags)+hp.wide, b01(safe), b01(cs.proxies[hp.proxy].init)))
			ini(hp.proxy)
		case hopDynamic:
			ops = append(ops, fmt.Sprintf("RL %s %d", hTok(hash.Hash160(cs.bodyScript(c, j+1))), int64(hp.flags)+hp.wide))
		case hopNative:
			ops = append(ops, fmt.Sprintf("CC %s %d 0 0", hTok(cs.gas), int64(hp.flags)))
			ops = append(ops, fmt.Sprintf("NC %s %s %d", hTok(cs.gas), hTok(cs.proxies[hp.proxy].hash), b01(cs.proxies[hp.proxy].init)))
			ini(hp.proxy)
		case hopDeploy:
			ops = append(ops, fmt.Sprintf("CC %s %d 0 0", hTok(cs.mgmt), int64(hp.flags)))
			ops = append(ops, fmt.Sprintf("NC %s %s 0", hTok(cs.mgmt), hTok(c.dep.Hash)))
		case hopToken:
			ts := tokenSpec[hp.tok]
			ops = append(ops, fmt.Sprintf("CT %s %d %d %d", hTok(cs.proxies[ts.proxy].hash), byte(ts.flags), b01(ts.method == "cws"), b01(cs.proxies[ts.proxy].init)))
			ini(ts.proxy)
		}
	}
	if c.deep > 0 {
		p := cs.proxies[c.hops[len(c.hops)-1].proxy]
		for i := 0; i < c.deep; i++ {
			ops = append(ops, fmt.Sprintf("CC %s 15 0 %d", hTok(p.hash), b01(p.init)))
			if p.init {
				ops = append(ops, "RT")
			}
		}
	}
	if c.verif && c.probe >= 0 {
		return append(ops, "CQ "+hx.Hex(c.arg), fmt.Sprintf("FE %d", c.probe))
	}
	if c.verif {
		return append(ops, "CW "+hx.Hex(c.arg))
	}
	return append(ops, "CW "+hx.Hex(c.arg), "OI")
}

// env derives the frames (for the oracle) and the fault the flags must lead to, from the chain description.
func (cs *chainState) env(c *chainCell, entry []byte) (*env, string) {
	fr := []frame{{hash: hash.Hash160(entry), rs: true}}
	cur := callflag.All
	if c.verif {
		cur = callflag.ReadOnly
	}
	fault := ""
	need := func(f callflag.CallFlag, class string) bool {
		if fault == "" && !cur.Has(f) {
			fault = class
		}
		return fault == ""
	}
	rng := func(f callflag.CallFlag) bool {
		if fault == "" && f&^callflag.All != 0 {
			fault = "fault:flagsrange"
		}
		return fault == ""
	}
	for j := 0; j <= len(c.hops) && fault == ""; j++ {
		for _, t := range c.trips[j] {
			ok := false
			if t.dyn {
				ok = need(callflag.AllowCall, "fault:missingflags") && rng(t.flags)
			} else {
				ok = need(callflag.ReadOnly, "fault:missingflags") && rng(t.flags)
			}
			if ok && t.dyn && t.throws && t.inFin {
				// inside the dynamic script: System.Contract.Call needs ReadStates|AllowCall of cur & ReadOnly & flags
				if f := cur & callflag.ReadOnly & t.flags; fault == "" && !f.Has(callflag.ReadOnly) {
					fault = "fault:missingflags"
				}
			}
			if ok && !t.throws && c.noSigners {
				fault = "err:nosigners" // the trip's own CheckWitness(0) faults without any signer
			}
		}
		if j == len(c.hops) || fault != "" {
			break
		}
		hp := c.hops[j]
		prev := fr[len(fr)-1]
		switch hp.kind {
		case hopContract:
			if need(callflag.ReadOnly, "fault:missingflags") && rng(hp.flags) {
				cur &= hp.flags
				if j+1 == len(c.hops) && c.leaf == mCWS && !c.inner[j+1] {
					cur &^= callflag.WriteStates | callflag.AllowNotify
				}
				fr = append(fr, frame{hash: cs.proxies[hp.proxy].hash, caller: prev.hash, rs: cur&callflag.ReadStates != 0})
			}
		case hopToken:
			ts := tokenSpec[hp.tok]
			if need(callflag.ReadOnly, "fault:invalidflags") {
				cur &= ts.flags
				if ts.method == "cws" {
					cur &^= callflag.WriteStates | callflag.AllowNotify
				}
				fr = append(fr, frame{hash: cs.proxies[ts.proxy].hash, caller: prev.hash, rs: cur&callflag.ReadStates != 0})
			}
		case hopDynamic:
			if need(callflag.AllowCall, "fault:missingflags") && rng(hp.flags) {
				cur = cur & hp.flags & callflag.ReadOnly
				fr = append(fr, frame{hash: hash.Hash160(cs.bodyScript(c, j+1)), caller: prev.hash, rs: cur&callflag.ReadStates != 0})
			}
		case hopDeploy:
			if need(callflag.ReadOnly, "fault:missingflags") && rng(hp.flags) {
				cur &= hp.flags
				fr = append(fr, frame{hash: cs.mgmt, caller: prev.hash, rs: cur&callflag.ReadStates != 0})
				fr = append(fr, frame{hash: c.dep.Hash, caller: cs.mgmt, rs: cur&callflag.ReadStates != 0})
			}
		case hopNative:
			if need(callflag.ReadOnly, "fault:missingflags") && rng(hp.flags) {
				cur &= hp.flags
				fr = append(fr, frame{hash: cs.gas, caller: prev.hash, rs: cur&callflag.ReadStates != 0})
				fr = append(fr, frame{hash: cs.proxies[hp.proxy].hash, caller: cs.gas, rs: cur&callflag.ReadStates != 0})
			}
		}
	}
	if c.deep > 0 && fault == "" {
		p := cs.proxies[c.hops[len(c.hops)-1].proxy].hash
		for i := 0; i < c.deep; i++ {
			if len(fr) >= vm.MaxInvocationStackSize {
				fault = "fault:stack" // "invocation stack is too big"
				break
			}
			fr = append(fr, frame{hash: p, caller: p, rs: cur&callflag.ReadStates != 0})
		}
	}
	c.endFlags = cur
	e := &env{}
	for i := len(fr) - 1; i >= 0; i-- {
		e.frames = append(e.frames, fr[i])
	}
	for _, p := range cs.proxies {
		e.contracts = append(e.contracts, contractInfo{hash: p.hash, groups: p.groups})
	}
	e.contracts = append(e.contracts, contractInfo{hash: cs.gas}, contractInfo{hash: cs.mgmt})
	if c.dep != nil {
		e.contracts = append(e.contracts, contractInfo{hash: c.dep.Hash, groups: c.depGroups})
	}
	return e, fault
}

var finalFlags = []callflag.CallFlag{callflag.All, callflag.ReadOnly, callflag.AllowCall, callflag.NoneFlag, callflag.ReadStates,
	callflag.WriteStates | callflag.AllowNotify, callflag.All &^ callflag.ReadStates}

func (cs *chainState) genTrip(r *prng.R, scriptFrame bool) trip {
	t := trip{proxy: r.Intn(nProxies), mid: -1, flags: callflag.All}
	if r.Chance(1, 4) {
		t.flags = []callflag.CallFlag{callflag.ReadOnly, callflag.ReadStates, callflag.NoneFlag, callflag.States}[r.Intn(4)]
	}
	if r.Chance(1, 4) {
		t.mid = r.Intn(nProxies)
	}
	if scriptFrame {
		t.dyn = r.Chance(1, 4)
		t.throws = r.Chance(1, 3)
		t.wrap = r.Intn(3)
		if t.throws && t.wrap == 0 {
			t.wrap = 1 + r.Intn(2)
		}
		if t.dyn {
			t.mid = -1
			t.inFin = t.throws && r.Bool()
		}
	}
	return t
}

// genArg picks the argument of CheckWitness for the account h.
func (cs *chainState) genArg(r *prng.R, c *chainCell) {
	c.arg, c.argKind = c.h.BytesBE(), "hash"
	for _, a := range cs.accs {
		if a.ScriptHash() == c.h && r.Chance(1, 2) {
			pk := a.(neotest.SingleSigner).Account().PublicKey()
			if r.Chance(1, 3) {
				c.arg, c.argKind = pk.UncompressedBytes(), "key-uncompressed"
			} else {
				c.arg, c.argKind = pk.Bytes(), "key-compressed"
			}
			return
		}
	}
	if r.Chance(1, 30) {
		// neither a hash nor a key: wrong lengths, wrong prefixes
		n := []int{0, 1, 19, 21, 32, 33, 33, 34, 64, 65, 65, 66}[r.Intn(12)]
		b := r.Bytes(n)
		if n == 33 {
			b[0] = []byte{0x00, 0x01, 0x04, 0x05, 0xff}[r.Intn(5)]
		}
		if n == 65 {
			b[0] = []byte{0x00, 0x02, 0x03, 0x05}[r.Intn(4)]
		}
		c.arg, c.argKind = b, "junk"
	}
}

func (cs *chainState) genCell(r *prng.R) *chainCell { return cs.genCellK(r, -1) }

// deepLevels: how many script loads away from the entry script the checking contract is, in the fixed cells that
// open the block: around every multiple of 256 (a nesting level kept in a byte wraps there), at the invocation
// stack limit and one beyond (a fault). Levels marked triple are run with all three entry-relation signers.
var deepLevels = []struct {
	level  int
	triple bool
}{{2, false}, {3, true}, {127, false}, {128, false}, {129, false}, {254, false}, {255, false}, {256, true}, {257, true}, {258, false},
	{510, false}, {511, false}, {512, true}, {513, true}, {514, false}, {766, false}, {767, false}, {768, true}, {769, false}, {770, false},
	{1020, false}, {1021, false}, {1022, false}, {1023, true}, {1024, false}}

func deepCellCount() int {
	n := 0
	for _, d := range deepLevels {
		n++
		if d.triple {
			n += 2
		}
	}
	return n
}

// deepCell: the idx-th fixed deep cell: entry -> P.deep(level-1, h): level script loads between the entry script and
// the check; signers: CalledByEntry scope, Allow rule on CalledByEntry, Deny rule on CalledByEntry then Allow.
func (cs *chainState) deepCell(idx int) *chainCell {
	level, which := 0, 0
	for _, d := range deepLevels {
		m := 1
		if d.triple {
			m = 3
		}
		if idx < m {
			level, which = d.level, idx
			if !d.triple {
				which = d.level % 3
			}
			break
		}
		idx -= m
	}
	c := &chainCell{probe: -1, deep: level - 1, leaf: mCW}
	c.hops = []hop{{kind: hopContract, proxy: level % 2, flags: callflag.All}}
	c.trips = make([][]trip, 2)
	c.inner = make([]bool, 2)
	a := cs.accounts
	c.signers = []signer{{account: a[0], scopes: 0x01},
		{account: a[1], scopes: 0x40, rules: []rule{{action: 1, c: &cond{kind: kEntry}}}},
		{account: a[2], scopes: 0x40, rules: []rule{{action: 0, c: &cond{kind: kEntry}}, {action: 1, c: &cond{kind: kBool, b: true}}}}}
	c.h = a[which]
	c.arg, c.argKind = c.h.BytesBE(), "hash"
	return c
}

// genCellK: k >= 0 allows a deployment as the last hop (the new contract's name carries k, so it is new on the chain).
func (cs *chainState) genCellK(r *prng.R, k int) *chainCell {
	c := &chainCell{probe: -1}
	n := []int{0, 1, 1, 2, 2, 2, 3, 3, 3}[r.Intn(9)]
	native := n > 0 && r.Chance(1, 6)
	deploy := native && k >= 0 && r.Chance(1, 3)
	token := n > 1 && !native && r.Chance(1, 6)
	faulty := r.Chance(1, 12) // may hand insufficient or out-of-range flags to an intermediate hop
	for hi := 0; hi < n; hi++ {
		last := hi == n-1
		hp := hop{flags: callflag.All}
		switch {
		case last && deploy:
			hp.kind = hopDeploy // ContractManagement.deploy needs all flags
		case last && native:
			hp.kind = hopNative
			hp.proxy = r.Intn(nProxies)
			if r.Chance(1, 4) {
				hp.flags = callflag.States | callflag.AllowCall | callflag.AllowNotify
			}
		case last && token:
			hp.kind = hopToken
			hp.tok = r.Intn(len(tokenSpec))
			hp.proxy = tokenSpec[hp.tok].proxy
			hp.flags = tokenSpec[hp.tok].flags
		case hi == n-2 && token:
			hp.kind = hopContract
			hp.proxy = tokenProxy
			if r.Chance(1, 5) {
				hp.flags = []callflag.CallFlag{callflag.ReadOnly, callflag.ReadStates, callflag.AllowCall, callflag.NoneFlag}[r.Intn(4)]
			}
		case r.Chance(1, 4) && !native:
			// a dynamic script drops the flags to ReadOnly, which a later GAS.transfer cannot live with
			hp.kind = hopDynamic
		default:
			hp.kind = hopContract
			hp.proxy = r.Intn(nProxies)
		}
		if hp.kind != hopNative && hp.kind != hopDeploy && hp.kind != hopToken && !(hi == n-2 && token) {
			switch {
			case last:
				hp.flags = finalFlags[r.Intn(len(finalFlags))]
				if r.Chance(1, 2) {
					hp.flags = callflag.All
				}
			case !native && faulty && r.Chance(1, 2):
				hp.flags = []callflag.CallFlag{callflag.ReadStates, callflag.AllowCall, callflag.NoneFlag, 16, 31, 0x80 | callflag.All,
					callflag.States | callflag.AllowNotify}[r.Intn(7)]
			case !native && r.Chance(1, 3):
				hp.flags = callflag.ReadOnly
			}
		}
		if (hp.kind == hopContract || hp.kind == hopDynamic) && r.Chance(1, 15) {
			hp.wide = []int64{256, 512, 1 << 32, 255 << 8}[r.Intn(4)] // truncated away by the conversion to a CallFlag
		}
		c.hops = append(c.hops, hp)
	}
	c.trips = make([][]trip, n+1)
	c.inner = make([]bool, n+1)
	for j := 0; j <= n; j++ {
		script := c.isScriptFrame(j)
		switch {
		case script:
			c.inner[j] = r.Chance(1, 5)
			if r.Chance(1, 3) {
				for m := 1 + r.Intn(2); m > 0; m-- {
					c.trips[j] = append(c.trips[j], cs.genTrip(r, true))
				}
			}
		case j == n && c.hops[j-1].kind == hopContract:
			c.inner[j] = r.Chance(1, 5) // cwc
			if !c.inner[j] && r.Chance(1, 4) {
				c.leaf = mCWS
			}
		case j < n && c.hops[j-1].kind == hopContract && (c.hops[j].kind == hopContract || c.hops[j].kind == hopNative || c.hops[j].kind == hopDeploy):
			if r.Chance(1, 4) {
				c.trips[j] = []trip{cs.genTrip(r, false)}
			}
		}
	}
	c.realTx = r.Chance(1, 6)
	if c.realTx {
		c.nAccs = r.Intn(3)
		ids := []util.Uint160{cs.e.Validator.ScriptHash()}
		for i := 0; i < c.nAccs; i++ {
			ids = append(ids, cs.accs[i].ScriptHash())
		}
		for _, id := range ids {
			s := genSigner(r, cs.u, []util.Uint160{id})
			// a transaction that goes through block verification and storage must be decodable
			if s.scopes&0x80 != 0 {
				s.scopes = 0x80
			}
			s.scopes &= 0xf1
			for i := range s.rules {
				s.rules[i].action &= 1
			}
			c.signers = append(c.signers, s)
		}
	} else {
		ns := []int{1, 1, 2, 2, 3}[r.Intn(5)]
		for i := 0; i < ns; i++ {
			c.signers = append(c.signers, genSigner(r, cs.u, cs.accounts))
		}
	}
	switch {
	case r.Chance(3, 5):
		c.h = c.signers[r.Intn(len(c.signers))].account
	case r.Chance(1, 2) && n > 0:
		// a frame of the chain (the caller shortcut, or a contract that is not the caller)
		hp := c.hops[r.Intn(n)]
		switch hp.kind {
		case hopContract, hopToken:
			c.h = cs.proxies[hp.proxy].hash
		case hopNative:
			c.h = cs.gas
		case hopDeploy:
			c.h = cs.mgmt
		default:
			c.h = cs.accounts[r.Intn(len(cs.accounts))]
		}
	case r.Chance(1, 8):
		c.h = util.Uint160{} // the calling hash of the entry script
	default:
		c.h = cs.accounts[r.Intn(len(cs.accounts))]
	}
	cs.genArg(r, c)
	if deploy {
		var gidx []int
		for g := 1; g <= 3; g++ {
			if r.Chance(1, 3) {
				gidx = append(gidx, g)
			}
		}
		c.dep, c.depGroups = deployContract(c.signers[0].account, fmt.Sprintf("dep%d", k), gidx)
	}
	return c
}

func classifyFault(s string) string {
	switch {
	case strings.Contains(s, "missing ReadStates call flag"):
		return "err:noreadstates"
	case strings.Contains(s, "no valid signers"):
		return "err:nosigners"
	case strings.Contains(s, "neither a key nor a hash"):
		return "fault:badarg"
	case strings.Contains(s, "missing call flags"):
		return "fault:missingflags"
	case strings.Contains(s, "call flags out of range"):
		return "fault:flagsrange"
	case strings.Contains(s, "invalid call flags"):
		return "fault:invalidflags"
	case strings.Contains(s, "invocation stack is too big"):
		return "fault:stack"
	}
	return "fault:" + strings.ReplaceAll(s, " ", "_")
}

// infoObs turns the array built by emitLeaf into the observation `<bool> i:<executing>,<calling>,<entry>,<flags>`.
func infoObs(it stackitem.Item) (string, error) {
	arr, ok := it.Value().([]stackitem.Item)
	if !ok || len(arr) != 5 {
		return "", errors.New("not the info array")
	}
	if arr[4].Type() != stackitem.BooleanT {
		return "", errors.New("not a boolean")
	}
	b, err := arr[4].TryBool()
	if err != nil {
		return "", err
	}
	var hs [3]string
	for i, x := range []stackitem.Item{arr[3], arr[2], arr[1]} {
		bs, err := x.TryBytes()
		if err != nil {
			return "", err
		}
		u, err := util.Uint160DecodeBytesBE(bs)
		if err != nil {
			return "", err
		}
		hs[i] = hTok(u)
	}
	fl, err := arr[0].TryInteger()
	if err != nil {
		return "", err
	}
	return fmt.Sprintf("%v i:%s,%s,%s,%d", b, hs[0], hs[1], hs[2], fl.Int64()), nil
}

// outcome turns the VM state, result stack and notifications into an observation.
func (cs *chainState) outcome(c *chainCell, halted bool, fault string, stack []stackitem.Item, events []state.NotificationEvent) string {
	if !halted {
		return classifyFault(fault)
	}
	if len(stack) != 1 {
		return fmt.Sprintf("bad-stack:%d", len(stack))
	}
	n := len(c.hops)
	if n > 0 && (c.hops[n-1].kind == hopNative || c.hops[n-1].kind == hopDeploy) {
		from := c.dep
		emitter := util.Uint160{}
		if c.hops[n-1].kind == hopNative {
			top, err := stack[0].TryBool()
			if err != nil || stack[0].Type() != stackitem.BooleanT {
				return "bad-result:" + stack[0].Type().String()
			}
			if !top {
				return "transfer-failed"
			}
			emitter = cs.proxies[c.hops[n-1].proxy].hash
		} else {
			emitter = from.Hash
		}
		var res []string
		for _, ev := range events {
			if ev.Name == "w" && ev.ScriptHash == emitter {
				arr := ev.Item.Value().([]stackitem.Item)
				s, err := infoObs(arr[0])
				if err != nil {
					return "bad-event"
				}
				res = append(res, s)
			}
		}
		if len(res) != 1 {
			return fmt.Sprintf("events:%d", len(res))
		}
		return res[0]
	}
	s, err := infoObs(stack[0])
	if err != nil {
		return "bad-result:" + stack[0].Type().String()
	}
	return s
}

func (cs *chainState) runCell(c *chainCell, entry []byte) (obs string) {
	cs.t.lastErr = ""
	defer func() {
		if r := recover(); r != nil {
			if f, ok := r.(tbFail); ok {
				obs = "harness-fail:" + strings.ReplaceAll(f.msg, " ", "_")
				return
			}
			obs = "panic"
		}
	}()
	if !c.realTx {
		tx := transaction.New(entry, 0)
		tx.Signers = realSigners(c.signers)
		tx.ValidUntilBlock = cs.bc.BlockHeight() + 1
		ic, err := cs.bc.GetTestVM(trigger.Application, tx, nil)
		if err != nil {
			return "harness-fail:testvm"
		}
		defer ic.Finalize()
		ic.VM.LoadWithFlags(entry, callflag.All)
		err = ic.VM.Run()
		halted := err == nil && ic.VM.State() == vmstate.Halt
		fault := ""
		if err != nil {
			fault = err.Error()
		}
		var stack []stackitem.Item
		if halted {
			stack = ic.VM.Estack().ToArray()
		}
		return cs.outcome(c, halted, fault, stack, ic.Notifications)
	}
	e, t := cs.e, cs.t
	tx := e.PrepareInvocationNoSign(t, entry)
	tx.Signers = realSigners(c.signers)
	sgs := []neotest.Signer{e.Validator}
	for i := 0; i < c.nAccs; i++ {
		sgs = append(sgs, cs.accs[i])
	}
	neotest.AddNetworkFee(t, cs.bc, tx, sgs...)
	e.AddSystemFee(tx, -1)
	tx.SystemFee += 1_0000_0000
	for _, s := range sgs {
		if err := s.SignTx(cs.bc.GetConfig().Magic, tx); err != nil {
			return "harness-fail:sign"
		}
	}
	e.AddNewBlock(t, tx)
	aer := e.GetTxExecResult(t, tx.Hash())
	return cs.outcome(c, aer.VMState == vmstate.Halt, aer.FaultException, aer.Stack, aer.Events)
}

func (c *chainCell) shape() string {
	var sb strings.Builder
	sb.WriteString("E")
	for _, h := range c.hops {
		switch h.kind {
		case hopContract:
			sb.WriteString(">C")
		case hopDynamic:
			sb.WriteString(">D")
		case hopToken:
			sb.WriteString(">T")
		case hopDeploy:
			sb.WriteString(">M>deploy")
		default:
			sb.WriteString(">N>C")
		}
	}
	return sb.String()
}

func runChainCase(o *hx.Out, k int, r *prng.R, cs *chainState, idx int) {
	o.Case(k)
	c := cs.genCellK(r, k)
	if idx < deepCellCount() {
		c = cs.deepCell(idx)
		o.Count("chain:fixed-deep-cell")
	}
	entry := cs.bodyScript(c, 0)
	e, wantFault := cs.env(c, entry)
	obs := cs.runCell(c, entry)
	line := fmt.Sprintf("x %s - T %s %s", contractsTok(e.contracts), signersTok(c.signers), strings.Join(cs.ops(c, entry), " "))
	o.Line(line, obs)
	layer := "chain-vm"
	if c.realTx {
		layer = "chain-tx"
	}
	desc := func() string { return c.shape() + " " + line }
	o.Count(layer + ":arg=" + c.argKind)
	switch {
	case wantFault != "" || strings.HasPrefix(obs, "fault:"):
		// the flags of the chain do not let it reach the check (or the argument is junk)
		want := wantFault
		if want == "" && c.argKind == "junk" && len(c.arg) != 20 {
			want = "fault:badarg"
		}
		o.Count(layer + ":obs=" + obs)
		if obs != want {
			o.Fail("witness-unexpected-vm-fault", k, "%s: real=%s expected=%s %s", layer, obs, want, desc())
		}
	default:
		h := c.h
		if c.argKind == "junk" {
			h, _ = util.Uint160DecodeBytesBE(c.arg) // 20 random bytes are a hash
		}
		cw, info, _ := strings.Cut(obs, " ")
		judge(o, k, layer, cs.u, e, c.signers, h, cw, desc)
		if cw == "true" || cw == "false" {
			f := e.frames[0]
			wantInfo := fmt.Sprintf("i:%s,%s,%s,", hTok(f.hash), hTok(f.caller), hTok(e.frames[len(e.frames)-1].hash))
			if !strings.HasPrefix(info, wantInfo) {
				o.Fail("witness-getters-disagree", k, "%s: real=%s expected=%s<flags> %s", layer, info, wantInfo, desc())
			}
		}
	}
	o.Count(layer + ":shape=" + c.shape())
	nt, thr := 0, 0
	for _, ts := range c.trips {
		nt += len(ts)
		for _, t := range ts {
			thr += b01(t.throws)
		}
	}
	o.Count(fmt.Sprintf("%s:trips=%d", layer, nt))
	if thr > 0 {
		o.Count(layer + ":trip-throws-and-is-caught")
	}
	for _, in := range c.inner {
		if in {
			o.Count(layer + ":body-inside-CALL")
			break
		}
	}
	if c.leaf == mCWS {
		o.Count(layer + ":leaf-is-safe-method")
	}
	if len(c.hops) > 0 && !e.frames[0].rs {
		o.Count(layer + ":final-without-readstates")
	}
	o.Seen(line)
	if k%1000 == 0 {
		o.Sample(c.shape() + " " + line + " -> " + obs)
	}
}
