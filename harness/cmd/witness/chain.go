package main

import (
	"verif/harness/internal/hx"
	"verif/harness/internal/prng"
)

const (
	chainQuick    = 0
	chainThorough = 0
)

type chainState struct{}

func newChainState() (*chainState, error)                          { return &chainState{}, nil }
func runChainCase(o *hx.Out, k int, r *prng.R, ch *chainState) {}
