package main

// Layer (ii): System.Runtime.CheckWitness executed inside contracts deployed on a pkg/neotest chain.
//
// Four copies of one hand-assembled proxy contract are deployed (P0 without groups, P1 group g1, P2 groups
// g1+g2, P3 group g2). Methods:
//
//	cw(h)                         -> System.Runtime.CheckWitness(h)
//	call(target, method, flags, args) -> System.Contract.Call
//	dyn(script, flags, args)      -> System.Runtime.LoadScript
//	onNEP17Payment(from, amount, data): if data != null { Notify("w", [CheckWitness(data)]) }
//
// A cell is a call chain  entry script -> hop1 -> ... -> hopN (N <= 3), every hop a contract, a dynamic
// script, or (last hop only) native GAS calling onNEP17Payment of a proxy (GAS.transfer of amount 0 sent by
// the previous frame), the call flags of every hop, a signer list and the checked hash. The cell is executed
// either in a test VM of the chain (any signer list) or as a real signed transaction in a new block
// (signers = validator + funded accounts). The model gets the frames the harness derives from the chain
// description alone.

import (
	"errors"
	"fmt"
	"strings"
	"testing"

	"github.com/nspcc-dev/neo-go/pkg/core"
	"github.com/nspcc-dev/neo-go/pkg/core/native/nativenames"
	"github.com/nspcc-dev/neo-go/pkg/core/state"
	"github.com/nspcc-dev/neo-go/pkg/core/transaction"
	"github.com/nspcc-dev/neo-go/pkg/crypto/hash"
	"github.com/nspcc-dev/neo-go/pkg/crypto/keys"
	"github.com/nspcc-dev/neo-go/pkg/io"
	"github.com/nspcc-dev/neo-go/pkg/neotest"
	"github.com/nspcc-dev/neo-go/pkg/neotest/chain"
	"github.com/nspcc-dev/neo-go/pkg/smartcontract"
	"github.com/nspcc-dev/neo-go/pkg/smartcontract/callflag"
	"github.com/nspcc-dev/neo-go/pkg/smartcontract/manifest"
	"github.com/nspcc-dev/neo-go/pkg/smartcontract/nef"
	"github.com/nspcc-dev/neo-go/pkg/smartcontract/trigger"
	"github.com/nspcc-dev/neo-go/pkg/util"
	"github.com/nspcc-dev/neo-go/pkg/vm/emit"
	"github.com/nspcc-dev/neo-go/pkg/vm/opcode"
	"github.com/nspcc-dev/neo-go/pkg/vm/stackitem"
	"github.com/nspcc-dev/neo-go/pkg/vm/vmstate"
	"github.com/nspcc-dev/neo-go/pkg/wallet"
	"go.uber.org/zap"

	"verif/harness/internal/hx"
	"verif/harness/internal/prng"
)

const (
	chainQuick    = 3000
	chainThorough = 60000
)

// ---- testing.TB shim --------------------------------------------------------

type tbFail struct{ msg string }

type tb struct {
	testing.TB
	cleanups []func()
	lastErr  string
}

func (t *tb) Helper()                   {}
func (t *tb) Name() string              { return "witness-harness" }
func (t *tb) Logf(string, ...any)       {}
func (t *tb) Log(...any)                {}
func (t *tb) Errorf(f string, a ...any) { t.lastErr = fmt.Sprintf(f, a...) }
func (t *tb) Error(a ...any)            { t.lastErr = fmt.Sprint(a...) }
func (t *tb) Fatalf(f string, a ...any) { panic(tbFail{fmt.Sprintf(f, a...)}) }
func (t *tb) Fatal(a ...any)            { panic(tbFail{fmt.Sprint(a...)}) }
func (t *tb) FailNow()                  { panic(tbFail{t.lastErr}) }
func (t *tb) Fail()                     {}
func (t *tb) Failed() bool              { return t.lastErr != "" }
func (t *tb) Cleanup(f func())          { t.cleanups = append(t.cleanups, f) }
func (t *tb) Setenv(string, string)     {}
func (t *tb) Skip(...any)               {}
func (t *tb) Skipf(string, ...any)      {}
func (t *tb) SkipNow()                  {}
func (t *tb) Skipped() bool             { return false }
func (t *tb) TempDir() string           { return "/tmp/witness-harness" }

// ---- chain state -----------------------------------------------------------------

type proxy struct {
	hash   util.Uint160
	groups []*keys.PublicKey
}

type chainState struct {
	t        *tb
	bc       *core.Blockchain
	e        *neotest.Executor
	proxies  []proxy
	gas      util.Uint160
	accs     []neotest.Signer // funded single-signature accounts
	u        *universe
	accounts []util.Uint160 // accounts signers are drawn from in test-VM mode
}

func groupPriv(i int) *keys.PrivateKey {
	b := make([]byte, 32)
	b[31] = byte(i)
	b[0] = 0x11
	p, err := keys.NewPrivateKeyFromBytes(b)
	if err != nil {
		panic(err)
	}
	return p
}

func accountPriv(i int) *keys.PrivateKey {
	b := make([]byte, 32)
	b[31] = byte(i)
	b[0] = 0x22
	p, err := keys.NewPrivateKeyFromBytes(b)
	if err != nil {
		panic(err)
	}
	return p
}

// proxyContract assembles the NEF and manifest of one proxy.
func proxyContract(sender util.Uint160, name string, groupIdx []int) *neotest.Contract {
	w := io.NewBufBinWriter()
	offCW := w.Len()
	emit.Syscall(w.BinWriter, "System.Runtime.CheckWitness")
	emit.Opcodes(w.BinWriter, opcode.RET)
	offCall := w.Len()
	emit.Syscall(w.BinWriter, "System.Contract.Call")
	emit.Opcodes(w.BinWriter, opcode.RET)
	offDyn := w.Len()
	emit.Syscall(w.BinWriter, "System.Runtime.LoadScript")
	emit.Opcodes(w.BinWriter, opcode.RET)
	offPay := w.Len()
	emit.Opcodes(w.BinWriter, opcode.DROP, opcode.DROP, opcode.DUP, opcode.ISNULL)
	emit.Instruction(w.BinWriter, opcode.JMPIFNOT, []byte{4})
	emit.Opcodes(w.BinWriter, opcode.DROP, opcode.RET)
	emit.Syscall(w.BinWriter, "System.Runtime.CheckWitness")
	emit.Opcodes(w.BinWriter, opcode.PUSH1, opcode.PACK)
	emit.String(w.BinWriter, "w")
	emit.Syscall(w.BinWriter, "System.Runtime.Notify")
	emit.Opcodes(w.BinWriter, opcode.RET)
	ne, err := nef.NewFile(w.Bytes())
	if err != nil {
		panic(err)
	}
	m := manifest.NewManifest(name)
	par := func(n string, t smartcontract.ParamType) manifest.Parameter { return manifest.NewParameter(n, t) }
	m.ABI.Methods = []manifest.Method{
		{Name: "cw", Offset: offCW, Parameters: []manifest.Parameter{par("h", smartcontract.ByteArrayType)}, ReturnType: smartcontract.BoolType},
		{Name: "call", Offset: offCall, Parameters: []manifest.Parameter{par("target", smartcontract.Hash160Type), par("method", smartcontract.StringType),
			par("flags", smartcontract.IntegerType), par("args", smartcontract.ArrayType)}, ReturnType: smartcontract.AnyType},
		{Name: "dyn", Offset: offDyn, Parameters: []manifest.Parameter{par("script", smartcontract.ByteArrayType), par("flags", smartcontract.IntegerType),
			par("args", smartcontract.ArrayType)}, ReturnType: smartcontract.AnyType},
		{Name: manifest.MethodOnNEP17Payment, Offset: offPay, Parameters: []manifest.Parameter{par("from", smartcontract.AnyType),
			par("amount", smartcontract.IntegerType), par("data", smartcontract.AnyType)}, ReturnType: smartcontract.VoidType},
	}
	m.ABI.Events = []manifest.Event{{Name: "w", Parameters: []manifest.Parameter{par("r", smartcontract.BoolType)}}}
	m.Permissions = []manifest.Permission{*manifest.NewPermission(manifest.PermissionWildcard)}
	h := state.CreateContractHash(sender, ne.Checksum, name)
	for _, gi := range groupIdx {
		p := groupPriv(gi)
		m.Groups = append(m.Groups, manifest.Group{PublicKey: p.PublicKey(), Signature: p.Sign(h.BytesBE())})
	}
	return &neotest.Contract{Hash: h, NEF: ne, Manifest: m}
}

func newChainState() (cs *chainState, err error) {
	t := &tb{}
	defer func() {
		if r := recover(); r != nil {
			err = fmt.Errorf("setup: %v", r)
		}
	}()
	bc, validator := chain.NewSingleWithOptions(t, &chain.Options{Logger: zap.NewNop()})
	e := neotest.NewExecutor(t, bc, validator, validator)
	cs = &chainState{t: t, bc: bc, e: e, gas: e.NativeHash(t, nativenames.Gas)}
	for i, gi := range [][]int{nil, {1}, {1, 2}, {2}} {
		c := proxyContract(validator.ScriptHash(), fmt.Sprintf("proxy%d", i), gi)
		e.DeployContract(t, c, nil)
		p := proxy{hash: c.Hash}
		for _, g := range gi {
			p.groups = append(p.groups, groupPriv(g).PublicKey())
		}
		cs.proxies = append(cs.proxies, p)
	}
	// funded accounts with deterministic keys
	for i := 1; i <= 3; i++ {
		acc := wallet.NewAccountFromPrivateKey(accountPriv(i))
		s := neotest.NewSingleSigner(acc)
		tx := e.NewTx(t, []neotest.Signer{validator}, cs.gas, "transfer", validator.ScriptHash(), s.ScriptHash(), int64(1000_0000_0000), nil)
		e.AddNewBlock(t, tx)
		e.CheckHalt(t, tx.Hash())
		cs.accs = append(cs.accs, s)
	}
	cs.u = &universe{keys: []*keys.PublicKey{groupPriv(1).PublicKey(), groupPriv(2).PublicKey(), groupPriv(3).PublicKey()}}
	for _, p := range cs.proxies {
		cs.u.hashes = append(cs.u.hashes, p.hash)
	}
	cs.u.hashes = append(cs.u.hashes, cs.gas)
	for _, a := range cs.accs {
		cs.accounts = append(cs.accounts, a.ScriptHash())
	}
	cs.accounts = append(cs.accounts, cs.u.hashes...)
	return cs, nil
}

// ---- cells --------------------------------------------------------------------

const (
	hopContract = iota
	hopDynamic
	hopNative // GAS.transfer(prev, proxy, 0, h) -> proxy.onNEP17Payment ; last hop only
)

type hop struct {
	kind  int
	proxy int               // hopContract, hopNative
	flags callflag.CallFlag // requested flags of the call that creates this hop
}

type chainCell struct {
	hops    []hop
	signers []signer
	h       util.Uint160
	realTx  bool
	nAccs   int    // realTx: number of funded accounts that sign after the validator
	byKey   []byte // when set: CheckWitness is given this public key (whose account is h) instead of h
}

// arg is the byte string handed to System.Runtime.CheckWitness.
func (c *chainCell) arg() []byte {
	if c.byKey != nil {
		return c.byKey
	}
	return c.h.BytesBE()
}

func checkScript(arg []byte) []byte {
	w := io.NewBufBinWriter()
	emit.Bytes(w.BinWriter, arg)
	emit.Syscall(w.BinWriter, "System.Runtime.CheckWitness")
	emit.Opcodes(w.BinWriter, opcode.RET)
	return w.Bytes()
}

// bodyScript: what a script frame (entry or dynamic script) at position k executes. Position 0 is the entry.
func (cs *chainState) bodyScript(c *chainCell, k int) []byte {
	if k == len(c.hops) {
		return checkScript(c.arg())
	}
	nx := c.hops[k]
	w := io.NewBufBinWriter()
	switch nx.kind {
	case hopContract:
		m, args := cs.bodyCall(c, k+1)
		emit.AppCall(w.BinWriter, cs.proxies[nx.proxy].hash, m, nx.flags, args...)
	case hopDynamic:
		emit.Array(w.BinWriter)
		emit.Int(w.BinWriter, int64(nx.flags))
		emit.Bytes(w.BinWriter, cs.bodyScript(c, k+1))
		emit.Syscall(w.BinWriter, "System.Runtime.LoadScript")
	case hopNative:
		// GAS.transfer(this script, proxy, 0, h)
		emit.Bytes(w.BinWriter, c.arg())
		emit.Int(w.BinWriter, 0)
		emit.Bytes(w.BinWriter, cs.proxies[nx.proxy].hash.BytesBE())
		emit.Syscall(w.BinWriter, "System.Runtime.GetExecutingScriptHash")
		emit.Int(w.BinWriter, 4)
		emit.Opcodes(w.BinWriter, opcode.PACK)
		emit.AppCallNoArgs(w.BinWriter, cs.gas, "transfer", nx.flags)
	}
	emit.Opcodes(w.BinWriter, opcode.RET)
	return w.Bytes()
}

// bodyCall: the method and arguments with which the contract hop at position k (1-based) is entered.
func (cs *chainState) bodyCall(c *chainCell, k int) (string, []any) {
	if k == len(c.hops) {
		return "cw", []any{c.arg()}
	}
	me := cs.proxies[c.hops[k-1].proxy].hash
	nx := c.hops[k]
	switch nx.kind {
	case hopContract:
		m, args := cs.bodyCall(c, k+1)
		return "call", []any{cs.proxies[nx.proxy].hash, m, int64(nx.flags), args}
	case hopDynamic:
		return "dyn", []any{cs.bodyScript(c, k+1), int64(nx.flags), []any{}}
	default:
		return "call", []any{cs.gas, "transfer", int64(nx.flags), []any{me, cs.proxies[nx.proxy].hash, int64(0), c.arg()}}
	}
}

// env derives the frames from the chain description.
func (cs *chainState) env(c *chainCell, entry []byte) *env {
	fr := []frame{{hash: hash.Hash160(entry), rs: true}}
	flags := []callflag.CallFlag{callflag.All}
	for k, hp := range c.hops {
		prev := fr[len(fr)-1]
		pf := flags[len(flags)-1]
		switch hp.kind {
		case hopContract:
			f := pf & hp.flags
			fr = append(fr, frame{hash: cs.proxies[hp.proxy].hash, caller: prev.hash, rs: f&callflag.ReadStates != 0})
			flags = append(flags, f)
		case hopDynamic:
			f := pf & hp.flags & callflag.ReadOnly
			fr = append(fr, frame{hash: hash.Hash160(cs.bodyScript(c, k+1)), caller: prev.hash, rs: f&callflag.ReadStates != 0})
			flags = append(flags, f)
		case hopNative:
			f := pf & hp.flags
			fr = append(fr, frame{hash: cs.gas, caller: prev.hash, rs: f&callflag.ReadStates != 0})
			fr = append(fr, frame{hash: cs.proxies[hp.proxy].hash, caller: cs.gas, rs: f&callflag.ReadStates != 0})
			flags = append(flags, f, f)
		}
	}
	e := &env{}
	for i := len(fr) - 1; i >= 0; i-- {
		e.frames = append(e.frames, fr[i])
	}
	for _, p := range cs.proxies {
		e.contracts = append(e.contracts, contractInfo{hash: p.hash, groups: p.groups})
	}
	e.contracts = append(e.contracts, contractInfo{hash: cs.gas})
	return e
}

var finalFlags = []callflag.CallFlag{callflag.All, callflag.ReadOnly, callflag.AllowCall, callflag.NoneFlag, callflag.ReadStates,
	callflag.WriteStates | callflag.AllowNotify, callflag.All &^ callflag.ReadStates}

func (cs *chainState) genCell(r *prng.R) *chainCell {
	c := &chainCell{}
	n := []int{0, 1, 1, 2, 2, 2, 3, 3, 3}[r.Intn(9)]
	native := n > 0 && r.Chance(1, 6)
	for k := 0; k < n; k++ {
		last := k == n-1
		hp := hop{flags: callflag.All}
		switch {
		case last && native:
			hp.kind = hopNative
			hp.proxy = r.Intn(len(cs.proxies))
			if r.Chance(1, 4) {
				hp.flags = callflag.States | callflag.AllowCall | callflag.AllowNotify
			}
		case r.Chance(1, 4) && !native:
			// a dynamic script drops the flags to ReadOnly, which a later GAS.transfer cannot live with
			hp.kind = hopDynamic
		default:
			hp.kind = hopContract
			hp.proxy = r.Intn(len(cs.proxies))
		}
		if hp.kind != hopNative {
			switch {
			case last:
				hp.flags = finalFlags[r.Intn(len(finalFlags))]
				if r.Chance(1, 2) {
					hp.flags = callflag.All
				}
			case !native && r.Chance(1, 3):
				hp.flags = callflag.ReadOnly
			}
		}
		c.hops = append(c.hops, hp)
	}
	c.realTx = r.Chance(1, 6)
	if c.realTx {
		c.nAccs = r.Intn(3)
		ids := []util.Uint160{cs.e.Validator.ScriptHash()}
		for i := 0; i < c.nAccs; i++ {
			ids = append(ids, cs.accs[i].ScriptHash())
		}
		for _, id := range ids {
			s := genSigner(r, cs.u, []util.Uint160{id})
			// a transaction that goes through block verification and storage must be decodable
			if s.scopes&0x80 != 0 {
				s.scopes = 0x80
			}
			s.scopes &= 0xf1
			for i := range s.rules {
				s.rules[i].action &= 1
			}
			c.signers = append(c.signers, s)
		}
	} else {
		ns := []int{1, 1, 2, 2, 3}[r.Intn(5)]
		for i := 0; i < ns; i++ {
			c.signers = append(c.signers, genSigner(r, cs.u, cs.accounts))
		}
	}
	switch {
	case r.Chance(3, 5):
		c.h = c.signers[r.Intn(len(c.signers))].account
	case r.Chance(1, 2) && n > 0:
		// a frame of the chain (the caller shortcut, or a contract that is not the caller)
		hp := c.hops[r.Intn(n)]
		switch hp.kind {
		case hopContract:
			c.h = cs.proxies[hp.proxy].hash
		case hopNative:
			c.h = cs.gas
		default:
			c.h = cs.accounts[r.Intn(len(cs.accounts))]
		}
	case r.Chance(1, 8):
		c.h = util.Uint160{} // the calling hash of the entry script
	default:
		c.h = cs.accounts[r.Intn(len(cs.accounts))]
	}
	for _, a := range cs.accs {
		if a.ScriptHash() == c.h && r.Chance(1, 3) {
			c.byKey = a.(neotest.SingleSigner).Account().PublicKey().Bytes()
		}
	}
	return c
}

func classifyFault(s string) string {
	switch {
	case strings.Contains(s, "missing ReadStates call flag"):
		return "err:noreadstates"
	case strings.Contains(s, "no valid signers"):
		return "err:nosigners"
	}
	return "fault:" + strings.ReplaceAll(s, " ", "_")
}

func boolItem(it stackitem.Item) (string, error) {
	if it == nil || it.Type() != stackitem.BooleanT {
		return "", errors.New("not a boolean")
	}
	b, err := it.TryBool()
	if err != nil {
		return "", err
	}
	return fmt.Sprint(b), nil
}

// outcome turns the VM state, result stack and notifications into an observation.
func (cs *chainState) outcome(c *chainCell, halted bool, fault string, stack []stackitem.Item, events []state.NotificationEvent) string {
	if !halted {
		return classifyFault(fault)
	}
	if len(stack) != 1 {
		return fmt.Sprintf("bad-stack:%d", len(stack))
	}
	top, err := boolItem(stack[0])
	if err != nil {
		return "bad-result:" + stack[0].Type().String()
	}
	n := len(c.hops)
	if n > 0 && c.hops[n-1].kind == hopNative {
		if top != "true" {
			return "transfer-failed"
		}
		var res []string
		for _, ev := range events {
			if ev.Name == "w" && ev.ScriptHash == cs.proxies[c.hops[n-1].proxy].hash {
				arr := ev.Item.Value().([]stackitem.Item)
				s, err := boolItem(arr[0])
				if err != nil {
					return "bad-event"
				}
				res = append(res, s)
			}
		}
		if len(res) != 1 {
			return fmt.Sprintf("events:%d", len(res))
		}
		return res[0]
	}
	return top
}

func (cs *chainState) runCell(c *chainCell, entry []byte) (obs string) {
	cs.t.lastErr = ""
	defer func() {
		if r := recover(); r != nil {
			if f, ok := r.(tbFail); ok {
				obs = "harness-fail:" + strings.ReplaceAll(f.msg, " ", "_")
				return
			}
			obs = "panic"
		}
	}()
	if !c.realTx {
		tx := transaction.New(entry, 0)
		tx.Signers = realSigners(c.signers)
		tx.ValidUntilBlock = cs.bc.BlockHeight() + 1
		ic, err := cs.bc.GetTestVM(trigger.Application, tx, nil)
		if err != nil {
			return "harness-fail:testvm"
		}
		defer ic.Finalize()
		ic.VM.LoadWithFlags(entry, callflag.All)
		err = ic.VM.Run()
		halted := err == nil && ic.VM.State() == vmstate.Halt
		fault := ""
		if err != nil {
			fault = err.Error()
		}
		var stack []stackitem.Item
		if halted {
			stack = ic.VM.Estack().ToArray()
		}
		return cs.outcome(c, halted, fault, stack, ic.Notifications)
	}
	e, t := cs.e, cs.t
	tx := e.PrepareInvocationNoSign(t, entry)
	tx.Signers = realSigners(c.signers)
	sgs := []neotest.Signer{e.Validator}
	for i := 0; i < c.nAccs; i++ {
		sgs = append(sgs, cs.accs[i])
	}
	neotest.AddNetworkFee(t, cs.bc, tx, sgs...)
	e.AddSystemFee(tx, -1)
	tx.SystemFee += 1_0000_0000
	for _, s := range sgs {
		if err := s.SignTx(cs.bc.GetConfig().Magic, tx); err != nil {
			return "harness-fail:sign"
		}
	}
	e.AddNewBlock(t, tx)
	aer := e.GetTxExecResult(t, tx.Hash())
	return cs.outcome(c, aer.VMState == vmstate.Halt, aer.FaultException, aer.Stack, aer.Events)
}

func (c *chainCell) shape() string {
	var sb strings.Builder
	sb.WriteString("E")
	for _, h := range c.hops {
		switch h.kind {
		case hopContract:
			sb.WriteString(">C")
		case hopDynamic:
			sb.WriteString(">D")
		default:
			sb.WriteString(">N>C")
		}
	}
	return sb.String()
}

func runChainCase(o *hx.Out, k int, r *prng.R, cs *chainState) {
	o.Case(k)
	c := cs.genCell(r)
	entry := cs.bodyScript(c, 0)
	e := cs.env(c, entry)
	obs := cs.runCell(c, entry)
	line := fmt.Sprintf("cw %s %s %s", hTok(c.h), e.tok(), signersTok(c.signers))
	o.Line(line, obs)
	layer := "chain-vm"
	if c.realTx {
		layer = "chain-tx"
	}
	judge(o, k, layer, cs.u, e, c.signers, c.h, obs, func() string { return c.shape() + " " + line })
	o.Count(layer + ":shape=" + c.shape())
	if c.byKey != nil {
		o.Count(layer + ":argument-is-public-key")
	}
	if len(c.hops) > 0 && !e.frames[0].rs {
		o.Count(layer + ":final-without-readstates")
	}
	o.Seen(line)
	if k%1000 == 0 {
		o.Sample(c.shape() + " " + line + " -> " + obs)
	}
}
