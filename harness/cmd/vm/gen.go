package main

import (
	"github.com/nspcc-dev/neo-go/pkg/vm/opcode"

	"verif/harness/internal/prng"
)

// generate builds case k. (raw random bytes for now)
func generate(r *prng.R, k int, thorough bool) *caseProg {
	n := r.Range(1, 40)
	b := r.Bytes(n)
	_ = opcode.RET
	return &caseProg{scripts: [][]byte{b}, gasLimit: 100000, base: 30, kind: "raw"}
}
