package main

// gen.go: the case generator.
//
// Structured cases are generated ONLINE: a first VM executes a buffer that initially holds only
// RET fillers; before every step, if the bytes at the next instruction pointer were not written
// yet, an instruction that is well-typed for the CURRENT REAL STATE (actual item types, sizes,
// aliasing, slot contents, open TRY blocks) is chosen and written there. Code is laid out in
// 64-byte chunks joined by JMP_L; function bodies, CATCH/FINALLY handlers and continuations get
// fresh chunks; scripts loaded through the harness SYSCALL are generated the same way in their own
// buffers. The result is a set of ordinary scripts, which the runner (run.go) then executes from
// scratch on a fresh VM with all oracles. Every executed byte was written before it was executed
// and is never rewritten, so the second run repeats the first one (unless the gas limit is
// tighter or the scripts were mutated afterwards, both on purpose).
//
// Other kinds: mutated structured scripts (byte flips, shifted jump operands, truncation) and raw
// random byte strings.

import (
	"encoding/binary"
	"math/big"

	"github.com/nspcc-dev/neo-go/pkg/smartcontract/callflag"
	"github.com/nspcc-dev/neo-go/pkg/smartcontract/scparser"
	"github.com/nspcc-dev/neo-go/pkg/vm"
	"github.com/nspcc-dev/neo-go/pkg/vm/opcode"
	"github.com/nspcc-dev/neo-go/pkg/vm/stackitem"
	"github.com/nspcc-dev/neo-go/pkg/vm/vmstate"

	"verif/harness/internal/prng"
)

const (
	chunk      = 64
	bufSize    = 64 * chunk
	maxScripts = 5
)

type gscript struct {
	buf     []byte
	written []bool
	free    int
	funcs   []int
	tryEnd  map[int]int // offset of a TRY_L -> its end chunk (0 = not allocated yet)
}

func newScript() *gscript {
	s := &gscript{buf: make([]byte, bufSize), written: make([]bool, bufSize), free: chunk, tryEnd: map[int]int{}}
	for i := range s.buf {
		s.buf[i] = byte(opcode.RET)
	}
	return s
}

func (s *gscript) alloc() int {
	if s.free+chunk > len(s.buf) {
		return -1
	}
	a := s.free
	s.free += chunk
	return a
}

type genWorld struct{ scripts []*gscript }

func (w *genWorld) script(i int) ([]byte, bool) {
	if i < 0 || i >= len(w.scripts) {
		return nil, false
	}
	return w.scripts[i].buf, true
}

type block struct {
	at, catchAt, finallyAt, endAt int
	state                         int // 0 body, 1 catch, 2 finally
}

type gframe struct {
	s         int
	fn        int // offset the context started at
	isCall    bool
	dynamic   bool // loaded with LoadDynamicScript: at most one result
	blocks    []block
	remaining int
	fresh     bool
}

// insn is one instruction of a planned sequence; its bytes may depend on where it lands.
type insn struct {
	n int
	f func(ip int) []byte
}

func fixed(b ...byte) insn { return insn{len(b), func(int) []byte { return b }} }

func opI(o opcode.Opcode, operand ...byte) insn {
	return fixed(append([]byte{byte(o)}, operand...)...)
}

func relI(o opcode.Opcode, target int) insn { // long jump-like instruction with one 4-byte offset
	return insn{5, func(ip int) []byte { return append([]byte{byte(o)}, le32(target-ip)...) }}
}

func pushIntI(n int64) insn {
	switch {
	case n == -1:
		return opI(opcode.PUSHM1)
	case n >= 0 && n <= 16:
		return opI(opcode.Opcode(int(opcode.PUSH0) + int(n)))
	case n >= -128 && n < 128:
		return opI(opcode.PUSHINT8, byte(n))
	case n >= -32768 && n < 32768:
		var b [2]byte
		binary.LittleEndian.PutUint16(b[:], uint16(n))
		return opI(opcode.PUSHINT16, b[:]...)
	default:
		var b [8]byte
		binary.LittleEndian.PutUint64(b[:], uint64(n))
		return opI(opcode.PUSHINT64, b[:]...)
	}
}

func pushDataI(b []byte) insn {
	return fixed(append([]byte{byte(opcode.PUSHDATA1), byte(len(b))}, b...)...)
}

type gen struct {
	r           *prng.R
	w           *genWorld
	v           *vm.VM
	frames      []gframe
	budget      int
	allowCycles bool
	wild        bool // allow instructions that are likely to fault (limits, overflow)
	pending     []insn
	pendS       int
	pendIP      int
	idx         map[*byte]int
	steps       int
	lastCall    bool // the last executed instruction was CALL/CALL_L/CALLA
	lastDyn     bool // … was the harness SYSCALL loading a dynamic script
}

func (g *gen) activeFn(s, fn int) bool {
	for i := range g.frames {
		if g.frames[i].s == s && g.frames[i].fn == fn {
			return true
		}
	}
	return false
}

func (g *gen) activeScript(s int) bool {
	for i := range g.frames {
		if g.frames[i].s == s {
			return true
		}
	}
	return false
}

func (g *gen) sidx(c *vm.Context) int {
	p := c.Program()
	return g.idx[&p[0]]
}

func (g *gen) addScript() int {
	s := newScript()
	g.w.scripts = append(g.w.scripts, s)
	g.idx[&s.buf[0]] = len(g.w.scripts) - 1
	return len(g.w.scripts) - 1
}

// syncFrames aligns the shadow frames with the real invocation stack.
func (g *gen) syncFrames() {
	is := g.v.Istack()
	for len(g.frames) > len(is) {
		g.frames = g.frames[:len(g.frames)-1]
	}
	for len(g.frames) < len(is) {
		c := is[len(g.frames)]
		rem := g.r.Range(3, 24)
		if len(g.frames) == 0 {
			rem = 1 << 30 // the entry context runs until the budget is used up
		}
		g.frames = append(g.frames, gframe{s: g.sidx(c), fn: c.NextIP(), isCall: g.lastCall, dynamic: g.lastDyn, remaining: rem, fresh: true})
	}
}

func (g *gen) syncBlocks(f *gframe, ip int) {
	for i := len(f.blocks) - 1; i >= 0; i-- {
		b := &f.blocks[i]
		switch ip {
		case b.catchAt:
			b.state = 1
			f.blocks = f.blocks[:i+1]
			return
		case b.finallyAt:
			b.state = 2
			f.blocks = f.blocks[:i+1]
			return
		case b.endAt:
			f.blocks = f.blocks[:i]
			return
		}
	}
}

// top returns the current evaluation stack, top first.
func (g *gen) top() []stackitem.Item {
	st := g.v.Estack()
	out := make([]stackitem.Item, st.Len())
	for i := range out {
		out[i] = st.Peek(i).Item()
	}
	return out
}

func slotItems(s *vm.Slot) []stackitem.Item {
	if s == nil || *s == nil {
		return nil
	}
	return []stackitem.Item(*s)
}

func isSeq(it stackitem.Item) bool {
	switch it.(type) {
	case *stackitem.Array, *stackitem.Struct:
		return true
	}
	return false
}

func isCompound(it stackitem.Item) bool {
	_, ok := children(it)
	return ok
}

func seqLen(it stackitem.Item) int {
	ch, _ := children(it)
	if _, m := it.(*stackitem.Map); m {
		return len(ch) / 2
	}
	return len(ch)
}

// plan builds an instruction sequence against a virtual copy of the current stack.
type plan struct {
	g   *gen
	vs  []stackitem.Item // top first
	ins []insn
}

func (p *plan) emit(i insn)                 { p.ins = append(p.ins, i) }
func (p *plan) pushV(it stackitem.Item)      { p.vs = append([]stackitem.Item{it}, p.vs...) }
func (p *plan) popV(n int)                  { p.vs = p.vs[min(n, len(p.vs)):] }
func (p *plan) op(o opcode.Opcode, b ...byte) { p.emit(opI(o, b...)) }

type source struct {
	kind int // 0 stack position, 1 local, 2 arg, 3 static
	pos  int
	it   stackitem.Item
}

func (p *plan) sources(filter func(stackitem.Item) bool) []source {
	var out []source
	for i, it := range p.vs {
		if i < 12 && filter(it) {
			out = append(out, source{0, i, it})
		}
	}
	c := p.g.v.Context()
	for k, sl := range []*vm.Slot{c.LocalsSlot(), c.ArgumentsSlot(), c.StaticsSlot()} {
		for i, it := range slotItems(sl) {
			if it != nil && filter(it) {
				out = append(out, source{k + 1, i, it})
			}
		}
	}
	return out
}

func (p *plan) bring(s source) {
	switch s.kind {
	case 0:
		switch s.pos {
		case 0:
			p.op(opcode.DUP)
		case 1:
			p.op(opcode.OVER)
		default:
			p.emit(pushIntI(int64(s.pos)))
			p.op(opcode.PICK)
		}
	default:
		base := []opcode.Opcode{opcode.LDLOC0, opcode.LDARG0, opcode.LDSFLD0}[s.kind-1]
		gen := []opcode.Opcode{opcode.LDLOC, opcode.LDARG, opcode.LDSFLD}[s.kind-1]
		if s.pos <= 6 && p.g.r.Chance(3, 4) {
			p.op(opcode.Opcode(int(base) + s.pos))
		} else {
			p.op(gen, byte(s.pos))
		}
	}
	p.pushV(s.it)
}

var bigInts = []string{
	"57896044618658097711785492504343953926634992332820282019728792003956564819967",  // 2^255-1
	"-57896044618658097711785492504343953926634992332820282019728792003956564819968", // -2^255
	"340282366920938463463374607431768211456",                                        // 2^128
	"9223372036854775807", "-9223372036854775808", "18446744073709551616",
}

func pushBigI(s string) (insn, stackitem.Item) {
	n, _ := new(big.Int).SetString(s, 10)
	// two's complement little endian, 32 bytes
	m := new(big.Int).Set(n)
	if m.Sign() < 0 {
		m.Add(m, new(big.Int).Lsh(big.NewInt(1), 256))
	}
	be := m.FillBytes(make([]byte, 32))
	le := make([]byte, 32)
	for i := range be {
		le[31-i] = be[i]
	}
	return opI(opcode.PUSHINT256, le...), stackitem.NewBigInteger(n)
}

// fresh pushes a new primitive.
func (p *plan) fresh() stackitem.Item {
	r := p.g.r
	switch r.Intn(12) {
	case 0:
		p.op(opcode.PUSHT)
		p.pushV(stackitem.NewBool(true))
	case 1:
		p.op(opcode.PUSHNULL)
		p.pushV(stackitem.Null{})
	case 2, 3:
		b := r.Bytes(r.Intn(6))
		p.emit(pushDataI(b))
		p.pushV(stackitem.NewByteArray(b))
	case 4:
		if p.g.wild || r.Chance(1, 8) {
			i, it := pushBigI(bigInts[r.Intn(len(bigInts))])
			p.emit(i)
			p.pushV(it)
			break
		}
		fallthrough
	default:
		n := int64(r.Intn(7))
		if r.Chance(1, 8) {
			n = int64(r.Range(-200, 70000))
		}
		p.emit(pushIntI(n))
		p.pushV(stackitem.Make(n))
	}
	return p.vs[0]
}

// any pushes a fresh primitive, a new empty compound or a copy of an existing reference.
// avoid: a compound the value must not reach (cycle control), nil = no constraint.
func (p *plan) any(avoid stackitem.Item) stackitem.Item {
	r := p.g.r
	if r.Chance(1, 2) {
		srcs := p.sources(func(it stackitem.Item) bool {
			if avoid != nil && !p.g.allowCycles && reachesItem(it, avoid) {
				return false
			}
			return true
		})
		if len(srcs) > 0 {
			// prefer compounds: sharing is what the accounting is about
			var comp []source
			for _, s := range srcs {
				if isCompound(s.it) {
					comp = append(comp, s)
				}
			}
			if len(comp) > 0 && r.Chance(3, 4) {
				srcs = comp
			}
			s := srcs[r.Intn(len(srcs))]
			p.bring(s)
			return s.it
		}
	}
	if r.Chance(1, 4) {
		switch r.Intn(3) {
		case 0:
			p.op(opcode.NEWARRAY0)
			p.pushV(stackitem.NewArray(nil))
		case 1:
			p.op(opcode.NEWSTRUCT0)
			p.pushV(stackitem.NewStruct(nil))
		default:
			p.op(opcode.NEWMAP)
			p.pushV(stackitem.NewMap())
		}
		return p.vs[0]
	}
	return p.fresh()
}

func (p *plan) key() {
	r := p.g.r
	if r.Chance(1, 120) {
		// an invalid key: the VM must FAULT (validateMapKey / Map.Add), the model predicts it
		p.op([]opcode.Opcode{opcode.NEWARRAY0, opcode.NEWSTRUCT0, opcode.NEWMAP}[r.Intn(3)])
		p.pushV(stackitem.NewArray(nil))
		return
	}
	if r.Chance(1, 5) {
		b := []byte{byte('a' + r.Intn(3))}
		p.emit(pushDataI(b))
		p.pushV(stackitem.NewByteArray(b))
		return
	}
	n := int64(r.Intn(5))
	p.emit(pushIntI(n))
	p.pushV(stackitem.Make(n))
}

// keyOf pushes a key that is (mostly) present in map m.
func (p *plan) keyOf(m stackitem.Item) {
	mm, ok := m.(*stackitem.Map)
	if !ok || mm.Len() == 0 || p.g.r.Chance(1, 6) {
		p.key()
		return
	}
	el := mm.Value().([]stackitem.MapElement)
	switch k := el[p.g.r.Intn(len(el))].Key.(type) {
	case *stackitem.BigInteger:
		if k.Big().IsInt64() {
			p.emit(pushIntI(k.Big().Int64()))
			p.pushV(k)
			return
		}
	case *stackitem.ByteArray:
		if b := k.Value().([]byte); len(b) < 30 {
			p.emit(pushDataI(b))
			p.pushV(k)
			return
		}
	case stackitem.Bool:
		if bool(k) {
			p.op(opcode.PUSHT)
		} else {
			p.op(opcode.PUSHF)
		}
		p.pushV(k)
		return
	}
	p.key()
}

func (p *plan) compound(filter func(stackitem.Item) bool) (stackitem.Item, bool) {
	// sometimes consume the reference on top of the stack itself (possibly the last one)
	if len(p.vs) > 0 && isCompound(p.vs[0]) && filter(p.vs[0]) && p.g.r.Chance(1, 4) {
		return p.vs[0], true
	}
	srcs := p.sources(func(it stackitem.Item) bool { return isCompound(it) && filter(it) })
	if len(srcs) == 0 {
		return nil, false
	}
	s := srcs[p.g.r.Intn(len(srcs))]
	p.bring(s)
	return s.it, true
}

var convTypes = []stackitem.Type{stackitem.BooleanT, stackitem.IntegerT, stackitem.ByteArrayT, stackitem.BufferT, stackitem.ArrayT, stackitem.StructT, stackitem.MapT}

// choose plans the next instruction sequence for the current real state.
func (g *gen) choose(f *gframe) []insn {
	r := g.r
	v := g.v
	ctx := v.Context()
	p := &plan{g: g, vs: g.top()}
	refs := v.VerifRefs()
	s := g.w.scripts[f.s]
	n := len(p.vs)

	if f.fresh {
		f.fresh = false
		if ctx.LocalsSlot().Size() == 0 && ctx.ArgumentsSlot().Size() == 0 && *ctx.LocalsSlot() == nil && *ctx.ArgumentsSlot() == nil && r.Chance(3, 4) {
			a := r.Intn(min(n, 3) + 1)
			l := r.Intn(4)
			if a+l == 0 {
				l = 1
			}
			p.op(opcode.INITSLOT, byte(l), byte(a))
			return p.ins
		}
	}
	if *ctx.StaticsSlot() == nil && !f.isCall && r.Chance(1, 5) {
		p.op(opcode.INITSSLOT, byte(r.Range(1, 4)))
		return p.ins
	}
	grow := refs < 1200 || (g.wild && r.Chance(1, 2))

	if g.allowCycles && r.Chance(1, 5) {
		if ins := g.cyclic(p, grow); len(ins) > 0 {
			return ins
		}
		p.ins, p.vs = nil, g.top()
	}
	for try := 0; try < 20; try++ {
		p.ins, p.vs = nil, g.top()
		switch r.Weighted([]int{10, 12, 12, 8, 6, 10, 8, 9, 6, 5, 9, 3, 4, 3, 2}) {
		case 0: // push something
			if !grow {
				continue
			}
			p.any(nil)
		case 1: // append
			if !grow {
				continue
			}
			c, ok := p.compound(isSeq)
			if !ok {
				continue
			}
			p.any(c)
			p.op(opcode.APPEND)
		case 2: // setitem
			c, ok := p.compound(func(it stackitem.Item) bool { return seqLen(it) > 0 || !isSeq(it) })
			if !ok {
				continue
			}
			if isSeq(c) {
				i := r.Intn(seqLen(c))
				if r.Chance(1, 30) {
					i = seqLen(c)
				}
				p.emit(pushIntI(int64(i)))
				p.pushV(stackitem.Make(i))
			} else {
				if !grow {
					continue
				}
				if r.Bool() {
					p.keyOf(c)
				} else {
					p.key()
				}
			}
			p.any(c)
			p.op(opcode.SETITEM)
		case 3: // remove
			c, ok := p.compound(func(it stackitem.Item) bool { return seqLen(it) > 0 })
			if !ok {
				continue
			}
			if isSeq(c) {
				p.emit(pushIntI(int64(r.Intn(seqLen(c)))))
			} else {
				p.keyOf(c)
			}
			p.op(opcode.REMOVE)
		case 4: // pickitem
			if !grow {
				continue
			}
			c, ok := p.compound(func(it stackitem.Item) bool { return seqLen(it) > 0 })
			if !ok {
				continue
			}
			if isSeq(c) {
				i := r.Intn(seqLen(c))
				if r.Chance(1, 25) {
					i = seqLen(c) + r.Intn(2)
				}
				p.emit(pushIntI(int64(i)))
			} else {
				p.keyOf(c)
			}
			p.op(opcode.PICKITEM)
		case 5: // unary collection instruction on a reference
			c, ok := p.compound(func(stackitem.Item) bool { return true })
			if !ok {
				continue
			}
			_, isMap := c.(*stackitem.Map)
			l := seqLen(c)
			switch r.Intn(9) {
			case 0:
				p.op(opcode.CLEARITEMS)
			case 1:
				if isMap || l == 0 {
					continue
				}
				p.op(opcode.POPITEM)
			case 2:
				if isMap {
					continue
				}
				p.op(opcode.REVERSEITEMS)
			case 3:
				if refs+2*l > 1900 && !g.wild {
					continue
				}
				p.op(opcode.UNPACK)
			case 4:
				if !isMap {
					continue
				}
				p.op(opcode.KEYS)
			case 5:
				if refs+l > 1900 && !g.wild {
					continue
				}
				p.op(opcode.VALUES)
			case 6:
				p.op(opcode.SIZE)
			case 7:
				if isMap {
					continue
				}
				t := stackitem.ArrayT
				if _, a := c.(*stackitem.Array); a {
					t = stackitem.StructT
				}
				if r.Chance(1, 4) {
					t = c.Type()
				}
				if refs+l > 1900 && !g.wild {
					continue
				}
				p.op(opcode.CONVERT, byte(t))
			default:
				p.key()
				p.op(opcode.HASKEY)
			}
		case 6: // new compound from the stack / of a size
			if !grow {
				continue
			}
			switch r.Intn(7) {
			case 0, 1:
				k := r.Intn(min(n, 5) + 1)
				p.emit(pushIntI(int64(k)))
				p.op([]opcode.Opcode{opcode.PACK, opcode.PACKSTRUCT}[r.Intn(2)])
			case 2:
				k := r.Intn(4)
				for i := 0; i < k; i++ {
					p.any(nil)
					p.key()
				}
				p.emit(pushIntI(int64(k)))
				p.op(opcode.PACKMAP)
			case 3:
				sz := r.Intn(5)
				if g.wild && r.Chance(1, 10) {
					sz = r.Range(500, 2100)
				}
				p.emit(pushIntI(int64(sz)))
				p.op([]opcode.Opcode{opcode.NEWARRAY, opcode.NEWSTRUCT}[r.Intn(2)])
			case 4:
				p.emit(pushIntI(int64(r.Intn(5))))
				p.op(opcode.NEWARRAYT, byte(convTypes[r.Intn(len(convTypes))]))
			default:
				p.op([]opcode.Opcode{opcode.NEWARRAY0, opcode.NEWSTRUCT0, opcode.NEWMAP}[r.Intn(3)])
			}
		case 7: // stack shuffling
			ops := []struct {
				o    opcode.Opcode
				need int
			}{{opcode.DUP, 1}, {opcode.OVER, 2}, {opcode.SWAP, 2}, {opcode.ROT, 3}, {opcode.TUCK, 2}, {opcode.NIP, 2}, {opcode.DROP, 1},
				{opcode.REVERSE3, 3}, {opcode.REVERSE4, 4}, {opcode.DEPTH, 0}, {opcode.PICK, 1}, {opcode.ROLL, 1}, {opcode.XDROP, 1}, {opcode.REVERSEN, 1}, {opcode.CLEAR, 40}}
			c := ops[r.Intn(len(ops))]
			if c.o == opcode.CLEAR && r.Chance(1, 8) {
				c.need = 0
			}
			if n < c.need || (!grow && (c.o == opcode.DUP || c.o == opcode.OVER || c.o == opcode.TUCK || c.o == opcode.PICK)) {
				continue
			}
			switch c.o {
			case opcode.PICK, opcode.ROLL, opcode.XDROP:
				p.emit(pushIntI(int64(r.Intn(n))))
			case opcode.REVERSEN:
				p.emit(pushIntI(int64(r.Intn(n + 1))))
			}
			p.op(c.o)
		case 8: // store into / load from a slot
			type sl struct {
				ld, ldn, st, stn opcode.Opcode
				s                *vm.Slot
			}
			all := []sl{{opcode.LDLOC0, opcode.LDLOC, opcode.STLOC0, opcode.STLOC, ctx.LocalsSlot()},
				{opcode.LDARG0, opcode.LDARG, opcode.STARG0, opcode.STARG, ctx.ArgumentsSlot()},
				{opcode.LDSFLD0, opcode.LDSFLD, opcode.STSFLD0, opcode.STSFLD, ctx.StaticsSlot()}}
			c := all[r.Intn(3)]
			if c.s.Size() == 0 {
				continue
			}
			i := r.Intn(c.s.Size())
			store := r.Chance(3, 5)
			if store {
				if n == 0 || r.Chance(1, 3) {
					p.any(nil)
				}
			} else if !grow {
				continue
			}
			base, long := c.ld, c.ldn
			if store {
				base, long = c.st, c.stn
			}
			if i <= 6 && r.Chance(3, 4) {
				p.op(opcode.Opcode(int(base) + i))
			} else {
				p.op(long, byte(i))
			}
		case 9: // arithmetic / bytes / type tests on fresh or existing primitives
			g.arith(p, grow)
			if len(p.ins) == 0 {
				continue
			}
		case 10: // call a function
			if len(v.Istack()) > 40 && !g.wild {
				continue
			}
			target := -1
			if len(s.funcs) > 0 && r.Chance(1, 3) {
				target = s.funcs[r.Intn(len(s.funcs))]
				if g.activeFn(f.s, target) && !r.Chance(1, 30) {
					continue
				}
			} else if target = s.alloc(); target >= 0 {
				s.funcs = append(s.funcs, target)
			}
			if target < 0 {
				continue
			}
			for k := r.Intn(3); k > 0 && grow; k-- {
				p.any(nil)
			}
			if r.Chance(1, 3) {
				p.emit(relI(opcode.PUSHA, target))
				p.op(opcode.CALLA)
			} else {
				p.emit(relI(opcode.CALLL, target))
			}
		case 11: // open a TRY block
			if len(f.blocks) >= 3 && !g.wild {
				continue
			}
			c, fi := 0, 0
			switch r.Intn(3) {
			case 0:
				c = s.alloc()
			case 1:
				fi = s.alloc()
			default:
				c, fi = s.alloc(), s.alloc()
			}
			if c < 0 || fi < 0 {
				continue
			}
			p.emit(insn{9, func(ip int) []byte {
				co, fo := 0, 0
				if c > 0 {
					co = c - ip
				}
				if fi > 0 {
					fo = fi - ip
				}
				return append(append([]byte{byte(opcode.TRYL)}, le32(co)...), le32(fo)...)
			}})
		case 12: // throw
			handled := false
			for i := range g.frames {
				for _, b := range g.frames[i].blocks {
					if b.state == 0 || (b.state == 1 && b.finallyAt > 0) {
						handled = true
					}
				}
			}
			if !handled && !r.Chance(1, 25) {
				continue
			}
			p.any(nil)
			p.op(opcode.THROW)
		case 13: // load another script
			if len(v.Istack()) > 30 && !g.wild {
				continue
			}
			idx := r.Intn(len(g.w.scripts))
			if len(g.w.scripts) < maxScripts && r.Chance(2, 3) {
				idx = g.addScript()
			} else if g.activeScript(idx) && !r.Chance(1, 30) {
				continue
			}
			na := r.Intn(3)
			for i := 0; i < na; i++ {
				p.any(nil)
			}
			p.emit(fixed(sys(sysLoad, idx, r.Intn(3), na)...))
		default: // jumps, harness syscalls, rare terminators
			switch r.Intn(8) {
			case 0, 1:
				t := s.alloc()
				if t < 0 {
					continue
				}
				p.emit(relI(opcode.JMPL, t))
			case 2, 3:
				t := s.alloc()
				if t < 0 {
					continue
				}
				p.any(nil)
				p.emit(relI([]opcode.Opcode{opcode.JMPIFL, opcode.JMPIFNOTL}[r.Intn(2)], t))
			case 4:
				t := s.alloc()
				if t < 0 {
					continue
				}
				p.emit(pushIntI(int64(r.Intn(3))))
				p.emit(pushIntI(int64(r.Intn(3))))
				p.emit(relI([]opcode.Opcode{opcode.JMPEQL, opcode.JMPNEL, opcode.JMPGTL, opcode.JMPGEL, opcode.JMPLTL, opcode.JMPLEL}[r.Intn(6)], t))
			case 5:
				p.emit(fixed(sys([]int{sysInterop, sysMkArray, sysBurn}[r.Intn(3)], r.Intn(5), 0, 0)...))
			case 6:
				if n == 0 {
					continue
				}
				p.emit(fixed(sys(sysPopOne, 0, 0, 0)...))
			default:
				if !r.Chance(1, 6) {
					f.remaining = 0 // early return
					p.op(opcode.NOP)
				} else if r.Bool() {
					p.op(opcode.ABORT)
				} else {
					p.op(opcode.PUSHF)
					p.op(opcode.ASSERT)
				}
			}
		}
		if len(p.ins) > 0 {
			return p.ins
		}
	}
	return []insn{opI(opcode.NOP)}
}

// cyclic plans what only matters once cycles exist: put a compound into something it already
// contains (or into itself), and forget the outside references to such structures.
func (g *gen) cyclic(p *plan, grow bool) []insn {
	r := g.r
	ctx := g.v.Context()
	switch r.Intn(3) {
	case 0: // container c receives an item from which c is reachable
		if !grow {
			return nil
		}
		c, ok := p.compound(func(stackitem.Item) bool { return true })
		if !ok {
			return nil
		}
		srcs := p.sources(func(it stackitem.Item) bool { return reachesItem(it, c) })
		if len(srcs) == 0 {
			return nil
		}
		_, isMap := c.(*stackitem.Map)
		if isMap {
			p.key()
			p.bring(srcs[r.Intn(len(srcs))])
			p.op(opcode.SETITEM)
		} else if seqLen(c) > 0 && r.Bool() {
			p.emit(pushIntI(int64(r.Intn(seqLen(c)))))
			p.pushV(stackitem.Make(0))
			p.bring(srcs[r.Intn(len(srcs))])
			p.op(opcode.SETITEM)
		} else {
			p.bring(srcs[r.Intn(len(srcs))])
			p.op(opcode.APPEND)
		}
	case 1: // forget a slot that holds a compound
		type sl struct {
			st, stn opcode.Opcode
			s       *vm.Slot
		}
		all := []sl{{opcode.STLOC0, opcode.STLOC, ctx.LocalsSlot()}, {opcode.STARG0, opcode.STARG, ctx.ArgumentsSlot()}, {opcode.STSFLD0, opcode.STSFLD, ctx.StaticsSlot()}}
		c := all[r.Intn(3)]
		var idx []int
		for i, it := range slotItems(c.s) {
			if it != nil && isCompound(it) {
				idx = append(idx, i)
			}
		}
		if len(idx) == 0 {
			return nil
		}
		i := idx[r.Intn(len(idx))]
		if r.Bool() { // keep one reference on the stack
			p.op([]opcode.Opcode{opcode.LDLOC, opcode.LDARG, opcode.LDSFLD}[map[opcode.Opcode]int{opcode.STLOC: 0, opcode.STARG: 1, opcode.STSFLD: 2}[c.stn]], byte(i))
		}
		p.op(opcode.PUSHNULL)
		if i <= 6 {
			p.op(opcode.Opcode(int(c.st) + i))
		} else {
			p.op(c.stn, byte(i))
		}
	default: // operate on the top reference directly (it may be the last outside reference)
		if len(p.vs) == 0 || !isCompound(p.vs[0]) {
			return nil
		}
		c := p.vs[0]
		_, isMap := c.(*stackitem.Map)
		if seqLen(c) == 0 {
			return nil
		}
		switch r.Intn(9) {
		case 4:
			p.op(opcode.UNPACK)
		case 5:
			p.op(opcode.VALUES)
		case 6:
			if isMap {
				p.op(opcode.KEYS)
			} else {
				t := stackitem.ArrayT
				if _, a := c.(*stackitem.Array); a {
					t = stackitem.StructT
				}
				p.op(opcode.CONVERT, byte(t))
			}
		case 7:
			if isMap {
				return nil
			}
			p.op(opcode.REVERSEITEMS)
		case 8: // a struct that reaches the container is cloned into it
			if isMap {
				return nil
			}
			p.op(opcode.DUP)
			p.op(opcode.DUP)
			p.op(opcode.CONVERT, byte(stackitem.StructT))
			p.op(opcode.APPEND)
		case 0:
			if isMap {
				p.keyOf(c)
			} else {
				p.emit(pushIntI(int64(r.Intn(seqLen(c)))))
			}
			p.op(opcode.REMOVE)
		case 1:
			if isMap {
				p.keyOf(c)
			} else {
				p.emit(pushIntI(int64(r.Intn(seqLen(c)))))
			}
			p.fresh()
			p.op(opcode.SETITEM)
		case 2:
			p.op(opcode.CLEARITEMS)
		default:
			if isMap {
				return nil
			}
			p.op(opcode.POPITEM)
		}
	}
	return p.ins
}

func (g *gen) arith(p *plan, grow bool) {
	r := g.r
	un := []opcode.Opcode{opcode.INC, opcode.DEC, opcode.NEGATE, opcode.ABS, opcode.SIGN, opcode.NZ, opcode.NOT, opcode.INVERT, opcode.SQRT, opcode.ISNULL}
	bin := []opcode.Opcode{opcode.ADD, opcode.SUB, opcode.MUL, opcode.DIV, opcode.MOD, opcode.AND, opcode.OR, opcode.XOR, opcode.MIN, opcode.MAX,
		opcode.LT, opcode.GE, opcode.NUMEQUAL, opcode.BOOLAND, opcode.EQUAL, opcode.NOTEQUAL, opcode.SHL, opcode.SHR, opcode.POW}
	switch r.Intn(6) {
	case 0:
		if !grow {
			return
		}
		p.fresh()
		o := un[r.Intn(len(un))]
		if o == opcode.SQRT {
			p.op(opcode.ABS)
		}
		p.op(o)
	case 1:
		if !grow {
			return
		}
		p.fresh()
		p.fresh()
		o := bin[r.Intn(len(bin))]
		if (o == opcode.SHL || o == opcode.SHR || o == opcode.POW) && !g.wild {
			p.popV(1)
			p.ins = p.ins[:len(p.ins)-1]
			p.emit(pushIntI(int64(r.Intn(9))))
		}
		p.op(o)
	case 2: // EQUAL / ISNULL / ISTYPE on whatever is there (compounds included)
		if len(p.vs) < 2 {
			return
		}
		switch r.Intn(3) {
		case 0:
			p.op(opcode.EQUAL)
		case 1:
			p.op(opcode.ISNULL)
		default:
			p.op(opcode.ISTYPE, byte(convTypes[r.Intn(len(convTypes))]))
		}
	case 3: // byte strings and buffers
		if !grow {
			return
		}
		sz := r.Intn(9)
		if g.wild && r.Chance(1, 6) {
			sz = []int{65535, 131069, 131070, 131071}[r.Intn(4)]
		}
		p.emit(pushIntI(int64(sz)))
		p.op(opcode.NEWBUFFER)
		switch r.Intn(4) {
		case 0:
			p.op(opcode.DUP)
			p.op(opcode.CAT)
		case 1:
			p.emit(pushIntI(int64(sz / 2)))
			p.op(opcode.LEFT)
		case 2:
			p.op(opcode.CONVERT, byte(stackitem.ByteArrayT))
		}
	case 4: // big integers at the boundary
		if !grow || !(g.wild || r.Chance(1, 4)) {
			return
		}
		i, _ := pushBigI(bigInts[r.Intn(3)])
		p.emit(i)
		p.op([]opcode.Opcode{opcode.INC, opcode.DEC, opcode.NEGATE, opcode.ABS, opcode.DUP}[r.Intn(5)])
		if r.Bool() {
			p.op(opcode.DUP)
			p.op([]opcode.Opcode{opcode.ADD, opcode.MUL, opcode.SUB}[r.Intn(3)])
		}
	default:
		if !grow {
			return
		}
		p.fresh()
		p.op(opcode.CONVERT, byte(convTypes[r.Intn(4)]))
	}
}

// terminator plans the instruction that leaves the innermost open construct of frame f.
func (g *gen) terminator(f *gframe, s *gscript) []insn {
	r := g.r
	if nb := len(f.blocks); nb > 0 {
		b := &f.blocks[nb-1]
		if b.state == 2 {
			return []insn{opI(opcode.ENDFINALLY)}
		}
		if b.endAt == 0 {
			b.endAt = s.alloc()
			s.tryEnd[b.at] = b.endAt
		}
		if b.endAt > 0 {
			return []insn{relI(opcode.ENDTRYL, b.endAt)}
		}
		return []insn{opI(opcode.RET)}
	}
	// leaving a context that owns its evaluation stack: mind the expected number of results
	ctx := g.v.Context()
	if want := ctx.NumOfReturnVals(); want >= 0 && len(g.v.Istack()) > 1 && !r.Chance(1, 25) {
		have := g.v.Estack().Len()
		if have > want {
			return []insn{opI(opcode.DROP)}
		}
		if have < want {
			return []insn{opI(opcode.PUSHNULL)}
		}
	}
	if f.dynamic && g.v.Estack().Len() > 1 && !r.Chance(1, 25) {
		return []insn{opI(opcode.DROP)}
	}
	return []insn{opI(opcode.RET)}
}

// write places one instruction at ip (or a JMP_L to a fresh chunk when the chunk is full).
func (g *gen) write(s *gscript, ip int, ins []insn) (rest []insn, next int) {
	end := (ip/chunk + 1) * chunk
	i := ins[0]
	rest = ins[1:]
	next = -1
	if ip+i.n+5 > end {
		t := s.alloc()
		if t < 0 {
			i, rest = opI(opcode.RET), nil
			g.budget = 0
		} else {
			i, rest, next = relI(opcode.JMPL, t), ins, t
		}
	}
	b := i.f(ip)
	copy(s.buf[ip:], b)
	for k := range b {
		s.written[ip+k] = true
	}
	if next < 0 {
		next = ip + len(b)
	}
	return rest, next
}

// online generates the scripts of one structured case.
func online(r *prng.R, thorough bool) (*caseProg, int64, bool) {
	g := &gen{r: r, w: &genWorld{}, idx: map[*byte]int{}}
	g.addScript()
	g.budget = r.Range(8, 100)
	if thorough && r.Chance(1, 4) {
		g.budget = r.Range(64, 400)
	}
	g.allowCycles = r.Chance(1, 8)
	g.wild = r.Chance(1, 10)
	p := &caseProg{gasLimit: bigGas, base: vm.ExecFeeFactorMultiplier}
	v := newVM(p, g.w)
	g.v = v
	v.LoadScriptWithHash(g.w.scripts[0].buf, scriptHash(0), callflag.All)
	maxSteps := 12 * g.budget
	if thorough {
		maxSteps = 40 * g.budget
	}
	for g.steps = 0; g.steps < maxSteps; g.steps++ {
		if st := v.State(); st.HasFlag(vmstate.Halt) || st.HasFlag(vmstate.Fault) {
			break
		}
		g.syncFrames()
		f := &g.frames[len(g.frames)-1]
		ctx := v.Context()
		s := g.w.scripts[f.s]
		ip := ctx.NextIP()
		g.syncBlocks(f, ip)
		if ip < len(s.buf) && !s.written[ip] {
			if len(g.pending) > 0 && (g.pendS != f.s || g.pendIP != ip) {
				g.pending = nil
			}
			if len(g.pending) == 0 {
				if g.budget <= 0 {
					f.remaining = 0
				}
				if f.remaining <= 0 {
					g.pending = g.terminator(f, s)
				} else {
					g.pending = g.choose(f)
					f.remaining -= len(g.pending)
					g.budget -= len(g.pending)
				}
			}
			g.pending, g.pendIP = g.write(s, ip, g.pending)
			g.pendS = f.s
		} else {
			g.pending = nil
		}
		// register a TRY about to be executed (written now or earlier)
		pc := scparser.NewContext(s.buf, ip)
		op, param, err := pc.Next()
		if err == nil && op == opcode.TRYL {
			co := int(int32(binary.LittleEndian.Uint32(param[:4])))
			fo := int(int32(binary.LittleEndian.Uint32(param[4:])))
			b := block{at: ip, endAt: s.tryEnd[ip]}
			if co != 0 {
				b.catchAt = ip + co
			}
			if fo != 0 {
				b.finallyAt = ip + fo
			}
			f.blocks = append(f.blocks, b)
		}
		func() {
			defer func() { _ = recover() }()
			_ = v.Step()
		}()
		g.lastCall = err == nil && (op == opcode.CALL || op == opcode.CALLL || op == opcode.CALLA)
		g.lastDyn = err == nil && op == opcode.SYSCALL && param[0] == sysLoad && param[2]&3 == 2
	}
	out := &caseProg{kind: "gen"}
	for _, s := range g.w.scripts {
		out.scripts = append(out.scripts, append([]byte{}, s.buf[:s.free]...))
	}
	return out, v.GasConsumed(), g.steps >= maxSteps
}

func mutate(r *prng.R, p *caseProg) {
	for m := r.Range(1, 3); m > 0; m-- {
		s := p.scripts[r.Intn(len(p.scripts))]
		if len(s) == 0 {
			continue
		}
		// find the written prefix: mutating RET fillers is pointless
		last := len(s) - 1
		for last > 0 && s[last] == byte(opcode.RET) {
			last--
		}
		i := r.Intn(last + 1)
		switch r.Intn(4) {
		case 0:
			s[i] ^= 1 << uint(r.Intn(8))
		case 1:
			s[i] = byte(r.Intn(256))
		case 2: // shift a jump-like operand by a little
			c := scparser.NewContext(s, 0)
			var at []int
			for c.NextIP() < len(s) {
				op, par, err := c.Next()
				if err != nil {
					break
				}
				if len(par) == 4 && op != opcode.SYSCALL || op == opcode.TRYL {
					at = append(at, c.IP()+1)
				}
			}
			if len(at) > 0 {
				s[at[r.Intn(len(at))]] += byte(r.Range(1, 3))
			}
		default:
			s[i] = byte([]opcode.Opcode{opcode.THROW, opcode.RET, opcode.ENDTRY, opcode.ENDFINALLY, opcode.DROP, opcode.CLEAR, opcode.UNPACK}[r.Intn(7)])
		}
	}
	p.kind = "gen-mut"
}

func rawCase(r *prng.R, thorough bool) *caseProg {
	n := r.Range(1, 48)
	if r.Chance(1, 10) {
		n = r.Range(48, 300)
	}
	b := r.Bytes(n)
	if r.Chance(1, 2) {
		// bias towards valid opcodes with short operands so that more than one instruction runs
		for i := range b {
			if !opcode.IsValid(opcode.Opcode(b[i])) || r.Chance(1, 6) {
				b[i] = byte([]opcode.Opcode{opcode.PUSH1, opcode.PUSH2, opcode.NEWARRAY0, opcode.DUP, opcode.APPEND, opcode.PACK, opcode.UNPACK,
					opcode.NEWMAP, opcode.SETITEM, opcode.DROP, opcode.PUSH0, opcode.NEWARRAY, opcode.NEWSTRUCT, opcode.VALUES, opcode.SWAP, opcode.DEPTH}[r.Intn(16)])
			}
		}
	}
	base := int64([]int{1, 30, 10000}[r.Intn(3)])
	// enough for a few thousand cheap instructions: random bytes loop easily
	limit := int64(r.Intn(3000))*base/vm.ExecFeeFactorMultiplier + int64(r.Intn(3))
	return &caseProg{scripts: [][]byte{b, asm(opcode.PUSH1, opcode.PUSH2, opcode.THROW)}, gasLimit: limit, base: base, kind: "raw"}
}

// generate builds case k.
func generate(r *prng.R, k int, thorough bool) *caseProg {
	if r.Chance(1, 5) {
		return rawCase(r, thorough)
	}
	p, gas1, capped := online(r, thorough)
	p.base = int64([]int{1, 30, 300, 10000}[r.Intn(4)])
	p.gasLimit = bigGas
	if capped && !r.Chance(1, 20) {
		// the generating run was cut: let the gas limit end the real run at about the same place
		p.gasLimit = gas1*p.base/vm.ExecFeeFactorMultiplier + 1
	} else if r.Chance(1, 6) {
		// a limit somewhere inside the run (gas1 = sum of the price coefficients of the first run)
		p.gasLimit = int64(r.Intn(int(gas1*p.base/vm.ExecFeeFactorMultiplier)+2)) + int64(r.Intn(2))
	}
	if r.Chance(1, 7) {
		mutate(r, p)
		// a mutation easily makes a loop: keep the gas close to what the generating run needed
		if lim := 3*gas1*p.base/vm.ExecFeeFactorMultiplier + 200; p.gasLimit > lim {
			p.gasLimit = lim
		}
	}
	return p
}
