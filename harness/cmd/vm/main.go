// Command vm: correspondence + oracle stream for C12 (the VM is total, bounded and memory-safe;
// its item accounting never under-counts and is exact without cycles; a statically checked script
// never executes a non-boundary offset).
//
// Every case is a small world of scripts (script 0 is the entry, the others are loaded through a
// harness-registered SYSCALL), a gas limit and a price base. The real VM (vm.New, LoadScript…,
// Step) is single-stepped; after EVERY instruction the real state is walked through exported API
// and compared with the VM's own counter (hook VerifRefs under build tag verif) and the limits;
// the same case is then run with Run() and the outcomes compared. See run.go for the oracle and
// the line protocol, gen.go for the generator.
package main

import (
	"fmt"
	"os"
	"runtime/debug"
	"runtime/pprof"
	"strings"

	"verif/harness/internal/hx"
	"verif/harness/internal/prng"
)

func main() {
	f := hx.ParseFlags()
	o := hx.NewOut(f.Out)
	defer o.Close()
	if pf := os.Getenv("VM_PROF"); pf != "" {
		fh, _ := os.Create(pf)
		pprof.StartCPUProfile(fh)
		defer pprof.StopCPUProfile()
	}
	debug.SetGCPercent(400)
	cs := corpus()
	n := f.N(20000, 150000)
	dump := os.Getenv("VM_DUMP") != ""
	dumpFaults = os.Getenv("VM_FAULTS") != ""
	for k := 0; k < n; k++ {
		if !f.Want(k) {
			continue
		}
		var p *caseProg
		if k < len(cs) {
			p = cs[k]
		} else {
			p = generate(prng.ForCase(f.Seed, k), k, f.Tier == "thorough")
		}
		if dump {
			for i, s := range p.scripts {
				fmt.Fprintf(os.Stderr, "case %d %s script %d: %x\n", k, p.kind, i, s)
			}
			fmt.Fprintf(os.Stderr, "case %d gas=%d base=%d\n", k, p.gasLimit, p.base)
		}
		o.Case(k)
		o.Count("kind:" + p.kind)
		rn := &runner{o: o, k: k}
		res := rn.exec(p, true)
		rn.runWhole(p, res)
		o.Count("final:" + res.state)
		if p.expect != "" && p.expect != res.state {
			o.Fail("limit-"+strings.TrimPrefix(p.kind, "corpus:"), k, "expected %s, got %s after %d instructions", p.expect, res.state, res.steps)
		}
		if p.maxSteps != 0 && p.maxSteps != res.steps {
			o.Fail("limit-"+strings.TrimPrefix(p.kind, "corpus:"), k, "expected %d executed instructions, got %d (%s)", p.maxSteps, res.steps, res.state)
		}
		o.Count("final:" + strings.SplitN(p.kind, ":", 2)[0] + ":" + res.state)
		if res.cyclic {
			o.Count("case:cyclic-structure-built")
		}
		if res.leaked {
			o.Count("case:exactness-mismatch")
		}
		o.Count(fmt.Sprintf("case:max-refs<=%d", bucket(res.maxRefs)))
		o.Count(fmt.Sprintf("case:max-depth<=%d", bucket(res.maxDep)))
		o.Count(fmt.Sprintf("case:steps<=%d", bucket(res.steps)))
		if res.steps >= 8 {
			o.Seen(fmt.Sprintf("%x", p.scripts[0]))
		}
		if k < 40 {
			o.Sample(fmt.Sprintf("%s %x", p.kind, p.scripts[0]))
		}
	}
}

func bucket(n int) int {
	for _, b := range []int{0, 4, 16, 64, 256, 1024, 2048, 4096, 1 << 14, 1 << 17} {
		if n <= b {
			return b
		}
	}
	return 1 << 30
}
