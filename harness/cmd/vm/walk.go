package main

// walk.go: the property's own view of a VM state, obtained by actually walking it through
// exported API only (v.Istack, v.Estack, Context.Estack, Context.{Locals,Arguments,Statics}Slot).
//
//	reach = entries on every distinct evaluation stack (of all contexts on the invocation stack and
//	        the VM's current stack) + entries of every distinct static/local/argument slot
//	        + for every DISTINCT reachable array/struct/map (pointer identity) its number of
//	        children (map: 2 per entry).
//
// The same walk checks the per-item limits (integer width, byte string / buffer size) and tells
// whether a cyclic structure is reachable.

import (
	"math/big"

	"github.com/nspcc-dev/neo-go/pkg/vm"
	"github.com/nspcc-dev/neo-go/pkg/vm/stackitem"
)

var (
	intMin = new(big.Int).Neg(new(big.Int).Lsh(big.NewInt(1), 255)) // -2^255
	intMax = new(big.Int).Lsh(big.NewInt(1), 255)                   // 2^255 (exclusive)
)

type walkRes struct {
	reach     int
	roots     int
	compounds int
	cyclic    bool
	badInt    string // an integer outside [-2^255, 2^255)
	badSize   int    // a byte string / buffer longer than stackitem.MaxSize (0 = none)
	maxDepth  int    // deepest nesting seen
}

type walker struct {
	res   walkRes
	seen  map[stackitem.Item]int // 1 = on the DFS path (grey), 2 = finished (black)
	stack []stackitem.Item
}

func children(it stackitem.Item) ([]stackitem.Item, bool) {
	switch t := it.(type) {
	case *stackitem.Array:
		return t.Value().([]stackitem.Item), true
	case *stackitem.Struct:
		return t.Value().([]stackitem.Item), true
	case *stackitem.Map:
		el := t.Value().([]stackitem.MapElement)
		out := make([]stackitem.Item, 0, 2*len(el))
		for i := range el {
			out = append(out, el[i].Key, el[i].Value)
		}
		return out, true
	}
	return nil, false
}

func (w *walker) leaf(it stackitem.Item) {
	switch t := it.(type) {
	case *stackitem.BigInteger:
		b := t.Big()
		if b.Cmp(intMin) < 0 || b.Cmp(intMax) >= 0 {
			w.res.badInt = b.String()
		}
	case *stackitem.ByteArray:
		if n := len(t.Value().([]byte)); n > stackitem.MaxSize {
			w.res.badSize = n
		}
	case *stackitem.Buffer:
		if n := t.Len(); n > stackitem.MaxSize {
			w.res.badSize = n
		}
	}
}

// visit walks one reference (iteratively: structures can be 2048 deep).
func (w *walker) visit(root stackitem.Item) {
	type fr struct {
		it stackitem.Item
		ch []stackitem.Item
		i  int
	}
	if root == nil {
		return
	}
	ch, ok := children(root)
	if !ok {
		w.leaf(root)
		return
	}
	if st := w.seen[root]; st != 0 {
		return
	}
	w.seen[root] = 1
	w.res.compounds++
	w.res.reach += len(ch)
	frames := []fr{{root, ch, 0}}
	for len(frames) > 0 {
		if len(frames) > w.res.maxDepth {
			w.res.maxDepth = len(frames)
		}
		f := &frames[len(frames)-1]
		if f.i == len(f.ch) {
			w.seen[f.it] = 2
			frames = frames[:len(frames)-1]
			continue
		}
		c := f.ch[f.i]
		f.i++
		cc, ok := children(c)
		if !ok {
			if c != nil {
				w.leaf(c)
			}
			continue
		}
		switch w.seen[c] {
		case 1:
			w.res.cyclic = true
		case 2:
		default:
			w.seen[c] = 1
			w.res.compounds++
			w.res.reach += len(cc)
			frames = append(frames, fr{c, cc, 0})
		}
	}
}

// walkVM walks the whole VM state.
var (
	theWalker = &walker{seen: map[stackitem.Item]int{}}
	wStacks   = map[*vm.Stack]bool{}
	wSlots    = map[*vm.Slot]bool{}
)

func walkVM(v *vm.VM) walkRes {
	w := theWalker
	w.res = walkRes{}
	clear(w.seen)
	clear(wStacks)
	clear(wSlots)
	stacks, slots := wStacks, wSlots
	addStack := func(s *vm.Stack) {
		if s == nil || stacks[s] {
			return
		}
		stacks[s] = true
		n := s.Len()
		w.res.reach += n
		w.res.roots += n
		for i := 0; i < n; i++ {
			w.visit(s.Peek(i).Item())
		}
	}
	addSlot := func(s *vm.Slot) {
		if s == nil || slots[s] {
			return
		}
		slots[s] = true
		n := s.Size()
		w.res.reach += n // an empty slot entry is a (virtual) Null item
		w.res.roots += n
		for i := 0; i < n; i++ {
			w.visit((*s)[i])
		}
	}
	addStack(v.Estack())
	for _, c := range v.Istack() {
		addStack(c.Estack())
		addSlot(c.LocalsSlot())
		addSlot(c.ArgumentsSlot())
		addSlot(c.StaticsSlot())
	}
	return w.res
}

// reachesItem tells whether `target` (a compound) is reachable from `from` (used by the generator
// to avoid / to build cycles on purpose).
func reachesItem(from, target stackitem.Item) bool {
	if _, ok := children(target); !ok {
		return false
	}
	seen := map[stackitem.Item]bool{}
	todo := []stackitem.Item{from}
	for len(todo) > 0 {
		x := todo[len(todo)-1]
		todo = todo[:len(todo)-1]
		if x == nil {
			continue
		}
		ch, ok := children(x)
		if !ok || seen[x] {
			continue
		}
		if x == target {
			return true
		}
		seen[x] = true
		todo = append(todo, ch...)
	}
	return false
}

// countItems returns the number of items a deep walk of `it` visits with multiplicity bounded by
// limit (used by the generator to keep structures inside the 2048 budget).
func countItems(it stackitem.Item, limit int) int {
	n := 0
	seen := map[stackitem.Item]bool{}
	todo := []stackitem.Item{it}
	for len(todo) > 0 && n < limit {
		x := todo[len(todo)-1]
		todo = todo[:len(todo)-1]
		n++
		if x == nil {
			continue
		}
		ch, ok := children(x)
		if !ok || seen[x] {
			continue
		}
		seen[x] = true
		todo = append(todo, ch...)
	}
	return n
}
