package main

// corpus.go: hand-written cases that always run first (cases 0..n-1).

import (
	"encoding/binary"
	"fmt"

	"github.com/nspcc-dev/neo-go/pkg/vm/opcode"
)

func asm(parts ...any) []byte {
	var out []byte
	for _, p := range parts {
		switch t := p.(type) {
		case opcode.Opcode:
			out = append(out, byte(t))
		case byte:
			out = append(out, t)
		case int:
			out = append(out, byte(int8(t)))
		case []byte:
			out = append(out, t...)
		default:
			panic("asm: bad part")
		}
	}
	return out
}

func le32(n int) []byte {
	var b [4]byte
	binary.LittleEndian.PutUint32(b[:], uint32(int32(n)))
	return b[:]
}

func rep(op opcode.Opcode, n int) []byte {
	b := make([]byte, n)
	for i := range b {
		b[i] = byte(op)
	}
	return b
}

func sys(kind, idx, mode, nargs int) []byte {
	return append([]byte{byte(opcode.SYSCALL)}, sysID(kind, idx, mode, nargs)...)
}

const bigGas = 2_000_000_000

func corpus() []*caseProg {
	mk := func(kind string, gas int64, scripts ...[]byte) *caseProg {
		return &caseProg{scripts: scripts, gasLimit: gas, base: 30, kind: "corpus:" + kind}
	}
	var cs []*caseProg
	// DESIGN §6 item 8: the callee owns its evaluation stack, throws, the caller catches.
	cs = append(cs, mk("unwind-across-estack", bigGas,
		asm(opcode.TRY, 10, 0, sys(sysLoad, 1, 0, 0), opcode.ENDTRY, 3, opcode.DROP, opcode.RET),
		asm(opcode.PUSH1, opcode.PUSH2, opcode.PUSH3, opcode.PUSH0, opcode.THROW)))
	// the same with a shared stack (rvcount -1, empty caller stack): nothing is dropped
	cs = append(cs, mk("unwind-shared-estack", bigGas,
		asm(opcode.TRY, 10, 0, sys(sysLoad, 1, 1, 0), opcode.ENDTRY, 3, opcode.CLEAR, opcode.RET),
		asm(opcode.PUSH1, opcode.PUSH2, opcode.PUSH3, opcode.PUSH0, opcode.THROW)))
	// the callee's dropped stack holds an array that the caller's static slot still references
	cs = append(cs, mk("unwind-dropped-compound", bigGas,
		asm(opcode.INITSSLOT, 1, opcode.NEWARRAY0, opcode.DUP, opcode.STSFLD0, opcode.TRY, 10, 0, sys(sysLoad, 1, 0, 1), opcode.ENDTRY, 3, opcode.DROP, opcode.LDSFLD0, opcode.RET),
		asm(opcode.DUP, opcode.PUSH5, opcode.APPEND, opcode.PUSH2, opcode.NEWARRAY, opcode.PUSH0, opcode.THROW)))
	// 16 nested TRY are fine, the 17th faults
	t16 := append(append([]byte{}, repTry(16)...), byte(opcode.RET))
	t17 := append(append([]byte{}, repTry(17)...), byte(opcode.RET))
	cs = append(cs, mk("try-16", bigGas, t16), mk("try-17", bigGas, t17))
	// recursion to the invocation limit
	cs = append(cs, mk("call-depth", bigGas, asm(opcode.CALL, 0)))
	cs = append(cs, mk("load-depth", bigGas, asm(sys(sysLoad, 0, 1, 0))))
	cs = append(cs, mk("load-depth-own", bigGas, asm(opcode.PUSH1, sys(sysLoad, 0, 0, 1))))
	// stack size limit by pushing, by one big array, by nesting
	cs = append(cs, mk("push-2049", bigGas, rep(opcode.PUSH1, 2049)))
	cs = append(cs, mk("push-2048", bigGas, rep(opcode.PUSH1, 2048)))
	cs = append(cs, mk("newarray-2047", bigGas, asm(opcode.PUSHINT16, 0xff, 0x07, opcode.NEWARRAY)))
	cs = append(cs, mk("newarray-2048", bigGas, asm(opcode.PUSHINT16, 0x00, 0x08, opcode.NEWARRAY)))
	cs = append(cs, mk("unpack-grow", bigGas, asm(opcode.PUSHINT16, 0x00, 0x04, opcode.NEWARRAY, opcode.DUP, opcode.UNPACK, opcode.DROP, opcode.DUP, opcode.UNPACK)))
	// shared sub-array referenced from a slot and from inside a referenced struct, removed one way
	cs = append(cs, mk("shared-slot-struct", bigGas, asm(
		opcode.INITSSLOT, 2, opcode.PUSH3, opcode.NEWARRAY, opcode.DUP, opcode.STSFLD0,
		opcode.PUSH1, opcode.PACKSTRUCT, opcode.DUP, opcode.STSFLD1,
		opcode.DUP, opcode.PUSH0, opcode.REMOVE, opcode.DROP,
		opcode.LDSFLD1, opcode.SIZE, opcode.DROP, opcode.PUSHNULL, opcode.STSFLD0, opcode.RET)))
	// a cycle, then dropped (over-count allowed, under-count not)
	cs = append(cs, mk("cycle", bigGas, asm(opcode.NEWARRAY0, opcode.DUP, opcode.DUP, opcode.APPEND, opcode.DROP, opcode.PUSH1, opcode.RET)))
	// integer limits
	cs = append(cs, mk("int-overflow", bigGas, asm(opcode.PUSHINT256, rep(opcode.Opcode(0xff), 31), byte(0x7f), opcode.INC)))
	cs = append(cs, mk("int-min", bigGas, asm(opcode.PUSHINT256, rep(opcode.Opcode(0x00), 31), byte(0x80), opcode.DEC)))
	cs = append(cs, mk("int-min-negate", bigGas, asm(opcode.PUSHINT256, rep(opcode.Opcode(0x00), 31), byte(0x80), opcode.NEGATE)))
	cs = append(cs, mk("shl-256", bigGas, asm(opcode.PUSH1, opcode.PUSHINT16, 0xfe, 0x00, opcode.SHL, opcode.PUSH1, opcode.SHL)))
	// item size limit
	cs = append(cs, mk("cat-too-big", bigGas, asm(opcode.PUSHINT32, le32(131070), opcode.NEWBUFFER, opcode.PUSH1, opcode.NEWBUFFER, opcode.CAT)))
	cs = append(cs, mk("newbuffer-max+1", bigGas, asm(opcode.PUSHINT32, le32(131071), opcode.NEWBUFFER)))
	// … and exactly at the limit: a buffer of MaxSize bytes, CAT to exactly MaxSize, converted to a ByteString
	cs = append(cs, mk("newbuffer-max", bigGas, asm(opcode.PUSHINT32, le32(131070), opcode.NEWBUFFER, opcode.RET)))
	cs = append(cs, mk("cat-exact-max", bigGas, asm(opcode.PUSHINT32, le32(131069), opcode.NEWBUFFER, opcode.PUSH1, opcode.NEWBUFFER, opcode.CAT,
		opcode.CONVERT, 0x28, opcode.DUP, opcode.SIZE, opcode.DROP, opcode.RET)))
	// gas: stops exactly at the limit
	cs = append(cs, &caseProg{scripts: [][]byte{rep(opcode.PUSH1, 100)}, gasLimit: 1, base: 100, kind: "corpus:gas-exact"})
	cs = append(cs, &caseProg{scripts: [][]byte{rep(opcode.PUSH1, 100)}, gasLimit: 1, base: 101, kind: "corpus:gas-over"})
	cs = append(cs, &caseProg{scripts: [][]byte{asm(opcode.JMP, 0)}, gasLimit: 10, base: 30, kind: "corpus:gas-loop"})
	cs = append(cs, &caseProg{scripts: [][]byte{asm(sys(sysBurn, 20, 0, 0), opcode.RET)}, gasLimit: 19999, base: 30, kind: "corpus:gas-syscall"})
	// struct cloning on APPEND/SETITEM, VALUES
	cs = append(cs, mk("struct-clone", bigGas, asm(
		opcode.PUSH1, opcode.PUSH2, opcode.PUSH2, opcode.PACKSTRUCT, opcode.PUSH1, opcode.PACKSTRUCT,
		opcode.NEWARRAY0, opcode.DUP, opcode.PUSH2, opcode.PICK, opcode.APPEND,
		opcode.DUP, opcode.PUSH0, opcode.PUSH3, opcode.PICK, opcode.SETITEM,
		opcode.VALUES, opcode.DROP, opcode.DROP, opcode.RET)))
	// map operations with a duplicate key
	cs = append(cs, mk("packmap-dup", bigGas, asm(
		opcode.NEWARRAY0, opcode.PUSH1, opcode.PUSH5, opcode.PUSH1, opcode.PUSH2, opcode.PACKMAP,
		opcode.DUP, opcode.KEYS, opcode.DROP, opcode.DUP, opcode.VALUES, opcode.DROP,
		opcode.DUP, opcode.PUSH1, opcode.REMOVE, opcode.UNPACK, opcode.RET)))
	// exception thrown by PICKITEM inside a CALLed function with slots, caught by the caller
	cs = append(cs, mk("pickitem-throw-call", bigGas, asm(
		opcode.TRY, 8, 0, opcode.PUSH1, opcode.CALL, 6, opcode.ENDTRY, 3, opcode.DROP, opcode.RET,
		opcode.INITSLOT, 2, 1, opcode.NEWARRAY0, opcode.DUP, opcode.STLOC0, opcode.PUSH3, opcode.PICKITEM, opcode.RET)))
	// finally + rethrow across a loaded context
	cs = append(cs, mk("finally-rethrow", bigGas,
		asm(opcode.TRY, 10, 0, sys(sysLoad, 1, 0, 0), opcode.ENDTRY, 3, opcode.DROP, opcode.RET),
		asm(opcode.PUSH7, opcode.TRY, 0, 5, opcode.PUSH8, opcode.THROW, opcode.PUSH9, opcode.ENDFINALLY, opcode.RET)))
	// dynamic script returning nothing / two values
	cs = append(cs, mk("dynamic-0", bigGas, asm(sys(sysLoad, 1, 2, 0), opcode.RET), asm(opcode.NOP)))
	cs = append(cs, mk("dynamic-2", bigGas, asm(opcode.PUSH1, sys(sysLoad, 1, 2, 0), opcode.RET), asm(opcode.PUSH1, opcode.PUSH2)))
	cs = append(cs, mk("retcount-mismatch", bigGas, asm(sys(sysLoad, 1, 0, 0), opcode.RET), asm(opcode.PUSH1, opcode.PUSH2)))
	// a map that contains itself through an array; the entry is removed while the map's only
	// other reference is the operand REMOVE has just popped
	cs = append(cs, mk("map-remove-cyclic", bigGas, asm(
		opcode.INITSLOT, 2, 0, opcode.NEWMAP, opcode.STLOC0, opcode.NEWARRAY0, opcode.STLOC1,
		opcode.LDLOC1, opcode.LDLOC0, opcode.APPEND,
		opcode.LDLOC0, opcode.PUSH1, opcode.LDLOC1, opcode.SETITEM,
		opcode.PUSHNULL, opcode.STLOC1, opcode.LDLOC0, opcode.PUSHNULL, opcode.STLOC0,
		opcode.PUSH1, opcode.REMOVE, opcode.PUSH5, opcode.RET)))
	cs = append(cs, &caseProg{scripts: [][]byte{asm(opcode.PUSH1)}, gasLimit: 0, base: 1, kind: "corpus:gas-zero"})
	// the last reference to a container is consumed by the instruction that changes it
	cs = append(cs, mk("last-ref", bigGas, asm(opcode.NEWARRAY0, opcode.PUSH1, opcode.APPEND, opcode.PUSH2, opcode.NEWARRAY, opcode.PUSH0, opcode.PUSH1, opcode.SETITEM,
		opcode.NEWMAP, opcode.PUSH1, opcode.PUSH1, opcode.SETITEM, opcode.PUSH1, opcode.NEWSTRUCT, opcode.CLEARITEMS, opcode.PUSH1, opcode.NEWARRAY, opcode.PUSH0, opcode.REMOVE, opcode.RET)))
	// a compound as map key: validateMapKey / Map.Add panic, the model predicts the FAULT itself
	cs = append(cs, mk("setitem-compound-key", bigGas, asm(opcode.NEWMAP, opcode.DUP, opcode.NEWARRAY0, opcode.PUSH1, opcode.SETITEM, opcode.RET)))
	cs = append(cs, mk("setitem-compound-key-array", bigGas, asm(opcode.PUSH2, opcode.NEWARRAY, opcode.DUP, opcode.NEWMAP, opcode.PUSH1, opcode.SETITEM, opcode.RET)))
	cs = append(cs, mk("packmap-compound-key", bigGas, asm(opcode.PUSH5, opcode.PUSH1, opcode.PUSH6, opcode.NEWSTRUCT0, opcode.PUSH2, opcode.PACKMAP, opcode.RET)))
	// invocation depth exactly at the limit (entry + 1023 nested CALLs = 1024 contexts, then all return) / one more
	recurse := func(n int) []byte {
		return asm(opcode.INITSSLOT, 1, opcode.PUSH0, opcode.STSFLD0, opcode.CALL, 3, opcode.RET,
			opcode.LDSFLD0, opcode.INC, opcode.DUP, opcode.STSFLD0, opcode.PUSHINT16, byte(n), byte(n>>8), opcode.JMPGE, 4, opcode.CALL, -9, opcode.RET)
	}
	cs = append(cs, mk("call-depth-1024-ok", bigGas, recurse(1023)), mk("call-depth-1025", bigGas, recurse(1024)))
	// exactly 2048 references spread over a static slot, an array and the stack / one more
	mixed := func(extra int) []byte {
		return asm(opcode.INITSSLOT, 200, opcode.PUSHINT16, 0xe8, 0x03, opcode.NEWARRAY, rep(opcode.PUSH1, 847+extra), opcode.RET)
	}
	cs = append(cs, mk("mixed-2048", bigGas, mixed(0)), mk("mixed-2049", bigGas, mixed(1)))
	// a SYSCALL handler's own charge reaches the limit exactly (HALT) — gas-syscall above is one datoshi short
	cs = append(cs, &caseProg{scripts: [][]byte{asm(sys(sysBurn, 20, 0, 0), opcode.RET)}, gasLimit: 20000, base: 30, kind: "corpus:gas-syscall-exact"})
	// the gas runs out exactly at the last instruction of a nested call: the RETs are free
	// (CALL 512 + 113 NOP) * 16 = 10000 picoGAS = 1 datoshi; with one more NOP it faults inside the callee
	cs = append(cs, &caseProg{scripts: [][]byte{asm(opcode.CALL, 3, opcode.RET, rep(opcode.NOP, 113), opcode.RET)}, gasLimit: 1, base: 16, kind: "corpus:gas-exact-nested"})
	cs = append(cs, &caseProg{scripts: [][]byte{asm(opcode.CALL, 3, opcode.RET, rep(opcode.NOP, 114), opcode.RET)}, gasLimit: 1, base: 16, kind: "corpus:gas-over-nested"})
	// boundaries of narrow integers: 255/256/257 elements through NEWARRAY / UNPACK / PACK / REVERSEN, the biggest
	// slots a one-byte operand allows, the last slot index
	for _, n := range []int{255, 256, 257} {
		cs = append(cs, mk(fmt.Sprintf("pack-%d", n), bigGas, asm(opcode.PUSHINT16, byte(n), byte(n>>8), opcode.NEWARRAY, opcode.UNPACK, opcode.DUP, opcode.REVERSEN,
			opcode.PUSHINT16, byte(n), byte(n>>8), opcode.PACK, opcode.DUP, opcode.PUSHINT16, byte(n-1), byte((n-1)>>8), opcode.PUSH7, opcode.SETITEM, opcode.VALUES, opcode.SIZE, opcode.RET)))
	}
	cs = append(cs, mk("slots-255", bigGas, asm(opcode.INITSSLOT, 255, opcode.INITSLOT, 255, 0, opcode.NEWARRAY0, opcode.DUP, opcode.STLOC, 254, opcode.STSFLD, 254,
		opcode.LDLOC, 254, opcode.LDSFLD, 254, opcode.EQUAL, opcode.RET)))
	// what the limits prescribe for the boundary cases
	want := map[string][2]any{
		"corpus:try-16": {"HALT", 17}, "corpus:try-17": {"FAULT", 17},
		"corpus:call-depth": {"FAULT", 1024}, "corpus:load-depth": {"FAULT", 1024}, "corpus:load-depth-own": {"FAULT", 2 * 1024},
		"corpus:push-2048": {"HALT", 2049}, "corpus:push-2049": {"FAULT", 2049},
		"corpus:newarray-2047": {"HALT", 3}, "corpus:newarray-2048": {"FAULT", 2},
		"corpus:int-overflow": {"FAULT", 2}, "corpus:int-min": {"FAULT", 2}, "corpus:int-min-negate": {"FAULT", 2},
		"corpus:shl-256": {"FAULT", 5}, "corpus:cat-too-big": {"FAULT", 5}, "corpus:newbuffer-max+1": {"FAULT", 2},
		"corpus:pack-255": {"HALT", 0}, "corpus:pack-256": {"HALT", 0}, "corpus:pack-257": {"HALT", 0}, "corpus:slots-255": {"HALT", 0},
		"corpus:newbuffer-max": {"HALT", 3}, "corpus:cat-exact-max": {"HALT", 10},
		"corpus:gas-exact": {"HALT", 101}, "corpus:gas-zero": {"FAULT", 1}, "corpus:gas-over": {"FAULT", 100}, "corpus:gas-syscall": {"FAULT", 1},
		"corpus:setitem-compound-key": {"FAULT", 5}, "corpus:setitem-compound-key-array": {"FAULT", 6}, "corpus:packmap-compound-key": {"FAULT", 6},
		"corpus:call-depth-1024-ok": {"HALT", 0}, "corpus:call-depth-1025": {"FAULT", 0}, "corpus:mixed-2048": {"HALT", 0}, "corpus:mixed-2049": {"FAULT", 0},
		"corpus:gas-syscall-exact": {"HALT", 2}, "corpus:gas-exact-nested": {"HALT", 116}, "corpus:gas-over-nested": {"FAULT", 115},
		"corpus:dynamic-2": {"FAULT", 5}, "corpus:retcount-mismatch": {"FAULT", 4}, "corpus:dynamic-0": {"HALT", 4},
	}
	for _, c := range cs {
		if w, ok := want[c.kind]; ok {
			c.expect, c.maxSteps = w[0].(string), w[1].(int)
		}
	}
	return cs
}

func repTry(n int) []byte {
	var b []byte
	for i := 0; i < n; i++ {
		b = append(b, byte(opcode.TRY), 0, 3) // no catch, finally at +3 (the next instruction)
	}
	return b
}
