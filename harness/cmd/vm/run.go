package main

// run.go: single-steps the real VM over one case (a set of scripts, a gas limit, a price base),
// checks the property's oracle on the real state after EVERY instruction and prints the
// correspondence lines for the Lean accounting model.
//
// ops line:   i <NAME> <resolved args…> [|T <k> <c>] [!]
//               args are read off the real state before the step (counts, indices, key positions),
//               |T k c: the instruction raised a VM exception, k contexts were unloaded, c=1 the
//                       handler is a CATCH (exception pushed), c=0 a FINALLY
//               !     : the real step ended in FAULT for a reason the accounting model cannot see
//                       (types, ranges, …); "stack is too big" is NOT flagged: the model
//                       has to predict it from its own counter
//             e <obs>  (echo) once a case has executed an instruction outside the modelled set
// ops line:   gas <limit picoGAS | -1> <price base>   (first line of a case, echoed)
// obs line:   <NONE|HALT> <refs> <reach> <depth> <datoshi>   |   FAULT

import (
	"encoding/binary"
	"errors"
	"fmt"
	"strings"

	"github.com/nspcc-dev/neo-go/pkg/core/fee"
	"github.com/nspcc-dev/neo-go/pkg/smartcontract/callflag"
	"github.com/nspcc-dev/neo-go/pkg/smartcontract/scparser"
	"github.com/nspcc-dev/neo-go/pkg/util"
	"github.com/nspcc-dev/neo-go/pkg/vm"
	"github.com/nspcc-dev/neo-go/pkg/vm/opcode"
	"github.com/nspcc-dev/neo-go/pkg/vm/stackitem"
	"github.com/nspcc-dev/neo-go/pkg/vm/vmstate"

	"verif/harness/internal/hx"
)

const (
	sysMarker   = 0x5A
	sysLoad     = 1
	sysInterop  = 2
	sysError    = 3
	sysBurn     = 4
	sysMkArray  = 5
	sysPopOne   = 6
	maxStepsCap = 400000
)

func sysID(kind, idx, mode, nargs int) []byte {
	return []byte{byte(kind), byte(idx), byte(mode&3 | nargs<<2), sysMarker}
}

// world gives the scripts a SYSCALL may load.
type world interface {
	script(i int) ([]byte, bool)
}

type fixedWorld [][]byte

func (w fixedWorld) script(i int) ([]byte, bool) {
	if i < 0 || i >= len(w) {
		return nil, false
	}
	return w[i], true
}

func scriptHash(i int) util.Uint160 {
	var h util.Uint160
	h[0] = 0xC1
	h[1] = byte(i + 1)
	return h
}

func syscallHandler(w world) vm.SyscallHandler {
	return func(v *vm.VM, id uint32) error {
		var b [4]byte
		binary.LittleEndian.PutUint32(b[:], id)
		if b[3] != sysMarker {
			return errors.New("syscall not found")
		}
		switch b[0] {
		case sysLoad:
			s, ok := w.script(int(b[1]))
			if !ok {
				return errors.New("no such script")
			}
			mode, nargs := int(b[2]&3), int(b[2]>>2)
			if mode == 3 || v.Estack().Len() < nargs {
				return errors.New("bad load")
			}
			args := make([]stackitem.Item, nargs)
			for i := range args {
				args[i] = v.Estack().Pop().Item()
			}
			switch mode {
			case 0:
				v.LoadScriptWithHash(s, scriptHash(int(b[1])), callflag.All)
			case 1:
				v.LoadScriptWithFlags(s, callflag.All)
			default:
				v.LoadDynamicScript(s, callflag.All)
			}
			for i := len(args) - 1; i >= 0; i-- {
				v.Estack().PushItem(args[i])
			}
			return nil
		case sysInterop:
			v.Estack().PushItem(stackitem.NewInterop(int(b[1])))
			return nil
		case sysBurn:
			return v.AddDatoshi(int64(b[1]) * 1000)
		case sysMkArray:
			v.Estack().PushItem(stackitem.NewArray([]stackitem.Item{stackitem.Make(int(b[1])), stackitem.Null{}}))
			return nil
		case sysPopOne:
			if v.Estack().Len() == 0 {
				return errors.New("empty")
			}
			v.Estack().Pop()
			return nil
		}
		return errors.New("harness syscall failed")
	}
}

// caseProg is one case.
type caseProg struct {
	scripts  [][]byte
	gasLimit int64 // datoshi, < 0 = unlimited (then maxSteps bounds the run)
	base     int64 // price of one coefficient unit in picoGAS
	kind     string
	expect   string // corpus cases: the final state the limits prescribe ("" = none)
	maxSteps int    // corpus cases: exact number of executed instructions (0 = not checked)
}

func newVM(p *caseProg, w world) *vm.VM {
	v := vm.New()
	v.SyscallHandler = syscallHandler(w)
	base := p.base
	v.SetPriceGetter(func(op opcode.Opcode, _ []byte) int64 { return fee.Opcode(base, op) })
	v.SetGasLimit(p.gasLimit)
	return v
}

// boundaries of a script that passes the static check (nil otherwise).
func boundariesOf(s []byte) map[int]bool {
	if scparser.IsScriptCorrect(s, nil) != nil {
		return nil
	}
	b := map[int]bool{len(s): true}
	c := scparser.NewContext(s, 0)
	for c.NextIP() < len(s) {
		if _, _, err := c.Next(); err != nil {
			return nil // cannot happen: the check passed
		}
		b[c.IP()] = true
	}
	return b
}

func intOf(it stackitem.Item) (int, bool) {
	if it == nil {
		return 0, false
	}
	bi, err := it.TryInteger()
	if err != nil || !bi.IsInt64() {
		return 0, false
	}
	n := bi.Int64()
	if n < -(1<<31) || n > (1<<31)-1 {
		return 0, false
	}
	return int(n), true
}

func peek(v *vm.VM, i int) stackitem.Item {
	if v.Estack().Len() <= i {
		return nil
	}
	return v.Estack().Peek(i).Item()
}

var numbered = []string{"LDSFLD", "STSFLD", "LDLOC", "STLOC", "LDARG", "STARG"}

// describe renders the ops-line body of the instruction about to be executed and tells whether it
// belongs to the set of instructions the Lean accounting model executes. throws: the instruction
// raises a catchable exception by itself (out-of-range index, missing key).
func describe(v *vm.VM, op opcode.Opcode, param []byte) (body string, modelled bool, throws bool) {
	name := op.String()
	top := func() string {
		n, _ := intOf(peek(v, 0))
		return fmt.Sprintf("%s %d", name, n)
	}
	for _, pre := range numbered {
		if strings.HasPrefix(name, pre) {
			rest := name[len(pre):]
			if rest == "" {
				if len(param) == 1 {
					return fmt.Sprintf("%s %d", pre, param[0]), true, false
				}
				return name, true, false
			}
			return pre + " " + rest, true, false
		}
	}
	idxIn := func(container, key stackitem.Item) (int, string) {
		switch t := container.(type) {
		case *stackitem.Array, *stackitem.Struct:
			n, ok := intOf(key)
			if l := len(t.Value().([]stackitem.Item)); !ok || n < 0 || n >= l {
				return -1, "seq"
			}
			return n, "seq"
		case *stackitem.Map:
			if key == nil || stackitem.IsValidMapKey(key) != nil {
				return -1, "map"
			}
			return t.Index(key), "map"
		case *stackitem.Buffer:
			n, ok := intOf(key)
			if !ok || n < 0 || n >= t.Len() {
				return -1, "bytes"
			}
			return 0, "bytes"
		case nil:
			return -1, "none"
		default:
			b, err := t.TryBytes()
			n, ok := intOf(key)
			if err != nil || !ok || n < 0 || n >= len(b) {
				return -1, "bytes"
			}
			return 0, "bytes"
		}
	}
	switch op {
	case opcode.XDROP, opcode.PICK, opcode.ROLL, opcode.REVERSEN, opcode.NEWARRAY, opcode.NEWARRAYT,
		opcode.NEWSTRUCT, opcode.PACK, opcode.PACKSTRUCT:
		return top(), true, false
	case opcode.PACKMAP:
		n, _ := intOf(peek(v, 0))
		var sb strings.Builder
		fmt.Fprintf(&sb, "%s %d", name, n)
		if n >= 0 && 2*n <= v.Estack().Len()-1 {
			m := stackitem.NewMap()
			for i := 0; i < n; i++ {
				key, val := peek(v, 1+2*i), peek(v, 2+2*i)
				if isCompound(key) {
					// Map.Add panics on it: the model has to predict this FAULT (no `!`, see compoundKey)
					sb.WriteString(" -1")
					continue
				}
				if stackitem.IsValidMapKey(key) != nil {
					break
				}
				fmt.Fprintf(&sb, " %d", m.Index(key))
				m.Add(key, val)
			}
		}
		return sb.String(), true, false
	case opcode.PICKITEM:
		i, _ := idxIn(peek(v, 1), peek(v, 0))
		return fmt.Sprintf("%s %d", name, i), true, i < 0
	case opcode.SETITEM:
		i, kind := idxIn(peek(v, 2), peek(v, 1))
		return fmt.Sprintf("%s %d", name, i), true, i < 0 && kind != "map"
	case opcode.REMOVE:
		i, _ := idxIn(peek(v, 1), peek(v, 0))
		return fmt.Sprintf("%s %d", name, i), true, false
	case opcode.CONVERT, opcode.INITSSLOT:
		if len(param) == 1 {
			return fmt.Sprintf("%s %d", name, param[0]), true, false
		}
	case opcode.INITSLOT:
		if len(param) == 2 {
			return fmt.Sprintf("%s %d %d", name, param[0], param[1]), true, false
		}
	case opcode.SYSCALL:
		if len(param) == 4 && param[3] == sysMarker {
			switch param[0] {
			case sysLoad:
				return fmt.Sprintf("SYSCALL load %d %d", param[2]&3, param[2]>>2), true, false
			case sysInterop:
				return "SYSCALL push", true, false
			case sysBurn:
				// the handler charges AddDatoshi(n*1000): n*1000*ExecFeeFactorMultiplier picoGAS
				return fmt.Sprintf("SYSCALL burn %d", int64(param[1])*1000*vm.ExecFeeFactorMultiplier), true, false
			case sysMkArray:
				return "SYSCALL mkarray", true, false
			case sysPopOne:
				return "SYSCALL pop", true, false
			}
		}
		return "SYSCALL other", true, false // fails in the handler: flagged fault
	case opcode.CALLT:
		return name, false, false
	case opcode.THROW:
		return name, true, true
	case opcode.TRY, opcode.TRYL:
		// which handler offsets are present (an offset of 0 means "none", vm.go:1849-1855): the model
		// keeps the try stacks itself and computes the unwinding outcome from them
		var c, f int32
		if op == opcode.TRY && len(param) == 2 {
			c, f = int32(int8(param[0])), int32(int8(param[1]))
		} else if op == opcode.TRYL && len(param) == 8 {
			c, f = int32(binary.LittleEndian.Uint32(param[:4])), int32(binary.LittleEndian.Uint32(param[4:]))
		}
		b2i := func(b bool) int {
			if b {
				return 1
			}
			return 0
		}
		return fmt.Sprintf("%s %d %d", name, b2i(c != 0), b2i(f != 0)), true, false
	}
	return name, true, false
}

// compoundKey: the instruction about to run is a SETITEM / PACKMAP whose key operand (one of the
// n key operands) is an Array, Struct or Map. validateMapKey (vm.go:1454) / Map.Add (item.go:875)
// panic on it; the accounting model carries that check itself (Machine.lean setitemTail,
// packMapLoop), so such a FAULT is not flagged with `!`.
func compoundKey(v *vm.VM, op opcode.Opcode) bool {
	switch op {
	case opcode.SETITEM:
		return isCompound(peek(v, 1))
	case opcode.PACKMAP:
		n, ok := intOf(peek(v, 0))
		if !ok || n < 0 || 2*n > v.Estack().Len()-1 {
			return false
		}
		for i := 0; i < n; i++ {
			if isCompound(peek(v, 1+2*i)) {
				return true
			}
		}
	}
	return false
}

type stepInfo struct {
	depth  int
	stacks []*vm.Stack // estack of every context, bottom first
	lens   []int
}

func snapshot(v *vm.VM) stepInfo {
	is := v.Istack()
	si := stepInfo{depth: len(is), stacks: make([]*vm.Stack, len(is)), lens: make([]int, len(is))}
	for i, c := range is {
		si.stacks[i] = c.Estack()
		si.lens[i] = c.Estack().Len()
	}
	return si
}

type runResult struct {
	state   string
	steps   int
	gas     int64
	refs    int
	cyclic  bool
	leaked  bool
	maxRefs int
	maxDep  int
}

type runner struct {
	o *hx.Out
	k int
}

func popsOfThrower(op opcode.Opcode) int {
	switch op {
	case opcode.THROW:
		return 1
	case opcode.PICKITEM:
		return 2
	case opcode.SETITEM:
		return 3
	}
	return 0
}

// exec runs one case on a fresh real VM, one instruction at a time.
func (rn *runner) exec(p *caseProg, emit bool) runResult {
	o := rn.o
	w := fixedWorld(p.scripts)
	v := newVM(p, w)
	bounds := map[*byte]map[int]bool{}
	idxOf := map[*byte]int{}
	for i, s := range p.scripts {
		if len(s) > 0 {
			bounds[&s[0]] = boundariesOf(s)
			idxOf[&s[0]] = i
			verdict := "bad"
			if bounds[&s[0]] != nil {
				verdict = "ok"
			}
			if emit {
				o.Count("script:static-check-" + verdict)
				if len(s) <= 1536 {
					o.Line("chk "+hx.Hex(s), verdict)
				}
			}
		}
	}
	var (
		res       runResult
		hookOp    opcode.Opcode
		hookIP    int
		everCyc   bool
		exactOff  bool // an exactness mismatch was already reported for this case
		underOff  bool // an under-count was already reported for this case
		lost      bool
		pendExc   bool
		lastOp    = "LOAD"
		badIP     string
		checkedIP int
	)
	v.SetOnExecHook(func(_ util.Uint160, off int, op opcode.Opcode) {
		hookOp, hookIP = op, off
		c := v.Context()
		prog := c.Program()
		if len(prog) == 0 {
			return
		}
		if b := bounds[&prog[0]]; b != nil {
			checkedIP++
			if !b[off] && badIP == "" {
				badIP = fmt.Sprintf("script %d offset %d (%s)", idxOf[&prog[0]], off, op)
			}
		}
	})
	v.LoadScriptWithHash(p.scripts[0], scriptHash(0), callflag.All)
	// LoadScriptWithHash sets rvcount=1 for the entry script too, which only matters with a caller.

	check := func(stepped bool) string {
		st := v.State()
		if st.HasFlag(vmstate.Fault) {
			return "FAULT"
		}
		wr := walkVM(v)
		refs := v.VerifRefs()
		depth := len(v.Istack())
		if refs > res.maxRefs {
			res.maxRefs = refs
		}
		if depth > res.maxDep {
			res.maxDep = depth
		}
		if wr.cyclic {
			everCyc = true
		}
		if wr.reach > vm.MaxStackSize {
			o.Fail("reach-gt-2048", rn.k, "after %s: %d items reachable by walking, VM counter %d, state %s", lastOp, wr.reach, refs, st)
		}
		if wr.reach > refs && !underOff {
			underOff = true // reported once per case, keyed by the instruction after which it first shows
			res.leaked = true
			o.Fail("under-count-after-"+lastOp, rn.k, "after %s: %d items reachable by walking but the VM counts %d", lastOp, wr.reach, refs)
		}
		if wr.badInt != "" {
			o.Fail("integer-out-of-range", rn.k, "after %s: integer %s on a stack/slot/compound", lastOp, wr.badInt)
		}
		if wr.badSize != 0 {
			o.Fail("item-too-big", rn.k, "after %s: byte string/buffer of %d bytes", lastOp, wr.badSize)
		}
		if depth > vm.MaxInvocationStackSize {
			o.Fail("depth-gt-1024", rn.k, "after %s: invocation depth %d", lastOp, depth)
		}
		name := "NONE"
		if st.HasFlag(vmstate.Halt) {
			name = "HALT"
		}
		_ = stepped
		return fmt.Sprintf("%s %d %d %d", name, refs, wr.reach, depth)
	}
	// withGas completes an observation with the consumed datoshi
	withGas := func(obs string) string {
		if obs == "FAULT" {
			return obs
		}
		return fmt.Sprintf("%s %d", obs, v.GasConsumed())
	}
	// exactness: without cycles the counter equals what a walk from the roots finds — strictly, also after
	// exception unwinding across evaluation stacks (handleException releases what it drops, /repo 65b0965).
	// A mismatch that first shows at an instruction that unwound across an evaluation stack keeps the key of the
	// former finding.
	exactness := func(obs string, unwoundAcross bool, droppedPrims, droppedAll int) {
		if exactOff || underOff || everCyc || obs == "FAULT" {
			return
		}
		var refs, reach, depth int
		var st string
		fmt.Sscanf(obs, "%s %d %d %d", &st, &refs, &reach, &depth)
		if refs == reach {
			return
		}
		exactOff = true
		res.leaked = true
		if unwoundAcross && refs > reach {
			o.Fail("unwind-across-estack", rn.k, "after %s unwinding to a context with another evaluation stack: VM counter %d, %d reachable by walking (dropped stack(s) held %d items, %d of them primitives), no cyclic structure was ever built", lastOp, refs, reach, droppedAll, droppedPrims)
		} else {
			o.Fail("refs-mismatch-after-"+lastOp, rn.k, "after %s: VM counter %d, %d reachable by walking, no cyclic structure was ever built", lastOp, refs, reach)
		}
	}

	if emit {
		// the gas configuration of the case: limit in picoGAS (SetGasLimit multiplies a positive limit), price base
		lim := p.gasLimit
		if lim > 0 {
			lim *= vm.ExecFeeFactorMultiplier
		} else if lim < 0 {
			lim = -1
		}
		cfgLine := fmt.Sprintf("gas %d %d", lim, p.base)
		o.Line(cfgLine, cfgLine)
		o.Line("load", withGas(check(false)))
	}
	for {
		st := v.State()
		if st.HasFlag(vmstate.Halt) || st.HasFlag(vmstate.Fault) {
			break
		}
		if res.steps >= maxStepsCap {
			// theorem `total`: at most (limit/base + 1) * (MaxInvocationStackSize + 1) + 2 instructions
			bound := (float64(p.gasLimit)*float64(vm.ExecFeeFactorMultiplier)/float64(p.base)+1)*float64(vm.MaxInvocationStackSize+1) + 2
			if p.gasLimit >= 0 && float64(res.steps) > bound {
				o.Fail("no-termination", rn.k, "%d instructions executed under gas limit %d (price base %d)", res.steps, p.gasLimit, p.base)
			} else if emit {
				o.Count("cut:step-cap (gas limit allows more instructions than the harness executes)")
			}
			res.state = "CUT"
			break
		}
		ctx := v.Context()
		// decode the instruction about to run (on a copy of the parsing context)
		pc := scparser.NewContext(ctx.Program(), ctx.NextIP())
		op, param, derr := pc.Next()
		var body string
		modelled, throws := true, false
		if derr == nil {
			body, modelled, throws = describe(v, op, param)
		} else {
			body = "BAD"
		}
		// a cyclic structure may be built and orphaned by the same instruction (m[k] = m with the
		// operands as the only references): look at the operands, not only at what stays reachable
		if derr == nil && (op == opcode.APPEND || op == opcode.SETITEM) {
			item, cont := peek(v, 0), peek(v, 1)
			if op == opcode.SETITEM {
				cont = peek(v, 2)
			}
			if item != nil && cont != nil && reachesItem(item, cont) {
				everCyc = true
			}
		}
		keyFault := derr == nil && compoundKey(v, op)
		before := snapshot(v)
		throwerStack := v.Estack()
		mayRaise := throws || (op == opcode.ENDFINALLY && pendExc)
		var contents map[*vm.Stack][]stackitem.Item // top first, only when an exception may be raised
		if mayRaise {
			contents = map[*vm.Stack][]stackitem.Item{}
			for _, s := range before.stacks {
				if _, ok := contents[s]; !ok {
					its := make([]stackitem.Item, s.Len())
					for j := range its {
						its[j] = s.Peek(j).Item()
					}
					contents[s] = its
				}
			}
		}
		var stepErr error
		panicked := func() (p bool) {
			defer func() {
				if r := recover(); r != nil {
					p = true
					o.Fail("panic-escapes", rn.k, "Step() panicked on %s at %d: %v", op, ctx.NextIP(), r)
				}
			}()
			stepErr = v.Step()
			return false
		}()
		res.steps++
		if panicked {
			res.state = "PANIC"
			if emit {
				o.Line("e PANIC", "PANIC")
			}
			return res
		}
		lastOp = hookOp.String()
		if derr != nil {
			lastOp = "BAD"
		}
		_ = hookIP
		obs := check(true)
		// exception unwinding: what happened?
		unwind := ""
		unwoundAcross := false
		droppedPrims, droppedAll := 0, 0
		raised := mayRaise
		if raised && obs != "FAULT" {
			after := v.Istack()
			kpop := before.depth - len(after)
			hctx := after[len(after)-1]
			hst := hctx.Estack()
			base := before.lens[len(after)-1]
			if hst == throwerStack {
				base = before.lens[before.depth-1] - popsOfThrower(op)
			}
			c := hst.Len() - base
			if c != 0 && c != 1 {
				o.Fail("unwind-shape", rn.k, "after %s: handler stack length %d, expected %d or %d", op, hst.Len(), base, base+1)
				c = 1
			}
			pendExc = c == 0
			unwind = fmt.Sprintf(" |T %d %d", kpop, c)
			seenSt := map[*vm.Stack]bool{hst: true}
			for i := len(after); i < before.depth; i++ {
				s := before.stacks[i]
				if seenSt[s] {
					continue
				}
				seenSt[s] = true
				unwoundAcross = true
				its := contents[s]
				if s == throwerStack { // the thrower's own pops were done with accounting
					its = its[min(popsOfThrower(op), len(its)):]
				}
				for _, it := range its {
					droppedAll++
					if _, comp := children(it); !comp {
						droppedPrims++
					}
				}
			}
			if emit {
				o.Count(fmt.Sprintf("unwind:k=%d,c=%d", min(kpop, 3), c))
				if unwoundAcross {
					o.Count("unwind:across-estack")
				}
			}
		} else if raised {
			pendExc = false
		}
		// loadScriptWithCallingHash (vm.go:490): the loaded script shares the caller's evaluation stack iff it is
		// loaded with rvcount = -1 (modes 1, 2) and the caller's stack is empty once the arguments are taken
		// (theorem load_shares_iff / shared_stack_unwind)
		if derr == nil && op == opcode.SYSCALL && len(param) == 4 && param[3] == sysMarker && param[0] == sysLoad && obs != "FAULT" {
			if is := v.Istack(); len(is) == before.depth+1 && before.depth > 0 {
				mode, nargs := int(param[2]&3), int(param[2]>>2)
				shared := is[len(is)-1].Estack() == before.stacks[before.depth-1]
				want := mode != 0 && before.lens[before.depth-1]-nargs == 0
				if shared != want {
					o.Fail("load-stack-sharing", rn.k, "script loaded with mode %d and %d arguments on a caller stack of %d items: shares the caller's stack = %v, expected %v", mode, nargs, before.lens[before.depth-1], shared, want)
				}
				if emit {
					if shared {
						o.Count("load:shares-caller-stack")
					} else {
						o.Count("load:own-stack")
					}
				}
			}
		}
		obs = withGas(obs)
		flag := ""
		tryFault := stepErr != nil && strings.Contains(stepErr.Error(), "maximum TRY depth exceeded")
		if tryFault && emit {
			o.Count("fault:try-depth (predicted by the model)")
		}
		gasFault := tryFault || (stepErr != nil && strings.Contains(stepErr.Error(), vm.ErrGASLimitExceeded.Error()))
		if gasFault && !tryFault && emit {
			o.Count("fault:gas-limit (predicted by the model)")
		}
		if obs == "FAULT" && (stepErr == nil || !strings.Contains(stepErr.Error(), "stack is too big")) && !keyFault && !gasFault {
			// neither "stack is too big: n vs 2048" nor "invocation stack is too big: n" is flagged,
			// nor a compound map key in SETITEM / PACKMAP, nor an exceeded gas limit (opcode price or a
			// SYSCALL handler's charge): the model predicts those
			flag = " !"
		}
		if keyFault {
			if obs != "FAULT" {
				o.Fail("compound-map-key-accepted", rn.k, "%s with an Array/Struct/Map as key did not FAULT", op)
			} else if emit {
				o.Count("fault:compound-map-key (predicted by the model)")
			}
		}
		if emit {
			if !modelled {
				lost = true
			}
			if lost {
				o.Line("e "+obs, obs)
				o.Count("lines:echoed")
			} else {
				o.Line("i "+body+unwind+flag, obs)
				o.Count("lines:modelled")
			}
			o.Count("op:" + lastOp)
			if obs == "FAULT" {
				o.Count("fault:" + faultClass(stepErr))
				if dumpFaults && stepErr != nil {
					o.Count("faultmsg:" + p.kind + ":" + trunc(stepErr.Error(), 90))
				}
			}
		}
		exactness(obs, unwoundAcross, droppedPrims, droppedAll)
	}
	st := v.State()
	switch {
	case st.HasFlag(vmstate.Fault):
		res.state = "FAULT"
	case st.HasFlag(vmstate.Halt):
		res.state = "HALT"
		if p.gasLimit >= 0 && v.GasConsumed() > v.GasLimit() {
			o.Fail("gas-over-limit", rn.k, "HALT with %d datoshi consumed, limit %d", v.GasConsumed(), v.GasLimit())
		}
	default:
		if res.state != "CUT" {
			res.state = st.String()
			o.Fail("bad-final-state", rn.k, "run ended in state %s", st)
		}
	}
	if badIP != "" {
		o.Fail("non-boundary-ip", rn.k, "a script that passes IsScriptCorrect executed %s", badIP)
	}
	if emit {
		o.Add("ips-checked-against-boundaries", checkedIP)
		o.Add("steps", res.steps)
	}
	res.gas = v.GasConsumed()
	res.refs = v.VerifRefs()
	res.cyclic = everCyc
	return res
}

var dumpFaults bool



func trunc(s string, n int) string {
	if len(s) > n {
		return s[:n]
	}
	return s
}

func faultClass(err error) string {
	if err == nil {
		return "none"
	}
	s := err.Error()
	for _, c := range []string{"stack is too big", "gas limit", "invocation stack is too big", "unhandled exception", "too big", "TRY depth",
		"out of range", "invalid offset", "incorrect opcode", "failed to read instruction parameter", "ABORT", "ASSERT", "invalid conversion",
		"not an int32", "index out of range", "nil pointer", "invalid return values count", "slot", "already initialized", "multiple return"} {
		if strings.Contains(s, c) {
			return strings.ReplaceAll(c, " ", "-")
		}
	}
	return "other"
}

// runWhole runs the same case with Run() (no stepping, no hook) and compares the outcome: the
// property speaks about Run(), the stepping is only how the intermediate states are observed.
func (rn *runner) runWhole(p *caseProg, stepped runResult) {
	if stepped.state == "CUT" {
		return // Run() would go on until the gas is used up
	}
	v := newVM(p, fixedWorld(p.scripts))
	v.LoadScriptWithHash(p.scripts[0], scriptHash(0), callflag.All)
	panicked := func() (pn bool) {
		defer func() {
			if r := recover(); r != nil {
				pn = true
				rn.o.Fail("panic-escapes", rn.k, "Run() panicked: %v", r)
			}
		}()
		_ = v.Run()
		return false
	}()
	if panicked || stepped.state == "PANIC" || stepped.steps >= maxStepsCap {
		return
	}
	st := "other"
	switch {
	case v.State().HasFlag(vmstate.Fault):
		st = "FAULT"
	case v.State().HasFlag(vmstate.Halt):
		st = "HALT"
	}
	if st == "other" {
		rn.o.Fail("bad-final-state", rn.k, "Run() ended in state %s", v.State())
	}
	if st != stepped.state || v.GasConsumed() != stepped.gas || (st == "HALT" && v.VerifRefs() != stepped.refs) {
		rn.o.Fail("run-step-differ", rn.k, "Run(): %s gas %d refs %d; stepping: %s gas %d refs %d", st, v.GasConsumed(), v.VerifRefs(), stepped.state, stepped.gas, stepped.refs)
	}
	if st == "HALT" && p.gasLimit >= 0 && v.GasConsumed() > v.GasLimit() {
		rn.o.Fail("gas-over-limit", rn.k, "Run(): HALT with %d datoshi consumed, limit %d", v.GasConsumed(), v.GasLimit())
	}
}
