package main

// The unexported bookkeeping of mempool.Pool, read with reflect (reading through unexported fields is
// allowed, only Interface()/Set are not): fees, conflicts, oracleResp, feePerByte, item.blockStamp.
// The harness prints it after every call (the Lean driver prints the same from the model) and
// recomputes it from the listed transactions (the oracle). A renamed field makes the harness stop.

import (
	"fmt"
	"math/big"
	"reflect"
	"sort"
	"strings"

	"github.com/nspcc-dev/neo-go/pkg/util"
)

type feeEntry struct {
	pk       payerKey
	bal, sum *big.Int
}

type deepState struct {
	cfKeys []int
	cf     map[int][]int // conflicts: named hash -> pooled transactions naming it, in slice order
	orKeys []int
	or     map[int]int // oracleResp: request id -> pooled response
	fees   []feeEntry  // sorted by payer
	pol    int64
	stamps []uint32 // blockStamp of the listed items, in list order
	thr    uint32
	cap    int
}

func (r *runner) hashIdx(v reflect.Value) int {
	var h util.Uint256
	for i := 0; i < len(h); i++ {
		h[i] = byte(v.Index(i).Uint())
	}
	if i, ok := r.byH[h]; ok {
		return i
	}
	if h[0] == 0xEE {
		return int(h[30])<<8 | int(h[31])
	}
	return -1
}

func (r *runner) acctIdx(v reflect.Value) int {
	var a util.Uint160
	for i := 0; i < len(a); i++ {
		a[i] = byte(v.Index(i).Uint())
	}
	if i, ok := r.fe.acc[a]; ok {
		return i
	}
	return -1
}

func u256(v reflect.Value) *big.Int { // uint256.Int = [4]uint64, least significant limb first
	res := new(big.Int)
	for i := 3; i >= 0; i-- {
		res.Lsh(res, 64)
		res.Or(res, new(big.Int).SetUint64(v.Index(i).Uint()))
	}
	return res
}

func field(v reflect.Value, name string) reflect.Value {
	f := v.FieldByName(name)
	if !f.IsValid() {
		panic("harness: mempool.Pool has no field " + name + " any more; update harness/cmd/mempool/deep.go and the model")
	}
	return f
}

func (r *runner) readDeep() *deepState {
	v := reflect.ValueOf(r.mp).Elem()
	d := &deepState{cf: map[int][]int{}, or: map[int]int{}}
	it := field(v, "conflicts").MapRange()
	for it.Next() {
		k := r.hashIdx(it.Key())
		var l []int
		for i := 0; i < it.Value().Len(); i++ {
			l = append(l, r.hashIdx(it.Value().Index(i)))
		}
		d.cf[k] = l
		d.cfKeys = append(d.cfKeys, k)
	}
	sort.Ints(d.cfKeys)
	it = field(v, "oracleResp").MapRange()
	for it.Next() {
		k := int(it.Key().Uint())
		d.or[k] = r.hashIdx(it.Value())
		d.orKeys = append(d.orKeys, k)
	}
	sort.Ints(d.orKeys)
	it = field(v, "fees").MapRange()
	for it.Next() {
		pk := payerKey{r.acctIdx(field(it.Key(), "primary")), r.acctIdx(field(it.Key(), "secondary"))}
		d.fees = append(d.fees, feeEntry{pk, u256(field(it.Value(), "balance")), u256(field(it.Value(), "feeSum"))})
	}
	sort.Slice(d.fees, func(i, j int) bool {
		a, b := d.fees[i].pk, d.fees[j].pk
		return a.p < b.p || a.p == b.p && a.s < b.s
	})
	d.pol = field(v, "feePerByte").Int()
	d.thr = uint32(field(v, "resendThreshold").Uint())
	d.cap = int(field(v, "capacity").Int())
	items := field(v, "verifiedTxes")
	for i := 0; i < items.Len(); i++ {
		d.stamps = append(d.stamps, uint32(field(items.Index(i), "blockStamp").Uint()))
	}
	return d
}

// format prints the bookkeeping the way the driver does; dropZero omits fee entries with an empty sum
// (after a concurrent phase: which calls filled the balance cache is not part of the recorded order).
func (d *deepState) format(dropZero bool) string {
	var cf, or, fees, st []string
	for _, k := range d.cfKeys {
		cf = append(cf, fmt.Sprintf("%d:%s", k, csv(d.cf[k])))
	}
	for _, k := range d.orKeys {
		or = append(or, fmt.Sprintf("%d:%d", k, d.or[k]))
	}
	for _, e := range d.fees {
		if dropZero && e.sum.Sign() == 0 {
			continue
		}
		fees = append(fees, fmt.Sprintf("%d.%d:%s/%s", e.pk.p, e.pk.s, e.bal, e.sum))
	}
	for _, s := range d.stamps {
		st = append(st, fmt.Sprint(s))
	}
	j := func(l []string, sep string) string {
		if len(l) == 0 {
			return "-"
		}
		return strings.Join(l, sep)
	}
	return fmt.Sprintf("st=%s cf=%s or=%s fees=%s pol=%d", j(st, ","), j(cf, ";"), j(or, ","), j(fees, ","), d.pol)
}

// metricsCb is the pool's updateMetricsCb. Add (on success) and Remove call it inside their critical
// section, so during a concurrent phase it also records the order of those critical sections.
func (r *runner) metricsCb(n int) {
	if c := r.conc; c != nil {
		c.lockPoint(n)
		return
	}
	r.metric = n
}

// checkDeep recomputes the reverse indexes and the fee sums from the listed transactions.
func (r *runner) checkDeep(line string, s *snapshot) {
	if r.sc.malformed {
		return
	}
	defs := r.sc.defs
	d := s.deep
	// conflicts = exactly the Conflicts attributes of the pooled transactions
	want := map[int]map[int]bool{}
	for _, i := range s.list {
		if i < 0 {
			return
		}
		for _, c := range defs[i].conflicts {
			if want[c] == nil {
				want[c] = map[int]bool{}
			}
			want[c][i] = true
		}
	}
	for k, l := range d.cf {
		seen := map[int]bool{}
		for _, i := range l {
			if !want[k][i] || seen[i] {
				r.fail("conflicts-index", "after %s: conflicts[%d] = %v but the pooled transactions naming %d are %v (listed %v)", line, k, l, k, keysOf(want[k]), s.list)
			}
			seen[i] = true
		}
		if len(l) != len(want[k]) {
			r.fail("conflicts-index", "after %s: conflicts[%d] = %v but the pooled transactions naming %d are %v (listed %v)", line, k, l, k, keysOf(want[k]), s.list)
		}
	}
	for k := range want {
		if _, ok := d.cf[k]; !ok {
			r.fail("conflicts-index", "after %s: conflicts has no entry for %d, named by pooled %v", line, k, keysOf(want[k]))
		}
	}
	// oracleResp = exactly the pooled oracle responses
	wantOr := map[int]int{}
	for _, i := range s.list {
		if id := defs[i].oracle; id >= 0 {
			wantOr[int(id)] = i
		}
	}
	if len(wantOr) != len(d.or) {
		r.fail("oracle-index", "after %s: oracleResp = %v, pooled responses %v", line, d.or, wantOr)
	}
	for id, i := range wantOr {
		if j, ok := d.or[id]; !ok || j != i {
			r.fail("oracle-index", "after %s: oracleResp = %v, pooled responses %v", line, d.or, wantOr)
		}
	}
	// fee sums: the cached sum of a payer is the sum over its pooled transactions, and not above the cached balance
	sum := map[payerKey]int64{}
	for _, i := range s.list {
		sum[payerOfDef(defs[i])] += defs[i].tx.SystemFee + defs[i].tx.NetworkFee
	}
	cached := map[payerKey]bool{}
	for _, e := range d.fees {
		cached[e.pk] = true
		if e.sum.Cmp(big.NewInt(sum[e.pk])) != 0 {
			r.fail("fee-sum", "after %s: cached fee sum of payer (%d,%d) is %s, its pooled transactions sum to %d (listed %v)", line, e.pk.p, e.pk.s, e.sum, sum[e.pk], s.list)
		}
		if e.sum.Cmp(e.bal) > 0 {
			r.fail("fee-sum", "after %s: cached fee sum %s of payer (%d,%d) exceeds the cached balance %s", line, e.sum, e.pk.p, e.pk.s, e.bal)
		}
	}
	for pk, v := range sum {
		if v != 0 && !cached[pk] {
			r.fail("fee-sum", "after %s: payer (%d,%d) has pooled fees %d but no cache entry", line, pk.p, pk.s, v)
		}
	}
	// item stamps: the height at which the transaction was added
	for j, i := range s.list {
		if j < len(d.stamps) && d.stamps[j] != r.stampOf[i] {
			r.fail("stamp", "after %s: item %d carries block stamp %d, it was added at height %d", line, i, d.stamps[j], r.stampOf[i])
		}
	}
	// item data, through TryGetData and IterateVerifiedTransactions
	for j, i := range s.list {
		if got, ok := s.data[i]; !ok || got != r.dataOf[i] {
			r.fail("index-data", "after %s: TryGetData(%d) = (%d, %v), it was added with data %d (listed %v)", line, i, got, ok, r.dataOf[i], s.list)
		}
		if j < len(s.it) && (s.it[j].id != i || s.it[j].data != r.dataOf[i]) {
			r.fail("iterate", "after %s: IterateVerifiedTransactions yields %s, listed %v", line, pairs(s.it), s.list)
		}
	}
	if len(s.it) != len(s.list) {
		r.fail("iterate", "after %s: IterateVerifiedTransactions yields %s, listed %v", line, pairs(s.it), s.list)
	}
	if d.cap != r.sc.cap {
		r.fail("capacity", "after %s: the capacity field is %d, the pool was created with %d", line, d.cap, r.sc.cap)
	}
	// the metrics callback: Add (on success) and Remove report the new size, nothing else reports
	wantMetric := -1
	if r.metricExpected {
		wantMetric = len(s.list)
	}
	if r.metric != wantMetric {
		r.fail("metrics", "after %s: the metrics callback was given %d (-1 = not called), expected %d; %d transactions are pooled", line, r.metric, wantMetric, len(s.list))
	}
}

func keysOf(m map[int]bool) []int {
	var l []int
	for k := range m {
		l = append(l, k)
	}
	sort.Ints(l)
	return l
}

// checkEvents replays the subscription events of the last call on the harness's own copy of the pool
// content: an added event must name a transaction that was not pooled, a removed event one that was
// (with the data it was added with); afterwards the content is exactly the listed set. After a
// concurrent phase (unordered) only the balance per transaction is checked.
func (r *runner) checkEvents(line string, s *snapshot, unordered bool) {
	if !r.subsOn {
		if len(s.events) != 0 {
			r.fail("events", "after %s: events without a running subscription: %s", line, eventsString(s.events, false))
		}
		return
	}
	if r.sc.malformed {
		return
	}
	if unordered {
		delta := map[int]int{}
		for _, e := range s.events {
			if e.added {
				delta[e.id]++
			} else {
				delta[e.id]--
			}
		}
		in := map[int]bool{}
		for _, i := range s.list {
			in[i] = true
		}
		for i := range r.sc.defs {
			_, was := r.content[i]
			if b2i(was)+delta[i] != b2i(in[i]) {
				r.fail("events", "after %s: transaction %d: pooled before %v, added-minus-removed events %d, pooled now %v", line, i, was, delta[i], in[i])
			}
		}
		r.content = map[int]int{}
		for _, i := range s.list {
			r.content[i] = r.dataOf[i]
		}
		return
	}
	for _, e := range s.events {
		d, in := r.content[e.id]
		switch {
		case e.added && in:
			r.fail("events", "after %s: added event for %d, which the earlier events say is pooled (%s)", line, e.id, eventsString(s.events, false))
		case e.added:
			r.content[e.id] = e.data
		case !in:
			r.fail("events", "after %s: removed event for %d, which the earlier events say is not pooled (%s)", line, e.id, eventsString(s.events, false))
		default:
			if d != e.data {
				r.fail("events", "after %s: removed event for %d carries data %d, it was added with %d", line, e.id, e.data, d)
			}
			delete(r.content, e.id)
		}
	}
	ok := len(r.content) == len(s.list)
	for _, i := range s.list {
		if d, in := r.content[i]; !in || d != r.dataOf[i] {
			ok = false
		}
	}
	if !ok {
		r.fail("events", "after %s: the replay of all events gives %v, listed %v (last events %s)", line, r.content, s.list, eventsString(s.events, false))
	}
}
