package main

// Concurrent phase: several goroutines call Add / Remove / Verify / RemoveStale on the real pool at
// the same time. The model treats every exported method as one atomic step, so the outcome must be
// the outcome of SOME sequential order of the calls that respects real time. The harness recovers
// that order from inside the pool's critical sections:
//   - Add (on success) and Remove call updateMetricsCb while they hold the lock,
//   - RemoveStale calls feer.FeePerByte() (loadPolicy) while it holds the lock,
// and each of these hooks draws a ticket from one atomic counter: the ticket order of the
// state-changing calls is the lock order. Calls without a hook (Verify, a failing Add) do not
// change the model state except for a neutral balance-cache entry; for them the harness records the
// tickets drawn just before the call and just after it returned, i.e. the window of positions in the
// lock order at which the call can have taken effect. The driver replays the state-changing calls
// in lock order and checks that every other call has a position inside its window that yields the
// observed result. Which calls run concurrently is up to the Go scheduler: the lines of a
// concurrent phase are not reproducible from the seed, their agreement with the model is.
//
// Verify takes the write lock since e6b4f6b (it fills the balance cache): overlapping Verify calls are
// ordinary concurrent calls here; the -race run of the thorough tier keeps an eye on them (race.go).

import (
	"bytes"
	"fmt"
	"math/big"
	"runtime"
	"sort"
	"strconv"
	"sync"
	"sync/atomic"
	"time"

	"github.com/nspcc-dev/neo-go/pkg/core/transaction"
	"github.com/nspcc-dev/neo-go/pkg/util"
)

type cop struct {
	op
	client         int
	inv, resp, lin int64 // tickets: before the call, after it, inside its critical section (0 = no hook ran)
	err            error
	verdict        bool
	panicked       bool
}

// concTimeout: how long a concurrent phase may take (it takes microseconds unless a call panicked while holding the lock).
var concTimeout = 20 * time.Second

type concState struct {
	ticket  atomic.Int64
	pending sync.Map // goroutine id -> *cop (the call that goroutine is making)
}

// goid is the id of the calling goroutine (the metrics callback has no other way to tell which call it belongs to).
func goid() int64 {
	var b [64]byte
	s := b[:runtime.Stack(b[:], false)]
	s = bytes.TrimPrefix(s, []byte("goroutine "))
	if i := bytes.IndexByte(s, ' '); i > 0 {
		id, _ := strconv.ParseInt(string(s[:i]), 10, 64)
		return id
	}
	return -1
}

func (c *concState) lockPoint(int) {
	runtime.Gosched() // still inside the critical section: let the other clients run into the lock
	t := c.ticket.Add(1)
	if v, ok := c.pending.Load(goid()); ok {
		v.(*cop).lin = t
	}
}

// callFeer is the Feer of one call: the shared balances (read-only during the phase), its own policy value.
type callFeer struct {
	*feer
	fpb      int64
	onPolicy func()
}

func (f *callFeer) FeePerByte() int64 {
	if f.onPolicy != nil {
		runtime.Gosched() // inside RemoveStale's critical section, before its ticket
		f.onPolicy()
	}
	return f.fpb
}

func (f *callFeer) GetUtilityTokenBalance(p, s util.Uint160) *big.Int {
	runtime.Gosched() // inside the critical section of Add / Verify (payer not cached yet)
	return f.feer.GetUtilityTokenBalance(p, s)
}

func (r *runner) callConc(c *concState, cp *cop) {
	defs := r.sc.defs
	switch cp.kind {
	case opAdd:
		fe := &callFeer{feer: r.fe, fpb: r.fe.fpb}
		cp.inv = c.ticket.Add(1)
		cp.panicked = protect(func() {
			if cp.data != 0 {
				cp.err = r.mp.Add(defs[cp.i].tx, fe, cp.data)
			} else {
				cp.err = r.mp.Add(defs[cp.i].tx, fe)
			}
		})
		cp.resp = c.ticket.Add(1)
	case opRemove:
		cp.inv = c.ticket.Add(1)
		cp.panicked = protect(func() { r.mp.Remove(defs[cp.i].tx.Hash()) })
		cp.resp = c.ticket.Add(1)
	case opVerify:
		fe := &callFeer{feer: r.fe, fpb: r.fe.fpb}
		cp.inv = c.ticket.Add(1)
		cp.panicked = protect(func() { cp.verdict = r.mp.Verify(defs[cp.i].tx, fe) })
		cp.resp = c.ticket.Add(1)
	case opStale:
		fe := &callFeer{feer: r.fe, fpb: cp.fpb, onPolicy: func() { cp.lin = c.ticket.Add(1) }}
		drop := map[util.Uint256]bool{}
		for _, i := range cp.drops {
			drop[defs[i].tx.Hash()] = true
		}
		cp.inv = c.ticket.Add(1)
		cp.panicked = protect(func() {
			r.mp.RemoveStale(func(t *transaction.Transaction) bool { return !drop[t.Hash()] }, fe)
		})
		cp.resp = c.ticket.Add(1)
	}
}

// runConc runs one concurrent phase and prints its lines; nil = the case cannot go on.
func (r *runner) runConc(progs [][]op) *snapshot {
	o := r.o
	savedThr := r.threshold
	if savedThr != 0 {
		r.setThreshold(0) // the resend callback runs in its own goroutine: keep it out of the phase
	}
	o.Line("conc-begin", "ok")
	c := &concState{}
	perClient := make([][]*cop, len(progs))
	var all []*cop
	for ci, prog := range progs {
		for _, p := range prog {
			cp := &cop{op: p, client: ci}
			perClient[ci] = append(perClient[ci], cp)
			all = append(all, cp)
		}
	}
	r.conc = c
	// the clients start their n-th calls together (a gate per round), so that the calls really overlap
	rounds := 0
	for _, p := range perClient {
		if len(p) > rounds {
			rounds = len(p)
		}
	}
	gates := make([]chan struct{}, rounds)
	arrived := make([]atomic.Int32, rounds)
	expect := make([]int32, rounds)
	for n := range gates {
		gates[n] = make(chan struct{})
		for _, p := range perClient {
			if len(p) > n {
				expect[n]++
			}
		}
	}
	var wg sync.WaitGroup
	for ci := range progs {
		wg.Add(1)
		go func(mine []*cop) {
			defer wg.Done()
			id := goid()
			for n, cp := range mine {
				if arrived[n].Add(1) == expect[n] {
					close(gates[n])
				}
				<-gates[n]
				c.pending.Store(id, cp)
				r.callConc(c, cp)
			}
			c.pending.Delete(id)
		}(perClient[ci])
	}
	done := make(chan struct{})
	go func() { wg.Wait(); close(done) }()
	select {
	case <-done:
	case <-time.After(concTimeout):
		concTimeout = time.Second // a run that fails anyway: do not wait long again
		// a call that panicked inside the pool keeps the mutex: the other clients never return
		r.conc = nil
		r.fail("panic", "concurrent phase: the clients did not finish (a call panicked while holding the lock?)")
		o.Line("conc-end", "panic")
		return nil
	}
	r.conc = nil
	o.Count("conc:phases")
	o.Add("conc:calls", len(all))

	var writers []*cop
	for _, cp := range all {
		if cp.panicked {
			r.fail("panic", "concurrent phase: %s panicked", describe(cp))
			o.Line("conc-end", "panic")
			return nil
		}
		hooked := cp.lin != 0
		changes := cp.kind == opRemove || cp.kind == opStale || (cp.kind == opAdd && cp.err == nil)
		if hooked != changes {
			r.fail("conc-lockpoint", "concurrent phase: %s: returned %s, critical-section hook ran: %v", describe(cp), errClass(cp.err), hooked)
		}
		if hooked {
			writers = append(writers, cp)
		}
	}
	sort.Slice(writers, func(i, j int) bool { return writers[i].lin < writers[j].lin })
	switches := 0
	for n, w := range writers {
		switch w.kind {
		case opAdd:
			o.Line(fmt.Sprintf("cadd %d %d", w.i, w.data), errClass(w.err))
			r.stampOf[w.i] = r.fe.h
			r.dataOf[w.i] = w.data
			o.Count("conc:add-ok")
		case opRemove:
			o.Line(fmt.Sprintf("cremove %d", w.i), "ok")
			o.Count("conc:remove")
		case opStale:
			o.Line(fmt.Sprintf("cstale %d %s", w.fpb, csv(w.drops)), "ok")
			r.fe.fpb = w.fpb
			if w.fpb > r.maxPolicy {
				r.maxPolicy = w.fpb
			}
			o.Count("conc:stale")
		}
		if n > 0 && writers[n-1].client != w.client {
			switches++
		}
	}
	if switches >= len(progs) {
		o.Count("conc:lock-order-interleaves-clients")
	}
	pos := func(t int64) int { return sort.Search(len(writers), func(i int) bool { return writers[i].lin > t }) }
	for _, cp := range all {
		if cp.lin != 0 {
			continue
		}
		lo, hi := pos(cp.inv), pos(cp.resp)
		if hi > lo {
			o.Count("conc:window>1")
		}
		switch cp.kind {
		case opVerify:
			o.Line(fmt.Sprintf("at %d %d verify %d %v", lo, hi, cp.i, cp.verdict), "lin")
			o.Count("conc:verify")
		case opAdd:
			o.Line(fmt.Sprintf("at %d %d add %d %d %s", lo, hi, cp.i, cp.data, errClass(cp.err)), "lin")
			o.Count("conc:add-" + errClass(cp.err))
		}
	}
	var after *snapshot
	r.metric, r.metricExpected = -1, false
	if protect(func() {
		after = r.snap()
		r.checkInv("the concurrent phase", after)
		r.checkDeep("the concurrent phase", after)
		r.checkEvents("the concurrent phase", after, true)
		after.ver = r.verifyProbes()
	}) {
		r.fail("panic", "probe after the concurrent phase panicked")
		o.Line("conc-end", "panic")
		return nil
	}
	o.Line("conc-end", "rs=- ; "+after.line(true))
	if savedThr != 0 {
		r.setThreshold(savedThr)
	}
	return after
}

func describe(cp *cop) string {
	switch cp.kind {
	case opAdd:
		return fmt.Sprintf("client %d Add(%d)", cp.client, cp.i)
	case opRemove:
		return fmt.Sprintf("client %d Remove(%d)", cp.client, cp.i)
	case opVerify:
		return fmt.Sprintf("client %d Verify(%d)", cp.client, cp.i)
	}
	return fmt.Sprintf("client %d RemoveStale(policy %d, dropping %v)", cp.client, cp.fpb, cp.drops)
}
