package main

// Hand-written scenarios, run first (cases 0..n-1). Cases 0 and 1 are the inputs of the two
// defects that were fixed in /repo (eb15b2a, 0dab8ad): a regression makes the oracle fail here.

type sb struct{ sc *scenario }

func newSB(name string, capacity int) *sb {
	return &sb{&scenario{name: name, cap: capacity, bals: map[payerKey]int64{}}}
}

// tx adds a definition; size is padded to 100 bytes unless attributes force more.
func (b *sb) tx(sys, net int64, signers []int, conflicts []int, oracle int64, high bool) int {
	d := &txDef{idx: len(b.sc.defs), sys: sys, net: net, size: 100, signers: signers, conflicts: conflicts, oracle: oracle, high: high}
	b.sc.defs = append(b.sc.defs, d)
	return d.idx
}
func (b *sb) bal(p, s int, amt int64) *sb { b.sc.bals[payerKey{p, s}] = amt; return b }
func (b *sb) add(is ...int) *sb {
	for _, i := range is {
		b.sc.ops = append(b.sc.ops, op{kind: opAdd, i: i, data: 10 + i})
	}
	return b
}
func (b *sb) remove(i int) *sb { b.sc.ops = append(b.sc.ops, op{kind: opRemove, i: i}); return b }
func (b *sb) verify(i int) *sb { b.sc.ops = append(b.sc.ops, op{kind: opVerify, i: i}); return b }
func (b *sb) setbal(p, s int, amt int64) *sb {
	b.sc.ops = append(b.sc.ops, op{kind: opBal, pk: payerKey{p, s}, amt: amt})
	return b
}
func (b *sb) height(h uint32) *sb { b.sc.ops = append(b.sc.ops, op{kind: opHeight, h: h}); return b }
func (b *sb) threshold(h uint32) *sb {
	b.sc.ops = append(b.sc.ops, op{kind: opThreshold, h: h})
	return b
}
func (b *sb) stale(fpb int64, drops ...int) *sb {
	b.sc.ops = append(b.sc.ops, op{kind: opStale, fpb: fpb, drops: drops})
	return b
}

func (b *sb) conc(progs ...[]op) *sb {
	b.sc.ops = append(b.sc.ops, op{kind: opStale}, op{kind: opConc, conc: progs}, op{kind: opStale})
	return b
}

func corpusScenarios() []*scenario {
	var res []*scenario
	{
		// 0: eb15b2a. Depositor A (5): balance 20, pooled fee 15. Depositor B (6): tx fee 10.
		// New A-tx with fee 12 conflicting with B's tx (shared Notary signer): B's fee must not
		// be subtracted from A's expected sum -> rejected, A's pooled fees stay <= 20.
		b := newSB("fixed-eb15b2a-notary-payer", 8)
		a0 := b.tx(0, 15, []int{1, 5}, nil, -1, false)
		b0 := b.tx(0, 10, []int{1, 6}, nil, -1, false)
		a1 := b.tx(0, 12, []int{1, 5}, []int{b0}, -1, false)
		b.bal(1, 5, 20).bal(1, 6, 100)
		b.add(a0, b0, a1)
		res = append(res, b.sc)
	}
	{
		// 1: 0dab8ad. Capacity 1: a low-fee oracle response bounces with ErrOOM; the next
		// response with the same id must not find a dangling oracleResp entry.
		b := newSB("fixed-0dab8ad-oracle-oom", 1)
		big := b.tx(0, 1000, []int{2}, nil, -1, false)
		low := b.tx(0, 10, []int{2}, nil, 7, false)
		o2 := b.tx(0, 2000, []int{3}, nil, 7, false)
		b.bal(2, 0, 100000).bal(3, 0, 100000)
		b.add(big, low, o2, low)
		res = append(res, b.sc)
	}
	{
		// 2: same-payer replacement through Conflicts while the payer is at its balance.
		b := newSB("replace-at-balance", 4)
		x := b.tx(5, 100, []int{2}, nil, -1, false)
		y := b.tx(5, 100, []int{2}, nil, -1, false)
		z := b.tx(5, 101, []int{2}, []int{x}, -1, false)  // replaces x: 210 -> 211 > 210
		z2 := b.tx(4, 101, []int{2}, []int{x}, -1, false) // replaces x: exactly 210
		b.bal(2, 0, 210)
		b.add(x, y, z, z2).remove(y).add(x)
		res = append(res, b.sc)
	}
	{
		// 3: eviction at capacity while a conflict is being resolved; the evicted one is the last.
		b := newSB("evict-and-conflict", 3)
		a := b.tx(0, 300, []int{2}, nil, -1, false)
		c := b.tx(0, 200, []int{3}, nil, -1, false)
		d := b.tx(0, 100, []int{4}, nil, -1, false)
		e := b.tx(0, 250, []int{2, 7}, []int{c}, -1, false) // no common signer with c -> cattr
		f := b.tx(0, 250, []int{3}, []int{c}, -1, false)    // replaces c, no eviction needed
		g := b.tx(0, 150, []int{4}, nil, -1, false)         // evicts d
		h := b.tx(0, 50, []int{4}, nil, -1, false)          // too cheap: oom
		b.bal(2, 0, 1000).bal(3, 0, 1000).bal(4, 0, 1000)
		b.add(a, c, d, e, f, g, h)
		res = append(res, b.sc)
	}
	{
		// 4: a pooled transaction names the incoming one (step 1), with and without a common signer.
		b := newSB("named-by-pooled", 4)
		n := b.tx(0, 100, []int{2}, nil, -1, false)
		x := b.tx(0, 150, []int{3}, []int{n}, -1, false)    // not signed by 2: removed for free
		y := b.tx(0, 150, []int{3, 2}, []int{n}, -1, false) // signed by 2: n must pay more than 150
		n2 := b.tx(0, 400, []int{2}, nil, -1, false)
		y2 := b.tx(0, 150, []int{3, 2}, []int{n2}, -1, false)
		z2 := b.tx(0, 150, []int{4, 2}, []int{n2}, -1, false)
		b.bal(2, 0, 1000).bal(3, 0, 1000).bal(4, 0, 1000)
		b.add(x, n).remove(n).add(y, n, y2, z2, n2)
		res = append(res, b.sc)
	}
	{
		// 5: oracle responses: replacement by a higher network fee, refusal of a lower one,
		// replacement in a full pool, re-adding after removal.
		b := newSB("oracle-replace", 2)
		r1 := b.tx(0, 100, []int{2}, nil, 7, false)
		r2 := b.tx(0, 100, []int{3}, nil, 7, false)
		r3 := b.tx(0, 200, []int{3}, nil, 7, false)
		p := b.tx(0, 500, []int{4}, nil, -1, false)
		q := b.tx(0, 20, []int{4}, nil, 8, false)
		b.bal(2, 0, 1000).bal(3, 0, 1000).bal(4, 0, 1000)
		b.add(r1, r2, p, r3, q).remove(r3).add(q, r1).stale(0, r1).add(r2)
		res = append(res, b.sc)
	}
	{
		// 6: refresh after a block: balances shrink, policy rises, conflicts index is rebuilt.
		b := newSB("stale-rebuild", 6)
		a := b.tx(10, 300, []int{2}, nil, -1, false)
		c := b.tx(10, 200, []int{2}, nil, -1, false)
		d := b.tx(10, 100, []int{2}, nil, -1, false)
		e := b.tx(0, 150, []int{1, 5}, []int{unknownBase}, -1, false)
		f := b.tx(0, 120, []int{1, 6}, nil, 7, true)
		g := b.tx(0, 160, []int{3, 2}, []int{d}, -1, false)
		b.bal(2, 0, 630).bal(1, 5, 150).bal(1, 6, 120).bal(3, 0, 1000)
		b.add(a, c, d, e, f).setbal(2, 0, 520).stale(0).add(d, g).setbal(1, 6, 119).stale(2, a).add(a, f).stale(1).add(d)
		res = append(res, b.sc)
	}
	{
		// 7: equal priorities append at the end; HighPriority goes first whatever the fee.
		b := newSB("order-ties", 4)
		a := b.tx(0, 200, []int{2}, nil, -1, false)
		c := b.tx(0, 200, []int{3}, nil, -1, false)
		d := b.tx(0, 200, []int{4}, nil, -1, false)
		h := b.tx(0, 1, []int{2}, nil, -1, true)
		e := b.tx(0, 200, []int{3}, nil, -1, false) // full, equal to the last: oom
		f := b.tx(0, 201, []int{3}, nil, -1, false) // evicts d (the last of the equal ones)
		b.bal(2, 0, 1000).bal(3, 0, 1000).bal(4, 0, 1000)
		b.add(a, c, d, h, e, f, a).verify(e)
		res = append(res, b.sc)
	}
	{
		// 8: two notary depositors and an ordinary sender that also signs with Notary.
		b := newSB("two-depositors", 5)
		a0 := b.tx(1, 50, []int{1, 5}, nil, -1, false)
		a1 := b.tx(1, 60, []int{1, 5}, nil, -1, false)
		b0 := b.tx(1, 70, []int{1, 6}, nil, -1, false)
		a2 := b.tx(1, 200, []int{1, 5}, []int{a0, b0}, -1, false) // removes a0 (own) and b0 (foreign)
		s := b.tx(1, 300, []int{2, 1}, []int{a1}, -1, false)      // ordinary payer conflicting with a notary tx
		b.bal(1, 5, 262).bal(1, 6, 71).bal(2, 0, 301)
		b.add(a0, a1, b0, a2, s, a0, b0)
		res = append(res, b.sc)
	}
	{
		// 9: an Add that would remove a conflicting transaction but is refused as an oracle response
		// (lower network fee than the pooled response) or for capacity: the conflicting one must stay.
		b := newSB("refused-after-conflict-scan", 3)
		x := b.tx(0, 100, []int{2}, nil, -1, false)
		o1 := b.tx(0, 500, []int{3}, nil, 7, false)
		n := b.tx(0, 300, []int{2}, []int{x}, 7, false) // beats x (300 > 100) but not the pooled response (300 < 500)
		y := b.tx(0, 600, []int{4}, nil, -1, false)
		l := b.tx(0, 50, []int{4, 2}, []int{unknownBase}, -1, false) // full pool, lowest priority: oom
		b.bal(2, 0, 1000).bal(3, 0, 1000).bal(4, 0, 1000)
		b.add(x, o1, n, y, l).verify(n).remove(o1).add(n)
		res = append(res, b.sc)
	}
	{
		// 10: resend bookkeeping. Threshold 1: a kept transaction that is due for rebroadcast at this
		// block must still be registered in the Conflicts index: the transaction it names cannot join it.
		b := newSB("resend-keeps-conflicts", 4)
		h := b.tx(0, 100, []int{2}, nil, -1, false)
		a := b.tx(0, 300, []int{3, 2}, []int{h}, -1, false) // names h, signed by h's sender
		h2 := b.tx(0, 100, []int{4}, nil, -1, false)
		a2 := b.tx(0, 300, []int{3}, []int{h2}, -1, false) // names h2, not signed by its sender
		c := b.tx(0, 200, []int{4}, nil, -1, false)
		b.bal(2, 0, 1000).bal(3, 0, 1000).bal(4, 0, 1000)
		b.threshold(1).height(10).add(a, a2).height(11).stale(0).add(h, h2).
			height(12).stale(0).add(h).add(c).height(13).stale(0).height(14).stale(0).add(a2).
			threshold(3).height(17).stale(0).threshold(0).height(18).stale(0)
		res = append(res, b.sc)
	}
	{
		// 11: three clients race for a pool of capacity 2: replacement through Conflicts, eviction, removal and a
		// refresh happen concurrently; the recorded lock order is replayed through the model
		b := newSB("concurrent-clients", 2)
		x := b.tx(0, 100, []int{2}, nil, -1, false)
		y := b.tx(0, 300, []int{2}, []int{x}, -1, false)
		z := b.tx(0, 200, []int{3}, nil, 7, false)
		w := b.tx(0, 400, []int{3}, nil, 7, false)
		v := b.tx(0, 150, []int{4}, nil, -1, false)
		b.bal(2, 0, 1000).bal(3, 0, 1000).bal(4, 0, 1000)
		b.add(x)
		b.conc(
			[]op{{kind: opAdd, i: y, data: 1}, {kind: opVerify, i: x}, {kind: opAdd, i: x, data: 2}, {kind: opRemove, i: y}},
			[]op{{kind: opAdd, i: z, data: 3}, {kind: opAdd, i: w, data: 4}, {kind: opVerify, i: z}, {kind: opStale, fpb: 2, drops: []int{z}}},
			[]op{{kind: opAdd, i: v, data: 5}, {kind: opRemove, i: x}, {kind: opAdd, i: v, data: 6}, {kind: opVerify, i: y}},
		)
		b.add(x, v)
		res = append(res, b.sc)
	}
	{
		// 12: the policy ratchet: loadPolicy only ever raises mp.feePerByte; a refresh that raises it drops what
		// pays less, a refresh with a lower value changes nothing
		b := newSB("policy-ratchet", 4)
		a := b.tx(0, 100, []int{2}, nil, -1, false) // fee per byte 1
		c := b.tx(0, 300, []int{3}, nil, -1, false) // 3
		d := b.tx(0, 500, []int{4}, nil, -1, false) // 5
		b.bal(2, 0, 1000).bal(3, 0, 1000).bal(4, 0, 1000)
		b.add(a, c, d).stale(2).stale(1).add(a).stale(2).stale(3).stale(4).add(a, c)
		res = append(res, b.sc)
	}
	{
		// 13: resend at ages threshold*2^k only: threshold 2, added at height 5: due at 7, 9, 13 and not at 6, 8, 10, 11, 12;
		// a transaction re-added later restarts its age; the callback receives the item's data
		b := newSB("resend-ages", 4)
		a := b.tx(0, 100, []int{2}, nil, -1, false)
		c := b.tx(0, 200, []int{3}, nil, -1, false)
		b.bal(2, 0, 1000).bal(3, 0, 1000)
		b.threshold(2).height(5).add(a).height(6).stale(0).height(7).stale(0).add(c).height(8).stale(0).height(9).stale(0).
			remove(a).add(a).height(10).stale(0).height(11).stale(0).height(13).stale(0).height(15).stale(0)
		res = append(res, b.sc)
	}
	{
		// 14: TryGetData among equally prioritized items (the binary search lands on the left bound of the run)
		b := newSB("data-among-ties", 6)
		var ids []int
		for i := 0; i < 5; i++ {
			ids = append(ids, b.tx(0, 200, []int{2 + i%3}, nil, -1, false))
		}
		h := b.tx(0, 1, []int{2}, nil, -1, true)
		b.bal(2, 0, 10000).bal(3, 0, 10000).bal(4, 0, 10000)
		b.add(ids...).add(h).remove(ids[2]).add(ids[2]).remove(ids[0])
		res = append(res, b.sc)
	}
	{
		// 15: a conflicting transaction that the new transaction's payer merely co-signed (its fee is paid by another
		// sender) must not be subtracted from the payer's expected fee sum: 100 + 120 > 200, so a2 is refused
		// although 100 + 120 - 50 <= 200
		b := newSB("cosigned-conflict-is-not-mine", 4)
		a1 := b.tx(0, 100, []int{2}, nil, -1, false)
		e := b.tx(0, 50, []int{3, 2}, nil, -1, false)
		a2 := b.tx(0, 120, []int{2}, []int{e}, -1, false)
		a3 := b.tx(0, 100, []int{2}, []int{e}, -1, false) // 100 + 100 = 200: accepted, replaces e
		b.bal(2, 0, 200).bal(3, 0, 1000)
		b.add(a1, e, a2, a3)
		res = append(res, b.sc)
	}
	{
		// 16: one pooled transaction is a conflict of the incoming one for two reasons (named in its Conflicts
		// attribute AND response to the same oracle request), same payer at its balance: its fee must be taken off
		// the expected sum once, not twice: 100 + 100 pooled, t pays 150: 100 + 150 = 250 > 249 -> ErrConflict;
		// with balance 250 it replaces e. Then the other direction: e2 names t2 and is pooled first.
		b := newSB("double-reason-conflict", 4)
		a := b.tx(0, 100, []int{2}, nil, -1, false)
		e := b.tx(0, 100, []int{2}, nil, 7, false)
		t := b.tx(0, 150, []int{2}, []int{e}, 7, false)
		t2 := b.tx(0, 150, []int{3}, nil, 8, false)
		a2 := b.tx(0, 100, []int{3}, nil, -1, false)
		e2 := b.tx(0, 100, []int{3}, []int{t2}, 8, false)
		b.bal(2, 0, 249).bal(3, 0, 249)
		b.add(a, e, t).setbal(2, 0, 250).stale(0).add(t).add(a2, e2, t2).setbal(3, 0, 250).stale(0).add(t2).add(e, e2)
		res = append(res, b.sc)
	}
	{
		// 17: the same with Notary depositors and an unrelated depositor's transaction in between; capacity 2 so that
		// the doubly conflicting one is also the eviction candidate
		b := newSB("double-reason-conflict-notary-full", 2)
		e := b.tx(0, 100, []int{1, 5}, nil, 7, false)
		x := b.tx(0, 300, []int{1, 6}, nil, -1, false)
		t := b.tx(0, 200, []int{1, 5}, []int{e}, 7, false)
		lo := b.tx(0, 50, []int{1, 5}, []int{e}, 7, false) // lower fee than the pooled response, also names it
		b.bal(1, 5, 299).bal(1, 6, 300)
		b.add(e, x, lo, t).setbal(1, 5, 300).stale(0).add(t, e, lo)
		res = append(res, b.sc)
	}
	return res
}
