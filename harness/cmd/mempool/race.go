package main

// Thorough tier, supporting evidence for the "one exported method = one atomic step" reading of the
// model: this command is built a second time with the Go race detector, the cases with a concurrent
// phase are run again in that binary, and every report of the detector is turned into an oracle
// failure (key data-race). At the very end the binary provokes overlapping Pool.Verify calls for
// payers that are not cached yet: before e6b4f6b Verify filled the balance cache under the read lock
// (fatal "concurrent map writes"); a report there is the regression of that defect (key verify-race).

import (
	"fmt"
	"math/big"
	"os"
	"os/exec"
	"path/filepath"
	"strings"
	"sync"

	"github.com/nspcc-dev/neo-go/pkg/core/mempool"
	"github.com/nspcc-dev/neo-go/pkg/core/transaction"
	"github.com/nspcc-dev/neo-go/pkg/util"

	"verif/harness/internal/hx"
)

const raceMarker = "RACE-SCENARIO verify-verify"

type flatFeer struct{}

func (flatFeer) FeePerByte() int64                                 { return 0 }
func (flatFeer) BlockHeight() uint32                               { return 0 }
func (flatFeer) GetUtilityTokenBalance(_, _ util.Uint160) *big.Int { return big.NewInt(1_000_000) }

// verifyVerifyScenario: four goroutines call Verify for transactions of senders whose balance is not cached yet.
func verifyVerifyScenario() {
	fmt.Fprintln(os.Stderr, raceMarker)
	mp := mempool.New(10, false, nil)
	var wg sync.WaitGroup
	for g := 0; g < 4; g++ {
		wg.Add(1)
		go func(g int) {
			defer wg.Done()
			for i := 0; i < 300; i++ {
				t := transaction.New([]byte{0x21}, 0)
				t.Nonce = uint32(g*100000 + i)
				t.NetworkFee = 10
				var a util.Uint160
				a[0], a[1], a[2] = byte(g+1), byte(i), byte(i>>8)
				t.Signers = []transaction.Signer{{Account: a}}
				mp.Verify(t, flatFeer{})
			}
		}(g)
	}
	wg.Wait()
}

func raceRun(o *hx.Out, f *hx.Flags) {
	exe, err := os.Executable()
	if err != nil {
		o.Count("race:not-run")
		return
	}
	harnessDir, _ := os.Getwd() // the check runs every harness from /verif/harness
	if _, err := os.Stat(filepath.Join(harnessDir, "cmd", "mempool")); err != nil {
		harnessDir = filepath.Join(filepath.Dir(exe), "..", "..", "harness")
	}
	bin := exe + ".race"
	args := []string{"build", "-race", "-tags", "verif"}
	if ov := os.Getenv("VERIF_GO_OVERLAY"); ov != "" {
		args = append(args, "-overlay", ov)
	}
	args = append(args, "-o", bin, "./cmd/mempool")
	cmd := exec.Command("go", args...)
	cmd.Dir = harnessDir
	if out, err := cmd.CombinedOutput(); err != nil {
		// no race detector on this machine (cgo / C compiler missing): the evidence is absent, nothing is decided by it
		fmt.Fprintf(os.Stderr, "race build failed: %v\n%s\n", err, out)
		o.Count("race:build-failed")
		return
	}
	o.Count("race:built")
	outDir := filepath.Join(f.Out, "race")
	run := exec.Command(bin, "-seed", fmt.Sprint(f.Seed), "-tier", "quick", "-cases", "40000", "-conconly", "-racelast", "-out", outDir)
	run.Dir = harnessDir
	run.Env = append(os.Environ(), "GORACE=halt_on_error=0")
	var stderr strings.Builder
	run.Stderr = &stderr
	runErr := run.Run()
	log := stderr.String()
	_ = os.WriteFile(filepath.Join(f.Out, "race.log"), []byte(log), 0o644)
	before, afterMarker, _ := strings.Cut(log, raceMarker)
	blocks := strings.Split(before, "WARNING: DATA RACE")[1:]
	o.Add("race:reports-in-phases", len(blocks))
	for _, b := range blocks {
		o.Fail("data-race", -1, "race detector, concurrent phase: %s", firstFrames(b))
	}
	vv := strings.Split(afterMarker, "WARNING: DATA RACE")[1:]
	o.Add("race:reports-verify-verify", len(vv))
	other := 0
	for _, b := range vv {
		if !isVerifyRace(b) {
			other++
			o.Fail("data-race", -1, "race detector, Verify||Verify scenario: %s", firstFrames(b))
		}
	}
	if len(vv) > other || strings.Contains(afterMarker, "fatal error: concurrent map") {
		o.Fail("verify-race", -1, "overlapping Pool.Verify calls for payers that are not cached yet race on mp.fees (regression of e6b4f6b: "+
			"Verify must hold the write lock, checkTxConflicts fills the balance cache); %d reports of the race detector, e.g. %s", len(vv)-other, firstFrames(strings.Join(vv, " ")))
	}
	if runErr != nil && !strings.Contains(log, "fatal error: concurrent map") && len(blocks)+len(vv) == 0 {
		o.Fail("race-run", -1, "the -race binary failed: %v: %s", runErr, tailOf(log, 400))
	}
	// oracle failures of the real code seen in the -race run are failures of this run as well
	if data, err := os.ReadFile(filepath.Join(outDir, "oracle.txt")); err == nil {
		for _, l := range strings.Split(string(data), "\n") {
			if strings.HasPrefix(l, "FAIL key=") {
				var key string
				var k int
				rest := strings.TrimPrefix(l, "FAIL key=")
				if _, err := fmt.Sscanf(rest, "%s case=%d", &key, &k); err == nil {
					o.Fail(key, k, "(in the -race run) %s", rest)
				}
			}
		}
	}
	if st, err := os.ReadFile(filepath.Join(outDir, "stats.json")); err == nil {
		if i := strings.Index(string(st), `"cases":`); i >= 0 {
			var n int
			fmt.Sscanf(string(st)[i+len(`"cases":`):], "%d", &n)
			o.Add("race:cases", n)
		}
	}
}

// isVerifyRace: both accesses of the report are made inside Pool.Verify.
func isVerifyRace(block string) bool {
	parts := strings.SplitN(block, "Previous ", 2)
	if len(parts) != 2 {
		return false
	}
	second, _, _ := strings.Cut(parts[1], "Goroutine ")
	return strings.Contains(parts[0], "mempool.(*Pool).Verify") && strings.Contains(second, "mempool.(*Pool).Verify")
}

func firstFrames(block string) string {
	var res []string
	for _, l := range strings.Split(block, "\n") {
		l = strings.TrimSpace(l)
		if strings.HasPrefix(l, "github.com/nspcc-dev/neo-go/pkg/core/mempool.") || strings.HasPrefix(l, "/repo/pkg/core/mempool/") ||
			strings.HasPrefix(l, "Read at") || strings.HasPrefix(l, "Write at") || strings.HasPrefix(l, "Previous") {
			res = append(res, l)
		}
		if len(res) >= 10 {
			break
		}
	}
	return strings.Join(res, " | ")
}

func tailOf(s string, n int) string {
	if len(s) > n {
		return s[len(s)-n:]
	}
	return s
}
