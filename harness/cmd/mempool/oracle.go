package main

import (
	"errors"
	"math/big"

	"github.com/nspcc-dev/neo-go/pkg/core/transaction"
)

func isErr(err, target error) bool { return errors.Is(err, target) }

// payer of a definition, by the rule of the property: the sender, or - when the Notary
// contract is the sender - the depositor (second signer).
func payerOfDef(d *txDef) payerKey {
	if d.signers[0] == 1 {
		return payerKey{1, d.signers[1]}
	}
	return payerKey{d.signers[0], 0}
}

// cmpDef is the priority order of the property statement, computed from the real transaction:
// high-priority attribute, then fee per byte, then network fee.
func cmpDef(a, b *txDef) int {
	ah, bh := a.tx.HasAttribute(transaction.HighPriority), b.tx.HasAttribute(transaction.HighPriority)
	if ah != bh {
		if ah {
			return 1
		}
		return -1
	}
	fa, fb := a.tx.NetworkFee/int64(a.tx.Size()), b.tx.NetworkFee/int64(b.tx.Size())
	if fa != fb {
		if fa > fb {
			return 1
		}
		return -1
	}
	switch {
	case a.tx.NetworkFee > b.tx.NetworkFee:
		return 1
	case a.tx.NetworkFee < b.tx.NetworkFee:
		return -1
	}
	return 0
}

func names(a, b *txDef) bool { // a carries a Conflicts attribute with b's hash
	for _, c := range a.conflicts {
		if c == b.idx {
			return true
		}
	}
	return false
}

// checkInv recomputes the property's invariant from outside on the real pool.
func (r *runner) checkInv(line string, s *snapshot) {
	if r.sc.malformed {
		return
	}
	defs := r.sc.defs
	in := map[int]bool{}
	// each transaction at most once
	for _, i := range s.list {
		if i < 0 {
			r.fail("foreign-tx", "after %s: the pool lists a transaction that was never added", line)
			return
		}
		if in[i] {
			r.fail("dup-hash", "after %s: transaction %d listed twice: %v", line, i, s.list)
		}
		in[i] = true
	}
	// capacity
	if len(s.list) > r.sc.cap {
		r.fail("capacity", "after %s: %d transactions in a pool of capacity %d", line, len(s.list), r.sc.cap)
	}
	// ordering
	for j := 0; j+1 < len(s.list); j++ {
		if cmpDef(defs[s.list[j]], defs[s.list[j+1]]) < 0 {
			r.fail("order", "after %s: %d listed before %d but has lower priority: %v", line, s.list[j], s.list[j+1], s.list)
		}
	}
	// index maps are a function of the list
	if s.count != len(s.list) {
		r.fail("index-count", "after %s: Count()=%d, %d listed", line, s.count, len(s.list))
	}
	for j, d := range defs {
		if (s.has[j] == '1') != in[d.idx] {
			r.fail("index-contains", "after %s: ContainsKey(%d)=%c, listed=%v", line, d.idx, s.has[j], in[d.idx])
		}
		want := in[d.idx]
		for _, i := range s.list {
			if names(defs[i], d) || names(d, defs[i]) {
				want = true
			}
		}
		if (s.hc[j] == '1') != want {
			r.fail("index-conflicts", "after %s: HasConflicts(%d)=%c, expected %v from the listed transactions %v", line, d.idx, s.hc[j], want, s.list)
		}
		if _, ok := s.data[d.idx]; ok != in[d.idx] {
			r.fail("index-data", "after %s: TryGetData(%d) found=%v, listed=%v", line, d.idx, ok, in[d.idx])
		}
		if (s.gv[j] == '1') != in[d.idx] {
			r.fail("index-value", "after %s: TryGetValue(%d) returns the transaction: %c, listed=%v", line, d.idx, s.gv[j], in[d.idx])
		}
	}
	// solvency per payer against the stub's balances
	if !r.sc.drift {
		sum := map[payerKey]int64{}
		for _, i := range s.list {
			sum[payerOfDef(defs[i])] += defs[i].tx.SystemFee + defs[i].tx.NetworkFee
		}
		for pk, v := range sum {
			if big.NewInt(v).Cmp(r.fe.balance(pk)) > 0 {
				r.fail("solvency", "after %s: payer (%d,%d) has pooled fees %d > balance %s: %v", line, pk.p, pk.s, v, r.fe.balance(pk), s.list)
			}
		}
	}
	// no two pooled transactions conflict
	for _, i := range s.list {
		for _, j := range s.list {
			if names(defs[i], defs[j]) {
				r.fail("conflict-pooled", "after %s: pooled %d names pooled %d in Conflicts: %v", line, i, j, s.list)
			}
		}
	}
	// at most one response per oracle request
	orc := map[int64]int{}
	for _, i := range s.list {
		if id := defs[i].oracle; id >= 0 {
			if j, ok := orc[id]; ok {
				r.fail("oracle-dup", "after %s: responses %d and %d for oracle request %d are both pooled", line, j, i, id)
			}
			orc[id] = i
		}
	}
}

// checkAdd: a failed addition leaves the pool unchanged; a successful one lists the new
// transaction and drops, apart from conflicting transactions and a replaced oracle response,
// only the lowest-priority entry, and only from a full pool.
func (r *runner) checkAdd(line string, d *txDef, err error, before, after *snapshot) {
	if r.sc.malformed {
		return
	}
	defs := r.sc.defs
	if err != nil {
		if before.String() != after.String() || (!r.sc.drift && before.ver != "" && before.ver != after.ver) {
			r.fail("failed-add-changed", "%s returned %v but the pool changed: %s -> %s", line, err, before, after)
		}
		if len(after.events) != 0 {
			r.fail("failed-add-changed", "%s returned %v but events were sent: %s", line, err, eventsString(after.events, false))
		}
		return
	}
	inAfter := map[int]bool{}
	for _, i := range after.list {
		inAfter[i] = true
	}
	if !inAfter[d.idx] {
		r.fail("add-missing", "%s returned nil but %d is not listed: %v", line, d.idx, after.list)
	}
	var rest []int // old entries that are not conflict/oracle replacements
	var evicted []int
	for _, i := range before.list {
		e := defs[i]
		related := names(e, d) || names(d, e) || (d.oracle >= 0 && e.oracle == d.oracle)
		if related {
			if (names(e, d) || names(d, e)) && d.oracle >= 0 && e.oracle == d.oracle {
				r.o.Count("add:removed-for-two-reasons")
			}
			if names(e, d) {
				r.o.Count("add:removed-names-new")
			}
			if names(d, e) {
				r.o.Count("add:removed-named-by-new")
			}
			if d.oracle >= 0 && e.oracle == d.oracle {
				r.o.Count("add:replaced-oracle")
			}
			if payerOfDef(e) == payerOfDef(d) && (names(e, d) || names(d, e)) {
				r.o.Count("add:replaced-own-payer")
			} else if payerOfDef(e).p == 1 && payerOfDef(d).p == 1 && (names(e, d) || names(d, e)) {
				r.o.Count("add:replaced-other-depositor")
			}
			continue
		}
		rest = append(rest, i)
		if !inAfter[i] {
			evicted = append(evicted, i)
		}
	}
	for _, i := range before.list {
		if !inAfter[i] {
			r.o.Count("add:dropped-other")
			break
		}
	}
	if len(evicted) == 0 {
		return
	}
	r.o.Count("add:evicted")
	if len(evicted) > 1 {
		r.fail("evict-many", "%s evicted %v", line, evicted)
	}
	if len(rest) < r.sc.cap {
		r.fail("evict-not-full", "%s evicted %v from a pool with %d of %d slots used", line, evicted, len(rest), r.sc.cap)
	}
	for _, ev := range evicted {
		for _, i := range rest {
			if cmpDef(defs[ev], defs[i]) > 0 {
				r.fail("evict-not-lowest", "%s evicted %d although %d has lower priority (before: %v)", line, ev, i, before.list)
			}
		}
		if cmpDef(d, defs[ev]) <= 0 {
			r.fail("evict-for-lower", "%s evicted %d whose priority is not below the new transaction's", line, ev)
		}
	}
}
