// Command mempool: correspondence + oracle stream for the memory pool (C08).
//
// Every case is a scenario: a pool capacity, a table of real *transaction.Transaction values
// (chosen size via script padding, fees, ordinary or Notary+depositor signers, HighPriority,
// Conflicts over earlier hashes, OracleResponse ids), a Feer stub with chosen balances and a
// sequence of Add (with data) / Remove / RemoveStale / Verify / SetResendThreshold / StopSubscriptions
// calls on a real mempool.Pool created with subscriptions and a metrics callback.
// After every call the complete observable state is printed for the Lean driver - the list, the
// look-ups (ContainsKey, HasConflicts, TryGetData, TryGetValue, Iterate), the unexported bookkeeping
// read with reflect (deep.go: block stamps, conflicts, oracleResp, fees, feePerByte), the events the
// call sent, the resend calls, Verify probes - and the property's invariant, the reverse indexes, fee
// sums, events, resend rule, policy filter and metrics callback are recomputed from outside on the
// real pool (oracle.go, deep.go). Some cases contain a phase of concurrent calls from several
// goroutines (conc.go); the thorough tier re-runs those under the race detector (race.go).
package main

import (
	"flag"
	"fmt"
	"math/big"
	"math/bits"
	"os"
	"runtime"
	"sort"
	"strconv"
	"strings"
	"sync"
	"time"

	"github.com/nspcc-dev/neo-go/pkg/core/mempool"
	"github.com/nspcc-dev/neo-go/pkg/core/mempoolevent"
	"github.com/nspcc-dev/neo-go/pkg/core/native/nativehashes"
	"github.com/nspcc-dev/neo-go/pkg/core/transaction"
	"github.com/nspcc-dev/neo-go/pkg/util"

	"verif/harness/internal/hx"
	"verif/harness/internal/prng"
)

const unknownBase = 1000 // conflict indices >= unknownBase name hashes of transactions that do not exist

type txDef struct {
	idx       int
	sys, net  int64
	size      int
	high      bool
	oracle    int64 // -1: none
	signers   []int // account numbers; 1 = Notary native contract
	conflicts []int // indices of earlier transactions, or >= unknownBase
	tx        *transaction.Transaction
}

type payerKey struct{ p, s int }

type opKind int

const (
	opAdd opKind = iota
	opRemove
	opStale
	opVerify
	opBal
	opHeight    // the Feer's BlockHeight changes (a block arrived)
	opThreshold // SetResendThreshold
	opSubsOff   // StopSubscriptions
	opConc      // a phase of concurrent calls from several goroutines (conc.go)
)

type op struct {
	kind  opKind
	i     int    // transaction index
	h     uint32 // opHeight: new height; opThreshold: resend threshold
	fpb   int64  // stale: policy fee per byte
	drops []int  // stale: transactions for which isOK returns false
	pk    payerKey
	amt   int64
	data  int    // add: the data argument (0 = Add is called without one)
	conc  [][]op // opConc: the programs of the clients
}

type scenario struct {
	name   string
	cap    int
	defs   []*txDef
	bals   map[payerKey]int64
	off    map[payerKey]*big.Int // huge-balance cases: added to every balance of the payer (tests uint256 truncation)
	ops    []op
	drift  bool // balances change between refreshes: the solvency oracle is off, the tie stays on
	noSubs bool // the pool runs without subscriptions (no events)
	// malformed: some transaction repeats a Conflicts hash (rejected by blockchain.verifyTxAttributes before
	// it can reach Pool.Add, so outside the property's domain): only the tie and the panic oracle stay on
	malformed bool
}

func account(n int) util.Uint160 {
	switch n {
	case 0:
		return util.Uint160{}
	case 1:
		return nativehashes.Notary
	}
	var u util.Uint160
	u[0] = 0xA0
	u[19] = byte(n)
	return u
}

func unknownHash(n int) util.Uint256 {
	var u util.Uint256
	u[0] = 0xEE
	u[30] = byte(n >> 8)
	u[31] = byte(n)
	return u
}

// build constructs the real transaction of d (d.size is a request; the achieved size is stored back).
func build(d *txDef, defs []*txDef) {
	mk := func(scriptLen int) *transaction.Transaction {
		script := make([]byte, scriptLen)
		for i := range script {
			script[i] = 0x21 // NOP
		}
		t := transaction.New(script, d.sys)
		t.Nonce = uint32(d.idx) + 1
		t.NetworkFee = d.net
		t.ValidUntilBlock = 100
		for _, a := range d.signers {
			t.Signers = append(t.Signers, transaction.Signer{Account: account(a), Scopes: transaction.CalledByEntry})
			t.Scripts = append(t.Scripts, transaction.Witness{InvocationScript: []byte{}, VerificationScript: []byte{}})
		}
		if d.high {
			t.Attributes = append(t.Attributes, transaction.Attribute{Type: transaction.HighPriority})
		}
		if d.oracle >= 0 {
			t.Attributes = append(t.Attributes, transaction.Attribute{Type: transaction.OracleResponseT,
				Value: &transaction.OracleResponse{ID: uint64(d.oracle), Code: transaction.Success, Result: []byte{1}}})
		}
		for _, c := range d.conflicts {
			var h util.Uint256
			if c >= unknownBase {
				h = unknownHash(c)
			} else {
				h = defs[c].tx.Hash()
			}
			t.Attributes = append(t.Attributes, transaction.Attribute{Type: transaction.ConflictsT, Value: &transaction.Conflicts{Hash: h}})
		}
		return t
	}
	l := 1
	t := mk(l)
	for iter := 0; iter < 6 && t.Size() != d.size; iter++ {
		nl := l + d.size - t.Size()
		if nl < 1 {
			nl = 1
		}
		if nl == l {
			break
		}
		l = nl
		t = mk(l)
	}
	d.size = t.Size()
	d.tx = t
}

type feer struct {
	bals map[payerKey]int64
	off  map[payerKey]*big.Int
	acc  map[util.Uint160]int
	fpb  int64
	h    uint32
}

func (f *feer) FeePerByte() int64   { return f.fpb }
func (f *feer) BlockHeight() uint32 { return f.h }
func (f *feer) GetUtilityTokenBalance(p, s util.Uint160) *big.Int {
	return f.balance(payerKey{f.acc[p], f.acc[s]})
}

func (f *feer) balance(pk payerKey) *big.Int {
	b := big.NewInt(f.bals[pk])
	if o, ok := f.off[pk]; ok {
		b.Add(b, o)
	}
	return b
}

func csv(l []int) string {
	if len(l) == 0 {
		return "-"
	}
	s := make([]string, len(l))
	for i, x := range l {
		s[i] = strconv.Itoa(x)
	}
	return strings.Join(s, ",")
}

func b2i(b bool) int {
	if b {
		return 1
	}
	return 0
}

func errClass(err error) string {
	switch {
	case err == nil:
		return "ok"
	case isErr(err, mempool.ErrInsufficientFunds):
		return "err:funds"
	case isErr(err, mempool.ErrConflictsAttribute):
		return "err:cattr"
	case isErr(err, mempool.ErrConflict):
		return "err:conflict"
	case isErr(err, mempool.ErrDup):
		return "err:dup"
	case isErr(err, mempool.ErrOOM):
		return "err:oom"
	case isErr(err, mempool.ErrOracleResponse):
		return "err:oracle"
	}
	return "err:other"
}

var (
	concOnly = flag.Bool("conconly", false, "run only the cases that contain a concurrent phase (used for the -race run)")
	noRace   = flag.Bool("norace", false, "thorough tier: skip the -race build and run")
	raceLast = flag.Bool("racelast", false, "finish with the Verify||Verify scenario (only meaningful in a -race build)")
)

func main() {
	f := hx.ParseFlags()
	o := hx.NewOut(f.Out)
	defer o.Close()
	corpus := corpusScenarios()
	n := f.N(3000, 300000)
	for k := 0; k < n; k++ {
		if !f.Want(k) {
			continue
		}
		var sc *scenario
		if k < len(corpus) {
			sc = corpus[k]
		} else {
			sc = generate(prng.ForCase(f.Seed, k), o)
		}
		if *concOnly && !sc.hasConc() {
			continue
		}
		o.Case(k)
		runScenario(o, k, sc)
	}
	if *raceLast {
		o.Close() // the scenario may end in the runtime's fatal "concurrent map writes": everything is on disk before
		verifyVerifyScenario()
		os.Exit(0)
	}
	if f.Tier == "thorough" && !*noRace && !*concOnly && f.Only < 0 {
		raceRun(o, f)
	}
}

func (sc *scenario) hasConc() bool {
	for _, p := range sc.ops {
		if p.kind == opConc {
			return true
		}
	}
	return false
}

// snapshot is everything the harness can see of the pool without changing it.
type snapshot struct {
	list       []int
	count      int
	has, hc    string
	ver        string // Verify probes (filled after the invariant check)
	unknownTxs int
	gd, gv     string
	data       map[int]int // TryGetData of the defined transactions that are found
	it         []pair      // IterateVerifiedTransactions
	deep       *deepState
	events     []event
}

// String is the part of the observation that a failed Add must leave unchanged (fee cache entries with an
// empty sum are left out: a failed Add may have cached the payer's balance).
func (s *snapshot) String() string {
	return fmt.Sprintf("txs=%s n=%d has=%s hc=%s gd=%s gv=%s it=%s %s", csv(s.list), s.count, s.has, s.hc, s.gd, s.gv, pairs(s.it), s.deep.format(true))
}

func (s *snapshot) line(conc bool) string {
	return fmt.Sprintf("txs=%s n=%d has=%s hc=%s gd=%s gv=%s it=%s %s ev=%s ver=%s", csv(s.list), s.count, s.has, s.hc, s.gd, s.gv, pairs(s.it),
		s.deep.format(conc), eventsString(s.events, conc), s.ver)
}

type pair struct{ id, data int }

func pairs(l []pair) string {
	if len(l) == 0 {
		return "-"
	}
	s := make([]string, len(l))
	for i, x := range l {
		s[i] = fmt.Sprintf("%d:%d", x.id, x.data)
	}
	return strings.Join(s, ",")
}

type event struct {
	added bool
	pair
}

func eventsString(evs []event, conc bool) string {
	str := func(l []event) string {
		if len(l) == 0 {
			return "-"
		}
		s := make([]string, len(l))
		for i, e := range l {
			sign := "-"
			if e.added {
				sign = "+"
			}
			s[i] = fmt.Sprintf("%s%d:%d", sign, e.id, e.data)
		}
		return strings.Join(s, ",")
	}
	if !conc {
		return str(evs)
	}
	// concurrent phase: TransactionRemoved events are sent inside the critical section (their order is the
	// lock order), TransactionAdded events after the unlock (any order): removed in order | added sorted
	var rem []event
	var add []pair
	for _, e := range evs {
		if e.added {
			add = append(add, e.pair)
		} else {
			rem = append(rem, e)
		}
	}
	sort.Slice(add, func(i, j int) bool {
		return add[i].id < add[j].id || add[i].id == add[j].id && add[i].data < add[j].data
	})
	return str(rem) + "|" + pairs(add)
}

func dataInt(d any) int {
	if d == nil {
		return 0
	}
	return d.(int)
}

// resendLog collects the calls of the pool's resend callback (made from a goroutine).
type resendLog struct {
	mu  sync.Mutex
	ids []pair
	ch  chan struct{}
}

func (l *resendLog) add(p pair) {
	l.mu.Lock()
	l.ids = append(l.ids, p)
	l.mu.Unlock()
	select {
	case l.ch <- struct{}{}:
	default:
	}
}

// resendTimeout: how long a refresh waits for the resend goroutine. Generous, because the machine may be
// loaded; after the first miss (a run that fails anyway) the wait is cut so that the run still ends.
var resendTimeout = 3 * time.Second

// waitFor blocks until n calls were logged (or the timeout passed).
func (l *resendLog) waitFor(n int) {
	if l.len() >= n {
		return
	}
	deadline := time.After(resendTimeout)
	for l.len() < n {
		select {
		case <-l.ch:
		case <-deadline:
			resendTimeout = 30 * time.Millisecond
			return
		}
	}
}
func (l *resendLog) len() int { l.mu.Lock(); defer l.mu.Unlock(); return len(l.ids) }
func (l *resendLog) take() []pair {
	l.mu.Lock()
	defer l.mu.Unlock()
	res := l.ids
	l.ids = nil
	return res
}

// isDue is the documented resend rule, computed from outside: the item's age is threshold * 2^k blocks.
func isDue(threshold, height, stamp uint32) bool {
	if threshold == 0 {
		return false
	}
	diff := height - stamp
	return diff%threshold == 0 && bits.OnesCount32(diff/threshold) == 1
}

type runner struct {
	resent         *resendLog
	threshold      uint32
	stampOf        map[int]uint32 // height at which a pooled transaction was added
	dataOf         map[int]int    // data given to the Add that pooled it
	maxPolicy      int64          // highest FeePerByte a RemoveStale has seen
	subsOn         bool
	evCh           chan mempoolevent.Event
	content        map[int]int // replay of the event stream: pooled transaction -> data
	metric         int         // value given to the metrics callback by the last call (-1 = not called)
	metricExpected bool
	conc           *concState // non-nil while a concurrent phase runs

	o     *hx.Out
	k     int
	sc    *scenario
	mp    *mempool.Pool
	fe    *feer
	byH   map[util.Uint256]int
	fails map[string]bool
}

func (r *runner) fail(key, format string, a ...any) {
	if r.fails[key] { // one report per shape and case
		return
	}
	r.fails[key] = true
	r.o.Fail(key, r.k, "[%s] "+format, append([]any{r.sc.name}, a...)...)
}

// drainEvents returns everything the pool has sent to the subscriber so far. The dispatcher goroutine handles
// one message at a time, so once it has taken the (no-op) unsubscription of a channel that never subscribed,
// every earlier event has been forwarded.
func (r *runner) drainEvents() []event {
	if !r.subsOn {
		return nil
	}
	r.mp.UnsubscribeFromTransactions(make(chan mempoolevent.Event))
	var res []event
	for {
		select {
		case e := <-r.evCh:
			i, ok := r.byH[e.Tx.Hash()]
			if !ok {
				i = -1
			}
			res = append(res, event{e.Type == mempoolevent.TransactionAdded, pair{i, dataInt(e.Data)}})
		default:
			return res
		}
	}
}

func (r *runner) snap() *snapshot {
	s := &snapshot{data: map[int]int{}}
	for _, t := range r.mp.GetVerifiedTransactions() {
		i, ok := r.byH[t.Hash()]
		if !ok {
			i = -1
			s.unknownTxs++
		}
		s.list = append(s.list, i)
	}
	s.count = r.mp.Count()
	var has, hc, gv strings.Builder
	var gd []string
	for _, d := range r.sc.defs {
		has.WriteByte(byte('0' + b2i(r.mp.ContainsKey(d.tx.Hash()))))
		hc.WriteByte(byte('0' + b2i(r.mp.HasConflicts(d.tx, r.fe))))
		data, ok := r.mp.TryGetData(d.tx.Hash())
		if ok {
			s.data[d.idx] = dataInt(data)
			gd = append(gd, strconv.Itoa(dataInt(data)))
		} else {
			gd = append(gd, "x")
		}
		tv, ok := r.mp.TryGetValue(d.tx.Hash())
		gv.WriteByte(byte('0' + b2i(ok && tv == d.tx)))
	}
	s.has, s.hc, s.gv, s.gd = has.String(), hc.String(), gv.String(), strings.Join(gd, ",")
	r.mp.IterateVerifiedTransactions(func(t *transaction.Transaction, data any) bool {
		i, ok := r.byH[t.Hash()]
		if !ok {
			i = -1
		}
		s.it = append(s.it, pair{i, dataInt(data)})
		return true
	})
	s.deep = r.readDeep()
	s.events = r.drainEvents()
	return s
}

// verifyProbes runs Verify for every defined transaction (in definition order).
func (r *runner) verifyProbes() string {
	var ver strings.Builder
	for _, d := range r.sc.defs {
		ver.WriteByte(byte('0' + b2i(r.mp.Verify(d.tx, r.fe))))
	}
	return ver.String()
}

func protect(f func()) (panicked bool) {
	defer func() {
		if e := recover(); e != nil {
			panicked = true
		}
	}()
	f()
	return false
}

func runScenario(o *hx.Out, k int, sc *scenario) {
	r := &runner{o: o, k: k, sc: sc, byH: map[util.Uint256]int{}, fails: map[string]bool{}, resent: &resendLog{ch: make(chan struct{}, 1024)},
		stampOf: map[int]uint32{}, dataOf: map[int]int{}, content: map[int]int{}, evCh: make(chan mempoolevent.Event, 1<<14)}
	r.fe = &feer{bals: map[payerKey]int64{}, off: sc.off, acc: map[util.Uint160]int{}}
	for i := 0; i < 64; i++ {
		r.fe.acc[account(i)] = i
	}
	o.Line(fmt.Sprintf("new %d", sc.cap), "ok")
	r.mp = mempool.New(sc.cap, true, r.metricsCb)
	if !sc.noSubs {
		r.mp.RunSubscriptions()
		r.mp.SubscribeForTransactions(r.evCh)
		r.subsOn = true
		o.Line("subs 1", "ok")
		defer func() {
			if r.subsOn {
				r.mp.StopSubscriptions()
			}
		}()
	} else {
		o.Count("case:no-subscriptions")
	}
	for _, d := range sc.defs {
		build(d, sc.defs)
		r.byH[d.tx.Hash()] = d.idx
		orc := "-"
		if d.oracle >= 0 {
			orc = strconv.FormatInt(d.oracle, 10)
		}
		o.Line(fmt.Sprintf("tx %d %d %d %d %d %s %s %s", d.idx, d.sys, d.net, d.size, b2i(d.high), orc, csv(d.signers), csv(d.conflicts)),
			fmt.Sprintf("fpb=%d", d.tx.FeePerByte()))
	}
	keys := make([]payerKey, 0, len(sc.bals))
	for pk := range sc.bals {
		keys = append(keys, pk)
	}
	sort.Slice(keys, func(i, j int) bool { return keys[i].p < keys[j].p || keys[i].p == keys[j].p && keys[i].s < keys[j].s })
	for _, pk := range keys {
		r.fe.bals[pk] = sc.bals[pk]
		o.Line(fmt.Sprintf("bal %d %d %s", pk.p, pk.s, r.fe.balance(pk).String()), "ok")
	}
	canon := fmt.Sprintf("c%d", sc.cap)
	before := r.snap()
	for _, p := range sc.ops {
		var line, res string
		var addErr error
		var panicked bool
		r.metric = -1
		switch p.kind {
		case opHeight:
			r.fe.h = p.h
			o.Line(fmt.Sprintf("height %d", p.h), "ok")
			continue
		case opThreshold:
			r.setThreshold(p.h)
			o.Count(fmt.Sprintf("threshold:%d", p.h))
			continue
		case opSubsOff:
			if r.subsOn {
				r.drainEvents()
				r.mp.StopSubscriptions()
				r.subsOn = false
				o.Line("subs 0", "ok")
				o.Count("op:subs-off")
			}
			continue
		case opBal:
			r.fe.bals[p.pk] = p.amt
			o.Line(fmt.Sprintf("bal %d %d %s", p.pk.p, p.pk.s, r.fe.balance(p.pk).String()), "ok")
			continue
		case opVerify:
			var v bool
			panicked = protect(func() { v = r.mp.Verify(sc.defs[p.i].tx, r.fe) })
			obs := strconv.FormatBool(v)
			if panicked {
				obs = "panic"
				r.fail("panic", "Verify(%d) panicked", p.i)
			}
			o.Line(fmt.Sprintf("verify %d", p.i), obs)
			o.Count("op:verify")
			o.Count("verify:" + obs)
			if panicked {
				return
			}
			continue
		case opConc:
			after := r.runConc(p.conc)
			if after == nil {
				return
			}
			canon += "|conc:" + csv(after.list)
			before = after
			continue
		case opAdd:
			line = fmt.Sprintf("add %d %d", p.i, p.data)
			d := sc.defs[p.i]
			panicked = protect(func() {
				if p.data != 0 {
					addErr = r.mp.Add(d.tx, r.fe, p.data)
				} else {
					addErr = r.mp.Add(d.tx, r.fe)
				}
			})
			res = errClass(addErr)
			o.Count("op:add")
			for _, i := range before.list { // the incoming transaction meets a pooled one that conflicts with it twice over
				if i >= 0 && d.oracle >= 0 && sc.defs[i].oracle == d.oracle && (names(d, sc.defs[i]) || names(sc.defs[i], d)) {
					o.Count("add:meets-double-reason-conflict")
					o.Count("add:meets-double-reason-conflict:" + res)
					if payerOfDef(d) == payerOfDef(sc.defs[i]) {
						o.Count("add:meets-double-reason-conflict:same-payer")
					}
				}
			}
			o.Count("add:" + res)
		case opRemove:
			line = fmt.Sprintf("remove %d", p.i)
			panicked = protect(func() { r.mp.Remove(sc.defs[p.i].tx.Hash()) })
			res = "ok"
			o.Count("op:remove")
		case opStale:
			line = fmt.Sprintf("stale %d %s", p.fpb, csv(p.drops))
			r.fe.fpb = p.fpb
			drop := map[util.Uint256]bool{}
			for _, i := range p.drops {
				drop[sc.defs[i].tx.Hash()] = true
			}
			panicked = protect(func() {
				r.mp.RemoveStale(func(t *transaction.Transaction) bool { return !drop[t.Hash()] }, r.fe)
			})
			res = "ok"
			o.Count("op:stale")
		}
		if panicked {
			// the pool's mutex may still be held: nothing more can be observed in this case
			r.fail("panic", "%s panicked", line)
			o.Line(line, "panic")
			return
		}
		if p.kind == opAdd && addErr == nil {
			r.stampOf[p.i] = r.fe.h
			r.dataOf[p.i] = p.data
		}
		r.metricExpected = p.kind == opRemove || (p.kind == opAdd && addErr == nil)
		var after *snapshot
		if protect(func() {
			after = r.snap()
			r.checkInv(line, after)
			r.checkDeep(line, after)
			r.checkEvents(line, after, false)
			after.ver = r.verifyProbes()
		}) {
			r.fail("panic", "probe after %s panicked", line)
			o.Line(line, "panic")
			return
		}
		if p.kind == opStale {
			// the resend callback runs in a goroutine started by RemoveStale: wait for as many calls as the
			// documented rule predicts for the kept items (a surplus or a late call shows up at the next refresh)
			var want []pair
			for _, i := range after.list {
				if i >= 0 && isDue(r.threshold, r.fe.h, r.stampOf[i]) {
					want = append(want, pair{i, r.dataOf[i]})
				}
			}
			r.resent.waitFor(len(want))
			if len(want) == 0 && r.threshold != 0 {
				runtime.Gosched()
			}
			rs := r.resent.take()
			res = "ok rs=" + pairs(rs)
			if pairs(rs) != pairs(want) {
				r.fail("resend", "after %s at height %d (threshold %d): the resend callback got %s, the items whose age is threshold*2^k are %s",
					line, r.fe.h, r.threshold, pairs(rs), pairs(want))
			}
			if len(rs) > 0 {
				o.Count("stale:resent-some")
				o.Add("stale:resent-items", len(rs))
				for _, x := range rs {
					if x.id >= 0 && len(sc.defs[x.id].conflicts) > 0 {
						o.Count("stale:resent-with-conflicts")
					}
					if x.id >= 0 {
						if age := r.fe.h - r.stampOf[x.id]; age > r.threshold {
							o.Count("stale:resent-at-2^k>1")
						}
					}
				}
			}
			// policy: a refresh that raises the pool's fee-per-byte policy keeps only transactions that pay it
			if p.fpb > r.maxPolicy {
				r.maxPolicy = p.fpb
				o.Count("stale:policy-raised")
				if !sc.malformed {
					for _, i := range after.list {
						if i >= 0 && sc.defs[i].tx.FeePerByte() < p.fpb {
							r.fail("policy", "after %s: the policy was raised to %d but %d with fee per byte %d stays pooled", line, p.fpb, i, sc.defs[i].tx.FeePerByte())
						}
					}
				}
			}
		}
		o.Line(line, fmt.Sprintf("%s ; %s", res, after.line(false)))
		if p.kind == opAdd {
			r.checkAdd(line, sc.defs[p.i], addErr, before, after)
		}
		canon += fmt.Sprintf("|%s>%s:%s", line, res, csv(after.list))
		if len(after.list) == sc.cap {
			o.Count("state:full")
		}
		if len(after.events) > 1 {
			o.Count("events:several-in-one-call")
		}
		if p.kind == opStale && len(after.list) < len(before.list) {
			o.Count("stale:dropped-some")
			dropped := map[int]bool{}
			for _, i := range p.drops {
				dropped[i] = true
			}
			inAfter := map[int]bool{}
			for _, i := range after.list {
				inAfter[i] = true
			}
			for _, i := range before.list {
				if !inAfter[i] && !dropped[i] {
					if sc.defs[i].tx.FeePerByte() < p.fpb {
						o.Count("stale:dropped-by-policy")
					} else {
						o.Count("stale:dropped-by-balance")
					}
				}
			}
		}
		before = after
	}
	o.Seen(canon)
	if k < 3 {
		o.Sample(canon)
	}
}

func (r *runner) setThreshold(h uint32) {
	r.threshold = h
	log := r.resent
	r.mp.SetResendThreshold(h, func(t *transaction.Transaction, data any) {
		i, ok := r.byH[t.Hash()]
		if !ok {
			i = -1
		}
		log.add(pair{i, dataInt(data)})
	})
	r.o.Line(fmt.Sprintf("threshold %d", h), "ok")
}
