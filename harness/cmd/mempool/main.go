// Command mempool: correspondence + oracle stream for the memory pool (C08).
//
// Every case is a scenario: a pool capacity, a table of real *transaction.Transaction values
// (chosen size via script padding, fees, ordinary or Notary+depositor signers, HighPriority,
// Conflicts over earlier hashes, OracleResponse ids), a Feer stub with chosen balances and a
// sequence of Add / Remove / RemoveStale / Verify calls on a real mempool.Pool.
// After every call the observable state is printed (for the Lean driver) and the property's
// invariant is recomputed from outside on the real pool (the oracle).
package main

import (
	"fmt"
	"math/big"
	"math/bits"
	"runtime"
	"sync"
	"time"
	"sort"
	"strconv"
	"strings"

	"github.com/nspcc-dev/neo-go/pkg/core/mempool"
	"github.com/nspcc-dev/neo-go/pkg/core/native/nativehashes"
	"github.com/nspcc-dev/neo-go/pkg/core/transaction"
	"github.com/nspcc-dev/neo-go/pkg/util"

	"verif/harness/internal/hx"
	"verif/harness/internal/prng"
)

const unknownBase = 1000 // conflict indices >= unknownBase name hashes of transactions that do not exist

type txDef struct {
	idx       int
	sys, net  int64
	size      int
	high      bool
	oracle    int64 // -1: none
	signers   []int // account numbers; 1 = Notary native contract
	conflicts []int // indices of earlier transactions, or >= unknownBase
	tx        *transaction.Transaction
}

type payerKey struct{ p, s int }

type opKind int

const (
	opAdd opKind = iota
	opRemove
	opStale
	opVerify
	opBal
	opHeight    // the Feer's BlockHeight changes (a block arrived)
	opThreshold // SetResendThreshold
)

type op struct {
	kind  opKind
	i     int   // transaction index
	h     uint32 // opHeight: new height; opThreshold: resend threshold
	fpb   int64 // stale: policy fee per byte
	drops []int // stale: transactions for which isOK returns false
	pk    payerKey
	amt   int64
}

type scenario struct {
	name  string
	cap   int
	defs  []*txDef
	bals  map[payerKey]int64
	off   map[payerKey]*big.Int // huge-balance cases: added to every balance of the payer (tests uint256 truncation)
	ops   []op
	drift bool // balances change between refreshes: the solvency oracle is off, the tie stays on
	// malformed: some transaction repeats a Conflicts hash (rejected by blockchain.verifyTxAttributes before
	// it can reach Pool.Add, so outside the property's domain): only the tie and the panic oracle stay on
	malformed bool
}

func account(n int) util.Uint160 {
	switch n {
	case 0:
		return util.Uint160{}
	case 1:
		return nativehashes.Notary
	}
	var u util.Uint160
	u[0] = 0xA0
	u[19] = byte(n)
	return u
}

func unknownHash(n int) util.Uint256 {
	var u util.Uint256
	u[0] = 0xEE
	u[30] = byte(n >> 8)
	u[31] = byte(n)
	return u
}

// build constructs the real transaction of d (d.size is a request; the achieved size is stored back).
func build(d *txDef, defs []*txDef) {
	mk := func(scriptLen int) *transaction.Transaction {
		script := make([]byte, scriptLen)
		for i := range script {
			script[i] = 0x21 // NOP
		}
		t := transaction.New(script, d.sys)
		t.Nonce = uint32(d.idx) + 1
		t.NetworkFee = d.net
		t.ValidUntilBlock = 100
		for _, a := range d.signers {
			t.Signers = append(t.Signers, transaction.Signer{Account: account(a), Scopes: transaction.CalledByEntry})
			t.Scripts = append(t.Scripts, transaction.Witness{InvocationScript: []byte{}, VerificationScript: []byte{}})
		}
		if d.high {
			t.Attributes = append(t.Attributes, transaction.Attribute{Type: transaction.HighPriority})
		}
		if d.oracle >= 0 {
			t.Attributes = append(t.Attributes, transaction.Attribute{Type: transaction.OracleResponseT,
				Value: &transaction.OracleResponse{ID: uint64(d.oracle), Code: transaction.Success, Result: []byte{1}}})
		}
		for _, c := range d.conflicts {
			var h util.Uint256
			if c >= unknownBase {
				h = unknownHash(c)
			} else {
				h = defs[c].tx.Hash()
			}
			t.Attributes = append(t.Attributes, transaction.Attribute{Type: transaction.ConflictsT, Value: &transaction.Conflicts{Hash: h}})
		}
		return t
	}
	l := 1
	t := mk(l)
	for iter := 0; iter < 6 && t.Size() != d.size; iter++ {
		nl := l + d.size - t.Size()
		if nl < 1 {
			nl = 1
		}
		if nl == l {
			break
		}
		l = nl
		t = mk(l)
	}
	d.size = t.Size()
	d.tx = t
}

type feer struct {
	bals map[payerKey]int64
	off  map[payerKey]*big.Int
	acc  map[util.Uint160]int
	fpb  int64
	h    uint32
}

func (f *feer) FeePerByte() int64   { return f.fpb }
func (f *feer) BlockHeight() uint32 { return f.h }
func (f *feer) GetUtilityTokenBalance(p, s util.Uint160) *big.Int {
	return f.balance(payerKey{f.acc[p], f.acc[s]})
}

func (f *feer) balance(pk payerKey) *big.Int {
	b := big.NewInt(f.bals[pk])
	if o, ok := f.off[pk]; ok {
		b.Add(b, o)
	}
	return b
}

func csv(l []int) string {
	if len(l) == 0 {
		return "-"
	}
	s := make([]string, len(l))
	for i, x := range l {
		s[i] = strconv.Itoa(x)
	}
	return strings.Join(s, ",")
}

func b2i(b bool) int {
	if b {
		return 1
	}
	return 0
}

func errClass(err error) string {
	switch {
	case err == nil:
		return "ok"
	case isErr(err, mempool.ErrInsufficientFunds):
		return "err:funds"
	case isErr(err, mempool.ErrConflictsAttribute):
		return "err:cattr"
	case isErr(err, mempool.ErrConflict):
		return "err:conflict"
	case isErr(err, mempool.ErrDup):
		return "err:dup"
	case isErr(err, mempool.ErrOOM):
		return "err:oom"
	case isErr(err, mempool.ErrOracleResponse):
		return "err:oracle"
	}
	return "err:other"
}

func main() {
	f := hx.ParseFlags()
	o := hx.NewOut(f.Out)
	defer o.Close()
	corpus := corpusScenarios()
	n := f.N(3000, 300000)
	for k := 0; k < n; k++ {
		if !f.Want(k) {
			continue
		}
		var sc *scenario
		if k < len(corpus) {
			sc = corpus[k]
		} else {
			sc = generate(prng.ForCase(f.Seed, k), o)
		}
		o.Case(k)
		runScenario(o, k, sc)
	}
}

// snapshot is everything the harness can see of the pool without changing it.
type snapshot struct {
	list       []int
	count      int
	has, hc    string
	ver        string // Verify probes (filled after the invariant check)
	dataOK     bool
	unknownTxs int
}

func (s *snapshot) String() string {
	return fmt.Sprintf("txs=%s n=%d has=%s hc=%s", csv(s.list), s.count, s.has, s.hc)
}

// resendLog collects the calls of the pool's resend callback (made from a goroutine).
type resendLog struct {
	mu  sync.Mutex
	ids []int
	ch  chan struct{}
}

func (l *resendLog) add(i int) {
	l.mu.Lock()
	l.ids = append(l.ids, i)
	l.mu.Unlock()
	select {
	case l.ch <- struct{}{}:
	default:
	}
}

// waitFor blocks until n calls were logged (or 300 ms passed).
func (l *resendLog) waitFor(n int) {
	deadline := time.After(300 * time.Millisecond)
	for l.len() < n {
		select {
		case <-l.ch:
		case <-deadline:
			return
		}
	}
}
func (l *resendLog) len() int  { l.mu.Lock(); defer l.mu.Unlock(); return len(l.ids) }
func (l *resendLog) take() []int {
	l.mu.Lock()
	defer l.mu.Unlock()
	res := l.ids
	l.ids = nil
	return res
}

// isDue is the documented resend rule, computed from outside: the item's age is threshold * 2^k blocks.
func isDue(threshold, height, stamp uint32) bool {
	if threshold == 0 {
		return false
	}
	diff := height - stamp
	return diff%threshold == 0 && bits.OnesCount32(diff/threshold) == 1
}

type runner struct {
	resent    *resendLog
	threshold uint32
	stampOf   map[int]uint32 // height at which a pooled transaction was added

	o     *hx.Out
	k     int
	sc    *scenario
	mp    *mempool.Pool
	fe    *feer
	byH   map[util.Uint256]int
	fails map[string]bool
}

func (r *runner) fail(key, format string, a ...any) {
	if r.fails[key] { // one report per shape and case
		return
	}
	r.fails[key] = true
	r.o.Fail(key, r.k, "[%s] "+format, append([]any{r.sc.name}, a...)...)
}

func (r *runner) snap() *snapshot {
	s := &snapshot{dataOK: true}
	for _, t := range r.mp.GetVerifiedTransactions() {
		i, ok := r.byH[t.Hash()]
		if !ok {
			i = -1
			s.unknownTxs++
		}
		s.list = append(s.list, i)
	}
	s.count = r.mp.Count()
	var has, hc strings.Builder
	for _, d := range r.sc.defs {
		has.WriteByte(byte('0' + b2i(r.mp.ContainsKey(d.tx.Hash()))))
		hc.WriteByte(byte('0' + b2i(r.mp.HasConflicts(d.tx, r.fe))))
	}
	s.has, s.hc = has.String(), hc.String()
	return s
}

// verifyProbes runs Verify for every defined transaction (in definition order).
func (r *runner) verifyProbes() string {
	var ver strings.Builder
	for _, d := range r.sc.defs {
		ver.WriteByte(byte('0' + b2i(r.mp.Verify(d.tx, r.fe))))
	}
	return ver.String()
}

func protect(f func()) (panicked bool) {
	defer func() {
		if e := recover(); e != nil {
			panicked = true
		}
	}()
	f()
	return false
}

func runScenario(o *hx.Out, k int, sc *scenario) {
	r := &runner{o: o, k: k, sc: sc, byH: map[util.Uint256]int{}, fails: map[string]bool{}, resent: &resendLog{ch: make(chan struct{}, 1024)}, stampOf: map[int]uint32{}}
	r.fe = &feer{bals: map[payerKey]int64{}, off: sc.off, acc: map[util.Uint160]int{}}
	for i := 0; i < 64; i++ {
		r.fe.acc[account(i)] = i
	}
	o.Line(fmt.Sprintf("new %d", sc.cap), "ok")
	r.mp = mempool.New(sc.cap, false, nil)
	for _, d := range sc.defs {
		build(d, sc.defs)
		r.byH[d.tx.Hash()] = d.idx
		orc := "-"
		if d.oracle >= 0 {
			orc = strconv.FormatInt(d.oracle, 10)
		}
		o.Line(fmt.Sprintf("tx %d %d %d %d %d %s %s %s", d.idx, d.sys, d.net, d.size, b2i(d.high), orc, csv(d.signers), csv(d.conflicts)),
			fmt.Sprintf("fpb=%d", d.tx.FeePerByte()))
	}
	keys := make([]payerKey, 0, len(sc.bals))
	for pk := range sc.bals {
		keys = append(keys, pk)
	}
	sort.Slice(keys, func(i, j int) bool { return keys[i].p < keys[j].p || keys[i].p == keys[j].p && keys[i].s < keys[j].s })
	for _, pk := range keys {
		r.fe.bals[pk] = sc.bals[pk]
		o.Line(fmt.Sprintf("bal %d %d %s", pk.p, pk.s, r.fe.balance(pk).String()), "ok")
	}
	canon := fmt.Sprintf("c%d", sc.cap)
	before := r.snap()
	for _, p := range sc.ops {
		var line, res string
		var addErr error
		var panicked bool
		switch p.kind {
		case opHeight:
			r.fe.h = p.h
			o.Line(fmt.Sprintf("height %d", p.h), "ok")
			continue
		case opThreshold:
			r.threshold = p.h
			log := r.resent
			r.mp.SetResendThreshold(p.h, func(t *transaction.Transaction, _ any) { log.add(r.byH[t.Hash()]) })
			o.Line(fmt.Sprintf("threshold %d", p.h), "ok")
			o.Count(fmt.Sprintf("threshold:%d", p.h))
			continue
		case opBal:
			r.fe.bals[p.pk] = p.amt
			o.Line(fmt.Sprintf("bal %d %d %s", p.pk.p, p.pk.s, r.fe.balance(p.pk).String()), "ok")
			continue
		case opVerify:
			var v bool
			panicked = protect(func() { v = r.mp.Verify(sc.defs[p.i].tx, r.fe) })
			obs := strconv.FormatBool(v)
			if panicked {
				obs = "panic"
				r.fail("panic", "Verify(%d) panicked", p.i)
			}
			o.Line(fmt.Sprintf("verify %d", p.i), obs)
			o.Count("op:verify")
			o.Count("verify:" + obs)
			if panicked {
				return
			}
			continue
		case opAdd:
			line = fmt.Sprintf("add %d", p.i)
			d := sc.defs[p.i]
			panicked = protect(func() { addErr = r.mp.Add(d.tx, r.fe, d.idx) })
			res = errClass(addErr)
			o.Count("op:add")
			o.Count("add:" + res)
		case opRemove:
			line = fmt.Sprintf("remove %d", p.i)
			panicked = protect(func() { r.mp.Remove(sc.defs[p.i].tx.Hash()) })
			res = "ok"
			o.Count("op:remove")
		case opStale:
			line = fmt.Sprintf("stale %d %s", p.fpb, csv(p.drops))
			r.fe.fpb = p.fpb
			drop := map[util.Uint256]bool{}
			for _, i := range p.drops {
				drop[sc.defs[i].tx.Hash()] = true
			}
			panicked = protect(func() {
				r.mp.RemoveStale(func(t *transaction.Transaction) bool { return !drop[t.Hash()] }, r.fe)
			})
			res = "ok"
			o.Count("op:stale")
		}
		if panicked {
			// the pool's mutex may still be held: nothing more can be observed in this case
			r.fail("panic", "%s panicked", line)
			o.Line(line, "panic")
			return
		}
		var after *snapshot
		var ver string
		if protect(func() { after = r.snap(); r.checkInv(line, after); ver = r.verifyProbes(); after.ver = ver }) {
			r.fail("panic", "probe after %s panicked", line)
			o.Line(line, "panic")
			return
		}
		if p.kind == opStale {
			// the resend callback runs in a goroutine started by RemoveStale: wait for as many calls as the
			// documented rule predicts for the kept items (a surplus or a late call shows up at the next refresh)
			want := 0
			for _, i := range after.list {
				if i >= 0 && isDue(r.threshold, r.fe.h, r.stampOf[i]) {
					want++
				}
			}
			r.resent.waitFor(want)
			if want == 0 && r.threshold != 0 {
				runtime.Gosched()
			}
			rs := r.resent.take()
			res = "ok rs=" + csv(rs)
			if len(rs) > 0 {
				o.Count("stale:resent-some")
				o.Add("stale:resent-items", len(rs))
				for _, i := range rs {
					if len(sc.defs[i].conflicts) > 0 {
						o.Count("stale:resent-with-conflicts")
					}
				}
			}
		}
		if p.kind == opAdd && addErr == nil {
			r.stampOf[p.i] = r.fe.h
		}
		o.Line(line, fmt.Sprintf("%s ; %s ver=%s", res, after, ver))
		if p.kind == opAdd {
			r.checkAdd(line, sc.defs[p.i], addErr, before, after)
		}
		canon += fmt.Sprintf("|%s>%s:%s", line, res, csv(after.list))
		if len(after.list) == sc.cap {
			o.Count("state:full")
		}
		if p.kind == opStale && len(after.list) < len(before.list) {
			o.Count("stale:dropped-some")
			dropped := map[int]bool{}
			for _, i := range p.drops {
				dropped[i] = true
			}
			inAfter := map[int]bool{}
			for _, i := range after.list {
				inAfter[i] = true
			}
			for _, i := range before.list {
				if !inAfter[i] && !dropped[i] {
					if sc.defs[i].tx.FeePerByte() < p.fpb {
						o.Count("stale:dropped-by-policy")
					} else {
						o.Count("stale:dropped-by-balance")
					}
				}
			}
		}
		before = after
	}
	o.Seen(canon)
	if k < 3 {
		o.Sample(canon)
	}
}
