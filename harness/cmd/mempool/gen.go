package main

import (
	"fmt"
	"math/big"

	"verif/harness/internal/hx"
	"verif/harness/internal/prng"
)

// Accounts: 0 zero, 1 Notary, 2..4 ordinary senders, 5..6 notary depositors, 7..8 co-signers.

var sizeChoices = []int{100, 100, 128, 200, 200, 250, 300}

func pickDistinct(r *prng.R, n, max int) []int {
	var res []int
	for len(res) < n && len(res) < max {
		c := r.Intn(max)
		dup := false
		for _, x := range res {
			if x == c {
				dup = true
			}
		}
		if !dup {
			res = append(res, c)
		}
	}
	return res
}

func generate(r *prng.R, o *hx.Out) *scenario {
	sc := &scenario{name: "gen", bals: map[payerKey]int64{}}
	// capacity: small pools fill up
	switch r.Intn(10) {
	case 0, 1:
		sc.cap = 1
	case 2, 3:
		sc.cap = 2
	case 4, 5:
		sc.cap = 3
	default:
		sc.cap = r.Range(1, 8)
	}
	sc.drift = r.Chance(1, 10)
	if sc.drift {
		o.Count("case:drift")
	}
	sc.malformed = r.Chance(1, 25)
	if sc.malformed {
		o.Count("case:malformed")
	}
	sc.noSubs = r.Chance(1, 8)
	ntx := r.Range(3, 12)
	nSenders := r.Range(1, 3)
	notaryShare := []int{0, 2, 5, 8}[r.Intn(4)]   // out of 10
	oracleShare := []int{0, 2, 2, 6}[r.Intn(4)]   // out of 12
	conflictShare := []int{1, 4, 4, 7}[r.Intn(4)] // out of 10
	// a few fee levels per case so that equal priorities and near-ties are frequent
	fpbLevels := []int64{int64(r.Intn(4)), int64(r.Intn(6)), int64(r.Range(1, 8))}
	for i := 0; i < ntx; i++ {
		d := &txDef{idx: i, oracle: -1}
		if r.Intn(10) < notaryShare {
			d.signers = []int{1, 5 + r.Intn(2)}
			o.Count("tx:notary")
		} else {
			d.signers = []int{2 + r.Intn(nSenders)}
			if r.Chance(1, 4) {
				// a co-signer: a pure co-signer (7, 8), or an account that pays for other transactions of the case
				// (another sender 2..4, a notary depositor 5..6): "merely co-signed by the payer of the new transaction"
				co := []int{7, 8, 7, 8, 2, 3, 4, 5, 6}[r.Intn(9)]
				if co != d.signers[0] {
					d.signers = append(d.signers, co)
					if co < 7 {
						o.Count("tx:cosigned-by-a-payer")
					}
				}
			}
			if r.Chance(1, 12) {
				d.signers = append(d.signers, 1) // Notary as a non-sender signer
			}
			o.Count("tx:ordinary")
		}
		d.high = r.Chance(1, 8)
		if r.Intn(12) < oracleShare {
			d.oracle = int64(7 + r.Intn(2))
			o.Count("tx:oracle")
		}
		if i > 0 && r.Intn(10) < conflictShare {
			d.conflicts = pickDistinct(r, r.Range(1, 2), i)
			o.Count("tx:conflicts")
		}
		if d.oracle >= 0 && r.Chance(1, 3) {
			// "double reason": an earlier response to the SAME oracle request is also named in Conflicts (and usually
			// paid by the same account), so that one pooled transaction is a conflict of the incoming one twice over -
			// through the Conflicts attribute (this direction when the earlier one is pooled first, the other
			// direction when this one is pooled first) and through the oracle request id
			for j := i - 1; j >= 0; j-- {
				e := sc.defs[j]
				if e.oracle != d.oracle {
					continue
				}
				dup := false
				for _, c := range d.conflicts {
					dup = dup || c == j
				}
				if !dup {
					d.conflicts = append(d.conflicts, j)
				}
				if r.Chance(2, 3) {
					d.signers = append([]int{}, e.signers...)
				}
				o.Count("tx:double-reason(conflicts+oracle-id)")
				break
			}
		}
		if r.Chance(1, 20) {
			d.conflicts = append(d.conflicts, unknownBase+r.Intn(3))
		}
		if sc.malformed && len(d.conflicts) > 0 && r.Chance(1, 2) {
			d.conflicts = append(d.conflicts, d.conflicts[r.Intn(len(d.conflicts))])
		}
		d.size = sizeChoices[r.Intn(len(sizeChoices))]
		lvl := fpbLevels[r.Intn(len(fpbLevels))]
		switch r.Intn(4) {
		case 0:
			d.net = lvl * int64(d.size)
		case 1:
			d.net = lvl*int64(d.size) + int64(r.Intn(3))
		case 2:
			d.net = (lvl+1)*int64(d.size) - 1
		default:
			d.net = lvl*int64(d.size) + int64(r.Intn(d.size))
		}
		d.sys = []int64{0, 0, 1, 10, 50, 100, 300}[r.Intn(7)]
		if d.oracle >= 0 && len(d.conflicts) > 0 && r.Chance(2, 3) {
			// a double-reason response usually outbids the response it names (otherwise ErrConflictsAttribute hides the rest)
			if j := d.conflicts[len(d.conflicts)-1]; j < i && sc.defs[j].oracle == d.oracle {
				d.net = sc.defs[j].net + int64(r.Range(1, 60))
				d.sys = 0
			}
		}
		sc.defs = append(sc.defs, d)
	}
	// balances near the sums of fees: exact subset sums, one short, generous, or poor
	setBalances(r, sc, sc.bals)
	if r.Chance(1, 30) {
		// balances beyond 64 bits: multiples of 2^256 are truncated by SetFromBig, 2^255 and 2^256-1000 are not
		o.Count("case:huge-balance")
		sc.off = map[payerKey]*big.Int{}
		two256 := new(big.Int).Lsh(big.NewInt(1), 256)
		for _, pk := range sortedKeys(sc.bals) {
			switch r.Intn(5) {
			case 0:
				sc.off[pk] = new(big.Int).Set(two256)
			case 1:
				sc.off[pk] = new(big.Int).Mul(two256, big.NewInt(int64(r.Range(2, 9))))
			case 2:
				sc.off[pk] = new(big.Int).Lsh(big.NewInt(1), 255)
			case 3:
				sc.off[pk] = new(big.Int).Sub(two256, big.NewInt(1000))
			}
		}
	}
	// operations
	height := uint32(r.Range(0, 20))
	if r.Chance(1, 50) {
		height = 4294967290 + uint32(r.Intn(6)) // uint32 wrap-around of the height
	}
	thr := uint32([]int{0, 0, 1, 1, 2, 3}[r.Intn(6)])
	sc.ops = append(sc.ops, op{kind: opThreshold, h: thr}, op{kind: opHeight, h: height})
	nops := r.Range(8, 40)
	pooledGuess := map[int]bool{}
	for j := 0; j < nops; j++ {
		switch r.Weighted([]int{62, 10, 8, 12, b2i(sc.drift) * 8}) {
		case 0:
			i := r.Intn(ntx)
			for tries := 0; tries < 3 && pooledGuess[i] && r.Chance(9, 10); tries++ { // prefer transactions not tried yet
				i = r.Intn(ntx)
			}
			pooledGuess[i] = true
			data := r.Range(1, 99)
			if r.Chance(1, 8) {
				data = 0 // Add without a data argument
			}
			sc.ops = append(sc.ops, op{kind: opAdd, i: i, data: data})
		case 1:
			i := r.Intn(ntx)
			delete(pooledGuess, i)
			sc.ops = append(sc.ops, op{kind: opRemove, i: i})
		case 2:
			sc.ops = append(sc.ops, op{kind: opVerify, i: r.Intn(ntx)})
		case 3:
			// a block arrives: balances change, some transactions are no longer OK, policy may change
			if r.Chance(2, 3) {
				nb := map[payerKey]int64{}
				setBalances(r, sc, nb)
				for _, pk := range sortedKeys(nb) {
					if r.Chance(1, 2) {
						sc.ops = append(sc.ops, op{kind: opBal, pk: pk, amt: nb[pk]})
					}
				}
			}
			if r.Chance(4, 5) {
				height++
			} else {
				height += uint32(r.Range(0, 3))
			}
			sc.ops = append(sc.ops, op{kind: opHeight, h: height})
			if r.Chance(1, 25) {
				sc.ops = append(sc.ops, op{kind: opThreshold, h: uint32(r.Intn(4))})
			}
			st := op{kind: opStale}
			if r.Chance(1, 3) {
				st.fpb = int64(r.Intn(6))
			}
			if r.Chance(2, 3) {
				st.drops = pickDistinct(r, r.Range(1, 3), ntx)
			}
			for _, i := range st.drops {
				delete(pooledGuess, i)
			}
			sc.ops = append(sc.ops, st)
		case 4:
			pks := sortedKeys(sc.bals)
			pk := pks[r.Intn(len(pks))]
			amt := sc.bals[pk] + int64(r.Range(-200, 200))
			if amt < 0 {
				amt = 0
			}
			sc.ops = append(sc.ops, op{kind: opBal, pk: pk, amt: amt})
		}
	}
	if !sc.noSubs && r.Chance(1, 20) {
		// StopSubscriptions somewhere in the middle: no events from then on
		at := 2 + r.Intn(len(sc.ops)-2)
		sc.ops = append(sc.ops[:at:at], append([]op{{kind: opSubsOff}}, sc.ops[at:]...)...)
	}
	if r.Chance(1, 8) {
		// a phase of concurrent calls: after a refresh (every cached balance is the Feer's), balances unchanged
		// during the phase, a refresh afterwards (the balance cache is rebuilt)
		o.Count("case:concurrent")
		clients := r.Range(2, 4)
		progs := make([][]op, clients)
		for c := range progs {
			for j, n := 0, r.Range(2, 6); j < n; j++ {
				switch r.Weighted([]int{60, 14, 16, 10}) {
				case 0:
					progs[c] = append(progs[c], op{kind: opAdd, i: r.Intn(ntx), data: r.Range(1, 99)})
				case 1:
					progs[c] = append(progs[c], op{kind: opRemove, i: r.Intn(ntx)})
				case 2:
					progs[c] = append(progs[c], op{kind: opVerify, i: r.Intn(ntx)})
				case 3:
					st := op{kind: opStale}
					if r.Chance(1, 3) {
						st.fpb = int64(r.Intn(6))
					}
					if r.Chance(1, 2) {
						st.drops = pickDistinct(r, r.Range(1, 2), ntx)
					}
					progs[c] = append(progs[c], st)
				}
			}
		}
		phase := []op{{kind: opStale}, {kind: opConc, conc: progs}, {kind: opStale}}
		at := 2 + r.Intn(len(sc.ops)-1)
		if at > len(sc.ops) {
			at = len(sc.ops)
		}
		sc.ops = append(sc.ops[:at:at], append(phase, sc.ops[at:]...)...)
	}
	o.Count(fmt.Sprintf("case:cap=%d", sc.cap))
	return sc
}

func sortedKeys(m map[payerKey]int64) []payerKey {
	var ks []payerKey
	for k := range m {
		ks = append(ks, k)
	}
	for i := range ks {
		for j := i + 1; j < len(ks); j++ {
			if ks[j].p < ks[i].p || ks[j].p == ks[i].p && ks[j].s < ks[i].s {
				ks[i], ks[j] = ks[j], ks[i]
			}
		}
	}
	return ks
}

// setBalances chooses, for every payer of the scenario, a balance close to sums of its fees.
func setBalances(r *prng.R, sc *scenario, out map[payerKey]int64) {
	fees := map[payerKey][]int64{}
	for _, d := range sc.defs {
		pk := payerOfDef(d)
		fees[pk] = append(fees[pk], d.sys+d.net)
	}
	for _, pk := range sortedKeys(toKeys(fees)) {
		fs := fees[pk]
		var sub, all int64
		for _, f := range fs {
			all += f
			if r.Bool() {
				sub += f
			}
		}
		var mx int64
		for _, f := range fs {
			if f > mx {
				mx = f
			}
		}
		if sub < mx && r.Chance(3, 4) { // a balance below every single fee only produces ErrInsufficientFunds
			sub += mx
		}
		var b int64
		switch r.Intn(10) {
		case 9:
			b = all - fs[r.Intn(len(fs))] - int64(r.Intn(2)) // everything but one, or one short of that (a replacement at the edge)
		case 0:
			b = all
		case 1:
			b = all - 1
		case 2, 3:
			b = sub
		case 4:
			b = sub - 1
		case 5:
			b = sub + int64(r.Intn(50))
		case 6:
			b = fs[r.Intn(len(fs))] - int64(r.Intn(2))
		case 7:
			b = mx + fs[r.Intn(len(fs))] - int64(r.Intn(2))
		default:
			b = all * 2
		}
		if b < 0 {
			b = 0
		}
		out[pk] = b
	}
}

func toKeys(m map[payerKey][]int64) map[payerKey]int64 {
	res := map[payerKey]int64{}
	for k := range m {
		res[k] = 0
	}
	return res
}
