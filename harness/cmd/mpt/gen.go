package main

import (
	"bytes"
	"fmt"

	"github.com/nspcc-dev/neo-go/pkg/core/mpt"
	"github.com/nspcc-dev/neo-go/pkg/core/storage"

	"verif/harness/internal/hx"
	"verif/harness/internal/prng"
)

// ---- key / value pools -------------------------------------------------------

// few distinct bytes so that keys share nibble prefixes and differ in single nibbles
var alphabet = []byte{0x00, 0x01, 0x10, 0x11, 0x12, 0x05, 0x07, 0x30, 0x35, 0xf0, 0xff, 0x0f}

func pickB(r *prng.R) byte { return alphabet[r.Intn(len(alphabet))] }

// longCase: the current case is a long history over a big key pool (thorough tier, 1 case in 12)
var longCase bool

func mkPool(r *prng.R, o *hx.Out) [][]byte {
	var base []byte
	switch r.Intn(6) {
	case 0: // no shared prefix
	case 1, 2:
		for i := r.Range(1, 3); i > 0; i-- {
			base = append(base, pickB(r))
		}
	case 3: // long shared prefix
		base = bytes.Repeat([]byte{pickB(r)}, r.Range(8, 40))
		o.Count("pool:long-prefix")
	default:
		base = []byte{pickB(r)}
	}
	n := r.Range(2, 18)
	if r.Chance(1, 6) {
		n = r.Range(18, 48)
	}
	if longCase {
		n = r.Range(40, 96)
	}
	seen := map[string]bool{}
	var pool [][]byte
	add := func(k []byte) {
		if len(k) == 0 || len(k) > mpt.MaxKeyLength+1 || seen[string(k)] {
			return
		}
		seen[string(k)] = true
		pool = append(pool, k)
	}
	for tries := 0; len(pool) < n && tries < 10*n; tries++ {
		var k []byte
		switch {
		case len(pool) == 0 || r.Chance(3, 10):
			k = bytes.Clone(base)
			for i := r.Range(0, 3); i > 0; i-- {
				k = append(k, pickB(r))
			}
		case r.Chance(1, 3): // extension of an existing key
			k = bytes.Clone(pool[r.Intn(len(pool))])
			for i := r.Range(1, 2); i > 0; i-- {
				k = append(k, pickB(r))
			}
		case r.Chance(1, 2): // proper prefix of an existing key
			p := pool[r.Intn(len(pool))]
			if len(p) > 1 {
				k = bytes.Clone(p[:r.Range(1, len(p)-1)])
			}
		default: // sibling: another last nibble / last byte
			k = bytes.Clone(pool[r.Intn(len(pool))])
			if r.Bool() {
				k[len(k)-1] ^= byte(1 << uint(r.Intn(4)))
			} else {
				k[len(k)-1] ^= byte(1 << uint(4+r.Intn(4)))
			}
		}
		add(k)
	}
	if r.Chance(1, 8) { // maximum-length keys sharing all but the last nibble, and one that is too long
		k := append(bytes.Clone(base), bytes.Repeat([]byte{pickB(r)}, mpt.MaxKeyLength)...)[:mpt.MaxKeyLength]
		add(k)
		k2 := bytes.Clone(k)
		k2[len(k2)-1] ^= 1
		add(k2)
		add(bytes.Clone(k[:mpt.MaxKeyLength-1]))
		if r.Bool() {
			add(append(bytes.Clone(k), 0x01)) // MaxKeyLength+1: rejected
		}
		o.Count("pool:max-length-keys")
	}
	if len(pool) == 0 {
		pool = append(pool, []byte{0x12})
	}
	return pool
}

func mkVals(r *prng.R, o *hx.Out) [][]byte {
	vals := [][]byte{{}, {0x01}, {0xaa, 0xbb}, {0x00}}
	for i := r.Intn(3); i > 0; i-- {
		vals = append(vals, r.Bytes(r.Range(1, 40)))
	}
	if r.Chance(1, 5) { // var-uint length forms fd (>= 253)
		vals = append(vals, bytes.Repeat([]byte{0x5a}, []int{252, 253, 254, 300}[r.Intn(4)]))
		o.Count("vals:fd-length")
	}
	if r.Chance(1, 150) { // fe form and the MaxValueLength boundary
		vals = append(vals, bytes.Repeat([]byte{0xa5}, []int{65535, 65536, mpt.MaxValueLength, mpt.MaxValueLength + 1}[r.Intn(4)]))
		o.Count("vals:huge")
	}
	return vals
}

func pick(r *prng.R, l [][]byte) []byte { return l[r.Intn(len(l))] }

// a key that is (mostly) not in the pool but close to it
func nearKey(r *prng.R, pool [][]byte) []byte {
	k := bytes.Clone(pick(r, pool))
	switch r.Intn(4) {
	case 0:
		k = append(k, pickB(r))
	case 1:
		if len(k) > 1 {
			k = k[:len(k)-1]
		}
	case 2:
		k[r.Intn(len(k))] ^= byte(1 << uint(r.Intn(8)))
	default:
		k[len(k)-1]++
	}
	return k
}

// ---- generated op sequences ----------------------------------------------------

func genCase(w *world) {
	r := w.r
	pool := mkPool(r, w.o)
	vals := mkVals(r, w.o)
	nops := r.Range(8, 45)
	if longCase {
		nops = r.Range(120, 400)
		w.o.Count("case:long")
	}
	weights := []int{30, 14, 12, 8, 4, 3, 3, 5, 9, 5, 4}
	if r.Chance(1, 5) { // batch-heavy history
		weights[2] = 40
	}
	for i := 0; i < nops; i++ {
		switch r.Weighted(weights) {
		case 0:
			w.put(pick(r, pool), pick(r, vals))
		case 1:
			switch {
			case r.Chance(1, 6):
				w.del(nearKey(r, pool))
			case len(w.ref) > 0 && r.Chance(1, 2): // a key that is present
				ks := sortedKeys(w.ref)
				w.del([]byte(ks[r.Intn(len(ks))]))
			default:
				w.del(pick(r, pool))
			}
		case 2:
			w.batch(genBatch(w, pool, vals))
		case 3:
			if r.Chance(1, 4) {
				w.get(nearKey(r, pool))
			} else {
				w.get(pick(r, pool))
			}
		case 4:
			w.flush()
		case 5:
			w.collapse(r.Intn(6))
		case 6:
			w.reopen()
		case 7:
			genFind(w, pool)
		case 8:
			genSeek(w, pool)
		case 9:
			genProof(w, pool)
		case 10:
			w.root()
		}
	}
	// closing reads: root (history independence), every pool key, one ordered scan each way
	w.root()
	for _, k := range pool {
		if len(pool) <= 12 || r.Chance(1, 3) {
			w.get(k)
		}
	}
	w.seek(nil, nil, false)
	w.seek(nil, nil, true)
	genSeek(w, pool)
	genFind(w, pool)
	genProof(w, pool)
	genDivergingStart(w)
}

func genBatch(w *world, pool, vals [][]byte) []change {
	r := w.r
	n := r.Range(1, 6)
	switch r.Intn(6) {
	case 0:
		n = r.Range(6, len(pool)+6)
	case 1: // delete everything present (strips branches all the way up)
		var chs []change
		for k := range w.ref {
			chs = append(chs, change{key: []byte(k)})
		}
		if r.Bool() && len(chs) > 1 {
			chs = chs[:len(chs)-1] // … but one
		}
		if len(chs) > 0 {
			w.o.Count("batch:delete-all")
			return chs
		}
	}
	var chs []change
	for i := 0; i < n; i++ {
		k := pick(r, pool)
		if r.Chance(1, 8) {
			k = nearKey(r, pool)
		} else if len(w.ref) > 0 && r.Chance(1, 3) { // a key that is present
			ks := sortedKeys(w.ref)
			k = []byte(ks[r.Intn(len(ks))])
		}
		if len(k) > mpt.MaxKeyLength { // PutBatch does not validate; stay inside the documented domain
			k = k[:mpt.MaxKeyLength]
		}
		if r.Chance(1, 60) {
			k = []byte{} // the empty storage key: value stored at the root
			w.o.Count("batch:empty-key")
		}
		var v []byte
		if !r.Chance(2, 5) {
			v = pick(r, vals)
			if len(v) > mpt.MaxValueLength {
				v = v[:mpt.MaxValueLength]
			}
			if v == nil {
				v = []byte{}
			}
		}
		chs = append(chs, change{key: k, val: v})
	}
	return chs
}

// prefixOfSome returns a byte prefix of a pool key (possibly empty, possibly the whole key).
func prefixOfSome(r *prng.R, pool [][]byte) []byte {
	k := pick(r, pool)
	if len(k) > mpt.MaxKeyLength {
		k = k[:mpt.MaxKeyLength]
	}
	return bytes.Clone(k[:r.Range(0, len(k))])
}

func genStart(r *prng.R, pool [][]byte, prefix []byte) []byte {
	// a suffix (relative to prefix) of some key with that prefix, then mutated
	var cands [][]byte
	for _, k := range pool {
		if bytes.HasPrefix(k, prefix) && len(k) > len(prefix) && len(k) <= mpt.MaxKeyLength {
			cands = append(cands, k[len(prefix):])
		}
	}
	var s []byte
	if len(cands) == 0 || r.Chance(1, 10) {
		s = []byte{pickB(r)}
	} else {
		s = bytes.Clone(pick(r, cands))
	}
	switch r.Intn(7) {
	case 0, 1: // exact
	case 2:
		s[len(s)-1]++
	case 3:
		s[len(s)-1]--
	case 4:
		if len(s) > 1 {
			s = s[:len(s)-1]
		}
	case 5:
		s = append(s, pickB(r))
	default:
		s[r.Intn(len(s))] ^= byte(1 << uint(r.Intn(8)))
	}
	if room := mpt.MaxKeyLength - len(prefix); room < 0 {
		s = nil
	} else if len(s) > room {
		s = s[:room]
	}
	return s
}

// genDivergingStart: the named class "the start position leaves the trie inside an extension key after
// >= 1 matching nibble" (billet.go:321-329, seeded C10-m7): a present key k, a prefix k[:a], and a start that
// follows k for at least one nibble and then differs (in the low or the high nibble of a byte, smaller or
// greater), optionally continued; Seek in both directions and Find from there.
func genDivergingStart(w *world) {
	r := w.r
	var cands []string
	for _, k := range sortedKeys(w.ref) {
		if len(k) >= 2 && len(k) <= mpt.MaxKeyLength {
			cands = append(cands, k)
		}
	}
	if len(cands) == 0 {
		return
	}
	k := []byte(cands[r.Intn(len(cands))])
	a := r.Range(0, len(k)-2)
	b := r.Range(a, len(k)-1) // the byte where the start leaves the key
	var mask byte
	if b == a || r.Bool() {
		mask = byte(r.Range(1, 15)) // high nibble matches, low nibble differs: >= 1 matching nibble even for b == a
	} else {
		mask = byte(r.Range(1, 15)) << 4
	}
	start := append(bytes.Clone(k[a:b]), k[b]^mask)
	if r.Chance(1, 3) {
		start = append(start, pickB(r))
	}
	w.o.Count("seek:start-diverges-inside-key")
	w.seek(bytes.Clone(k[:a]), start, false)
	w.seek(bytes.Clone(k[:a]), start, true)
	w.find(bytes.Clone(k[:a]), start, []int{1, 2, 1000}[r.Intn(3)])
}

func genSeek(w *world, pool [][]byte) {
	r := w.r
	var prefix []byte
	if !r.Chance(1, 3) {
		prefix = prefixOfSome(r, pool)
		if r.Chance(1, 10) && len(prefix) < mpt.MaxKeyLength {
			prefix = append(prefix, pickB(r))
		}
	}
	var start []byte
	if !r.Chance(1, 3) {
		start = genStart(r, pool, prefix)
	}
	w.seek(prefix, start, r.Bool())
}

func genFind(w *world, pool [][]byte) {
	r := w.r
	var prefix []byte
	if !r.Chance(1, 4) {
		prefix = prefixOfSome(r, pool)
	}
	var from []byte
	if r.Bool() {
		from = genStart(r, pool, prefix)
	}
	max := r.Range(1, 6)
	if r.Bool() {
		max = 1000
	} else if r.Chance(1, 8) {
		max = 0 // the stop test `count >= maxNum` fires after the first visited node (model: findX)
		w.o.Count("find:max0")
	}
	w.find(prefix, from, max)
}

// ---- proofs and their tampering ---------------------------------------------------

func genProof(w *world, pool [][]byte) {
	r := w.r
	key := pick(r, pool)
	if r.Chance(1, 5) {
		key = nearKey(r, pool)
	}
	ps := w.proof(key)
	if ps == nil || len(key) > mpt.MaxKeyLength {
		return
	}
	root := rootOf(w.tr)
	for t := r.Range(1, 4); t > 0; t-- {
		tp, kind := tamper(w, key, ps)
		k2 := key
		if r.Chance(1, 4) { // the (possibly untouched) list against another key
			k2 = pick(r, pool)
			if r.Bool() {
				k2 = nearKey(r, pool)
			}
			if len(k2) > mpt.MaxKeyLength {
				k2 = k2[:mpt.MaxKeyLength]
			}
			kind += "+otherkey"
		}
		w.verify(root, k2, tp, kind)
	}
}

func cloneList(ps [][]byte) [][]byte {
	res := make([][]byte, len(ps))
	for i := range ps {
		res[i] = bytes.Clone(ps[i])
	}
	return res
}

// altProof: the proof of the same key in a trie with the same keys where this key's value (or a
// sibling's) differs — nodes that "look right" but belong to another root.
func altProof(w *world, key []byte) [][]byte {
	t := mpt.NewTrie(nil, mpt.ModeAll, storage.NewMemCachedStore(storage.NewMemoryStore()))
	changed := false
	for _, k := range sortedKeys(w.ref) {
		if len(k) == 0 {
			continue
		}
		v := w.ref[k]
		if k == string(key) || (!changed && w.r.Chance(1, 3)) {
			v = append(bytes.Clone(v), 0x99)
			changed = true
		}
		_ = t.Put([]byte(k), v)
	}
	ps, err := t.GetProof(key)
	if err != nil {
		return nil
	}
	return ps
}

func tamper(w *world, key []byte, ps [][]byte) ([][]byte, string) {
	r := w.r
	tp := cloneList(ps)
	n := len(tp)
	switch r.Intn(10) {
	case 0:
		i := r.Intn(n)
		return append(tp[:i], tp[i+1:]...), "drop"
	case 1:
		i := r.Intn(n)
		return append(tp, bytes.Clone(tp[i])), "dup"
	case 2:
		for i, j := 0, n-1; i < j; i, j = i+1, j-1 {
			tp[i], tp[j] = tp[j], tp[i]
		}
		return tp, "reverse"
	case 3, 4:
		i := r.Intn(n)
		if len(tp[i]) > 0 {
			tp[i][r.Intn(len(tp[i]))] ^= byte(1 << uint(r.Intn(8)))
		}
		return tp, "bitflip"
	case 5:
		alt := altProof(w, key)
		if alt == nil {
			return tp, "same"
		}
		if r.Bool() { // whole foreign proof
			return alt, "foreign"
		}
		i := r.Intn(n) // one foreign node in place of the i-th (counted from the leaf end)
		if i < len(alt) {
			tp[n-1-i] = alt[len(alt)-1-i]
		}
		return tp, "substitute"
	case 6:
		alt := altProof(w, key)
		return append(tp, alt...), "mixed-in"
	case 7:
		i := r.Intn(n)
		tp[i] = append(tp[i], r.Bytes(r.Range(1, 3))...)
		return tp, "junk-tail"
	case 8:
		i := r.Intn(n)
		if len(tp[i]) > 1 {
			tp[i] = tp[i][:r.Range(0, len(tp[i])-1)]
		}
		return tp, "truncate"
	default:
		return nil, "empty"
	}
}

// ---- decoder / walker stream: arbitrary node encodings --------------------------------

type gnode struct {
	typ    byte // 0 branch, 1 ext, 2 leaf, 3 hash(of a missing node), 4 empty
	key    []byte
	val    []byte
	kids   []*gnode
	inline bool // embedded in the parent instead of referenced by hash
}

func genNode(r *prng.R, depth int) *gnode {
	t := r.Weighted([]int{3, 3, 4, 1, 1})
	if depth <= 0 && t < 2 {
		t = 2
	}
	n := &gnode{typ: byte(t), inline: r.Chance(1, 4)}
	switch t {
	case 0:
		n.kids = make([]*gnode, 17)
		for i := range n.kids {
			if r.Chance(1, 5) {
				n.kids[i] = genNode(r, depth-1)
			} else {
				n.kids[i] = &gnode{typ: 4, inline: true}
			}
		}
	case 1:
		for i := r.Intn(4); i > 0; i-- {
			b := byte(r.Intn(16))
			if r.Chance(1, 12) {
				b = byte(r.Intn(256)) // not a nibble: can never match a path
			}
			n.key = append(n.key, b)
		}
		n.kids = []*gnode{genNode(r, depth-1)}
	case 2:
		n.val = r.Bytes(r.Intn(5))
	case 3:
		n.val = r.Bytes(32)
	}
	return n
}

func putVar(r *prng.R, b []byte, n int) []byte {
	switch {
	case r.Chance(1, 10): // non-minimal forms are accepted by ReadVarUint
		if r.Bool() {
			return append(b, 0xfd, byte(n), byte(n>>8))
		}
		return append(b, 0xfe, byte(n), byte(n>>8), 0, 0)
	case n < 0xfd:
		return append(b, byte(n))
	default:
		return append(b, 0xfd, byte(n), byte(n>>8))
	}
}

// encode returns the bytes of n (with type byte); non-inline non-empty children go to *items.
func (n *gnode) encode(r *prng.R, items *[][]byte) []byte {
	b := []byte{n.typ}
	child := func(c *gnode) {
		e := c.encode(r, items)
		if c.inline || c.typ == 4 {
			b = append(b, e...)
			return
		}
		*items = append(*items, e)
		b = append(b, 3)
		b = append(b, dsha(e)...)
	}
	switch n.typ {
	case 0:
		for _, c := range n.kids {
			child(c)
		}
	case 1:
		b = putVar(r, b, len(n.key))
		b = append(b, n.key...)
		child(n.kids[0])
	case 2:
		b = putVar(r, b, len(n.val))
		b = append(b, n.val...)
	case 3:
		b = append(b, n.val...)
	}
	return b
}

// somePath walks the structure and returns a nibble path that (mostly) leads to a leaf.
func somePath(r *prng.R, n *gnode) []byte {
	var p []byte
	for n != nil {
		switch n.typ {
		case 0:
			var nz []int
			for i, c := range n.kids {
				if c.typ != 4 {
					nz = append(nz, i)
				}
			}
			if len(nz) == 0 {
				return p
			}
			i := nz[r.Intn(len(nz))]
			if i == 16 {
				return p
			}
			p = append(p, byte(i))
			n = n.kids[i]
		case 1:
			p = append(p, n.key...)
			n = n.kids[0]
		default:
			return p
		}
	}
	return p
}

func nibblesToKey(p []byte) []byte {
	k := make([]byte, 0, len(p)/2+1)
	for i := 0; i+1 < len(p); i += 2 {
		k = append(k, (p[i]&15)<<4|(p[i+1]&15))
	}
	if len(p)%2 == 1 {
		k = append(k, (p[len(p)-1]&15)<<4)
	}
	return k
}

func genDecoderCase(w *world) {
	r := w.r
	for i := r.Range(2, 6); i > 0; i-- {
		root := genNode(r, r.Range(1, 5))
		root.inline = false
		var items [][]byte
		top := root.encode(r, &items)
		items = append(items, top)
		if startsHash(top) && !r.Chance(1, 20) { // child process: keep it rare
			continue
		}
		key := nibblesToKey(somePath(r, root))
		if r.Chance(1, 6) && len(key) > 0 {
			key[r.Intn(len(key))] ^= byte(1 << uint(r.Intn(8)))
		}
		switch r.Intn(8) {
		case 0: // an item with trailing junk still decodes, but has another hash
			j := r.Intn(len(items))
			items[j] = append(items[j], r.Bytes(2)...)
		case 1:
			j := r.Intn(len(items))
			if len(items[j]) > 0 {
				items[j][r.Intn(len(items[j]))] ^= byte(1 << uint(r.Intn(8)))
			}
		case 2:
			j := r.Intn(len(items))
			items[j] = items[j][:r.Intn(len(items[j])+1)]
		}
		if len(key) > mpt.MaxKeyLength {
			key = key[:mpt.MaxKeyLength]
		}
		w.verify(dsha(top), key, items, "decoder")
		w.note(fmt.Sprintf("v%d/%d", len(items), len(key)))
	}
}

// ---- hand-written corpus (runs first) ---------------------------------------------------

func hb(s string) []byte { return unhex(s) }

func putAll(w *world, keys ...string) {
	for _, k := range keys {
		w.put(hb(k), append([]byte{0xaa}, hb(k)...))
	}
}

// chain of n inline extension nodes with an empty key around a leaf: depth limit of the decoder
func extChain(n int) []byte {
	var b []byte
	for i := 0; i < n; i++ {
		b = append(b, 1, 0)
	}
	return append(b, 2, 1, 0x77)
}

var corpus = []func(w *world){
	// doc.go example; deletions collapse a branch into an extension and merge extensions
	func(w *world) {
		putAll(w, "1201", "1203", "1224", "12")
		w.root()
		w.del(hb("1224"))
		w.root()
		w.del(hb("12"))
		w.root()
		w.del(hb("1203"))
		w.root()
		w.get(hb("1201"))
		w.del(hb("1201"))
		w.root()
	},
	// regression (fixed by 10d6532): backwards seek from a start position — leaves whose key is a proper
	// prefix of Start (value of a branch, leaf below an extension) and the extension key comparison
	func(w *world) {
		putAll(w, "12", "1205", "1207", "1230", "11")
		w.seek(nil, hb("1206"), true)
		w.seek(nil, hb("1205"), true)
		w.seek(nil, hb("1206"), false)
		w.seek(nil, hb("1231"), true) // extension key smaller than the rest of Start: skipped
		w.seek(nil, hb("122f"), true)
		w.seek(hb("12"), hb("06"), true)
	},
	// regression (10d6532): backwards, an extension key greater than the rest of Start was included;
	// a single key below an extension with Start extending it was dropped
	func(w *world) {
		putAll(w, "1235", "1207", "11")
		w.seek(nil, hb("1231"), true)
		w.seek(nil, hb("1231"), false)
		w.del(hb("1235"))
		w.del(hb("1207"))
		w.del(hb("11"))
		putAll(w, "0005")
		w.seek(nil, hb("00050111"), true)
		w.seek(nil, hb("00050111"), false)
		w.seek(hb("00"), hb("0501"), true)
	},
	// regression (a7c7b6e): the prefix ends inside an extension and Start diverges from the rest of its key
	func(w *world) {
		putAll(w, "1234")
		w.seek(hb("12"), hb("35"), false)
		w.seek(hb("12"), hb("33"), false)
		w.seek(hb("12"), hb("35"), true)
		w.seek(hb("12"), hb("33"), true)
		w.find(hb("12"), hb("35"), 10)
		w.find(hb("12"), hb("33"), 10)
	},
	// regression (ce9f5e8): VerifyProof on stored items that decode as HashNode (recursed for ever) /
	// EmptyNode (panicked); run in a child process so that a regression is reported, not fatal
	func(w *world) {
		p := append([]byte{3}, make([]byte, 32)...)
		w.verify(dsha(p), []byte{1}, [][]byte{p}, "corpus")
		e := []byte{4}
		w.verify(dsha(e), []byte{1}, [][]byte{e}, "corpus")
	},
	// decoder depth limit (node.go:81): 136 nested nodes are fine, 137 are not
	func(w *world) {
		for _, n := range []int{1, 135, 136, 137, 138} {
			p := extChain(n)
			w.verify(dsha(p), []byte{}, [][]byte{p}, "corpus")
		}
		// a branch with an inline leaf as its value and an inline extension child
		b := []byte{0}
		for i := 0; i < 16; i++ {
			if i == 5 {
				b = append(b, 1, 1, 7, 2, 2, 0xca, 0xfe)
			} else {
				b = append(b, 4)
			}
		}
		b = append(b, 2, 1, 0xee)
		w.verify(dsha(b), []byte{}, [][]byte{b}, "corpus")
		w.verify(dsha(b), []byte{0x57}, [][]byte{b}, "corpus")
		w.verify(dsha(b), []byte{0x58}, [][]byte{b}, "corpus")
	},
	// regression (4602f33): Find on a trie with unflushed changes collapsed the visited nodes into
	// HashNodes that are not in the store: a later Get of a present key failed.
	func(w *world) {
		t := mpt.NewTrie(nil, mpt.ModeAll, storage.NewMemCachedStore(storage.NewMemoryStore()))
		_ = t.Put(hb("1234"), []byte{1})
		_ = t.Put(hb("1235"), []byte{2})
		res := hx.Safe(func() string {
			if _, err := t.Find(hb("12"), nil, 10); err != nil {
				return "find-err"
			}
			v, err := t.Get(hb("1234"))
			if err != nil {
				return "get-err"
			}
			return hx.Hex(v)
		})
		if res != "01" {
			w.o.Fail("find-corrupts-unflushed-trie", w.k, "Put(1234,01) Put(1235,02) Find(12) Get(1234) without Flush = %s, stored 01", res)
		}
		putAll(w, "1234", "1235")
		w.find(hb("12"), nil, 10)
		w.get(hb("1234"))
	},
	// regression (3e911e6): PutBatch stored extension keys aliasing the batch's key arrays with spare
	// capacity; a Get through such an extension (trie.go:133 append) rewrote another extension's key.
	func(w *world) {
		t := mpt.NewTrie(nil, mpt.ModeAll, storage.NewMemCachedStore(storage.NewMemoryStore()))
		_ = t.Put(hb("35111210f00f"), []byte{0x5a})
		m := map[string][]byte{"\x70" + string(hb("35111210f00f")): {1}, "\x70" + string(hb("35111211ff10")): {}}
		_, _ = t.PutBatch(mpt.MapToMPTBatch(m))
		res := hx.Safe(func() string {
			if _, err := t.Get(hb("35111210f00f")); err != nil {
				return "get1-err"
			}
			v, err := t.Get(hb("35111211ff10"))
			if err != nil {
				return "get2-err"
			}
			return hx.Hex(v)
		})
		if res != "-" {
			w.o.Fail("batch-key-aliasing", w.k, "Put(35111210f00f) PutBatch{35111210f00f:01,35111211ff10:''} Get(35111210f00f) Get(35111211ff10) = %s, stored ''", res)
		}
		w.put(hb("35111210f00f"), []byte{0x5a})
		w.batch([]change{{key: hb("35111210f00f"), val: []byte{1}}, {key: hb("35111211ff10"), val: []byte{}}})
		w.get(hb("35111210f00f"))
		w.get(hb("35111211ff10"))
		w.root()
	},
	// ModeGC: a node deactivated at one Flush and created again later must become active again
	// (trie.go updateRefCount reads the record mode-aware); everything must be readable after reload
	func(w *world) {
		w.setMode(mpt.ModeGC)
		putAll(w, "1201", "1203", "1224")
		w.flush()
		w.del(hb("1224"))
		w.flush()
		w.put(hb("1224"), append([]byte{0xaa}, hb("1224")...)) // the same leaf and extension again
		w.flush()
		w.collapse(0)
		w.get(hb("1224"))
		w.proof(hb("1224"))
		w.batch([]change{{key: hb("1225"), val: []byte{1}}})
		w.reopen()
		w.root()
		w.get(hb("1224"))
		w.get(hb("1225"))
		w.seek(nil, nil, false)
	},
	// ModeLatest: one leaf shared by several keys (equal values); holders added by a batch before an
	// already stored holder, touched again in the next block without Collapse, then removed one by one:
	// the counter kept across Flushes must stay exact or the shared node is deleted while referenced
	func(w *world) {
		w.setMode(mpt.ModeLatest)
		v := []byte{0x77, 0x77}
		w.put(hb("50"), v)
		w.reopen() // the stored holder is now behind a HashNode
		// new holders 10, 20 are counted first, then the stored leaf is loaded (its counter read)
		w.batch([]change{{key: hb("10"), val: v}, {key: hb("20"), val: v}, {key: hb("50"), val: v}})
		w.flush()
		w.put(hb("60"), v) // next block, no Collapse in between
		w.flush()
		for _, k := range []string{"10", "20"} {
			w.del(hb(k))
			w.flush()
		}
		w.reopen()
		w.root()
		w.get(hb("50"))
		w.proof(hb("50"))
		w.seek(nil, nil, true)
		w.del(hb("50"))
		w.reopen()
		w.root()
	},
	// maximum-length keys differing in the last nibble, and their common prefix as a key
	func(w *world) {
		k := bytes.Repeat([]byte{0xab}, mpt.MaxKeyLength)
		k2 := bytes.Clone(k)
		k2[len(k2)-1] ^= 1
		w.put(k, []byte{1})
		w.reopen() // a lone maximum-length key: root extension with 136 nibbles must decode
		w.get(k)
		w.proof(k)
		w.put(k2, []byte{})
		w.put(k[:len(k)-1], []byte{1})
		w.put(append(bytes.Clone(k), 1), []byte{1}) // too long
		w.put([]byte{}, []byte{1})                  // empty key
		w.root()
		w.proof(k2)
		w.seek(k[:10], k[10:], true)
		w.find(k[:10], k[10:len(k)-1], 5)
		w.del(k)
		w.root()
	},
	// batches: strip a branch down to one child (extension merge), delete everything, empty values
	func(w *world) {
		putAll(w, "1201", "1203", "1224", "12")
		w.flush()
		w.batch([]change{{key: hb("1203")}, {key: hb("1224")}, {key: hb("12")}})
		w.root()
		w.batch([]change{{key: hb("1201")}, {key: hb("120155"), val: []byte{}}, {key: hb("120156"), val: []byte{}}})
		w.root()
		w.batch([]change{{key: hb("120155")}, {key: hb("120156")}})
		w.root()
		w.batch([]change{{key: hb("77"), val: []byte{1}}, {key: hb(""), val: []byte{2}}})
		w.root()
		w.get([]byte{})
		w.batch([]change{{key: hb("")}})
		w.root()
	},
	// lazy loading on the write paths (Props/C10Lazy.lean): after Collapse(0) every node is behind a
	// HashNode. (a) Delete leaves a branch with one child that is a HashNode: the sibling is loaded and
	// merged (trie.go:324-329); (b) Delete leaves only the branch's own value: the HashNode of that
	// leaf is returned unloaded and kept as the extension's next (trie.go:321-322, 361-362);
	// (c) a batch strips a branch to one HashNode child: mergeExtension loads it (batch.go:90-95).
	func(w *world) {
		putAll(w, "1201", "1203", "12ff05")
		w.collapse(0)
		w.del(hb("1201")) // branch {0: branch{1,3}, f: ext} -> inner branch stripped, sibling 1203 loaded
		w.root()
		w.collapse(0)
		w.del(hb("1203")) // now the outer branch is left with the single HashNode child 12ff05
		w.root()
		w.get(hb("12ff05"))
		putAll(w, "12", "1203")
		w.collapse(0)
		w.del(hb("12ff05"))
		w.del(hb("1203")) // branch keeps only its value: HashNode of the leaf returned, ext 12 -> HashNode
		w.root()
		w.get(hb("12"))
		putAll(w, "1201", "1203", "12ff05")
		w.collapse(1)
		w.batch([]change{{key: hb("1201")}, {key: hb("1203")}, {key: hb("12")}})
		w.root()
		w.collapse(0)
		w.batch([]change{{key: hb("12ff05"), val: []byte{9}}, {key: hb("12ff"), val: []byte{}}})
		w.root()
		w.seek(nil, nil, false)
	},
	// a missing node: Put fails and changes nothing; Delete fails at the sibling it cannot load but has
	// removed the key already (the Lean witness in Props/C10Lazy.lean); PutBatch fails half-way
	func(w *world) {
		w.put(hb("12"), []byte{7})
		w.put(hb("13"), []byte{8})
		w.put(hb("2005"), []byte{9})
		ps, _ := w.tr.GetProof(hb("13"))
		w.reopen()
		w.get(hb("12")) // the path to 12 is in memory now, its sibling 13 is a HashNode
		w.drop(dsha(ps[len(ps)-1]))
		w.put(hb("13"), []byte{1}) // has to load the leaf it replaces: error, nothing changed
		w.root()
		w.get(hb("12"))
		w.del(hb("12")) // error (sibling cannot be loaded) …
		w.get(hb("12")) // … but the key is gone
		w.get(hb("13"))
		w.get(hb("2005"))
		w.batch([]change{{key: hb("2005")}, {key: hb("13"), val: []byte{3}}, {key: hb("0001"), val: []byte{4}}})
		w.get(hb("0001"))
		w.get(hb("2005"))
	},
	// aliasing family (seeded C10-m6, fixed defect 3e911e6): extension keys stored by a batch are slices of
	// the batch's key arrays; a later Get (append in getWithPath), a Put of a key extending a batch key
	// and a Delete that merges extensions on the same in-memory trie must not rewrite other nodes
	func(w *world) {
		w.batch([]change{{key: hb("12013456"), val: []byte{1}}, {key: hb("12039abc"), val: []byte{2}}, {key: hb("12ff0577"), val: []byte{3}}})
		w.get(hb("12013456"))
		w.get(hb("12039abc"))
		w.put(hb("1201345678"), []byte{4}) // extends the first batch key
		w.get(hb("1201345678"))
		w.get(hb("12039abc"))
		w.get(hb("12ff0577"))
		w.del(hb("12013456")) // extension merge over the longer key
		w.get(hb("1201345678"))
		w.put(hb("12039a"), []byte{5}) // forks inside the second key's tail
		for _, k := range []string{"1201345678", "12039abc", "12039a", "12ff0577", "12013456"} {
			w.get(hb(k))
		}
		w.root()
		w.seek(nil, nil, false)
	},
	// the start position leaves the trie inside an extension key after >= 1 matching nibble (seeded C10-m7):
	// a lone key (root extension of 8 nibbles) and an extension below a branch; start smaller / greater at
	// the divergence, in the low / high nibble, both directions, with and without a prefix, Seek and Find
	func(w *world) {
		putAll(w, "12345678")
		for _, st := range []string{"1211", "1299", "1233", "1235", "123455", "123457", "12345677", "12345679"} {
			w.seek(nil, hb(st), false)
			w.seek(nil, hb(st), true)
			w.find(nil, hb(st), 10)
		}
		w.seek(hb("12"), hb("33"), false)
		w.seek(hb("12"), hb("35"), true)
		w.seek(hb("12"), hb("3455"), false)
		w.seek(hb("12"), hb("3457"), true)
		putAll(w, "99", "1234aabb")
		for _, st := range []string{"123455", "123457", "1234aa00", "1234aacc", "12345600", "123456ff"} {
			w.seek(nil, hb(st), false)
			w.seek(nil, hb(st), true)
			w.find(hb("12"), hb(st)[1:], 10)
		}
	},
	// repaired defect 7a41699 (known-findings `fixed:` batch-oversized-value-unreadable): PutBatch checks no
	// value length, Put and the leaf decoder refuse more than MaxValueLength; with MaxValueLength = 65539 a
	// bigger item written by a native contract was hashed into the root, flushed, and lost after a reopen.
	// Now MaxValueLength = 3 + stackitem.MaxSize + 1 = 131074. Both boundaries through PutBatch + reopen:
	// everything up to MaxValueLength must be read back (oracle); beyond it — more than any native can store —
	// the key is unreadable after the reopen, which the lazy model predicts (tie only).
	func(w *world) {
		w.put(hb("1234"), []byte{1})
		for i, n := range []int{65538, 65539, 65540, 65541, 100000, 131073, 131074, 131075, 131076} {
			key := []byte{0x12, 0x40 + byte(i)}
			val := bytes.Repeat([]byte{0xa5}, n)
			if n > mpt.MaxValueLength {
				w.lazy = true // outside the domain: fresh tries are built by Put, which refuses; only the model is compared
			}
			w.batch([]change{{key: key, val: val}})
			w.get(key) // from memory: fine
			w.root()
			w.reopen()
			got, err := w.tr.Get(key)
			if n <= 3+131070+1 && (err != nil || !bytes.Equal(got, val)) {
				w.o.Fail("batch-oversized-value-unreadable", w.k, "PutBatch accepted a %d-byte value for key %x (root %x, flushed); after reopening the trie from that root Get = %d bytes, %v", n, key, rootOf(w.tr), len(got), err)
			}
			w.get(key)
			w.proof(key)
			w.get(hb("1234"))
		}
	},

}
