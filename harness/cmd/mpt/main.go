// Command mpt: correspondence + oracle stream for the state trie (C10).
//
// Every case drives a real mpt.Trie over a MemCachedStore(MemoryStore) with a generated operation
// sequence (put/del/batch/flush/collapse/reopen/get/find/seek/proof/verify), prints one op line for
// the Lean model and what the real code did, and runs the property's oracle on the real code:
//   - root == root of a fresh trie built from the final contents (two ways: Puts, one batch);
//   - Get/Find/TrieStore.Seek == a Go reference map;
//   - GetProof of a present key verifies to its value; tampered proof lists never verify to a
//     value that is not stored under that root/key;
//   - VerifyProof terminates without panicking on arbitrary byte lists.
package main

import (
	"bytes"
	"encoding/hex"
	"fmt"
	"os"
	"os/exec"
	"runtime/debug"
	"sort"
	"strings"

	"github.com/nspcc-dev/neo-go/pkg/core/mpt"
	"github.com/nspcc-dev/neo-go/pkg/core/storage"
	"github.com/nspcc-dev/neo-go/pkg/crypto/hash"
	"github.com/nspcc-dev/neo-go/pkg/util"

	"verif/harness/internal/hx"
	"verif/harness/internal/prng"
)

type world struct {
	o     *hx.Out
	k     int
	r     *prng.R
	st    *storage.MemCachedStore
	tr    *mpt.Trie
	ref   map[string][]byte
	dirty bool
	sig   []string // canonical description of the case (for the distinct count)
	mode  mpt.TrieMode
	idx   uint32 // last Flush index ("block height"), increasing
	lazy  bool   // a DataMPT record was dropped from the store: only the lazy model is meaningful,
	// the reference map and the content oracles are off (operations may legitimately fail)
	errs int // operations that returned an error since then
	// a Delete / PutBatch failed: they change nodes in place before they fail and leave the cached hashes
	// of the nodes above as they were (trie.go:297-341, batch.go:166-168), so StateRoot() may answer from
	// a stale cache. Hash caches are not modelled: no root line from then on.
	stale bool
}

// setMode restarts the (still empty) case in another storage mode. The expanded-trie model does not
// depend on the mode: contents, roots, proofs and ordered reads must be the same in ModeAll,
// ModeLatest (reference counting, unreferenced nodes deleted at Flush) and ModeGC (reference counting,
// unreferenced nodes deactivated with the Flush index; the GC itself is C11's domain and is not run).
func (w *world) setMode(mode mpt.TrieMode) {
	w.mode = mode
	w.tr = mpt.NewTrie(nil, mode, w.st)
	w.o.Count(fmt.Sprintf("mode:%d", mode))
	w.note(fmt.Sprintf("m%d", mode))
}

// flushNow flushes with the next index (one Flush = one block).
func (w *world) flushNow() {
	w.idx++
	w.tr.Flush(w.idx)
}

func newWorld(o *hx.Out, k int, r *prng.R) *world {
	st := storage.NewMemCachedStore(storage.NewMemoryStore())
	return &world{o: o, k: k, r: r, st: st, tr: mpt.NewTrie(nil, mpt.ModeAll, st), ref: map[string][]byte{}}
}

func (w *world) note(s string) {
	if len(w.sig) < 64 {
		w.sig = append(w.sig, s)
	}
}

func rootOf(tr *mpt.Trie) []byte { return tr.StateRoot().BytesBE() }

// ---- mutating operations ---------------------------------------------------

func (w *world) put(key, val []byte) {
	if val == nil {
		val = []byte{}
	}
	obs := hx.Safe(func() string {
		if err := w.tr.Put(key, val); err != nil {
			return "err"
		}
		return "ok"
	})
	if obs == "ok" {
		if _, ok := w.ref[string(key)]; ok {
			w.o.Count("put:update")
		} else {
			w.o.Count("put:new")
		}
		w.ref[string(key)] = bytes.Clone(val)
		w.dirty = true
	} else {
		w.o.Count("put:" + obs)
		if w.lazy {
			w.errs++
			w.o.Count("lazy:put:" + obs)
		} else if len(key) != 0 && len(key) <= mpt.MaxKeyLength && len(val) <= mpt.MaxValueLength {
			w.o.Fail("put-rejected", w.k, "Put(%x, %d bytes) = %s", key, len(val), obs)
		}
	}
	w.o.Line(fmt.Sprintf("put %s %s", hx.Hex(key), hx.Hex(val)), obs)
	w.note("p" + hx.Hex(key))
}

func (w *world) del(key []byte) {
	failedFirst := false
	obs := hx.Safe(func() string {
		if err := w.tr.Delete(key); err != nil {
			return "err"
		}
		return "ok"
	})
	if obs == "ok" {
		if _, ok := w.ref[string(key)]; ok {
			w.o.Count("del:present")
		} else {
			w.o.Count("del:absent")
		}
		delete(w.ref, string(key))
		w.dirty = true
	} else {
		w.o.Count("del:" + obs)
		if w.lazy {
			w.errs++
			failedFirst = !w.stale
			w.o.Count("lazy:del:" + obs)
		} else if len(key) <= mpt.MaxKeyLength {
			w.o.Fail("del-rejected", w.k, "Delete(%x) = %s", key, obs)
		}
	}
	w.o.Line("del "+hx.Hex(key), obs)
	w.note("d" + hx.Hex(key))
	if w.lazy && obs != "ok" {
		if failedFirst {
			// the first failed Delete of the case: the caches were right before it, so the cached-node model
			// (Model/Mpt/Cache.lean) predicts what StateRoot() answers now — from the caches the nodes above
			// the failing one kept: one root line, then no more (see `stale`)
			w.o.Count("lazy:root-after-failed-delete")
			w.root()
		}
		w.stale = true
	}
}

type change struct {
	key []byte
	val []byte // nil = delete
}

func (w *world) batch(chs []change) {
	m := map[string][]byte{}
	for _, c := range chs {
		m[string(append([]byte{byte(storage.STStorage)}, c.key...))] = c.val
	}
	keys := make([]string, 0, len(m))
	for k := range m {
		keys = append(keys, k)
	}
	sort.Strings(keys)
	var sb strings.Builder
	sb.WriteString("batch")
	for _, k := range keys {
		v := m[k]
		sb.WriteString(" " + hx.Hex([]byte(k[1:])) + ":")
		if v == nil {
			sb.WriteString("x")
		} else {
			sb.WriteString(hx.Hex(v))
		}
	}
	obs := hx.Safe(func() string {
		n, err := w.tr.PutBatch(mpt.MapToMPTBatch(m))
		if err != nil {
			return "err"
		}
		return fmt.Sprintf("ok %d", n)
	})
	if strings.HasPrefix(obs, "ok") {
		if obs != fmt.Sprintf("ok %d", len(keys)) { // PutBatch without an error has processed every element
			w.o.Fail("batch-count", w.k, "PutBatch of %d elements returned %s without an error", len(keys), obs)
		}
		nd, np := 0, 0
		for _, k := range keys {
			if m[k] == nil {
				delete(w.ref, k[1:])
				nd++
			} else {
				w.ref[k[1:]] = bytes.Clone(m[k])
				np++
			}
		}
		w.o.Count(fmt.Sprintf("batch:size<=%d", bucket(len(keys))))
		if nd > 0 && np > 0 {
			w.o.Count("batch:mixed")
		} else if nd > 0 {
			w.o.Count("batch:only-deletes")
		}
		w.dirty = true
	} else if w.lazy {
		w.errs++
		w.stale = true
		w.o.Count("lazy:batch:" + obs)
	} else {
		w.o.Fail("batch-rejected", w.k, "PutBatch of %d = %s", len(keys), obs)
	}
	w.o.Line(sb.String(), obs)
	w.note(fmt.Sprintf("b%d", len(keys)))
}

func bucket(n int) int {
	for _, b := range []int{0, 1, 2, 4, 8, 16, 32} {
		if n <= b {
			return b
		}
	}
	return 64
}

func (w *world) flush() {
	obs := hx.Safe(func() string { w.flushNow(); return "ok" })
	w.dirty = false
	w.o.Count("flush")
	w.o.Line("flush", obs)
}

func (w *world) collapse(d int) {
	obs := hx.Safe(func() string { w.flushNow(); w.tr.Collapse(d); return "ok" })
	w.dirty = false
	w.o.Count("collapse")
	w.o.Line(fmt.Sprintf("collapse %d", d), obs)
}

func (w *world) reopen() {
	obs := hx.Safe(func() string {
		w.flushNow()
		rt := w.tr.StateRoot()
		if rt.Equals(util.Uint256{}) {
			w.tr = mpt.NewTrie(nil, w.mode, w.st)
		} else {
			w.tr = mpt.NewTrie(mpt.NewHashNode(rt), w.mode, w.st)
		}
		return "ok"
	})
	w.dirty = false
	w.o.Count("reopen")
	w.o.Line("reopen", obs)
}

// drop deletes the DataMPT record of node hash h from the store (a storage failure / missing node).
func (w *world) drop(h []byte) {
	obs := hx.Safe(func() string {
		w.st.Delete(append([]byte{byte(storage.DataMPT)}, h...))
		return "ok"
	})
	w.lazy = true
	w.o.Count("drop")
	w.o.Line("drop "+hx.Hex(h), obs)
	w.note("x")
}

// ---- reads -----------------------------------------------------------------

func sortedKeys(m map[string][]byte) []string {
	ks := make([]string, 0, len(m))
	for k := range m {
		ks = append(ks, k)
	}
	sort.Strings(ks)
	return ks
}

// freshRoots builds the final contents into fresh tries (single Puts, shuffled Puts, one batch).
func (w *world) freshRoots() (byPut, byBatch []byte) {
	ks := sortedKeys(w.ref)
	t1 := mpt.NewTrie(nil, mpt.ModeAll, storage.NewMemCachedStore(storage.NewMemoryStore()))
	for _, k := range ks {
		if len(k) == 0 { // only a batch can store the empty key
			m := map[string][]byte{string([]byte{byte(storage.STStorage)}): w.ref[k]}
			_, _ = t1.PutBatch(mpt.MapToMPTBatch(m))
			continue
		}
		_ = t1.Put([]byte(k), w.ref[k])
	}
	t2 := mpt.NewTrie(nil, mpt.ModeAll, storage.NewMemCachedStore(storage.NewMemoryStore()))
	m := map[string][]byte{}
	for _, k := range ks {
		m[string(append([]byte{byte(storage.STStorage)}, k...))] = w.ref[k]
	}
	_, _ = t2.PutBatch(mpt.MapToMPTBatch(m))
	return rootOf(t1), rootOf(t2)
}

func (w *world) root() []byte {
	if w.stale {
		w.o.Count("lazy:root-skipped")
		return nil
	}
	var rt []byte
	obs := hx.Safe(func() string { rt = rootOf(w.tr); return "root " + hx.Hex(rt) })
	w.o.Count("root")
	w.o.Line("root", obs)
	if rt != nil && !w.lazy {
		a, b := w.freshRoots()
		if !bytes.Equal(a, rt) {
			w.o.Fail("root-history", w.k, "root after the op sequence %x != root of a fresh trie built by Puts %x (%d keys)", rt, a, len(w.ref))
		}
		if !bytes.Equal(b, rt) {
			w.o.Fail("root-history-batch", w.k, "root after the op sequence %x != root of a fresh trie built by one batch %x (%d keys)", rt, b, len(w.ref))
		}
	}
	return rt
}

func (w *world) get(key []byte) {
	var val []byte
	obs := hx.Safe(func() string {
		v, err := w.tr.Get(key)
		if err != nil {
			if len(key) > mpt.MaxKeyLength {
				return "err"
			}
			return "none"
		}
		val = v
		return "val " + hx.Hex(v)
	})
	want, ok := w.ref[string(key)]
	switch {
	case len(key) > mpt.MaxKeyLength:
	case w.lazy: // a present key may be unreachable now; a value that IS returned must be the stored one
		if strings.HasPrefix(obs, "val ") && w.errs == 0 && (!ok || obs != "val "+hx.Hex(want)) {
			w.o.Fail("get-mismatch", w.k, "Get(%x) = %s after a record was dropped, stored %x (present %v)", key, obs, want, ok)
		}
		if ok && obs == "none" {
			w.o.Count("lazy:get:unreachable")
		}
	case ok && (obs != "val "+hx.Hex(want)):
		w.o.Fail("get-mismatch", w.k, "Get(%x) = %s, stored %x", key, obs, want)
	case !ok && obs != "none":
		w.o.Fail("get-mismatch", w.k, "Get(%x) = %s, key absent", key, obs)
	}
	if ok {
		w.o.Count("get:present")
	} else {
		w.o.Count("get:absent")
	}
	_ = val
	w.o.Line("get "+hx.Hex(key), obs)
}

func showKVs(kvs []storage.KeyValue, cut int) string {
	if len(kvs) == 0 {
		return "-"
	}
	parts := make([]string, len(kvs))
	for i, kv := range kvs {
		parts[i] = hx.Hex(kv.Key[cut:]) + "=" + hx.Hex(kv.Value)
	}
	return strings.Join(parts, ",")
}

func (w *world) find(prefix, from []byte, max int) {
	if w.dirty {
		w.o.Count("find:unflushed")
	}
	var res []storage.KeyValue
	obs := hx.Safe(func() string {
		r, err := w.tr.Find(prefix, from, max)
		if err != nil {
			return "err"
		}
		res = r
		return "find " + showKVs(r, 0)
	})
	// reference: keys with the prefix, suffix > from, ascending, at most max
	var want []string
	any := false
	for _, k := range sortedKeys(w.ref) {
		if !strings.HasPrefix(k, string(prefix)) {
			continue
		}
		any = true
		if from != nil && strings.Compare(k[len(prefix):], string(from)) <= 0 {
			continue
		}
		if len(want) < max || (max == 0 && len(want) == 0) {
			want = append(want, k) // max == 0: at most the first one (see below)
		}
	}
	fs := "nil"
	if from != nil {
		fs = hx.Hex(from)
	}
	good := true
	if obs == "err" {
		good = !any || len(prefix) > mpt.MaxKeyLength || len(from) > mpt.MaxKeyLength-len(prefix)
		w.o.Count("find:err")
	} else if obs == "panic" {
		good = false
	} else {
		if max == 0 && len(res) == 0 {
			// maxNum = 0: the stop test `count >= maxNum` (trie.go:635) fires after the first visited node,
			// which is reported only if it is a leaf: nothing, or the first key in range
			w.o.Count("find:max0:empty")
		} else if len(res) != len(want) {
			good = false
		} else {
			for i := range res {
				if string(res[i].Key) != want[i] || !bytes.Equal(res[i].Value, w.ref[want[i]]) {
					good = false
				}
			}
		}
		w.o.Count(fmt.Sprintf("find:results<=%d", bucket(len(res))))
		if from != nil {
			w.o.Count("find:with-from")
		}
	}
	if w.lazy { // records are missing: only the lazy model is compared
		w.o.Count("lazy:find:" + strings.SplitN(obs, " ", 2)[0])
		good = true
	}
	if !good {
		w.o.Fail("find-mismatch", w.k, "Find(%x, %s, %d) = %s, want keys %x", prefix, fs, max, obs, want)
	}
	w.o.Line(fmt.Sprintf("find %s %s %d", hx.Hex(prefix), fs, max), obs)
}

func toNib(b []byte) []byte {
	r := make([]byte, 0, len(b)*2)
	for _, x := range b {
		r = append(r, x>>4, x&15)
	}
	return r
}

func lcpB(a, b []byte) []byte {
	i := 0
	for i < len(a) && i < len(b) && a[i] == b[i] {
		i++
	}
	return a[:i]
}

func (w *world) seek(prefix, start []byte, back bool) {
	if w.dirty {
		w.flush() // a TrieStore is opened from the root hash over the store
	}
	var got []storage.KeyValue
	obs := hx.Safe(func() string {
		ts := mpt.NewTrieStore(w.tr.StateRoot(), w.mode, w.st)
		ts.Seek(storage.SeekRange{Prefix: append([]byte{byte(storage.STStorage)}, prefix...), Start: start, Backwards: back}, func(k, v []byte) bool {
			got = append(got, storage.KeyValue{Key: bytes.Clone(k), Value: bytes.Clone(v)})
			return true
		})
		return "seek " + showKVs(got, 1)
	})
	// reference = the real MemoryStore.Seek (memory_store.go:100-142) on the same contents and the same
	// SeekRange: TrieStore stands in for the live store in historic invocations.
	ms := storage.NewMemoryStore()
	stor := map[string][]byte{}
	var common []byte
	first := true
	for k, v := range w.ref {
		stor[string(append([]byte{byte(storage.STStorage)}, k...))] = v
	}
	_ = ms.PutChangeSet(nil, stor)
	for _, k := range sortedKeys(w.ref) {
		if !strings.HasPrefix(k, string(prefix)) {
			continue
		}
		suf := k[len(prefix):]
		if first {
			common, first = toNib([]byte(suf)), false
		} else {
			common = lcpB(common, toNib([]byte(suf)))
		}
	}
	var want []string
	ms.Seek(storage.SeekRange{Prefix: append([]byte{byte(storage.STStorage)}, prefix...), Start: start, Backwards: back}, func(k, v []byte) bool {
		want = append(want, string(k[1:]))
		return true
	})
	var gotKeys []string
	for _, kv := range got {
		k := string(kv.Key[1:])
		if back && len(start) != 0 && len(k) > len(prefix)+len(start) && strings.HasPrefix(k[len(prefix):], string(start)) {
			w.o.Count("seek:back:extends-start")
		}
		gotKeys = append(gotKeys, k)
	}
	good := obs != "panic" && len(gotKeys) == len(want)
	if good {
		for i := range want {
			if gotKeys[i] != want[i] {
				good = false
			}
		}
		for _, kv := range got {
			if !bytes.Equal(kv.Value, w.ref[string(kv.Key[1:])]) {
				good = false
			}
		}
	}
	dir := "fwd"
	if back {
		dir = "back"
	}
	w.o.Count("seek:" + dir)
	if len(start) != 0 {
		w.o.Count("seek:" + dir + ":with-start")
	}
	if !good {
		// shape of the failure (see known-findings.txt)
		sn := toNib(start)
		l := lcpB(common, sn)
		key := "seek-mismatch"
		switch {
		case len(start) != 0 && !first && len(l) < len(common) && len(l) < len(sn):
			key = "seek-start-path-diverges" // the start node's path and Start diverge (trie_store.go:87-94)
		case back && len(start) != 0:
			key = "seek-backward-from-start" // billet.go:286-316 backwards traversal from a start position
		}
		w.o.Count("seek:oracle-fail:" + key)
		w.o.Fail(key, w.k, "TrieStore.Seek(Prefix=%x, Start=%x, Backwards=%v) = %x, MemoryStore semantics give %x (keys %x)", prefix, start, back, gotKeys, want, sortedKeys(w.ref))
	}
	b := "0"
	if back {
		b = "1"
	}
	w.o.Line(fmt.Sprintf("seek %s %s %s", hx.Hex(prefix), hx.Hex(start), b), obs)
}

func hexList(ps [][]byte) string {
	if len(ps) == 0 {
		return "_"
	}
	s := make([]string, len(ps))
	for i, p := range ps {
		s[i] = hx.Hex(p)
	}
	return strings.Join(s, ",")
}

// proof = GetProof + completeness check. Returns the proof (nil if none).
func (w *world) proof(key []byte) [][]byte {
	if w.stale { // GetProof serialises nodes from their cached bytes, which may be stale now (see `stale`)
		w.o.Count("lazy:proof-skipped")
		return nil
	}
	var ps [][]byte
	obs := hx.Safe(func() string {
		p, err := w.tr.GetProof(key)
		if err != nil {
			return "err"
		}
		ps = p
		return "proof " + hexList(p)
	})
	if w.lazy { // records are missing: GetProof may fail for a present key; only the lazy model is compared
		w.o.Count("lazy:proof:" + strings.SplitN(obs, " ", 2)[0])
		w.o.Line("proof "+hx.Hex(key), obs)
		return ps
	}
	want, ok := w.ref[string(key)]
	if ok && len(key) <= mpt.MaxKeyLength && obs == "err" {
		w.o.Fail("proof-missing", w.k, "GetProof(%x) failed for a present key", key)
	}
	if !ok && obs != "err" {
		w.o.Fail("proof-of-absent", w.k, "GetProof(%x) = %s for an absent key", key, obs)
	}
	w.o.Count("proof:" + strings.SplitN(obs, " ", 2)[0])
	w.o.Line("proof "+hx.Hex(key), obs)
	if ps != nil {
		w.o.Count(fmt.Sprintf("proof:len<=%d", bucket(len(ps))))
		r := w.verify(rootOf(w.tr), key, ps, "honest")
		if r != "ok "+hx.Hex(want) {
			w.o.Fail("proof-incomplete", w.k, "VerifyProof(root, %x, GetProof) = %s, stored %x", key, r, want)
		}
	}
	return ps
}

// startsHash tells whether a stored item decodes as a top-level HashNode (node.go:92-97): resolving
// it recurses without bound (trie.go:114-118 + 540), which cannot be observed in-process.
func startsHash(p []byte) bool { return len(p) >= 33 && p[0] == byte(mpt.HashT) }

func verifyInProc(root, key []byte, ps [][]byte) string {
	return hx.Safe(func() string {
		var rh util.Uint256
		copy(rh[:], root)
		v, ok := mpt.VerifyProof(rh, key, ps)
		if !ok {
			return "fail"
		}
		return "ok " + hx.Hex(v)
	})
}

// verify runs VerifyProof (in a child process if a stack overflow is possible), prints the line,
// applies the soundness oracle against the reference contents when root is the current root.
func (w *world) verify(root, key []byte, ps [][]byte, kind string) string {
	risky := false
	for _, p := range ps {
		if startsHash(p) {
			risky = true
		}
	}
	var obs string
	if risky {
		obs = verifyInChild(root, key, ps)
		w.o.Count("verify:in-child")
	} else {
		obs = verifyInProc(root, key, ps)
	}
	w.o.Count("verify:" + kind + ":" + strings.SplitN(obs, " ", 2)[0])
	switch obs {
	case "loop":
		w.o.Fail("verifyproof-no-termination", w.k, "VerifyProof(%x, %x, %s) does not terminate (stack overflow, fatal)", root, key, hexList(ps))
	case "panic":
		w.o.Fail("verifyproof-panics", w.k, "VerifyProof(%x, %x, %s) panics", root, key, hexList(ps))
	}
	if bytes.Equal(root, rootOf(w.tr)) && strings.HasPrefix(obs, "ok ") {
		want, ok := w.ref[string(key)]
		if !ok {
			w.o.Fail("proof-unsound", w.k, "VerifyProof(root, %x, %s) = %s but the key is absent", key, hexList(ps), obs)
		} else if obs != "ok "+hx.Hex(want) {
			w.o.Fail("proof-unsound", w.k, "VerifyProof(root, %x, %s) = %s but the stored value is %x", key, hexList(ps), obs, want)
		}
	}
	w.o.Line(fmt.Sprintf("verify %s %s %s", hx.Hex(root), hx.Hex(key), hexList(ps)), obs)
	return obs
}

// ---- child process for inputs that may overflow the stack --------------------

func verifyInChild(root, key []byte, ps [][]byte) string {
	cmd := exec.Command(os.Args[0], "child-verify", hx.Hex(root), hx.Hex(key), hexList(ps))
	out, err := cmd.CombinedOutput()
	s := string(out)
	if err == nil {
		return strings.TrimSpace(s)
	}
	if strings.Contains(s, "stack overflow") || strings.Contains(s, "goroutine stack exceeds") {
		return "loop"
	}
	return "child-error"
}

func unhex(s string) []byte {
	if s == "-" {
		return []byte{}
	}
	b, err := hex.DecodeString(s)
	if err != nil {
		panic(err)
	}
	return b
}

func childVerify(args []string) {
	debug.SetMaxStack(8 << 20)
	var ps [][]byte
	if args[2] != "_" {
		for _, p := range strings.Split(args[2], ",") {
			ps = append(ps, unhex(p))
		}
	}
	fmt.Println(verifyInProc(unhex(args[0]), unhex(args[1]), ps))
}

func dsha(p []byte) []byte { return hash.DoubleSha256(p).BytesBE() }

func main() {
	if len(os.Args) > 1 && os.Args[1] == "child-verify" {
		childVerify(os.Args[2:])
		return
	}
	f := hx.ParseFlags()
	o := hx.NewOut(f.Out)
	defer o.Close()
	nc := len(corpus)
	n := nc + f.N(4000, 40000)
	for k := 0; k < n; k++ {
		if !f.Want(k) {
			continue
		}
		r := prng.ForCase(f.Seed, k)
		o.Case(k)
		w := newWorld(o, k, r)
		switch {
		case k < nc:
			corpus[k](w)
			o.Count("case:corpus")
		case k%8 == 7:
			genDecoderCase(w)
			o.Count("case:decoder")
		case k%8 == 5:
			w.setMode([]mpt.TrieMode{mpt.ModeAll, mpt.ModeLatest, mpt.ModeGC}[(k/8)%3])
			genAliasCase(w)
			o.Count("case:alias")
		case k%8 == 3:
			w.setMode([]mpt.TrieMode{mpt.ModeAll, mpt.ModeLatest, mpt.ModeGC}[(k/8)%3])
			genLazyCase(w)
			o.Count("case:lazy")
		default:
			longCase = f.Tier == "thorough" && k%12 == 5
			w.setMode([]mpt.TrieMode{mpt.ModeAll, mpt.ModeLatest, mpt.ModeGC}[(k/7)%3])
			genCase(w)
			longCase = false
			o.Count("case:ops")
		}
		o.Seen(strings.Join(w.sig, " "))
		if k < 2 {
			o.Sample(strings.Join(w.sig, " "))
		}
	}
}
