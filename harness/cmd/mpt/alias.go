package main

import (
	"bytes"

	"github.com/nspcc-dev/neo-go/pkg/core/mpt"
)

// ---- aliasing cases: the batch's key slices live on inside the trie ---------------------------------
//
// PutBatch stores sub-slices of the batch's nibble keys as extension keys (newSubTrie, mergeExtension,
// lcp). Later operations on the SAME in-memory trie append to extension keys (`append(n.key, …)` in
// getWithPath trie.go:133, deleteFromExtension trie.go:357, mergeExtension batch.go:84) or slice them
// (putIntoExtension). If a stored key has spare capacity that runs over memory another node still
// uses (a shared buffer, a slice of a longer array), such an append rewrites that other node. The
// functional model cannot express this, so it is a generator target: a batch of >= 2 keys with long
// distinct tails under shared prefixes, then — without Flush/Collapse, so the nodes stay in memory —
// Gets through the new extensions, Puts of keys that extend / fork from the batch keys, Deletes
// that merge extensions, and finally a read of every key ever written, the root and an ordered scan.
func genAliasCase(w *world) {
	r := w.r
	// a family of keys: common stem, then forks with long tails
	stem := bytes.Repeat([]byte{pickB(r)}, r.Range(0, 3))
	nk := r.Range(2, 7)
	var keys [][]byte
	seen := map[string]bool{}
	for len(keys) < nk {
		k := bytes.Clone(stem)
		k = append(k, pickB(r))
		for i := r.Range(1, 6); i > 0; i-- {
			k = append(k, pickB(r))
		}
		if r.Chance(1, 4) && len(keys) > 0 { // shares a longer prefix with an earlier key
			p := keys[r.Intn(len(keys))]
			k = append(bytes.Clone(p[:r.Range(1, len(p))]), pickB(r), pickB(r))
		}
		if !seen[string(k)] && len(k) <= mpt.MaxKeyLength {
			seen[string(k)] = true
			keys = append(keys, k)
		}
	}
	val := func() []byte { return []byte{byte(r.Intn(256)), byte(r.Intn(256))} }
	if r.Chance(1, 3) { // something in the trie before the batch
		w.put(append(bytes.Clone(stem), pickB(r), pickB(r)), val())
	}
	var chs []change
	for _, k := range keys {
		chs = append(chs, change{key: k, val: val()})
	}
	w.batch(chs)
	w.o.Count("alias:batch")
	all := append([][]byte{}, keys...)
	for round := r.Range(1, 3); round > 0; round-- {
		// reads through the fresh extensions (getWithPath appends to their keys)
		for _, k := range keys {
			if r.Chance(2, 3) {
				w.get(k)
			}
		}
		for i := r.Range(2, 7); i > 0; i-- {
			base := keys[r.Intn(len(keys))]
			var k []byte
			switch r.Intn(5) {
			case 0, 1: // extends a batch key
				k = append(bytes.Clone(base), pickB(r))
				if r.Bool() {
					k = append(k, pickB(r), pickB(r))
				}
			case 2: // forks inside a batch key's tail
				k = append(bytes.Clone(base[:r.Range(1, len(base))]), pickB(r))
			case 3: // proper prefix of a batch key
				k = bytes.Clone(base[:r.Range(1, len(base))])
			default:
				k = base
			}
			if len(k) == 0 || len(k) > mpt.MaxKeyLength {
				continue
			}
			switch r.Weighted([]int{50, 30, 20}) {
			case 0:
				w.put(k, val())
				all = append(all, k)
				w.o.Count("alias:put")
				w.get(k) // the read of the longer key on the same in-memory trie
			case 1:
				w.del(k)
				w.o.Count("alias:del")
			default: // a second batch whose keys fork from the first one's
				k2 := append(bytes.Clone(k), pickB(r))
				if len(k2) <= mpt.MaxKeyLength {
					w.batch([]change{{key: k, val: val()}, {key: k2, val: val()}})
					all = append(all, k, k2)
					w.o.Count("alias:batch2")
				}
			}
		}
		for _, k := range all {
			w.get(k)
		}
		w.root()
	}
	genDivergingStart(w)
	w.seek(nil, nil, false) // (flushes, then scans the stored trie)
	for _, k := range all {
		w.get(k)
	}
	w.root()
}
