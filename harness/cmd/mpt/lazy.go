package main

import (
	"github.com/nspcc-dev/neo-go/pkg/core/mpt"
)

// ---- lazy-loading cases: operations on a trie whose nodes are (partly) missing from the store ----
//
// Phase 1 builds a trie (with flushes / collapses in between). Then, one to three times: the trie is
// brought to a canonical in-memory form (reopened from its root, or Collapse(0): the root is one
// HashNode), ONE record of a node on the path of a present key is deleted from the store, and a
// sequence of Put / Delete / PutBatch / Get / StateRoot follows, aimed at the neighbourhood of that
// node. Every HashNode has to be loaded on the way, the missing one makes the operation fail; the
// Lean driver runs the same on the lazy model (Model/Mpt/Lazy*.lean) and must predict every result,
// error or not, and every root (also the root left behind by a failed Delete / PutBatch, which change
// the trie in place before they fail). No Flush after the first error (the reference counters are
// undefined then). The content oracles are off in this phase.
func genLazyCase(w *world) {
	r := w.r
	pool := mkPool(r, w.o)
	vals := mkVals(r, w.o)
	for i := r.Range(4, 22); i > 0; i-- {
		switch r.Weighted([]int{60, 12, 14, 5, 5, 4, 5}) {
		case 0:
			w.put(pick(r, pool), pick(r, vals))
		case 1:
			w.del(pick(r, pool))
		case 2:
			w.batch(genBatch(w, pool, vals))
		case 3:
			w.flush()
		case 4:
			w.collapse(r.Intn(5))
		case 5:
			w.get(pick(r, pool))
		case 6:
			genFind(w, pool) // loads nodes in place; the lazy model follows
		}
	}
	w.root()
	for round := 0; round < 1; round++ {
		if len(w.ref) == 0 {
			break
		}
		ks := sortedKeys(w.ref)
		key := []byte(ks[r.Intn(len(ks))])
		if len(key) == 0 || len(key) > mpt.MaxKeyLength {
			break
		}
		ps := w.proof(key) // the nodes on the path of key (a line: GetProof loads them, the model follows)
		if len(ps) == 0 {
			break
		}
		var victims [][]byte
		for nv := r.Weighted([]int{0, 70, 20, 10}); nv > 0; nv-- {
			switch r.Weighted([]int{30, 10, 30, 30}) {
			case 0:
				victims = append(victims, ps[len(ps)-1]) // the leaf
				w.o.Count("lazy:drop:leaf")
			case 1:
				victims = append(victims, ps[0]) // the root node
				w.o.Count("lazy:drop:root")
			case 2:
				victims = append(victims, ps[r.Intn(len(ps))])
				w.o.Count("lazy:drop:on-path")
			default: // a sibling: a node on the path of another key, preferably not on this one's
				k2 := []byte(ks[r.Intn(len(ks))])
				victim := ps[len(ps)-1]
				if len(k2) > 0 && len(k2) <= mpt.MaxKeyLength {
					if ps2 := w.proof(k2); len(ps2) > 0 {
						victim = ps2[len(ps2)-1]
						for _, p := range ps2 {
							on := false
							for _, q := range ps {
								if string(p) == string(q) {
									on = true
								}
							}
							if !on {
								victim = p
								break
							}
						}
					}
				}
				victims = append(victims, victim)
				w.o.Count("lazy:drop:sibling")
			}
		}
		// every operation of a lazy case is followed exactly by the model (which nodes are in memory, which
		// are HashNodes), so the record may be dropped at any Collapse depth: what is still in memory
		// is not loaded again
		switch r.Intn(4) {
		case 0:
			w.reopen()
		case 1:
			w.collapse(0)
		default:
			w.collapse(r.Range(1, 4))
			w.o.Count("lazy:drop-after-collapse-d")
		}
		for _, v := range victims {
			w.drop(dsha(v))
		}
		for i := r.Range(3, 12); i > 0; i-- {
			var k []byte
			switch r.Intn(4) {
			case 0:
				k = key
			case 1:
				k = []byte(ks[r.Intn(len(ks))])
			case 2:
				k = nearKey(r, [][]byte{key})
			default:
				k = pick(r, pool)
			}
			if len(k) > mpt.MaxKeyLength {
				k = k[:mpt.MaxKeyLength]
			}
			switch r.Weighted([]int{22, 30, 18, 18, 6, 6, 8}) {
			case 0:
				if len(k) > 0 {
					v := pick(r, vals)
					e0 := w.errs
					w.put(k, v)
					if w.errs == e0 && len(v) <= mpt.MaxValueLength { // Put returned nil: the value must be readable
						if got, err := w.tr.Get(k); err != nil || string(got) != string(v) {
							w.o.Fail("put-lost", w.k, "Put(%x, %x) returned no error (a record is missing from the store) but Get = %x, %v", k, v, got, err)
						}
						w.get(k) // (the same Get as a line: the model follows the nodes it loads)
					}
				}
			case 1:
				e0 := w.errs
				w.del(k)
				if w.errs == e0 && !w.stale { // Delete returned nil: the key must be gone
					if got, err := w.tr.Get(k); err == nil {
						w.o.Fail("delete-lost", w.k, "Delete(%x) returned no error (a record is missing from the store) but Get = %x", k, got)
					}
					w.get(k)
				}
			case 2:
				chs := genBatch(w, pool, vals)
				if r.Bool() {
					chs = append(chs, change{key: k})
				}
				w.batch(chs)
			case 3:
				w.get(k)
			case 4:
				w.root()
			case 5:
				w.proof(k) // GetProof through HashNodes, some of them missing
			default: // Find through HashNodes, some of them missing: error or result, and what got loaded
				pf := k
				if len(pf) > 0 {
					pf = pf[:r.Range(0, len(pf))]
				}
				var from []byte
				if r.Bool() {
					from = genStart(r, pool, pf)
				}
				w.find(pf, from, []int{0, 1, 2, 1000}[r.Intn(4)])
			}
		}
		w.root()
	}
	if w.errs > 0 {
		w.o.Count("lazy:case-with-error")
	}
	for _, k := range pool {
		if len(pool) <= 12 || r.Chance(1, 3) {
			w.get(k)
		}
	}
	w.root()
}
