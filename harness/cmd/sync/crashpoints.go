package main

// Crash points of the state synchronisation (C20: "with restarts in between", restart points of the syncing
// node). The syncing node runs on a store that records every atomic write batch it commits (Persist /
// PersistSync of the write cache, the batches of the state jump, SeekGC). A crash leaves the database after
// some prefix of that list. For the prefixes around every stage boundary (headers -> state data -> blocks ->
// the batches of Blockchain.jumpToState -> after the jump) and a few in the middle of the stages, a node is
// started on the crash image, its state-sync module is re-created, honest peers serve whatever it asks for,
// and the C20 oracle is applied: it must end at the sync point with the source's state root, contract
// storage and window of blocks, and then follow the source to the tip.

import (
	"bytes"
	"fmt"
	"sort"
	"strings"
	"sync"

	"github.com/nspcc-dev/neo-go/pkg/config"
	"github.com/nspcc-dev/neo-go/pkg/core"
	"github.com/nspcc-dev/neo-go/pkg/core/block"
	"github.com/nspcc-dev/neo-go/pkg/core/storage"
	"github.com/nspcc-dev/neo-go/pkg/util"
	"go.uber.org/zap"
	"go.uber.org/zap/zapcore"
)

type batch struct {
	kv    map[string][]byte // nil value: deletion
	phase string            // what the harness was doing when the batch was committed
}

// recStore wraps the node's backend and records every committed batch in order.
type recStore struct {
	mu      sync.Mutex
	inner   *storage.MemoryStore
	batches []*batch
	phase   string
	// getHook is called for every read that reaches the backend (the node's write cache missed), with the
	// caller still inside MemCachedStore.Get: the harness uses it to let a flush of the write cache fall
	// between two writes of one module call (what the 1 s persist timer of Blockchain.Run can do)
	getHook func(key []byte, found bool)
}

func newRecStore() *recStore { return &recStore{inner: storage.NewMemoryStore(), phase: "start"} }

func (s *recStore) setPhase(p string) {
	s.mu.Lock()
	s.phase = p
	s.mu.Unlock()
}

func (s *recStore) Get(k []byte) ([]byte, error) {
	v, err := s.inner.Get(k)
	s.mu.Lock()
	h := s.getHook
	s.mu.Unlock()
	if h != nil {
		h(k, err == nil)
	}
	return v, err
}

func (s *recStore) setHook(h func(key []byte, found bool)) {
	s.mu.Lock()
	s.getHook = h
	s.mu.Unlock()
}

func (s *recStore) Seek(rng storage.SeekRange, f func(k, v []byte) bool) { s.inner.Seek(rng, f) }

func (s *recStore) PutChangeSet(puts map[string][]byte, stor map[string][]byte) error {
	b := &batch{kv: make(map[string][]byte, len(puts)+len(stor))}
	for k, v := range puts {
		b.kv[k] = cloneVal(v)
	}
	for k, v := range stor {
		b.kv[k] = cloneVal(v)
	}
	s.mu.Lock()
	defer s.mu.Unlock()
	err := s.inner.PutChangeSet(puts, stor)
	if err == nil && len(b.kv) > 0 {
		b.phase = s.phase
		s.batches = append(s.batches, b)
	}
	return err
}

func (s *recStore) SeekGC(rng storage.SeekRange, keepCont func(k, v []byte) (bool, bool)) error {
	b := &batch{kv: map[string][]byte{}}
	s.mu.Lock()
	defer s.mu.Unlock()
	err := s.inner.SeekGC(rng, func(k, v []byte) (bool, bool) {
		keep, cont := keepCont(k, v)
		if !keep {
			b.kv[string(k)] = nil
		}
		return keep, cont
	})
	if err == nil && len(b.kv) > 0 {
		b.phase = s.phase
		s.batches = append(s.batches, b)
	}
	return err
}

func (s *recStore) Close() error { return nil }

func (s *recStore) snapshot() []*batch {
	s.mu.Lock()
	defer s.mu.Unlock()
	return append([]*batch(nil), s.batches...)
}

func cloneVal(v []byte) []byte {
	if v == nil {
		return nil
	}
	return append(make([]byte, 0, len(v)), v...)
}

// image builds a fresh store holding the database after the first k batches.
func image(bs []*batch, k int) storage.Store {
	db := map[string][]byte{}
	for _, b := range bs[:k] {
		for key, v := range b.kv {
			if v == nil {
				delete(db, key)
			} else {
				db[key] = v
			}
		}
	}
	ms := storage.NewMemoryStore()
	puts, stor := map[string][]byte{}, map[string][]byte{}
	for k, v := range db {
		if k[0] == byte(storage.STStorage) || k[0] == byte(storage.STTempStorage) {
			stor[k] = cloneVal(v)
		} else {
			puts[k] = cloneVal(v)
		}
	}
	_ = ms.PutChangeSet(puts, stor)
	return ms
}

// snode is the syncing node: a core.Blockchain on the recording store, restartable.
type snode struct {
	BC      *core.Blockchain
	Cfg     config.Blockchain
	Log     *zap.Logger
	rec     *recStore
	running bool
}

func newSnode(cfg config.Blockchain) *snode {
	return &snode{Cfg: cfg, rec: newRecStore(),
		Log: zap.New(zapcore.NewNopCore(), zap.WithFatalHook(zapcore.WriteThenPanic))}
}

func openChain(st storage.Store, cfg config.Blockchain, log *zap.Logger) (*core.Blockchain, error) {
	if cfg.Hardforks != nil { // NewBlockchain mutates the map it is given
		m := make(map[string]uint32, len(cfg.Hardforks))
		for k, v := range cfg.Hardforks {
			m[k] = v
		}
		cfg.Hardforks = m
	}
	bc, err := core.NewBlockchain(st, cfg, log)
	if err != nil {
		return nil, err
	}
	go bc.Run()
	return bc, nil
}

func (n *snode) start() error {
	bc, err := openChain(n.rec, n.Cfg, n.Log)
	if err != nil {
		return err
	}
	n.BC = bc
	n.running = true
	return nil
}

func (n *snode) Flush() error { return n.BC.VerifPersist() }

func (n *snode) Stop() {
	if n.running {
		n.BC.Close()
		n.running = false
	}
}

func (n *snode) Restart() error {
	n.Stop()
	return n.start()
}

// Disk is the backend as it is on "disk" now (what was committed).
func (n *snode) Disk() storage.Store { return n.rec.inner }

// serveHonestly drives a (re)started node to the end of the state sync with honest data only: whatever the
// module asks for is delivered from the source.
func (c *kase) serveHonestly(bc *core.Blockchain, top uint32) error {
	src := c.src.bc()
	mod := bc.GetStateSyncModule()
	if res, err := safeErr(func() error { return mod.Init(top) }); err != nil {
		return fmt.Errorf("Init: %s %w", res, err)
	}
	for round := 0; mod.IsActive(); round++ {
		if round > 20*len(c.hashes)+200 {
			return fmt.Errorf("no end: module still active after %d rounds (headers %v, data %v, blocks %v)", round, mod.NeedHeaders(), mod.NeedStorageData(), mod.NeedBlocks())
		}
		switch {
		case mod.NeedHeaders():
			from := bc.HeaderHeight() + 1
			to := min(top, from+5)
			var hs []*block.Header
			for i := from; i <= to; i++ {
				h, err := src.GetHeader(src.GetHeaderHash(i))
				if err != nil {
					panic(err)
				}
				hs = append(hs, h)
			}
			if len(hs) == 0 {
				return fmt.Errorf("module needs headers above the source's tip %d", top)
			}
			if res, err := safeErr(func() error { return mod.AddHeaders(hs...) }); err != nil {
				return fmt.Errorf("AddHeaders(%d..%d): %s %w", from, to, res, err)
			}
		case mod.NeedStorageData():
			if c.storage {
				// the fetcher: stream in order behind the last stored key
				if res, err := safeErr(func() error { return mod.InitContractStorageSync(c.mptRoot()) }); err != nil {
					return fmt.Errorf("InitContractStorageSync: %s %w", res, err)
				}
				next := 0
				if l := mod.GetLastStoredKey(); len(l) > 0 {
					i, ok := c.kvID[string(l)]
					if !ok {
						return fmt.Errorf("last stored key %x is not a key of the state", l)
					}
					next = i + 1
				}
				if next >= len(c.kvs) {
					return fmt.Errorf("all items are stored (last stored key is the last key) but the module still needs storage data")
				}
				hi := min(len(c.kvs), next+4)
				if res, err := safeErr(func() error { return mod.AddContractStorageItems(c.kvs[next:hi]) }); err != nil {
					return fmt.Errorf("AddContractStorageItems(%d..%d): %s %w", next, hi-1, res, err)
				}
				continue
			}
			need := mod.GetUnknownMPTNodesBatch(8)
			var nodes [][]byte
			for _, h := range need {
				nb, ok := c.nodes[h]
				if !ok {
					return fmt.Errorf("module requests %s which is not in the source trie", h.StringLE())
				}
				nodes = append(nodes, nb)
			}
			// an empty request list with the stage still open is the known stall; an honest node would sit there
			if res, err := safeErr(func() error { return mod.AddMPTNodes(nodes) }); err != nil {
				return fmt.Errorf("AddMPTNodes(%d requested nodes): %s %w", len(nodes), res, err)
			}
		case mod.NeedBlocks():
			idx := mod.BlockHeight() + 1
			b, err := src.GetBlock(src.GetHeaderHash(idx))
			if err != nil {
				panic(err)
			}
			if res, err := safeErr(func() error { return mod.AddBlock(b) }); err != nil {
				return fmt.Errorf("AddBlock(%d): %s %w", idx, res, err)
			}
		default:
			return fmt.Errorf("module is active but needs nothing")
		}
	}
	return nil
}

// compareWithSource is the C20 oracle on a node that finished the state sync: state at P, window, lockstep to the tip.
func (c *kase) compareWithSource(sb *core.Blockchain, top uint32, disk storage.Store) (string, error) {
	src := c.src.bc()
	if sb.BlockHeight() != c.P {
		return "height", fmt.Errorf("node height %d, sync point %d", sb.BlockHeight(), c.P)
	}
	sr, err := sb.GetStateModule().GetStateRoot(c.P)
	if err != nil || !sr.Root.Equals(c.root) {
		return "root", fmt.Errorf("state root at P=%d: %v (err %v), source %s", c.P, sr, err, c.root.StringLE())
	}
	want := map[string]string{}
	src.GetStateModule().SeekStates(c.root, nil, func(k, v []byte) bool {
		want[string(k)] = string(v)
		return true
	})
	if d := diffMaps(want, dumpStorage(sb, c.src.ids)); d != "" {
		return "storage-at-P", fmt.Errorf("contract storage at P=%d differs from the source trie: %s", c.P, d)
	}
	if !c.storage && disk != nil {
		if res, err := safeErr(func() error { return sb.VerifPersist() }); err != nil {
			return "flush", fmt.Errorf("%s %v", res, err)
		}
		npos := map[util.Uint256]int{}
		for _, p := range c.allPositions() {
			npos[p.h]++
		}
		for i, h := range c.hashes {
			if got := refcount(disk.Get, h); got != npos[h] {
				return "refcount", fmt.Errorf("node %d (%s, kind %s) has reference counter %d after the sync, it occurs at %d position(s) of the trie", i, h.StringLE(), c.info[h].kind, got, npos[h])
			}
		}
	}
	mtb := sb.GetMaxTraceableBlocks()
	first := uint32(1)
	if c.P > mtb {
		first = c.P - mtb + 1
	}
	for i := first; i <= c.P; i++ {
		wb, err := src.GetBlock(src.GetHeaderHash(i))
		if err != nil {
			panic(err)
		}
		gb, err := sb.GetBlock(sb.GetHeaderHash(i))
		if err != nil || !gb.Hash().Equals(wb.Hash()) || len(gb.Transactions) != len(wb.Transactions) {
			return "window", fmt.Errorf("block %d of the window %d..%d: %v", i, first, c.P, err)
		}
	}
	for i := c.P + 1; i <= top; i++ {
		b, err := src.GetBlock(src.GetHeaderHash(i))
		if err != nil {
			panic(err)
		}
		if res, err := safeErr(func() error { return sb.AddBlock(b) }); err != nil {
			return "continue", fmt.Errorf("AddBlock(%d) after the jump: %s %v", i, res, err)
		}
	}
	a, _ := src.GetStateModule().GetStateRoot(top)
	bsr, err := sb.GetStateModule().GetStateRoot(top)
	if err != nil || !a.Root.Equals(bsr.Root) {
		return "root-at-tip", fmt.Errorf("state root at tip %d differs (err %v)", top, err)
	}
	if d := diffMaps(dumpStorage(src, c.src.ids), dumpStorage(sb, c.src.ids)); d != "" {
		return "storage-at-tip", fmt.Errorf("contract storage at tip %d: %s", top, d)
	}
	return "", nil
}

func batchHasJumpMarker(b *batch) bool {
	_, ok := b.kv[string([]byte{byte(storage.SYSStateChangeStage)})]
	return ok
}

// crashReplays: bs is the batch list of the finished run up to the end of the state jump.
func (c *kase) crashReplays(bs []*batch, top uint32) bool {
	o := c.o
	// crash points: every boundary between two phases, every prefix that ends inside the jump, the first and
	// the last batch of every phase, a few more
	pick := map[int]bool{0: true, len(bs): true}
	for i := 1; i < len(bs); i++ {
		if bs[i].phase != bs[i-1].phase {
			pick[i-1], pick[i], pick[i+1] = true, true, true
		}
		if batchHasJumpMarker(bs[i]) || batchHasJumpMarker(bs[i-1]) {
			pick[i], pick[i+1] = true, true
		}
	}
	for i := 0; i < 4 && len(bs) > 0; i++ {
		pick[c.r.Intn(len(bs)+1)] = true
	}
	var ks []int
	for k := range pick {
		if k >= 0 && k <= len(bs) {
			ks = append(ks, k)
		}
	}
	sort.Ints(ks)
	if len(ks) > 24 {
		// keep the boundaries of the jump and thin out the rest
		var keep []int
		for i, k := range ks {
			inJump := k > 0 && k <= len(bs) && (batchHasJumpMarker(bs[k-1]) || (k < len(bs) && batchHasJumpMarker(bs[k])))
			if inJump || i%((len(ks)+15)/16) == 0 {
				keep = append(keep, k)
			}
		}
		ks = keep
	}
	for _, k := range ks {
		where := "empty"
		if k > 0 {
			where = bs[k-1].phase
			if batchHasJumpMarker(bs[k-1]) {
				if v := bs[k-1].kv[string([]byte{byte(storage.SYSStateChangeStage)})]; len(v) > 0 {
					where = fmt.Sprintf("jump-stage-%d", v[0])
				} else {
					where = "jump-done"
				}
			}
		}
		o.Count("crashpoint:after-" + where)
		st := image(bs, k)
		bc, err := openChain(st, c.sync.Cfg, c.sync.Log)
		var res string
		if err == nil {
			res, err = safeErr(func() error { return nil })
		}
		if err != nil {
			c.fail("crash-reopen-"+where, "crash after batch %d of %d (%s): the node does not start on the crash image: %s %v", k, len(bs), where, res, err)
			return false
		}
		var failKey string
		var failErr error
		func() {
			defer bc.Close()
			if res, err := safeErr(func() error { return c.serveHonestly(bc, top) }); err != nil {
				failKey, failErr = "crash-resume-"+where, fmt.Errorf("%s %w", res, err)
				return
			}
			if what, err := c.compareWithSource(bc, top, st); err != nil {
				failKey, failErr = "crash-state-"+what+"-"+where, err
			}
		}()
		if failErr != nil {
			if where == "data-midcall" {
				// one class, whatever the symptom: the flush fell between two writes of one AddMPTNodes call
				// (known finding; the other crash points of the case are still checked)
				c.o.Fail("crash-inside-addmptnodes", c.k, "crash after batch %d of %d (%s): [%s] %v; steps: %s", k, len(bs), where, failKey, failErr, strings.Join(c.trace, " "))
				o.Count("crashpoint:inside-call-diverged")
				continue
			}
			c.fail(failKey, "crash after batch %d of %d (%s): %v", k, len(bs), where, failErr)
			return false
		}
		o.Count("crashpoint:converged")
	}
	return true
}

var _ = bytes.Equal
var _ util.Uint256
