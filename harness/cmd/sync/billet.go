package main

// Direct tie of the Lean billet model (NeoModel/Model/Billet.lean) to mpt.Billet: a real Billet over the
// node table of the case's source trie is driven with RestoreHashNode calls at pending, restored, deeper,
// shifted and random paths with the right node, a wrong node, a HashNode, an EmptyNode; with Traverse, and
// with fresh billets over the same store (what a restart does). Every call's outcome (ok / error class /
// panic), the reference counter of the node in the store and, at the end, all counters and the temporary
// storage are observations the model has to predict.
//
//   bnew                         -> ok
//   bput <nibbles|-> <id|f|hn<id>|e>  -> ok|err:<class>|panic rc=<counter of the node>
//   btrav <0|1>                  -> ok n=<visited> sum=<checksum of the visited (path,id) sequence> | err:<class>
//   bdump                        -> rc=<checksum of all counters> ts=<items>/<checksum>

import (
	"bytes"
	"encoding/binary"
	"fmt"
	"sort"
	"strings"

	"github.com/nspcc-dev/neo-go/pkg/core/mpt"
	"github.com/nspcc-dev/neo-go/pkg/core/storage"
	"github.com/nspcc-dev/neo-go/pkg/io"
	"github.com/nspcc-dev/neo-go/pkg/util"
)

type ninfo struct {
	kind string // L, B, E
	kids map[util.Uint256][][]byte
}

type inlined struct {
	h   util.Uint256
	rel []byte
}

type position struct {
	h      util.Uint256
	path   []byte
	parent int // index of the parent position, -1 for the root
}

func (p position) key() string { return string(p.h[:]) + "/" + string(p.path) }

func errClass(err error) string {
	if err == nil {
		return "ok"
	}
	m := err.Error()
	switch {
	case strings.Contains(m, "panic:"):
		return "panic"
	case strings.Contains(m, "into HashNode"):
		return "err:intoHashNode"
	case strings.Contains(m, "into EmptyNode"):
		return "err:intoEmptyNode"
	case strings.Contains(m, "can't modify EmptyNode"):
		return "err:modifyEmpty"
	case strings.Contains(m, "bad Extension node hash"), strings.Contains(m, "hashes mismatch"):
		return "err:badHash"
	case strings.Contains(m, "can't modify ExtensionNode"):
		return "err:modifyExt"
	case strings.Contains(m, "already been collapsed"):
		return "err:collapsed"
	case strings.Contains(m, "LeafNode"), strings.Contains(m, "bad Leaf"):
		return "err:leaf"
	case strings.Contains(m, "key not found"):
		return "err:notFound"
	case strings.Contains(m, "failed to decode"):
		return "err:notFound"
	}
	return "err:other"
}

func decodeNode(b []byte) mpt.Node {
	var n mpt.NodeObject
	r := io.NewBinReaderFromBuf(b)
	n.DecodeBinary(r)
	if r.Err != nil {
		panic(r.Err)
	}
	return n.Node
}

func mptKey(h util.Uint256) []byte { return append([]byte{byte(storage.DataMPT)}, h[:]...) }

func refcount(get func([]byte) ([]byte, error), h util.Uint256) int {
	d, err := get(mptKey(h))
	if err != nil || len(d) < 5 {
		return 0
	}
	return int(int32(binary.LittleEndian.Uint32(d[len(d)-4:])))
}

// rcSum is the checksum of the reference counters of all trie nodes (by id), shared with the Lean driver.
func (c *kase) rcSum(get func([]byte) ([]byte, error)) int {
	sum := 0
	for i, h := range c.hashes {
		sum = (sum*31 + (i+1)*refcount(get, h)) % 1000000007
	}
	return sum
}

// tsSum: number of items under the temporary storage prefix and an order-independent checksum over
// (key, id of the leaf holding the value).
func (c *kase) tsSum(seek func(storage.SeekRange, func(k, v []byte) bool), prefix storage.KeyPrefix) string {
	n, sum := 0, 0
	seek(storage.SeekRange{Prefix: []byte{byte(prefix)}}, func(k, v []byte) bool {
		n++
		x := 0
		for _, b := range k[1:] {
			x = (x*131 + int(b) + 1) % 1000000007
		}
		id, ok := c.id[mpt.NewLeafNode(v).Hash()]
		if !ok {
			id = -1
		}
		sum = (sum + x*31 + id + 1) % 1000000007
		return true
	})
	return fmt.Sprintf("%d/%d", n, sum)
}

// allPositions enumerates the positions (hash, nibble path) of the source trie in traversal order.
func (c *kase) allPositions() []position {
	var res []position
	var walk func(h util.Uint256, path []byte, parent int)
	walk = func(h util.Uint256, path []byte, parent int) {
		me := len(res)
		res = append(res, position{h, bytes.Clone(path), parent})
		type kid struct {
			h    util.Uint256
			path []byte
		}
		var ks []kid
		for ch, paths := range c.info[h].kids {
			for _, p := range paths {
				ks = append(ks, kid{ch, p})
			}
		}
		sort.Slice(ks, func(a, b int) bool {
			if x := bytes.Compare(ks[a].path, ks[b].path); x != 0 {
				return x < 0
			}
			return bytes.Compare(ks[a].h[:], ks[b].h[:]) < 0
		})
		for _, k := range ks {
			walk(k.h, append(bytes.Clone(path), k.path...), me)
		}
	}
	walk(c.root, nil, -1)
	return res
}

func nib(p []byte) string {
	if len(p) == 0 {
		return "-"
	}
	var sb strings.Builder
	for _, b := range p {
		fmt.Fprintf(&sb, "%x", b&0x0f)
	}
	return sb.String()
}

func (c *kase) billetDirect() {
	o, r := c.o, c.r
	store := storage.NewMemCachedStore(storage.NewMemoryStore())
	newBillet := func() *mpt.Billet { return mpt.NewBillet(c.root, mpt.ModeLatest, storage.STTempStorage, store) }
	b := newBillet()
	c.o.Line("bnew", "ok")
	pos := c.allPositions()
	o.Add("billet:positions", len(pos))
	// frontier: positions whose parent is expanded in the billet but which are not expanded themselves
	done := map[string]bool{}
	pending := func() []position {
		var res []position
		for _, p := range pos {
			if !done[p.key()] && (p.parent < 0 || done[pos[p.parent].key()]) {
				res = append(res, p)
			}
		}
		return res
	}
	steps := r.Range(10, 60)
	if (len(pos) < 60 && r.Chance(1, 2)) || c.k < 5 {
		steps = min(3*len(pos), 400) // usually completes the trie
	}
	for i := 0; i < steps; i++ {
		switch r.Weighted([]int{30, 2, 1}) {
		case 1:
			ignore := !r.Chance(1, 4)
			n, sum := 0, 0
			res, err := safeErr(func() error {
				return b.Traverse(func(path []byte, nd mpt.Node, _ []byte) bool {
					n++
					sum = (sum*31 + c.id[nd.Hash()] + 1) % 1000000007
					for _, x := range path {
						sum = (sum*31 + int(x) + 1) % 1000000007
					}
					return false
				}, ignore)
			})
			obs := fmt.Sprintf("ok n=%d sum=%d", n, sum)
			if err != nil {
				obs = errClass(err)
				if res == "panic" {
					obs = "panic"
				}
			}
			c.o.Line(fmt.Sprintf("btrav %d", map[bool]int{false: 0, true: 1}[ignore]), obs)
			o.Count("billet:traverse:" + strings.SplitN(obs, " ", 2)[0])
			if err != nil && res != "panic" {
				// a failed Traverse leaves the billet as it was
				continue
			}
			// everything reachable through stored nodes is expanded now (pre-order: parents first)
			for _, p := range pos {
				if !done[p.key()] && (p.parent < 0 || done[pos[p.parent].key()]) && refcount(store.Get, p.h) > 0 {
					done[p.key()] = true
				}
			}
			continue
		case 2:
			b = newBillet()
			done = map[string]bool{}
			c.o.Line("bnew", "ok")
			o.Count("billet:new-over-same-store")
			continue
		}
		// one RestoreHashNode
		var path []byte
		var tok string
		var node mpt.Node
		pend := pending()
		pick := func(h util.Uint256) {
			node = decodeNode(c.nodes[h]).Clone()
			tok = fmt.Sprint(c.id[h])
		}
		kind := r.Weighted([]int{16, 3, 3, 3, 2, 2, 2})
		if len(pend) == 0 && kind == 0 {
			kind = 2
		}
		switch kind {
		case 0: // a pending position with its node; often the deepest one, so that subtrees get complete and collapse
			p := pend[r.Intn(len(pend))]
			if r.Chance(3, 5) {
				for _, q := range pend {
					if len(q.path) >= len(p.path) {
						p = q
					}
				}
			}
			path = p.path
			pick(p.h)
			o.Count("billet:put:pending")
		case 1: // a pending path with another node
			if len(pend) == 0 {
				continue
			}
			p := pend[r.Intn(len(pend))]
			path = p.path
			if r.Chance(1, 3) {
				node = mpt.NewLeafNode(append([]byte{0xfe, 0xed}, r.Bytes(3)...))
				tok = "f"
			} else {
				pick(c.hashes[r.Intn(len(c.hashes))])
			}
			o.Count("billet:put:pending-path-other-node")
		case 2: // a position that was restored already
			var ds []position
			for _, p := range pos {
				if done[p.key()] {
					ds = append(ds, p)
				}
			}
			if len(ds) == 0 {
				continue
			}
			p := ds[r.Intn(len(ds))]
			if r.Chance(1, 2) { // below a subtree that is complete (collapsed), if there is one
				for _, q := range ds {
					if len(q.path) >= len(p.path) {
						p = q
					}
				}
			}
			path = p.path
			pick(p.h)
			o.Count("billet:put:restored-again")
		case 3: // any position of the trie (mostly not reachable yet)
			p := pos[r.Intn(len(pos))]
			path = p.path
			pick(p.h)
			o.Count("billet:put:any-position")
		case 4: // a position with its path cut or extended by a nibble
			p := pos[r.Intn(len(pos))]
			path = bytes.Clone(p.path)
			switch {
			case len(path) > 1 && r.Chance(1, 2): // another nibble somewhere (inside an extension key, mostly)
				j := r.Intn(len(path))
				path[j] = (path[j] + byte(r.Range(1, 15))) & 0x0f
			case len(path) > 0 && r.Chance(1, 2):
				path = path[:len(path)-1]
			default:
				path = append(path, byte(r.Intn(16)))
			}
			pick(p.h)
			o.Count("billet:put:shifted-path")
		case 5: // a HashNode / an EmptyNode instead of the node
			p := pos[r.Intn(len(pos))]
			if len(pend) > 0 && r.Chance(2, 3) {
				p = pend[r.Intn(len(pend))]
			}
			path = p.path
			if r.Chance(1, 2) {
				node = mpt.NewHashNode(p.h)
				tok = fmt.Sprintf("hn%d", c.id[p.h])
			} else {
				node = mpt.EmptyNode{}
				tok = "e"
			}
			o.Count("billet:put:hash-or-empty-node")
		default: // random nibbles, random node
			path = make([]byte, r.Intn(6))
			for j := range path {
				path[j] = byte(r.Intn(16))
			}
			pick(c.hashes[r.Intn(len(c.hashes))])
			o.Count("billet:put:random-path")
		}
		res, err := safeErr(func() error { return b.RestoreHashNode(bytes.Clone(path), node) })
		cls := errClass(err)
		if res == "panic" {
			cls = "panic"
		}
		rc := 0
		if tok != "e" && tok != "f" {
			rc = refcount(store.Get, node.Hash())
		}
		c.o.Line(fmt.Sprintf("bput %s %s", nib(path), tok), fmt.Sprintf("%s rc=%d", cls, rc))
		o.Count("billet:result:" + cls)
		if err == nil {
			done[position{h: node.Hash(), path: path}.key()] = true
		}
	}
	c.o.Line("bdump", fmt.Sprintf("rc=%d ts=%s", c.rcSum(store.Get), c.tsSum(store.Seek, storage.STTempStorage)))
}

// observeStore flushes the syncing node's write cache and reads the reference counters of the trie nodes
// and the temporary contract storage from the backend.
func (c *kase) observeStore() (int, string, error) {
	if err := c.sync.Flush(); err != nil {
		return 0, "", fmt.Errorf("flush: %w", err)
	}
	st := c.sync.Disk()
	return c.rcSum(st.Get), c.tsSum(st.Seek, storage.STTempStorage), nil
}

// checkStoreComplete is the oracle at the end of the MPT stage: every node of the source trie is in the
// store with a reference counter equal to the number of its positions, and the temporary contract storage
// has exactly the leaves of the trie.
func (c *kase) checkStoreComplete() bool {
	if err := c.sync.Flush(); err != nil {
		c.fail("harness-observe", "flush: %v", err)
		return false
	}
	st := c.sync.Disk()
	npos := map[util.Uint256]int{}
	leaves := 0
	for _, p := range c.allPositions() {
		npos[p.h]++
		if c.info[p.h].kind == "L" {
			leaves++
		}
	}
	for i, h := range c.hashes {
		got := refcount(st.Get, h)
		if got == 0 {
			key := "mpt-incomplete"
			if c.underInlined(h) {
				key = "mpt-incomplete-inlined-child"
			}
			c.fail(key, "the module left the MPT stage but node %d (%s, kind %s, %d position(s)) of the source trie is not in the store", i, h.StringLE(), c.info[h].kind, npos[h])
			return false
		}
		if got != npos[h] {
			c.fail("refcount-mismatch", "node %d (%s) has reference counter %d in the store, it occurs at %d position(s) of the trie", i, h.StringLE(), got, npos[h])
			return false
		}
	}
	n := 0
	st.Seek(storage.SeekRange{Prefix: []byte{byte(storage.STTempStorage)}}, func(k, v []byte) bool { n++; return true })
	if n != leaves {
		c.fail("temp-storage-mismatch", "%d items in the temporary contract storage after the MPT stage, the trie has %d leaves", n, leaves)
		return false
	}
	c.o.Count("mpt:store-complete-checked")
	return true
}

// underInlined tells whether h is the child that was delivered inlined in an accepted node, or lies below it.
func (c *kase) underInlined(h util.Uint256) bool {
	seen := map[util.Uint256]bool{}
	var below func(x util.Uint256) bool
	below = func(x util.Uint256) bool {
		if x == h {
			return true
		}
		if seen[x] {
			return false
		}
		seen[x] = true
		for ch := range c.info[x].kids {
			if below(ch) {
				return true
			}
		}
		return false
	}
	for _, in := range c.inlinedOK {
		for ch, rels := range c.info[in.h].kids {
			for _, rel := range rels {
				if bytes.Equal(rel, in.rel) && below(ch) {
					return true
				}
			}
		}
	}
	return false
}

// inlineChild re-serialises the Branch/Extension node h with one of its hash children replaced by the
// child's full serialisation (the decoder accepts that, and the node's hash is the same). It returns the
// bytes and the relative path of the inlined child.
func (c *kase) inlineChild(h util.Uint256) ([]byte, []byte, bool) {
	nb := c.nodes[h]
	var cands []struct {
		off int
		rel []byte
		ch  util.Uint256
	}
	add := func(off int, rel []byte) {
		var ch util.Uint256
		copy(ch[:], nb[off+1:off+33])
		if _, ok := c.nodes[ch]; ok {
			cands = append(cands, struct {
				off int
				rel []byte
				ch  util.Uint256
			}{off, rel, ch})
		}
	}
	switch mpt.NodeType(nb[0]) {
	case mpt.BranchT:
		off := 1
		for i := 0; i < 17; i++ {
			if nb[off] == byte(mpt.EmptyT) {
				off++
				continue
			}
			rel := []byte{byte(i)}
			if i == 16 {
				rel = nil
			}
			add(off, rel)
			off += 33
		}
	case mpt.ExtensionT:
		r := io.NewBinReaderFromBuf(nb[1:])
		key := r.ReadVarBytes()
		off := len(nb) - 33
		add(off, key)
	default:
		return nil, nil, false
	}
	if len(cands) == 0 {
		return nil, nil, false
	}
	x := cands[c.r.Intn(len(cands))]
	res := append(bytes.Clone(nb[:x.off]), c.nodes[x.ch]...)
	res = append(res, nb[x.off+33:]...)
	return res, x.rel, true
}
