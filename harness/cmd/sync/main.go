// Command sync: correspondence + oracle stream for P2P state synchronisation (C20 b).
//
// Each case builds a source chain with pkg/neotest (GAS/NEO transfers, a deployed key-value contract
// writing, overwriting and deleting storage, many equal values so that equal sub-tries occur at several
// places of the state trie), then a second real Blockchain configured for state sync is fed through its
// real statesync.Module: headers in random batches, the MPT nodes of the sync point in PRNG-chosen
// order / batches / duplicates, interleaved with nodes nobody asked for, foreign well-formed nodes and
// undecodable bytes, with the module re-created from the DB (and the whole node restarted) at random
// points, then the blocks (with duplicates and wrong indices), then the blocks after the sync point.
//
// Lines for the Lean model (Driver/Sync.lean): the node table of the source trie, then every step with
// the module's stage and the set of hashes it still asks for.
//
// Oracle on the real code:
//   - valid-data-error / panic : an error or panic on valid requested data
//   - root-mismatch, storage-mismatch-at-P, storage-mismatch-at-tip : the synced node differs from the source
//   - accepted-unrequested : the set of unknown nodes changed on data that was not requested
//   - sync-incomplete : all nodes of the trie were delivered but the module still wants data
package main

import (
	"bytes"
	"encoding/binary"
	"fmt"
	"os"
	"path/filepath"
	"runtime"
	"sort"
	"strings"
	"time"

	"github.com/nspcc-dev/neo-go/pkg/config"
	"github.com/nspcc-dev/neo-go/pkg/core"
	"github.com/nspcc-dev/neo-go/pkg/core/block"
	"github.com/nspcc-dev/neo-go/pkg/core/mpt"
	"github.com/nspcc-dev/neo-go/pkg/core/native/nativenames"
	"github.com/nspcc-dev/neo-go/pkg/core/state"
	"github.com/nspcc-dev/neo-go/pkg/core/statesync"
	"github.com/nspcc-dev/neo-go/pkg/core/storage"
	"github.com/nspcc-dev/neo-go/pkg/core/transaction"
	"github.com/nspcc-dev/neo-go/pkg/io"
	"github.com/nspcc-dev/neo-go/pkg/neotest"
	"github.com/nspcc-dev/neo-go/pkg/smartcontract"
	"github.com/nspcc-dev/neo-go/pkg/util"
	"go.uber.org/zap"

	"verif/harness/internal/chainx"
	"verif/harness/internal/hx"
	"verif/harness/internal/prng"
)

type source struct {
	tb    *chainx.TB
	net   *chainx.Net
	node  *chainx.Node
	e     *neotest.Executor
	kv    *chainx.KV
	kvH   util.Uint160
	nonce uint32
	ids   []int32 // contract ids with storage
}

func (s *source) bc() *core.Blockchain { return s.node.BC }

func (s *source) tx(signer neotest.Signer, script []byte) *transaction.Transaction {
	tx := transaction.New(script, 0)
	s.nonce++
	tx.Nonce = s.nonce
	tx.ValidUntilBlock = s.bc().BlockHeight() + 1
	return s.e.SignTx(s.tb, tx, -1, signer)
}

func callScript(h util.Uint160, method string, args ...any) []byte {
	b, err := smartcontract.CreateCallScript(h, method, args...)
	if err != nil {
		panic(err)
	}
	return b
}

func protoCfg(net *chainx.Net, interval, mtb int, syncing bool, storageMode ...bool) config.Blockchain {
	return net.BaseConfig(func(c *config.Blockchain) {
		c.StateRootInHeader = true
		c.P2PStateExchangeExtensions = true
		c.StateSyncInterval = interval
		c.MaxTraceableBlocks = uint32(mtb)
		c.MaxValidUntilBlockIncrement = uint32(mtb / 2)
		if c.MaxValidUntilBlockIncrement == 0 {
			c.MaxValidUntilBlockIncrement = 1
		}
		if syncing {
			c.KeepOnlyLatestState = true
			c.RemoveUntraceableBlocks = true
			if len(storageMode) > 0 && storageMode[0] {
				c.P2PStateExchangeExtensions = false
				c.NeoFSStateSyncExtensions = true
				c.NeoFSStateFetcher.Enabled = true
				c.NeoFSBlockFetcher.Enabled = true
			}
		}
	})
}

// buildSource makes the source chain: height blocks with storage-changing transactions.
func buildSource(r *prng.R, tb *chainx.TB, interval, mtb, height int, plain bool, o *hx.Out) *source {
	net := chainx.NewNet(r, 1, 1, 3)
	node, err := chainx.StartNode(protoCfg(net, interval, mtb, false), chainx.NewBackend(chainx.Memory))
	if err != nil {
		panic(err)
	}
	s := &source{tb: tb, net: net, node: node}
	val := net.StandbyValidatorsSigner()
	s.e = neotest.NewExecutor(tb, node.BC, val, net.StandbyCommitteeSigner())
	gas := s.e.NativeHash(tb, nativenames.Gas)
	neo := s.e.NativeHash(tb, nativenames.Neo)
	s.kv = chainx.NewKV("kv", 0)
	s.kvH = s.kv.Hash(val.ScriptHash())
	deployed := false
	users := []neotest.Signer{net.Single(1), net.Single(2), net.Single(3)}
	funded := false
	for int(node.BC.BlockHeight()) < height {
		var txs []*transaction.Transaction
		switch {
		case !funded:
			for _, u := range users {
				txs = append(txs, s.tx(val, callScript(gas, "transfer", val.ScriptHash(), u.ScriptHash(), 1000_0000_0000, nil)))
			}
			txs = append(txs, s.tx(val, callScript(neo, "transfer", val.ScriptHash(), users[0].ScriptHash(), 1000, nil)))
			funded = true
		case !deployed:
			txs = append(txs, s.tx(val, s.kv.DeployScript([]byte{1})))
			deployed = true
		default:
			n := r.Intn(4)
			for i := 0; i < n; i++ {
				u := users[r.Intn(len(users))]
				kind := r.Intn(9)
				if plain && kind >= 2 && kind <= 5 && kind != 7 {
					kind = 8 // no deliberately equal values / sub-tries
				}
				switch kind {
				case 0:
					v := users[r.Intn(len(users))]
					txs = append(txs, s.tx(u, callScript(gas, "transfer", u.ScriptHash(), v.ScriptHash(), int64(r.Range(1, 1000)), nil)))
					o.Count("src:gas-transfer")
				case 1:
					txs = append(txs, s.tx(users[0], callScript(neo, "transfer", users[0].ScriptHash(), users[r.Range(1, 2)].ScriptHash(), int64(r.Range(1, 3)), nil)))
					o.Count("src:neo-transfer")
				case 2, 3: // same value under sibling keys: equal leaves under one branch
					base := []byte{byte(0x10 * r.Range(1, 3)), byte(r.Intn(3))}
					v := []byte{byte(r.Range(1, 2))}
					for j := 0; j < r.Range(2, 4); j++ {
						k := append(append([]byte{}, base...), byte(j))
						txs = append(txs, s.tx(u, callScript(s.kvH, "put", k, v)))
					}
					o.Count("src:sibling-equal-values")
				case 4: // equal sub-tries under two prefixes
					suffixes := [][]byte{{0x55, 0x01}, {0x55, 0x02}, {0x56, 0x01}}
					for _, p := range []byte{0x71, 0x72} {
						for _, sf := range suffixes[:r.Range(2, 3)] {
							txs = append(txs, s.tx(u, callScript(s.kvH, "put", append([]byte{p}, sf...), []byte{sf[1]})))
						}
					}
					o.Count("src:equal-subtries")
				case 5:
					txs = append(txs, s.tx(u, callScript(s.kvH, "fill", r.Range(2, 6), []byte{byte(0xa0 + r.Intn(3))})))
					o.Count("src:fill")
				case 6:
					txs = append(txs, s.tx(u, callScript(s.kvH, "del", []byte{byte(0x10 * r.Range(1, 3)), byte(r.Intn(3)), byte(r.Intn(3))})))
					o.Count("src:del")
				case 7: // a key that is a proper prefix of other keys: a branch with a value child
					base := []byte{0x3c, byte(r.Intn(2))}
					txs = append(txs, s.tx(u, callScript(s.kvH, "put", base, []byte{byte(r.Range(1, 2))})))
					txs = append(txs, s.tx(u, callScript(s.kvH, "put", append(append([]byte{}, base...), byte(r.Intn(2))), []byte{byte(r.Range(1, 2))})))
					o.Count("src:prefix-key")
				default:
					txs = append(txs, s.tx(u, callScript(s.kvH, "put", r.Bytes(r.Range(1, 4)), r.Bytes(r.Range(1, 5)))))
					o.Count("src:put-random")
				}
			}
		}
		s.e.AddNewBlock(tb, txs...)
	}
	for _, n := range node.BC.GetNatives() {
		s.ids = append(s.ids, n.ID)
	}
	s.ids = append(s.ids, 1)
	return s
}

// dumpStorage returns "id/key" -> value for all contracts' storage of bc.
func dumpStorage(bc *core.Blockchain, ids []int32) map[string]string {
	res := map[string]string{}
	for _, id := range ids {
		bc.SeekStorage(id, nil, func(k, v []byte) bool {
			key := make([]byte, 4, 4+len(k))
			binary.LittleEndian.PutUint32(key, uint32(id))
			res[string(append(key, k...))] = string(v)
			return true
		})
	}
	return res
}

func diffMaps(a, b map[string]string) string {
	var d []string
	for k, v := range a {
		if w, ok := b[k]; !ok {
			d = append(d, fmt.Sprintf("missing %x", k))
		} else if w != v {
			d = append(d, fmt.Sprintf("differs %x: %x != %x", k, v, w))
		}
	}
	for k := range b {
		if _, ok := a[k]; !ok {
			d = append(d, fmt.Sprintf("extra %x", k))
		}
	}
	sort.Strings(d)
	if len(d) > 4 {
		d = append(d[:4], fmt.Sprintf("… %d more", len(d)-4))
	}
	return strings.Join(d, "; ")
}

type kase struct {
	k        int
	o        *hx.Out
	r        *prng.R
	src      *source
	sync     *snode
	crashy   bool // random extra flushes, crash replays at the end
	anyOrder bool // storage items were delivered in an order the real fetcher never uses (no resume by last key)
	mod      *statesync.Module
	P        uint32
	root     util.Uint256
	nodes    map[util.Uint256][]byte
	id       map[util.Uint256]int
	hashes   []util.Uint256 // by id
	trace    []string
	failed   bool
	storage  bool
	info     map[util.Uint256]ninfo
	// nodes accepted with an inlined child (the child's subtree is what the module may then never ask for)
	inlinedOK []inlined
	kvs      []storage.KeyValue // the state at P in the order of the source's trie traversal
	kvID     map[string]int
	onReinit func() bool
}

func (c *kase) fail(key, format string, a ...any) {
	c.failed = true
	c.o.Sample(fmt.Sprintf("[%s] P=%d nodes=%d: %s", key, c.P, len(c.hashes), strings.Join(c.trace, " ")))
	c.o.Fail(key, c.k, "%s; steps: %s", fmt.Sprintf(format, a...), strings.Join(c.trace, " "))
}

func (c *kase) stage() string {
	m := c.mod
	switch {
	case m.NeedHeaders():
		return "headers"
	case m.NeedStorageData():
		return "mpt"
	case m.NeedBlocks():
		return "blocks"
	case !m.IsActive():
		return "inactive"
	}
	return "other"
}

func (c *kase) pool() (string, []util.Uint256) {
	if !c.mod.NeedStorageData() || c.storage {
		return "-", nil
	}
	hs := c.mod.GetUnknownMPTNodesBatch(1 << 30)
	ids := make([]int, 0, len(hs))
	for _, h := range hs {
		if i, ok := c.id[h]; ok {
			ids = append(ids, i)
		} else {
			ids = append(ids, -1)
		}
	}
	sort.Ints(ids)
	sum := 0
	for _, i := range ids {
		sum = (sum*31 + i + 1) % 1000000007
	}
	return fmt.Sprintf("%d/%d", len(ids), sum), hs
}

func (c *kase) line(op, res string) {
	p, _ := c.pool()
	obs := fmt.Sprintf("stage=%s pool=%s", c.stage(), p)
	if res != "" {
		obs = res + " " + obs
	}
	c.o.Line(op, obs)
	c.trace = append(c.trace, op+";")
	if c.crashy && c.sync != nil && c.sync.running && c.r.Chance(1, 3) {
		_ = c.sync.Flush() // one more point at which a crash leaves a prefix of the work
	}
}

func (c *kase) mptRoot() state.MPTRoot { return state.MPTRoot{Index: c.P, Root: c.root} }

func safeErr(f func() error) (res string, err error) {
	defer func() {
		if r := recover(); r != nil {
			res, err = "panic", fmt.Errorf("panic: %v", r)
		}
	}()
	if err = f(); err != nil {
		return "err", err
	}
	return "ok", nil
}

// newModule re-creates the module from what is in the DB (as a restarted node does).
func (c *kase) newModule() (string, error) {
	c.mod = c.sync.BC.GetStateSyncModule()
	return safeErr(func() error { return c.mod.Init(c.src.bc().BlockHeight()) })
}

func (c *kase) restartNode() error {
	return c.sync.Restart()
}

func runCase(k int, f *hx.Flags, o *hx.Out) {
	r := prng.ForCase(f.Seed, k)
	tb := chainx.NewTB()
	defer tb.Done()
	interval := r.Range(2, 4)
	mtb := r.Range(2, 6)
	height := 2*interval + r.Range(2, 14)
	c := &kase{k: k, o: o, r: r}
	plain := r.Chance(1, 3)
	restartsInMPT := r.Chance(1, 2)
	restartEvery := 6
	storageMode := k >= 5 && r.Chance(1, 4)
	if storageMode {
		o.Count("profile:storage-items-mode")
	}
	observe := r.Chance(1, 2)        // flush and read the reference counters / temporary storage after every delivery
	if k == 3 || k == 4 {
		// corpus (regressions of panic-on-empty-node, mpt-incomplete-inlined-child): k=3 the single byte 04 (an
		// EmptyNode) as an MPT node; k=4 a requested node with an inlined child; both must be refused with an error
		storageMode, plain, restartsInMPT = false, false, false
		o.Count("corpus")
	}
	if k < 3 {
		// corpus: the repro of the fixed restart panic (0dd24d5): equal values under sibling keys / equal
		// sub-tries, the module re-created from the DB after every batch
		plain, restartsInMPT, restartEvery = false, true, 1
		o.Count("corpus")
	}
	if plain {
		o.Count("profile:plain-values")
	} else {
		o.Count("profile:equal-values")
	}
	if err := chainx.Try(func() { c.src = buildSource(r, tb, interval, mtb, height, plain, o) }); err != nil {
		o.Line("build-failed", "build-failed")
		o.Fail("harness-source-build", k, "%v", err)
		return
	}
	defer c.src.node.Stop()
	src := c.src.bc()
	// log.Fatal inside the node (a failed state jump) must become an observation, not os.Exit
	syncNode := newSnode(protoCfg(c.src.net, interval, mtb, true, storageMode))
	if err := syncNode.start(); err != nil {
		panic(err)
	}
	c.sync = syncNode
	c.crashy = k < 5 || r.Chance(1, 3)
	if c.crashy {
		o.Count("profile:crash-replays")
	}
	defer func() { c.sync.Stop() }()

	// the sync point the module will choose
	top := src.BlockHeight()
	c.P = (top / uint32(interval)) * uint32(interval)
	hdr, err := src.GetHeader(src.GetHeaderHash(c.P + 1))
	if err != nil {
		// the chain must be at least P+1 high
		c.src.e.AddNewBlock(tb)
		top = src.BlockHeight()
		hdr, _ = src.GetHeader(src.GetHeaderHash(c.P + 1))
	}
	c.root = hdr.PrevStateRoot
	if k < 5 || c.r.Chance(1, 3) {
		o.Count("profile:concurrent-producers")
		if !c.concurrentProducers(protoCfg(c.src.net, interval, mtb, false), top) {
			return
		}
	}
	// node table of the source trie at P
	c.nodes = map[util.Uint256][]byte{}
	info := map[util.Uint256]ninfo{}
	c.info = info
	if err := src.GetStateSyncModule().Traverse(c.root, func(n mpt.Node, nb []byte) bool {
		h := n.Hash()
		if _, ok := c.nodes[h]; !ok {
			c.nodes[h] = bytes.Clone(nb)
			kind := "B"
			switch n.(type) {
			case *mpt.LeafNode:
				kind = "L"
			case *mpt.ExtensionNode:
				kind = "E"
			}
			info[h] = ninfo{kind: kind, kids: mpt.GetChildrenPaths([]byte{}, n)}
		}
		return false
	}); err != nil {
		panic(err)
	}
	for h := range c.nodes {
		c.hashes = append(c.hashes, h)
	}
	sort.Slice(c.hashes, func(i, j int) bool { return bytes.Compare(c.hashes[i][:], c.hashes[j][:]) < 0 })
	c.id = map[util.Uint256]int{}
	for i, h := range c.hashes {
		c.id[h] = i
	}
	mtbAtP := uint32(mtb)
	b0 := uint32(0)
	if c.P > mtbAtP {
		b0 = c.P - mtbAtP
	}
	// b0 is read off the source (what a synced node has); the driver checks it against the model's windowBase(P, mtb)
	// (likewise P: the driver checks it against the model's syncPointOf(top, interval))
	o.Line(fmt.Sprintf("cfg %d %d %d %d %d %d %d", c.P, b0, c.id[c.root], len(c.hashes), mtbAtP, top, interval), "ok")
	for i, h := range c.hashes {
		var parts []string
		inf := info[h]
		type kid struct {
			id   int
			path []byte
		}
		var ks []kid
		for ch, paths := range inf.kids {
			for _, p := range paths {
				ks = append(ks, kid{c.id[ch], p})
			}
		}
		// traversal order of Billet.traverse: the value child (no nibble) first, then by nibble
		sort.Slice(ks, func(a, b int) bool {
			if c := bytes.Compare(ks[a].path, ks[b].path); c != 0 {
				return c < 0
			}
			return ks[a].id < ks[b].id
		})
		for _, kd := range ks {
			parts = append(parts, fmt.Sprintf("%d:%s", kd.id, hx.Hex(kd.path)))
		}
		o.Line(strings.TrimSpace(fmt.Sprintf("node %d %s %s", i, inf.kind, strings.Join(parts, " "))), "ok")
	}
	o.Add("trie:nodes", len(c.hashes))
	dupPos := 0
	for _, inf := range info {
		seen := map[util.Uint256]int{}
		for ch, paths := range inf.kids {
			seen[ch] += len(paths)
		}
		for _, n := range seen {
			if n > 1 {
				dupPos++
			}
		}
	}
	if dupPos > 0 {
		o.Count("trie:has-equal-siblings")
	}

	if k < 5 || c.r.Chance(1, 2) {
		o.Count("profile:billet-direct")
		c.billetDirect()
	}
	c.storage = storageMode
	if storageMode {
		c.kvID = map[string]int{}
		src.GetStateModule().SeekStates(c.root, nil, func(k, v []byte) bool {
			c.kvID[string(k)] = len(c.kvs)
			c.kvs = append(c.kvs, storage.KeyValue{Key: bytes.Clone(k), Value: bytes.Clone(v)})
			return true
		})
		o.Line(fmt.Sprintf("smode %d", len(c.kvs)), "ok")
	}
	// ---- init
	res, err := c.newModule()
	c.line("init", res)
	if err != nil {
		c.fail("valid-data-error", "Init: %v", err)
		return
	}
	if c.mod.GetStateSyncPoint() != c.P {
		c.fail("harness-sync-point", "module chose %d, harness expected %d", c.mod.GetStateSyncPoint(), c.P)
		return
	}
	reinit := func(where string) bool {
		var op string
		if c.r.Chance(1, 2) {
			op = "remod"
			o.Count("restart:module@" + where)
		} else {
			op = "restart"
			o.Count("restart:node@" + where)
			if err := c.restartNode(); err != nil {
				c.line(op, "err")
				c.fail("valid-data-error", "node restart failed during %s: %v", where, err)
				return false
			}
		}
		res, err := c.newModule()
		c.line(op, res)
		if err != nil {
			c.fail(map[bool]string{true: "restart-panic", false: "valid-data-error"}[res == "panic"], "re-creating the module from the DB during %s: %v", where, err)
			return false
		}
		if c.onReinit != nil {
			return c.onReinit()
		}
		return true
	}

	// ---- headers
	c.sync.rec.setPhase("headers")
	hh := uint32(0)
	for c.mod.NeedHeaders() {
		from := hh + 1
		if c.r.Chance(1, 5) && hh > 0 {
			from = hh - uint32(c.r.Intn(int(min(hh, 3))))
		}
		to := min(top, from+uint32(c.r.Range(0, 6)))
		stopAtP := false
		if from <= c.P && to >= c.P && c.r.Chance(1, 2) {
			to, stopAtP = c.P, true // header height == sync point exactly: headers are NOT yet in sync
		}
		gap := c.r.Chance(1, 12) && from+2 < top
		if gap {
			from += 2
			to = min(top, max(to, from))
		}
		var hs []*block.Header
		for i := from; i <= to; i++ {
			h, err := src.GetHeader(src.GetHeaderHash(i))
			if err != nil {
				panic(err)
			}
			hs = append(hs, h)
		}
		// junk from a dishonest peer: one header of the batch altered (it no longer verifies)
		tampered := ""
		var tk uint32
		if len(hs) > 0 && c.r.Chance(1, 6) {
			j := c.r.Intn(len(hs))
			hs[j] = tamperHeader(hs[j])
			tk = from + uint32(j)
			tampered = fmt.Sprintf(" t%d", tk)
			o.Count("headers:tampered")
		}
		res, err := safeErr(func() error { return c.mod.AddHeaders(hs...) })
		c.line(fmt.Sprintf("headers %d %d%s", from, to, tampered), res)
		if tampered != "" {
			if err == nil && tk > hh && to > hh && from <= hh+1 {
				c.fail("tampered-header-accepted", "AddHeaders(%d..%d%s) at header height %d was accepted", from, to, tampered, hh)
				return
			}
			if err == nil {
				o.Count("headers:tampered-skipped")
				if to > hh && from <= hh+1 {
					hh = to
				}
			}
			if c.mod.HeaderHeight() != hh {
				c.fail("tampered-header-accepted", "AddHeaders(%d..%d%s): header height %d, expected %d", from, to, tampered, c.mod.HeaderHeight(), hh)
				return
			}
			continue
		}
		if err != nil && !gap {
			c.fail("valid-data-error", "AddHeaders(%d..%d): %v", from, to, err)
			return
		}
		if err == nil && to > hh && from <= hh+1 {
			hh = to
		}
		if gap {
			o.Count("headers:gap")
		}
		if stopAtP && !gap {
			o.Count("headers:stopped-at-P")
		}
		if c.mod.NeedHeaders() && (c.r.Chance(1, 8) || (stopAtP && !gap && c.r.Chance(2, 3))) {
			if !reinit("headers") {
				return
			}
		}
	}

	// ---- raw contract storage items (ContractStorageBased mode)
	c.sync.rec.setPhase("data")
	if storageMode {
		sroot := func() bool {
			res, err := safeErr(func() error { return c.mod.InitContractStorageSync(c.mptRoot()) })
			c.line("sroot", res)
			if err != nil {
				c.fail("valid-data-error", "InitContractStorageSync: %v", err)
				return false
			}
			return true
		}
		if !sroot() {
			return
		}
		c.onReinit = func() bool {
			if c.mod.NeedStorageData() {
				return sroot()
			}
			return true
		}
		ordered := c.r.Chance(1, 2)
		c.anyOrder = !ordered
		if ordered {
			o.Count("storage:ordered-with-resume")
		} else {
			o.Count("storage:any-order")
		}
		good := make([]bool, len(c.kvs))
		lskStr := func() string {
			l := c.mod.GetLastStoredKey()
			if len(l) == 0 {
				return "lsk=-"
			}
			if i, ok := c.kvID[string(l)]; ok {
				return fmt.Sprintf("lsk=%d", i)
			}
			return "lsk=?"
		}
		next := 0
		for round := 0; c.mod.NeedStorageData(); round++ {
			if round > 50*len(c.kvs)+50 {
				c.fail("sync-incomplete", "module still needs storage items after %d rounds (%d items)", round, len(c.kvs))
				return
			}
			var batch []storage.KeyValue
			var desc []string
			n := c.r.Range(1, 5)
			if ordered {
				// what the NeoFS state fetcher does: stream the items in order, after a (re)start skip up to the last stored key
				for i := 0; i < n && next < len(c.kvs); i++ {
					batch = append(batch, c.kvs[next])
					desc = append(desc, fmt.Sprint(next))
					good[next] = true
					next++
				}
			} else {
				for i := 0; i < n; i++ {
					var cand []int
					for j, g := range good {
						if !g {
							cand = append(cand, j)
						}
					}
					j := c.r.Intn(len(c.kvs))
					if len(cand) > 0 && c.r.Chance(2, 3) {
						j = cand[c.r.Intn(len(cand))]
					}
					if c.r.Chance(1, 10) { // a wrong value for a key of the state; the right one must repair it later
						batch = append(batch, storage.KeyValue{Key: c.kvs[j].Key, Value: append([]byte{0xee}, c.kvs[j].Value...)})
						desc = append(desc, fmt.Sprintf("w%d", j))
						good[j] = false
						o.Count("storage:wrong-value")
					} else {
						batch = append(batch, c.kvs[j])
						desc = append(desc, fmt.Sprint(j))
						good[j] = true
					}
				}
			}
			if len(batch) == 0 {
				c.fail("sync-incomplete", "all %d items were streamed in order but the module still needs storage data", len(c.kvs))
				return
			}
			res, err := safeErr(func() error { return c.mod.AddContractStorageItems(batch) })
			c.line("kvs "+strings.Join(desc, " "), res+" "+lskStr())
			if err != nil {
				c.fail(map[bool]string{true: "panic", false: "valid-data-error"}[res == "panic"], "AddContractStorageItems(%s): %v", strings.Join(desc, " "), err)
				return
			}
			o.Count("storage:batch")
			if c.mod.NeedStorageData() && c.r.Chance(1, 5) {
				if !reinit("storage") {
					return
				}
				if ordered {
					// resume as the fetcher does
					next = 0
					if l := c.mod.GetLastStoredKey(); len(l) > 0 {
						i, ok := c.kvID[string(l)]
						if !ok {
							c.fail("valid-data-error", "last stored key %x is not a key of the state", l)
							return
						}
						next = i + 1
					}
				}
			}
		}
		c.onReinit = nil
	}

	// ---- MPT nodes
	delivered := map[util.Uint256]bool{}
	midcalls := 0
	foreign := func() []byte {
		// a well-formed leaf that is not part of the trie
		return bytes.Clone(mpt.NewLeafNode(append([]byte{0xfe, 0xed}, c.r.Bytes(3)...)).Bytes())
	}
	for round := 0; !storageMode && c.mod.NeedStorageData(); round++ {
		if round > 20*len(c.hashes)+50 {
			c.fail("sync-incomplete", "module still needs MPT data after %d rounds (%d nodes in the trie)", round, len(c.hashes))
			return
		}
		_, need := c.pool()
		sort.Slice(need, func(i, j int) bool { return bytes.Compare(need[i][:], need[j][:]) < 0 })
		for _, h := range need {
			if _, ok := c.nodes[h]; !ok {
				c.fail("requests-unknown-node", "module requests %s which is not in the source trie", h.StringLE())
				return
			}
		}
		var batch [][]byte
		var desc []string
		bad := false
		if len(need) == 0 {
			// the pool is empty but the stage did not change (the batch that emptied it ended with an error):
			// the module asks for nothing; any further call completes the stage
			o.Count("mpt:empty-pool-but-still-needs-data")
			// (regression of mpt-stalled-empty-pool, fixed by b477a41: the pool is looked at after a failing batch too)
			// the module requests nothing (server.go:994-995, 1191-1194 send no request for an empty batch), honest
			// peers answer requests only: nothing but a restart or a stray message would end the MPT stage
			c.o.Fail("mpt-stalled-empty-pool", c.k, "all nodes of the trie are restored and the pool is empty, but the module still is in the MPT stage and asks for nothing (the batch that emptied the pool ended with an error); steps: %s", strings.Join(c.trace, " "))
			res, err := safeErr(func() error { return c.mod.AddMPTNodes(nil) })
			c.line("deliver", res)
			if err != nil {
				c.fail("valid-data-error", "AddMPTNodes(empty) with an empty pool: %v", err)
				return
			}
			continue
		}
		allRequestedValid := true
		var inlinedNow []inlined
		nItems := c.r.Range(1, 6)
		wts := []int{12, 3, 3, 1, 1, 2, 1, 1}
		for i := 0; i < nItems; i++ {
			cls := c.r.Weighted(wts)
			if round == 0 && i == 0 && k == 3 {
				cls = 6
			}
			if k == 4 && i == 0 && round < 40 {
				cls = 7
			}
			switch cls {
			case 0: // a requested node
				h := need[c.r.Intn(len(need))]
				batch = append(batch, c.nodes[h])
				desc = append(desc, fmt.Sprint(c.id[h]))
				delivered[h] = true
				o.Count("deliver:requested")
			case 1: // a node already delivered
				if len(delivered) == 0 {
					continue
				}
				var ds []util.Uint256
				for h := range delivered {
					ds = append(ds, h)
				}
				sort.Slice(ds, func(i, j int) bool { return bytes.Compare(ds[i][:], ds[j][:]) < 0 })
				h := ds[c.r.Intn(len(ds))]
				batch = append(batch, c.nodes[h])
				desc = append(desc, fmt.Sprint(c.id[h]))
				o.Count("deliver:duplicate")
			case 2: // any node of the trie, requested or not
				h := c.hashes[c.r.Intn(len(c.hashes))]
				batch = append(batch, c.nodes[h])
				desc = append(desc, fmt.Sprint(c.id[h]))
				o.Count("deliver:any-trie-node")
			case 3:
				batch = append(batch, foreign())
				desc = append(desc, "f")
				o.Count("deliver:foreign")
			case 4:
				batch = append(batch, []byte{0x77, 0x01})
				desc = append(desc, "x")
				bad = true
				o.Count("deliver:garbage")
			case 5: // a serialised HashNode carrying a requested (or any) hash: decodes, Hash() is the hash it carries
				h := c.hashes[c.r.Intn(len(c.hashes))]
				if c.r.Chance(2, 3) {
					h = need[c.r.Intn(len(need))]
					o.Count("deliver:hashnode-of-requested")
				} else {
					o.Count("deliver:hashnode-of-any")
				}
				batch = append(batch, append([]byte{byte(mpt.HashT)}, h[:]...))
				desc = append(desc, fmt.Sprintf("hn%d", c.id[h]))
				bad = true // refused with an error, requested hash or not (5972fdd)
			case 6: // the serialisation of an EmptyNode
				batch = append(batch, []byte{byte(mpt.EmptyT)})
				desc = append(desc, "e")
				bad = true
				o.Count("deliver:empty-node")
			default: // a requested Branch/Extension node with one child inlined instead of referenced by hash
				var cands []util.Uint256
				for _, h := range need {
					if c.info[h].kind != "L" {
						cands = append(cands, h)
					}
				}
				if len(cands) == 0 {
					continue
				}
				h := cands[c.r.Intn(len(cands))]
				nb, rel, ok := c.inlineChild(h)
				if !ok {
					continue
				}
				batch = append(batch, nb)
				bad = true // refused: not the canonical form of the node (09bd334)
				inlinedNow = append(inlinedNow, inlined{h, rel})
				desc = append(desc, fmt.Sprintf("i%d.%s", c.id[h], hx.Hex(rel)))
				o.Count("deliver:inlined-child")
			}
		}
		if len(batch) == 0 {
			continue
		}
		// a flush of the write cache in the middle of the call: right when the module reads a node that is on
		// disk already (a child that was restored at another position before)
		var flushed chan struct{}
		if c.crashy && midcalls < 3 && c.r.Chance(1, 2) {
			c.sync.rec.setHook(func(key []byte, found bool) {
				if !found || len(key) == 0 || key[0] != byte(storage.DataMPT) || flushed != nil {
					return
				}
				flushed = make(chan struct{})
				c.sync.rec.setPhase("data-midcall")
				go func() {
					_ = c.sync.Flush()
					close(flushed)
				}()
				time.Sleep(3 * time.Millisecond) // the flush is waiting for the write cache's lock by now
			})
		}
		res, err := safeErr(func() error { return c.mod.AddMPTNodes(batch) })
		c.sync.rec.setHook(nil)
		if flushed != nil {
			<-flushed
			midcalls++
			c.sync.rec.setPhase("data")
			o.Count("crashpoint:flush-inside-AddMPTNodes")
		}
		if observe {
			rc, ts, oerr := c.observeStore()
			if oerr != nil {
				c.fail("harness-observe", "%v", oerr)
				return
			}
			c.line("deliver+ "+strings.Join(desc, " "), fmt.Sprintf("%s rc=%d ts=%s", res, rc, ts))
		} else {
			c.line("deliver "+strings.Join(desc, " "), res)
		}
		if res == "panic" {
			key := "panic"
			if strings.Contains(err.Error(), "hash of an EmptyNode") {
				key = "panic-on-empty-node"
			}
			c.fail(key, "AddMPTNodes(%s): %v", strings.Join(desc, " "), err)
			return
		}
		if err != nil && !bad && allRequestedValid {
			c.fail("valid-data-error", "AddMPTNodes(%s): %v", strings.Join(desc, " "), err)
			return
		}
		c.inlinedOK = append(c.inlinedOK, inlinedNow...) // (an item before a failing one of the batch was processed too)
		if c.mod.NeedStorageData() && restartsInMPT && c.r.Chance(1, restartEvery) {
			if !reinit("mpt") {
				return
			}
		}
	}
	if !storageMode {
		if !c.checkStoreComplete() {
			return
		}
	}
	if c.r.Chance(1, 3) {
		if !reinit("after-mpt") {
			return
		}
	}

	// ---- blocks
	c.sync.rec.setPhase("blocks")
	// A transaction that is on no chain at all: whatever carries it must be rejected and leave nothing behind.
	users0 := c.src.net.Single(1)
	var foreignTxs []*transaction.Transaction
	mkForeign := func() *transaction.Transaction {
		t := c.src.tx(users0, callScript(c.src.kvH, "put", []byte{0xde, 0xad, byte(len(foreignTxs))}, []byte{1}))
		foreignTxs = append(foreignTxs, t)
		return t
	}
	firstWindow := uint32(0)
	if c.mod.NeedBlocks() {
		firstWindow = c.mod.BlockHeight() + 1
	}
	// tamper returns the block's genuine header with another transaction list, the kind of change and the
	// list as positions in the real list (f<k> = a transaction that is on no chain).
	tamper := func(b *block.Block) (*block.Block, string, string) {
		txs := b.Transactions
		var kinds []string
		if len(txs) > 0 {
			kinds = append(kinds, "strip", "drop1", "dup", "dup-last")
		}
		if len(txs) > 1 {
			kinds = append(kinds, "reorder")
		}
		kinds = append(kinds, "foreign-add", "foreign-only")
		kind := kinds[c.r.Intn(len(kinds))]
		if k < 3 && len(txs) > 0 {
			kind = "dup-last" // corpus: the repro of the defect fixed by 6817c0b ([a,b,c,c] under the header of [a,b,c])
		}
		ids := make([]int, len(txs))
		for i := range ids {
			ids[i] = i
		}
		switch kind {
		case "strip":
			ids = nil
		case "drop1":
			i := c.r.Intn(len(ids))
			ids = append(ids[:i:i], ids[i+1:]...)
		case "dup":
			j := c.r.Intn(len(txs))
			if j == len(txs)-1 {
				kind = "dup-last"
			}
			ids = append(ids, j)
		case "dup-last":
			ids = append(ids, len(txs)-1)
		case "reorder":
			i := c.r.Intn(len(ids) - 1)
			ids[i], ids[i+1] = ids[i+1], ids[i]
		case "foreign-add":
			ids = append(ids, -1)
		case "foreign-only":
			ids = []int{-1}
		}
		var nt []*transaction.Transaction
		var desc []string
		for _, i := range ids {
			if i < 0 {
				desc = append(desc, fmt.Sprintf("f%d", len(foreignTxs)))
				nt = append(nt, mkForeign())
			} else {
				desc = append(desc, fmt.Sprint(i))
				nt = append(nt, txs[i])
			}
		}
		return &block.Block{Header: b.Header, Transactions: nt}, kind, strings.TrimSpace(fmt.Sprintf("%d %s", len(txs), strings.Join(desc, " ")))
	}
	for c.mod.NeedBlocks() {
		bh := c.mod.BlockHeight()
		idx := bh + 1
		wrong := false
		switch c.r.Intn(8) {
		case 0:
			if bh > 0 {
				idx = bh
				wrong = true
			}
		case 1:
			idx = bh + 2
			wrong = idx <= c.P
			if !wrong {
				idx = bh + 1
			}
		}
		b, err := src.GetBlock(src.GetHeaderHash(idx))
		if err != nil {
			panic(err)
		}
		// wrong data first: the genuine header with a transaction list that is not the block's
		if c.r.Chance(1, 2) || k < 3 {
			tb, kind, body := tamper(b)
			res, err := safeErr(func() error { return c.mod.AddBlock(tb) })
			var bhs string
			if c.mod.NeedBlocks() {
				bhs = fmt.Sprintf(" bh=%d", c.mod.BlockHeight())
			}
			c.line(fmt.Sprintf("badblock %d %s", idx, body), res+bhs)
			o.Count("block:tampered-" + kind)
			if kind == "dup-last" && len(b.Transactions) >= 3 && len(b.Transactions)%2 == 1 {
				o.Count("block:dup-last-with-equal-merkle-root")
			}
			if res == "panic" {
				c.fail("panic", "AddBlock(tampered %s %d): %v", kind, idx, err)
				return
			}
			if err == nil {
				c.fail("tampered-block-accepted-"+kind, "AddBlock accepted block %d with the genuine header and a %s transaction list (%d txs instead of %d) at module height %d",
					idx, kind, len(tb.Transactions), len(b.Transactions), bh)
				return
			}
			if !c.mod.NeedBlocks() {
				break
			}
		}
		if c.r.Chance(1, 5) {
			// the block's own transactions under a header that is not the chain's header of that index
			fb := tamperBlock(b)
			res, err := safeErr(func() error { return c.mod.AddBlock(fb) })
			var bhs string
			if c.mod.NeedBlocks() {
				bhs = fmt.Sprintf(" bh=%d", c.mod.BlockHeight())
			}
			c.line(fmt.Sprintf("fakeblock %d", idx), res+bhs)
			o.Count("block:foreign-header")
			if res == "panic" {
				c.fail("panic", "AddBlock(foreign header %d): %v", idx, err)
				return
			}
			if err == nil && c.mod.BlockHeight() != bh {
				c.fail("foreign-header-block-accepted", "AddBlock accepted block %d under a header that is not the chain's (module height %d -> %d)", idx, bh, c.mod.BlockHeight())
				return
			}
		}
		res, err := safeErr(func() error { return c.mod.AddBlock(b) })
		var bhs string
		if c.mod.NeedBlocks() {
			bhs = fmt.Sprintf(" bh=%d", c.mod.BlockHeight())
		}
		c.line(fmt.Sprintf("block %d", idx), res+bhs)
		if res == "panic" {
			c.fail("panic", "AddBlock(%d): %v", idx, err)
			return
		}
		if err != nil && !wrong {
			c.fail("valid-data-error", "AddBlock(%d) at module height %d: %v", idx, bh, err)
			return
		}
		if wrong {
			o.Count("block:wrong-index")
		}
		if c.mod.NeedBlocks() && c.r.Chance(1, 8) {
			if !reinit("blocks") {
				return
			}
		}
	}
	if c.stage() != "inactive" {
		c.fail("sync-incomplete", "stage after blocks: %s", c.stage())
		return
	}
	sb := c.sync.BC
	_ = c.sync.Flush()
	c.sync.rec.setPhase("after")
	jumpBatches := c.sync.rec.snapshot()
	if sb.BlockHeight() != c.P {
		c.fail("root-mismatch", "synced node height %d, sync point %d", sb.BlockHeight(), c.P)
		return
	}
	// state at P: root and storage against the source's trie at P
	sr, err := sb.GetStateModule().GetStateRoot(c.P)
	if err != nil || !sr.Root.Equals(c.root) {
		c.fail("root-mismatch", "state root at P=%d: synced %v (err %v), source %s", c.P, sr, err, c.root.StringLE())
		return
	}
	want := map[string]string{}
	src.GetStateModule().SeekStates(c.root, nil, func(k, v []byte) bool {
		want[string(k)] = string(v)
		return true
	})
	if d := diffMaps(want, dumpStorage(sb, c.src.ids)); d != "" {
		c.fail("storage-mismatch-at-P", "contract storage of the synced node at P=%d differs from the source trie: %s", c.P, d)
		return
	}
	o.Add("state:items", len(want))
	// every block of the window is the source's block, with its transactions; rejected data left nothing
	if firstWindow > 0 {
		for i := firstWindow; i <= c.P; i++ {
			want, err := src.GetBlock(src.GetHeaderHash(i))
			if err != nil {
				panic(err)
			}
			got, err := sb.GetBlock(sb.GetHeaderHash(i))
			if err != nil {
				c.fail("block-mismatch", "synced node has no block %d of the window %d..%d: %v (source block has %d txs)", i, firstWindow, c.P, err, len(want.Transactions))
				return
			}
			if !got.Hash().Equals(want.Hash()) || len(got.Transactions) != len(want.Transactions) {
				c.fail("block-mismatch", "block %d: synced %s with %d txs, source %s with %d txs", i, got.Hash().StringLE(), len(got.Transactions), want.Hash().StringLE(), len(want.Transactions))
				return
			}
			for j, tx := range want.Transactions {
				if !got.Transactions[j].Hash().Equals(tx.Hash()) {
					c.fail("block-mismatch", "block %d tx %d differs", i, j)
					return
				}
				gtx, h, err := sb.GetTransaction(tx.Hash())
				if err != nil || h != i || !gtx.Hash().Equals(tx.Hash()) {
					c.fail("block-mismatch", "GetTransaction(%s) of block %d on the synced node: height %d err %v", tx.Hash().StringLE(), i, h, err)
					return
				}
				o.Count("window:tx-checked")
			}
			o.Count("window:block-checked")
		}
		for _, ft := range foreignTxs {
			if _, _, err := sb.GetTransaction(ft.Hash()); err == nil {
				c.fail("rejected-data-left-behind", "transaction %s came only inside a rejected block but is known to the synced node", ft.Hash().StringLE())
				return
			}
		}
	}
	// lockstep after the sync point
	if c.r.Chance(1, 5) {
		if err := c.restartNode(); err != nil {
			c.fail("restart-after-jump", "node restart after the completed state jump failed: %v (genesis hash %s, chain height %d)", err, src.GetHeaderHash(0).StringLE(), top)
			return
		}
		sb = c.sync.BC
		o.Count("restart:node@after-jump")
	}
	for i := c.P + 1; i <= top; i++ {
		b, err := src.GetBlock(src.GetHeaderHash(i))
		if err != nil {
			panic(err)
		}
		if res, err := safeErr(func() error { return sb.AddBlock(b) }); err != nil {
			c.fail("valid-data-error", "AddBlock(%d) after the jump: %s %v", i, res, err)
			return
		}
	}
	a, _ := src.GetStateModule().GetStateRoot(top)
	bsr, err := sb.GetStateModule().GetStateRoot(top)
	if err != nil || !a.Root.Equals(bsr.Root) {
		c.fail("root-mismatch", "state root at tip %d differs (err %v)", top, err)
		return
	}
	if d := diffMaps(dumpStorage(src, c.src.ids), dumpStorage(sb, c.src.ids)); d != "" {
		c.fail("storage-mismatch-at-tip", "contract storage at tip %d: %s", top, d)
		return
	}
	c.o.Line("final", "synced")
	o.Count("case:synced")
	if c.crashy && !c.anyOrder {
		o.Add("crashpoint:batches", len(jumpBatches))
		if !c.crashReplays(jumpBatches, top) {
			return
		}
	}
	o.Sample(fmt.Sprintf("P=%d top=%d nodes=%d: %s", c.P, top, len(c.hashes), strings.Join(c.trace, " ")))
}

// tamperHeader returns the header with one bit of its timestamp flipped (another hash, the witness does
// not fit any more).
func tamperHeader(h *block.Header) *block.Header {
	w := io.NewBufBinWriter()
	h.EncodeBinary(w.BinWriter)
	bs := w.Bytes()
	bs[4+32+32] ^= 0x01 // version, prev hash, merkle root, then the timestamp
	res := &block.Header{StateRootEnabled: h.StateRootEnabled}
	r := io.NewBinReaderFromBuf(bs)
	res.DecodeBinary(r)
	if r.Err != nil {
		panic(r.Err)
	}
	if res.Hash().Equals(h.Hash()) {
		panic("tamperHeader: same hash")
	}
	return res
}

func tamperBlock(b *block.Block) *block.Block {
	return &block.Block{Header: *tamperHeader(&b.Header), Transactions: b.Transactions}
}

func main() {
	f := hx.ParseFlags()
	o := hx.NewOut(f.Out)
	defer o.Close()
	_ = zap.NewNop
	n := f.N(100, 3000)
	for k := 0; k < n; k++ {
		if !f.Want(k) {
			continue
		}
		o.Case(k)
		wd := time.AfterFunc(300*time.Second, func() {
			buf := make([]byte, 1<<20)
			buf = buf[:runtime.Stack(buf, true)]
			_ = os.WriteFile(filepath.Join(f.Out, fmt.Sprintf("hang-%d.txt", k)), buf, 0o644)
			o.Fail("hang", k, "case did not finish within 300 s (goroutine dump in hang-%d.txt)", k)
			o.Close()
			os.Exit(0)
		})
		func() {
			defer wd.Stop()
			defer func() {
				if r := recover(); r != nil {
					o.Line("harness-panic", "harness-panic")
					o.Fail("harness-panic", k, "%v", r)
				}
			}()
			runCase(k, f, o)
		}()
		o.Seen(fmt.Sprint(k))
	}
}
