package main

// Concurrent producers (C20: "blocks arriving from the network and from consensus in any order, duplicated ...
// are applied strictly in index order and each at most once", "for all arrival orders and duplications of blocks
// from concurrent producers"). The queue stream drives ONE writer of a stub chain step by step; its theorems
// (queue_in_order_once, chain_add_atomic) rest on the chain's AddItem being an atomic check-and-apply. Here that
// is tested on the real thing: a replica core.Blockchain is fed the source's blocks by several producers at once
// — a real bqueue.Queue over the chain (as Server.bQueue), and goroutines calling Blockchain.AddBlock directly
// (consensus' processBlock, RPC submitblock) with the same and the adjacent blocks, released together — and is
// compared with the source, which got every block once, sequentially: per index exactly one successful AddBlock
// among the direct callers at most, the same state root at every height, the same contract storage at the tip.

import (
	"fmt"
	"sync"
	"sync/atomic"
	"time"

	"github.com/nspcc-dev/neo-go/pkg/config"
	"github.com/nspcc-dev/neo-go/pkg/core"
	"github.com/nspcc-dev/neo-go/pkg/core/block"
	"github.com/nspcc-dev/neo-go/pkg/network/bqueue"
	"go.uber.org/zap"

	"verif/harness/internal/chainx"
)

type chainAdapter struct{ bc *core.Blockchain }

func (c chainAdapter) AddItem(b *block.Block) error     { return c.bc.AddBlock(b) }
func (c chainAdapter) AddItems(b ...*block.Block) error { panic("not used") }
func (c chainAdapter) Height() uint32                   { return c.bc.BlockHeight() }

func (c *kase) concurrentProducers(cfg config.Blockchain, top uint32) bool {
	o := c.o
	src := c.src.bc()
	// blocks that survive a second verification (no transactions) are the ones a duplicated application can
	// get through with; transaction-carrying ones too when transactions are not re-verified
	if c.r.Chance(1, 2) {
		cfg.VerifyTransactions = false
		o.Count("producers:verify-transactions-off")
	}
	node, err := chainx.StartNode(cfg, chainx.NewBackend(chainx.Memory))
	if err != nil {
		c.fail("harness-producers", "%v", err)
		return false
	}
	defer node.Stop()
	bc := node.BC
	blocks := make([]*block.Block, top+1)
	for i := uint32(1); i <= top; i++ {
		b, err := src.GetBlock(src.GetHeaderHash(i))
		if err != nil {
			panic(err)
		}
		blocks[i] = b
	}
	q := bqueue.New[*block.Block](chainAdapter{bc}, zap.NewNop(), nil, 8, nil, bqueue.NonBlocking)
	go q.Run()
	defer q.Discard()
	direct := 2 + c.r.Intn(3)
	okCount := make([]int32, top+2)
	for h := uint32(1); h <= top; h++ {
		var wg sync.WaitGroup
		start := make(chan struct{})
		offer := func(i uint32) {
			defer wg.Done()
			<-start
			if res, err := safeErr(func() error { return bc.AddBlock(blocks[i]) }); err == nil {
				atomic.AddInt32(&okCount[i], 1)
			} else if res == "panic" {
				atomic.AddInt32(&okCount[0], 1)
			}
		}
		for g := 0; g < direct; g++ {
			wg.Add(1)
			go offer(h)
		}
		if h < top && c.r.Chance(1, 2) {
			wg.Add(1)
			go offer(h + 1) // the adjacent block, usually too early
			o.Count("producers:adjacent-offered")
		}
		wg.Add(1)
		go func() { // the network side: the queue gets the block (and the next one) as well
			defer wg.Done()
			<-start
			_ = q.Put(blocks[h])
			if h < top {
				_ = q.Put(blocks[h+1])
			}
		}()
		close(start)
		wg.Wait()
		// let the queue finish what it holds for this height
		for t := 0; bc.BlockHeight() < h && t < 2000; t++ {
			time.Sleep(time.Millisecond)
		}
		if bc.BlockHeight() < h {
			sr, _ := bc.GetStateModule().GetStateRoot(bc.BlockHeight())
			want, _ := src.GetStateModule().GetStateRoot(bc.BlockHeight())
			if sr != nil && want != nil && !sr.Root.Equals(want.Root) {
				c.fail("producers-state-diverged", "replica fed by %d direct callers + a queue is stuck at height %d with state root %s, the source has %s there (a block was applied twice?)",
					direct, bc.BlockHeight(), sr.Root.StringLE(), want.Root.StringLE())
				return false
			}
			c.fail("producers-stuck", "replica fed by %d direct callers + a queue does not get beyond height %d (block %d offered by all of them)", direct, bc.BlockHeight(), h)
			return false
		}
		o.Count("producers:height-reached")
	}
	if okCount[0] > 0 {
		c.fail("panic", "Blockchain.AddBlock panicked under concurrent producers")
		return false
	}
	for i := uint32(1); i <= top; i++ {
		if okCount[i] > 1 {
			c.fail("block-applied-twice", "block %d: %d concurrent Blockchain.AddBlock calls returned success (%d direct callers + a queue)", i, okCount[i], direct)
			return false
		}
		a, _ := src.GetStateModule().GetStateRoot(i)
		b, err := bc.GetStateModule().GetStateRoot(i)
		if err != nil || a == nil || !a.Root.Equals(b.Root) {
			c.fail("producers-state-diverged", "state root at height %d of the replica fed by concurrent producers differs from the source's (err %v)", i, err)
			return false
		}
	}
	if d := diffMaps(dumpStorage(src, c.src.ids), dumpStorage(bc, c.src.ids)); d != "" {
		c.fail("producers-state-diverged", "contract storage at tip %d: %s", top, d)
		return false
	}
	o.Count("producers:converged")
	_ = fmt.Sprint
	return true
}
