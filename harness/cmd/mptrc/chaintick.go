package main

// Chain level, deterministic node loop ("gctick"): a real core.Blockchain WITHOUT the goroutine of
// Blockchain.Run. The harness plays the persist timer itself, step by step as Run does it
// (blockchain.go:1373-1385): oldPersisted := persistedHeight; persist() (hook VerifPersist); then —
// possibly after more blocks have arrived — tryRunGC(oldPersisted), reached through go:linkname.
// The Lean driver is NOT told the collection index: it computes it with the model of tryRunGC from
// its own persisted heights, the configuration and MaxTraceableBlocks, applies the collection to
// its lower layer and must reproduce the node's decision (gc=<index> / gc=-) and the whole merged
// node store after every tick. MaxTraceableBlocks is lowered by committee transactions
// (Policy.setMaxTraceableBlocks) in some blocks; with the P2P state-exchange extensions the
// state-sync point lowers the target.

import (
	"fmt"
	"time"
	_ "unsafe" // go:linkname

	"github.com/nspcc-dev/neo-go/pkg/config"
	"github.com/nspcc-dev/neo-go/pkg/core"
	"github.com/nspcc-dev/neo-go/pkg/core/native/nativenames"
	"github.com/nspcc-dev/neo-go/pkg/core/stateroot"
	"github.com/nspcc-dev/neo-go/pkg/core/storage"
	"github.com/nspcc-dev/neo-go/pkg/core/transaction"
	"github.com/nspcc-dev/neo-go/pkg/io"
	"github.com/nspcc-dev/neo-go/pkg/neotest"
	"github.com/nspcc-dev/neo-go/pkg/neotest/chain"
	"github.com/nspcc-dev/neo-go/pkg/smartcontract/callflag"
	"github.com/nspcc-dev/neo-go/pkg/vm/emit"
	"go.uber.org/zap"
	"go.uber.org/zap/zaptest/observer"

	"verif/harness/internal/hx"
	"verif/harness/internal/prng"
)

//go:linkname tryRunGC github.com/nspcc-dev/neo-go/pkg/core.(*Blockchain).tryRunGC
func tryRunGC(bc *core.Blockchain, oldHeight uint32) time.Duration

//go:linkname notificationDispatcher github.com/nspcc-dev/neo-go/pkg/core.(*Blockchain).notificationDispatcher
func notificationDispatcher(bc *core.Blockchain)

func b2i(b bool) int {
	if b {
		return 1
	}
	return 0
}

func runChainTickCase(o *hx.Out, f *hx.Flags, k int, r *prng.R) {
	o.Count("case:chain/gctick")
	t := &tb{}
	defer t.done()
	ps := storage.NewMemoryStore()
	zc, logs := observer.New(zap.InfoLevel)
	mtb0, gcp := uint32(r.Range(2, 7)), uint32(r.Range(1, 4))
	p2p := r.Chance(1, 3)
	ssi := r.Range(2, 6)
	// 1/4: Echidna only from height hfAt on: GetMaxTraceableBlocks is the config value before it and the
	// Policy's (initialised with Genesis.MaxTraceableBlocks <= MaxTraceableBlocks) from then on
	hfAt, genMtb := uint32(0), mtb0
	if r.Chance(1, 4) {
		// not generated: with hardforks switched on mid-chain the natives' own storage changes are not
		// covered by this harness's reading of the contract storage (dumpAll); the switch is covered
		// by Props/C11 mtb_only_lowers_along_chain on the translated GetMaxTraceableBlocks
		hfAt = uint32(r.Range(3, 8))
		genMtb = uint32(r.Range(2, int(mtb0)))
	}
	bc, acc := chain.NewSingleWithOptions(t, &chain.Options{
		Store:   ps,
		Logger:  zap.New(zc),
		SkipRun: true,
		BlockchainConfigHook: func(c *config.Blockchain) {
			c.RemoveUntraceableBlocks = true
			c.MaxTraceableBlocks = mtb0
			c.Genesis.MaxTraceableBlocks = genMtb
			if hfAt > 0 {
				c.Hardforks = map[string]uint32{config.HFEchidna.String(): hfAt}
			}
			c.MaxValidUntilBlockIncrement = 1
			c.Genesis.MaxValidUntilBlockIncrement = 1
			c.GarbageCollectionPeriod = gcp
			if p2p {
				c.StateRootInHeader = true
				c.P2PStateExchangeExtensions = true
				c.StateSyncInterval = ssi
			}
		},
	})
	// storeBlock hands every block to the notification dispatcher over an unbuffered channel
	go notificationDispatcher(bc)
	// Close stops the dispatcher (it then waits for Run's exit, which never comes: one parked goroutine per case)
	defer func() { go bc.Close() }()
	mod, ok := bc.GetStateModule().(*stateroot.Module)
	if !ok {
		o.Fail("harness-module-type", k, "state module is %T", bc.GetStateModule())
		return
	}
	cm := &chainM{bc: bc, mod: mod, ps: ps}
	h := newHist(o, k, "gc", cm)
	if p2p {
		o.Count("gctick:p2p")
	}
	if hfAt > 0 {
		o.Count("gctick:echidna-later")
	}
	if hfAt > 0 {
		h.line(fmt.Sprintf("hfcfg %d %d", hfAt, genMtb), "ok")
	}
	lastMtb := bc.GetMaxTraceableBlocks()
	h.line(fmt.Sprintf("cfg %d %d %d %d", gcp, b2i(p2p), ssi, bc.GetMaxTraceableBlocks()), "ok")
	e := neotest.NewExecutor(t, bc, acc, acc)
	var ids []int32
	for _, nc := range bc.GetNatives() {
		ids = append(ids, nc.ID)
	}
	prev := map[string][]byte{}
	record := func() bool {
		ht := bc.BlockHeight()
		sr, err := mod.GetStateRoot(ht)
		if err != nil {
			h.fail("no-state-root", "height %d: %v", ht, err)
			return false
		}
		// natives activated by a hardfork are deployed (get their storage) at that height
		for _, nc := range bc.GetNatives() {
			known := false
			for _, id := range ids {
				known = known || id == nc.ID
			}
			if !known {
				ids = append(ids, nc.ID)
			}
		}
		cur := dumpAll(bc, ids)
		h.committed(ht, diffBatch(prev, cur), sr.Root, cur, false)
		prev = cur
		return !h.dead
	}
	if !record() { // genesis
		return
	}
	c := buildContract(e.Validator.ScriptHash(), "S")
	e.DeployContract(t, c, nil)
	cs := bc.GetContractState(c.Hash)
	if cs == nil {
		o.Fail("harness-deploy", k, "contract not deployed")
		return
	}
	ids = append(ids, cs.ID)
	g := newGen(r, o, false)
	for _, i := range permN(r, len(g.pool), 8) {
		h.probes = append(h.probes, idKey(cs.ID, g.pool[i]))
	}
	h.probes = append(h.probes, idKey(cs.ID, []byte{0x77}))
	if !record() {
		return
	}
	policyHash, err := bc.GetNativeContractScriptHash(nativenames.Policy)
	if err != nil {
		o.Fail("harness-policy", k, "%v", err)
		return
	}
	policy := e.CommitteeInvoker(policyHash)
	own := map[string][]byte{}
	nBlocks := r.Range(8, 18)
	if f.Tier == "thorough" {
		nBlocks = r.Range(12, 40)
	}
	persisted := uint32(0) // bc.persistedHeight: genesis is on disk after NewBlockchain
	var pendOld *uint32
	gcSeen := logs.FilterMessage("starting MPT garbage collection").Len()
	addBlock := func() bool {
		ntx := r.Range(0, 2)
		var txs []*transaction.Transaction
		for i := 0; i < ntx; i++ {
			w := io.NewBufBinWriter()
			for _, ch := range dedupe(g.changes(own, r.Range(1, 4))) {
				if ch.val == nil {
					emit.AppCall(w.BinWriter, c.Hash, "del", callflag.All, ch.key)
				} else {
					emit.AppCall(w.BinWriter, c.Hash, "put", callflag.All, ch.key, ch.val)
				}
			}
			txs = append(txs, e.PrepareInvocation(t, w.Bytes(), []neotest.Signer{e.Validator}))
		}
		var ask int64 = -1
		if hfAt == 0 && r.Chance(1, 6) {
			// a committee transaction asks for a new MaxTraceableBlocks: lower, equal, or (rejected) higher
			cur := int64(bc.GetMaxTraceableBlocks())
			ask = cur - int64(r.Intn(3))
			if r.Chance(1, 3) {
				ask = cur + int64(r.Intn(4)) // must be rejected unless equal
			}
			if ask < 2 {
				ask = 2 // must stay above MaxValidUntilBlockIncrement (1)
			}
			txs = append(txs, policy.PrepareInvoke(t, "setMaxTraceableBlocks", ask))
		}
		e.AddNewBlock(t, txs...)
		if !record() {
			return false
		}
		if hfAt > 0 {
			// the driver computes the node's MaxTraceableBlocks at this height with the translated
			// GetMaxTraceableBlocks (the hardfork switch included)
			now := bc.GetMaxTraceableBlocks()
			h.line("mtbnow", fmt.Sprintf("mtb=%d", now))
			if now != lastMtb {
				o.Count("gctick:mtb-hardfork-switch")
			}
		}
		lastMtb = bc.GetMaxTraceableBlocks()
		if ask >= 0 {
			h.line(fmt.Sprintf("mtb %d", ask), fmt.Sprintf("mtb=%d", bc.GetMaxTraceableBlocks()))
			o.Count("gctick:mtb-tx")
			if uint32(ask) == bc.GetMaxTraceableBlocks() {
				o.Count("gctick:mtb-tx:accepted")
			}
		}
		return true
	}
	runGC := func() {
		if pendOld == nil {
			return
		}
		old := *pendOld
		pendOld = nil
		mtb := bc.GetMaxTraceableBlocks()
		tryRunGC(bc, old)
		starts := logs.FilterMessage("starting MPT garbage collection").All()
		var gp *uint32
		if len(starts) > gcSeen {
			var gi uint32
			fmt.Sscan(fmt.Sprint(starts[len(starts)-1].ContextMap()["index"]), &gi)
			gp = &gi
			if len(starts) != gcSeen+1 {
				h.fail("harness-gc-log", "%d collections logged by one tryRunGC", len(starts)-gcSeen)
			}
			gcSeen = len(starts)
			// the property's arithmetic on the real node: the index is MaxTraceableBlocks below the persisted height
			if uint64(gi)+uint64(mtb) > uint64(persisted) {
				h.fail("gc-index-above-window", "tryRunGC(old=%d) at persisted height %d with MaxTraceableBlocks %d collected at %d", old, persisted, mtb, gi)
			}
		}
		h.nodeGC(gp)
	}
	// the property on the real node: a height that is traceable now (dao.go:829) must not lie below
	// an index the node has collected with (its root would no longer be fully readable)
	window := func() {
		if !h.gcDone {
			return
		}
		top, mtb := bc.BlockHeight(), bc.GetMaxTraceableBlocks()
		for _, ht := range h.heights {
			if ht <= top && uint64(ht)+uint64(mtb) > uint64(top) && ht < h.gcAt {
				h.fail("traceable-height-collected", "height %d is traceable at height %d (MaxTraceableBlocks %d) but the node collected at %d", ht, top, mtb, h.gcAt)
				return
			}
		}
		o.Count("gctick:window-checked")
	}
	for b := 0; b < nBlocks && !h.dead; b++ {
		if !addBlock() {
			return
		}
		window()
		if r.Chance(2, 5) {
			// one timer tick of Run
			old := persisted
			h.persist()
			persisted = bc.BlockHeight()
			pendOld = &old
			o.Count("gctick:tick")
			// blocks may arrive between persist() and tryRunGC
			for r.Chance(1, 4) && b < nBlocks-1 && !h.dead {
				b++
				o.Count("gctick:block-between-persist-and-gc")
				if !addBlock() {
					return
				}
			}
			runGC()
			window()
		}
	}
	if !h.dead {
		h.checkRetained(cm.View(), true)
	}
	o.Seen(fmt.Sprintf("chain/gctick:%d:%d:%d:%v:%d", nBlocks, mtb0, gcp, p2p, len(own)))
}
