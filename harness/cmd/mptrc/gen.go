package main

// Generator of per-block change sets: keys that share long nibble prefixes and are prefixes of one
// another, a handful of values shared by many keys (the same leaf at many positions), mirrored
// sub-tries (the same branch at two positions), delete-then-recreate across blocks, no-op writes,
// deletions of absent keys, empty values, empty blocks.

import (
	"bytes"
	"sort"

	"verif/harness/internal/hx"
	"verif/harness/internal/prng"
)

type gen struct {
	r       *prng.R
	o       *hx.Out
	pool    [][]byte
	vals    [][]byte
	mirrorA byte
	mirrorB byte
	suffs   [][]byte
	graves  map[string][]byte // deleted key -> the value it had
}

var alphabets = [][]byte{
	{0x01, 0x02, 0x10, 0x12},
	{0x00, 0x0f, 0xf0, 0xff, 0x11},
	{0xa0, 0xa1, 0xb0, 0x0a},
}

func newGen(r *prng.R, o *hx.Out, big bool) *gen {
	g := &gen{r: r, o: o, graves: map[string][]byte{}}
	al := alphabets[r.Intn(len(alphabets))]
	n := r.Range(5, 14)
	if big {
		n = r.Range(14, 40)
	}
	seen := map[string]bool{}
	add := func(k []byte) {
		if len(k) == 0 || seen[string(k)] {
			return
		}
		seen[string(k)] = true
		g.pool = append(g.pool, k)
	}
	for i := 0; i < n; i++ {
		l := r.Range(1, 4)
		if r.Chance(1, 15) {
			l = r.Range(5, 9)
		}
		k := make([]byte, l)
		for j := range k {
			k[j] = al[r.Intn(len(al))]
		}
		add(k)
		if r.Chance(1, 3) {
			add(bytes.Clone(k[:len(k)-1])) // a key that is a prefix of another
		}
		if r.Chance(1, 4) {
			add(append(bytes.Clone(k), al[r.Intn(len(al))]))
		}
	}
	// mirrored sub-tries: the same suffixes under two first bytes that differ in the high nibble
	g.mirrorA, g.mirrorB = 0x30|al[0]&0x0f, 0x50|al[0]&0x0f
	ns := r.Range(2, 4)
	for i := 0; i < ns; i++ {
		s := make([]byte, r.Range(1, 2))
		for j := range s {
			s[j] = al[r.Intn(len(al))]
		}
		g.suffs = append(g.suffs, s)
		add(append([]byte{g.mirrorA}, s...))
		add(append([]byte{g.mirrorB}, s...))
	}
	g.vals = [][]byte{{}, {0xaa}, r.Bytes(r.Range(1, 3)), r.Bytes(r.Range(1, 3))}
	if r.Chance(1, 2) {
		g.vals = append(g.vals, r.Bytes(r.Range(33, 60)))
	}
	return g
}

func (g *gen) val() []byte { return g.vals[g.r.Weighted([]int{2, 4, 2, 1, 1}[:len(g.vals)])] }

func (g *gen) presentKey(cont map[string][]byte) []byte {
	if len(cont) == 0 {
		return nil
	}
	ks := make([]string, 0, len(cont))
	for k := range cont {
		ks = append(ks, k)
	}
	sort.Strings(ks)
	return []byte(ks[g.r.Intn(len(ks))])
}

// changes draws n changes against the contents cont (which it updates).
func (g *gen) changes(cont map[string][]byte, n int) []change {
	var out []change
	put := func(k, v []byte) {
		out = append(out, change{k, v})
		cont[string(k)] = v
	}
	del := func(k []byte) {
		if v, ok := cont[string(k)]; ok {
			g.graves[string(k)] = v
			delete(cont, string(k))
		}
		out = append(out, change{k, nil})
	}
	for len(out) < n {
		switch g.r.Weighted([]int{5, 4, 1, 3, 3, 1, 1, 1, 1}) {
		case 0: // put (new key or overwrite)
			k := g.pool[g.r.Intn(len(g.pool))]
			if _, ok := cont[string(k)]; ok {
				g.o.Count("ch:overwrite")
			} else {
				g.o.Count("ch:put-new")
			}
			put(k, g.val())
		case 1: // delete a present key
			if k := g.presentKey(cont); k != nil {
				g.o.Count("ch:delete-present")
				del(k)
			}
		case 2: // delete an absent key
			k := g.pool[g.r.Intn(len(g.pool))]
			if _, ok := cont[string(k)]; !ok {
				g.o.Count("ch:delete-absent")
				del(k)
			}
		case 3: // re-create a deleted key with the value it had
			if len(g.graves) > 0 {
				ks := make([]string, 0, len(g.graves))
				for k := range g.graves {
					ks = append(ks, k)
				}
				sort.Strings(ks)
				k := ks[g.r.Intn(len(ks))]
				if _, ok := cont[k]; !ok {
					g.o.Count("ch:recreate")
					put([]byte(k), g.graves[k])
				}
			}
		case 4: // mirrored pair: the same value under both mirror prefixes
			s := g.suffs[g.r.Intn(len(g.suffs))]
			v := g.val()
			g.o.Count("ch:mirror-put")
			put(append([]byte{g.mirrorA}, s...), v)
			put(append([]byte{g.mirrorB}, s...), v)
		case 5: // write the value the key already has
			if k := g.presentKey(cont); k != nil {
				g.o.Count("ch:noop-put")
				put(k, cont[string(k)])
			}
		case 6: // mirrored delete
			s := g.suffs[g.r.Intn(len(g.suffs))]
			g.o.Count("ch:mirror-del")
			del(append([]byte{g.mirrorA}, s...))
			del(append([]byte{g.mirrorB}, s...))
		case 7: // TWIN SUB-TRIES: everything under one mirror prefix is copied under the other, so the
			// same branch / extension nodes (same hashes) are referenced from two paths
			src, dst := g.mirrorA, g.mirrorB
			if g.r.Bool() {
				src, dst = dst, src
			}
			var ks []string
			for k := range cont {
				if k[0] == src || k[0] == dst {
					ks = append(ks, k)
				}
			}
			sort.Strings(ks)
			made := false
			for _, k := range ks {
				if k[0] == dst {
					if _, ok := cont[string(append([]byte{src}, k[1:]...))]; !ok {
						del([]byte(k))
					}
				}
			}
			for _, k := range ks {
				if k[0] == src {
					put(append([]byte{dst}, k[1:]...), cont[k])
					made = true
				}
			}
			if made {
				g.o.Count("ch:twin-subtries-made")
			}
		case 8: // … and one of the two references is removed again (the whole sub-trie under one prefix)
			pre := g.mirrorA
			if g.r.Bool() {
				pre = g.mirrorB
			}
			var ks []string
			for k := range cont {
				if k[0] == pre {
					ks = append(ks, k)
				}
			}
			sort.Strings(ks)
			for _, k := range ks {
				del([]byte(k))
			}
			if len(ks) > 0 {
				g.o.Count("ch:twin-one-reference-removed")
			}
			if len(ks) == 0 {
				put(g.pool[g.r.Intn(len(g.pool))], g.val()) // keep the loop going
			}
		}
	}
	return out
}

// dedupe keeps the last change per key (a batch is a Go map).
func dedupe(cs []change) []change {
	last := map[string]int{}
	for i, c := range cs {
		last[string(c.key)] = i
	}
	var out []change
	for i, c := range cs {
		if last[string(c.key)] == i {
			out = append(out, c)
		}
	}
	sort.Slice(out, func(i, j int) bool { return bytes.Compare(out[i].key, out[j].key) < 0 })
	return out
}

// blockOps draws the sub-operations of one block.
func (g *gen) blockOps(cont map[string][]byte, single bool, maxCh int) []subop {
	work := make(map[string][]byte, len(cont))
	for k, v := range cont {
		work[k] = v
	}
	if single {
		n := g.r.Range(0, maxCh)
		if g.r.Chance(1, 10) {
			n = 0
		}
		return []subop{{kind: 'b', batch: dedupe(g.changes(work, n))}}
	}
	var ops []subop
	nops := g.r.Range(0, 4)
	for i := 0; i < nops; i++ {
		switch g.r.Weighted([]int{4, 3, 3}) {
		case 0, 1:
			for _, c := range g.changes(work, 1) {
				if c.val == nil {
					ops = append(ops, subop{kind: 'd', key: c.key})
				} else {
					ops = append(ops, subop{kind: 'p', key: c.key, val: c.val})
				}
			}
		case 2:
			ops = append(ops, subop{kind: 'b', batch: dedupe(g.changes(work, g.r.Range(1, maxCh)))})
		}
	}
	return ops
}
