// Command mptrc: C11 — trie node storage stays exact under reference counting and GC.
//
// Every case is one history of per-block change sets run on the real code in one trie mode
// (all / latest / gc) at one of three levels:
//
//	trie    a bare mpt.Trie over MemCachedStore(MemoryStore): Put / Delete / PutBatch, Flush(index)
//	module  stateroot.Module: AddMPTBatch (+ UpdateCurrentLocal, or not = a dropped block), GC, Init
//	chain   a core.Blockchain (pkg/neotest) with a hand-assembled storage contract; "gctick": the
//	        node's persist / tryRunGC loop stepped by the harness (chaintick.go), "gcreal": the real Run goroutine
//
// After every operation all DataMPT records of the store are read back and summarised
// (count, digest, changed records); the Lean driver keeps the model's store and prints the same
// summary. The property's oracles run on the raw records (ref.go, run.go).
//
// Stream lines:
//
//	mode all|latest|gc                      -> ok
//	cfg <gcp> <p2p> <ssi> <mtb>             -> ok                (a node: GarbageCollectionPeriod, P2P extensions, StateSyncInterval, MaxTraceableBlocks)
//	mtb <v>                                 -> mtb=<n>           (a committee tx asked Policy for MaxTraceableBlocks v; n = the value afterwards)
//	persist                                 -> up=<puts>/<dels>  (MemCachedStore.Persist; the DataMPT records that were waiting in it)
//	rungc                                   -> gc=<g|-> n=.. dg=.. ch=..   (Run's tryRunGC(oldPersisted): the driver predicts decision and index)
//	tickchk <mtb> <old> <new>               -> gc=<g|->          (one tick of the real Run goroutine, from the complete log)
//	gcl <G>                                 -> up=.. n=.. dg=.. ch=..      (Module.GC(G) on the persistent layer, nothing persisted first)
//	blk <idx> <sub>...                      -> r=<root> n=<records> dg=<digest> ch=<changed records> | panic | err
//	drop <idx> <sub>...                     -> r=<root>          (computed, never committed)
//	gc <G>                                  -> n=.. dg=.. ch=..
//	reset                                   -> ok                (restart / reopen from the root hash)
//	get <h> <key>                           -> <value> | none    (historic read at the root of height h)
//	restore <idx> <k>=<v>,... <sched>       -> r=<root> n=.. dg=.. ch=..   (Billet restore of the state of height idx into an empty store; sched: per restoration 1 = persisted just before it)
//	wild                                    -> ok                (the rest of the case is not compared)
//	sub: p:<key>:<val>  d:<key>  b:<key>=<val|del>,...
package main

import (
	"fmt"

	"verif/harness/internal/hx"
	"verif/harness/internal/prng"
)

type combo struct {
	level string
	mode  string
}

var combos = []combo{
	{"module", "latest"}, {"module", "gc"}, {"trie", "latest"}, {"module", "gc"},
	{"trie", "gc"}, {"module", "all"}, {"module", "latest"}, {"trie", "all"},
}

func main() {
	f := hx.ParseFlags()
	o := hx.NewOut(f.Out)
	defer o.Close()
	n := f.N(170, 3500)
	for k := 0; k < n; k++ {
		if !f.Want(k) {
			continue
		}
		o.Case(k)
		func() {
			defer func() {
				if r := recover(); r != nil {
					if fn, ok := r.(failNow); ok {
						o.Fail("harness-failnow", k, "neotest assertion failed: %s", fn.msg)
					} else {
						o.Fail("harness-panic", k, "panic: %v", r)
					}
				}
			}()
			runCase(o, f, k)
		}()
	}
}

func runCase(o *hx.Out, f *hx.Flags, k int) {
	if k < len(corpus) {
		corpus[k](o, k)
		return
	}
	r := prng.ForCase(f.Seed, k)
	chainEvery := 10
	if f.Tier == "thorough" {
		chainEvery = 25
	}
	if k%chainEvery == chainEvery-1 {
		if r.Chance(3, 5) {
			runChainTickCase(o, f, k, r)
		} else {
			runChainCase(o, f, k, r)
		}
		return
	}
	if k%6 == 2 {
		if r.Chance(2, 5) {
			runJumpCase(o, f, k, r)
		} else {
			runRestoreCase(o, f, k, r)
		}
		return
	}
	c := combos[r.Intn(len(combos))]
	runAPICase(o, f, k, r, c)
}

func newMachine(c combo, lower string) machine {
	if c.level == "trie" {
		return newTrieMOn(c.mode, lower)
	}
	return newModMOn(c.mode, lower)
}

func runAPICase(o *hx.Out, f *hx.Flags, k int, r *prng.R, c combo) {
	o.Count("case:" + c.level + "/" + c.mode)
	lower := []string{"mem", "copy", "bolt"}[r.Weighted([]int{5, 4, 1})]
	o.Count("lower:" + lower)
	m := newMachine(c, lower)
	defer m.(interface{ Close() }).Close()
	h := newHist(o, k, c.mode, m)
	big := r.Chance(1, 4)
	g := newGen(r, o, big)
	h.probes = pickProbes(r, g.pool)
	nBlocks := r.Range(5, 16)
	maxCh := 7
	if f.Tier == "thorough" {
		nBlocks = r.Range(8, 30)
		maxCh = 16
	}
	dropCase := c.level == "module" && r.Chance(1, 5)
	if x, ok := m.(*modM); ok && dropCase {
		x.tick = r.Bool()
	}
	idx := baseHeight(r, o)
	sig := c.level + "/" + c.mode
	for b := 0; b < nBlocks && !h.dead; b++ {
		ops := g.blockOps(h.cont, c.level == "module", maxCh)
		if dropCase && b > 1 && r.Chance(1, 4) {
			h.drop(idx, ops)
			sig += "D"
			continue // the same index is used again by the next block
		}
		h.block(idx, ops)
		sig += fmt.Sprintf("b%d", len(ops))
		if h.dead {
			break
		}
		if c.mode == "gc" && r.Chance(1, 4) {
			gi := int(idx) - r.Intn(4)
			if r.Chance(1, 6) {
				gi = r.Intn(int(idx) + 1)
			}
			if gi < 0 {
				gi = 0
			}
			switch {
			case r.Chance(1, 2):
				h.gc(uint32(gi))
				sig += "G"
			case r.Chance(2, 3) && h.persisted >= 0:
				// what the node does: the index is not above the persisted height
				gl := h.persisted - int64(r.Intn(3))
				if gl < 0 {
					gl = 0
				}
				h.gcl(uint32(gl))
				sig += "L"
			default:
				h.gcl(uint32(gi)) // any index: records of the upper layer may be in range
				sig += "l"
			}
		}
		if r.Chance(1, 8) {
			if tm, ok := m.(*trieM); ok && r.Bool() {
				tm.Collapse(r.Intn(4))
				h.line("reset", "ok")
				o.Count("collapse")
			} else {
				h.reset()
			}
			sig += "R"
		}
		if r.Chance(1, 4) {
			h.persist()
		}
		idx++
		if r.Chance(1, 12) {
			idx += uint32(r.Range(1, 3)) // heights need not be consecutive at this API
		}
	}
	if !h.dead {
		h.checkRetained(h.m.View(), true)
	}
	o.Seen(fmt.Sprintf("%s:%d:%x", sig, len(h.cont), r.U64()&0xffff))
	if k < len(corpus)+3 {
		o.Sample(fmt.Sprintf("case %d: %s %d blocks, %d keys in pool, final %d keys", k, sig, nBlocks, len(g.pool), len(h.cont)))
	}
}

// baseHeight: the height a history starts at. Heights are parameters of the trie / module API, so a
// history can straddle the byte boundaries of the stored 4-byte little-endian deactivation height
// (2^8, 2^16, 2^24) without building that many blocks: collection indices and deactivation heights
// then differ in more than the lowest byte (seed C11-m8: a bytewise comparison of the encoded height).
func baseHeight(r *prng.R, o *hx.Out) uint32 {
	switch r.Weighted([]int{3, 3, 2, 1}) {
	case 1:
		o.Count("base:below-2^8")
		return 256 - uint32(r.Range(1, 8))
	case 2:
		o.Count("base:below-2^16")
		return 65536 - uint32(r.Range(1, 8))
	case 3:
		o.Count("base:below-2^24")
		return 16777216 - uint32(r.Range(1, 8))
	}
	o.Count("base:0")
	return uint32(r.Intn(2))
}

func pickProbes(r *prng.R, pool [][]byte) [][]byte {
	var ps [][]byte
	for _, i := range permN(r, len(pool), 10) {
		ps = append(ps, pool[i])
	}
	ps = append(ps, []byte{0x77}, []byte{pool[0][0]})
	return ps
}

func permN(r *prng.R, n, m int) []int {
	idx := make([]int, n)
	for i := range idx {
		idx[i] = i
	}
	for i := 0; i < n && i < m; i++ {
		j := i + r.Intn(n-i)
		idx[i], idx[j] = idx[j], idx[i]
	}
	if m > n {
		m = n
	}
	return idx[:m]
}
