package main

import (
	"fmt"
	"os"
	"testing"
)

// tb is a minimal testing.TB for running pkg/neotest outside `go test`.
// FailNow panics with failNow{}; the harness recovers per case.
type tb struct {
	testing.TB // nil, only to satisfy the private method
	cleanups   []func()
	failed     bool
	msgs       []string
	tmp        []string
}

type failNow struct{ msg string }

func (t *tb) Helper()                 {}
func (t *tb) Name() string            { return "verif" }
func (t *tb) Log(a ...any)            {}
func (t *tb) Logf(f string, a ...any) {}
func (t *tb) Cleanup(f func())        { t.cleanups = append(t.cleanups, f) }
func (t *tb) Failed() bool            { return t.failed }
func (t *tb) Fail()                   { t.failed = true }
func (t *tb) Error(a ...any)          { t.failed = true; t.msgs = append(t.msgs, fmt.Sprint(a...)) }
func (t *tb) Errorf(f string, a ...any) {
	t.failed = true
	t.msgs = append(t.msgs, fmt.Sprintf(f, a...))
}
func (t *tb) Fatal(a ...any)            { t.Error(a...); t.FailNow() }
func (t *tb) Fatalf(f string, a ...any) { t.Errorf(f, a...); t.FailNow() }
func (t *tb) Skip(a ...any)             {}
func (t *tb) Skipf(f string, a ...any)  {}
func (t *tb) SkipNow()                  {}
func (t *tb) Skipped() bool             { return false }
func (t *tb) Setenv(k, v string)        { os.Setenv(k, v) }
func (t *tb) FailNow() {
	t.failed = true
	m := ""
	if len(t.msgs) > 0 {
		m = t.msgs[len(t.msgs)-1]
	}
	panic(failNow{m})
}
func (t *tb) TempDir() string {
	d, err := os.MkdirTemp("", "verif-mptrc-")
	if err != nil {
		panic(err)
	}
	t.tmp = append(t.tmp, d)
	return d
}
func (t *tb) done() {
	for i := len(t.cleanups) - 1; i >= 0; i-- {
		t.cleanups[i]()
	}
	t.cleanups = nil
	for _, d := range t.tmp {
		os.RemoveAll(d)
	}
}
