package main

// Lower (persistent) layers under the MemCachedStore: MemoryStore hands out and keeps the very
// slices it is given (aliasing), a real backend does not. "copy" is a MemoryStore that copies on
// the way in and out, like a disk backend; "bolt" is a real BoltDB in a temp dir.

import (
	"bytes"
	"os"
	"path/filepath"

	"github.com/nspcc-dev/neo-go/pkg/core/storage"
	"github.com/nspcc-dev/neo-go/pkg/core/storage/dbconfig"
)

type copyStore struct{ *storage.MemoryStore }

func (c copyStore) Get(k []byte) ([]byte, error) {
	v, err := c.MemoryStore.Get(k)
	if err != nil {
		return nil, err
	}
	return bytes.Clone(v), nil
}

func cloneSet(m map[string][]byte) map[string][]byte {
	n := make(map[string][]byte, len(m))
	for k, v := range m {
		if v == nil {
			n[k] = nil
		} else {
			n[k] = append([]byte{}, v...) // non-nil even when empty
		}
	}
	return n
}

func (c copyStore) PutChangeSet(puts, stor map[string][]byte) error {
	return c.MemoryStore.PutChangeSet(cloneSet(puts), cloneSet(stor))
}

func (c copyStore) Seek(rng storage.SeekRange, f func(k, v []byte) bool) {
	c.MemoryStore.Seek(rng, func(k, v []byte) bool { return f(bytes.Clone(k), bytes.Clone(v)) })
}

// newLower returns a persistent layer of the given kind and its cleanup.
// copies tells whether Get returns private copies (no aliasing with what was put).
func newLower(kind string) (s storage.Store, copies bool, cleanup func()) {
	switch kind {
	case "copy":
		return copyStore{storage.NewMemoryStore()}, true, func() {}
	case "bolt":
		dir, err := os.MkdirTemp("", "verif-mptrc-bolt-")
		if err != nil {
			panic(err)
		}
		b, err := storage.NewBoltDBStore(dbconfig.BoltDBOptions{FilePath: filepath.Join(dir, "db")})
		if err != nil {
			panic(err)
		}
		return b, true, func() { b.Close(); os.RemoveAll(dir) }
	}
	return storage.NewMemoryStore(), false, func() {}
}
