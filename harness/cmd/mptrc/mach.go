package main

// The real code behind one interface: a bare mpt.Trie (single Put/Delete/PutBatch + Flush) and a
// stateroot.Module (AddMPTBatch / UpdateCurrentLocal / GC / Init), both over
// MemCachedStore(MemoryStore).

import (
	"fmt"
	"os"

	"bytes"
	"sort"

	"github.com/nspcc-dev/neo-go/pkg/config"
	"github.com/nspcc-dev/neo-go/pkg/core/mpt"
	"github.com/nspcc-dev/neo-go/pkg/core/stateroot"
	"github.com/nspcc-dev/neo-go/pkg/core/storage"
	"github.com/nspcc-dev/neo-go/pkg/util"
	"go.uber.org/zap"
)

// dropWithoutReload: SELF-TEST ONLY (never set by ./check): a dropped block omits DropMPTBatch, as the
// node did before /repo c513b1a. The driver then runs the old rule (`dropold`), nothing is folded into
// known keys, and the run must report the consequences (wrong roots, counts, missing nodes, panics).
var dropWithoutReload = os.Getenv("MPTRC_DROP_WITHOUT_RELOAD") == "1"

type change struct {
	key []byte
	val []byte // nil = delete
}

type subop struct {
	kind  byte // 'p' put, 'd' delete, 'b' batch
	key   []byte
	val   []byte
	batch []change
}

type machine interface {
	// Block computes block idx; commit=false drops it afterwards. obs "" = ok, else "panic"/"err".
	Block(idx uint32, ops []subop, commit bool) (util.Uint256, string)
	GC(g uint32)
	// GCLow collects on the persistent layer WITHOUT persisting first (what the node does between two
	// persist ticks: blockchain.go:1422 `GC(tgt, bc.store)` while bc.dao.Store holds newer blocks).
	GCLow(g uint32)
	// Upper is the DataMPT part of the MemCachedStore's pending change set (the layer above the
	// persistent store): pending puts and the number of pending deletions.
	Upper() (view, int)
	Reset()
	Persist()
	View() view
	Get(root util.Uint256, key []byte) ([]byte, error)
	Find(root util.Uint256, prefix []byte) ([]storage.KeyValue, error)
	CanDrop() bool
	Name() string
}

func trieMode(m string) mpt.TrieMode {
	switch m {
	case "latest":
		return mpt.ModeLatest
	case "gc":
		return mpt.ModeGC
	}
	return mpt.ModeAll
}

func modeCfg(m string) config.Blockchain {
	var c config.Blockchain
	switch m {
	case "latest":
		c.KeepOnlyLatestState = true
	case "gc":
		c.RemoveUntraceableBlocks = true
	}
	return c
}

func toBatch(cs []change) mpt.Batch {
	m := make(map[string][]byte, len(cs))
	for _, c := range cs {
		m[string(append([]byte{byte(storage.STStorage)}, c.key...))] = c.val
	}
	return mpt.MapToMPTBatch(m)
}

// ---- bare trie ------------------------------------------------------------------------------

type trieM struct {
	mode    mpt.TrieMode
	ps      storage.Store
	ms      *storage.MemCachedStore
	tr      *mpt.Trie
	gc      *stateroot.Module
	cleanup func()
}

func newTrieM(m string) *trieM { return newTrieMOn(m, "mem") }

func newTrieMOn(m, lower string) *trieM {
	t := &trieM{mode: trieMode(m)}
	t.ps, _, t.cleanup = newLower(lower)
	t.ms = storage.NewMemCachedStore(t.ps)
	t.tr = mpt.NewTrie(nil, t.mode, t.ms)
	t.gc = stateroot.NewModule(modeCfg(m), nil, zap.NewNop(), t.ms)
	return t
}

// newTrieMFrom continues on an existing store from a root hash (after a state-sync restore).
func newTrieMFrom(m string, ps storage.Store, ms *storage.MemCachedStore, root util.Uint256) *trieM {
	t := &trieM{mode: trieMode(m), ps: ps, ms: ms, cleanup: func() {}}
	t.tr = mpt.NewTrie(mpt.NewHashNode(root), t.mode, t.ms)
	t.gc = stateroot.NewModule(modeCfg(m), nil, zap.NewNop(), t.ms)
	return t
}

func (t *trieM) Close() { t.cleanup() }

func (t *trieM) Name() string  { return "trie" }
func (t *trieM) CanDrop() bool { return false }

func (t *trieM) Block(idx uint32, ops []subop, commit bool) (root util.Uint256, obs string) {
	defer func() {
		if r := recover(); r != nil {
			obs = "panic"
		}
	}()
	for _, o := range ops {
		var err error
		switch o.kind {
		case 'p':
			err = t.tr.Put(o.key, o.val)
		case 'd':
			err = t.tr.Delete(o.key)
		case 'b':
			_, err = t.tr.PutBatch(toBatch(o.batch))
		}
		if err != nil {
			return root, "err"
		}
	}
	t.tr.Flush(idx)
	return t.tr.StateRoot(), ""
}

func (t *trieM) GC(g uint32) {
	t.Persist()
	t.gc.GC(g, t.ps)
}

func (t *trieM) GCLow(g uint32)     { t.gc.GC(g, t.ps) }
func (t *trieM) Upper() (view, int) { return readUpper(t.ms) }

// Reset: either collapse the whole trie to its root hash or reopen it from the root hash.
func (t *trieM) Reset() {
	r := t.tr.StateRoot()
	if isZero(r) {
		t.tr = mpt.NewTrie(nil, t.mode, t.ms)
		return
	}
	t.tr = mpt.NewTrie(mpt.NewHashNode(r), t.mode, t.ms)
}

func (t *trieM) Collapse(d int) { t.tr.Collapse(d) }

func (t *trieM) Persist() {
	if _, err := t.ms.Persist(); err != nil {
		panic(err)
	}
}

func (t *trieM) View() view { return readView(t.ms) }

func (t *trieM) Get(root util.Uint256, key []byte) ([]byte, error) {
	tr := mpt.NewTrie(mpt.NewHashNode(root), t.mode&^mpt.ModeGCFlag, storage.NewMemCachedStore(t.ms))
	return tr.Get(key)
}

func (t *trieM) Find(root util.Uint256, prefix []byte) ([]storage.KeyValue, error) {
	tr := mpt.NewTrie(mpt.NewHashNode(root), t.mode&^mpt.ModeGCFlag, storage.NewMemCachedStore(t.ms))
	return tr.Find(prefix, nil, 10000)
}

// ---- stateroot.Module -----------------------------------------------------------------------

type modM struct {
	m        string
	ps       storage.Store
	copies   bool // the persistent layer hands out copies (no slice aliasing with what was put)
	leak     string
	tick     bool   // a persist tick of the node falls between AddMPTBatch and the (missing) commit of a dropped block
	tickObs  string // what that persist found waiting in the MemCachedStore ("" = no tick happened)
	leakDisk string // the persistent layer after that tick against everything committed before the block
	cleanup  func()
	ms       *storage.MemCachedStore
	mod      *stateroot.Module
	height   uint32
	any      bool
	inMemory bool // no restart since the start of the case: every node of the live trie is a Go object
}

func newModM(m string) *modM { return newModMOn(m, "mem") }

func (x *modM) Close() { x.cleanup() }

func newModMOn(m, lower string) *modM {
	x := &modM{m: m, inMemory: true}
	x.ps, x.copies, x.cleanup = newLower(lower)
	x.ms = storage.NewMemCachedStore(x.ps)
	x.mod = stateroot.NewModule(modeCfg(m), nil, zap.NewNop(), x.ms)
	if err := x.mod.Init(0); err != nil {
		panic(err)
	}
	return x
}

// PrePersist: over a copying persistent layer everything below the block's cache is flushed down
// before a block, so that nothing the block does before it is committed can reach it through a
// shared slice. Returns the observation of the `persist` line ("" = nothing was done).
func (x *modM) PrePersist() string {
	if !x.copies {
		return ""
	}
	obs := upperObs(x)
	if _, err := x.ms.PersistSync(); err != nil {
		panic(err)
	}
	return obs
}

// readUpper: the pending DataMPT changes of a MemCachedStore (GetBatch = its `mem` map).
func readUpper(s *storage.MemCachedStore) (view, int) {
	b := s.GetBatch()
	v, dels := view{}, 0
	for _, kv := range b.Put {
		if len(kv.Key) > 0 && kv.Key[0] == byte(storage.DataMPT) {
			v[string(kv.Key[1:])] = bytes.Clone(kv.Value)
		}
	}
	for _, kv := range b.Deleted {
		if len(kv.Key) > 0 && kv.Key[0] == byte(storage.DataMPT) {
			dels++
		}
	}
	return v, dels
}

// upperObs: "up=<pending puts>/<pending deletions>" of the DataMPT records.
func upperObs(m machine) string {
	v, d := m.Upper()
	return fmt.Sprintf("up=%d/%d", len(v), d)
}

func (x *modM) Name() string  { return "module" }
func (x *modM) CanDrop() bool { return x.inMemory }

func (x *modM) Block(idx uint32, ops []subop, commit bool) (root util.Uint256, obs string) {
	defer func() {
		if r := recover(); r != nil {
			obs = "panic"
		}
	}()
	if len(ops) != 1 || ops[0].kind != 'b' {
		panic(fmt.Sprintf("module machine takes exactly one batch per block, got %d ops", len(ops)))
	}
	before := readRaw(x.ms)
	cache := storage.NewPrivateMemCachedStore(x.ms)
	tr, sr, err := x.mod.AddMPTBatch(idx, toBatch(ops[0].batch), cache)
	// AddMPTBatch must write into the block's cache only: the module's own store is untouched
	// until the block is committed
	x.leak = diffRaw(before, readRaw(x.ms), true)
	if err != nil {
		return root, "err"
	}
	x.tickObs, x.leakDisk = "", ""
	if !commit {
		if x.tick {
			// blockchain.go: persist() runs on its own timer without bc.lock, so it can fall between
			// AddMPTBatch and the commit; what reaches the disk must be what was committed before
			x.tickObs = upperObs(x)
			if _, err := x.ms.Persist(); err != nil {
				panic(err)
			}
			x.leakDisk = diffRaw(before, readRawStore(x.ps), true)
		}
		if !dropWithoutReload {
			// what storeBlock does on every error path after AddMPTBatch (blockchain.go, /repo c513b1a)
			x.mod.DropMPTBatch()
			x.inMemory = false
		}
		return sr.Root, ""
	}
	if _, err := cache.Persist(); err != nil {
		panic(err)
	}
	tr.Store = x.ms
	x.mod.UpdateCurrentLocal(tr, sr)
	x.height, x.any = idx, true
	return sr.Root, ""
}

func (x *modM) GC(g uint32) {
	x.Persist()
	x.mod.GC(g, x.ps)
}

func (x *modM) GCLow(g uint32)     { x.mod.GC(g, x.ps) }
func (x *modM) Upper() (view, int) { return readUpper(x.ms) }

// Reset = node restart: a new module over the same store, initialised at the current height.
func (x *modM) Reset() {
	x.mod = stateroot.NewModule(modeCfg(x.m), nil, zap.NewNop(), x.ms)
	if err := x.mod.Init(x.height); err != nil {
		panic(err)
	}
	x.inMemory = false
}

func (x *modM) Persist() {
	if _, err := x.ms.Persist(); err != nil {
		panic(err)
	}
}

func (x *modM) View() view { return readView(x.ms) }

func (x *modM) Get(root util.Uint256, key []byte) ([]byte, error) { return x.mod.GetState(root, key) }

func (x *modM) Find(root util.Uint256, prefix []byte) ([]storage.KeyValue, error) {
	return x.mod.FindStates(root, prefix, nil, 10000)
}

// readRaw dumps every key of the store (all prefixes), merged view.
func readRaw(s *storage.MemCachedStore) map[string][]byte {
	m := map[string][]byte{}
	for _, p := range []storage.KeyPrefix{storage.DataMPT, storage.DataMPTAux} {
		s.Seek(storage.SeekRange{Prefix: []byte{byte(p)}}, func(k, v []byte) bool {
			m[string(k)] = bytes.Clone(v)
			return true
		})
	}
	return m
}

// readRawStore dumps the DataMPT and DataMPTAux keys of a persistent store.
func readRawStore(s storage.Store) map[string][]byte {
	m := map[string][]byte{}
	for _, p := range []storage.KeyPrefix{storage.DataMPT, storage.DataMPTAux} {
		s.Seek(storage.SeekRange{Prefix: []byte{byte(p)}}, func(k, v []byte) bool {
			m[string(k)] = bytes.Clone(v)
			return true
		})
	}
	return m
}

// diffRaw describes the first difference between two dumps ("" = none). With exact=false only
// the key sets are compared (values may have been touched through shared slices).
func diffRaw(a, b map[string][]byte, exact bool) string {
	var ks []string
	for k := range a {
		ks = append(ks, k)
	}
	for k := range b {
		if _, ok := a[k]; !ok {
			ks = append(ks, k)
		}
	}
	sort.Strings(ks)
	for _, k := range ks {
		av, aok := a[k]
		bv, bok := b[k]
		switch {
		case aok && !bok:
			return fmt.Sprintf("key %x removed", k)
		case !aok && bok:
			return fmt.Sprintf("key %x added", k)
		case exact && !bytes.Equal(av, bv):
			return fmt.Sprintf("key %x changed from %x to %x", k, av, bv)
		}
	}
	return ""
}
