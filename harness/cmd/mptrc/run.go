package main

// One history on one machine: op lines for the driver, observations of the real code, and the
// property's oracles on the real store.

import (
	"bytes"
	"encoding/hex"
	"fmt"
	"sort"
	"strings"

	"github.com/nspcc-dev/neo-go/pkg/core/mpt"
	"github.com/nspcc-dev/neo-go/pkg/core/storage"
	"github.com/nspcc-dev/neo-go/pkg/util"

	"verif/harness/internal/hx"
)

type rec0 = rec

type rec struct {
	root util.Uint256
	cont map[string][]byte
}

type hist struct {
	o      *hx.Out
	k      int
	mode   string
	rcMode bool
	m      machine

	prev      view // the store as last summarised on a line
	last      view // the store after the last committed block / collection
	cont      map[string][]byte
	recs      map[uint32]*rec
	heights   []uint32
	gcDone    bool
	gcAt      uint32
	tied      bool
	rootOnly  bool // after a dropped block with the live trie in memory: only state roots are compared
	afterDrop bool
	dropWild  bool              // some dropped block was outside the model (contents unpredictable)
	spec      map[string][]byte // after a tied drop: the contents the property asks for (h.cont is then the as-built contents)
	dropKeys  map[string]bool   // failure keys already reported after a drop
	dead      bool              // the machine panicked or errored: the case is over
	probes    [][]byte
	persisted int64 // height of the last block at the time of the last persist (-1: nothing persisted yet)
}

func newHist(o *hx.Out, k int, mode string, m machine) *hist {
	h := &hist{o: o, k: k, mode: mode, rcMode: mode != "all", m: m, prev: view{}, last: view{}, cont: map[string][]byte{}, recs: map[uint32]*rec{}, tied: true, persisted: -1}
	h.line("mode "+mode, "ok")
	return h
}

func (h *hist) line(op, obs string) {
	if !h.tied {
		return
	}
	if h.rootOnly && !strings.HasPrefix(op, "blkq ") && !strings.HasPrefix(op, "dropold ") {
		return
	}
	h.o.Line(op, obs)
}

// fail reports an oracle failure. In the self-test mode that omits DropMPTBatch (dropWithoutReload)
// every failure key is reported once per case after a dropped block (the state is then corrupt in
// the way Props/C11 uncommitted_block_leaves_phantom describes); nothing is folded into known keys.
func (h *hist) fail(key string, format string, a ...any) {
	if h.afterDrop {
		if h.dropKeys == nil {
			h.dropKeys = map[string]bool{}
		}
		if h.dropKeys[key] {
			return
		}
		h.dropKeys[key] = true
	}
	h.o.Fail(key, h.k, "[%s/%s] "+format, append([]any{h.m.Name(), h.mode}, a...)...)
}

func subStr(ops []subop) string {
	var ws []string
	for _, o := range ops {
		switch o.kind {
		case 'p':
			ws = append(ws, "p:"+hx.Hex(o.key)+":"+hx.Hex(o.val))
		case 'd':
			ws = append(ws, "d:"+hx.Hex(o.key))
		case 'b':
			var es []string
			for _, c := range o.batch {
				if c.val == nil {
					es = append(es, hx.Hex(c.key)+"=del")
				} else {
					es = append(es, hx.Hex(c.key)+"="+hx.Hex(c.val))
				}
			}
			ws = append(ws, "b:"+strings.Join(es, ","))
		}
	}
	return strings.Join(ws, " ")
}

func applyOps(cont map[string][]byte, ops []subop) map[string][]byte {
	n := make(map[string][]byte, len(cont))
	for k, v := range cont {
		n[k] = v
	}
	for _, o := range ops {
		switch o.kind {
		case 'p':
			n[string(o.key)] = o.val
		case 'd':
			delete(n, string(o.key))
		case 'b':
			for _, c := range o.batch {
				if c.val == nil {
					delete(n, string(c.key))
				} else {
					n[string(c.key)] = c.val
				}
			}
		}
	}
	return n
}

// rootIsBranch: the root of a trie with these contents is a branch node iff the keys start with
// at least two different nibbles (keys are non-empty).
func rootIsBranch(cont map[string][]byte) bool {
	seen := map[byte]bool{}
	for k := range cont {
		seen[k[0]>>4] = true
	}
	return len(seen) >= 2
}

// block runs one committed block and all oracles.
func (h *hist) block(idx uint32, ops []subop) {
	h.prePersist()
	root, obs := h.m.Block(idx, ops, true)
	h.checkLeak(idx)
	if obs != "" {
		if !h.rootOnly {
			h.line(fmt.Sprintf("blk %d %s", idx, subStr(ops)), obs)
		}
		h.dead = true
		if obs == "panic" {
			h.fail("panic-in-block", "block %d panicked", idx)
		} else {
			h.fail("error-in-block", "block %d returned an error", idx)
		}
		return
	}
	if h.spec != nil {
		// after a tied drop: the property's contents (without the dropped changes) against the real
		// root — the known finding —, everything else against the as-built contents
		h.spec = applyOps(h.spec, ops)
		if rr := refRoot(h.spec); rr != root {
			h.fail("root-mismatch", "height %d: root %s, a fresh trie with the committed contents has %s", idx, root.StringBE(), rr.StringBE())
		}
	}
	h.committed(idx, ops, root, applyOps(h.cont, ops), h.rootOnly)
}

// committed records a committed block: observation line, bookkeeping, oracles.
// quiet: the store is not summarised on this line (a GC may be running concurrently).
func (h *hist) committed(idx uint32, ops []subop, root util.Uint256, cont map[string][]byte, quiet bool) {
	cur := h.m.View()
	h.countMoves(h.last, cur)
	h.last = cur
	if quiet {
		h.line(fmt.Sprintf("blkq %d %s", idx, subStr(ops)), "r="+hex.EncodeToString(root[:]))
	} else {
		h.line(fmt.Sprintf("blk %d %s", idx, subStr(ops)), "r="+hex.EncodeToString(root[:])+" "+storeObs(h.rcMode, h.prev, cur))
		h.prev = cur
	}
	h.cont = cont
	h.recs[idx] = &rec{root: root, cont: h.cont}
	h.heights = append(h.heights, idx)
	h.o.Count("block")
	h.o.Count("block:" + h.mode)
	if len(h.cont) == 0 {
		h.o.Count("block:empty-trie")
	}
	h.checkLatest(idx, cur, !quiet)
}

// countMoves records what happened to the records between two views (input distribution).
func (h *hist) countMoves(prev, cur view) {
	if !h.rcMode {
		return
	}
	for k, v := range cur {
		c, err := splitValue(true, v)
		if err != nil {
			continue
		}
		pv, ok := prev[k]
		if !ok {
			if c.active {
				h.o.Count("rec:created")
			}
			continue
		}
		pc, err := splitValue(true, pv)
		if err != nil {
			continue
		}
		switch {
		case !pc.active && c.active:
			h.o.Count("rec:reactivated-inactive")
		case pc.active && !c.active:
			h.o.Count("rec:deactivated")
		case pc.active && c.active && c.num > pc.num:
			h.o.Count("rec:count-up")
		case pc.active && c.active && c.num < pc.num:
			h.o.Count("rec:count-down")
		}
		if c.active && c.num >= 3 {
			h.o.Count("rec:count>=3")
		}
	}
	for k := range prev {
		if _, ok := cur[k]; !ok {
			h.o.Count("rec:deleted")
		}
	}
}

// sync summarises the store after quiet blocks / observed collections.
func (h *hist) sync() {
	cur := h.m.View()
	h.line("sync", storeObs(h.rcMode, h.prev, cur))
	h.prev, h.last = cur, cur
	h.checkRetained(cur, true)
}

// nodeGC records one tryRunGC of the node (g == nil: it decided not to collect). The driver's
// `rungc` predicts the decision and the index; the merged store is compared record by record.
func (h *hist) nodeGC(g *uint32) {
	cur := h.m.View()
	gs := "gc=-"
	if g != nil {
		gs = fmt.Sprintf("gc=%d", *g)
	}
	h.line("rungc", gs+" "+storeObs(h.rcMode, h.prev, cur))
	if len(cur) < len(h.last) {
		h.o.Count("gc:removed-something")
		h.o.Add("gc:records-removed", len(h.last)-len(cur))
	}
	h.prev, h.last = cur, cur
	if g == nil {
		h.o.Count("rungc:none")
		return
	}
	h.o.Count("rungc:collected")
	if !h.gcDone || *g > h.gcAt {
		h.gcAt = *g
	}
	h.gcDone = true
	if up, d := h.m.Upper(); len(up)+d > 0 {
		h.o.Count("rungc:collected-with-blocks-in-upper-layer")
	}
	// the collection ran on the persistent store; through the layers nothing inactive at or below
	// g may be visible (the layering condition holds on a node)
	for k, v := range cur {
		c, err := splitValue(true, v)
		if err == nil && !c.active && c.num <= *g {
			h.fail("gc-left-node", "node gc %d left %x inactive since %d", *g, k, c.num)
			break
		}
	}
	h.checkRetained(cur, true)
}

// gcObserved records a collection the node ran by itself.
func (h *hist) gcObserved(g uint32) {
	h.line(fmt.Sprintf("gcq %d", g), "ok")
	if !h.gcDone || g > h.gcAt {
		h.gcAt = g
	}
	h.gcDone = true
	h.o.Count("gc:by-node")
}

// checkLeak: AddMPTBatch works in the block's private cache; before the block is committed the
// module's own store must not have changed (this is independent of the shared-map defect: it is
// checked before afterDrop is set and never folded into the known keys).
func (h *hist) checkLeak(idx uint32) {
	x, ok := h.m.(*modM)
	if !ok {
		return
	}
	h.o.Count("precommit-store-checked")
	if x.copies {
		h.o.Count("precommit-store-checked:exact")
	}
	if x.leak != "" {
		key := "addmptbatch-writes-through" // byte-exact on every lower layer (956252a, bb76634: no slice of a lower layer is written any more)
		h.o.Fail(key, h.k, "[%s/%s] block %d: the module's store changed before the block was committed: %s", h.m.Name(), h.mode, idx, x.leak)
	}
	if x.tickObs != "" {
		h.o.Count("drop:persist-tick-before-commit")
	}
	if x.leakDisk != "" {
		h.o.Fail("uncommitted-reached-disk", h.k, "[%s/%s] block %d computed, persist tick, block never committed: the persistent store differs from what was committed before: %s", h.m.Name(), h.mode, idx, x.leakDisk)
	}
}

// drop computes a block and never commits it: AddMPTBatch, (persist tick,) DropMPTBatch — what
// storeBlock does when it fails after AddMPTBatch. It must leave no trace: the store is unchanged
// byte for byte and everything afterwards is checked against the contents WITHOUT the dropped block.
func (h *hist) drop(idx uint32, ops []subop) {
	if dropWithoutReload {
		h.dropOld(idx, ops)
		return
	}
	h.prePersist()
	root, obs := h.m.Block(idx, ops, false)
	h.checkLeak(idx)
	h.o.Count("drop")
	if obs != "" {
		h.dead = true
		h.fail("panic-in-block", "dropped block %d: %s", idx, obs)
		return
	}
	if rr := refRoot(applyOps(h.cont, ops)); rr != root {
		h.fail("dropped-root-mismatch", "dropped block %d: AddMPTBatch returned root %s, a fresh trie with those contents has %s", idx, root.StringBE(), rr.StringBE())
	}
	h.line(fmt.Sprintf("drop %d %s", idx, subStr(ops)), "r="+hex.EncodeToString(root[:]))
	if x, ok := h.m.(*modM); ok && x.tickObs != "" {
		h.notePersist(x.tickObs)
	}
	if cur := h.m.View(); !sameView(cur, h.last) {
		h.o.Fail("addmptbatch-writes-through", h.k, "[%s/%s] dropped block %d changed the node store below the cache", h.m.Name(), h.mode, idx)
	}
}

// dropOld: self-test mode (dropWithoutReload): the block is simply not committed.
func (h *hist) dropOld(idx uint32, ops []subop) {
	inMem := h.m.CanDrop() && rootIsBranch(h.cont) && rootIsBranch(applyOps(h.cont, ops))
	h.prePersist()
	root, obs := h.m.Block(idx, ops, false)
	h.checkLeak(idx)
	if !inMem {
		// which Go objects the shallow copy shares is outside the model here: stop comparing
		h.line("wild", "ok")
		h.tied = false
		h.dropWild = true
		h.o.Count("drop:wild")
	} else {
		h.o.Count("drop:tied")
		if !h.dropWild && obs == "" {
			// the module's trie is now the dropped block's trie (Model/MptRc.lean dropBlock)
			if h.spec == nil {
				h.spec = h.cont
			}
			h.cont = applyOps(h.cont, ops)
		}
	}
	if obs != "" {
		h.afterDrop = true
		h.dead = true
		h.fail("panic-in-block", "dropped block %d: %s", idx, obs)
		return
	}
	h.line(fmt.Sprintf("dropold %d %s", idx, subStr(ops)), "r="+hex.EncodeToString(root[:]))
	if x, ok := h.m.(*modM); ok && x.tickObs != "" {
		h.notePersist(x.tickObs)
	}
	// from here on the node store is no longer predictable (Flush mutates stored slices in place),
	// the state roots still are
	h.rootOnly = true
	if inMem {
		h.rootOnly = false
		h.o.Count("drop:tied-with-store")
	}
	h.afterDrop = true
	cur := h.m.View()
	if !sameView(cur, h.last) {
		// since 956252a / bb76634 nothing below the block's cache is written before a commit, on any
		// lower layer, restarted or not: never folded into the known keys
		h.o.Fail("addmptbatch-writes-through", h.k, "[%s/%s] dropped block %d changed the node store below the cache", h.m.Name(), h.mode, idx)
	}
}

// prePersist: see modM.PrePersist.
func (h *hist) prePersist() {
	if x, ok := h.m.(*modM); ok {
		if obs := x.PrePersist(); obs != "" {
			h.notePersist(obs)
		}
	}
}

// persist flushes the MemCachedStore of the machine to its persistent layer; the observation is
// what was waiting in it (the model's upper layer must hold the same number of puts / deletions).
func (h *hist) persist() {
	obs := upperObs(h.m)
	h.m.Persist()
	h.notePersist(obs)
}

func (h *hist) notePersist(obs string) {
	h.line("persist", obs)
	h.o.Count("persist")
	if len(h.heights) > 0 {
		h.persisted = int64(h.heights[len(h.heights)-1])
	}
}

func sameView(a, b view) bool {
	if len(a) != len(b) {
		return false
	}
	for k, v := range a {
		if w, ok := b[k]; !ok || !bytes.Equal(v, w) {
			return false
		}
	}
	return true
}

// gcl collects on the persistent layer while newer blocks wait in the MemCachedStore above it
// (MemCachedStore layering under GC). The model applies the collection to its lower layer only;
// when no inactive record with height <= g waits in the upper layer (the condition the node
// guarantees, checked here on the real stores), the result must also be the collection of the
// merged store.
func (h *hist) gcl(g uint32) {
	merged := h.m.View()
	upper, dels := h.m.Upper()
	cond := true
	expect := view{}
	for k, v := range merged {
		c, err := splitValue(true, v)
		old := err == nil && !c.active && c.num <= g
		if _, ok := upper[k]; ok && old {
			cond = false // an old inactive record sits in the upper layer
		}
		if !old {
			expect[k] = v
		}
	}
	h.countBoundary(g)
	h.m.GCLow(g)
	cur := h.m.View()
	h.line(fmt.Sprintf("gcl %d", g), fmt.Sprintf("up=%d/%d ", len(upper), dels)+storeObs(h.rcMode, h.prev, cur))
	if len(cur) < len(h.last) {
		h.o.Count("gc:removed-something")
		h.o.Add("gc:records-removed", len(h.last)-len(cur))
	}
	h.prev, h.last = cur, cur
	if !h.gcDone || g > h.gcAt {
		h.gcAt = g
	}
	h.gcDone = true
	h.o.Count("gcl")
	if int64(g) <= h.persisted {
		h.o.Count("gcl:index<=persisted-height")
	}
	if len(upper)+dels > 0 {
		h.o.Count("gcl:upper-layer-nonempty")
	}
	if cond {
		h.o.Count("gcl:condition-held")
		if !sameView(cur, expect) {
			h.fail("gc-layering-mismatch", "gc %d on the persistent layer: the merged view has %d records, collecting the merged store gives %d", g, len(cur), len(expect))
		}
	} else {
		h.o.Count("gcl:condition-violated")
	}
	h.checkRetained(cur, true)
}

// countBoundary: a collection whose index and some later committed height differ above the lowest
// byte of the stored little-endian height.
func (h *hist) countBoundary(g uint32) {
	for _, sh := range []uint{8, 16, 24} {
		for _, ht := range h.heights {
			if ht > g && ht>>sh != g>>sh {
				h.o.Count(fmt.Sprintf("gc:retained-window-straddles-2^%d", sh))
				break
			}
		}
	}
}

func (h *hist) gc(g uint32) {
	h.countBoundary(g)
	h.m.GC(g)
	if len(h.heights) > 0 {
		h.persisted = int64(h.heights[len(h.heights)-1])
	}
	cur := h.m.View()
	h.line(fmt.Sprintf("gc %d", g), storeObs(h.rcMode, h.prev, cur))
	if len(cur) < len(h.last) {
		h.o.Count("gc:removed-something")
		h.o.Add("gc:records-removed", len(h.last)-len(cur))
	}
	h.prev, h.last = cur, cur
	if !h.gcDone || g > h.gcAt {
		h.gcAt = g
	}
	h.gcDone = true
	h.o.Count("gc")
	// nothing inactive at or below g may be left; nothing else may have been touched
	for k, v := range cur {
		c, err := splitValue(true, v)
		if err == nil && !c.active && c.num <= g {
			h.fail("gc-left-node", "gc %d left %x inactive since %d", g, k, c.num)
			break
		}
	}
	h.checkRetained(cur, true)
}

func (h *hist) reset() {
	if len(h.heights) > 0 && isZero(h.recs[h.heights[len(h.heights)-1]].root) {
		// a module restarted on the empty trie wraps the zero root into a HashNode and fails on the
		// next batch; a real chain never has an empty state, not generated
		return
	}
	if h.afterDrop {
		// the restarted module reads the trie back from the store, where the nodes of a dropped
		// block were never written: outside the model (which keeps the live trie expanded)
		h.tied = false
	}
	h.m.Reset()
	h.line("reset", "ok")
	h.o.Count("reset")
}

// refRoot builds a fresh trie (ModeAll) from the contents with single Puts in key order.
func refRoot(cont map[string][]byte) util.Uint256 {
	tr := mpt.NewTrie(nil, mpt.ModeAll, storage.NewMemCachedStore(storage.NewMemoryStore()))
	ks := make([]string, 0, len(cont))
	for k := range cont {
		ks = append(ks, k)
	}
	sort.Strings(ks)
	for _, k := range ks {
		if err := tr.Put([]byte(k), cont[k]); err != nil {
			panic(err)
		}
	}
	return tr.StateRoot()
}

func sameCont(a, b map[string][]byte) bool {
	if len(a) != len(b) {
		return false
	}
	for k, v := range a {
		if w, ok := b[k]; !ok || !bytes.Equal(v, w) {
			return false
		}
	}
	return true
}

// checkLatest: the store against the latest trie.
func (h *hist) checkLatest(idx uint32, cur view, withRetained bool) {
	r := h.recs[idx]
	if rr := refRoot(r.cont); rr != r.root {
		key := "root-mismatch"
		if h.spec != nil {
			key = "root-mismatch-as-built" // not even the dropped block's changes explain the root
		}
		h.fail(key, "height %d: root %s, a fresh trie with the same contents has %s", idx, r.root.StringBE(), rr.StringBE())
	}
	w := newWalker(cur, h.rcMode)
	if !isZero(r.root) {
		if e := w.walk(rootKey(r.root), nil); e != nil {
			h.fail("latest:"+e.key, "height %d: node %s: %s", idx, e.hash, e.msg)
			return
		}
	}
	if !sameCont(w.cont, r.cont) {
		h.fail("latest:content-mismatch", "height %d: walking the store from the root gives %d pairs, expected %d", idx, len(w.cont), len(r.cont))
	}
	shared, sharedInner := false, false
	for hs, n := range w.occ {
		if n > 1 {
			shared = true
			if b := w.cells[hs].bytes; len(b) > 0 && b[0] != 2 {
				sharedInner = true
			}
		}
	}
	if shared {
		h.o.Count("block:with-shared-node")
	}
	if sharedInner {
		h.o.Count("block:with-shared-branch-or-ext")
	}
	if !h.rcMode {
		if withRetained {
			h.checkRetained(cur, false)
		}
		return
	}
	for hs, n := range w.occ {
		c := w.cells[hs]
		if !c.active {
			h.fail("reachable-inactive", "height %d: node %x of the latest trie is inactive since %d", idx, hs, c.num)
			return
		}
		if int(c.num) != n {
			h.fail("count-mismatch", "height %d: node %x occurs %d times in the latest trie, stored count %d", idx, hs, n, c.num)
			return
		}
	}
	for hs, v := range cur {
		if _, ok := w.occ[hs]; ok {
			continue
		}
		c, err := splitValue(true, v)
		if err != nil {
			h.fail("node-bad-suffix", "height %d: %x: %v", idx, hs, err)
			return
		}
		if h.mode == "latest" {
			h.fail("garbage-node", "height %d: %x (active=%v num=%d) is not in the latest trie", idx, hs, c.active, c.num)
			return
		}
		if c.active {
			h.fail("unreachable-active", "height %d: %x is active with count %d but not in the latest trie", idx, hs, c.num)
			return
		}
		if c.num > idx {
			h.fail("inactive-future-height", "height %d: %x inactive since %d", idx, hs, c.num)
			return
		}
		h.o.Count("inactive-node-seen")
	}
	if h.mode == "gc" && withRetained {
		h.checkRetained(cur, false)
	}
}

// checkRetained: every retained root is fully present (walk + API reads); roots below the window
// fail cleanly.
func (h *hist) checkRetained(cur view, all bool) {
	latest := h.heights
	if len(latest) == 0 {
		return
	}
	top := latest[len(latest)-1]
	for i, ht := range h.heights {
		r := h.recs[ht]
		retained := true
		switch h.mode {
		case "latest":
			retained = ht == top
		case "gc":
			retained = !h.gcDone || ht >= h.gcAt
		}
		// sample inner heights unless asked for all of them
		if !all && ht != top && (int(ht)+len(h.heights)+i)%3 != 0 {
			continue
		}
		if retained {
			h.o.Count("retained-root-checked")
			w := newWalker(cur, h.rcMode)
			if h.mode == "gc" {
				hh := ht
				w.check = func(hs string, c cell) *walkErr {
					if !c.active && c.num <= hh {
						return &walkErr{"early-inactive", hex.EncodeToString([]byte(hs)), fmt.Sprintf("inactive since %d, needed by the root of height %d", c.num, hh)}
					}
					return nil
				}
			}
			if !isZero(r.root) {
				if e := w.walk(rootKey(r.root), nil); e != nil {
					h.fail("retained:"+e.key, "root of height %d (gc at %d): node %s: %s", ht, h.gcAt, e.hash, e.msg)
					continue
				}
			}
			if !sameCont(w.cont, r.cont) {
				h.fail("retained:content-mismatch", "root of height %d: store gives %d pairs, expected %d", ht, len(w.cont), len(r.cont))
			}
		} else {
			h.o.Count("stale-root-checked")
		}
		h.apiReads(ht, r, retained, all || !retained)
	}
}

func (h *hist) apiReads(ht uint32, r *rec, retained bool, emit bool) {
	if isZero(r.root) {
		return
	}
	for pi, key := range h.probes {
		want, present := r.cont[string(key)]
		var got []byte
		var err error
		p := hx.Safe(func() string {
			got, err = h.m.Get(r.root, key)
			return ""
		})
		obs := "none"
		if p == "panic" {
			obs = "panic"
			h.fail("read-panic", "Get(root of %d, %x) panicked", ht, key)
		} else if err == nil {
			obs = hx.Hex(got)
		}
		if pi < 4 && emit {
			h.line(fmt.Sprintf("get %d %s", ht, hx.Hex(key)), obs)
		}
		switch {
		case retained && present && (err != nil || !bytes.Equal(got, want)):
			h.fail("retained-get-mismatch", "root of height %d key %x: got %x err %v, want %x", ht, key, got, err, want)
		case retained && !present && err == nil:
			h.fail("retained-get-absent", "root of height %d key %x: got %x for an absent key", ht, key, got)
		case !retained && err == nil && (!present || !bytes.Equal(got, want)):
			h.fail("stale-wrong-value", "stale root of height %d key %x: got %x, the state of that height had %x (present=%v)", ht, key, got, want, present)
		}
		if !retained {
			if err != nil {
				h.o.Count("stale-read:error")
			} else {
				h.o.Count("stale-read:value")
			}
		} else {
			h.o.Count("retained-read")
		}
	}
	// Find over one-byte prefixes
	seen := map[byte]bool{}
	for _, key := range h.probes {
		if seen[key[0]] || len(seen) >= 3 {
			continue
		}
		seen[key[0]] = true
		pre := []byte{key[0]}
		var exp []string
		for k := range r.cont {
			if k[0] == key[0] {
				exp = append(exp, k)
			}
		}
		sort.Strings(exp)
		var res []storage.KeyValue
		var err error
		p := hx.Safe(func() string {
			res, err = h.m.Find(r.root, pre)
			return ""
		})
		if p == "panic" {
			h.fail("read-panic", "Find(root of %d, %x) panicked", ht, pre)
			continue
		}
		ok := err == nil && len(res) == len(exp)
		if ok {
			for i := range res {
				if string(res[i].Key) != exp[i] || !bytes.Equal(res[i].Value, r.cont[exp[i]]) {
					ok = false
				}
			}
		}
		if err != nil && len(exp) == 0 {
			ok = true // Find reports an error when nothing has the prefix
		}
		switch {
		case retained && !ok:
			h.fail("retained-find-mismatch", "root of height %d prefix %x: %d results err %v, want %d", ht, pre, len(res), err, len(exp))
		case !retained && err == nil && !ok:
			h.fail("stale-find-wrong", "stale root of height %d prefix %x: %d results without an error, the state had %d", ht, pre, len(res), len(exp))
		}
		h.o.Count("find")
	}
}
