package main

// Hand-written histories, run first (cases 0..len(corpus)-1).

import (
	"encoding/hex"
	"strings"

	"verif/harness/internal/hx"
	"verif/harness/internal/prng"
)

func hb(s string) []byte {
	if s == "-" || s == "" {
		return []byte{}
	}
	b, err := hex.DecodeString(s)
	if err != nil {
		panic(err)
	}
	return b
}

// B("12=aa", "13=del") is one batch sub-operation.
func B(es ...string) []subop {
	var cs []change
	for _, e := range es {
		p := strings.SplitN(e, "=", 2)
		if p[1] == "del" {
			cs = append(cs, change{hb(p[0]), nil})
		} else {
			cs = append(cs, change{hb(p[0]), hb(p[1])})
		}
	}
	return []subop{{kind: 'b', batch: dedupe(cs)}}
}

func P(k, v string) subop { return subop{kind: 'p', key: hb(k), val: hb(v)} }
func D(k string) subop    { return subop{kind: 'd', key: hb(k)} }

func probes(ks ...string) [][]byte {
	var r [][]byte
	for _, k := range ks {
		r = append(r, hb(k))
	}
	return r
}

var corpus = []func(o *hx.Out, k int){
	// 0: one leaf at three positions, dropped one by one, re-created (ModeLatest, module)
	func(o *hx.Out, k int) {
		h := newHist(o, k, "latest", newModM("latest"))
		h.probes = probes("1201", "1202", "34", "56")
		h.block(0, B("1201=aa", "1202=aa", "34=aa", "56=bb"))
		h.block(1, B("1201=del"))
		h.block(2, B("1202=del", "34=del"))
		h.block(3, B("34=aa", "1201=aa"))
		h.block(4, B())
		h.block(5, B("1201=del", "34=del", "56=del"))
		h.block(6, B("56=bb"))
		h.checkRetained(h.m.View(), true)
	},
	// 1: delete-then-recreate around GC (ModeGC, module): a node inactive and collected, a node
	// re-activated before the collection, reads of retained and stale roots
	func(o *hx.Out, k int) {
		h := newHist(o, k, "gc", newModM("gc"))
		h.probes = probes("1201", "1202", "1301", "77")
		h.block(0, B("1201=aa", "1202=bb", "1301=cc"))
		h.block(1, B("1202=del"))
		h.block(2, B("1202=bb")) // the nodes of height 0 come back while inactive
		h.block(3, B("1301=del"))
		h.gc(2)
		h.block(4, B("1301=cc", "1202=del"))
		h.gc(4)
		h.block(5, B("1201=del", "1301=del"))
		h.gc(5)
		h.block(6, B("1201=aa", "1202=bb", "1301=cc"))
		h.checkRetained(h.m.View(), true)
	},
	// 2: the same branch at two positions, one of them modified (ModeLatest, bare trie, single ops)
	func(o *hx.Out, k int) {
		h := newHist(o, k, "latest", newTrieM("latest"))
		h.probes = probes("3101", "3102", "5101", "5102", "31")
		h.block(0, []subop{P("3101", "aa"), P("3102", "bb"), P("5101", "aa"), P("5102", "bb")})
		h.block(1, []subop{P("3101", "cc")})
		h.block(2, []subop{P("3101", "aa")})
		h.block(3, []subop{D("5102"), D("3102")})
		h.block(4, []subop{D("5101"), P("31", "-"), P("3101", "-")})
		h.block(5, []subop{D("31"), D("3101")})
		h.checkRetained(h.m.View(), true)
	},
	// 3: a block computed and never committed, then the next block (DESIGN §6 item 11)
	func(o *hx.Out, k int) {
		h := newHist(o, k, "latest", newModM("latest"))
		h.probes = probes("1201", "3401", "5601")
		h.block(0, B("1201=aa", "3401=bb"))
		h.drop(1, B("5601=cc"))
		h.block(1, B("1201=dd"))
		if !h.dead {
			h.block(2, B("3401=del"))
		}
	},
	// 4: keys that are prefixes of one another, empty values, the branch's own value slot (ModeGC, bare trie)
	func(o *hx.Out, k int) {
		h := newHist(o, k, "gc", newTrieM("gc"))
		h.probes = probes("12", "1234", "123456", "13")
		h.block(0, []subop{P("1234", "-"), P("12", "-"), P("123456", "aa")})
		h.block(1, []subop{D("12")})
		h.block(2, append(B("12=-", "1234=del"), D("123456")))
		h.gc(1)
		h.block(3, []subop{P("1234", "-"), P("123456", "aa")})
		h.gc(3)
		h.reset()
		h.block(4, B("13=aa", "12=del"))
		h.checkRetained(h.m.View(), true)
	},
	// 5: everything kept (ModeAll): no record is ever removed or counted
	func(o *hx.Out, k int) {
		h := newHist(o, k, "all", newModM("all"))
		h.probes = probes("1201", "1202", "34")
		h.block(0, B("1201=aa", "1202=aa", "34=aa"))
		h.block(1, B("1201=del", "1202=del", "34=del"))
		h.block(2, B("1201=aa"))
		h.reset()
		h.block(3, B("1202=aa", "34=bb"))
		h.checkRetained(h.m.View(), true)
	},
	// 6: a dropped block over a persistent layer that hands out copies: nothing below the block's
	// cache may change before a commit (AddMPTBatch must write into the cache only)
	func(o *hx.Out, k int) {
		m := newModMOn("latest", "copy")
		defer m.Close()
		h := newHist(o, k, "latest", m)
		h.probes = probes("1201", "3401", "5601")
		h.block(0, B("1201=aa", "3401=bb"))
		h.block(1, B("1201=cc", "7801=aa"))
		h.drop(2, B("5601=cc", "3401=del"))
		h.block(2, B("1201=dd"))
	},
	// 7: AddMPTBatch, a persist tick of the node, and the block is never committed
	// (seed C11-m4): nothing of the block may reach the persistent store; then the chain goes on
	func(o *hx.Out, k int) {
		m := newModMOn("gc", "copy")
		defer m.Close()
		m.tick = true
		h := newHist(o, k, "gc", m)
		h.probes = probes("1201", "3401", "5601", "1202")
		h.block(0, B("1201=aa", "1202=aa", "3401=bb"))
		h.block(1, B("1202=del", "7801=aa"))
		h.drop(2, B("1201=del", "5601=cc", "3401=dd"))
		h.block(2, B("1202=aa"))
		if !h.dead {
			h.gcl(1)
			h.block(3, B("1201=del"))
		}
	},
	// 8: the collection on the persistent store while the upper layer holds the newer
	// blocks (MemCachedStore layering): index below, then inside the range of the waiting records
	func(o *hx.Out, k int) {
		h := newHist(o, k, "gc", newModM("gc"))
		h.probes = probes("1201", "1202", "1301", "77")
		h.block(0, B("1201=aa", "1202=bb", "1301=cc"))
		h.block(1, B("1202=del"))
		h.persist()
		h.block(2, B("1301=del"))
		h.block(3, B("1202=bb", "1301=cc"))
		h.gcl(1) // what a node does: the index is not above the persisted height
		h.block(4, B("1201=del"))
		h.gcl(4) // the records deactivated at 2..4 wait in the upper layer and survive
		h.persist()
		h.gcl(4)
		h.checkRetained(h.m.View(), true)
	},
	// 9, 10: BYTE BOUNDARIES of the stored height (seed C11-m8): nodes deactivated at 256 must survive
	// GC(255) (the root of 255 stays readable) and go with GC(256); nodes deactivated at 255 go with
	// GC(255); the same around 65535 / 65536 — a bytewise comparison of the little-endian height
	// gets both wrong
	func(o *hx.Out, k int) { corpusBoundary(o, k, 254) },
	func(o *hx.Out, k int) { corpusBoundary(o, k, 65534) },
	// 11: TWIN SUB-TRIES (seed C11-m7): a sub-trie (branch + extension + leaves) exists under 31…; after a
	// restart (empty refcount map) the identical sub-trie is created under 51… — its branch / extension
	// nodes are already in the store, their counters must go 1 -> 2 —; then one reference is removed:
	// the nodes must survive with count 1 and the other copy must stay readable; collection, restart,
	// the second reference removed: now they go
	func(o *hx.Out, k int) {
		m := newModMOn("gc", "copy")
		defer m.Close()
		h := newHist(o, k, "gc", m)
		h.probes = probes("3101", "3112", "5101", "5112", "77")
		h.block(0, B("3101=aa", "3102=bb", "3112=cc", "77=dd"))
		h.reset()
		h.block(1, B("5101=aa", "5102=bb", "5112=cc"))
		h.block(2, B("3101=del", "3102=del", "3112=del"))
		h.gc(2)
		h.reset()
		h.block(3, B("5101=del", "5102=del", "5112=del"))
		h.gc(3)
		h.block(4, B("3101=aa", "3102=bb", "3112=cc"))
		h.checkRetained(h.m.View(), true)
	},
	// 12: regression for bb76634 (the residual of 956252a, now repaired): a leaf at three positions, restart (the trie is re-loaded lazily, the
	// refcount entry of the leaf gets the STORE's slice as its bytes when the second copy is
	// resolved: trie.go getFromStore), two copies removed in one block: updateRefCount appends the
	// suffix to that slice and the stored counter changed (3 -> 1) before the block was committed;
	// must pass now (pre-commit oracle, byte-exact)
	func(o *hx.Out, k int) {
		h := newHist(o, k, "latest", newModM("latest"))
		h.probes = probes("3101", "5101", "7101", "9901")
		h.block(0, B("3101=aa", "5101=aa", "7101=aa", "9901=bb"))
		h.reset()
		h.block(1, B("3101=del", "5101=del"))
		h.block(2, B("7101=del"))
		h.checkRetained(h.m.View(), true)
	},
	// 13: state jump (seed C11-m5): a module at genesis is cleaned, the sync point's trie (a leaf at
	// three positions) restored with a persist before every node and JumpToState; the next block
	// removes two copies and a key: in ModeGC the dropped nodes must be marked inactive with the
	// height, the sync point's root stays readable; collection, restart, more blocks; a replica that
	// processed the blocks itself must hold the same records
	func(o *hx.Out, k int) {
		p := newPairM("gc", "copy")
		defer p.Close()
		h := newHist(o, k, "gc", p)
		h.probes = probes("1201", "1202", "3401", "5601")
		h.block(0, B("7701=ee", "1201=aa"))
		h.persist()
		r := prng.New(5)
		h.jump(p, 5, map[string][]byte{"\x12\x01": {0xaa}, "\x12\x02": {0xaa}, "\x34\x01": {0xbb}, "\x56\x01": {0xaa}}, r, 1)
		h.block(6, B("1201=del", "3401=del"))
		h.cmpReplica(p)
		h.block(7, B("1202=del", "5601=cc"))
		h.cmpReplica(p)
		h.gcl(5)
		h.cmpReplica(p)
		h.gc(6)
		h.cmpReplica(p)
		h.reset()
		h.block(8, B("1201=aa"))
		h.cmpReplica(p)
		h.checkRetained(h.m.View(), true)
	},
	// 14, 15: state-sync restore of a trie with the same sub-trie at two paths, flushed to a copying
	// persistent layer before every restoration; then copies are removed and everything is read
	func(o *hx.Out, k int) { corpusRestore(o, k, "copy") },
	func(o *hx.Out, k int) { corpusRestore(o, k, "bolt") },
}

func corpusBoundary(o *hx.Out, k int, base uint32) {
	m := newModM("gc")
	defer m.Close()
	h := newHist(o, k, "gc", m)
	h.probes = probes("1201", "1202", "1301", "77")
	h.block(base, B("1201=aa", "1202=bb", "1301=cc"))
	h.block(base+1, B("1202=del"))          // deactivated at 255 / 65535
	h.block(base+2, B("1301=del", "77=ee")) // deactivated at 256 / 65536
	h.block(base+3, B("1201=dd"))           // deactivated at 257 / 65537
	h.gc(base + 1)                          // G = 255: what was deactivated at 256 is needed by the root of 255
	h.gcl(base + 1)
	h.block(base+4, B("77=del"))
	h.gc(base + 2)
	h.checkRetained(h.m.View(), true)
}

func corpusRestore(o *hx.Out, k int, lower string) {
	r := prng.New(77)
	g := newGen(r, o, false)
	cont := map[string][]byte{}
	for _, p := range []byte{0x31, 0x51} {
		cont[string([]byte{p, 0x01})] = []byte{0xaa}
		cont[string([]byte{p, 0x02})] = []byte{0xbb}
		cont[string([]byte{p, 0x12})] = []byte{0xaa}
	}
	cont[string([]byte{0x77})] = []byte{0xaa}
	g.pool = append(g.pool, []byte{0x31, 0x01}, []byte{0x51, 0x01}, []byte{0x31, 0x02}, []byte{0x51, 0x12})
	restoreRun(o, k, r, "latest", lower, cont, g, 1)
}
