package main

// State jump: a stateroot.Module at genesis gets its storage cleaned (CleanStorage), the trie of a
// sync point restored node by node (Billet.RestoreHashNode, persists in between) and
// Module.JumpToState; then it goes on with blocks, collections, restarts. The node store is compared
// record by record with the model (whose `jump` installs the restored trie in the module's own mode)
// and with a replica module that processed all blocks itself.

import (
	"bytes"
	"encoding/hex"
	"fmt"
	"sort"
	"strings"

	"github.com/nspcc-dev/neo-go/pkg/core/mpt"
	"github.com/nspcc-dev/neo-go/pkg/core/state"
	"github.com/nspcc-dev/neo-go/pkg/core/storage"
	"github.com/nspcc-dev/neo-go/pkg/io"
	"github.com/nspcc-dev/neo-go/pkg/util"

	"verif/harness/internal/hx"
	"verif/harness/internal/prng"
)

// pairM: the module under test and a replica that never jumps; every operation goes to both.
type pairM struct {
	*modM
	rep     *modM
	repNote string // first divergence of the replica's state roots
	jumpIdx uint32
}

func newPairM(mode, lower string) *pairM {
	return &pairM{modM: newModMOn(mode, lower), rep: newModMOn(mode, lower)}
}

func (p *pairM) Close()        { p.modM.Close(); p.rep.Close() }
func (p *pairM) CanDrop() bool { return false }
func (p *pairM) Block(idx uint32, ops []subop, commit bool) (util.Uint256, string) {
	root, obs := p.modM.Block(idx, ops, commit)
	rr, robs := p.rep.Block(idx, ops, commit)
	if p.repNote == "" && (robs != obs || (obs == "" && rr != root)) {
		p.repNote = fmt.Sprintf("block %d: root %s obs %q, replica root %s obs %q", idx, root.StringBE(), obs, rr.StringBE(), robs)
	}
	return root, obs
}
func (p *pairM) GC(g uint32)    { p.modM.GC(g); p.rep.GC(g) }
func (p *pairM) GCLow(g uint32) { p.modM.GCLow(g); p.rep.GCLow(g) }
func (p *pairM) Reset()         { p.modM.Reset(); p.rep.Reset() }
func (p *pairM) Persist()       { p.modM.Persist(); p.rep.Persist() }

// batchTo is the change set leading from one contents map to another.
func batchTo(from, to map[string][]byte) []subop {
	var cs []change
	for k, v := range to {
		if w, ok := from[k]; !ok || !bytes.Equal(v, w) {
			cs = append(cs, change{[]byte(k), v})
		}
	}
	for k := range from {
		if _, ok := to[k]; !ok {
			cs = append(cs, change{[]byte(k), nil})
		}
	}
	sort.Slice(cs, func(i, j int) bool { return bytes.Compare(cs[i].key, cs[j].key) < 0 })
	return []subop{{kind: 'b', batch: cs}}
}

// jump: CleanStorage + Billet restore of the trie with contents cont + JumpToState(idx) on the module
// under test; the replica gets there by a block.
func (h *hist) jump(p *pairM, idx uint32, cont map[string][]byte, r *prng.R, persistP int) {
	h.o.Count("jump")
	// source trie, everything kept
	src := storage.NewMemCachedStore(storage.NewMemoryStore())
	tr := mpt.NewTrie(nil, mpt.ModeAll, src)
	ks := make([]string, 0, len(cont))
	for kk := range cont {
		ks = append(ks, kk)
	}
	sort.Strings(ks)
	var es []string
	for _, kk := range ks {
		if err := tr.Put([]byte(kk), cont[kk]); err != nil {
			panic(err)
		}
		es = append(es, hx.Hex([]byte(kk))+"="+hx.Hex(cont[kk]))
	}
	tr.Flush(0)
	root := tr.StateRoot()
	sv := readView(src)

	if err := p.mod.CleanStorage(); err != nil {
		h.fail("harness-clean-storage", "%v", err)
		h.dead = true
		return
	}
	b := mpt.NewBillet(root, trieMode(p.m), storage.STTempStorage, p.ms)
	var sched []byte
	var restoreErr string
	var rec func(hs []byte, path []byte)
	rec = func(hs []byte, path []byte) {
		if restoreErr != "" {
			return
		}
		raw := sv[string(hs)]
		n, err := parseNode(raw)
		if err != nil {
			panic(err)
		}
		var no mpt.NodeObject
		rd := io.NewBinReaderFromBuf(raw)
		no.DecodeBinary(rd)
		if rd.Err != nil {
			panic(rd.Err)
		}
		if persistP > 0 && r.Chance(1, persistP) {
			if _, err := p.ms.Persist(); err != nil {
				panic(err)
			}
			sched = append(sched, '1')
		} else {
			sched = append(sched, '0')
		}
		if obs := hx.Safe(func() string {
			if err := b.RestoreHashNode(bytes.Clone(path), no.Node); err != nil {
				return "err:" + err.Error()
			}
			return ""
		}); obs != "" {
			restoreErr = fmt.Sprintf("%s at path %x", obs, path)
			return
		}
		switch n.typ {
		case 0:
			for i := 0; i < 16; i++ {
				if n.kids[i] != nil {
					rec(n.kids[i], append(bytes.Clone(path), byte(i)))
				}
			}
			if n.kids[16] != nil {
				rec(n.kids[16], path)
			}
		case 1:
			rec(n.next, append(bytes.Clone(path), n.key...))
		}
	}
	if !isZero(root) {
		rec(rootKey(root), nil)
	}
	if restoreErr != "" {
		h.fail("restore-failed", "%s", restoreErr)
		h.dead = true
		return
	}
	p.mod.JumpToState(&state.MPTRoot{Index: idx, Root: root})
	p.height, p.any, p.inMemory = idx, true, false
	p.jumpIdx = idx
	// the replica processes a block that leads to the same contents
	if rr, robs := p.rep.Block(idx, batchTo(h.cont, cont), true); robs != "" || rr != root {
		h.fail("harness-replica", "replica block %d: root %s obs %q, sync point root %s", idx, rr.StringBE(), robs, root.StringBE())
	}
	cur := h.m.View()
	up := upperObs(h.m)
	if len(sched) == 0 {
		sched = []byte("-")
	}
	kvs := strings.Join(es, ",")
	if kvs == "" {
		kvs = "-"
	}
	h.line(fmt.Sprintf("jump %d %s %s", idx, kvs, sched), "r="+hex.EncodeToString(root[:])+" "+up+" "+storeObs(h.rcMode, h.prev, cur))
	h.prev, h.last = cur, cur
	h.cont = cont
	// the states of the heights before the sync point went with the storage
	h.recs = map[uint32]*rec0{idx: {root: root, cont: cont}}
	h.heights = []uint32{idx}
	h.checkLatest(idx, cur, true)
	h.cmpReplica(p)
}

// cmpReplica: every record of the jumped module is, byte for byte, a record of the replica; what the
// replica has in addition are leftovers from before the sync point (ModeGC: inactive since a height
// not above it; ModeAll: anything; ModeLatest: nothing). Records a collection may remove (inactive, at
// or below the largest index used) are not compared: the two upper layers hide different ones.
func (h *hist) cmpReplica(p *pairM) {
	if h.dead {
		return
	}
	h.o.Count("jump:replica-compared")
	if p.repNote != "" {
		h.fail("jump-replica-mismatch", "state roots: %s", p.repNote)
		return
	}
	pv, rv := p.View(), readView(p.rep.ms)
	// a collection on the persistent layer reaches different records on the two modules (their upper
	// layers differ): an inactive record at or below the largest collection index may be on one side only
	collectable := func(v []byte) bool {
		c, err := splitValue(true, v)
		return h.mode == "gc" && h.gcDone && err == nil && !c.active && c.num <= h.gcAt
	}
	for k, v := range pv {
		if _, ok := rv[k]; !ok && collectable(v) {
			continue
		}
		if w, ok := rv[k]; !ok || !bytes.Equal(v, w) {
			h.fail("jump-replica-mismatch", "record %x: %s after the jump, %s on the replica that processed all blocks (present=%v)", k, tagOf(h.rcMode, v), tagOf(h.rcMode, w), ok)
			return
		}
	}
	for k, w := range rv {
		if _, ok := pv[k]; ok {
			continue
		}
		switch h.mode {
		case "latest":
			h.fail("jump-replica-mismatch", "record %x (%s) only on the replica", k, tagOf(true, w))
			return
		case "gc":
			c, err := splitValue(true, w)
			if collectable(w) {
				continue
			}
			if err != nil || c.active || c.num > p.jumpIdx {
				h.fail("jump-replica-mismatch", "record %x (%s) of the replica is missing after the jump (sync point %d)", k, tagOf(true, w), p.jumpIdx)
				return
			}
		}
	}
}

func runJumpCase(o *hx.Out, f *hx.Flags, k int, r *prng.R) {
	mode := []string{"gc", "latest", "all"}[r.Weighted([]int{4, 2, 1})]
	lower := []string{"mem", "copy", "bolt"}[r.Weighted([]int{3, 4, 1})]
	o.Count("case:jump/" + mode)
	p := newPairM(mode, lower)
	defer p.Close()
	h := newHist(o, k, mode, p)
	g := newGen(r, o, r.Chance(1, 3))
	h.probes = pickProbes(r, g.pool)
	h.block(0, g.blockOps(h.cont, true, 4))
	if h.dead {
		return
	}
	if r.Bool() {
		h.persist()
	}
	cont := map[string][]byte{}
	for kk, v := range h.cont {
		if r.Bool() {
			cont[kk] = v
		}
	}
	g.changes(cont, r.Range(1, 20))
	if len(cont) == 0 {
		cont[string(g.pool[0])] = []byte{0xaa}
	}
	idx := uint32(r.Range(2, 9)) + baseHeight(r, o)
	h.jump(p, idx, cont, r, r.Range(0, 4))
	sig := "jump/" + mode
	nb := r.Range(3, 9)
	if f.Tier == "thorough" {
		nb = r.Range(4, 16)
	}
	for i := 0; i < nb && !h.dead; i++ {
		idx++
		ops := g.blockOps(h.cont, true, 6)
		h.block(idx, ops)
		sig += fmt.Sprintf("b%d", len(ops[0].batch))
		if h.dead {
			break
		}
		h.cmpReplica(p)
		if mode == "gc" && r.Chance(1, 3) {
			gi := int(idx) - r.Intn(4)
			if gi < 0 {
				gi = 0
			}
			if r.Bool() {
				h.gc(uint32(gi))
			} else {
				h.gcl(uint32(gi))
			}
			sig += "G"
			h.cmpReplica(p)
		}
		if r.Chance(1, 4) {
			h.persist()
		}
		if i >= 2 && r.Chance(1, 6) {
			h.reset()
			sig += "R"
		}
	}
	if !h.dead {
		h.checkRetained(h.m.View(), true)
	}
	o.Seen(fmt.Sprintf("%s:%d:%x", sig, len(h.cont), r.U64()&0xffff))
}
