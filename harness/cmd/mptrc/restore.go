package main

// State-sync restore (billet.go): every (node, path) of a source trie is handed to
// Billet.RestoreHashNode once, parents first; the destination store must end up exact.

import (
	"bytes"
	"encoding/hex"
	"fmt"
	"sort"
	"strings"

	"github.com/nspcc-dev/neo-go/pkg/core/mpt"
	"github.com/nspcc-dev/neo-go/pkg/core/storage"
	"github.com/nspcc-dev/neo-go/pkg/io"
	"github.com/nspcc-dev/neo-go/pkg/util"

	"verif/harness/internal/hx"
	"verif/harness/internal/prng"
)

func runRestoreCase(o *hx.Out, f *hx.Flags, k int, r *prng.R) {
	mode := []string{"latest", "gc", "all"}[r.Weighted([]int{3, 2, 1})]
	o.Count("case:restore/" + mode)
	o.Line("mode "+mode, "ok")
	g := newGen(r, o, r.Chance(1, 3))
	cont := map[string][]byte{}
	g.changes(cont, r.Range(1, 25))
	if len(cont) == 0 {
		cont[string(g.pool[0])] = []byte{0xaa}
	}
	// source trie, everything kept
	src := storage.NewMemCachedStore(storage.NewMemoryStore())
	tr := mpt.NewTrie(nil, mpt.ModeAll, src)
	ks := make([]string, 0, len(cont))
	for kk := range cont {
		ks = append(ks, kk)
	}
	sort.Strings(ks)
	var es []string
	for _, kk := range ks {
		if err := tr.Put([]byte(kk), cont[kk]); err != nil {
			panic(err)
		}
		es = append(es, hx.Hex([]byte(kk))+"="+hx.Hex(cont[kk]))
	}
	tr.Flush(0)
	root := tr.StateRoot()
	sv := readView(src)

	dst := storage.NewMemCachedStore(storage.NewMemoryStore())
	b := mpt.NewBillet(root, trieMode(mode), storage.STTempStorage, dst)
	var restoreErr string
	positions := 0
	var rec func(h []byte, path []byte)
	rec = func(h []byte, path []byte) {
		if restoreErr != "" {
			return
		}
		raw := sv[string(h)]
		n, err := parseNode(raw)
		if err != nil {
			panic(err)
		}
		var no mpt.NodeObject
		rd := io.NewBinReaderFromBuf(raw)
		no.DecodeBinary(rd)
		if rd.Err != nil {
			panic(rd.Err)
		}
		obs := hx.Safe(func() string {
			if err := b.RestoreHashNode(bytes.Clone(path), no.Node); err != nil {
				return "err:" + err.Error()
			}
			return ""
		})
		positions++
		if obs != "" {
			restoreErr = fmt.Sprintf("%s at path %x", obs, path)
			return
		}
		switch n.typ {
		case 0:
			for i := 0; i < 16; i++ {
				if n.kids[i] != nil {
					rec(n.kids[i], append(bytes.Clone(path), byte(i)))
				}
			}
			if n.kids[16] != nil {
				rec(n.kids[16], path)
			}
		case 1:
			rec(n.next, append(bytes.Clone(path), n.key...))
		}
	}
	rec(rootKey(root), nil)
	o.Add("restore:positions", positions)
	if restoreErr != "" {
		o.Fail("restore-failed", k, "[restore/%s] %s", mode, restoreErr)
		return
	}
	dv := readView(dst)
	rcMode := mode != "all"
	o.Line("restore "+strings.Join(es, ","), "r="+hex.EncodeToString(root[:])+" "+storeObs(rcMode, view{}, dv))
	o.Seen(fmt.Sprintf("restore/%s:%d:%s", mode, len(cont), root.StringLE()[:8]))

	// oracle: the restored store is exact for the trie
	w := newWalker(dv, rcMode)
	if e := w.walk(rootKey(root), nil); e != nil {
		o.Fail("restore:"+e.key, k, "[restore/%s] node %s: %s", mode, e.hash, e.msg)
		return
	}
	if !sameCont(w.cont, cont) {
		o.Fail("restore:content-mismatch", k, "[restore/%s] restored trie holds %d pairs, source %d", mode, len(w.cont), len(cont))
	}
	for hs, n := range w.occ {
		c := w.cells[hs]
		if rcMode && (!c.active || int(c.num) != n) {
			o.Fail("restore:count-mismatch", k, "[restore/%s] node %x occurs %d times, stored active=%v num=%d", mode, hs, n, c.active, c.num)
			return
		}
		if n > 1 {
			o.Count("restore:shared-node")
		}
	}
	for hs := range dv {
		if _, ok := w.occ[hs]; !ok {
			o.Fail("restore:garbage-node", k, "[restore/%s] record %x is not part of the restored trie", mode, hs)
			return
		}
	}
	// and readable through the API
	for _, kk := range ks {
		got, err := mpt.NewTrie(mpt.NewHashNode(root), trieMode(mode), storage.NewMemCachedStore(dst)).Get([]byte(kk))
		if err != nil || !bytes.Equal(got, cont[kk]) {
			o.Fail("restore:get-mismatch", k, "[restore/%s] key %x: got %x err %v", mode, kk, got, err)
			break
		}
	}
	_ = util.Uint256{}
}
