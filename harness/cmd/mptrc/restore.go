package main

// State-sync restore (billet.go): every (node, path) of a source trie is handed to
// Billet.RestoreHashNode once, parents first; the destination store must end up exact.

import (
	"bytes"
	"encoding/hex"
	"fmt"
	"sort"
	"strings"

	"github.com/nspcc-dev/neo-go/pkg/core/mpt"
	"github.com/nspcc-dev/neo-go/pkg/core/storage"
	"github.com/nspcc-dev/neo-go/pkg/io"
	"github.com/nspcc-dev/neo-go/pkg/util"

	"verif/harness/internal/hx"
	"verif/harness/internal/prng"
)

func runRestoreCase(o *hx.Out, f *hx.Flags, k int, r *prng.R) {
	mode := []string{"latest", "gc", "all"}[r.Weighted([]int{3, 2, 1})]
	lower := []string{"mem", "copy", "bolt"}[r.Weighted([]int{2, 4, 2})]
	g := newGen(r, o, r.Chance(1, 3))
	cont := map[string][]byte{}
	g.changes(cont, r.Range(1, 25))
	if len(cont) == 0 {
		cont[string(g.pool[0])] = []byte{0xaa}
	}
	restoreRun(o, k, r, mode, lower, cont, g, 3)
}

// restoreRun restores the trie with contents cont into an empty store over the given persistent
// layer, flushing to it before a restoration with probability 1/persistP, then goes on with blocks.
func restoreRun(o *hx.Out, k int, r *prng.R, mode, lower string, cont map[string][]byte, g *gen, persistP int) {
	o.Count("case:restore/" + mode)
	o.Count("restore:lower:" + lower)
	// source trie, everything kept
	src := storage.NewMemCachedStore(storage.NewMemoryStore())
	tr := mpt.NewTrie(nil, mpt.ModeAll, src)
	ks := make([]string, 0, len(cont))
	for kk := range cont {
		ks = append(ks, kk)
	}
	sort.Strings(ks)
	var es []string
	for _, kk := range ks {
		if err := tr.Put([]byte(kk), cont[kk]); err != nil {
			panic(err)
		}
		es = append(es, hx.Hex([]byte(kk))+"="+hx.Hex(cont[kk]))
	}
	tr.Flush(0)
	root := tr.StateRoot()
	sv := readView(src)

	ps, _, cleanup := newLower(lower)
	defer cleanup()
	dst := storage.NewMemCachedStore(ps)
	b := mpt.NewBillet(root, trieMode(mode), storage.STTempStorage, dst)
	var restoreErr string
	positions, persists := 0, 0
	var sched []byte // per restoration: '1' = the store was persisted just before it
	var rec func(h []byte, path []byte)
	rec = func(h []byte, path []byte) {
		if restoreErr != "" {
			return
		}
		raw := sv[string(h)]
		n, err := parseNode(raw)
		if err != nil {
			panic(err)
		}
		var no mpt.NodeObject
		rd := io.NewBinReaderFromBuf(raw)
		no.DecodeBinary(rd)
		if rd.Err != nil {
			panic(rd.Err)
		}
		// the sync can be interrupted / flushed to disk between any two restorations
		if r.Chance(1, persistP) {
			var err error
			if r.Bool() {
				_, err = dst.PersistSync()
			} else {
				_, err = dst.Persist()
			}
			if err != nil {
				panic(err)
			}
			persists++
			sched = append(sched, '1')
		} else {
			sched = append(sched, '0')
		}
		obs := hx.Safe(func() string {
			if err := b.RestoreHashNode(bytes.Clone(path), no.Node); err != nil {
				return "err:" + err.Error()
			}
			return ""
		})
		positions++
		if obs != "" {
			restoreErr = fmt.Sprintf("%s at path %x", obs, path)
			return
		}
		switch n.typ {
		case 0:
			for i := 0; i < 16; i++ {
				if n.kids[i] != nil {
					rec(n.kids[i], append(bytes.Clone(path), byte(i)))
				}
			}
			if n.kids[16] != nil {
				rec(n.kids[16], path)
			}
		case 1:
			rec(n.next, append(bytes.Clone(path), n.key...))
		}
	}
	rec(rootKey(root), nil)
	o.Add("restore:positions", positions)
	o.Add("restore:persists-between", persists)

	idx := uint32(r.Range(1, 9)) + baseHeight(r, o)
	m := newTrieMFrom(mode, ps, dst, root)
	h := newHist(o, k, mode, m)
	if restoreErr != "" {
		h.fail("restore-failed", "%s", restoreErr)
		return
	}
	dv := readView(dst)
	rcMode := mode != "all"
	h.line(fmt.Sprintf("restore %d %s %s", idx, strings.Join(es, ","), sched), "r="+hex.EncodeToString(root[:])+" "+storeObs(rcMode, view{}, dv))
	h.prev, h.last = dv, dv
	h.cont = cont
	h.recs[idx] = &rec0{root: root, cont: cont}
	h.heights = append(h.heights, idx)
	if r.Bool() {
		h.persist()
	}
	h.probes = pickProbes(r, g.pool)
	o.Seen(fmt.Sprintf("restore/%s:%d:%s", mode, len(cont), root.StringLE()[:8]))

	// oracle: the restored store is exact for the trie
	w := newWalker(dv, rcMode)
	if e := w.walk(rootKey(root), nil); e != nil {
		h.fail("restore:"+e.key, "node %s: %s", e.hash, e.msg)
		return
	}
	if !sameCont(w.cont, cont) {
		h.fail("restore:content-mismatch", "restored trie holds %d pairs, source %d", len(w.cont), len(cont))
	}
	for hs, n := range w.occ {
		c := w.cells[hs]
		if rcMode && (!c.active || int(c.num) != n) {
			h.fail("restore:count-mismatch", "node %x occurs %d times, stored active=%v num=%d", hs, n, c.active, c.num)
			return
		}
		if n > 1 {
			o.Count("restore:shared-node")
		}
	}
	for hs := range dv {
		if _, ok := w.occ[hs]; !ok {
			h.fail("restore:garbage-node", "record %x is not part of the restored trie", hs)
			return
		}
	}
	// the node goes on from the restored state: blocks that remove / re-create copies, GC, reads
	nb := r.Range(2, 6)
	for i := 0; i < nb && !h.dead; i++ {
		idx++
		h.block(idx, g.blockOps(h.cont, false, 5))
		if h.dead {
			break
		}
		if mode == "gc" && r.Chance(1, 3) {
			if r.Bool() {
				h.gc(idx - uint32(r.Intn(2)))
			} else {
				h.gcl(idx - uint32(r.Intn(3)))
			}
		}
		if r.Chance(1, 3) {
			h.persist()
		}
		if r.Chance(1, 6) {
			h.reset()
		}
	}
	if !h.dead {
		h.checkRetained(h.m.View(), true)
	}
	_ = util.Uint256{}
}
