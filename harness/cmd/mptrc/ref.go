package main

// Independent reading of the raw DataMPT records: node parser, walker, occurrence recount,
// canonical store observation (digest + change list). Nothing here calls the trie code.

import (
	"bytes"
	"crypto/sha256"
	"encoding/binary"
	"encoding/hex"
	"errors"
	"fmt"
	"sort"
	"strings"

	"github.com/nspcc-dev/neo-go/pkg/core/mpt"
	"github.com/nspcc-dev/neo-go/pkg/core/storage"
	"github.com/nspcc-dev/neo-go/pkg/io"
	"github.com/nspcc-dev/neo-go/pkg/util"
)

// view is the merged content of the DataMPT prefix: hash (32 raw bytes, as stored) -> value.
type view map[string][]byte

func readView(s *storage.MemCachedStore) view {
	v := view{}
	s.Seek(storage.SeekRange{Prefix: []byte{byte(storage.DataMPT)}}, func(k, val []byte) bool {
		v[string(k[1:])] = bytes.Clone(val)
		return true
	})
	return v
}

func readViewStore(s storage.Store) view {
	v := view{}
	s.Seek(storage.SeekRange{Prefix: []byte{byte(storage.DataMPT)}}, func(k, val []byte) bool {
		v[string(k[1:])] = bytes.Clone(val)
		return true
	})
	return v
}

// cell is a decoded store value.
type cell struct {
	bytes  []byte
	rc     bool // has the 5-byte suffix
	active bool
	num    uint32 // count if active, deactivation height otherwise
}

func splitValue(rcMode bool, v []byte) (cell, error) {
	if !rcMode {
		return cell{bytes: v}, nil
	}
	if len(v) < 6 {
		return cell{}, errors.New("value shorter than suffix")
	}
	fl := v[len(v)-5]
	if fl > 1 {
		return cell{}, fmt.Errorf("bad active flag %d", fl)
	}
	return cell{bytes: v[:len(v)-5], rc: true, active: fl == 1, num: binary.LittleEndian.Uint32(v[len(v)-4:])}, nil
}

func tagOf(rcMode bool, v []byte) string {
	c, err := splitValue(rcMode, v)
	if err != nil {
		return "x" + hex.EncodeToString(v)
	}
	if !c.rc {
		return "p"
	}
	if c.active {
		return fmt.Sprintf("a%d", c.num)
	}
	return fmt.Sprintf("i%d", c.num)
}

// storeObs is the canonical observation of the whole node store: number of records, a digest over
// all of them (sorted by key), and the list of records that changed since prev.
func storeObs(rcMode bool, prev, cur view) string {
	keys := make([]string, 0, len(cur))
	for k := range cur {
		keys = append(keys, k)
	}
	sort.Strings(keys)
	h := sha256.New()
	var l [4]byte
	for _, k := range keys {
		h.Write([]byte(k))
		binary.LittleEndian.PutUint32(l[:], uint32(len(cur[k])))
		h.Write(l[:])
		h.Write(cur[k])
	}
	dg := h.Sum(nil)
	all := map[string]bool{}
	for k := range prev {
		all[k] = true
	}
	for k := range cur {
		all[k] = true
	}
	ak := make([]string, 0, len(all))
	for k := range all {
		ak = append(ak, k)
	}
	sort.Strings(ak)
	var ch []string
	for _, k := range ak {
		pv, pok := prev[k]
		cv, cok := cur[k]
		switch {
		case cok && (!pok || !bytes.Equal(pv, cv)):
			ch = append(ch, hex.EncodeToString([]byte(k[:4]))+":"+tagOf(rcMode, cv))
		case pok && !cok:
			ch = append(ch, hex.EncodeToString([]byte(k[:4]))+":-")
		}
	}
	cs := "-"
	if len(ch) > 0 {
		cs = strings.Join(ch, ",")
	}
	return fmt.Sprintf("n=%d dg=%s ch=%s", len(cur), hex.EncodeToString(dg[:8]), cs)
}

// rnode is a node parsed from its stored bytes (children are hashes).
type rnode struct {
	typ  byte
	kids [17][]byte // 32-byte hash or nil (empty)
	key  []byte     // extension key (nibbles)
	next []byte
	val  []byte
}

func readVarBytes(b []byte) ([]byte, []byte, error) {
	if len(b) == 0 {
		return nil, nil, errors.New("eof")
	}
	var n int
	switch {
	case b[0] < 0xfd:
		n, b = int(b[0]), b[1:]
	case b[0] == 0xfd && len(b) >= 3:
		n, b = int(binary.LittleEndian.Uint16(b[1:])), b[3:]
	case b[0] == 0xfe && len(b) >= 5:
		n, b = int(binary.LittleEndian.Uint32(b[1:])), b[5:]
	default:
		return nil, nil, errors.New("bad varint")
	}
	if n > len(b) {
		return nil, nil, errors.New("short")
	}
	return b[:n], b[n:], nil
}

func readChild(b []byte) ([]byte, []byte, error) {
	if len(b) == 0 {
		return nil, nil, errors.New("eof")
	}
	switch b[0] {
	case 4:
		return nil, b[1:], nil
	case 3:
		if len(b) < 33 {
			return nil, nil, errors.New("short hash")
		}
		return b[1:33], b[33:], nil
	}
	return nil, nil, fmt.Errorf("child of type %d", b[0])
}

func parseNode(b []byte) (*rnode, error) {
	if len(b) == 0 {
		return nil, errors.New("empty")
	}
	n := &rnode{typ: b[0]}
	b = b[1:]
	var err error
	switch n.typ {
	case 0:
		for i := 0; i < 17; i++ {
			n.kids[i], b, err = readChild(b)
			if err != nil {
				return nil, err
			}
		}
	case 1:
		n.key, b, err = readVarBytes(b)
		if err != nil {
			return nil, err
		}
		n.next, b, err = readChild(b)
		if err != nil {
			return nil, err
		}
		if n.next == nil {
			return nil, errors.New("extension with empty next")
		}
	case 2:
		n.val, b, err = readVarBytes(b)
		if err != nil {
			return nil, err
		}
	default:
		return nil, fmt.Errorf("stored node of type %d", n.typ)
	}
	if len(b) != 0 {
		return nil, errors.New("trailing bytes")
	}
	return n, nil
}

// realDecodes tells whether the implementation's own decoder accepts the node bytes.
func realDecodes(b []byte) error {
	var n mpt.NodeObject
	r := io.NewBinReaderFromBuf(b)
	n.DecodeBinary(r)
	return r.Err
}

type walkErr struct {
	key  string // oracle key
	hash string
	msg  string
}

func (e *walkErr) Error() string { return e.key + " " + e.hash + " " + e.msg }

// walker walks the unfolded trie named by a root hash through a view.
type walker struct {
	v      view
	rcMode bool
	occ    map[string]int    // occurrences per hash in the unfolded trie
	cont   map[string][]byte // key (bytes of the nibble path) -> value
	cells  map[string]cell   // visited cells
	check  func(h string, c cell) *walkErr
	steps  int
}

func newWalker(v view, rcMode bool) *walker {
	return &walker{v: v, rcMode: rcMode, occ: map[string]int{}, cont: map[string][]byte{}, cells: map[string]cell{}}
}

func (w *walker) walk(h []byte, path []byte) *walkErr {
	w.steps++
	if w.steps > 2_000_000 {
		return &walkErr{"walk-too-long", "", "more than 2e6 steps"}
	}
	hs := string(h)
	raw, ok := w.v[hs]
	hh := hex.EncodeToString(h)
	if !ok {
		return &walkErr{"node-missing", hh, fmt.Sprintf("at path %x", path)}
	}
	c, err := splitValue(w.rcMode, raw)
	if err != nil {
		return &walkErr{"node-bad-suffix", hh, err.Error()}
	}
	if w.check != nil {
		if e := w.check(hs, c); e != nil {
			return e
		}
	}
	n, err := parseNode(c.bytes)
	if err != nil {
		return &walkErr{"node-undecodable", hh, err.Error()}
	}
	if err := realDecodes(c.bytes); err != nil {
		return &walkErr{"node-undecodable-real", hh, err.Error()}
	}
	if dh := dsha(c.bytes); !bytes.Equal(dh, h) {
		return &walkErr{"node-hash-mismatch", hh, "stored bytes hash to " + hex.EncodeToString(dh)}
	}
	w.occ[hs]++
	w.cells[hs] = c
	switch n.typ {
	case 0:
		for i := 0; i < 16; i++ {
			if n.kids[i] != nil {
				if e := w.walk(n.kids[i], append(bytes.Clone(path), byte(i))); e != nil {
					return e
				}
			}
		}
		if n.kids[16] != nil {
			if e := w.walk(n.kids[16], path); e != nil {
				return e
			}
		}
	case 1:
		return w.walk(n.next, append(bytes.Clone(path), n.key...))
	case 2:
		if len(path)%2 != 0 {
			return &walkErr{"odd-path", hh, fmt.Sprintf("%x", path)}
		}
		k := make([]byte, len(path)/2)
		for i := range k {
			k[i] = path[2*i]<<4 | path[2*i+1]
		}
		w.cont[string(k)] = n.val
	}
	return nil
}

func dsha(b []byte) []byte {
	a := sha256.Sum256(b)
	c := sha256.Sum256(a[:])
	return c[:]
}

func isZero(u util.Uint256) bool { return u == util.Uint256{} }

// rootKey converts a state root into the store key form (the node hash bytes as stored).
func rootKey(u util.Uint256) []byte { return u.BytesBE() }
