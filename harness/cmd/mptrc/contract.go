package main

// The storage contract, assembled by hand with pkg/vm/emit (put / del).

import (
	"fmt"

	"github.com/nspcc-dev/neo-go/pkg/core/interop/interopnames"
	"github.com/nspcc-dev/neo-go/pkg/core/state"
	"github.com/nspcc-dev/neo-go/pkg/io"
	"github.com/nspcc-dev/neo-go/pkg/neotest"
	"github.com/nspcc-dev/neo-go/pkg/smartcontract"
	"github.com/nspcc-dev/neo-go/pkg/smartcontract/manifest"
	"github.com/nspcc-dev/neo-go/pkg/smartcontract/nef"
	"github.com/nspcc-dev/neo-go/pkg/util"
	"github.com/nspcc-dev/neo-go/pkg/vm/emit"
	"github.com/nspcc-dev/neo-go/pkg/vm/opcode"
)

type method struct {
	name   string
	params []smartcontract.ParamType
	code   func(w *io.BinWriter)
}

func buildContract(sender util.Uint160, name string) *neotest.Contract {
	ba := smartcontract.ByteArrayType
	ms := []method{
		{"put", []smartcontract.ParamType{ba, ba}, func(w *io.BinWriter) {
			emit.Instruction(w, opcode.INITSLOT, []byte{0, 2})
			emit.Opcodes(w, opcode.LDARG1, opcode.LDARG0)
			emit.Syscall(w, interopnames.SystemStorageGetContext)
			emit.Syscall(w, interopnames.SystemStoragePut)
			emit.Opcodes(w, opcode.RET)
		}},
		{"del", []smartcontract.ParamType{ba}, func(w *io.BinWriter) {
			emit.Instruction(w, opcode.INITSLOT, []byte{0, 1})
			emit.Opcodes(w, opcode.LDARG0)
			emit.Syscall(w, interopnames.SystemStorageGetContext)
			emit.Syscall(w, interopnames.SystemStorageDelete)
			emit.Opcodes(w, opcode.RET)
		}},
	}
	w := io.NewBufBinWriter()
	m := manifest.NewManifest(name)
	for _, md := range ms {
		off := w.Len()
		md.code(w.BinWriter)
		ps := make([]manifest.Parameter, len(md.params))
		for i, p := range md.params {
			ps[i] = manifest.NewParameter(fmt.Sprintf("p%d", i), p)
		}
		m.ABI.Methods = append(m.ABI.Methods, manifest.Method{Name: md.name, Offset: off, Parameters: ps, ReturnType: smartcontract.VoidType})
	}
	ne, err := nef.NewFile(w.Bytes())
	if err != nil {
		panic(err)
	}
	return &neotest.Contract{Hash: state.CreateContractHash(sender, ne.Checksum, name), NEF: ne, Manifest: m}
}
