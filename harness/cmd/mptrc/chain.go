package main

// Chain level: a real core.Blockchain (pkg/neotest) in each trie mode, a hand-assembled storage
// contract producing the per-block change sets. The MPT batch of a block is the difference of the
// full contract storage (natives included) before and after it.
//
// gc modes: "gc" = the harness calls stateroot.Module.GC itself at chosen heights (the node's own
// trigger is parked by a huge GarbageCollectionPeriod); "gcreal" = small MaxTraceableBlocks /
// GarbageCollectionPeriod, the node collects by itself from the persist timer (blockchain.go
// tryRunGC) and the harness learns the index from the node's log.

import (
	"bytes"
	"encoding/binary"
	"fmt"
	"sort"
	"time"

	"github.com/nspcc-dev/neo-go/pkg/config"
	"github.com/nspcc-dev/neo-go/pkg/core"
	"github.com/nspcc-dev/neo-go/pkg/core/stateroot"
	"github.com/nspcc-dev/neo-go/pkg/core/storage"
	"github.com/nspcc-dev/neo-go/pkg/core/transaction"
	"github.com/nspcc-dev/neo-go/pkg/io"
	"github.com/nspcc-dev/neo-go/pkg/neotest"
	"github.com/nspcc-dev/neo-go/pkg/neotest/chain"
	"github.com/nspcc-dev/neo-go/pkg/smartcontract/callflag"
	"github.com/nspcc-dev/neo-go/pkg/util"
	"github.com/nspcc-dev/neo-go/pkg/vm/emit"
	"go.uber.org/zap"
	"go.uber.org/zap/zaptest/observer"

	"verif/harness/internal/hx"
	"verif/harness/internal/prng"
)

type chainM struct {
	bc  *core.Blockchain
	mod *stateroot.Module
	ps  storage.Store
}

func (c *chainM) Name() string  { return "chain" }
func (c *chainM) CanDrop() bool { return false }
func (c *chainM) Block(uint32, []subop, bool) (util.Uint256, string) {
	panic("chain blocks are produced by transactions")
}
func (c *chainM) GC(g uint32) {
	c.Persist()
	c.mod.GC(g, c.ps)
}
func (c *chainM) GCLow(g uint32)     { c.mod.GC(g, c.ps) }
func (c *chainM) Upper() (view, int) { return readUpper(c.mod.Store) }
func (c *chainM) Reset()             {}
func (c *chainM) Persist() {
	if err := c.bc.VerifPersist(); err != nil {
		panic(err)
	}
}
func (c *chainM) View() view { return readView(c.mod.Store) }
func (c *chainM) Get(root util.Uint256, key []byte) ([]byte, error) {
	return c.mod.GetState(root, key)
}
func (c *chainM) Find(root util.Uint256, prefix []byte) ([]storage.KeyValue, error) {
	return c.mod.FindStates(root, prefix, nil, 10000)
}

func idKey(id int32, key []byte) []byte {
	b := make([]byte, 4, 4+len(key))
	binary.LittleEndian.PutUint32(b, uint32(id))
	return append(b, key...)
}

func dumpAll(bc *core.Blockchain, ids []int32) map[string][]byte {
	d := map[string][]byte{}
	for _, id := range ids {
		bc.SeekStorage(id, nil, func(k, v []byte) bool {
			d[string(idKey(id, k))] = bytes.Clone(v)
			return true
		})
	}
	return d
}

func diffBatch(prev, cur map[string][]byte) []subop {
	keys := map[string]bool{}
	for k := range prev {
		keys[k] = true
	}
	for k := range cur {
		keys[k] = true
	}
	ks := make([]string, 0, len(keys))
	for k := range keys {
		ks = append(ks, k)
	}
	sort.Strings(ks)
	var cs []change
	for _, k := range ks {
		pv, pok := prev[k]
		cv, cok := cur[k]
		switch {
		case cok && (!pok || !bytes.Equal(pv, cv)):
			if cv == nil {
				cv = []byte{}
			}
			cs = append(cs, change{[]byte(k), cv})
		case pok && !cok:
			cs = append(cs, change{[]byte(k), nil})
		}
	}
	return []subop{{kind: 'b', batch: cs}}
}

func runChainCase(o *hx.Out, f *hx.Flags, k int, r *prng.R) {
	mode := []string{"latest", "gc", "all", "gcreal"}[r.Weighted([]int{3, 3, 1, 2})]
	o.Count("case:chain/" + mode)
	t := &tb{}
	defer t.done()
	ps := storage.NewMemoryStore()
	zc, logs := observer.New(zap.InfoLevel)
	mtb, gcp := uint32(r.Range(2, 4)), uint32(r.Range(1, 3))
	bc, acc := chain.NewSingleWithOptions(t, &chain.Options{
		Store:  ps,
		Logger: zap.New(zc),
		BlockchainConfigHook: func(c *config.Blockchain) {
			switch mode {
			case "latest":
				c.KeepOnlyLatestState = true
			case "gc":
				c.RemoveUntraceableBlocks = true
				c.GarbageCollectionPeriod = 1 << 30 // the node never collects by itself
			case "gcreal":
				c.RemoveUntraceableBlocks = true
				c.MaxTraceableBlocks = mtb
				c.Genesis.MaxTraceableBlocks = mtb
				c.GarbageCollectionPeriod = gcp
			}
		},
	})
	mod, ok := bc.GetStateModule().(*stateroot.Module)
	if !ok {
		o.Fail("harness-module-type", k, "state module is %T", bc.GetStateModule())
		return
	}
	cm := &chainM{bc: bc, mod: mod, ps: ps}
	hmode := mode
	if mode == "gcreal" {
		hmode = "gc"
	}
	h := newHist(o, k, hmode, cm)
	quiet := mode == "gcreal"
	e := neotest.NewExecutor(t, bc, acc, acc)
	var ids []int32
	for _, nc := range bc.GetNatives() {
		ids = append(ids, nc.ID)
	}
	prev := map[string][]byte{}
	record := func() bool {
		ht := bc.BlockHeight()
		sr, err := mod.GetStateRoot(ht)
		if err != nil {
			h.fail("no-state-root", "height %d: %v", ht, err)
			return false
		}
		cur := dumpAll(bc, ids)
		h.committed(ht, diffBatch(prev, cur), sr.Root, cur, quiet)
		prev = cur
		return true
	}
	if !record() { // genesis
		return
	}
	c := buildContract(e.Validator.ScriptHash(), "S")
	e.DeployContract(t, c, nil)
	cs := bc.GetContractState(c.Hash)
	if cs == nil {
		o.Fail("harness-deploy", k, "contract not deployed")
		return
	}
	ids = append(ids, cs.ID)
	g := newGen(r, o, false)
	for _, i := range permN(r, len(g.pool), 8) {
		h.probes = append(h.probes, idKey(cs.ID, g.pool[i]))
	}
	h.probes = append(h.probes, idKey(cs.ID, []byte{0x77}))
	if !record() {
		return
	}
	own := map[string][]byte{} // the contract's storage, keyed by the contract-level key
	nBlocks := r.Range(6, 14)
	if f.Tier == "thorough" {
		nBlocks = r.Range(10, 30)
	}
	gcSeen := 0
	allPersisted := false
	waitQuiet := func() {
		// wait until everything is persisted and a collection started by that persist has finished
		allPersisted = false
		deadline := time.Now().Add(6 * time.Second)
		for time.Now().Before(deadline) {
			time.Sleep(60 * time.Millisecond)
			done := false
			for _, en := range logs.FilterMessage("persisted to disk").All() {
				if bh, ok := en.ContextMap()["blockHeight"]; ok && fmt.Sprint(bh) == fmt.Sprint(bc.BlockHeight()) {
					done = true
				}
			}
			if !done {
				continue
			}
			time.Sleep(80 * time.Millisecond)
			st := logs.FilterMessage("starting MPT garbage collection").Len()
			fi := logs.FilterMessage("finished MPT garbage collection").Len()
			if st == fi {
				allPersisted = true
				break
			}
		}
		starts := logs.FilterMessage("starting MPT garbage collection").All()
		for ; gcSeen < len(starts); gcSeen++ {
			var gi uint32
			fmt.Sscan(fmt.Sprint(starts[gcSeen].ContextMap()["index"]), &gi)
			h.gcObserved(gi)
		}
		h.sync()
	}
	for b := 0; b < nBlocks && !h.dead; b++ {
		ntx := r.Range(0, 2)
		var txs []*transaction.Transaction
		for i := 0; i < ntx; i++ {
			w := io.NewBufBinWriter()
			for _, ch := range dedupe(g.changes(own, r.Range(1, 4))) {
				if ch.val == nil {
					emit.AppCall(w.BinWriter, c.Hash, "del", callflag.All, ch.key)
				} else {
					emit.AppCall(w.BinWriter, c.Hash, "put", callflag.All, ch.key, ch.val)
				}
			}
			txs = append(txs, e.PrepareInvocation(t, w.Bytes(), []neotest.Signer{e.Validator}))
		}
		e.AddNewBlock(t, txs...)
		if !record() {
			return
		}
		switch mode {
		case "gc":
			if r.Chance(1, 3) {
				top := int(bc.BlockHeight())
				gi := top - r.Intn(4)
				if gi < 0 {
					gi = 0
				}
				h.gc(uint32(gi))
			}
		case "gcreal":
			if r.Chance(1, 4) || b == nBlocks-1 {
				waitQuiet()
			}
		}
	}
	if !quiet && !h.dead {
		h.checkRetained(cm.View(), true)
	}
	if mode == "gcreal" && !h.dead && !allPersisted {
		o.Count("gcreal:tick-check-skipped") // the machine was too slow: the log would be ambiguous
	}
	if mode == "gcreal" && !h.dead && allPersisted {
		// Stop the node (Close waits for Run to return, so the tryRunGC of the last tick has finished;
		// everything was persisted by the last waitQuiet, so the persist of Run's exit logs nothing) and
		// read the complete log: every "persisted to disk" entry is one timer tick of Run with
		// oldPersisted = blockHeight - blocks; a "starting MPT garbage collection" entry before the next
		// tick is its collection. The model of tryRunGC must predict each decision and index.
		mtbNow := bc.GetMaxTraceableBlocks()
		t.done()
		var cur *[2]uint32
		obs := "gc=-"
		flush := func() {
			if cur != nil {
				h.line(fmt.Sprintf("tickchk %d %d %d", mtbNow, cur[0], cur[1]), obs)
				o.Count("gcreal:tick-checked")
				if obs != "gc=-" {
					o.Count("gcreal:tick-checked:collected")
				}
			}
			cur, obs = nil, "gc=-"
		}
		h.line(fmt.Sprintf("cfg %d 0 0 %d", gcp, mtbNow), "ok")
		for _, en := range logs.All() {
			switch en.Message {
			case "persisted to disk":
				flush()
				var bh, nb uint32
				fmt.Sscan(fmt.Sprint(en.ContextMap()["blockHeight"]), &bh)
				fmt.Sscan(fmt.Sprint(en.ContextMap()["blocks"]), &nb)
				cur = &[2]uint32{bh - nb, bh}
			case "starting MPT garbage collection":
				if cur == nil {
					h.fail("harness-gc-log", "a collection without a preceding persist in the log")
					continue
				}
				obs = "gc=" + fmt.Sprint(en.ContextMap()["index"])
			}
		}
		flush()
	}
	o.Seen(fmt.Sprintf("chain/%s:%d:%d", mode, nBlocks, len(own)))
}
